import TR.FS
import Proofs.FSC10

/-!
# Proofs.C10Gen — helper lemmas for C10 over every history of lives (kill, restart, clean-up, run again)

Part A: a crash-point invariant stronger than `Safe`: at every crash point inside an operation every `.cptv`
entry is complete AND its id is one of the ids started so far (`Good (· ∈ used)`); that is what start-up
clean-up needs to re-establish the boundary invariant `Boundary [] used` for the next life.

Part B: `.cptv` entries are never lost: a system call of the protocol that leaves the `bad` flag down keeps
every `.cptv` entry (same status).
-/
namespace TR.C10Gen
open TR.FS TR.C10

/-! ## Part A — crash points with ids, and clean-up -/

/-- crash points of `start i`: `.cptv` ids are among the ids started before -/
theorem op_start_good {opn used : List Nat} {d : Dir} {i : Nat} (hb : Boundary opn used d) (hi : i ∉ used) :
    (∀ pre, pre <+: startSteps i → Good (fun k => k ∈ used) (d.run pre)) ∧
      Boundary (i :: opn) (i :: used) (d.run (startSteps i)) :=
  ⟨fun _ hp => (neutral_prefix (startSteps_neutral i) hb.2.2 hp).mono fun _ h => h.1, (op_start hb hi).2⟩

theorem op_write_good {opn used : List Nat} {d : Dir} (i : Nat) (hb : Boundary opn used d) :
    (∀ pre, pre <+: writeSteps i → Good (fun k => k ∈ used) (d.run pre)) ∧
      Boundary opn used (d.run (writeSteps i)) :=
  ⟨fun _ hp => (neutral_prefix (writeSteps_neutral i) hb.2.2 hp).mono fun _ h => h.1, (op_write i hb).2⟩

/-- crash points of `stop i`: before the rename nothing changed under `.cptv` names; after it the new
`.cptv` entry belongs to `i`, which was started -/
theorem op_stop_good {opn used : List Nat} {d : Dir} {i : Nat} (hb : Boundary opn used d) (hi : i ∈ opn) :
    (∀ pre, pre <+: stopSteps i → Good (fun k => k ∈ used) (d.run pre)) ∧
      Boundary (opn.erase i) used (d.run (stopSteps i)) := by
  refine ⟨fun pre hp => ?_, (op_stop hb hi).2⟩
  rw [stopSteps_eq, List.prefix_concat_iff] at hp
  rcases hp with rfl | hp
  · rw [← stopSteps_eq]; exact (op_stop hb hi).2.2.2.mono fun _ h => h.1
  · exact (neutral_prefix (stopHead_neutral i) hb.2.2 hp).mono fun _ h => h.1

theorem op_discard_good {opn used : List Nat} {d : Dir} (i : Nat) (hb : Boundary opn used d) :
    (∀ pre, pre <+: discardSteps i → Good (fun k => k ∈ used) (d.run pre)) ∧
      Boundary (opn.erase i) used (d.run (discardSteps i)) :=
  ⟨fun _ hp => (neutral_prefix (discardSteps_neutral i) hb.2.2 hp).mono fun _ h => h.1, (op_discard i hb).2⟩

theorem op_startFail_good {opn used : List Nat} {d : Dir} {i : Nat} (hb : Boundary opn used d) (hi : i ∉ used) :
    (∀ pre, pre <+: startFailSteps i → Good (fun k => k ∈ used) (d.run pre)) ∧
      Boundary opn (i :: used) (d.run (startFailSteps i)) :=
  ⟨fun _ hp => (neutral_prefix (startFailSteps_neutral i) hb.2.2 hp).mono fun _ h => h.1,
    (op_startFail hb hi).2⟩

/-- sequencing with ids: a crash point of `a ++ rest` lies inside `a`, or inside `rest` after all of `a` -/
theorem seq_good {B : Dir → Prop} {P₁ P₂ P : Nat → Prop} {d : Dir} {a rest pre : List Sys}
    (hop : (∀ pre, pre <+: a → Good P₁ (d.run pre)) ∧ B (d.run a))
    (ih : ∀ d', B d' → ∀ pre, pre <+: rest → Good P₂ (d'.run pre))
    (h₁ : ∀ k, P₁ k → P k) (h₂ : ∀ k, P₂ k → P k)
    (hp : pre <+: a ++ rest) : Good P (d.run pre) := by
  rcases prefix_append_cases hp with h1 | ⟨t, rfl, ht⟩
  · exact (hop.1 pre h1).mono h₁
  · rw [run_append]; exact (ih _ hop.2 t ht).mono h₂

/-- start-up clean-up of a crash state whose `.cptv` ids are all in `used` gives a boundary state with no open
recording (clean-up keeps the `sealed` and `bad` fields: `bad` is down by `Good`, `sealed` is not part of
the invariant — `stop` re-seals its own `T` before it renames) -/
theorem boundary_cleanup {used : List Nat} {d : Dir} (h : Good (fun k => k ∈ used) d) :
    Boundary [] used d.cleanup := by
  refine ⟨List.nodup_nil, fun _ hk => absurd hk List.not_mem_nil, h.1, fun p hp hk => ?_⟩
  simp only [Dir.cleanup, List.mem_filter] at hp
  exact ⟨(h.2 p hp.1 hk).1, (h.2 p hp.1 hk).2, List.not_mem_nil⟩

/-- clean-up keeps every `.cptv` entry -/
theorem mem_cleanup {d : Dir} {p : Name × Status} (hp : p ∈ d.files) (hk : p.1.kind = Kind.F) :
    p ∈ d.cleanup.files := by
  simp only [Dir.cleanup, List.mem_filter, beq_iff_eq]
  exact ⟨hp, hk⟩

/-! ## Part B — `.cptv` entries are never lost -/

/-- system calls that do not remove or truncate a `.cptv` name, except possibly as the target of a rename
(and the monitor raises `bad` when a rename targets an existing `.cptv` name) -/
def NoFLoss : Sys → Prop
  | .creat n => n.kind ≠ Kind.F
  | .write _ => True
  | .close _ => True
  | .unlink n => n.kind ≠ Kind.F
  | .rename a _ => a.kind ≠ Kind.F

theorem steps_noFLoss (op : Op) : ∀ s ∈ op.steps, NoFLoss s := by
  intro s hs
  cases op <;>
    simp only [Op.steps, startSteps, writeSteps, stopSteps, discardSteps, startFailSteps, List.mem_cons,
      List.not_mem_nil, or_false] at hs <;>
    rcases hs with rfl | rfl | rfl | rfl | rfl | rfl | rfl | rfl <;> simp [NoFLoss]

theorem flat_noFLoss (ops : List Op) : ∀ s ∈ ops.flatMap Op.steps, NoFLoss s := by
  intro s hs
  obtain ⟨op, _, hop⟩ := List.mem_flatMap.1 hs
  exact steps_noFLoss op s hop

theorem mem_remove {d : Dir} {p : Name × Status} {n : Name} (hp : p ∈ d.files) (hn : n ≠ p.1) :
    p ∈ (d.remove n).files := by
  simp only [Dir.remove, List.mem_filter, bne_iff_ne, ne_eq]
  exact ⟨hp, fun h => hn h.symm⟩

theorem mem_put {d : Dir} {p : Name × Status} {n : Name} {st : Status} (hp : p ∈ d.files) (hn : n ≠ p.1) :
    p ∈ (d.put n st).files := by
  simp only [Dir.put]
  exact List.mem_cons_of_mem _ (mem_remove hp hn)

/-- one protocol call that leaves `bad` down keeps every `.cptv` entry -/
theorem step_keeps {d : Dir} {s : Sys} {p : Name × Status} (hs : NoFLoss s) (hbad : (d.step s).bad = false)
    (hp : p ∈ d.files) (hk : p.1.kind = Kind.F) : p ∈ (d.step s).files := by
  cases s with
  | creat n =>
    have hn : n ≠ p.1 := fun h => hs (h ▸ hk)
    have hF : (n.kind == Kind.F) = false := by simpa using (show n.kind ≠ Kind.F from hs)
    simp only [Dir.step, hF, Bool.false_eq_true, if_false]
    split
    · exact mem_put (d := { d with sealed := _ }) hp hn
    · exact mem_put hp hn
  | write n =>
    simp only [Dir.step]
    split <;> split <;> exact hp
  | close n =>
    simp only [Dir.step]
    split <;> exact hp
  | unlink n => exact mem_remove hp fun h => hs (h ▸ hk)
  | rename a b =>
    have ha : a ≠ p.1 := fun h => hs (h ▸ hk)
    have hb : b ≠ p.1 := by
      intro h
      have hbF : (b.kind == Kind.F) = true := by simp [h, hk]
      have hhas : d.has b = true := by
        simp only [Dir.has, List.any_eq_true, beq_iff_eq]
        exact ⟨p, hp, h.symm⟩
      simp [Dir.step, Dir.put, Dir.remove, hbF, hhas] at hbad
    simp only [Dir.step]
    split
    · exact mem_put (mem_remove (d := { d with bad := true }) hp ha) hb
    · exact mem_put (mem_remove hp ha) hb

/-- protocol calls along which `bad` stays down keep every `.cptv` entry -/
theorem run_keeps {u : List Sys} : ∀ {d : Dir} {p : Name × Status}, (∀ s ∈ u, NoFLoss s) →
    (∀ v, v <+: u → (d.run v).bad = false) → p ∈ d.files → p.1.kind = Kind.F → p ∈ (d.run u).files := by
  induction u with
  | nil => intro d p _ _ hp _; exact hp
  | cons a u ih =>
    intro d p hs hbad hp hk
    have : Dir.run d (a :: u) = Dir.run (d.step a) u := rfl
    rw [this]
    refine ih (fun s h => hs s (List.mem_cons_of_mem _ h)) (fun v hv => ?_) ?_ hk
    · exact hbad (a :: v) ((List.prefix_cons_inj a).2 hv)
    · exact step_keeps (hs a (List.mem_cons_self ..)) (hbad [a] (by simp)) hp hk

end TR.C10Gen
