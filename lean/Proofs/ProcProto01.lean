import TR.ProcMon
import Proofs.ProcBase
/-!
# Proofs.ProcProto01 — product invariant of the processor model and the C01/C02 monitor

`PInv K s m` relates a model state `s` and the monitor state `m` between two events.
`pinv_step` shows it is preserved by every event that does not dictate a failing motion-sink
write, `pinv_trace` lifts that to event lists.  `det_start` / `processFrame_start` give the exact
observations of an event on which a recording starts (used by `Props.C02`).
-/
namespace TR
namespace P01
open PState

/-! ## the monitor on single observations -/

/-- a successful motion-sink write -/
abbrev W (id : Nat) : Obs := Obs.call .motion (.write id) true

theorem obs_md (K : Nat) (m : M12) : M12.obs K m .md = m := rfl
theorem obs_rs (K : Nat) (m : M12) : M12.obs K m .rs = m := rfl
theorem obs_re (K : Nat) (m : M12) : M12.obs K m .re = m := rfl
theorem obs_panic (K : Nat) (m : M12) : M12.obs K m .panic = m := rfl
theorem obs_can (K : Nat) (m : M12) (ok : Bool) : M12.obs K m (.call .motion .can ok) = m := rfl
theorem obs_start_ok (K : Nat) (m : M12) :
    M12.obs K m (.call .motion .start true) = { m with openRec := true, last := none } := rfl
theorem obs_start_fail (K : Nat) (m : M12) : M12.obs K m (.call .motion .start false) = m := rfl
theorem obs_stop (K : Nat) (m : M12) (ok : Bool) :
    M12.obs K m (.call .motion .stop ok) = { m with openRec := false } := rfl

/-- calls on the continuous-recorder or test-recording sink -/
def offMotion : Obs → Bool
  | .call .const _ _ => true
  | .call .test _ _ => true
  | _ => false

theorem obs_off (K : Nat) (m : M12) (o : Obs) (h : offMotion o = true) : M12.obs K m o = m := by
  cases o with
  | call s cl ok =>
    cases s with
    | motion => exact absurd h (by simp [offMotion])
    | _ => cases cl <;> cases ok <;> rfl
  | _ => exact absurd h (by simp [offMotion])

theorem isWrite_off (o : Obs) (h : offMotion o = true) : o.isWrite .motion = none := by
  cases o with
  | call s cl ok =>
    cases s with
    | motion => exact absurd h (by simp [offMotion])
    | _ => cases cl <;> simp [Obs.isWrite]
  | _ => rfl

theorem offMotion_iff (o : Obs) :
    offMotion o = true ↔ ∃ cl ok, o = Obs.call .const cl ok ∨ o = Obs.call .test cl ok := by
  cases o with
  | call s cl ok => cases s <;> simp [offMotion]
  | _ => simp [offMotion]

theorem fold_off (K : Nat) : ∀ (os : List Obs) (m : M12), os.all offMotion = true →
    os.foldl (M12.obs K) m = m := by
  intro os
  induction os with
  | nil => intro m _; rfl
  | cons o os ih =>
    intro m h
    simp only [List.all_cons, Bool.and_eq_true] at h
    rw [List.foldl_cons, obs_off K m o h.1]
    exact ih m h.2

/-- an acceptable write: contiguous inside a recording, or the C02 boundary at its start -/
theorem obs_write_eq (K : Nat) (m : M12) (id : Nat) (ok : Bool) (hf : m.fails = [])
    (h : match m.last with
         | some l => id = l + 1
         | none => id = max (m.cur + 1 - K) m.nextFree) :
    M12.obs K m (.call .motion (.write id) ok) =
      { m with last := some id, nextFree := max m.nextFree (id + 1) } := by
  obtain ⟨o, cu, n, last, nf, t, fails⟩ := m
  simp only at hf h
  subst hf
  cases last with
  | some l =>
    simp only at h
    simp [M12.obs, h]
  | none =>
    simp only at h
    have h1 : ¬ id < nf := by omega
    simp [M12.obs, ← h, h1]

theorem obs_n (K : Nat) (m : M12) (o : Obs) : (M12.obs K m o).n = m.n := by
  cases o with
  | call s cl ok => cases s <;> cases cl <;> cases ok <;> rfl
  | _ => rfl

theorem obs_cur (K : Nat) (m : M12) (o : Obs) : (M12.obs K m o).cur = m.cur := by
  cases o with
  | call s cl ok => cases s <;> cases cl <;> cases ok <;> rfl
  | _ => rfl

theorem fold_n (K : Nat) : ∀ (os : List Obs) (m : M12), (os.foldl (M12.obs K) m).n = m.n := by
  intro os
  induction os with
  | nil => intro m; rfl
  | cons o os ih => intro m; rw [List.foldl_cons, ih, obs_n]

theorem fold_cur (K : Nat) : ∀ (os : List Obs) (m : M12), (os.foldl (M12.obs K) m).cur = m.cur := by
  intro os
  induction os with
  | nil => intro m; rfl
  | cons o os ih => intro m; rw [List.foldl_cons, ih, obs_cur]

/-! ## the monitor on runs of writes -/

/-- contiguous continuation `l+1, l+2, …, l+len` -/
theorem fold_writes_cont (K : Nat) : ∀ (len : Nat) (m : M12) (l : Nat),
    m.fails = [] → m.last = some l → m.nextFree = l + 1 →
    ((List.range' (l + 1) len).map W).foldl (M12.obs K) m =
      { m with last := some (l + len), nextFree := l + len + 1 } := by
  intro len
  induction len with
  | zero =>
    intro m l _ h2 h3
    obtain ⟨o, cu, n, last, nf, t, fails⟩ := m
    simp only at h2 h3
    simp [h2, h3]
  | succ len ih =>
    intro m l h1 h2 h3
    rw [List.range'_succ, List.map_cons, List.foldl_cons,
      obs_write_eq K m (l + 1) true h1 (by rw [h2])]
    obtain ⟨o, cu, n, last, nf, t, fails⟩ := m
    simp only at h1 h2 h3
    subst h1 h2 h3
    have e : max (l + 1) (l + 1 + 1) = l + 1 + 1 := by omega
    simp only [e]
    rw [ih ⟨o, cu, n, some (l + 1), l + 1 + 1, t, []⟩ (l + 1) rfl rfl rfl]
    simp only [M12.mk.injEq, true_and, and_true, Option.some.injEq]
    omega

/-- a whole run `lo, …, lo+len` from the start of a recording -/
theorem fold_writes_first (K : Nat) (len : Nat) (m : M12) (lo : Nat)
    (hf : m.fails = []) (hl : m.last = none) (hlo : lo = max (m.cur + 1 - K) m.nextFree) :
    ((List.range' lo (len + 1)).map W).foldl (M12.obs K) m =
      { m with last := some (lo + len), nextFree := lo + len + 1 } := by
  rw [List.range'_succ, List.map_cons, List.foldl_cons,
    obs_write_eq K m lo true hf (by rw [hl]; exact hlo)]
  obtain ⟨o, cu, n, last, nf, t, fails⟩ := m
  simp only at hf hl hlo
  subst hf hl
  have e : max nf (lo + 1) = lo + 1 := by omega
  simp only [e]
  rw [fold_writes_cont K len ⟨o, cu, n, some lo, lo + 1, t, []⟩ lo rfl rfl rfl]

/-! ## `recordPreTriggerFrames` without a dictated failure -/

theorem preTrigger_ok : ∀ (ids : List Nat) (k : Nat),
    preTrigger 0 ids k = (ids.map W, true, k + ids.length) := by
  intro ids
  induction ids with
  | nil => intro k; rfl
  | cons id rest ih =>
    intro k
    simp only [preTrigger, Nat.succ_ne_zero, if_false, ih, List.map_cons, List.length_cons]
    refine Prod.ext rfl (Prod.ext rfl ?_)
    simp only
    omega

theorem dropLast_range' (a n : Nat) : (List.range' a (n + 1)).dropLast = List.range' a n := by
  rw [List.range'_concat, List.dropLast_concat]

/-! ## `process` cut into its three stages -/

/-- the detection branch of `process` (verbatim) -/
def det (c : PCfg) (s : PState) (motion : Bool) (f : Faults) : R × Nat :=
  if motion then
    let s := { s with triggered := s.triggered + 1 }
    if s.isRec then (({ s with writeUntil := min (s.framesWritten + c.minF) c.maxF }, [Obs.md]), 0)
    else if s.triggered < c.trig then ((s, [Obs.md]), 0)
    else if !f.win then ((s, [Obs.md]), 0)
    else if !f.can then ((s, [Obs.md, Obs.call .motion .can false]), 0)
    else if !f.mStart then ((s, [Obs.md, Obs.call .motion .can true, Obs.call .motion .start false]), 0)
    else
      let s := { s with isRec := true }
      let pre := [Obs.md, Obs.call .motion .can true, Obs.call .motion .start true, Obs.rs]
      match s.ring.history with
      | none => ((s, pre ++ [Obs.panic]), 0)
      | some h =>
        let w := preTrigger f.mWriteFail h.dropLast 0
        if w.2.1 then (({ s with writeUntil := c.minF }, pre ++ w.1), w.2.2)
        else ((s, pre ++ w.1), w.2.2)
  else (({ s with triggered := 0 }, []), 0)

/-- "if recording, write the frame" -/
def wr (s : PState) (id k : Nat) (f : Faults) : R :=
  if s.isRec then
    ({ s with framesWritten := s.framesWritten + 1 },
     [Obs.call .motion (.write id) (decide (k + 1 ≠ f.mWriteFail))])
  else (s, [])

/-- `Move`, then stop when the recording is long enough -/
def fin (s : PState) (f : Faults) : R :=
  let s := { s with ring := s.ring.move }
  if s.isRec && decide (s.framesWritten ≥ s.writeUntil) then s.stopRecording f.mStop else (s, [])

theorem process_eq (c : PCfg) (s : PState) (motion : Bool) (f : Faults) :
    process c s motion f =
      (let r1 := det c s motion f
       let r2 := wr r1.1.1 s.n r1.2 f
       let r3 := fin r2.1 f
       (r3.1, r1.1.2 ++ r2.2 ++ r3.2)) := rfl

/-- the observations that open a recording -/
abbrev startPre : List Obs := [Obs.md, Obs.call .motion .can true, Obs.call .motion .start true, Obs.rs]

/-- the detection branch on the event that starts a recording -/
theorem det_start (c : PCfg) (s : PState) (f : Faults) (lo : Nat)
    (hf : f.mWriteFail = 0) (hwin : f.win = true) (hcan : f.can = true) (hst : f.mStart = true)
    (hrec : s.isRec = false) (htr : c.trig ≤ s.triggered + 1)
    (hh : s.ring.history = some (List.range' lo (s.n + 1 - lo))) (hlo : lo ≤ s.n) :
    det c s true f =
      (({ s with triggered := s.triggered + 1, isRec := true, writeUntil := c.minF },
        startPre ++ (List.range' lo (s.n - lo)).map W), s.n - lo) := by
  have e : s.n + 1 - lo = (s.n - lo) + 1 := by omega
  have h1 : ¬ s.triggered + 1 < c.trig := by omega
  simp only [det, if_true, hrec, h1, if_false, hwin, hcan, hst, Bool.not_true, Bool.false_eq_true,
    hh, e, dropLast_range', hf, preTrigger_ok, List.length_range', Nat.zero_add]

/-- the write of frame `n` will be accepted by the monitor -/
def WOK (K : Nat) (m : M12) (n : Nat) : Prop :=
  m.nextFree ≤ n ∧
  match m.last with
  | some l => n = l + 1
  | none => n = max (m.cur + 1 - K) m.nextFree

theorem fold_startPre (K : Nat) (m : M12) :
    startPre.foldl (M12.obs K) m = { m with openRec := true, last := none } := rfl

/-- what stage 1 establishes -/
def DetPost (K : Nat) (s : PState) (m : M12) (r : R × Nat) : Prop :=
  r.1.1.ring = s.ring ∧ r.1.1.n = s.n ∧
  (r.1.2.foldl (M12.obs K) m).fails = [] ∧
  (r.1.1.isRec = true → WOK K (r.1.2.foldl (M12.obs K) m) s.n) ∧
  (r.1.1.isRec = false → s.isRec = false ∧ (r.1.2.foldl (M12.obs K) m).nextFree = m.nextFree)

theorem detPost_quiet (K : Nat) (s : PState) (m : M12) (s' : PState) (os : List Obs) (k : Nat)
    (h1 : s'.ring = s.ring) (h2 : s'.n = s.n) (h3 : s'.isRec = s.isRec)
    (h4 : os.foldl (M12.obs K) m = m) (hfl : m.fails = [])
    (hw : s.isRec = true → WOK K m s.n) : DetPost K s m ((s', os), k) := by
  unfold DetPost
  simp only [h4]
  exact ⟨h1, h2, hfl, fun h => hw (h3 ▸ h), fun h => ⟨h3 ▸ h, trivial⟩⟩

/-- stage 1: the detection branch -/
theorem det_spec (c : PCfg) (s : PState) (m : M12) (motion : Bool) (f : Faults) (lo : Nat)
    (hf : f.mWriteFail = 0)
    (hh : s.ring.history = some (List.range' lo (s.n + 1 - lo))) (hlo : lo ≤ s.n)
    (hcur : m.cur = s.n) (hfl : m.fails = [])
    (hrec : s.isRec = true → m.last = some (s.n - 1) ∧ 1 ≤ s.n ∧ m.nextFree = s.n)
    (hnrec : s.isRec = false → lo = max (s.n + 1 - c.K) m.nextFree) :
    DetPost c.K s m (det c s motion f) := by
  have wok_rec : s.isRec = true → WOK c.K m s.n := by
    intro h
    obtain ⟨h1, h2, h3⟩ := hrec h
    refine ⟨by omega, ?_⟩
    rw [h1]; simp only; omega
  cases motion with
  | false =>
    have e : det c s false f = (({ s with triggered := 0 }, []), 0) := by
      simp only [det, Bool.false_eq_true, if_false]
    rw [e]
    exact detPost_quiet _ _ _ _ _ _ rfl rfl rfl rfl hfl wok_rec
  | true =>
    cases hr : s.isRec with
    | true =>
      have e : det c s true f = (({ s with triggered := s.triggered + 1, writeUntil := min (s.framesWritten + c.minF) c.maxF }, [Obs.md]), 0) := by
        simp only [det, if_true, hr]
      rw [e]
      exact detPost_quiet _ _ _ _ _ _ rfl rfl rfl rfl hfl (hr ▸ wok_rec)
    | false =>
      by_cases h1 : s.triggered + 1 < c.trig
      · have e : det c s true f = (({ s with triggered := s.triggered + 1 }, [Obs.md]), 0) := by
          simp only [det, if_true, hr, h1, Bool.false_eq_true, if_false]
        rw [e]
        exact detPost_quiet _ _ _ _ _ _ rfl rfl rfl rfl hfl (hr ▸ wok_rec)
      cases hwin : f.win with
      | false =>
        have e : det c s true f = (({ s with triggered := s.triggered + 1 }, [Obs.md]), 0) := by
          simp only [det, if_true, hr, h1, hwin, Bool.not_false, Bool.false_eq_true, if_false]
        rw [e]
        exact detPost_quiet _ _ _ _ _ _ rfl rfl rfl rfl hfl (hr ▸ wok_rec)
      | true =>
      cases hcan : f.can with
      | false =>
        have e : det c s true f = (({ s with triggered := s.triggered + 1 },
            [Obs.md, Obs.call .motion .can false]), 0) := by
          simp only [det, if_true, hr, h1, hwin, hcan, Bool.not_false, Bool.not_true, Bool.false_eq_true,
            if_false]
        rw [e]
        exact detPost_quiet _ _ _ _ _ _ rfl rfl rfl rfl hfl (hr ▸ wok_rec)
      | true =>
      cases hst : f.mStart with
      | false =>
        have e : det c s true f = (({ s with triggered := s.triggered + 1 },
            [Obs.md, Obs.call .motion .can true, Obs.call .motion .start false]), 0) := by
          simp only [det, if_true, hr, h1, hwin, hcan, hst, Bool.not_false, Bool.not_true,
            Bool.false_eq_true, if_false]
        rw [e]
        exact detPost_quiet _ _ _ _ _ _ rfl rfl rfl rfl hfl (hr ▸ wok_rec)
      | true =>
        rw [det_start c s f lo hf hwin hcan hst hr (by omega) hh hlo]
        unfold DetPost
        simp only [List.foldl_append, fold_startPre]
        have hlo' := hnrec hr
        refine ⟨trivial, trivial, ?_, ?_, fun h => by simp at h⟩
        · by_cases hn : lo = s.n
          · simp only [hn, Nat.sub_self, List.range'_zero, List.map_nil, List.foldl_nil]; exact hfl
          · have e : s.n - lo = (s.n - lo - 1) + 1 := by omega
            rw [e, fold_writes_first c.K (s.n - lo - 1) { m with openRec := true, last := none } lo hfl rfl (by simp only [hcur]; exact hlo')]
            exact hfl
        · intro _
          by_cases hn : lo = s.n
          · simp only [hn, Nat.sub_self, List.range'_zero, List.map_nil, List.foldl_nil]
            refine ⟨by simp only; omega, ?_⟩
            simp only [hcur]; omega
          · have e : s.n - lo = (s.n - lo - 1) + 1 := by omega
            rw [e, fold_writes_first c.K (s.n - lo - 1) { m with openRec := true, last := none } lo hfl rfl (by simp only [hcur]; exact hlo')]
            refine ⟨by simp only; omega, ?_⟩
            simp only; omega

/-- stage 2: the write of the frame itself -/
theorem wr_spec (K : Nat) (s : PState) (m : M12) (id k : Nat) (f : Faults)
    (hfl : m.fails = []) (hw : s.isRec = true → WOK K m id) :
    (wr s id k f).1.ring = s.ring ∧ (wr s id k f).1.n = s.n ∧ (wr s id k f).1.isRec = s.isRec ∧
    ((wr s id k f).2.foldl (M12.obs K) m).fails = [] ∧
    (s.isRec = true → ((wr s id k f).2.foldl (M12.obs K) m).last = some id ∧
        ((wr s id k f).2.foldl (M12.obs K) m).nextFree = id + 1) ∧
    (s.isRec = false → ((wr s id k f).2.foldl (M12.obs K) m).nextFree = m.nextFree) := by
  cases hr : s.isRec with
  | false =>
    have e : wr s id k f = (s, []) := by simp only [wr, hr, Bool.false_eq_true, if_false]
    rw [e]
    exact ⟨rfl, rfl, hr, hfl, fun h => by simp at h, fun _ => rfl⟩
  | true =>
    obtain ⟨h1, h2⟩ := hw hr
    have hg : match m.last with
        | some l => id = l + 1
        | none => id = max (m.cur + 1 - K) m.nextFree := h2
    have e : wr s id k f = ({ s with framesWritten := s.framesWritten + 1 },
        [Obs.call .motion (.write id) (decide (k + 1 ≠ f.mWriteFail))]) := by
      simp only [wr, hr, if_true]
    rw [e]
    simp only [List.foldl_cons, List.foldl_nil, obs_write_eq K m id _ hfl hg]
    exact ⟨trivial, trivial, hr, hfl, fun _ => ⟨trivial, by omega⟩, fun h => by simp at h⟩

/-- `stopRecording`: `SetAsOldest` iff a recording was open; the monitor only closes its recording -/
theorem stop_spec (K : Nat) (s : PState) (m : M12) (b : Bool) :
    (s.stopRecording b).1.n = s.n ∧ (s.stopRecording b).1.isRec = false ∧
    ((s.stopRecording b).2.foldl (M12.obs K) m).fails = m.fails ∧
    ((s.stopRecording b).2.foldl (M12.obs K) m).last = m.last ∧
    ((s.stopRecording b).2.foldl (M12.obs K) m).nextFree = m.nextFree ∧
    ((s.isRec = false ∧ (s.stopRecording b).1.ring = s.ring) ∨
     (s.isRec = true ∧ (s.stopRecording b).1.ring = s.ring.setAsOldest)) := by
  cases hr : s.isRec with
  | false =>
    have e : s.stopRecording b = (s, []) := by
      simp only [stopRecording, hr, Bool.not_false, if_true]
    rw [e]
    exact ⟨rfl, hr, rfl, rfl, rfl, Or.inl ⟨rfl, rfl⟩⟩
  | true =>
    have e : s.stopRecording b = ({ s with framesWritten := 0, writeUntil := 0, isRec := false, triggered := 0, ring := s.ring.setAsOldest }, [Obs.re, Obs.call .motion .stop b]) := by
      simp only [stopRecording, hr, Bool.not_true, Bool.false_eq_true, if_false]
    rw [e]
    exact ⟨rfl, rfl, rfl, rfl, rfl, Or.inr ⟨rfl, rfl⟩⟩

/-- stage 3: `Move`, then possibly `stopRecording` -/
theorem fin_spec (K : Nat) (s : PState) (m : M12) (f : Faults) :
    (fin s f).1.n = s.n ∧
    ((fin s f).2.foldl (M12.obs K) m).fails = m.fails ∧
    ((fin s f).2.foldl (M12.obs K) m).last = m.last ∧
    ((fin s f).2.foldl (M12.obs K) m).nextFree = m.nextFree ∧
    (((fin s f).1.isRec = s.isRec ∧ (fin s f).1.ring = s.ring.move) ∨
     (s.isRec = true ∧ (fin s f).1.isRec = false ∧ (fin s f).1.ring = s.ring.move.setAsOldest)) := by
  unfold fin
  simp only
  split
  · obtain ⟨h1, h2, h3, h4, h5, h6⟩ := stop_spec K { s with ring := s.ring.move } m f.mStop
    refine ⟨h1, h3, h4, h5, ?_⟩
    rcases h6 with ⟨h7, h8⟩ | ⟨h7, h8⟩
    · exact Or.inl ⟨by rw [h2]; exact h7.symm, h8⟩
    · exact Or.inr ⟨h7, h2, h8⟩
  · exact ⟨rfl, rfl, rfl, rfl, Or.inl ⟨rfl, rfl⟩⟩

/-! ## the sinks the monitor ignores -/

theorem const_spec (c : PCfg) (s : PState) (id : Nat) (f : Faults) :
    (processConstantRecorder c s id f).1.ring = s.ring ∧ (processConstantRecorder c s id f).1.n = s.n ∧
    (processConstantRecorder c s id f).1.isRec = s.isRec ∧
    (processConstantRecorder c s id f).2.all offMotion = true := by
  unfold processConstantRecorder
  simp only
  split
  · exact ⟨rfl, rfl, rfl, rfl⟩
  · split
    · exact ⟨rfl, rfl, rfl, rfl⟩
    · split <;> split <;> exact ⟨rfl, rfl, rfl, rfl⟩

theorem stopConst_spec (c : PCfg) (s : PState) (f : Faults) :
    (stopConstantRecorder c s f).1.ring = s.ring ∧ (stopConstantRecorder c s f).1.n = s.n ∧
    (stopConstantRecorder c s f).1.isRec = s.isRec ∧
    (stopConstantRecorder c s f).2.all offMotion = true := by
  unfold stopConstantRecorder
  split <;> exact ⟨rfl, rfl, rfl, rfl⟩

theorem snap_spec (c : PCfg) (s : PState) (id : Nat) (f : Faults) :
    (processSnapshot c s id f).1.ring = s.ring ∧ (processSnapshot c s id f).1.n = s.n ∧
    (processSnapshot c s id f).1.isRec = s.isRec ∧
    (processSnapshot c s id f).2.all offMotion = true := by
  obtain ⟨ring, n, isRec, fw, wu, tr, cr, startSnap, snapRec, snapFrames⟩ := s
  by_cases hlast : snapFrames + 1 > c.testLast <;>
  cases startSnap <;> cases snapRec <;> cases h1 : f.tStart <;> cases h2 : f.tStop <;>
    simp [processSnapshot, h1, h2, hlast, offMotion]

/-! ## the product invariant -/

/-- the part of the invariant that does not mention the frame counters of the monitor -/
def PCore (K : Nat) (s : PState) (m : M12) : Prop :=
  m.fails = [] ∧ ∃ mark, RBase K s.ring s.n mark ∧
    (s.isRec = true → m.last = some (s.n - 1) ∧ 1 ≤ s.n ∧ m.nextFree = s.n) ∧
    (s.isRec = false → mark = m.nextFree)

/-- model state `s` and monitor state `m` between two events -/
def PInv (K : Nat) (s : PState) (m : M12) : Prop := m.n = s.n ∧ PCore K s m

theorem pcore_congr {K : Nat} {s s' : PState} {m m' : M12}
    (h1 : s'.ring = s.ring) (h2 : s'.n = s.n) (h3 : s'.isRec = s.isRec)
    (h4 : m'.fails = m.fails) (h5 : m'.last = m.last) (h6 : m'.nextFree = m.nextFree)
    (h : PCore K s m) : PCore K s' m' := by
  unfold PCore at h ⊢
  rw [h1, h2, h3, h4, h5, h6]
  exact h

theorem pinv_init (c : PCfg) (hK : 0 < c.K) : PInv c.K (PState.init c) {} :=
  ⟨rfl, rfl, 0, rbase_init c.K hK, fun h => by simp [PState.init] at h, fun _ => rfl⟩

/-- `stopRecording` keeps the core invariant -/
theorem pcore_stop (K : Nat) (s : PState) (m : M12) (b : Bool) (h : PCore K s m) :
    PCore K (s.stopRecording b).1 ((s.stopRecording b).2.foldl (M12.obs K) m) := by
  obtain ⟨hfl, mark, hb, hrec, hnrec⟩ := h
  obtain ⟨h1, h2, h3, h4, h5, h6⟩ := stop_spec K s m b
  refine ⟨by rw [h3]; exact hfl, ?_⟩
  rcases h6 with ⟨h7, h8⟩ | ⟨h7, h8⟩
  · refine ⟨mark, by rw [h8, h1]; exact hb, fun h => by rw [h2] at h; simp at h, fun _ => ?_⟩
    rw [h5]; exact hnrec h7
  · refine ⟨s.n, by rw [h8, h1]; exact rbase_mark hb, fun h => by rw [h2] at h; simp at h, fun _ => ?_⟩
    rw [h5]; exact (hrec h7).2.2.symm

/-- `process` on frame `s.n` (already parsed into the current slot) -/
theorem process_spec (c : PCfg) (s : PState) (m : M12) (motion : Bool) (f : Faults)
    (hf : f.mWriteFail = 0) (hcur : m.cur = s.n) (h : PCore c.K s m) :
    (process c { s with ring := s.ring.write s.n } motion f).1.n = s.n ∧
    PCore c.K { (process c { s with ring := s.ring.write s.n } motion f).1 with n := s.n + 1 }
      ((process c { s with ring := s.ring.write s.n } motion f).2.foldl (M12.obs c.K) m) := by
  obtain ⟨hfl, mark, hb, hrec, hnrec⟩ := h
  rw [process_eq]
  simp only [List.foldl_append]
  have hK := rbase_size hb
  have hd := det_spec c { s with ring := s.ring.write s.n } m motion f (loOf c.K s.n mark) hf
    (rbase_history hb) (loOf_le c.K s.n mark hK (rbase_mark_le hb)) hcur hfl hrec
    (fun h => by unfold loOf; rw [hnrec h]; exact Nat.max_comm _ _)
  generalize det c { s with ring := s.ring.write s.n } motion f = r1 at hd ⊢
  obtain ⟨d1, d2, d3, d4, d5⟩ := hd
  have hw := wr_spec c.K r1.1.1 (r1.1.2.foldl (M12.obs c.K) m) s.n r1.2 f d3 d4
  generalize hm1 : r1.1.2.foldl (M12.obs c.K) m = m1 at hw d3 d4 d5 ⊢
  show (fin (wr r1.1.1 s.n r1.2 f).1 f).1.n = s.n ∧ _
  generalize wr r1.1.1 s.n r1.2 f = r2 at hw ⊢
  obtain ⟨w1, w2, w3, w4, w5, w6⟩ := hw
  have hfin := fin_spec c.K r2.1 (r2.2.foldl (M12.obs c.K) m1) f
  generalize hm2 : r2.2.foldl (M12.obs c.K) m1 = m2 at hfin w4 w5 w6 ⊢
  generalize fin r2.1 f = r3 at hfin ⊢
  obtain ⟨f1, f2, f3, f4, f5⟩ := hfin
  have hring : r2.1.ring.move = (s.ring.write s.n).move := by rw [w1, d1]
  refine ⟨by rw [f1, w2, d2], by rw [f2]; exact w4, ?_⟩
  rcases f5 with ⟨g1, g2⟩ | ⟨g1, g2, g3⟩
  · refine ⟨mark, ?_, ?_, ?_⟩
    · show RBase c.K r3.1.ring (s.n + 1) mark
      rw [g2, hring]; exact rbase_accept hb
    · intro hr
      have hr1 : r1.1.1.isRec = true := by rw [← w3, ← g1]; exact hr
      obtain ⟨a1, a2⟩ := w5 hr1
      show (r3.2.foldl (M12.obs c.K) m2).last = some (s.n + 1 - 1) ∧ 1 ≤ s.n + 1 ∧
        (r3.2.foldl (M12.obs c.K) m2).nextFree = s.n + 1
      rw [f3, f4, a1, a2]
      exact ⟨rfl, by omega, rfl⟩
    · intro hr
      have hr1 : r1.1.1.isRec = false := by rw [← w3, ← g1]; exact hr
      obtain ⟨a1, a2⟩ := d5 hr1
      rw [f4, w6 hr1, a2]
      exact hnrec a1
  · refine ⟨s.n + 1, ?_, ?_, ?_⟩
    · show RBase c.K r3.1.ring (s.n + 1) (s.n + 1)
      rw [g3, hring]; exact rbase_mark (rbase_accept hb)
    · intro hr
      have : r3.1.isRec = true := hr
      rw [g2] at this; simp at this
    · intro _
      have hr1 : r1.1.1.isRec = true := by rw [← w3]; exact g1
      rw [f4, (w5 hr1).2]

/-! ## one event -/

/-- the monitor state at the start of an event, before its observations are folded in -/
def pre (m : M12) (b : Bool) : M12 :=
  let m := if b then { m with tainted := true } else m
  { m with cur := m.n }

theorem step_eq (K : Nat) (m : M12) (st : Step) :
    M12.step K m st =
      (if st.ev.isFrame then
        { st.obs.foldl (M12.obs K) (pre m st.motionWriteFault) with
          n := (st.obs.foldl (M12.obs K) (pre m st.motionWriteFault)).n + 1 }
       else st.obs.foldl (M12.obs K) (pre m st.motionWriteFault)) := rfl

theorem pre_cur (m : M12) (b : Bool) : (pre m b).cur = m.n := by cases b <;> rfl
theorem pre_n (m : M12) (b : Bool) : (pre m b).n = m.n := by cases b <;> rfl
theorem pre_fails (m : M12) (b : Bool) : (pre m b).fails = m.fails := by cases b <;> rfl
theorem pre_last (m : M12) (b : Bool) : (pre m b).last = m.last := by cases b <;> rfl
theorem pre_nextFree (m : M12) (b : Bool) : (pre m b).nextFree = m.nextFree := by cases b <;> rfl

theorem pcore_pre {K : Nat} {s : PState} {m : M12} (b : Bool) (h : PCore K s m) : PCore K s (pre m b) :=
  pcore_congr rfl rfl rfl (pre_fails m b) (pre_last m b) (pre_nextFree m b) h

theorem processFrame_eq (c : PCfg) (s : PState) (motion : Bool) (f : Faults) :
    processFrame c s motion f =
      (let p := process c { s with ring := s.ring.write s.n } motion f
       let q := processConstantRecorder c p.1 s.n f
       let t := processSnapshot c q.1 s.n f
       ({ t.1 with n := s.n + 1 }, p.2 ++ q.2 ++ t.2)) := rfl

theorem pinv_frame (c : PCfg) (s : PState) (m : M12) (motion : Bool) (f : Faults)
    (hf : f.mWriteFail = 0) (h : PInv c.K s m) :
    PInv c.K (processFrame c s motion f).1
      (M12.step c.K m ⟨.frame motion f, (processFrame c s motion f).2⟩) := by
  obtain ⟨hn, hc⟩ := h
  rw [step_eq]
  simp only [Ev.isFrame, if_true]
  generalize Step.motionWriteFault _ = b
  rw [processFrame_eq]
  simp only [List.foldl_append]
  have hp := process_spec c s (pre m b) motion f hf (by rw [pre_cur, hn]) (pcore_pre b hc)
  generalize process c { s with ring := s.ring.write s.n } motion f = p at hp ⊢
  obtain ⟨p1, p2⟩ := hp
  obtain ⟨q1, q2, q3, q4⟩ := const_spec c p.1 s.n f
  generalize processConstantRecorder c p.1 s.n f = q at q1 q2 q3 q4 ⊢
  obtain ⟨t1, t2, t3, t4⟩ := snap_spec c q.1 s.n f
  generalize processSnapshot c q.1 s.n f = t at t1 t2 t3 t4 ⊢
  rw [fold_off c.K q.2 _ q4, fold_off c.K t.2 _ t4]
  refine ⟨?_, ?_⟩
  · show (p.2.foldl (M12.obs c.K) (pre m b)).n + 1 = s.n + 1
    rw [fold_n, pre_n, hn]
  · exact pcore_congr (s := { p.1 with n := s.n + 1 }) (m := p.2.foldl (M12.obs c.K) (pre m b))
      (show t.1.ring = p.1.ring by rw [t1, q1]) rfl (show t.1.isRec = p.1.isRec by rw [t3, q3]) rfl rfl rfl p2

theorem pinv_bad (c : PCfg) (s : PState) (m : M12) (f : Faults) (h : PInv c.K s m) :
    PInv c.K (processBad c s f).1 (M12.step c.K m ⟨.bad f, (processBad c s f).2⟩) := by
  obtain ⟨hn, hc⟩ := h
  rw [step_eq]
  simp only [Ev.isFrame, Bool.false_eq_true, if_false]
  generalize Step.motionWriteFault _ = b
  have e : processBad c s f =
      (let p := stopRecording { s with ring := s.ring.write garbage } f.mStop
       let q := stopConstantRecorder c p.1 f
       (q.1, p.2 ++ q.2)) := rfl
  rw [e]
  simp only [List.foldl_append]
  have hc' : PCore c.K { s with ring := s.ring.write garbage } (pre m b) := by
    obtain ⟨hfl, mark, hb, hrec, hnrec⟩ := pcore_pre b hc
    exact ⟨hfl, mark, rbase_write garbage hb, hrec, hnrec⟩
  have hp := pcore_stop c.K { s with ring := s.ring.write garbage } (pre m b) f.mStop hc'
  have hpn := (stop_spec c.K { s with ring := s.ring.write garbage } (pre m b) f.mStop).1
  generalize stopRecording { s with ring := s.ring.write garbage } f.mStop = p at hp hpn ⊢
  obtain ⟨q1, q2, q3, q4⟩ := stopConst_spec c p.1 f
  generalize stopConstantRecorder c p.1 f = q at q1 q2 q3 q4 ⊢
  rw [fold_off c.K q.2 _ q4]
  refine ⟨?_, pcore_congr q1 q2 q3 rfl rfl rfl hp⟩
  show (p.2.foldl (M12.obs c.K) (pre m b)).n = q.1.n
  rw [fold_n, pre_n, hn, q2, hpn]

theorem pinv_reset (c : PCfg) (s : PState) (m : M12) (f : Faults) (h : PInv c.K s m) :
    PInv c.K (s.stopRecording f.mStop).1 (M12.step c.K m ⟨.reset f, (s.stopRecording f.mStop).2⟩) := by
  obtain ⟨hn, hc⟩ := h
  rw [step_eq]
  simp only [Ev.isFrame, Bool.false_eq_true, if_false]
  generalize Step.motionWriteFault _ = b
  refine ⟨?_, pcore_stop c.K s (pre m b) f.mStop (pcore_pre b hc)⟩
  rw [fold_n, pre_n, hn, (stop_spec c.K s (pre m b) f.mStop).1]

theorem pinv_step (c : PCfg) (s : PState) (m : M12) (ev : Ev)
    (hf : ev.faults.mWriteFail = 0) (h : PInv c.K s m) :
    PInv c.K (PState.step c s ev).1 (M12.step c.K m ⟨ev, (PState.step c s ev).2⟩) := by
  cases ev with
  | frame motion f => exact pinv_frame c s m motion f hf h
  | bad f => exact pinv_bad c s m f h
  | reset f => exact pinv_reset c s m f h
  | testReq =>
    obtain ⟨hn, hc⟩ := h
    rw [step_eq]
    simp only [Ev.isFrame, Bool.false_eq_true, if_false]
    generalize Step.motionWriteFault _ = b
    exact ⟨by show (pre m b).n = s.n; rw [pre_n, hn], pcore_congr rfl rfl rfl rfl rfl rfl (pcore_pre b hc)⟩

/-! ## all event lists -/

theorem pinv_trace (c : PCfg) : ∀ (evs : List Ev) (s : PState) (m : M12),
    (∀ ev ∈ evs, ev.faults.mWriteFail = 0) → PInv c.K s m →
    PInv c.K (PState.after c s evs) ((PState.trace c s evs).foldl (M12.step c.K) m) := by
  intro evs
  induction evs with
  | nil => intro s m _ h; exact h
  | cons e es ih =>
    intro s m hw h
    simp only [PState.after, PState.trace, List.foldl_cons]
    exact ih _ _ (fun ev hev => hw ev (List.mem_cons_of_mem _ hev))
      (pinv_step c s m e (hw e (List.mem_cons_self ..)) h)

/-! ## the observations of an event that starts a recording (for C02) -/

theorem fin_obs (s : PState) (f : Faults) :
    (fin s f).2 = [] ∨ (fin s f).2 = [Obs.re, Obs.call .motion .stop f.mStop] := by
  unfold fin
  simp only
  split
  · rename_i h
    simp only [Bool.and_eq_true] at h
    have e : stopRecording { s with ring := s.ring.move } f.mStop = ({ s with framesWritten := 0, writeUntil := 0, isRec := false, triggered := 0, ring := s.ring.move.setAsOldest }, [Obs.re, Obs.call .motion .stop f.mStop]) := by
      simp only [stopRecording, h.1, Bool.not_true, Bool.false_eq_true, if_false]
    rw [e]; exact Or.inr rfl
  · exact Or.inl rfl

theorem processFrame_start (c : PCfg) (s : PState) (f : Faults) (lo : Nat)
    (hf : f.mWriteFail = 0) (hwin : f.win = true) (hcan : f.can = true) (hst : f.mStart = true)
    (hrec : s.isRec = false) (htr : c.trig ≤ s.triggered + 1)
    (hh : (s.ring.write s.n).history = some (List.range' lo (s.n + 1 - lo))) (hlo : lo ≤ s.n) :
    ∃ tail side : List Obs,
      (tail = [] ∨ tail = [Obs.re, Obs.call .motion .stop f.mStop]) ∧ side.all offMotion = true ∧
      (processFrame c s true f).2 = startPre ++ (List.range' lo (s.n + 1 - lo)).map W ++ tail ++ side := by
  rw [processFrame_eq, process_eq]
  have e := det_start c { s with ring := s.ring.write s.n } f lo hf hwin hcan hst hrec htr hh hlo
  simp only at e ⊢
  rw [e]
  have ew : ∀ s' : PState, s'.isRec = true → wr s' s.n (s.n - lo) f =
      ({ s' with framesWritten := s'.framesWritten + 1 }, [W s.n]) := by
    intro s' h
    simp [wr, h, hf]
  rw [ew _ rfl]
  simp only
  have er : List.range' lo (s.n + 1 - lo) = List.range' lo (s.n - lo) ++ [s.n] := by
    have : s.n + 1 - lo = (s.n - lo) + 1 := by omega
    rw [this, List.range'_concat]
    congr 2; omega
  rw [er, List.map_append]
  generalize hfin : fin _ f = r3
  have h3 : r3.2 = [] ∨ r3.2 = [Obs.re, Obs.call .motion .stop f.mStop] := by
    rw [← hfin]; exact fin_obs _ f
  obtain ⟨_, _, _, q4⟩ := const_spec c r3.1 s.n f
  generalize processConstantRecorder c r3.1 s.n f = q at q4 ⊢
  obtain ⟨_, _, _, t4⟩ := snap_spec c q.1 s.n f
  generalize processSnapshot c q.1 s.n f = t at t4 ⊢
  refine ⟨r3.2, q.2 ++ t.2, h3, by rw [List.all_append, q4, t4]; rfl, ?_⟩
  simp only [List.append_assoc, List.map_cons, List.map_nil]

/-! ## the monitor's `nextFree` is determined by the motion-sink writes alone -/

/-- one more than the largest id written to the motion sink -/
def bumpFree (a : Nat) (o : Obs) : Nat :=
  match o.isWrite .motion with
  | some (id, _) => max a (id + 1)
  | none => a

theorem obs_nextFree (K : Nat) (m : M12) (o : Obs) : (M12.obs K m o).nextFree = bumpFree m.nextFree o := by
  cases o with
  | call s cl ok => cases s <;> cases cl <;> cases ok <;> rfl
  | _ => rfl

theorem fold_nextFree (K : Nat) : ∀ (os : List Obs) (m : M12),
    (os.foldl (M12.obs K) m).nextFree = os.foldl bumpFree m.nextFree := by
  intro os
  induction os with
  | nil => intro m; rfl
  | cons o os ih => intro m; rw [List.foldl_cons, ih, obs_nextFree, List.foldl_cons]

theorem step_nextFree (K : Nat) (m : M12) (st : Step) :
    (M12.step K m st).nextFree = st.obs.foldl bumpFree m.nextFree := by
  rw [step_eq]
  split
  · show (st.obs.foldl (M12.obs K) (pre m st.motionWriteFault)).nextFree = _
    rw [fold_nextFree, pre_nextFree]
  · rw [fold_nextFree, pre_nextFree]

theorem trace_nextFree (K : Nat) : ∀ (tr : List Step) (m : M12),
    (tr.foldl (M12.step K) m).nextFree = tr.foldl (fun a st => st.obs.foldl bumpFree a) m.nextFree := by
  intro tr
  induction tr with
  | nil => intro m; rfl
  | cons st tr ih => intro m; rw [List.foldl_cons, ih, step_nextFree, List.foldl_cons]

end P01
end TR
