import TR.ProcMon
import Proofs.ProcBase
/-!
# Proofs.ProcProto01 — product invariant of the processor model and the C01/C02 monitor

`PInv K s m` relates a model state `s` and the monitor state `m` between two events.
`pinv_step` shows it is preserved by every event that does not dictate a failing motion-sink
write, `pinv_trace` lifts that to event lists.  `det_start` / `processFrame_start` give the exact
observations of an event on which a recording starts (used by `Props.C02`).
-/
namespace TR
namespace P01
open PState

/-! ## the monitor on single observations -/

/-- a successful motion-sink write -/
abbrev W (id : Nat) : Obs := Obs.call .motion (.write id) true

theorem obs_md (K : Nat) (m : M12) : M12.obs K m .md = m := rfl
theorem obs_rs (K : Nat) (m : M12) : M12.obs K m .rs = m := rfl
theorem obs_re (K : Nat) (m : M12) : M12.obs K m .re = m := rfl
theorem obs_panic (K : Nat) (m : M12) : M12.obs K m .panic = m := rfl
theorem obs_can (K : Nat) (m : M12) (ok : Bool) : M12.obs K m (.call .motion .can ok) = m := rfl
theorem obs_start_ok (K : Nat) (m : M12) :
    M12.obs K m (.call .motion .start true) = { m with openRec := true, last := none } := rfl
theorem obs_start_fail (K : Nat) (m : M12) : M12.obs K m (.call .motion .start false) = m := rfl
theorem obs_stop (K : Nat) (m : M12) (ok : Bool) :
    M12.obs K m (.call .motion .stop ok) = { m with openRec := false } := rfl

/-- observations that are not calls on the motion sink -/
def offMotion : Obs → Bool
  | .call .motion _ _ => false
  | _ => true

theorem obs_off (K : Nat) (m : M12) (o : Obs) (h : offMotion o = true) : M12.obs K m o = m := by
  cases o with
  | call s cl ok =>
    cases s with
    | motion => exact absurd h (by simp [offMotion])
    | _ => cases cl <;> cases ok <;> rfl
  | _ => rfl

theorem isWrite_off (o : Obs) (h : offMotion o = true) : o.isWrite .motion = none := by
  cases o with
  | call s cl ok =>
    cases s with
    | motion => exact absurd h (by simp [offMotion])
    | _ => cases cl <;> simp [Obs.isWrite]
  | _ => rfl

theorem fold_off (K : Nat) : ∀ (os : List Obs) (m : M12), os.all offMotion = true →
    os.foldl (M12.obs K) m = m := by
  intro os
  induction os with
  | nil => intro m _; rfl
  | cons o os ih =>
    intro m h
    simp only [List.all_cons, Bool.and_eq_true] at h
    rw [List.foldl_cons, obs_off K m o h.1]
    exact ih m h.2

/-- an acceptable write: contiguous inside a recording, or the C02 boundary at its start -/
theorem obs_write_eq (K : Nat) (m : M12) (id : Nat) (ok : Bool) (hf : m.fails = [])
    (h : match m.last with
         | some l => id = l + 1
         | none => id = max (m.cur + 1 - K) m.nextFree) :
    M12.obs K m (.call .motion (.write id) ok) =
      { m with last := some id, nextFree := max m.nextFree (id + 1) } := by
  obtain ⟨o, cu, n, last, nf, t, fails⟩ := m
  simp only at hf h
  subst hf
  cases last with
  | some l =>
    simp only at h
    simp [M12.obs, h]
  | none =>
    simp only at h
    have h1 : ¬ id < nf := by omega
    simp [M12.obs, ← h, h1]

theorem obs_n (K : Nat) (m : M12) (o : Obs) : (M12.obs K m o).n = m.n := by
  cases o with
  | call s cl ok => cases s <;> cases cl <;> cases ok <;> rfl
  | _ => rfl

theorem obs_cur (K : Nat) (m : M12) (o : Obs) : (M12.obs K m o).cur = m.cur := by
  cases o with
  | call s cl ok => cases s <;> cases cl <;> cases ok <;> rfl
  | _ => rfl

theorem fold_n (K : Nat) : ∀ (os : List Obs) (m : M12), (os.foldl (M12.obs K) m).n = m.n := by
  intro os
  induction os with
  | nil => intro m; rfl
  | cons o os ih => intro m; rw [List.foldl_cons, ih, obs_n]

theorem fold_cur (K : Nat) : ∀ (os : List Obs) (m : M12), (os.foldl (M12.obs K) m).cur = m.cur := by
  intro os
  induction os with
  | nil => intro m; rfl
  | cons o os ih => intro m; rw [List.foldl_cons, ih, obs_cur]

/-! ## the monitor on runs of writes -/

/-- contiguous continuation `l+1, l+2, …, l+len` -/
theorem fold_writes_cont (K : Nat) : ∀ (len : Nat) (m : M12) (l : Nat),
    m.fails = [] → m.last = some l → m.nextFree = l + 1 →
    ((List.range' (l + 1) len).map W).foldl (M12.obs K) m =
      { m with last := some (l + len), nextFree := l + len + 1 } := by
  intro len
  induction len with
  | zero =>
    intro m l _ h2 h3
    obtain ⟨o, cu, n, last, nf, t, fails⟩ := m
    simp only at h2 h3
    simp [h2, h3]
  | succ len ih =>
    intro m l h1 h2 h3
    rw [List.range'_succ, List.map_cons, List.foldl_cons,
      obs_write_eq K m (l + 1) true h1 (by rw [h2])]
    obtain ⟨o, cu, n, last, nf, t, fails⟩ := m
    simp only at h1 h2 h3
    subst h1 h2 h3
    have e : max (l + 1) (l + 1 + 1) = l + 1 + 1 := by omega
    simp only [e]
    rw [ih ⟨o, cu, n, some (l + 1), l + 1 + 1, t, []⟩ (l + 1) rfl rfl rfl]
    simp only [M12.mk.injEq, true_and, and_true, Option.some.injEq]
    omega

/-- a whole run `lo, …, lo+len` from the start of a recording -/
theorem fold_writes_first (K : Nat) (len : Nat) (m : M12) (lo : Nat)
    (hf : m.fails = []) (hl : m.last = none) (hlo : lo = max (m.cur + 1 - K) m.nextFree) :
    ((List.range' lo (len + 1)).map W).foldl (M12.obs K) m =
      { m with last := some (lo + len), nextFree := lo + len + 1 } := by
  rw [List.range'_succ, List.map_cons, List.foldl_cons,
    obs_write_eq K m lo true hf (by rw [hl]; exact hlo)]
  obtain ⟨o, cu, n, last, nf, t, fails⟩ := m
  simp only at hf hl hlo
  subst hf hl
  have e : max nf (lo + 1) = lo + 1 := by omega
  simp only [e]
  rw [fold_writes_cont K len ⟨o, cu, n, some lo, lo + 1, t, []⟩ lo rfl rfl rfl]

/-! ## `recordPreTriggerFrames` without a dictated failure -/

theorem preTrigger_ok : ∀ (ids : List Nat) (k : Nat),
    preTrigger 0 ids k = (ids.map W, true, k + ids.length) := by
  intro ids
  induction ids with
  | nil => intro k; rfl
  | cons id rest ih =>
    intro k
    simp only [preTrigger, Nat.succ_ne_zero, if_false, ih, List.map_cons, List.length_cons]
    refine Prod.ext rfl (Prod.ext rfl ?_)
    simp only
    omega

theorem dropLast_range' (a n : Nat) : (List.range' a (n + 1)).dropLast = List.range' a n := by
  rw [List.range'_concat, List.dropLast_concat]

/-! ## `process` cut into its three stages -/

/-- the detection branch of `process` (verbatim) -/
def det (c : PCfg) (s : PState) (motion : Bool) (f : Faults) : R × Nat :=
  if motion then
    let s := { s with triggered := s.triggered + 1 }
    if s.isRec then (({ s with writeUntil := min (s.framesWritten + c.minF) c.maxF }, [Obs.md]), 0)
    else if s.triggered < c.trig then ((s, [Obs.md]), 0)
    else if !f.win then ((s, [Obs.md]), 0)
    else if !f.can then ((s, [Obs.md, Obs.call .motion .can false]), 0)
    else if !f.mStart then ((s, [Obs.md, Obs.call .motion .can true, Obs.call .motion .start false]), 0)
    else
      let s := { s with isRec := true }
      let pre := [Obs.md, Obs.call .motion .can true, Obs.call .motion .start true, Obs.rs]
      match s.ring.history with
      | none => ((s, pre ++ [Obs.panic]), 0)
      | some h =>
        let w := preTrigger f.mWriteFail h.dropLast 0
        if w.2.1 then (({ s with writeUntil := c.minF }, pre ++ w.1), w.2.2)
        else ((s, pre ++ w.1), w.2.2)
  else (({ s with triggered := 0 }, []), 0)

/-- "if recording, write the frame" -/
def wr (s : PState) (id k : Nat) (f : Faults) : R :=
  if s.isRec then
    ({ s with framesWritten := s.framesWritten + 1 },
     [Obs.call .motion (.write id) (decide (k + 1 ≠ f.mWriteFail))])
  else (s, [])

/-- `Move`, then stop when the recording is long enough -/
def fin (s : PState) (f : Faults) : R :=
  let s := { s with ring := s.ring.move }
  if s.isRec && decide (s.framesWritten ≥ s.writeUntil) then s.stopRecording f.mStop else (s, [])

theorem process_eq (c : PCfg) (s : PState) (motion : Bool) (f : Faults) :
    process c s motion f =
      (let r1 := det c s motion f
       let r2 := wr r1.1.1 s.n r1.2 f
       let r3 := fin r2.1 f
       (r3.1, r1.1.2 ++ r2.2 ++ r3.2)) := rfl

/-- the observations that open a recording -/
abbrev startPre : List Obs := [Obs.md, Obs.call .motion .can true, Obs.call .motion .start true, Obs.rs]

/-- the detection branch on the event that starts a recording -/
theorem det_start (c : PCfg) (s : PState) (f : Faults) (lo : Nat)
    (hf : f.mWriteFail = 0) (hwin : f.win = true) (hcan : f.can = true) (hst : f.mStart = true)
    (hrec : s.isRec = false) (htr : c.trig ≤ s.triggered + 1)
    (hh : s.ring.history = some (List.range' lo (s.n + 1 - lo))) (hlo : lo ≤ s.n) :
    det c s true f =
      (({ s with triggered := s.triggered + 1, isRec := true, writeUntil := c.minF },
        startPre ++ (List.range' lo (s.n - lo)).map W), s.n - lo) := by
  have e : s.n + 1 - lo = (s.n - lo) + 1 := by omega
  have h1 : ¬ s.triggered + 1 < c.trig := by omega
  simp only [det, if_true, hrec, h1, if_false, hwin, hcan, hst, Bool.not_true, Bool.false_eq_true,
    hh, e, dropLast_range', hf, preTrigger_ok, List.length_range', Nat.zero_add]

/-- the write of frame `n` will be accepted by the monitor -/
def WOK (K : Nat) (m : M12) (n : Nat) : Prop :=
  m.nextFree ≤ n ∧
  match m.last with
  | some l => n = l + 1
  | none => n = max (m.cur + 1 - K) m.nextFree

theorem fold_startPre (K : Nat) (m : M12) :
    startPre.foldl (M12.obs K) m = { m with openRec := true, last := none } := rfl

/-- what stage 1 establishes -/
def DetPost (K : Nat) (s : PState) (m : M12) (r : R × Nat) : Prop :=
  r.1.1.ring = s.ring ∧ r.1.1.n = s.n ∧
  (r.1.2.foldl (M12.obs K) m).fails = [] ∧
  (r.1.1.isRec = true → WOK K (r.1.2.foldl (M12.obs K) m) s.n) ∧
  (r.1.1.isRec = false → s.isRec = false ∧ (r.1.2.foldl (M12.obs K) m).nextFree = m.nextFree)

theorem detPost_quiet (K : Nat) (s : PState) (m : M12) (s' : PState) (os : List Obs) (k : Nat)
    (h1 : s'.ring = s.ring) (h2 : s'.n = s.n) (h3 : s'.isRec = s.isRec)
    (h4 : os.foldl (M12.obs K) m = m) (hfl : m.fails = [])
    (hw : s.isRec = true → WOK K m s.n) : DetPost K s m ((s', os), k) := by
  unfold DetPost
  simp only [h4]
  exact ⟨h1, h2, hfl, fun h => hw (h3 ▸ h), fun h => ⟨h3 ▸ h, trivial⟩⟩

/-- stage 1: the detection branch -/
theorem det_spec (c : PCfg) (s : PState) (m : M12) (motion : Bool) (f : Faults) (lo : Nat)
    (hf : f.mWriteFail = 0)
    (hh : s.ring.history = some (List.range' lo (s.n + 1 - lo))) (hlo : lo ≤ s.n)
    (hcur : m.cur = s.n) (hfl : m.fails = [])
    (hrec : s.isRec = true → m.last = some (s.n - 1) ∧ 1 ≤ s.n ∧ m.nextFree = s.n)
    (hnrec : s.isRec = false → lo = max (s.n + 1 - c.K) m.nextFree) :
    DetPost c.K s m (det c s motion f) := by
  have wok_rec : s.isRec = true → WOK c.K m s.n := by
    intro h
    obtain ⟨h1, h2, h3⟩ := hrec h
    refine ⟨by omega, ?_⟩
    rw [h1]; simp only; omega
  cases motion with
  | false =>
    have e : det c s false f = (({ s with triggered := 0 }, []), 0) := by
      simp only [det, Bool.false_eq_true, if_false]
    rw [e]
    exact detPost_quiet _ _ _ _ _ _ rfl rfl rfl rfl hfl wok_rec
  | true =>
    cases hr : s.isRec with
    | true =>
      have e : det c s true f = (({ s with triggered := s.triggered + 1, writeUntil := min (s.framesWritten + c.minF) c.maxF }, [Obs.md]), 0) := by
        simp only [det, if_true, hr]
      rw [e]
      exact detPost_quiet _ _ _ _ _ _ rfl rfl rfl rfl hfl (hr ▸ wok_rec)
    | false =>
      by_cases h1 : s.triggered + 1 < c.trig
      · have e : det c s true f = (({ s with triggered := s.triggered + 1 }, [Obs.md]), 0) := by
          simp only [det, if_true, hr, h1, Bool.false_eq_true, if_false]
        rw [e]
        exact detPost_quiet _ _ _ _ _ _ rfl rfl rfl rfl hfl (hr ▸ wok_rec)
      cases hwin : f.win with
      | false =>
        have e : det c s true f = (({ s with triggered := s.triggered + 1 }, [Obs.md]), 0) := by
          simp only [det, if_true, hr, h1, hwin, Bool.not_false, Bool.false_eq_true, if_false]
        rw [e]
        exact detPost_quiet _ _ _ _ _ _ rfl rfl rfl rfl hfl (hr ▸ wok_rec)
      | true =>
      cases hcan : f.can with
      | false =>
        have e : det c s true f = (({ s with triggered := s.triggered + 1 },
            [Obs.md, Obs.call .motion .can false]), 0) := by
          simp only [det, if_true, hr, h1, hwin, hcan, Bool.not_false, Bool.not_true, Bool.false_eq_true,
            if_false]
        rw [e]
        exact detPost_quiet _ _ _ _ _ _ rfl rfl rfl rfl hfl (hr ▸ wok_rec)
      | true =>
      cases hst : f.mStart with
      | false =>
        have e : det c s true f = (({ s with triggered := s.triggered + 1 },
            [Obs.md, Obs.call .motion .can true, Obs.call .motion .start false]), 0) := by
          simp only [det, if_true, hr, h1, hwin, hcan, hst, Bool.not_false, Bool.not_true,
            Bool.false_eq_true, if_false]
        rw [e]
        exact detPost_quiet _ _ _ _ _ _ rfl rfl rfl rfl hfl (hr ▸ wok_rec)
      | true =>
        rw [det_start c s f lo hf hwin hcan hst hr (by omega) hh hlo]
        unfold DetPost
        simp only [List.foldl_append, fold_startPre]
        have hlo' := hnrec hr
        refine ⟨trivial, trivial, ?_, ?_, fun h => by simp at h⟩
        · by_cases hn : lo = s.n
          · simp only [hn, Nat.sub_self, List.range'_zero, List.map_nil, List.foldl_nil]; exact hfl
          · have e : s.n - lo = (s.n - lo - 1) + 1 := by omega
            rw [e, fold_writes_first c.K _ _ lo hfl rfl (by simp only [hcur]; exact hlo')]
            exact hfl
        · intro _
          by_cases hn : lo = s.n
          · simp only [hn, Nat.sub_self, List.range'_zero, List.map_nil, List.foldl_nil]
            refine ⟨by simp only; omega, ?_⟩
            simp only [hcur]; omega
          · have e : s.n - lo = (s.n - lo - 1) + 1 := by omega
            rw [e, fold_writes_first c.K _ _ lo hfl rfl (by simp only [hcur]; exact hlo')]
            refine ⟨by simp only; omega, ?_⟩
            simp only; omega

/-- stage 2: the write of the frame itself -/
theorem wr_spec (K : Nat) (s : PState) (m : M12) (id k : Nat) (f : Faults)
    (hfl : m.fails = []) (hcur : m.cur = id) (hw : s.isRec = true → WOK K m id) :
    (wr s id k f).1.ring = s.ring ∧ (wr s id k f).1.n = s.n ∧ (wr s id k f).1.isRec = s.isRec ∧
    ((wr s id k f).2.foldl (M12.obs K) m).fails = [] ∧
    (s.isRec = true → ((wr s id k f).2.foldl (M12.obs K) m).last = some id ∧
        ((wr s id k f).2.foldl (M12.obs K) m).nextFree = id + 1) ∧
    (s.isRec = false → ((wr s id k f).2.foldl (M12.obs K) m).nextFree = m.nextFree) := by
  cases hr : s.isRec with
  | false =>
    have e : wr s id k f = (s, []) := by simp only [wr, hr, Bool.false_eq_true, if_false]
    rw [e]
    exact ⟨rfl, rfl, hr, hfl, fun h => by simp at h, fun _ => rfl⟩
  | true =>
    obtain ⟨h1, h2⟩ := hw hr
    have hg : match m.last with
        | some l => id = l + 1
        | none => id = max (m.cur + 1 - K) m.nextFree := h2
    have e : wr s id k f = ({ s with framesWritten := s.framesWritten + 1 },
        [Obs.call .motion (.write id) (decide (k + 1 ≠ f.mWriteFail))]) := by
      simp only [wr, hr, if_true]
    rw [e]
    simp only [List.foldl_cons, List.foldl_nil, obs_write_eq K m id _ hfl hg]
    exact ⟨trivial, trivial, hr, hfl, fun _ => ⟨trivial, by omega⟩, fun h => by simp at h⟩

/-- `stopRecording`: `SetAsOldest` iff a recording was open; the monitor only closes its recording -/
theorem stop_spec (K : Nat) (s : PState) (m : M12) (b : Bool) :
    (s.stopRecording b).1.n = s.n ∧ (s.stopRecording b).1.isRec = false ∧
    ((s.stopRecording b).2.foldl (M12.obs K) m).fails = m.fails ∧
    ((s.stopRecording b).2.foldl (M12.obs K) m).last = m.last ∧
    ((s.stopRecording b).2.foldl (M12.obs K) m).nextFree = m.nextFree ∧
    ((s.isRec = false ∧ (s.stopRecording b).1.ring = s.ring) ∨
     (s.isRec = true ∧ (s.stopRecording b).1.ring = s.ring.setAsOldest)) := by
  cases hr : s.isRec with
  | false =>
    have e : s.stopRecording b = (s, []) := by
      simp only [stopRecording, hr, Bool.not_false, if_true]
    rw [e]
    exact ⟨rfl, hr, rfl, rfl, rfl, Or.inl ⟨rfl, rfl⟩⟩
  | true =>
    have e : s.stopRecording b = ({ s with framesWritten := 0, writeUntil := 0, isRec := false, triggered := 0, ring := s.ring.setAsOldest }, [Obs.re, Obs.call .motion .stop b]) := by
      simp only [stopRecording, hr, Bool.not_true, Bool.false_eq_true, if_false]
    rw [e]
    exact ⟨rfl, rfl, rfl, rfl, rfl, Or.inr ⟨rfl, rfl⟩⟩

/-- stage 3: `Move`, then possibly `stopRecording` -/
theorem fin_spec (K : Nat) (s : PState) (m : M12) (f : Faults) :
    (fin s f).1.n = s.n ∧
    ((fin s f).2.foldl (M12.obs K) m).fails = m.fails ∧
    ((fin s f).2.foldl (M12.obs K) m).last = m.last ∧
    ((fin s f).2.foldl (M12.obs K) m).nextFree = m.nextFree ∧
    (((fin s f).1.isRec = s.isRec ∧ (fin s f).1.ring = s.ring.move) ∨
     (s.isRec = true ∧ (fin s f).1.isRec = false ∧ (fin s f).1.ring = s.ring.move.setAsOldest)) := by
  unfold fin
  simp only
  split
  · obtain ⟨h1, h2, h3, h4, h5, h6⟩ := stop_spec K { s with ring := s.ring.move } m f.mStop
    refine ⟨h1, h3, h4, h5, ?_⟩
    rcases h6 with ⟨h7, h8⟩ | ⟨h7, h8⟩
    · exact Or.inl ⟨by rw [h2]; exact h7.symm, h8⟩
    · exact Or.inr ⟨h7, h2, h8⟩
  · exact ⟨rfl, rfl, rfl, rfl, Or.inl ⟨rfl, rfl⟩⟩

end P01
end TR
