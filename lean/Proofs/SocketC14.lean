import TR.Socket
/-!
# Helper lemmas for C14 (header framing and frame alignment on the camera socket)

Everything here is about the byte-level model `TR.Socket`; the property statements are in
`Props.C14`.
-/
namespace TR.Socket

/-! ## lines -/

theorem takeLine_line (body rest : List Nat) (h : NL ∉ body) :
    takeLine (body ++ NL :: rest) = some (body ++ [NL], rest) := by
  induction body with
  | nil => simp [takeLine]
  | cons b t ih =>
    have hb : b ≠ NL := fun e => h (by simp [e])
    have ht : NL ∉ t := fun e => h (by simp [e])
    simp [takeLine, hb, ih ht]

theorem takeLine_noNL (l : List Nat) (h : NL ∉ l) : takeLine l = none := by
  induction l with
  | nil => rfl
  | cons b t ih =>
    have hb : b ≠ NL := fun e => h (by simp [e])
    have ht : NL ∉ t := fun e => h (by simp [e])
    simp [takeLine, hb, ih ht]

theorem isBlank_blank (k : Nat) : isBlank (List.replicate k SP ++ [NL]) = true := by
  induction k with
  | zero => decide
  | succ k ih =>
    simp only [isBlank, List.replicate_succ, List.cons_append, List.dropWhile, beq_self_eq_true] at ih ⊢
    exact ih

theorem NL_not_mem_replicate_SP (k : Nat) : NL ∉ List.replicate k SP := by
  intro h
  have := List.eq_of_mem_replicate h
  exact absurd this (by decide)

/-! ## `readHeader`, one step at a time -/

theorem readHeader_eq (bytes : List Nat) :
    readHeader bytes =
      match takeLine bytes with
      | none => none
      | some (line, rest) =>
        if isBlank line then some ([], rest)
        else match readHeader rest with
          | some (t, r) => some (line ++ t, r)
          | none => none := by
  rw [readHeader]
  split
  · simp_all
  · next line rest h =>
    simp only [h]
    split
    · rfl
    · rfl

theorem readHeader_of_noLine (bytes : List Nat) (h : takeLine bytes = none) :
    readHeader bytes = none := by
  rw [readHeader_eq, h]

theorem readHeader_of_blank (bytes line rest : List Nat) (h : takeLine bytes = some (line, rest))
    (hb : isBlank line = true) : readHeader bytes = some ([], rest) := by
  rw [readHeader_eq, h]; simp [hb]

theorem readHeader_of_line (bytes line rest : List Nat) (h : takeLine bytes = some (line, rest))
    (hb : isBlank line = false) :
    readHeader bytes =
      match readHeader rest with
      | some (t, r) => some (line ++ t, r)
      | none => none := by
  rw [readHeader_eq, h]; simp [hb]

/-- a header made of well-formed non-blank lines, then a blank line: exact round trip -/
theorem readHeader_exact (lines : List (List Nat)) (k : Nat) (rest : List Nat)
    (hl : ∀ l ∈ lines, ∃ body, l = body ++ [NL] ∧ NL ∉ body ∧ isBlank l = false) :
    readHeader (lines.flatten ++ (List.replicate k SP ++ [NL]) ++ rest)
      = some (lines.flatten, rest) := by
  induction lines with
  | nil =>
    have e : ([] : List (List Nat)).flatten ++ (List.replicate k SP ++ [NL]) ++ rest
        = List.replicate k SP ++ NL :: rest := by simp
    rw [e]
    exact readHeader_of_blank _ _ _ (takeLine_line _ _ (NL_not_mem_replicate_SP k))
      (isBlank_blank k)
  | cons l ls ih =>
    obtain ⟨body, rfl, hnl, hnb⟩ := hl l (by simp)
    have ih' := ih (fun l hl' => hl l (by simp [hl']))
    have e : ((body ++ [NL]) :: ls).flatten ++ (List.replicate k SP ++ [NL]) ++ rest
        = body ++ NL :: (ls.flatten ++ (List.replicate k SP ++ [NL]) ++ rest) := by simp
    rw [e, readHeader_of_line _ _ _ (takeLine_line _ _ hnl) hnb, ih']
    simp

/-! ## prefixes -/

theorem prefix_append_cases {α : Type} {p a b : List α} (h : p <+: a ++ b) :
    p <+: a ∨ ∃ q, p = a ++ q ∧ q <+: b := by
  rcases List.prefix_or_prefix_of_prefix h (List.prefix_append a b) with h1 | h1
  · exact Or.inl h1
  · obtain ⟨q, rfl⟩ := h1
    exact Or.inr ⟨q, rfl, (List.prefix_append_right_inj a).1 h⟩

theorem proper_prefix_concat {α : Type} {p a : List α} {x : α} (h : p <+: a ++ [x])
    (hne : p ≠ a ++ [x]) : p <+: a := by
  rcases prefix_append_cases h with h1 | ⟨q, rfl, hq⟩
  · exact h1
  · cases q with
    | nil => simp
    | cons y t =>
      exfalso
      have hl := hq.length_le
      cases t with
      | nil =>
        have : y = x := by
          obtain ⟨s, hs⟩ := hq
          simp at hs
          exact hs.1
        exact hne (by rw [this])
      | cons z t' => simp at hl

theorem not_mem_of_prefix {p l : List Nat} {x : Nat} (h : p <+: l) (hx : x ∉ l) : x ∉ p :=
  fun hm => hx (h.subset hm)

/-- a header cut short anywhere is an error -/
theorem readHeader_truncated (lines : List (List Nat)) (k : Nat)
    (hl : ∀ l ∈ lines, ∃ body, l = body ++ [NL] ∧ NL ∉ body ∧ isBlank l = false)
    (pre : List Nat) (hp : pre <+: lines.flatten ++ (List.replicate k SP ++ [NL]))
    (hne : pre ≠ lines.flatten ++ (List.replicate k SP ++ [NL])) :
    readHeader pre = none := by
  induction lines generalizing pre with
  | nil =>
    simp only [List.flatten_nil, List.nil_append] at hp hne
    have := proper_prefix_concat hp hne
    exact readHeader_of_noLine _
      (takeLine_noNL _ (not_mem_of_prefix this (NL_not_mem_replicate_SP k)))
  | cons l ls ih =>
    obtain ⟨body, rfl, hnl, hnb⟩ := hl l (by simp)
    have ih' := ih (fun l hl' => hl l (by simp [hl']))
    simp only [List.flatten_cons, List.append_assoc] at hp hne
    rw [← List.append_assoc] at hp hne
    rcases prefix_append_cases hp with h1 | ⟨q, rfl, hq⟩
    · by_cases hfull : pre = body ++ [NL]
      · subst hfull
        have e : body ++ [NL] = body ++ NL :: [] := rfl
        rw [e, readHeader_of_line _ _ _ (takeLine_line _ _ hnl) hnb,
          readHeader_of_noLine [] rfl]
      · have := proper_prefix_concat h1 hfull
        exact readHeader_of_noLine _ (takeLine_noNL _ (not_mem_of_prefix this hnl))
    · have hq' : q ≠ ls.flatten ++ (List.replicate k SP ++ [NL]) := fun e => hne (by rw [e])
      have e : body ++ [NL] ++ q = body ++ NL :: q := by simp
      rw [e, readHeader_of_line _ _ _ (takeLine_line _ _ hnl) hnb, ih' q hq hq']

/-! ## the frame loop -/

theorem encode_cons (i : Item) (is : List Item) : encode (i :: is) = encodeItem i ++ encode is := by
  simp [encode]

theorem encode_nil : encode [] = [] := rfl

theorem parseFrames_nil (N f : Nat) : parseFrames N (f + 1) [] = ([], Ending.eofAtBoundary) := by
  simp [parseFrames]

theorem parseFrames_clear (N f : Nat) (rest : List Nat) :
    parseFrames N (f + 1) (clearMarker ++ rest)
      = (Item.clear :: (parseFrames N f rest).1, (parseFrames N f rest).2) := by
  have h1 : (clearMarker ++ rest) ≠ [] := by simp [clearMarker]
  have h2 : ¬ (clearMarker ++ rest).length < 5 := by simp [clearMarker]
  have h3 : (clearMarker ++ rest).take 5 = clearMarker := List.take_left' rfl
  have h4 : (clearMarker ++ rest).drop 5 = rest := List.drop_left' rfl
  simp only [parseFrames, h1, h2, h3, h4, if_true, if_false]

theorem parseFrames_frame (N f : Nat) (hN : 5 ≤ N) (b rest : List Nat) (hb : b.length = N)
    (hm : b.take 5 ≠ clearMarker) :
    parseFrames N (f + 1) (b ++ rest)
      = (Item.frame b :: (parseFrames N f rest).1, (parseFrames N f rest).2) := by
  have h1 : (b ++ rest) ≠ [] := by
    intro h
    have := congrArg List.length h
    simp only [List.length_append, List.length_nil] at this; omega
  have h2 : ¬ (b ++ rest).length < 5 := by simp; omega
  have h3 : (b ++ rest).take 5 ≠ clearMarker := by
    rw [List.take_append_of_le_length (by omega)]; exact hm
  have h5 : ¬ (b ++ rest).length < N := by simp; omega
  have h6 : (b ++ rest).take N = b := List.take_left' hb
  have h7 : (b ++ rest).drop N = rest := List.drop_left' hb
  simp only [parseFrames, h1, h2, h3, h5, h6, h7, if_false]

/-- valid items followed by anything: the items come out first, the loop continues on the tail -/
theorem parseFrames_append (N : Nat) (hN : 5 ≤ N) (items : List Item)
    (hv : ∀ i ∈ items, match i with
      | .frame b => b.length = N ∧ b.take 5 ≠ clearMarker
      | .clear => True)
    (f : Nat) (tail : List Nat) :
    parseFrames N (items.length + f) (encode items ++ tail)
      = (items ++ (parseFrames N f tail).1, (parseFrames N f tail).2) := by
  induction items with
  | nil => simp [encode_nil]
  | cons i is ih =>
    have ih' := ih (fun j hj => hv j (by simp [hj]))
    have hi := hv i (by simp)
    have e : (i :: is).length + f = (is.length + f) + 1 := by simp; omega
    rw [e, encode_cons, List.append_assoc]
    cases i with
    | clear =>
      show parseFrames N _ (clearMarker ++ _) = _
      rw [parseFrames_clear, ih']; simp
    | frame b =>
      show parseFrames N _ (b ++ _) = _
      rw [parseFrames_frame N _ hN b _ hi.1 hi.2, ih']; simp

/-- a non-empty proper prefix of an item makes the loop stop with `truncated` -/
theorem parseFrames_partial (N : Nat) (last : Item)
    (hlast : match last with
      | .frame b => b.length = N ∧ b.take 5 ≠ clearMarker
      | .clear => True)
    (part : List Nat) (hp : part <+: encodeItem last) (hne : part ≠ [])
    (hne' : part ≠ encodeItem last) (f : Nat) :
    parseFrames N (f + 1) part = ([], Ending.truncated) := by
  have hlen : part.length < (encodeItem last).length := by
    have h1 := hp.length_le
    rcases Nat.lt_or_ge part.length (encodeItem last).length with h | h
    · exact h
    · exact absurd (hp.eq_of_length_le h) hne'
  cases last with
  | clear =>
    have h2 : part.length < 5 := hlen
    simp only [parseFrames, hne, h2, if_true, if_false]
  | frame b =>
    have hlast : b.length = N ∧ b.take 5 ≠ clearMarker := hlast
    have hb : part.length < N := by
      have : (encodeItem (.frame b)).length = N := hlast.1
      omega
    by_cases h5 : part.length < 5
    · simp only [parseFrames, hne, h5, if_true, if_false]
    · have h3 : part.take 5 ≠ clearMarker := by
        obtain ⟨s, hs⟩ := hp
        have hs' : part ++ s = b := hs
        rw [← hs', List.take_append_of_le_length (by omega)] at hlast
        exact hlast.2
      simp only [parseFrames, hne, h5, h3, hb, if_true, if_false]

end TR.Socket
