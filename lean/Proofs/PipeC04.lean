import Proofs.C01Spec
import Proofs.ProcProto03
import Proofs.PipeThr
/-!
# Proofs.PipeC04 — the unthrottled composed pipeline when the window / disk gates change while streaming

`Proofs.C01Spec` relates the pipeline to the processor trace it induces for a FIXED configuration.  In the
daemon the two gates (`windowOpen`, `diskOk`) change between frames; the end-to-end harness runs every item
with a configuration whose two gate fields have the current value.  Here that is `Pipe.gop`: one step with
the gates of that moment (`GOp`).  `Pipe.faults` is the only place the gates are read, everything else of
the configuration (`proc`, `det`, `lepton`, `throttle`, …) is fixed, so the induction of `Proofs.C01Spec`
goes through with a per-step configuration — redone here with the induced event list made EXPLICIT
(`Pipe.evOf`, `evsG`) instead of existentially quantified.

* §A  definitions: `GOp`, `withGates`, `Pipe.gop`, `runG`, `motionStarts`, the induced events;
* §B  counting successful `StartRecording` calls on the motion sink (`startCount`): one processor step makes
      at most one, none on an event that is not a frame;
* §C  the number of recordings of a trace is the number of such calls; the number of motion files is the
      number of recordings;
* §D  the invariant `PIE` (= `C01Spec.PI` with the event list exposed) along `Pipe.op` / `Pipe.gop` / `runG`;
* §E  what one step does to the processor state and to the number of motion files;
* §F  throttle on (`Proofs.PipeThr`): with `minLenFrames ≥ 1` a step adds at most as many motion files as the
      processor step makes successful `StartRecording` calls.
-/
namespace TR.PipeC04
open TR TR.C01Spec

/-! ## (A) definitions -/

/-- one step of the daemon with the gates as they are at that moment -/
structure GOp where
  windowOpen : Bool
  diskOk : Bool
  op : PipeOp

/-- the configuration with the gates of the moment -/
def withGates (c : PipeCfg) (g : GOp) : PipeCfg := { c with windowOpen := g.windowOpen, diskOk := g.diskOk }

/-- the fault record the pipeline hands to the processor at this step: the two gates, nothing else fails -/
def gfaults (g : GOp) : Faults := { win := g.windowOpen, can := g.diskOk }

/-- the parser's verdict on the bytes of a socket frame item (the expression inside `Pipe.item`) -/
def parseItem (c : PipeCfg) (bytes : List Nat) : Parse.Result :=
  if c.lepton then Parse.parseLepton (fun i => bytes.toArray.getD i 0) c.det.resX c.det.resY c.det.edge
  else Parse.parseBoson (fun i => bytes.toArray.getD i 0) c.det.resX c.det.resY c.det.edge

section defs
variable {F : FloatOps}

/-- one step of the pipeline with the gates of the moment -/
def Pipe.gop (c : PipeCfg) (p : Pipe F) (g : GOp) : Pipe F := Pipe.op (withGates c g) p g.op

/-- the pipeline after a history of steps, each with its own gates -/
def runG (F : FloatOps) (c : PipeCfg) (gs : List GOp) : Pipe F := gs.foldl (Pipe.gop c) (Pipe.init F c)

/-- number of motion files started so far -/
def motionStarts (p : Pipe F) : Nat := (p.files.filter (·.kind == .motion)).length

/-- the detector's verdict on an accepted frame in pipeline state `p` (the expression inside `Pipe.item`) -/
def verdict (c : PipeCfg) (p : Pipe F) (pix : Frame) (tel : Parse.Telemetry) : Bool :=
  (Det.detect c.det p.det pix
    (Det.affectedBy c.det ((tel.timeOnMs : Int) * 1000000) ((tel.lastFFCMs : Int) * 1000000))).2

/-- the processor event one pipeline step induces, for a fixed configuration -/
def Pipe.evOfOp (c : PipeCfg) (p : Pipe F) : PipeOp → Ev
  | .testReq => .testReq
  | .item .clear => .reset (Pipe.faults c)
  | .item (.frame bytes) =>
    match parseItem c bytes with
    | .bad _ _ => .bad (Pipe.faults c)
    | .ok pix tel => .frame (verdict c p pix tel) (Pipe.faults c)

/-- the processor event one step induces, with the gates of the moment -/
def Pipe.evOf (c : PipeCfg) (p : Pipe F) (g : GOp) : Ev := Pipe.evOfOp (withGates c g) p g.op

/-- the events induced by a list of steps from pipeline state `p` -/
def evsFrom (c : PipeCfg) : Pipe F → List GOp → List Ev
  | _, [] => []
  | p, g :: gs => Pipe.evOf c p g :: evsFrom c (Pipe.gop c p g) gs

/-- the processor events induced by a whole history -/
def evsG (F : FloatOps) (c : PipeCfg) (gs : List GOp) : List Ev := evsFrom c (Pipe.init F c) gs

end defs

/-! ### the gates touch nothing but `Pipe.faults` -/

theorem withGates_proc (c : PipeCfg) (g : GOp) : (withGates c g).proc = c.proc := rfl
theorem withGates_det (c : PipeCfg) (g : GOp) : (withGates c g).det = c.det := rfl
theorem withGates_throttle (c : PipeCfg) (g : GOp) : (withGates c g).throttle = c.throttle := rfl
theorem withGates_faults (c : PipeCfg) (g : GOp) : Pipe.faults (withGates c g) = gfaults g := rfl
theorem withGates_parse (c : PipeCfg) (g : GOp) (bytes : List Nat) :
    parseItem (withGates c g) bytes = parseItem c bytes := rfl
theorem withGates_verdict {F : FloatOps} (c : PipeCfg) (g : GOp) (p : Pipe F) (pix : Frame) (tel : Parse.Telemetry) :
    verdict (withGates c g) p pix tel = verdict c p pix tel := rfl

/-! ## (B) counting successful `StartRecording` calls on the motion sink -/

/-- number of successful `StartRecording` calls on the motion sink in an observation list -/
def startCount (obs : List Obs) : Nat := obs.countP (fun o => hasStartOk [o])

theorem startCount_nil : startCount [] = 0 := rfl

theorem startCount_cons (o : Obs) (os : List Obs) :
    startCount (o :: os) = startCount os + (if hasStartOk [o] = true then 1 else 0) := by
  simp only [startCount, List.countP_cons]

theorem startCount_append (a b : List Obs) : startCount (a ++ b) = startCount a + startCount b := by
  simp only [startCount, List.countP_append]

theorem hasStartOk_split (o : Obs) (os : List Obs) : hasStartOk (o :: os) = (hasStartOk [o] || hasStartOk os) := by
  simp [hasStartOk]

theorem startCount_eq_zero_iff (obs : List Obs) : startCount obs = 0 ↔ hasStartOk obs = false := by
  induction obs with
  | nil => exact ⟨fun _ => rfl, fun _ => rfl⟩
  | cons o os ih =>
    have e := hasStartOk_split o os
    rw [startCount_cons, e]
    cases h : hasStartOk [o] <;> simp [ih]

theorem startCount_pos_iff (obs : List Obs) : 0 < startCount obs ↔ hasStartOk obs = true := by
  have h := startCount_eq_zero_iff obs
  cases hs : hasStartOk obs
  · rw [hs] at h; simp [h.mpr rfl]
  · rw [hs] at h
    have : startCount obs ≠ 0 := fun h0 => by simpa using h.mp h0
    simp; omega

theorem quiet_not_start (o : Obs) (h : PipeLemmas.quiet o = true) : hasStartOk [o] = false := by
  cases o with
  | call s cl ok =>
    cases s <;> cases cl <;> cases ok <;> first | rfl | exact absurd h (by simp [PipeLemmas.quiet])
  | _ => rfl

theorem quiet_startCount (obs : List Obs) (h : ∀ o ∈ obs, PipeLemmas.quiet o = true) : startCount obs = 0 := by
  rw [startCount, List.countP_eq_zero]
  intro o ho
  simp [quiet_not_start o (h o ho)]

theorem preTrigger_startCount (fa : Nat) (ids : List Nat) (k : Nat) :
    startCount (PState.preTrigger fa ids k).1 = 0 :=
  (startCount_eq_zero_iff _).mpr (P03.pt_quiet fa ids k).2.1

theorem pDetect_startCount (c : PCfg) (s : PState) (motion : Bool) (f : Faults) :
    startCount (pDetect c s motion f).1.2 ≤ 1 := by
  unfold pDetect
  repeat' split
  all_goals (simp only [startCount_append, preTrigger_startCount]; try decide)

theorem pWrite_startCount (id k : Nat) (f : Faults) (s : PState) : startCount (pWrite id k f s).2 = 0 := by
  unfold pWrite
  split <;> rfl

theorem stopRecording_startCount (s : PState) (ok : Bool) : startCount (s.stopRecording ok).2 = 0 :=
  quiet_startCount _ (PipeLemmas.stopRecording_quiet s ok)

theorem pStop_startCount (f : Faults) (s : PState) : startCount (pStop f s).2 = 0 := by
  unfold pStop
  split
  · exact stopRecording_startCount _ _
  · rfl

theorem process_startCount (c : PCfg) (s : PState) (motion : Bool) (f : Faults) :
    startCount (PState.process c s motion f).2 ≤ 1 := by
  rw [process_eq]
  simp only [andThen_snd, andThen_fst, startCount_append, pWrite_startCount, pStop_startCount, Nat.add_zero]
  exact pDetect_startCount c s motion f

theorem processFrame_startCount (c : PCfg) (s : PState) (motion : Bool) (f : Faults) :
    startCount (PState.processFrame c s motion f).2 ≤ 1 := by
  rw [processFrame_eq]
  simp only [andThen_snd, andThen_fst, startCount_append]
  rw [(startCount_eq_zero_iff _).mpr (P03.cr_spec c _ s.n f).2.2.1,
    (startCount_eq_zero_iff _).mpr (P03.snap_spec c _ s.n f).2.2.1]
  exact process_startCount c _ motion f

/-- an event that is not an accepted frame never calls `StartRecording` successfully on the motion sink -/
theorem step_startCount_nonframe (c : PCfg) (s : PState) (e : Ev) (h : e.isFrame = false) :
    startCount (PState.step c s e).2 = 0 := by
  cases e with
  | frame m f => cases h
  | bad f => exact quiet_startCount _ (PipeLemmas.processBad_quiet c s f)
  | reset f => exact stopRecording_startCount s f.mStop
  | testReq => rfl

/-- **one processor step makes at most one successful `StartRecording` call on the motion sink** -/
theorem step_startCount_le (c : PCfg) (s : PState) (e : Ev) : startCount (PState.step c s e).2 ≤ 1 := by
  cases e with
  | frame m f => exact processFrame_startCount c s m f
  | bad f => rw [step_startCount_nonframe c s _ rfl]; exact Nat.zero_le _
  | reset f => rw [step_startCount_nonframe c s _ rfl]; exact Nat.zero_le _
  | testReq => exact Nat.zero_le _

theorem step_startCount_eq (c : PCfg) (s : PState) (e : Ev) :
    startCount (PState.step c s e).2 = if hasStartOk (PState.step c s e).2 = true then 1 else 0 := by
  have h1 := step_startCount_le c s e
  have h2 := startCount_pos_iff (PState.step c s e).2
  split
  · next h => have := h2.mpr h; omega
  · next h =>
    have : ¬ 0 < startCount (PState.step c s e).2 := fun hp => h (h2.mp hp)
    omega

/-! ## (C) recordings, motion files and start calls -/

theorem acc_obs_length (a : RecAcc) (o : Obs) : (a.obs o).all.length = a.all.length + startCount [o] := by
  obtain ⟨d, cu⟩ := a
  cases o with
  | call s cl ok =>
    cases s <;> cases cl <;> cases ok <;> cases cu <;> simp [RecAcc.obs, RecAcc.all, startCount, hasStartOk]
  | _ => simp [RecAcc.obs, startCount, hasStartOk]

theorem acc_fold_length : ∀ (os : List Obs) (a : RecAcc),
    (os.foldl RecAcc.obs a).all.length = a.all.length + startCount os := by
  intro os
  induction os with
  | nil => intro a; rfl
  | cons o os ih =>
    intro a
    rw [List.foldl_cons, ih, acc_obs_length, startCount_cons o os, startCount_cons o [], startCount_nil]
    omega

/-- the number of recordings of a trace grows, step by step, by the number of successful starts -/
theorem recordings_snoc_length (tr : List Step) (st : Step) :
    (recordings (tr ++ [st])).length = (recordings tr).length + startCount st.obs := by
  simp only [recordings, recAcc_append, acc_fold_length]

theorem frel_length {ms : List RecFile} {a : RecAcc} (h : FRel ms a) : ms.length = a.all.length := by
  obtain ⟨rest, _, hmap, hcur⟩ := h
  have hl : rest.length = a.done.length := by
    have := congrArg List.length hmap
    simpa using this
  cases hc : a.cur with
  | none =>
    rw [hc] at hcur
    simp only at hcur
    rw [hcur, all_none a hc, hl]
  | some r =>
    rw [hc] at hcur
    obtain ⟨x, hx, _, _⟩ := hcur
    rw [hx, all_some a r hc]
    simp [hl]

section pipeline
variable {F : FloatOps}

theorem motionStarts_eq (p : Pipe F) : motionStarts p = (mot p.files).length := rfl

theorem motionStarts_eq_files (p : Pipe F) : motionStarts p = (motionFiles p).length := by
  rw [motionStarts_eq, motionFiles_eq]; simp

/-! ## (D) the invariant, with the event list exposed -/

/-- `C01Spec.PI` with the event list as a parameter: the pipeline state is the one induced by `evs` -/
def PIE (c : PipeCfg) (p : Pipe F) (evs : List Ev) : Prop :=
  (∀ e ∈ evs, PipeEv e) ∧
  p.proc = PState.after c.proc (PState.init c.proc) evs ∧
  FRel (mot p.files) (recAcc (PState.trace c.proc (PState.init c.proc) evs)) ∧
  (evs.filter Ev.isFrame).length = p.accepted.length

theorem pie_pi {c : PipeCfg} {p : Pipe F} {evs : List Ev} (h : PIE c p evs) : PI c p := ⟨evs, h⟩

/-- the invariant does not read the gates -/
theorem pie_withGates (c : PipeCfg) (g : GOp) (p : Pipe F) (evs : List Ev) :
    PIE (withGates c g) p evs ↔ PIE c p evs := Iff.rfl

theorem pie_init (c : PipeCfg) : PIE c (Pipe.init F c) [] := by
  refine ⟨?_, rfl, ⟨[], ?_, rfl, rfl⟩, rfl⟩
  · intro e he; cases he
  · intro f hf; cases hf

theorem pie_event (c : PipeCfg) (hK : 0 < c.proc.K) (hthr : c.throttle = false) (p p' p₀ : Pipe F)
    (evs : List Ev) (e : Ev) (he : PipeEv e) (h : PIE c p evs) (h0 : p₀.files = p.files)
    (hproc : p'.proc = (PState.step c.proc p.proc e).1)
    (hfiles : p'.files = ((PState.step c.proc p.proc e).2.foldl (Pipe.applyObs c) p₀).files)
    (hacc : p'.accepted.length = p.accepted.length + (if e.isFrame then 1 else 0)) : PIE c p' (evs ++ [e]) := by
  obtain ⟨hev, hp, hfr, hcount⟩ := h
  refine ⟨?_, ?_, ?_, ?_⟩
  · intro e' he'
    rcases List.mem_append.mp he' with he' | he'
    · exact hev e' he'
    · rw [List.mem_singleton] at he'; subst he'; exact he
  · rw [after_append, ← hp, hproc]; rfl
  · rw [trace_snoc, recAcc_append, hfiles, ← hp]
    have h12 := c12_protocol_all c.proc hK (evs ++ [e])
    rw [trace_snoc, ← hp] at h12
    simp only [monC12, List.foldl_append, List.foldl_cons, List.foldl_nil] at h12
    refine frel_fold c hthr _ p₀ _ _ (step_clean c.proc p.proc e he.1 he.2) ?_ h12 (by rw [h0]; exact hfr)
    rw [recAcc_eq]
    exact mo_trace _ {} {} rfl
  · rw [List.filter_append, List.length_append, hcount, hacc]
    cases e <;> rfl

theorem pie_of_fold (c : PipeCfg) (hK : 0 < c.proc.K) (hthr : c.throttle = false) (p p' p₀ : Pipe F)
    (evs : List Ev) (e : Ev) (he : PipeEv e) (h : PIE c p evs)
    (hq : p' = (PState.step c.proc p.proc e).2.foldl (Pipe.applyObs c) p₀)
    (h0 : p₀.files = p.files) (h1 : p₀.proc = (PState.step c.proc p.proc e).1)
    (h2 : p₀.accepted.length = p.accepted.length + (if e.isFrame then 1 else 0)) : PIE c p' (evs ++ [e]) := by
  subst hq
  have hfr := fold_proc_accepted c (PState.step c.proc p.proc e).2 p₀
  exact pie_event c hK hthr p _ p₀ evs e he h h0 (hfr.1.trans h1) rfl (by rw [hfr.2]; exact h2)

/-! ### the induced event, case by case -/

theorem evOfOp_testReq (c : PipeCfg) (p : Pipe F) : Pipe.evOfOp c p .testReq = .testReq := rfl

theorem evOfOp_clear (c : PipeCfg) (p : Pipe F) : Pipe.evOfOp c p (.item .clear) = .reset (Pipe.faults c) := rfl

theorem evOfOp_bad (c : PipeCfg) (p : Pipe F) (bytes : List Nat) (y x : Nat)
    (h : parseItem c bytes = .bad y x) : Pipe.evOfOp c p (.item (.frame bytes)) = .bad (Pipe.faults c) := by
  simp only [Pipe.evOfOp, h]

theorem evOfOp_ok (c : PipeCfg) (p : Pipe F) (bytes : List Nat) (pix : Frame) (tel : Parse.Telemetry)
    (h : parseItem c bytes = .ok pix tel) :
    Pipe.evOfOp c p (.item (.frame bytes)) = .frame (verdict c p pix tel) (Pipe.faults c) := by
  simp only [Pipe.evOfOp, h]

theorem evOfOp_pipeEv (c : PipeCfg) (p : Pipe F) (o : PipeOp) : PipeEv (Pipe.evOfOp c p o) := by
  cases o with
  | testReq => exact ⟨rfl, rfl⟩
  | item it =>
    cases it with
    | clear => exact ⟨rfl, rfl⟩
    | frame bytes =>
      cases h : parseItem c bytes with
      | bad y x => rw [evOfOp_bad c p bytes y x h]; exact ⟨rfl, rfl⟩
      | ok pix tel => rw [evOfOp_ok c p bytes pix tel h]; exact ⟨rfl, rfl⟩

theorem shape_of_fold (c : PipeCfg) (p p' p₀ : Pipe F) (e : Ev)
    (hq : p' = (PState.step c.proc p.proc e).2.foldl (Pipe.applyObs c) p₀)
    (h0 : p₀.files = p.files) (h0t : p₀.thr = p.thr) (h1 : p₀.proc = (PState.step c.proc p.proc e).1)
    (h2 : p₀.accepted.length = p.accepted.length + (if e.isFrame then 1 else 0)) :
    ∃ p₀ : Pipe F, p₀.files = p.files ∧ p₀.thr = p.thr ∧
      p'.proc = (PState.step c.proc p.proc e).1 ∧
      p'.files = ((PState.step c.proc p.proc e).2.foldl (Pipe.applyObs c) p₀).files ∧
      p'.thr = ((PState.step c.proc p.proc e).2.foldl (Pipe.applyObs c) p₀).thr ∧
      p'.accepted.length = p.accepted.length + (if e.isFrame then 1 else 0) := by
  subst hq
  have hfr := fold_proc_accepted c (PState.step c.proc p.proc e).2 p₀
  exact ⟨p₀, h0, h0t, hfr.1.trans h1, rfl, rfl, by rw [hfr.2]; exact h2⟩

/-- **the shape of one pipeline step**: the processor takes the model's step on the induced event, and the
files / throttle state are what the step's observations, applied in order, make of them -/
theorem op_shape (c : PipeCfg) (p : Pipe F) (o : PipeOp) :
    ∃ p₀ : Pipe F, p₀.files = p.files ∧ p₀.thr = p.thr ∧
      (Pipe.op c p o).proc = (PState.step c.proc p.proc (Pipe.evOfOp c p o)).1 ∧
      (Pipe.op c p o).files =
        ((PState.step c.proc p.proc (Pipe.evOfOp c p o)).2.foldl (Pipe.applyObs c) p₀).files ∧
      (Pipe.op c p o).thr =
        ((PState.step c.proc p.proc (Pipe.evOfOp c p o)).2.foldl (Pipe.applyObs c) p₀).thr ∧
      (Pipe.op c p o).accepted.length = p.accepted.length + (if (Pipe.evOfOp c p o).isFrame then 1 else 0) := by
  cases o with
  | testReq => exact ⟨p, rfl, rfl, rfl, rfl, rfl, rfl⟩
  | item it =>
    show ∃ p₀ : Pipe F, _ ∧ _ ∧ (Pipe.item c p it).proc = _ ∧ (Pipe.item c p it).files = _ ∧
      (Pipe.item c p it).thr = _ ∧ (Pipe.item c p it).accepted.length = _
    cases it with
    | clear =>
      have hfr := fold_proc_accepted c (PState.stopRecording p.proc true).2
        { p with proc := (PState.stopRecording p.proc true).1 }
      rw [evOfOp_clear]
      refine ⟨{ p with proc := (PState.stopRecording p.proc true).1 }, rfl, rfl, ?_, ?_, ?_, ?_⟩
      · rw [PipeLemmas.item_clear]; exact hfr.1
      · rw [PipeLemmas.item_clear]; rfl
      · rw [PipeLemmas.item_clear]; rfl
      · rw [PipeLemmas.item_clear]
        show (Pipe.accepted (List.foldl _ _ _)).length = _
        rw [hfr.2]; rfl
    | frame bytes =>
      cases hres : parseItem c bytes with
      | bad y x =>
        have hfr := fold_proc_accepted c (PState.processBad c.proc p.proc (Pipe.faults c)).2
          { p with proc := (PState.processBad c.proc p.proc (Pipe.faults c)).1 }
        rw [evOfOp_bad c p bytes y x hres]
        refine ⟨{ p with proc := (PState.processBad c.proc p.proc (Pipe.faults c)).1 }, rfl, rfl, ?_, ?_, ?_, ?_⟩
        · rw [PipeLemmas.item_bad c p bytes y x hres]; exact hfr.1
        · rw [PipeLemmas.item_bad c p bytes y x hres]; rfl
        · rw [PipeLemmas.item_bad c p bytes y x hres]; rfl
        · rw [PipeLemmas.item_bad c p bytes y x hres]
          show (Pipe.accepted (List.foldl _ _ _)).length = _
          rw [hfr.2]; rfl
      | ok pix tel =>
        have hq := PipeLemmas.item_ok c p bytes pix tel hres
        simp only at hq
        rw [evOfOp_ok c p bytes pix tel hres]
        exact shape_of_fold c p _ _ (.frame (verdict c p pix tel) (Pipe.faults c)) hq (by rfl) (by rfl) (by rfl)
          (by rfl)

/-- one step of the pipeline (fixed configuration) extends the event list by the induced event -/
theorem pie_op (c : PipeCfg) (hK : 0 < c.proc.K) (hthr : c.throttle = false) (p : Pipe F) (evs : List Ev)
    (o : PipeOp) (h : PIE c p evs) : PIE c (Pipe.op c p o) (evs ++ [Pipe.evOfOp c p o]) := by
  obtain ⟨p₀, h0, _, hproc, hfiles, _, hacc⟩ := op_shape c p o
  exact pie_event c hK hthr p _ p₀ evs _ (evOfOp_pipeEv c p o) h h0 hproc hfiles hacc

/-- **one step with the gates of the moment** extends the event list by the induced event -/
theorem pie_gop (c : PipeCfg) (hK : 0 < c.proc.K) (hthr : c.throttle = false) (p : Pipe F) (evs : List Ev)
    (g : GOp) (h : PIE c p evs) : PIE c (Pipe.gop c p g) (evs ++ [Pipe.evOf c p g]) :=
  (pie_withGates c g _ _).mp
    (pie_op (withGates c g) hK hthr p evs g.op ((pie_withGates c g p evs).mpr h))

theorem pie_fold (c : PipeCfg) (hK : 0 < c.proc.K) (hthr : c.throttle = false) :
    ∀ (gs : List GOp) (p : Pipe F) (evs : List Ev), PIE c p evs →
      PIE c (gs.foldl (Pipe.gop c) p) (evs ++ evsFrom c p gs) := by
  intro gs
  induction gs with
  | nil => intro p evs h; simpa [evsFrom] using h
  | cons g gs ih =>
    intro p evs h
    have := ih _ _ (pie_gop c hK hthr p evs g h)
    rw [List.append_assoc] at this
    exact this

/-- the invariant at the end of every gate / item history -/
theorem pie_runG (c : PipeCfg) (hK : 0 < c.proc.K) (hthr : c.throttle = false) (gs : List GOp) :
    PIE c (runG F c gs) (evsG F c gs) := by
  have := pie_fold c hK hthr gs (Pipe.init F c) [] (pie_init c)
  simpa [runG, evsG] using this

/-! ### the history, one step at a time -/

theorem runG_nil (c : PipeCfg) : runG F c [] = Pipe.init F c := rfl

theorem runG_snoc (c : PipeCfg) (gs : List GOp) (g : GOp) :
    runG F c (gs ++ [g]) = Pipe.gop c (runG F c gs) g := by
  simp only [runG, List.foldl_append, List.foldl_cons, List.foldl_nil]

theorem evsFrom_append (c : PipeCfg) : ∀ (a b : List GOp) (p : Pipe F),
    evsFrom c p (a ++ b) = evsFrom c p a ++ evsFrom c (a.foldl (Pipe.gop c) p) b := by
  intro a
  induction a with
  | nil => intro b p; rfl
  | cons g a ih => intro b p; simp only [List.cons_append, evsFrom, List.foldl_cons, ih]

theorem evsG_snoc (c : PipeCfg) (gs : List GOp) (g : GOp) :
    evsG F c (gs ++ [g]) = evsG F c gs ++ [Pipe.evOf c (runG F c gs) g] := by
  simp only [evsG, evsFrom_append, evsFrom, runG]

theorem evsFrom_length (c : PipeCfg) : ∀ (gs : List GOp) (p : Pipe F), (evsFrom c p gs).length = gs.length := by
  intro gs
  induction gs with
  | nil => intro p; rfl
  | cons g gs ih => intro p; simp only [evsFrom, List.length_cons, ih]

theorem evsG_length (c : PipeCfg) (gs : List GOp) : (evsG F c gs).length = gs.length := evsFrom_length c gs _

theorem runG_take_succ (c : PipeCfg) (gs : List GOp) (i : Nat) (h : i < gs.length) :
    runG F c (gs.take (i + 1)) = Pipe.gop c (runG F c (gs.take i)) gs[i] := by
  rw [← List.take_append_getElem h, runG_snoc]

theorem evsFrom_getElem (c : PipeCfg) : ∀ (gs : List GOp) (p : Pipe F) (i : Nat) (h : i < gs.length),
    (evsFrom c p gs)[i]'(by rw [evsFrom_length]; exact h) =
      Pipe.evOf c ((gs.take i).foldl (Pipe.gop c) p) gs[i] := by
  intro gs
  induction gs with
  | nil => intro p i h; exact absurd h (Nat.not_lt_zero _)
  | cons g gs ih =>
    intro p i h
    cases i with
    | zero => rfl
    | succ i =>
      simp only [evsFrom, List.getElem_cons_succ, List.take_succ_cons, List.foldl_cons]
      exact ih _ i (Nat.lt_of_succ_lt_succ h)

/-- the `i`-th induced event is the one induced by step `i` in the pipeline state before it -/
theorem evsG_getElem (c : PipeCfg) (gs : List GOp) (i : Nat) (h : i < gs.length) :
    (evsG F c gs)[i]'(by rw [evsG_length]; exact h) = Pipe.evOf c (runG F c (gs.take i)) gs[i] :=
  evsFrom_getElem c gs _ i h

/-! ## (E) one step: the processor state and the number of motion files -/

theorem evOf_eq (c : PipeCfg) (p : Pipe F) (g : GOp) : Pipe.evOf c p g = Pipe.evOfOp (withGates c g) p g.op := rfl

/-- the induced event, case by case: the faults are the gates of the moment -/
theorem evOf_cases (c : PipeCfg) (p : Pipe F) (g : GOp) :
    (g.op = .testReq ∧ Pipe.evOf c p g = .testReq) ∨
    (g.op = .item .clear ∧ Pipe.evOf c p g = .reset (gfaults g)) ∨
    (∃ bytes y x, g.op = .item (.frame bytes) ∧ parseItem c bytes = .bad y x ∧
      Pipe.evOf c p g = .bad (gfaults g)) ∨
    (∃ bytes pix tel, g.op = .item (.frame bytes) ∧ parseItem c bytes = .ok pix tel ∧
      Pipe.evOf c p g = .frame (verdict c p pix tel) (gfaults g)) := by
  obtain ⟨w, d, o⟩ := g
  cases o with
  | testReq => exact Or.inl ⟨rfl, rfl⟩
  | item it =>
    cases it with
    | clear => exact Or.inr (Or.inl ⟨rfl, rfl⟩)
    | frame bytes =>
      cases hres : parseItem c bytes with
      | bad y x =>
        exact Or.inr (Or.inr (Or.inl ⟨bytes, y, x, rfl, hres,
          evOfOp_bad (withGates c ⟨w, d, .item (.frame bytes)⟩) p bytes y x hres⟩))
      | ok pix tel =>
        exact Or.inr (Or.inr (Or.inr ⟨bytes, pix, tel, rfl, hres,
          evOfOp_ok (withGates c ⟨w, d, .item (.frame bytes)⟩) p bytes pix tel hres⟩))

theorem evOf_ok (c : PipeCfg) (p : Pipe F) (g : GOp) (bytes : List Nat) (pix : Frame) (tel : Parse.Telemetry)
    (hop : g.op = .item (.frame bytes)) (hparse : parseItem c bytes = .ok pix tel) :
    Pipe.evOf c p g = .frame (verdict c p pix tel) (gfaults g) := by
  rw [evOf_eq, hop]
  exact evOfOp_ok (withGates c g) p bytes pix tel hparse

/-- the processor state after one step is the processor model's step on the induced event -/
theorem gop_proc (c : PipeCfg) (p : Pipe F) (g : GOp) :
    (Pipe.gop c p g).proc = (PState.step c.proc p.proc (Pipe.evOf c p g)).1 :=
  (op_shape (withGates c g) p g.op).choose_spec.2.2.1

/-- **the number of motion files grows by the number of successful `StartRecording` calls of the processor
step** (throttle off) -/
theorem motionStarts_gop (c : PipeCfg) (hK : 0 < c.proc.K) (hthr : c.throttle = false) (p : Pipe F)
    (evs : List Ev) (g : GOp) (h : PIE c p evs) :
    motionStarts (Pipe.gop c p g) =
      motionStarts p + startCount (PState.step c.proc p.proc (Pipe.evOf c p g)).2 := by
  have h' := pie_gop c hK hthr p evs g h
  rw [motionStarts_eq, motionStarts_eq, frel_length h'.2.2.1, frel_length h.2.2.1, trace_snoc, recAcc_append,
    acc_fold_length, ← h.2.1]

/-- an event that is not an accepted frame, while no recording is open, leaves the start-relevant state alone -/
theorem step_nonframe_idle (c : PCfg) (s : PState) (e : Ev) (he : e.isFrame = false) (hrec : s.isRec = false) :
    (PState.step c s e).1.isRec = false ∧ (PState.step c s e).1.triggered = s.triggered := by
  cases e with
  | frame m f => cases he
  | bad f =>
    show (PState.processBad c s f).1.isRec = false ∧ (PState.processBad c s f).1.triggered = s.triggered
    simp only [PState.processBad, PState.andThen, PState.stopRecording, PState.stopConstantRecorder, hrec]
    split <;> exact ⟨rfl, rfl⟩
  | reset f =>
    show (s.stopRecording f.mStop).1.isRec = false ∧ (s.stopRecording f.mStop).1.triggered = s.triggered
    simp only [PState.stopRecording, hrec]
    exact ⟨hrec, rfl⟩
  | testReq => exact ⟨hrec, rfl⟩

/-- the step is a socket frame the parser accepts -/
def AcceptedFrame (c : PipeCfg) (g : GOp) : Prop :=
  ∃ bytes pix tel, g.op = .item (.frame bytes) ∧ parseItem c bytes = .ok pix tel

theorem evOf_not_frame (c : PipeCfg) (p : Pipe F) (g : GOp) (h : ¬ AcceptedFrame c g) :
    (Pipe.evOf c p g).isFrame = false := by
  rcases evOf_cases c p g with ⟨_, h2⟩ | ⟨_, h2⟩ | ⟨_, _, _, _, _, h2⟩ | ⟨bytes, pix, tel, hop, hparse, _⟩
  · rw [h2]; rfl
  · rw [h2]; rfl
  · rw [h2]; rfl
  · exact absurd ⟨bytes, pix, tel, hop, hparse⟩ h

/-! ## (F) throttle on: where a motion file can start -/

open TR.PipeThr

theorem mot_len_updOpen (fs : List RecFile) (k : FileKind) (u : RecFile → RecFile)
    (hu : ∀ x, (u x).kind = x.kind) : (mot (Pipe.updOpen fs k u)).length = (mot fs).length := by
  by_cases hk : k = .motion
  · subst hk
    rw [updOpen_mot_motion fs u hu, PipeLemmas.updOpen_length]
  · rw [updOpen_mot_other fs k u hk hu]

theorem mot_len_write (p : Pipe F) (k : FileKind) (id : Nat) :
    (mot (Pipe.writeFile p k id).files).length = (mot p.files).length :=
  mot_len_updOpen p.files k (fun f => { f with frames := f.frames ++ [id] }) (fun _ => rfl)

theorem mot_len_stop (p : Pipe F) (k : FileKind) :
    (mot (Pipe.stopFile p k).files).length = (mot p.files).length :=
  mot_len_updOpen p.files k (fun f => { f with closed := true }) (fun _ => rfl)

theorem mot_len_other_start (c : PipeCfg) (p : Pipe F) (k : FileKind) (t : Nat) (hk : k ≠ .motion) :
    (mot (Pipe.startFile c p k t).files).length = (mot p.files).length := by
  show (mot (_ :: p.files)).length = _
  rw [mot_cons_other _ _ hk]

/-- with `minLen ≥ 1` a processor observation adds a motion file only if it is a successful `StartRecording`
on the motion sink (the restart path of the throttle's `WriteFrame` cannot fire: after a cut the bucket is
empty or below `minLen`) -/
theorem tlen_obs (c : PipeCfg) (hthr : c.throttle = true) (hM : 0 < c.minLenFrames) (p : Pipe F) (a : RecAcc)
    (m : M12s) (o : Obs) (hm : m.mo = a.cur.isSome) (hf : (M12s.obs m o).fails = []) (h : TI c p a) :
    (mot (Pipe.applyObs c p o).files).length ≤ (mot p.files).length + startCount [o] := by
  cases o with
  | md => exact Nat.le_add_right _ _
  | rs => exact Nat.le_add_right _ _
  | re => exact Nat.le_add_right _ _
  | panic => exact Nat.le_add_right _ _
  | call s cl ok =>
    cases s with
    | const =>
      cases cl with
      | can => cases ok <;> exact Nat.le_add_right _ _
      | start =>
        cases ok with
        | false => exact Nat.le_add_right _ _
        | true => exact Nat.le_trans (Nat.le_of_eq (mot_len_other_start c p .const 0 (by simp))) (Nat.le_add_right _ _)
      | write id => exact Nat.le_trans (Nat.le_of_eq (mot_len_write p .const id)) (Nat.le_add_right _ _)
      | stop => exact Nat.le_trans (Nat.le_of_eq (mot_len_stop p .const)) (Nat.le_add_right _ _)
    | test =>
      cases cl with
      | can => cases ok <;> exact Nat.le_add_right _ _
      | start =>
        cases ok with
        | false => exact Nat.le_add_right _ _
        | true => exact Nat.le_trans (Nat.le_of_eq (mot_len_other_start c p .test 0 (by simp))) (Nat.le_add_right _ _)
      | write id => exact Nat.le_trans (Nat.le_of_eq (mot_len_write p .test id)) (Nat.le_add_right _ _)
      | stop => exact Nat.le_trans (Nat.le_of_eq (mot_len_stop p .test)) (Nat.le_add_right _ _)
    | motion =>
      cases ok with
      | false => cases cl <;> exact Nat.le_add_right _ _
      | true =>
        cases cl with
        | can =>
          show (mot (Pipe.motionCall c p .can).files).length ≤ _
          rw [mc_can c hthr]; exact Nat.le_add_right _ _
        | start =>
          have hc := start_not_open m a hm hf
          show (mot (Pipe.motionCall c p .start).files).length ≤ (mot p.files).length + 1
          rw [mc_start c hthr]
          by_cases hge : p.thr.minLen ≤ p.thr.bucket.avail
          · rw [(start0_yes p.thr 0 hge).1]
            show (mot (_ :: p.files)).length ≤ _
            rw [mot_cons_motion _ _ rfl]
            exact Nat.le_refl _
          · rw [(start0_no p.thr 0 (tinv_idle_of_none h hc) (by omega)).1]
            exact Nat.le_add_right (mot p.files).length 1
        | write id =>
          obtain ⟨r, hcur⟩ := write_open m a id true hm hf
          show (mot (Pipe.motionCall c p (.write id)).files).length ≤ (mot p.files).length + 0
          rw [mc_write c hthr, Nat.add_zero]
          cases hr : p.thr.recording with
          | true =>
            by_cases hz : p.thr.bucket.avail = 0
            · rw [(write0_rec_no p.thr id hr hz).1]
              exact Nat.le_of_eq (mot_len_stop { p with thr := (p.thr.step (.write 0 id true true true)).1 } .motion)
            · rw [(write0_rec_yes p.thr id hr (by omega)).1]
              exact Nat.le_of_eq
                (mot_len_write { p with thr := (p.thr.step (.write 0 id true true true)).1 } .motion id)
          | false =>
            have hlt : p.thr.bucket.avail < p.thr.minLen := by
              have hml := h.ml
              rcases h.cut hr r hcur with h1 | h1
              · omega
              · omega
            rw [(write0_idle_lt p.thr id hr hlt).1]
            exact Nat.le_refl (mot p.files).length
        | stop =>
          show (mot (Pipe.motionCall c p .stop).files).length ≤ (mot p.files).length + 0
          rw [mc_stop c hthr, Nat.add_zero]
          cases hr : p.thr.recording with
          | true =>
            rw [(stop0_rec p.thr hr).1]
            exact Nat.le_of_eq (mot_len_stop { p with thr := (p.thr.step (.stop true)).1 } .motion)
          | false =>
            rw [(stop0_idle p.thr hr).1]
            exact Nat.le_refl (mot p.files).length

theorem tlen_fold (c : PipeCfg) (hthr : c.throttle = true) (hM : 0 < c.minLenFrames) :
    ∀ (os : List Obs) (p : Pipe F) (a : RecAcc) (m : M12s),
    os.all clean = true → m.mo = a.cur.isSome → (os.foldl M12s.obs m).fails = [] → TI c p a →
    (mot (os.foldl (Pipe.applyObs c) p).files).length ≤ (mot p.files).length + startCount os := by
  intro os
  induction os with
  | nil => intro p a m _ _ _ _; exact Nat.le_refl _
  | cons o os ih =>
    intro p a m hcl hm hf h
    simp only [List.all_cons, Bool.and_eq_true] at hcl
    simp only [List.foldl_cons] at hf ⊢
    have hf1 := m12s_fold_fails os _ hf
    have h1 := tlen_obs c hthr hM p a m o hm hf1 h
    have h2 := ih _ _ (M12s.obs m o) hcl.2 (mo_obs m a o hm) hf (ti_obs c hthr p a m o hcl.1 hm hf1 h)
    rw [startCount_cons o os]
    rw [startCount_cons o [], startCount_nil] at h1
    omega

/-- the invariant of `Proofs.PipeThr` does not read the gates either -/
theorem pit_gop (c : PipeCfg) (hK : 0 < c.proc.K) (hthr : c.throttle = true) (p : Pipe F) (g : GOp)
    (h : PIT c p) : PIT c (Pipe.gop c p g) := by
  obtain ⟨w, d, o⟩ := g
  cases o with
  | item it => exact pit_item (withGates c ⟨w, d, .item it⟩) hK hthr p it h
  | testReq => exact pit_testRequest (withGates c ⟨w, d, .testReq⟩) hK hthr p h

theorem pit_runG (c : PipeCfg) (hK : 0 < c.proc.K) (hthr : c.throttle = true) (gs : List GOp) :
    PIT c (runG F c gs) := by
  have : ∀ (gs : List GOp) (p : Pipe F), PIT c p → PIT c (gs.foldl (Pipe.gop c) p) := by
    intro gs
    induction gs with
    | nil => intro p h; exact h
    | cons g gs ih => intro p h; exact ih _ (pit_gop c hK hthr p g h)
  exact this gs _ (pit_init c)

/-- **throttle on, `minLen ≥ 1`: a step adds at most as many motion files as the processor step makes
successful `StartRecording` calls** -/
theorem motionStarts_gop_thr (c : PipeCfg) (hK : 0 < c.proc.K) (hthr : c.throttle = true)
    (hM : 0 < c.minLenFrames) (p : Pipe F) (g : GOp) (h : PIT c p) :
    motionStarts (Pipe.gop c p g) ≤
      motionStarts p + startCount (PState.step c.proc p.proc (Pipe.evOf c p g)).2 := by
  obtain ⟨evs, hev, hp, hti, _⟩ := h
  obtain ⟨p₀, h0, h0t, _, hfiles, _, _⟩ := op_shape (withGates c g) p g.op
  have he : PipeEv (Pipe.evOf c p g) := evOfOp_pipeEv (withGates c g) p g.op
  have h12 := c12_protocol_all c.proc hK (evs ++ [Pipe.evOf c p g])
  rw [trace_snoc, ← hp] at h12
  simp only [monC12, List.foldl_append, List.foldl_cons, List.foldl_nil] at h12
  have hb := tlen_fold (withGates c g) hthr hM (PState.step c.proc p.proc (Pipe.evOf c p g)).2 p₀
    (recAcc (PState.trace c.proc (PState.init c.proc) evs)) _
    (step_clean c.proc p.proc _ he.1 he.2)
    (by rw [recAcc_eq]; exact mo_trace _ {} {} rfl) h12
    (ti_congr c p p₀ _ (by rw [h0]) h0t hti)
  rw [h0] at hb
  rw [motionStarts_eq, motionStarts_eq]
  show (mot (Pipe.op (withGates c g) p g.op).files).length ≤ _
  rw [hfiles]
  exact hb

end pipeline

end TR.PipeC04
