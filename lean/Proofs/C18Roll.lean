import TR.HandoffRoll
import Proofs.C18Handoff

/-!
# C18 (roll-over part) — lemmas

Core library only.

* `step_sim` / `erase_reach`: erasing the file boundaries maps every step of `TR.HandoffRoll` to a step
  of `TR.Handoff` or to a stutter (`wRoll`), hence every run to a run; `step_lift` is the converse
  (every step of the one-file system from an erased state is the image of a step).
* `rinv_reach`: the one-file invariant `TR.C18.HInv` holds of the erased state, and all rolled-over
  files are closed.
* `step_files`, `step_closed_fixed`, `reach_closed_fixed`: how the list of files can change.
-/
namespace TR.C18Roll
open TR.Handoff (Buf RPhase WPhase)
open TR.HandoffRoll

/-! ## the erased output -/

theorem files_dropLast (s : St) : (files s).dropLast = s.done := by
  simp only [files, List.dropLast_concat]

theorem files_getLast? (s : St) : (files s).getLast? = some s.cur := by
  simp only [files, List.getLast?_concat]

theorem allOut_eq (s : St) : allOut s = s.done.flatMap (·.frames) ++ s.cur.frames := by
  simp only [allOut, files, List.flatMap_append, List.flatMap_cons, List.flatMap_nil,
    List.append_nil]

theorem allOut_write (s : St) (c : List Nat) (w : WPhase) :
    allOut { s with cur := { s.cur with frames := s.cur.frames ++ [c] }, writer := w } =
      allOut s ++ [c] := by
  simp only [allOut_eq, List.append_assoc]

theorem allOut_roll (s : St) :
    allOut { s with done := s.done ++ [{ s.cur with closed := true }], cur := ⟨[], false⟩ } =
      allOut s := by
  simp only [allOut_eq, List.flatMap_append, List.flatMap_cons, List.flatMap_nil, List.append_nil]

theorem allOut_close (s : St) (w : WPhase) :
    allOut { s with writer := w, cur := { s.cur with closed := true } } = allOut s := by
  simp only [allOut_eq]

/-! ## forward simulation: a step is a one-file step or a stutter -/

/-- each step of the roll-over system is, on the erased state, a step of `TR.Handoff` or leaves the
erased state unchanged (`wRoll`, given that the current file of an idle writer is open) -/
theorem step_sim {s t : St} (h : Step s t) (hopen : s.writer = .idle → s.cur.closed = false) :
    TR.Handoff.Step (erase s) (erase t) ∨ erase t = erase s := by
  cases h with
  | rTake b rest h1 h2 => exact .inl (TR.Handoff.Step.rTake (erase s) b rest h1 h2)
  | rFill b f more h1 h2 => exact .inl (TR.Handoff.Step.rFill (erase s) b f more h1 h2)
  | rEOF b h1 h2 => exact .inl (TR.Handoff.Step.rEOF (erase s) b h1 h2)
  | rSend b h1 h2 => exact .inl (TR.Handoff.Step.rSend (erase s) b h1 h2)
  | wRecv b rest h1 h2 => exact .inl (TR.Handoff.Step.wRecv (erase s) b rest h1 h2)
  | wRoll h1 =>
    right
    simp only [erase, allOut_roll, hopen h1]
  | wClose h1 h2 h3 =>
    left
    have e : erase { s with writer := .done, cur := { s.cur with closed := true } } =
        { erase s with writer := .done, fileClosed := true } := by
      simp only [erase, allOut_close]
    rw [e]
    exact TR.Handoff.Step.wClose (erase s) h1 h2 h3
  | wWrite b h1 =>
    left
    have e : erase { s with cur := { s.cur with frames := s.cur.frames ++ [b.content] },
                            writer := .written b } =
        { erase s with out := (erase s).out ++ [b.content], writer := .written b } := by
      simp only [erase, allOut_write]
    rw [e]
    exact TR.Handoff.Step.wWrite (erase s) b h1
  | wReturn b h1 h2 => exact .inl (TR.Handoff.Step.wReturn (erase s) b h1 h2)

theorem erase_init (cap : Nat) (input : List (List Nat)) :
    erase (init cap input) = TR.Handoff.init cap input := rfl

/-- every run of the roll-over system is, with the file boundaries erased, a run of `TR.Handoff` -/
theorem erase_reach {cap : Nat} {input : List (List Nat)} {s : St}
    (hr : Reach (init cap input) s) :
    TR.Handoff.Reach (TR.Handoff.init cap input) (erase s) := by
  induction hr with
  | refl => exact .refl
  | @step s t _ hs ih =>
    have hinv := TR.C18.hinv_reach ih
    have hopen : s.writer = .idle → s.cur.closed = false := by
      intro hw
      cases hc : s.cur.closed with
      | false => rfl
      | true =>
        have : s.writer = .done := hinv.fileClosed_iff.mp hc
        rw [hw] at this; cases this
    rcases step_sim hs hopen with h | h
    · exact .step ih h
    · rw [h]; exact ih

/-- the one-file invariant, transported -/
theorem hinv_erase {cap : Nat} {input : List (List Nat)} {s : St}
    (hr : Reach (init cap input) s) : TR.C18.HInv cap input (erase s) :=
  TR.C18.hinv_reach (erase_reach hr)

/-- the current file is closed exactly when the writer has returned -/
theorem cur_closed_iff {cap : Nat} {input : List (List Nat)} {s : St}
    (hr : Reach (init cap input) s) : s.cur.closed = true ↔ s.writer = .done :=
  (hinv_erase hr).fileClosed_iff

/-! ## backward simulation: every one-file step from an erased state is the image of a step -/

theorem step_lift {s : St} {u : TR.Handoff.St} (h : TR.Handoff.Step (erase s) u) :
    ∃ t, Step s t ∧ erase t = u := by
  generalize he : erase s = e at h
  cases h with
  | rTake b rest h1 h2 =>
    subst he; exact ⟨_, Step.rTake s b rest h1 h2, rfl⟩
  | rFill b f more h1 h2 =>
    subst he; exact ⟨_, Step.rFill s b f more h1 h2, rfl⟩
  | rEOF b h1 h2 =>
    subst he; exact ⟨_, Step.rEOF s b h1 h2, rfl⟩
  | rSend b h1 h2 =>
    subst he; exact ⟨_, Step.rSend s b h1 h2, rfl⟩
  | wRecv b rest h1 h2 =>
    subst he; exact ⟨_, Step.wRecv s b rest h1 h2, rfl⟩
  | wClose h1 h2 h3 =>
    subst he
    refine ⟨_, Step.wClose s h1 h2 h3, ?_⟩
    simp only [erase, allOut_close]
  | wWrite b h1 =>
    subst he
    refine ⟨_, Step.wWrite s b h1, ?_⟩
    simp only [erase, allOut_write]
  | wReturn b h1 h2 =>
    subst he; exact ⟨_, Step.wReturn s b h1 h2, rfl⟩

/-! ## the shape of the file list -/

/-- how one step changes the list of files -/
inductive FilesChange (s t : St) : Prop
  /-- nothing changes (reader steps, `wRecv`, `wReturn`) -/
  | same : files t = files s → FilesChange s t
  /-- a frame is appended to the LAST file (`wWrite`) -/
  | append (c : List Nat) :
      files t = (files s).dropLast ++ [{ s.cur with frames := s.cur.frames ++ [c] }] →
      FilesChange s t
  /-- the last file is closed and a fresh empty open file is added after it (`wRoll`) -/
  | roll : files t = (files s).dropLast ++ [{ s.cur with closed := true }, ⟨[], false⟩] →
      FilesChange s t
  /-- the last file is closed (`wClose`) -/
  | close : files t = (files s).dropLast ++ [{ s.cur with closed := true }] → FilesChange s t

theorem step_files {s t : St} (h : Step s t) : FilesChange s t := by
  cases h with
  | rTake b rest h1 h2 => exact .same rfl
  | rFill b f more h1 h2 => exact .same rfl
  | rEOF b h1 h2 => exact .same rfl
  | rSend b h1 h2 => exact .same rfl
  | wRecv b rest h1 h2 => exact .same rfl
  | wRoll h1 =>
    apply FilesChange.roll
    simp only [files, List.dropLast_concat, List.append_assoc, List.cons_append, List.nil_append]
  | wClose h1 h2 h3 =>
    apply FilesChange.close
    simp only [files, List.dropLast_concat]
  | wWrite b h1 =>
    apply FilesChange.append b.content
    simp only [files, List.dropLast_concat]
  | wReturn b h1 h2 => exact .same rfl

/-- the rolled-over files only grow, at the end, by the (closed) current file -/
theorem step_done {s t : St} (h : Step s t) :
    t.done = s.done ∨ (s.writer = .idle ∧ t.done = s.done ++ [{ s.cur with closed := true }]) := by
  cases h with
  | wRoll h1 => exact .inr ⟨h1, rfl⟩
  | _ => exact .inl rfl

theorem step_done_closed {s t : St} (h : Step s t) (hd : ∀ f ∈ s.done, f.closed = true) :
    ∀ f ∈ t.done, f.closed = true := by
  rcases step_done h with e | ⟨_, e⟩
  · rw [e]; exact hd
  · rw [e]
    intro f hf
    rcases List.mem_append.mp hf with hf | hf
    · exact hd f hf
    · rw [List.mem_singleton.mp hf]

/-- every rolled-over file is closed -/
theorem done_closed {cap : Nat} {input : List (List Nat)} {s : St}
    (hr : Reach (init cap input) s) : ∀ f ∈ s.done, f.closed = true := by
  induction hr with
  | refl => intro f hf; cases hf
  | step _ hs ih => exact step_done_closed hs ih

/-- an entry with `closed = true` in a list ending in an OPEN file lies before that last file, so it
survives any replacement of the tail -/
theorem getElem?_closed_of_open_last (d : List FileRec) (c : FileRec) (tl : List FileRec)
    (hc : c.closed = false) (i : Nat) (f : FileRec) (hi : (d ++ [c])[i]? = some f)
    (hf : f.closed = true) : (d ++ tl)[i]? = some f := by
  by_cases hlt : i < d.length
  · rw [List.getElem?_append_left hlt] at hi ⊢
    exact hi
  · have hle : d.length ≤ i := Nat.le_of_not_lt hlt
    rw [List.getElem?_append_right hle] at hi
    cases hj : i - d.length with
    | zero =>
      rw [hj] at hi
      simp only [List.getElem?_cons_zero, Option.some.injEq] at hi
      rw [← hi, hc] at hf
      cases hf
    | succ j =>
      rw [hj] at hi
      simp only [List.getElem?_cons_succ, List.getElem?_nil, reduceCtorEq] at hi

/-- a step leaves every closed file unchanged, at its position -/
theorem step_closed_fixed {s t : St} (h : Step s t)
    (hcur : s.cur.closed = true → s.writer = .done) (i : Nat) (f : FileRec)
    (hi : (files s)[i]? = some f) (hf : f.closed = true) : (files t)[i]? = some f := by
  have hopen : s.writer ≠ .done → s.cur.closed = false := by
    intro hnd
    cases hc : s.cur.closed with
    | false => rfl
    | true => exact absurd (hcur hc) hnd
  cases h with
  | rTake b rest h1 h2 => exact hi
  | rFill b f more h1 h2 => exact hi
  | rEOF b h1 h2 => exact hi
  | rSend b h1 h2 => exact hi
  | wRecv b rest h1 h2 => exact hi
  | wRoll h1 =>
    have ho := hopen (by rw [h1]; exact fun e => by cases e)
    have := getElem?_closed_of_open_last s.done s.cur
      [{ s.cur with closed := true }, ⟨[], false⟩] ho i f hi hf
    simp only [files, List.append_assoc, List.cons_append, List.nil_append]
    exact this
  | wClose h1 h2 h3 =>
    have ho := hopen (by rw [h1]; exact fun e => by cases e)
    exact getElem?_closed_of_open_last s.done s.cur [{ s.cur with closed := true }] ho i f hi hf
  | wWrite b h1 =>
    have ho := hopen (by rw [h1]; exact fun e => by cases e)
    exact getElem?_closed_of_open_last s.done s.cur
      [{ s.cur with frames := s.cur.frames ++ [b.content] }] ho i f hi hf
  | wReturn b h1 h2 => exact hi

theorem reach_trans {s0 s t : St} (h1 : Reach s0 s) (h2 : Reach s t) : Reach s0 t := by
  induction h2 with
  | refl => exact h1
  | step _ hs ih => exact .step ih hs

/-- once closed, a file keeps its position and its content for the rest of the run -/
theorem reach_closed_fixed {cap : Nat} {input : List (List Nat)} {s t : St}
    (hr : Reach (init cap input) s) (hst : Reach s t) (i : Nat) (f : FileRec)
    (hi : (files s)[i]? = some f) (hf : f.closed = true) : (files t)[i]? = some f := by
  induction hst with
  | refl => exact hi
  | @step u v hu hs ih =>
    exact step_closed_fixed hs (cur_closed_iff (reach_trans hr hu)).mp i f ih hf

/-- the number of files never decreases -/
theorem step_files_length {s t : St} (h : Step s t) : (files s).length ≤ (files t).length := by
  rcases step_done h with e | ⟨_, e⟩ <;>
    simp only [files, e, List.length_append, List.length_cons, List.length_nil] <;> omega

end TR.C18Roll
