import TR.FS
import Proofs.C12Spec
/-!
# Proofs.C10Pipe — helper lemmas for `Props.C10Pipe` (the processor's sink calls, translated to file-system
operations, obey the recorder protocol of C10)

Nothing here mentions the translation itself (it is defined, readably, in `Props.C10Pipe`); the lemmas are
about

* (A) the per-sink "recording open" flag of `Proofs.C12Spec` in the middle of an observation list
  (`wellFormed_mid`: a call inside a well-formed list passes its check against `openAfter` of the calls made
  before it on the same sink), and
* (B) the invariant `Inv g n opn used` that ties a table `g : Sink → Option Nat` of open ids and a counter `n` of
  ids handed out to the two lists `opn` / `used` that `TR.C10.ValidOps` threads through an operation sequence:
  one lemma per kind of step;
* (C) `nfs_trace`: if the fault record of every event has `mStop = cStop = tStop = true`, the model's trace contains
  no failed `StopRecording` (function by function through `TR.Processor`).
-/
namespace TR.C10Pipe
open TR TR.C12Spec

/-! ## (A) a call in the middle of a well-formed list -/

theorem callsOf_append (s : Sink) (a b : List Obs) : callsOf s (a ++ b) = callsOf s a ++ callsOf s b := by
  simp only [callsOf, List.filterMap_append]

theorem wfFrom_append : ∀ (a b : List (Call × Bool)) (o : Bool),
    wfFrom o (a ++ b) = (wfFrom o a && wfFrom (a.foldl nextOpen o) b) := by
  intro a
  induction a with
  | nil => intro b o; simp [wfFrom]
  | cons c a ih => intro b o; simp [wfFrom, ih, Bool.and_assoc]

/-- a call inside a list that is in order passes its check against the flag left by the calls before it -/
theorem wfFrom_mid {a b : List (Call × Bool)} {c : Call × Bool} {o : Bool}
    (h : wfFrom o (a ++ c :: b) = true) : okWhen (a.foldl nextOpen o) c = true := by
  rw [wfFrom_append, wfFrom, Bool.and_eq_true, Bool.and_eq_true] at h
  exact h.2.1

/-- **position by position, on the whole observation list**: when the calls on sink `s` are `WellFormed`, a
call on `s` anywhere in the list passes `okWhen` against `openAfter` of the calls made on `s` before it -/
theorem wellFormed_mid {os : List Obs} {s : Sink} (hw : WellFormed (callsOf s os)) {pre post : List Obs}
    {cl : Call} {ok : Bool} (he : os = pre ++ Obs.call s cl ok :: post) :
    okWhen (openAfter (callsOf s pre)) (cl, ok) = true := by
  subst he
  rw [callsOf_append, callsOf_cons_call, if_pos rfl] at hw
  exact wfFrom_mid ((wellFormed_iff _).mp hw)

theorem nextOpen_can (o ok : Bool) : nextOpen o (.can, ok) = o := rfl
theorem nextOpen_write (o : Bool) (id : Nat) (ok : Bool) : nextOpen o (.write id, ok) = o := rfl
theorem nextOpen_start_true (o : Bool) : nextOpen o (.start, true) = true := rfl
theorem nextOpen_start_false (o : Bool) : nextOpen o (.start, false) = o := rfl
theorem nextOpen_stop (o ok : Bool) : nextOpen o (.stop, ok) = false := rfl

/-! ## (B) the invariant between a table of open ids and `ValidOps`'s two lists -/

/-- `g` = the id of the open file of each sink (if any), `n` = the next fresh id; `opn` / `used` = the lists of
`TR.C10.ValidOps`.  Every open id is in `opn` (which may hold more: files abandoned by earlier connections), is
below `n`, belongs to one sink only; every id ever used is below `n`. -/
structure Inv (g : Sink → Option Nat) (n : Nat) (opn used : List Nat) : Prop where
  mem : ∀ s x, g s = some x → x ∈ opn
  lt : ∀ s x, g s = some x → x < n
  inj : ∀ s s' x, g s = some x → g s' = some x → s = s'
  used : ∀ x ∈ used, x < n

variable {g g' : Sink → Option Nat} {n : Nat} {opn used : List Nat}

/-- a fresh connection (no sink has an open file); `opn` is arbitrary -/
theorem Inv.init (hg : ∀ s, g s = none) (hu : ∀ x ∈ used, x < n) : Inv g n opn used :=
  ⟨fun s x h => (by rw [hg] at h; cases h), fun s x h => (by rw [hg] at h; cases h),
   fun s _ x h => (by rw [hg] at h; cases h), hu⟩

/-- the next id is fresh -/
theorem Inv.fresh (h : Inv g n opn used) : n ∉ used := fun hm => Nat.lt_irrefl _ (h.used n hm)

theorem Inv.congr (h : Inv g n opn used) (hg : ∀ s, g' s = g s) : Inv g' n opn used :=
  ⟨fun s x e => h.mem s x ((hg s).symm.trans e), fun s x e => h.lt s x ((hg s).symm.trans e),
   fun s s' x e e' => h.inj s s' x ((hg s).symm.trans e) ((hg s').symm.trans e'), h.used⟩

/-- a start that succeeds on sink `s`: `Op.start n` -/
theorem Inv.start (h : Inv g n opn used) {s : Sink} (hg : ∀ s', g' s' = if s' = s then some n else g s') :
    Inv g' (n + 1) (n :: opn) (n :: used) := by
  refine ⟨fun s' x e => ?_, fun s' x e => ?_, fun s1 s2 x e1 e2 => ?_, fun x hx => ?_⟩
  · rw [hg] at e
    split at e
    · cases e; exact List.mem_cons_self ..
    · exact List.mem_cons_of_mem _ (h.mem s' x e)
  · rw [hg] at e
    split at e
    · cases e; exact Nat.lt_succ_self _
    · exact Nat.lt_succ_of_lt (h.lt s' x e)
  · rw [hg] at e1 e2
    split at e1
    · next h1 =>
      split at e2
      · next h2 => rw [h1, h2]
      · cases e1; exact absurd (h.lt s2 _ e2) (Nat.lt_irrefl _)
    · split at e2
      · cases e2; exact absurd (h.lt s1 _ e1) (Nat.lt_irrefl _)
      · exact h.inj s1 s2 x e1 e2
  · rcases List.mem_cons.mp hx with rfl | hx
    · exact Nat.lt_succ_self _
    · exact Nat.lt_succ_of_lt (h.used x hx)

/-- a start that fails and leaves a temporary file: `Op.startFail n` -/
theorem Inv.startFail (h : Inv g n opn used) (hg : ∀ s, g' s = g s) : Inv g' (n + 1) opn (n :: used) := by
  have h' := h.congr hg
  refine ⟨h'.mem, fun s x e => Nat.lt_succ_of_lt (h'.lt s x e), h'.inj, fun x hx => ?_⟩
  rcases List.mem_cons.mp hx with rfl | hx
  · exact Nat.lt_succ_self _
  · exact Nat.lt_succ_of_lt (h.used x hx)

/-- a start that fails before any file is created: no operation, the id is skipped -/
theorem Inv.skip (h : Inv g n opn used) (hg : ∀ s, g' s = g s) : Inv g' (n + 1) opn used := by
  have h' := h.congr hg
  exact ⟨h'.mem, fun s x e => Nat.lt_succ_of_lt (h'.lt s x e), h'.inj,
    fun x hx => Nat.lt_succ_of_lt (h.used x hx)⟩

/-- sink `s` forgets its file and nothing happens in the file system (it had none, or the file is abandoned) -/
theorem Inv.clear (h : Inv g n opn used) {s : Sink} (hg : ∀ s', g' s' = if s' = s then none else g s') :
    Inv g' n opn used := by
  have sub : ∀ s' x, g' s' = some x → g s' = some x := by
    intro s' x e
    rw [hg] at e
    split at e
    · cases e
    · exact e
  exact ⟨fun s' x e => h.mem s' x (sub s' x e), fun s' x e => h.lt s' x (sub s' x e),
    fun s1 s2 x e1 e2 => h.inj s1 s2 x (sub s1 x e1) (sub s2 x e2), h.used⟩

/-- a stop (or a discard) of the open file `i` of sink `s`: `Op.stop i` / `Op.discard i` -/
theorem Inv.stop (h : Inv g n opn used) {s : Sink} {i : Nat} (hi : g s = some i)
    (hg : ∀ s', g' s' = if s' = s then none else g s') : Inv g' n (opn.erase i) used := by
  have h' := h.clear hg
  refine ⟨fun s' x e => ?_, h'.lt, h'.inj, h'.used⟩
  rw [hg] at e
  split at e
  · cases e
  · next hne =>
    have hxi : x ≠ i := fun hx => hne (h.inj s' s x e (hx ▸ hi))
    exact (List.mem_erase_of_ne hxi).mpr (h.mem s' x e)

/-! ## (C) when the fault records let every stop succeed, no failed stop is observed -/


/-- no `StopRecording` fails, on any sink -/
def NoFailedStop (os : List Obs) : Prop := ∀ snk, Obs.call snk .stop false ∉ os

theorem nfs_nil : NoFailedStop [] := fun _ h => by cases h
theorem nfs_append {a b : List Obs} (ha : NoFailedStop a) (hb : NoFailedStop b) : NoFailedStop (a ++ b) := fun s h => by
  rcases List.mem_append.1 h with h | h
  · exact ha s h
  · exact hb s h

theorem nfs_stopRecording (s : PState) : NoFailedStop (s.stopRecording true).2 := by
  intro snk; unfold PState.stopRecording; split <;> simp

theorem nfs_preTrigger (failAt : Nat) : ∀ (l : List Nat) (k : Nat), NoFailedStop (PState.preTrigger failAt l k).1 := by
  intro l
  induction l with
  | nil => intro k; exact nfs_nil
  | cons id rest ih =>
    intro k snk
    unfold PState.preTrigger
    split
    · simp
    · have := ih (k + 1) snk
      simp only [List.mem_cons, not_or]
      exact ⟨by simp, this⟩

theorem nfs_ite_snd {α : Type} {c : Prop} [Decidable c] {p q : α × List Obs} (hp : NoFailedStop p.2) (hq : NoFailedStop q.2) :
    NoFailedStop (if c then p else q).2 := by
  split <;> assumption

theorem nfs_ite' {α : Type} {c : Prop} [Decidable c] {p q : α} (g : α → List Obs) (hp : NoFailedStop (g p)) (hq : NoFailedStop (g q)) :
    NoFailedStop (g (if c then p else q)) := by
  split <;> assumption

theorem nfs_process (c : PCfg) (s : PState) (m : Bool) (f : Faults) (hm : f.mStop = true) :
    NoFailedStop (PState.process c s m f).2 := by
  unfold PState.process
  dsimp only
  refine nfs_append (nfs_append ?_ ?_) ?_
  · split
    · split
      · intro snk; simp
      · split
        · intro snk; simp
        · split
          · intro snk; simp
          · split
            · intro snk; simp
            · split
              · intro snk; simp
              · split
                · intro snk; simp
                · split
                  · exact nfs_append (fun snk => by simp) (nfs_preTrigger _ _ _)
                  · exact nfs_append (fun snk => by simp) (nfs_preTrigger _ _ _)
    · exact nfs_nil
  · exact nfs_ite_snd (fun snk => by simp) nfs_nil
  · rw [hm]; exact nfs_ite_snd (nfs_stopRecording _) nfs_nil

theorem nfs_const (c : PCfg) (s : PState) (id : Nat) (f : Faults) (hc : f.cStop = true) :
    NoFailedStop (PState.processConstantRecorder c s id f).2 := by
  unfold PState.processConstantRecorder
  dsimp only
  rw [hc]
  refine nfs_ite_snd nfs_nil (nfs_ite_snd (fun snk => by simp) (nfs_ite_snd ?_ ?_))
  · intro snk; split <;> simp
  · intro snk; split <;> simp

theorem nfs_stopConst (c : PCfg) (s : PState) (f : Faults) (hc : f.cStop = true) :
    NoFailedStop (PState.stopConstantRecorder c s f).2 := by
  unfold PState.stopConstantRecorder
  rw [hc]
  exact nfs_ite_snd nfs_nil (fun snk => by simp)

theorem nfs_snapshot (c : PCfg) (s : PState) (id : Nat) (f : Faults) (ht : f.tStop = true) :
    NoFailedStop (PState.processSnapshot c s id f).2 := by
  unfold PState.processSnapshot
  dsimp only
  rw [ht]
  have hr1 : ∀ (s : PState), NoFailedStop (if s.startSnap = true then
        (if (!f.tStart) = true then (({ s with startSnap := false }, [Obs.call .test .start false]), false)
         else (({ s with startSnap := false, snapRec := true }, [Obs.call .test .start true]), true))
      else ((s, []), true) : PState.R × Bool).1.2 := by
    intro s
    exact nfs_ite' (fun r : PState.R × Bool => r.1.2)
      (nfs_ite' (fun r : PState.R × Bool => r.1.2) (fun snk => by simp) (fun snk => by simp)) nfs_nil
  simp only [Bool.not_true, Bool.false_eq_true, ↓reduceIte]
  refine nfs_ite_snd (hr1 _) (nfs_ite_snd (hr1 _) (nfs_ite_snd ?_ ?_))
  · exact nfs_append (nfs_append (hr1 _) (fun snk => by simp)) (fun snk => by simp)
  · exact nfs_append (hr1 _) (fun snk => by simp)
theorem nfs_andThen (r : PState.R) (g : PState → PState.R) (h1 : NoFailedStop r.2) (h2 : ∀ s, NoFailedStop (g s).2) :
    NoFailedStop (PState.andThen r g).2 := nfs_append h1 (h2 _)

theorem nfs_step (c : PCfg) (s : PState) (e : Ev)
    (h : e.faults.mStop = true ∧ e.faults.cStop = true ∧ e.faults.tStop = true) : NoFailedStop (PState.step c s e).2 := by
  cases e with
  | frame m f =>
    exact nfs_andThen _ _ (nfs_andThen _ _ (nfs_process c _ m f h.1) fun _ => nfs_const c _ _ f h.2.1)
      fun _ => nfs_snapshot c _ _ f h.2.2
  | bad f =>
    have h1 : f.mStop = true := h.1
    show NoFailedStop (PState.andThen (PState.stopRecording _ f.mStop) _).2
    rw [h1]
    exact nfs_andThen _ _ (nfs_stopRecording _) fun _ => nfs_stopConst c _ f h.2.1
  | reset f =>
    have h1 : f.mStop = true := h.1
    show NoFailedStop (PState.stopRecording s f.mStop).2
    rw [h1]
    exact nfs_stopRecording _
  | testReq => exact nfs_nil

theorem nfs_trace (c : PCfg) : ∀ (evs : List Ev) (s : PState),
    (∀ e ∈ evs, e.faults.mStop = true ∧ e.faults.cStop = true ∧ e.faults.tStop = true) →
    NoFailedStop (allObs (PState.trace c s evs)) := by
  intro evs
  induction evs with
  | nil => intro s _; exact nfs_nil
  | cons e es ih =>
    intro s h
    show NoFailedStop (allObs (⟨e, (PState.step c s e).2⟩ :: PState.trace c (PState.step c s e).1 es))
    rw [allObs, List.flatMap_cons]
    exact nfs_append (nfs_step c s e (h e (List.mem_cons_self ..)))
      (ih _ fun e' he' => h e' (List.mem_cons_of_mem _ he'))

end TR.C10Pipe
