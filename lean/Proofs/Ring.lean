import TR.Ring
/-!
# Proofs.Ring — ghost-state refinement of the FrameLoop model

Ghost state: `n` = number of `Move`s since creation / `Reset` (= global index of the current
frame), `mark` = global index of the frame last marked with `SetAsOldest`, `vals` = content
of every global index.  `RInv` relates ring and ghost; it holds initially, is preserved by
every operation, and under it `GetHistory`, `Oldest` and `CopyRecent` are characterised.
-/
namespace TR

/-- ghost bookkeeping: n = completed frames since creation/reset, mark = global index of mark -/
structure Ghost (α : Type) where
  n    : Nat
  mark : Nat
  vals : Nat → α

def RInv {α : Type} (r : Ring α) (g : Ghost α) : Prop :=
  0 < r.size ∧
  r.cur = g.n % r.size ∧
  (r.full = true ↔ r.size ≤ g.n) ∧
  g.mark ≤ g.n ∧
  (r.oldest = if g.n < g.mark + r.size then some (g.mark % r.size) else none) ∧
  (∀ k, k ≤ g.n → g.n < k + r.size → r.slots (k % r.size) = g.vals k)

theorem succ_mod (n s : Nat) (hs : 0 < s) :
    (n + 1) % s = if n % s + 1 = s then 0 else n % s + 1 := by
  have h := Nat.mod_lt n hs
  rw [Nat.add_mod]
  by_cases h1 : s = 1
  · subst h1; simp [Nat.mod_one]
  · have : 1 % s = 1 := Nat.mod_eq_of_lt (by omega)
    rw [this]
    split
    · next h2 => rw [h2]; exact Nat.mod_self s
    · exact Nat.mod_eq_of_lt (by omega)

namespace Ghost
variable {α : Type}
def write (g : Ghost α) (v : α) : Ghost α := { g with vals := fun k => if k = g.n then v else g.vals k }
def move (g : Ghost α) (stale : α) : Ghost α :=
  { g with n := g.n + 1, vals := fun k => if k = g.n + 1 then stale else g.vals k }
def markNow (g : Ghost α) : Ghost α := { g with mark := g.n }
end Ghost

theorem inv_new {α : Type} (size : Nat) (b : α) (h : 0 < size) :
    RInv (Ring.new size b) { n := 0, mark := 0, vals := fun _ => b } := by
  refine ⟨h, ?_, ?_, ?_, ?_, ?_⟩ <;> simp [Ring.new] <;> omega

theorem mod_window_inj (k n s : Nat) (h1 : k ≤ n) (h2 : n < k + s) (h : k % s = n % s) : k = n := by
  have h0 : (n - k) % s = 0 := Nat.sub_mod_eq_zero_of_mod_eq h.symm
  have h3 : (n - k) % s = n - k := Nat.mod_eq_of_lt (by omega)
  omega

theorem inv_write {α : Type} (r : Ring α) (g : Ghost α) (v : α) (h : RInv r g) :
    RInv (r.write v) (g.write v) := by
  obtain ⟨hs, hc, hf, hm, ho, hv⟩ := h
  refine ⟨hs, hc, hf, hm, ho, ?_⟩
  intro k hk1 hk2
  simp only [Ring.write, Ghost.write] at hk1 hk2 ⊢
  by_cases hkn : k = g.n
  · subst hkn; simp [hc]
  · have : k % r.size ≠ r.cur := by
      rw [hc]; intro heq; exact hkn (mod_window_inj k g.n r.size hk1 hk2 heq)
    simp [this, hkn, hv k hk1 hk2]

theorem inv_mark {α : Type} (r : Ring α) (g : Ghost α) (h : RInv r g) :
    RInv r.setAsOldest g.markNow := by
  obtain ⟨hs, hc, hf, hm, ho, hv⟩ := h
  refine ⟨hs, hc, hf, Nat.le_refl _, ?_, hv⟩
  simp [Ring.setAsOldest, Ghost.markNow, hc, hs]

theorem inv_move {α : Type} (r : Ring α) (g : Ghost α) (h : RInv r g) :
    RInv r.move (g.move (r.slots (r.next r.cur))) := by
  obtain ⟨hs, hc, hf, hm, ho, hv⟩ := h
  have hcur' : r.next r.cur = (g.n + 1) % r.size := by
    simp [Ring.next, hc, Nat.mod_add_mod]
  have hsm := succ_mod g.n r.size hs
  have hlt := Nat.mod_lt g.n hs
  refine ⟨hs, ?_, ?_, ?_, ?_, ?_⟩
  · simp [Ring.move, Ghost.move, hcur']
  · simp only [Ring.move, Ghost.move, hcur', Bool.or_eq_true, beq_iff_eq]
    constructor
    · rintro (h1 | h1)
      · have := hf.mp h1; omega
      · rw [hsm] at h1
        split at h1
        · -- n % s + 1 = s ; need s ≤ n+1
          have := Nat.mod_le g.n r.size; omega
        · omega
    · intro h1
      by_cases hfull : r.full = true
      · exact Or.inl hfull
      · right
        have hn : g.n < r.size := by
          rcases Nat.lt_or_ge g.n r.size with h2 | h2
          · exact h2
          · exact absurd (hf.mpr h2) hfull
        have : g.n + 1 = r.size := by omega
        rw [this]; exact Nat.mod_self _
  · simp [Ghost.move]; omega
  · simp only [Ring.move, Ghost.move, hcur', ho]
    by_cases h1 : g.n < g.mark + r.size
    · simp only [h1, if_true]
      by_cases h2 : g.n + 1 < g.mark + r.size
      · simp only [h2, if_true]
        have : g.mark % r.size ≠ (g.n + 1) % r.size := by
          intro heq
          have := mod_window_inj g.mark (g.n + 1) r.size (by omega) h2 heq
          omega
        simp [this]
      · have h3 : g.n + 1 = g.mark + r.size := by omega
        simp [h3]
    · have h2 : ¬ g.n + 1 < g.mark + r.size := by omega
      simp [h1, h2]
  · intro k hk1 hk2
    simp only [Ring.move, Ghost.move] at hk1 hk2 ⊢
    by_cases hk : k = g.n + 1
    · subst hk; simp [hcur']
    · simp only [hk, if_false]
      exact hv k (by omega) (by omega)

/-- expected index list: global indices lo..n reduced mod size -/
def Ghost.lo {α : Type} (g : Ghost α) (size : Nat) : Nat := max g.mark (g.n + 1 - size)

theorem fullIdx_eq {α : Type} (r : Ring α) (g : Ghost α) (h : RInv r g) :
    r.fullIdx = (List.range' (g.n + 1 - min (g.n + 1) r.size) (min (g.n + 1) r.size)).map (· % r.size) := by
  obtain ⟨hs, hc, hf, hm, ho, hv⟩ := h
  have hlt := Nat.mod_lt g.n hs
  have hdiv := Nat.div_add_mod g.n r.size
  unfold Ring.fullIdx
  split
  · next h1 =>
    -- cur = size - 1
    have hn1 : (g.n + 1) % r.size = 0 := by
      rw [succ_mod _ _ hs]; simp; omega
    have hge : r.size ≤ g.n + 1 := by have := Nat.mod_le g.n r.size; omega
    have hmin : min (g.n + 1) r.size = r.size := by omega
    rw [hmin]
    have hbase : (g.n + 1 - r.size) % r.size = 0 := by
      apply Nat.sub_mod_eq_zero_of_mod_eq
      simp [hn1]
    apply List.ext_getElem
    · simp
    · intro j h1 h2
      simp at h1 h2 ⊢
      rw [Nat.add_mod, hbase]
      simp
      exact (Nat.mod_eq_of_lt h1).symm
  · next h1 =>
    split
    · next h2 =>
      have hnf : ¬ r.full = true := by simpa using h2
      have hn : g.n < r.size := by
        rcases Nat.lt_or_ge g.n r.size with h3 | h3
        · exact h3
        · exact absurd (hf.mpr h3) hnf
      have hcn : r.cur = g.n := by rw [hc]; exact Nat.mod_eq_of_lt hn
      have hmin : min (g.n + 1) r.size = g.n + 1 := by omega
      rw [hmin, hcn]
      apply List.ext_getElem
      · simp
      · intro j h1 h2
        simp at h1 h2 ⊢
        exact (Nat.mod_eq_of_lt (by omega)).symm
    · next h2 =>
      have hfull : r.full = true := by simpa using h2
      have hge : r.size ≤ g.n := hf.mp hfull
      have hmin : min (g.n + 1) r.size = r.size := by omega
      rw [hmin]
      have hcl : r.cur + 1 < r.size := by omega
      apply List.ext_getElem
      · simp; omega
      · intro j h1 h2
        simp at h1 h2
        have hq : 1 ≤ g.n / r.size := Nat.div_pos hge hs
        -- g.n + 1 - size + j = size * (q-1) + (cur + 1 + j)
        have hrep : g.n + 1 - r.size + j = r.size * (g.n / r.size - 1) + (r.cur + 1 + j) := by
          have : r.size * (g.n / r.size) = r.size * (g.n / r.size - 1) + r.size := by
            have : g.n / r.size = (g.n / r.size - 1) + 1 := by omega
            conv => lhs; rw [this]
            rw [Nat.mul_add, Nat.mul_one]
          rw [hc]; omega
        simp only [List.getElem_map, List.getElem_range']
        rw [Nat.one_mul, hrep, Nat.mul_add_mod]
        by_cases hj : j < r.size - (r.cur + 1)
        · rw [List.getElem_append_left (by simp; omega)]
          simp
          exact (Nat.mod_eq_of_lt (by omega)).symm
        · rw [List.getElem_append_right (by simp; omega)]
          simp
          have : r.cur + 1 + j = r.size + (j - (r.size - (r.cur + 1))) := by omega
          rw [this, Nat.add_mod_left]
          exact (Nat.mod_eq_of_lt (by omega)).symm

theorem histLen_eq {α : Type} (r : Ring α) (g : Ghost α) (h : RInv r g) (h1 : g.n < g.mark + r.size) :
    r.histLen (g.mark % r.size) = g.n - g.mark + 1 := by
  obtain ⟨hs, hc, hf, hm, ho, hv⟩ := h
  unfold Ring.histLen
  have hd : g.n = g.mark + (g.n - g.mark) := by omega
  have hm' := Nat.mod_lt g.mark hs
  have : (r.cur + r.size - g.mark % r.size) % r.size = g.n - g.mark := by
    rw [hc]
    conv => lhs; rw [hd, Nat.add_mod]
    have hdl : (g.n - g.mark) % r.size = g.n - g.mark := Nat.mod_eq_of_lt (by omega)
    rw [hdl]
    by_cases h2 : g.mark % r.size + (g.n - g.mark) < r.size
    · rw [Nat.mod_eq_of_lt h2]
      have : g.mark % r.size + (g.n - g.mark) + r.size - g.mark % r.size = r.size + (g.n - g.mark) := by omega
      rw [this, Nat.add_mod_left]; exact Nat.mod_eq_of_lt (by omega)
    · have h3 : (g.mark % r.size + (g.n - g.mark)) % r.size = g.mark % r.size + (g.n - g.mark) - r.size := by
        rw [Nat.mod_eq_sub_mod (by omega)]; exact Nat.mod_eq_of_lt (by omega)
      rw [h3]
      have : g.mark % r.size + (g.n - g.mark) - r.size + r.size - g.mark % r.size = g.n - g.mark := by omega
      rw [this]; exact Nat.mod_eq_of_lt (by omega)
  omega

theorem historyIdx_eq {α : Type} (r : Ring α) (g : Ghost α) (h : RInv r g) :
    r.historyIdx = some ((List.range' (g.lo r.size) (g.n + 1 - g.lo r.size)).map (· % r.size)) := by
  have hfi := fullIdx_eq r g h
  obtain ⟨hs, hc, hf, hm, ho, hv⟩ := h
  unfold Ring.historyIdx Ghost.lo
  rw [ho]
  by_cases h1 : g.n < g.mark + r.size
  · simp only [h1, if_true]
    rw [histLen_eq r g ⟨hs, hc, hf, hm, ho, hv⟩ h1, hfi]
    have hle : g.n - g.mark + 1 ≤ min (g.n + 1) r.size := by omega
    simp only [List.length_map, List.length_range', hle, if_true]
    have hmax : max g.mark (g.n + 1 - r.size) = g.mark := by omega
    rw [hmax, ← List.map_drop, List.drop_range']
    have e1 : g.n + 1 - min (g.n + 1) r.size + (min (g.n + 1) r.size - (g.n - g.mark + 1)) * 1 = g.mark := by omega
    have e2 : min (g.n + 1) r.size - (min (g.n + 1) r.size - (g.n - g.mark + 1)) = g.n + 1 - g.mark := by omega
    rw [e1, e2]
  · simp only [h1, if_false]
    rw [hfi]
    have hmax : max g.mark (g.n + 1 - r.size) = g.n + 1 - r.size := by omega
    have hmin : min (g.n + 1) r.size = r.size := by omega
    rw [hmax, hmin]
    have e3 : g.n + 1 - (g.n + 1 - r.size) = r.size := by omega
    rw [e3]

/-- GetHistory returns exactly the retained values, oldest first, ending with the current one. -/
theorem history_eq {α : Type} (r : Ring α) (g : Ghost α) (h : RInv r g) :
    r.history = some ((List.range' (g.lo r.size) (g.n + 1 - g.lo r.size)).map g.vals) := by
  unfold Ring.history
  rw [historyIdx_eq r g h]
  obtain ⟨hs, hc, hf, hm, ho, hv⟩ := h
  simp only [Option.map_some, List.map_map]
  congr 1
  apply List.map_congr_left
  intro k hk
  simp only [List.mem_range'_1, Ghost.lo] at hk
  simp only [Function.comp]
  exact hv k (by omega) (by omega)


/-! ### Reset, Oldest, CopyRecent -/

def Ghost.reset {α : Type} (stale : α) : Ghost α := { n := 0, mark := 0, vals := fun _ => stale }

theorem inv_reset {α : Type} (r : Ring α) (g : Ghost α) (h : RInv r g) :
    RInv r.reset (Ghost.reset (r.slots 0)) := by
  obtain ⟨hs, _, _, _, _, _⟩ := h
  refine ⟨hs, ?_, ?_, ?_, ?_, ?_⟩
  · simp [Ring.reset, Ghost.reset]
  · simp [Ring.reset, Ghost.reset]; omega
  · simp [Ghost.reset]
  · simp [Ring.reset, Ghost.reset, hs]
  · intro k hk _
    simp only [Ghost.reset] at hk
    have : k = 0 := by omega
    subst this
    simp [Ring.reset, Ghost.reset]

theorem lo_le_n {α : Type} (g : Ghost α) (size : Nat) (hm : g.mark ≤ g.n) (hs : 0 < size) :
    g.lo size ≤ g.n := by
  unfold Ghost.lo; omega

/-- `Oldest()` is the frame with global index `lo` — the marked frame while it is buffered,
otherwise the slot about to be overwritten — which is also the head of the history. -/
theorem oldestFrame_eq {α : Type} (r : Ring α) (g : Ghost α) (h : RInv r g) :
    r.oldestFrame = g.vals (g.lo r.size) := by
  obtain ⟨hs, hc, hf, hm, ho, hv⟩ := h
  unfold Ring.oldestFrame Ring.oldestIdx Ghost.lo
  rw [ho]
  by_cases h1 : g.n < g.mark + r.size
  · simp only [h1, if_true]
    have hmax : max g.mark (g.n + 1 - r.size) = g.mark := by omega
    rw [hmax]
    exact hv g.mark hm h1
  · simp only [h1, if_false]
    have hmax : max g.mark (g.n + 1 - r.size) = g.n + 1 - r.size := by omega
    rw [hmax]
    have hk := hv (g.n + 1 - r.size) (by omega) (by omega)
    rw [← hk]
    congr 1
    unfold Ring.next
    rw [hc, Nat.mod_add_mod]
    have : g.n + 1 = (g.n + 1 - r.size) + r.size := by omega
    conv => lhs; rw [this]
    exact Nat.add_mod_right _ _

theorem no_frame_yet_iff {α : Type} (r : Ring α) (g : Ghost α) (h : RInv r g) :
    (r.cur = 0 ∧ r.full = false) ↔ g.n = 0 := by
  obtain ⟨hs, hc, hf, hm, ho, hv⟩ := h
  constructor
  · rintro ⟨h0, hfl⟩
    have hlt : g.n < r.size := by
      rcases Nat.lt_or_ge g.n r.size with h2 | h2
      · exact h2
      · have := hf.mpr h2; rw [hfl] at this; cases this
    rw [hc, Nat.mod_eq_of_lt hlt] at h0; exact h0
  · intro hn
    refine ⟨by rw [hc, hn]; exact Nat.zero_mod _, ?_⟩
    cases hfl : r.full with
    | false => rfl
    | true => have := hf.mp hfl; omega

/-- `CopyRecent()` is the frame completed just before the current one (capacity ≥ 2), and nil
while no frame has been completed. -/
theorem recent_eq {α : Type} (r : Ring α) (g : Ghost α) (h : RInv r g)
    (h2 : 2 ≤ r.size) : r.recent = if g.n = 0 then none else some (g.vals (g.n - 1)) := by
  have hiff := no_frame_yet_iff r g h
  obtain ⟨hs, hc, hf, hm, ho, hv⟩ := h
  unfold Ring.recent
  by_cases hn : g.n = 0
  · simp only [hn, if_true]; rw [if_pos (hiff.mpr hn)]
  · simp only [hn, if_false]
    rw [if_neg (fun hh => hn (hiff.mp hh))]
    congr 1
    unfold Ring.recentIdx
    rw [← hv (g.n - 1) (by omega) (by omega)]
    congr 1
    rw [hc]
    have e : g.n % r.size + r.size - 1 = (g.n % r.size + (r.size - 1)) := by omega
    rw [e, Nat.mod_add_mod]
    have e2 : g.n + (r.size - 1) = (g.n - 1) + r.size := by omega
    rw [e2]; exact Nat.add_mod_right _ _

/-- With capacity 1 the only slot is both current and "recent". -/
theorem recent_size_one {α : Type} (r : Ring α) (g : Ghost α) (h : RInv r g)
    (h1 : r.size = 1) : r.recent = if g.n = 0 then none else some (g.vals g.n) := by
  have hiff := no_frame_yet_iff r g h
  obtain ⟨hs, hc, hf, hm, ho, hv⟩ := h
  unfold Ring.recent
  by_cases hn : g.n = 0
  · simp only [hn, if_true]; rw [if_pos (hiff.mpr hn)]
  · simp only [hn, if_false]
    rw [if_neg (fun hh => hn (hiff.mp hh))]
    congr 1
    unfold Ring.recentIdx
    rw [← hv g.n (Nat.le_refl _) (by omega)]
    congr 1
    rw [h1]; simp [Nat.mod_one]

/-! ### Operation sequences -/

inductive RingOp (α : Type) where
  | write (v : α)
  | move
  | mark
  | reset

def Ring.apply {α : Type} (r : Ring α) : RingOp α → Ring α
  | .write v => r.write v
  | .move => r.move
  | .mark => r.setAsOldest
  | .reset => r.reset

def Ghost.apply {α : Type} (r : Ring α) (g : Ghost α) : RingOp α → Ghost α
  | .write v => g.write v
  | .move => g.move (r.slots (r.next r.cur))
  | .mark => g.markNow
  | .reset => Ghost.reset (r.slots 0)

def runOps {α : Type} : Ring α × Ghost α → List (RingOp α) → Ring α × Ghost α
  | s, [] => s
  | (r, g), op :: ops => runOps (r.apply op, g.apply r op) ops

theorem inv_apply {α : Type} (r : Ring α) (g : Ghost α) (op : RingOp α) (h : RInv r g) :
    RInv (r.apply op) (g.apply r op) := by
  cases op with
  | write v => exact inv_write r g v h
  | move => exact inv_move r g h
  | mark => exact inv_mark r g h
  | reset => exact inv_reset r g h

theorem inv_runOps {α : Type} (ops : List (RingOp α)) (r : Ring α) (g : Ghost α) (h : RInv r g) :
    RInv (runOps (r, g) ops).1 (runOps (r, g) ops).2 := by
  induction ops generalizing r g with
  | nil => exact h
  | cons op ops ih => exact ih _ _ (inv_apply r g op h)

/-- the ring component of `runOps` does not depend on the ghost -/
theorem runOps_ring {α : Type} (ops : List (RingOp α)) (r : Ring α) (g : Ghost α) :
    (runOps (r, g) ops).1 = ops.foldl Ring.apply r := by
  induction ops generalizing r g with
  | nil => rfl
  | cons op ops ih => simp [runOps, ih]

end TR
