import Proofs.C01Spec
import Proofs.C03Spec
import Proofs.PipeC04
/-!
# Proofs.PipeC03 — the two views of a motion recording, linked

`C01Spec.recordings tr` lists every recording as the ids written to the motion sink (pre-trigger frames, then
the trigger frame, then the later frames); `C03Spec.recordingsOf tr` lists every recording as the motion bits
of its frames from the trigger frame on, with the way it ended.  Here the two are linked, for the trace of
the processor MODEL: there is ONE list of entries `(lo, t, ms, e)` — first id, accepted-frame number of the
trigger frame, motion bits, end kind — such that

* `recordings tr = L.map Entry.ids`  with  `ids = [lo, …, t, …, t + ms.length − 1]`,
* `recordingsOf tr = L.map Entry.view`  with  `view = (ms, e)`,
* `triggerFrames tr = L.map (·.t)`  (`triggerFrames`: the accepted-frame numbers of the frame events that
  carry a successful `StartRecording`),
* `lo ≤ t < lo + K`  (at most `K − 1` pre-trigger frames), `1 ≤ ms.length`,
* `Tiled K 0 L`: `lo = max (t + 1 − K) nf` with `nf` = one past the last id of the previous recording
  (0 for the first) — the reach is `K − 1` frames unless the recording then begins right after the previous
  one / at start-up.

* §A  entries, `Tiled`;
* §B  `recordingsOf` and `triggerFrames` as left folds (any trace);
* §C  the relation `Link` between the three accumulators and the entry list, and its three moves
      (`link_open`, `link_extend`, `link_close`);
* §D  the observations of one model step, in closed form (`frame_shape`, `stop_shape`);
* §E  the joint invariant along every event list (`ci_trace`), the result (`model_link`);
* §F  consequences for one entry under the length rule.
-/
namespace TR.PipeC03
open TR TR.C01Spec TR.C03Spec

/-! ## (A) entries -/

/-- one recording, both views at once -/
structure Entry where
  lo : Nat          -- first id written (oldest pre-trigger frame)
  t : Nat           -- accepted-frame number (= id) of the trigger frame
  ms : List Bool    -- motion bits of the frames from the trigger frame on
  e : EndKind       -- how it ended

namespace Entry

/-- the ids written: `lo, …, t − 1` (pre-trigger), `t, …, t + ms.length − 1` -/
def ids (x : Entry) : List Nat := List.range' x.lo (x.t - x.lo + x.ms.length)

/-- the view of `C03Spec.recordingsOf` -/
def view (x : Entry) : Recording := (x.ms, x.e)

/-- one past the last id written -/
def stop (x : Entry) : Nat := x.t + x.ms.length

/-- number of pre-trigger frames -/
def pre (x : Entry) : Nat := x.t - x.lo

/-- well-formed: at most `K − 1` pre-trigger frames, at least the trigger frame -/
def WF (K : Nat) (x : Entry) : Prop := x.lo ≤ x.t ∧ x.t < x.lo + K ∧ 1 ≤ x.ms.length

end Entry

/-- one past the last id of the last entry (`nf` if there is none) -/
def endOf : Nat → List Entry → Nat
  | nf, [] => nf
  | _, x :: xs => endOf x.stop xs

/-- every recording starts `K − 1` frames before its trigger frame, or right after the previous recording
(`nf`: one past the last id recorded before the list) when that is later -/
def Tiled (K : Nat) : Nat → List Entry → Prop
  | _, [] => True
  | nf, x :: xs => x.lo = max (x.t + 1 - K) nf ∧ Tiled K x.stop xs

theorem endOf_snoc (nf : Nat) (L : List Entry) (x : Entry) : endOf nf (L ++ [x]) = x.stop := by
  induction L generalizing nf with
  | nil => rfl
  | cons y ys ih => exact ih y.stop

theorem tiled_snoc (K nf : Nat) (L : List Entry) (x : Entry) :
    Tiled K nf (L ++ [x]) ↔ Tiled K nf L ∧ x.lo = max (x.t + 1 - K) (endOf nf L) := by
  induction L generalizing nf with
  | nil => simp [Tiled, endOf]
  | cons y ys ih =>
    simp only [List.cons_append, Tiled, endOf, ih y.stop]
    exact and_assoc.symm

/-- `Tiled`, position by position -/
theorem tiled_getElem (K : Nat) : ∀ (L : List Entry) (nf : Nat), Tiled K nf L →
    ∀ i (h : i < L.length), L[i].lo = max (L[i].t + 1 - K) (endOf nf (L.take i)) := by
  intro L
  induction L with
  | nil => intro nf _ i h; exact absurd h (Nat.not_lt_zero _)
  | cons x xs ih =>
    intro nf ht i h
    cases i with
    | zero => exact ht.1
    | succ i =>
      simp only [List.getElem_cons_succ, List.take_succ_cons, endOf]
      exact ih x.stop ht.2 i (Nat.lt_of_succ_lt_succ h)

theorem ids_length (x : Entry) : x.ids.length = x.pre + x.ms.length := by
  simp [Entry.ids, Entry.pre]

/-- the trigger frame sits at position `pre` of the id list -/
theorem ids_trigger (x : Entry) (h1 : x.lo ≤ x.t) (h2 : 1 ≤ x.ms.length) : x.ids[x.pre]? = some x.t := by
  unfold Entry.ids Entry.pre
  rw [List.getElem?_range' (by omega)]
  congr 1; omega

/-! ## (B) `recordingsOf` and `triggerFrames` as left folds -/

/-- accumulator of the left-fold form of `recordingsOf`: closed recordings, motion bits of the open one -/
structure OAcc where
  done : List Recording := []
  cur : Option (List Bool) := none

/-- close the open recording (if any) with end kind `e` -/
def OAcc.close (b : OAcc) (e : EndKind) : OAcc :=
  { done := b.done ++ (b.cur.map fun ms => (ms, e)).toList, cur := none }

/-- a frame event with motion bit `m` whose observations contain a successful start / a stop -/
def OAcc.frame (b : OAcc) (m started stopped : Bool) : OAcc :=
  if started then
    if stopped then { done := (b.close .byRestart).done ++ [([m], .byStop)], cur := none }
    else { done := (b.close .byRestart).done, cur := some [m] }
  else
    match b.cur with
    | none => b
    | some ms =>
      if stopped then { done := b.done ++ [(ms ++ [m], .byStop)], cur := none }
      else { done := b.done, cur := some (ms ++ [m]) }

def OAcc.step (b : OAcc) (st : Step) : OAcc :=
  match st.ev with
  | .frame m _ => b.frame m (hasStartOk st.obs) (hasStop st.obs)
  | .bad _ => b.close .byBadOrReset
  | .reset _ => b.close .byBadOrReset
  | .testReq => b

/-- closed recordings followed by the open one -/
def OAcc.all (b : OAcc) : List Recording := b.done ++ (b.cur.map fun ms => (ms, EndKind.stillOpen)).toList

theorem oacc_fold : ∀ (tr : List Step) (b : OAcc),
    (tr.foldl OAcc.step b).all =
      b.done ++ (b.cur.map fun ms => restOf ms tr).toList ++ recordingsOf tr := by
  intro tr
  induction tr with
  | nil =>
    intro b
    obtain ⟨d, cu⟩ := b
    cases cu <;> simp [OAcc.all, restOf, recordingsOf]
  | cons st rest ih =>
    intro b
    rw [List.foldl_cons, ih]
    obtain ⟨ev, obs⟩ := st
    obtain ⟨d, cu⟩ := b
    cases ev with
    | testReq => cases cu <;> simp [OAcc.step, restOf, recordingsOf]
    | bad f => cases cu <;> simp [OAcc.step, OAcc.close, restOf, recordingsOf]
    | reset f => cases cu <;> simp [OAcc.step, OAcc.close, restOf, recordingsOf]
    | frame m f =>
      cases hs : hasStartOk obs <;> cases hst : hasStop obs <;> cases cu <;>
        simp [OAcc.step, OAcc.frame, OAcc.close, restOf, recordingsOf, hs, hst]

/-- **`recordingsOf` is a left fold** (any trace) -/
theorem recordingsOf_eq_fold (tr : List Step) : recordingsOf tr = (tr.foldl OAcc.step {}).all := by
  rw [oacc_fold]; rfl

/-- the accepted-frame numbers (number of frame events before them, counted from `n`) of the frame events
that carry a successful `StartRecording` on the motion sink -/
def triggersFrom : Nat → List Step → List Nat
  | _, [] => []
  | n, st :: rest =>
    match st.ev with
    | .frame _ _ => if hasStartOk st.obs then n :: triggersFrom (n + 1) rest else triggersFrom (n + 1) rest
    | _ => triggersFrom n rest

/-- the trigger frames of a trace: for every recording of `recordingsOf`, the accepted-frame number of the
frame event that started it -/
def triggerFrames (tr : List Step) : List Nat := triggersFrom 0 tr

structure TAcc where
  n : Nat := 0
  ts : List Nat := []

def TAcc.step (t : TAcc) (st : Step) : TAcc :=
  match st.ev with
  | .frame _ _ => { n := t.n + 1, ts := if hasStartOk st.obs then t.ts ++ [t.n] else t.ts }
  | _ => t

theorem tacc_fold : ∀ (tr : List Step) (t : TAcc),
    (tr.foldl TAcc.step t).ts = t.ts ++ triggersFrom t.n tr := by
  intro tr
  induction tr with
  | nil => intro t; simp [triggersFrom]
  | cons st rest ih =>
    intro t
    rw [List.foldl_cons, ih]
    obtain ⟨ev, obs⟩ := st
    cases ev with
    | frame m f => cases hs : hasStartOk obs <;> simp [TAcc.step, triggersFrom, hs]
    | bad f => rfl
    | reset f => rfl
    | testReq => rfl

theorem triggerFrames_eq_fold (tr : List Step) : triggerFrames tr = (tr.foldl TAcc.step {}).ts := by
  rw [tacc_fold]; rfl

/-- one trigger frame per recording (any trace) -/
theorem triggersFrom_length : ∀ (tr : List Step) (n : Nat), (triggersFrom n tr).length = (recordingsOf tr).length := by
  intro tr
  induction tr with
  | nil => intro n; rfl
  | cons st rest ih =>
    intro n
    obtain ⟨ev, obs⟩ := st
    cases ev with
    | frame m f => cases hs : hasStartOk obs <;> simp [triggersFrom, recordingsOf, hs, ih]
    | bad f => exact ih n
    | reset f => exact ih n
    | testReq => exact ih n

/-- what `triggersFrom` lists: `t` is listed iff the trace splits at a frame event with a successful start
that has `t − n` frame events before it -/
theorem mem_triggersFrom : ∀ (tr : List Step) (n t : Nat),
    t ∈ triggersFrom n tr ↔ ∃ pre st post, tr = pre ++ st :: post ∧ startsRec st = true ∧
      t = n + (pre.filter (·.ev.isFrame)).length := by
  intro tr
  induction tr with
  | nil =>
    intro n t
    simp [triggersFrom]
  | cons st rest ih =>
    intro n t
    constructor
    · intro h
      obtain ⟨ev, obs⟩ := st
      cases ev with
      | frame m f =>
        simp only [triggersFrom] at h
        have hrest : t ∈ triggersFrom (n + 1) rest →
            ∃ pre st post, (⟨.frame m f, obs⟩ : Step) :: rest = pre ++ st :: post ∧ startsRec st = true ∧
              t = n + (pre.filter (·.ev.isFrame)).length := by
          intro h'
          obtain ⟨pre, s, post, h1, h2, h3⟩ := (ih (n + 1) t).mp h'
          refine ⟨⟨.frame m f, obs⟩ :: pre, s, post, by rw [h1]; rfl, h2, ?_⟩
          rw [List.filter_cons_of_pos (by rfl), List.length_cons]
          omega
        split at h
        · next hs =>
          rcases List.mem_cons.mp h with rfl | h'
          · exact ⟨[], _, rest, rfl, by simp [startsRec, Ev.isFrame, hs], by simp⟩
          · exact hrest h'
        · exact hrest h
      | bad f =>
        obtain ⟨pre, s, post, h1, h2, h3⟩ := (ih n t).mp h
        exact ⟨⟨.bad f, obs⟩ :: pre, s, post, by rw [h1]; rfl, h2, by simpa [List.filter_cons, Ev.isFrame] using h3⟩
      | reset f =>
        obtain ⟨pre, s, post, h1, h2, h3⟩ := (ih n t).mp h
        exact ⟨⟨.reset f, obs⟩ :: pre, s, post, by rw [h1]; rfl, h2, by simpa [List.filter_cons, Ev.isFrame] using h3⟩
      | testReq =>
        obtain ⟨pre, s, post, h1, h2, h3⟩ := (ih n t).mp h
        exact ⟨⟨.testReq, obs⟩ :: pre, s, post, by rw [h1]; rfl, h2, by simpa [List.filter_cons, Ev.isFrame] using h3⟩
    · rintro ⟨pre, s, post, h1, h2, h3⟩
      cases pre with
      | nil =>
        simp only [List.nil_append, List.cons.injEq] at h1
        obtain ⟨h1a, h1b⟩ := h1
        subst h1a h1b
        obtain ⟨ev, obs⟩ := st
        cases ev with
        | frame m f =>
          have hs : hasStartOk obs = true := by simpa [startsRec, Ev.isFrame] using h2
          simp only [triggersFrom, hs, if_true]
          simp at h3
          rw [h3]; exact List.mem_cons_self ..
        | bad f => simp [startsRec, Ev.isFrame] at h2
        | reset f => simp [startsRec, Ev.isFrame] at h2
        | testReq => simp [startsRec, Ev.isFrame] at h2
      | cons p pre =>
        simp only [List.cons_append, List.cons.injEq] at h1
        obtain ⟨h1a, h1b⟩ := h1
        subst h1a h1b
        obtain ⟨ev, obs⟩ := st
        cases ev with
        | frame m f =>
          have : t ∈ triggersFrom (n + 1) (pre ++ s :: post) :=
            (ih (n + 1) t).mpr ⟨pre, s, post, rfl, h2, by
              rw [List.filter_cons_of_pos (by rfl), List.length_cons] at h3; omega⟩
          simp only [triggersFrom]
          split
          · exact List.mem_cons_of_mem _ this
          · exact this
        | bad f =>
          exact (ih n t).mpr ⟨pre, s, post, rfl, h2, by simpa [List.filter_cons, Ev.isFrame] using h3⟩
        | reset f =>
          exact (ih n t).mpr ⟨pre, s, post, rfl, h2, by simpa [List.filter_cons, Ev.isFrame] using h3⟩
        | testReq =>
          exact (ih n t).mpr ⟨pre, s, post, rfl, h2, by simpa [List.filter_cons, Ev.isFrame] using h3⟩

/-! ## (C) the link between the three accumulators and the entry list -/

/-- the id accumulator `a` (`C01Spec.recordings`), the motion-bit accumulator `b` (`recordingsOf`) and the
trigger-frame list `ts` are three projections of ONE entry list: `L` (closed recordings) and `cur` (the open
one) -/
structure Link (K : Nat) (a : RecAcc) (b : OAcc) (ts : List Nat) (L : List Entry) (cur : Option Entry) : Prop where
  adone : a.done = L.map Entry.ids
  acur : a.cur = cur.map Entry.ids
  bdone : b.done = L.map Entry.view
  bcur : b.cur = cur.map (·.ms)
  tsEq : ts = (L ++ cur.toList).map (·.t)
  wf : ∀ x ∈ L ++ cur.toList, x.WF K
  tiled : Tiled K 0 (L ++ cur.toList)
  kinds : ∀ x ∈ L, x.e = .byStop ∨ x.e = .byBadOrReset
  openKind : ∀ x, cur = some x → x.e = .stillOpen

theorem Link.congr {K : Nat} {a a' : RecAcc} {b b' : OAcc} {ts : List Nat} {L : List Entry} {cur : Option Entry}
    (h : Link K a b ts L cur) (h1 : a'.done = a.done) (h2 : a'.cur = a.cur) (h3 : b'.done = b.done)
    (h4 : b'.cur = b.cur) : Link K a' b' ts L cur :=
  ⟨h1.trans h.adone, h2.trans h.acur, h3.trans h.bdone, h4.trans h.bcur, h.tsEq, h.wf, h.tiled, h.kinds, h.openKind⟩

theorem link_init (K : Nat) : Link K {} {} [] [] none :=
  ⟨rfl, rfl, rfl, rfl, rfl, (by intro x hx; cases hx), trivial, (by intro x hx; cases hx), (by intro x hx; cases hx)⟩

/-- successful writes append their ids to the open recording -/
theorem acc_writes : ∀ (ids : List Nat) (a : RecAcc) (r : List Nat), a.cur = some r →
    (ids.map P01.W).foldl RecAcc.obs a = { done := a.done, cur := some (r ++ ids) } := by
  intro ids
  induction ids with
  | nil =>
    intro a r h
    obtain ⟨d, cu⟩ := a
    simp only at h
    subst h
    simp
  | cons id rest ih =>
    intro a r h
    rw [List.map_cons, List.foldl_cons, acc_write_some a id true r h, ih _ (r ++ [id]) rfl]
    simp

/-- a recording opens: successful start, then the writes `lo, …, t` -/
theorem link_open {K : Nat} {a : RecAcc} {b : OAcc} {ts : List Nat} {L : List Entry}
    (h : Link K a b ts L none) (lo t : Nat) (m : Bool)
    (hlo : lo ≤ t) (hK : t < lo + K) (htile : lo = max (t + 1 - K) (endOf 0 L)) :
    Link K (((List.range' lo (t + 1 - lo)).map P01.W).foldl RecAcc.obs (a.obs (.call .motion .start true)))
      { done := b.done, cur := some [m] } (ts ++ [t]) L (some ⟨lo, t, [m], .stillOpen⟩) := by
  have hcur : a.cur = none := h.acur
  have hL : L ++ (none : Option Entry).toList = L := by simp
  have hw := h.wf; have ht := h.tiled; have hts := h.tsEq
  rw [hL] at hw ht hts
  rw [acc_start, acc_writes _ _ [] rfl, all_none a hcur]
  refine ⟨h.adone, ?_, h.bdone, rfl, ?_, ?_, ?_, h.kinds, ?_⟩
  · show some ([] ++ List.range' lo (t + 1 - lo)) = some (List.range' lo (t - lo + 1))
    rw [List.nil_append, show t + 1 - lo = t - lo + 1 by omega]
  · simp [hts]
  · intro x hx
    simp only [Option.toList_some, List.mem_append, List.mem_singleton] at hx
    rcases hx with hx | rfl
    · exact hw x hx
    · exact ⟨hlo, hK, Nat.le_refl _⟩
  · simp only [Option.toList_some]
    exact (tiled_snoc K 0 L _).mpr ⟨ht, htile⟩
  · intro x hx
    simp only [Option.some.injEq] at hx
    subst hx; rfl

/-- the open recording receives one more frame: the write of its next id -/
theorem link_extend {K : Nat} {a : RecAcc} {b : OAcc} {ts : List Nat} {L : List Entry} {x : Entry}
    (h : Link K a b ts L (some x)) (m : Bool) (id : Nat) (ok : Bool) (hid : id = x.stop) :
    Link K (a.obs (.call .motion (.write id) ok)) { done := b.done, cur := some (x.ms ++ [m]) } ts L
      (some { x with ms := x.ms ++ [m] }) := by
  have hcur : a.cur = some x.ids := h.acur
  have hwx : x.WF K := h.wf x (by simp)
  have hw := h.wf; have ht := h.tiled; have hts := h.tsEq
  simp only [Option.toList_some] at hw ht hts
  rw [acc_write_some a id ok _ hcur]
  refine ⟨h.adone, ?_, h.bdone, rfl, ?_, ?_, ?_, h.kinds, ?_⟩
  · show some (x.ids ++ [id]) = some (List.range' x.lo (x.t - x.lo + (x.ms ++ [m]).length))
    have e : x.t - x.lo + (x.ms ++ [m]).length = (x.t - x.lo + x.ms.length) + 1 := by simp; omega
    rw [e, List.range'_concat, hid]
    unfold Entry.ids Entry.stop
    congr 3
    have := hwx.1
    omega
  · simp only [Option.toList_some]
    rw [hts]; simp
  · intro y hy
    simp only [Option.toList_some, List.mem_append, List.mem_singleton] at hy
    rcases hy with hy | rfl
    · exact hw y (List.mem_append_left _ hy)
    · exact ⟨hwx.1, hwx.2.1, by simp⟩
  · simp only [Option.toList_some]
    exact (tiled_snoc K 0 L _).mpr ((tiled_snoc K 0 L x).mp ht)
  · intro y hy
    simp only [Option.some.injEq] at hy
    subst hy
    exact h.openKind x rfl

/-- the open recording is closed (by `StopRecording`) with end kind `e` -/
theorem link_close {K : Nat} {a : RecAcc} {b : OAcc} {ts : List Nat} {L : List Entry} {x : Entry}
    (h : Link K a b ts L (some x)) (e : EndKind) (he : e = .byStop ∨ e = .byBadOrReset) (ok : Bool) :
    Link K (a.obs (.call .motion .stop ok)) { done := b.done ++ [(x.ms, e)], cur := none } ts
      (L ++ [{ x with e := e }]) none := by
  have hcur : a.cur = some x.ids := h.acur
  have hwx : x.WF K := h.wf x (by simp)
  have hw := h.wf; have ht := h.tiled; have hts := h.tsEq
  simp only [Option.toList_some] at hw ht hts
  rw [acc_stop, all_some a _ hcur]
  refine ⟨?_, rfl, ?_, rfl, ?_, ?_, ?_, ?_, ?_⟩
  · show a.done ++ [x.ids] = _
    rw [h.adone]; simp [Entry.ids]
  · show b.done ++ [(x.ms, e)] = _
    rw [h.bdone]; simp [Entry.view]
  · rw [hts]; simp
  · intro y hy
    simp only [Option.toList_none, List.append_nil, List.mem_append, List.mem_singleton] at hy
    rcases hy with hy | rfl
    · exact hw y (List.mem_append_left _ hy)
    · exact hwx
  · simp only [Option.toList_none, List.append_nil]
    exact (tiled_snoc K 0 L _).mpr ((tiled_snoc K 0 L x).mp ht)
  · intro y hy
    rcases List.mem_append.mp hy with hy | hy
    · exact h.kinds y hy
    · rw [List.mem_singleton] at hy; subst hy; exact he
  · intro y hy; cases hy

/-- at the end: the three lists are the three projections of `L ++ cur` -/
theorem link_final {K : Nat} {a : RecAcc} {b : OAcc} {ts : List Nat} {L : List Entry} {cur : Option Entry}
    (h : Link K a b ts L cur) :
    a.all = (L ++ cur.toList).map Entry.ids ∧ b.all = (L ++ cur.toList).map Entry.view ∧
    ts = (L ++ cur.toList).map (·.t) := by
  refine ⟨?_, ?_, h.tsEq⟩
  · rw [RecAcc.all, h.adone, h.acur]
    cases cur <;> simp
  · rw [OAcc.all, h.bdone, h.bcur]
    cases hc : cur with
    | none => simp
    | some x => simp [Entry.view, h.openKind x hc]

/-! ## (D) one model step, in closed form -/

open TR.PState

/-- the end of a recording, as observations -/
def stopObs (ok stopped : Bool) : List Obs := if stopped then [Obs.re, Obs.call .motion .stop ok] else []

theorem quiet_one (o : Obs) (h : accQuiet o = true) :
    hasStartOk [o] = false ∧ hasStop [o] = false := by
  cases o with
  | call s cl ok => cases s <;> cases cl <;> cases ok <;> first | exact ⟨rfl, rfl⟩ | exact absurd h (by simp [accQuiet])
  | _ => exact ⟨rfl, rfl⟩

/-- observations that neither the id accumulator nor `hasStartOk` / `hasStop` see -/
theorem quiet_flags : ∀ (q : List Obs), q.all accQuiet = true →
    hasStartOk q = false ∧ hasStop q = false ∧ ∀ a : RecAcc, q.foldl RecAcc.obs a = a := by
  intro q
  induction q with
  | nil => intro _; exact ⟨rfl, rfl, fun _ => rfl⟩
  | cons o q ih =>
    intro h
    simp only [List.all_cons, Bool.and_eq_true] at h
    obtain ⟨i1, i2, i3⟩ := ih h.2
    obtain ⟨o1, o2⟩ := quiet_one o h.1
    refine ⟨?_, ?_, ?_⟩
    · have := P03.hasStartOk_append [o] q
      rw [List.singleton_append] at this
      rw [this, o1, i1]; rfl
    · have := P03.hasStop_append [o] q
      rw [List.singleton_append] at this
      rw [this, o2, i2]; rfl
    · intro a
      rw [List.foldl_cons, acc_quiet a o h.1, i3]

theorem off_quiet (o : Obs) (h : P01.offMotion o = true) : accQuiet o = true := by
  cases o with
  | call s cl ok =>
    cases s with
    | motion => exact absurd h (by simp [P01.offMotion])
    | const => cases cl <;> rfl
    | test => cases cl <;> rfl
  | _ => rfl

theorem all_off_quiet (os : List Obs) (h : os.all P01.offMotion = true) : os.all accQuiet = true := by
  rw [List.all_eq_true] at h ⊢
  intro o ho
  exact off_quiet o (h o ho)

theorem writes_flags (ids : List Nat) :
    hasStartOk (ids.map P01.W) = false ∧ hasStop (ids.map P01.W) = false := by
  induction ids with
  | nil => exact ⟨rfl, rfl⟩
  | cons id rest ih =>
    rw [List.map_cons, P03.hasStartOk_cons, P03.hasStop_cons, ih.1, ih.2]
    exact ⟨rfl, rfl⟩

/-- `stopRecording`, in closed form -/
theorem stop_shape (s : PState) (ok : Bool) :
    (s.stopRecording ok).2 = stopObs ok s.isRec ∧ (s.stopRecording ok).1.isRec = false ∧
    (s.stopRecording ok).1.ring = (if s.isRec then s.ring.setAsOldest else s.ring) ∧
    (s.stopRecording ok).1.n = s.n := by
  unfold PState.stopRecording stopObs
  cases h : s.isRec <;> simp [h]

theorem pDetect_rec (c : PCfg) (s : PState) (m : Bool) (f : Faults) (h : s.isRec = true) :
    ∃ t w q, pDetect c s m f = (({ s with triggered := t, writeUntil := w }, q), 0) ∧ q.all accQuiet = true := by
  cases m
  · exact ⟨0, s.writeUntil, [], by simp [pDetect], rfl⟩
  · exact ⟨s.triggered + 1, min (s.framesWritten + c.minF) c.maxF, [Obs.md], by simp [pDetect, h], rfl⟩

/-- the detection branch while no recording is open: nothing the accumulators see, or a start -/
theorem pDetect_idle (c : PCfg) (s : PState) (m : Bool) (f : Faults) (lo : Nat) (h : s.isRec = false)
    (hf : f.mWriteFail = 0) (hh : s.ring.history = some (List.range' lo (s.n + 1 - lo))) (hlo : lo ≤ s.n) :
    (∃ t q, pDetect c s m f = (({ s with triggered := t }, q), 0) ∧ q.all accQuiet = true) ∨
    pDetect c s m f = (({ s with triggered := s.triggered + 1, isRec := true, writeUntil := c.minF },
      [Obs.md, Obs.call .motion .can true, Obs.call .motion .start true, Obs.rs] ++
        (List.range' lo (s.n - lo)).map P01.W), s.n - lo) := by
  cases m with
  | false => exact Or.inl ⟨0, [], by simp [pDetect], rfl⟩
  | true =>
    by_cases h1 : s.triggered + 1 < c.trig
    · exact Or.inl ⟨s.triggered + 1, [Obs.md], by simp [pDetect, h, h1], rfl⟩
    cases hw : f.win with
    | false => exact Or.inl ⟨s.triggered + 1, [Obs.md], by simp [pDetect, h, h1, hw], rfl⟩
    | true =>
    cases hc : f.can with
    | false =>
      exact Or.inl ⟨s.triggered + 1, [Obs.md, Obs.call .motion .can false], by simp [pDetect, h, h1, hw, hc], rfl⟩
    | true =>
    cases hm : f.mStart with
    | false =>
      exact Or.inl ⟨s.triggered + 1, [Obs.md, Obs.call .motion .can true, Obs.call .motion .start false],
        by simp [pDetect, h, h1, hw, hc, hm], rfl⟩
    | true =>
      refine Or.inr ?_
      have e : s.n + 1 - lo = (s.n - lo) + 1 := by omega
      simp only [pDetect, if_true, h, h1, if_false, hw, hc, hm, Bool.not_true, Bool.false_eq_true, hh, e,
        P01.dropLast_range', hf, P01.preTrigger_ok, List.length_range', Nat.zero_add]

theorem pWrite_rec (id k : Nat) (f : Faults) (s : PState) (h : s.isRec = true) (hf : f.mWriteFail = 0) :
    pWrite id k f s = ({ s with framesWritten := s.framesWritten + 1 }, [P01.W id]) := by
  simp [pWrite, h, hf]

theorem pWrite_idle (id k : Nat) (f : Faults) (s : PState) (h : s.isRec = false) : pWrite id k f s = (s, []) := by
  simp [pWrite, h]

theorem pStop_rec (f : Faults) (s : PState) (h : s.isRec = true) :
    ∃ stopped : Bool, (pStop f s).2 = stopObs f.mStop stopped ∧ (pStop f s).1.isRec = !stopped ∧
      (pStop f s).1.ring = (if stopped then s.ring.move.setAsOldest else s.ring.move) ∧ (pStop f s).1.n = s.n := by
  refine ⟨decide (s.framesWritten ≥ s.writeUntil), ?_⟩
  unfold pStop stopObs
  by_cases hd : s.framesWritten ≥ s.writeUntil
  · simp [h, hd, stopRecording]
  · simp [h, hd]

theorem pStop_idle (f : Faults) (s : PState) (h : s.isRec = false) :
    pStop f s = ({ s with ring := s.ring.move }, []) := by
  simp [pStop, h]

/-- **`process` in closed form** (no dictated write failure; `GetHistory` returns `lo … n`): the observations
are inert ones (`q`), then — if a recording starts — the successful start and the pre-trigger writes, then the
write of the frame itself if a recording is (now) open, then possibly the end of the recording. -/
theorem process_shape (c : PCfg) (s : PState) (m : Bool) (f : Faults) (lo : Nat) (hf : f.mWriteFail = 0)
    (hh : s.ring.history = some (List.range' lo (s.n + 1 - lo))) (hlo : lo ≤ s.n) :
    ∃ (q : List Obs) (started stopped : Bool),
      q.all accQuiet = true ∧ (started = true → s.isRec = false) ∧
      (stopped = true → (s.isRec || started) = true) ∧
      (process c s m f).2 =
        q ++ (if started then Obs.call .motion .start true :: Obs.rs :: (List.range' lo (s.n - lo)).map P01.W
              else []) ++
          (if (s.isRec || started) then [P01.W s.n] else []) ++ stopObs f.mStop stopped ∧
      (process c s m f).1.isRec = ((s.isRec || started) && !stopped) ∧
      (process c s m f).1.ring = (if stopped then s.ring.move.setAsOldest else s.ring.move) ∧
      (process c s m f).1.n = s.n := by
  rw [TR.process_eq]
  simp only [andThen_fst, andThen_snd]
  cases hr : s.isRec with
  | true =>
    obtain ⟨t, w, q, hd, hq⟩ := pDetect_rec c s m f hr
    rw [hd]
    simp only
    rw [pWrite_rec s.n 0 f { s with triggered := t, writeUntil := w } hr hf]
    simp only
    obtain ⟨stopped, p1, p2, p3, p4⟩ := pStop_rec f
      { s with triggered := t, writeUntil := w, framesWritten := s.framesWritten + 1 } hr
    refine ⟨q, false, stopped, hq, by simp, by simp, ?_, ?_, p3, p4⟩
    · rw [p1]; simp
    · rw [p2]; simp
  | false =>
    rcases pDetect_idle c s m f lo hr hf hh hlo with ⟨t, q, hd, hq⟩ | hd
    · rw [hd]
      simp only
      rw [pWrite_idle s.n 0 f { s with triggered := t } hr]
      simp only
      rw [pStop_idle f { s with triggered := t } hr]
      refine ⟨q, false, false, hq, by simp, by simp, ?_, ?_, rfl, rfl⟩
      · simp [stopObs]
      · simp [hr]
    · rw [hd]
      simp only
      rw [pWrite_rec s.n (s.n - lo) f
        { s with triggered := s.triggered + 1, isRec := true, writeUntil := c.minF } rfl hf]
      simp only
      obtain ⟨stopped, p1, p2, p3, p4⟩ := pStop_rec f
        { s with triggered := s.triggered + 1, isRec := true, writeUntil := c.minF,
                 framesWritten := s.framesWritten + 1 } rfl
      refine ⟨[Obs.md, Obs.call .motion .can true], true, stopped, rfl, by simp, by simp, ?_, ?_, p3, p4⟩
      · rw [p1]; simp
      · rw [p2]; simp

/-- the observations of one accepted frame, in closed form -/
def frameObs (ok : Bool) (q side : List Obs) (wasRec started stopped : Bool) (lo n : Nat) : List Obs :=
  q ++ (if started then Obs.call .motion .start true :: Obs.rs :: (List.range' lo (n - lo)).map P01.W else []) ++
    (if (wasRec || started) then [P01.W n] else []) ++ stopObs ok stopped ++ side

/-- **one accepted frame of the model in closed form**: its observations, whether a recording is open
afterwards, the ring (the mark moves to `n + 1` iff the recording was stopped) -/
theorem frame_shape (c : PCfg) (s : PState) (m : Bool) (f : Faults) (mark : Nat)
    (hb : RBase c.K s.ring s.n mark) (hf : f.mWriteFail = 0) :
    ∃ (q side : List Obs) (started stopped : Bool),
      q.all accQuiet = true ∧ side.all accQuiet = true ∧ (started = true → s.isRec = false) ∧
      (stopped = true → (s.isRec || started) = true) ∧
      (PState.step c s (.frame m f)).2 =
        frameObs f.mStop q side s.isRec started stopped (loOf c.K s.n mark) s.n ∧
      (PState.step c s (.frame m f)).1.isRec = ((s.isRec || started) && !stopped) ∧
      RBase c.K (PState.step c s (.frame m f)).1.ring (s.n + 1) (if stopped then s.n + 1 else mark) ∧
      (PState.step c s (.frame m f)).1.n = s.n + 1 := by
  have hK := rbase_size hb
  obtain ⟨q, started, stopped, hq, h1, h2, hobs, hrec, hring, _⟩ :=
    process_shape c (P03.pre s) m f (loOf c.K s.n mark) hf (rbase_history hb)
      (loOf_le c.K s.n mark hK (rbase_mark_le hb))
  obtain ⟨_, _, _, _, _, f6, _, _, _, f10, f11⟩ := P03.frame_spec c s m f
  have q4 := (P01.const_spec c (process c (P03.pre s) m f).1 s.n f).2.2.2
  have t4 := (P01.snap_spec c (processConstantRecorder c (process c (P03.pre s) m f).1 s.n f).1 s.n f).2.2.2
  refine ⟨q, (processConstantRecorder c (process c (P03.pre s) m f).1 s.n f).2 ++
      (processSnapshot c (processConstantRecorder c (process c (P03.pre s) m f).1 s.n f).1 s.n f).2,
    started, stopped, hq, ?_, h1, h2, ?_, ?_, ?_, f11⟩
  · rw [List.all_append, all_off_quiet _ q4, all_off_quiet _ t4]; rfl
  · show (processFrame c s m f).2 = _
    rw [TR.processFrame_eq]
    simp only [andThen_fst, andThen_snd]
    show (process c (P03.pre s) m f).2 ++ _ ++ _ = _
    rw [hobs]
    simp only [frameObs, P03.pre, List.append_assoc]
    rfl
  · show (processFrame c s m f).1.isRec = _
    rw [f6, hrec]; rfl
  · show RBase c.K (processFrame c s m f).1.ring _ _
    rw [f10, hring]
    have hacc : RBase c.K (P03.pre s).ring.move (s.n + 1) mark := rbase_accept hb
    cases stopped
    · exact hacc
    · exact rbase_mark hacc

@[simp] theorem acc_rs (a : RecAcc) : a.obs .rs = a := rfl
@[simp] theorem acc_re (a : RecAcc) : a.obs .re = a := rfl

theorem frameObs_flags (ok : Bool) (q side : List Obs) (wasRec started stopped : Bool) (lo n : Nat)
    (hq : q.all accQuiet = true) (hside : side.all accQuiet = true) :
    hasStartOk (frameObs ok q side wasRec started stopped lo n) = started ∧
    hasStop (frameObs ok q side wasRec started stopped lo n) = stopped := by
  obtain ⟨q1, q2, _⟩ := quiet_flags q hq
  obtain ⟨s1, s2, _⟩ := quiet_flags side hside
  obtain ⟨w1, w2⟩ := writes_flags (List.range' lo (n - lo))
  unfold frameObs stopObs
  simp only [P03.hasStartOk_append, P03.hasStop_append, q1, q2, s1, s2]
  cases started <;> cases wasRec <;> cases stopped <;>
    simp [P03.hasStartOk_cons, P03.hasStop_cons, P03.hasStartOk_nil, P03.hasStop_nil, w1, w2]

theorem range_writes (lo n : Nat) (h : lo ≤ n) :
    (List.range' lo (n - lo)).map P01.W ++ [P01.W n] = (List.range' lo (n + 1 - lo)).map P01.W := by
  have e : n + 1 - lo = (n - lo) + 1 := by omega
  rw [e, List.range'_concat, List.map_append]
  simp only [List.map_cons, List.map_nil, Nat.one_mul]
  congr 3
  omega

/-- the id accumulator sees a `StopRecording` iff the recording was stopped -/
def closeIf (ok stopped : Bool) (a : RecAcc) : RecAcc := if stopped then a.obs (.call .motion .stop ok) else a

/-- the id accumulator across the observations of one accepted frame -/
theorem frameObs_fold (ok : Bool) (q side : List Obs) (wasRec started stopped : Bool) (lo n : Nat)
    (hq : q.all accQuiet = true) (hside : side.all accQuiet = true) (hlo : lo ≤ n) (a : RecAcc) :
    (frameObs ok q side wasRec started stopped lo n).foldl RecAcc.obs a =
      closeIf ok stopped
        (if started then ((List.range' lo (n + 1 - lo)).map P01.W).foldl RecAcc.obs (a.obs (.call .motion .start true))
         else if wasRec then a.obs (P01.W n) else a) := by
  obtain ⟨_, _, q3⟩ := quiet_flags q hq
  obtain ⟨_, _, s3⟩ := quiet_flags side hside
  unfold frameObs stopObs closeIf
  simp only [List.foldl_append, q3, s3]
  cases started with
  | false =>
    cases wasRec <;> cases stopped <;> simp
  | true =>
    rw [← range_writes lo n hlo]
    cases wasRec <;> cases stopped <;> simp [List.foldl_append]

/-! ## (E) the joint invariant along every event list -/

/-- the model state between two events, against the entry list: the ring's `SetAsOldest` mark is one past the
last recorded id while idle; while recording, the next id to be written continues the open entry -/
structure MI (c : PCfg) (s : PState) (t : TAcc) (L : List Entry) (cur : Option Entry) : Prop where
  ring : ∃ mark, RBase c.K s.ring s.n mark ∧ (cur = none → mark = endOf 0 L)
  cnt : t.n = s.n
  isRec : s.isRec = cur.isSome
  nextId : ∀ x, cur = some x → s.n = x.stop

/-- the joint invariant of the model state and the three accumulators -/
def CI (c : PCfg) (s : PState) (a : RecAcc) (b : OAcc) (t : TAcc) : Prop :=
  ∃ L cur, MI c s t L cur ∧ Link c.K a b t.ts L cur

theorem ci_init (c : PCfg) (hK : 0 < c.K) : CI c (PState.init c) {} {} {} :=
  ⟨[], none, ⟨⟨0, rbase_init c.K hK, fun _ => rfl⟩, rfl, rfl, by intro x hx; cases hx⟩, link_init c.K⟩

theorem MI.congr {c : PCfg} {s s' : PState} {t : TAcc} {L : List Entry} {cur : Option Entry}
    (h : MI c s t L cur) (h1 : s'.ring = s.ring) (h2 : s'.n = s.n) (h3 : s'.isRec = s.isRec) : MI c s' t L cur := by
  obtain ⟨hr, hc, hi, hn⟩ := h
  exact ⟨by rw [h1, h2]; exact hr, by rw [h2]; exact hc, by rw [h3]; exact hi, by rw [h2]; exact hn⟩

/-! ### the motion-bit accumulator, case by case -/

theorem oframe_idle (b : OAcc) (m stopped : Bool) (h : b.cur = none) : b.frame m false stopped = b := by
  obtain ⟨d, cu⟩ := b
  simp only at h
  subst h
  rfl

theorem oframe_start (b : OAcc) (m : Bool) (h : b.cur = none) :
    b.frame m true false = { done := b.done, cur := some [m] } ∧
    b.frame m true true = { done := b.done ++ [([m], .byStop)], cur := none } := by
  obtain ⟨d, cu⟩ := b
  simp only at h
  subst h
  simp [OAcc.frame, OAcc.close]

theorem oframe_more (b : OAcc) (m : Bool) (ms : List Bool) (h : b.cur = some ms) :
    b.frame m false false = { done := b.done, cur := some (ms ++ [m]) } ∧
    b.frame m false true = { done := b.done ++ [(ms ++ [m], .byStop)], cur := none } := by
  obtain ⟨d, cu⟩ := b
  simp only at h
  subst h
  simp [OAcc.frame]

theorem oclose_none (b : OAcc) (e : EndKind) (h : b.cur = none) :
    (b.close e).done = b.done ∧ (b.close e).cur = b.cur := by
  obtain ⟨d, cu⟩ := b
  simp only at h
  subst h
  simp [OAcc.close]

theorem oclose_some (b : OAcc) (e : EndKind) (ms : List Bool) (h : b.cur = some ms) :
    b.close e = { done := b.done ++ [(ms, e)], cur := none } := by
  obtain ⟨d, cu⟩ := b
  simp only at h
  subst h
  simp [OAcc.close]

/-! ### one event -/

theorem ci_frame (c : PCfg) (s : PState) (a : RecAcc) (b : OAcc) (t : TAcc) (m : Bool) (f : Faults)
    (hf : f.mWriteFail = 0) (h : CI c s a b t) :
    CI c (PState.step c s (.frame m f)).1 ((PState.step c s (.frame m f)).2.foldl RecAcc.obs a)
      (b.step ⟨.frame m f, (PState.step c s (.frame m f)).2⟩)
      (t.step ⟨.frame m f, (PState.step c s (.frame m f)).2⟩) := by
  obtain ⟨L, cur, hm, hl⟩ := h
  obtain ⟨mark, hb, hmark⟩ := hm.ring
  have hK := rbase_size hb
  have hmle := rbase_mark_le hb
  obtain ⟨q, side, started, stopped, hq, hside, hst, hsp, hobs, hrec, hring, hn⟩ := frame_shape c s m f mark hb hf
  have hlo : loOf c.K s.n mark ≤ s.n := loOf_le c.K s.n mark hK hmle
  obtain ⟨fl1, fl2⟩ := frameObs_flags f.mStop q side s.isRec started stopped (loOf c.K s.n mark) s.n hq hside
  have hfold := frameObs_fold f.mStop q side s.isRec started stopped (loOf c.K s.n mark) s.n hq hside hlo a
  have hbstep : b.step ⟨.frame m f, (PState.step c s (.frame m f)).2⟩ = b.frame m started stopped := by
    show b.frame m (hasStartOk (PState.step c s (.frame m f)).2) (hasStop (PState.step c s (.frame m f)).2) = _
    rw [hobs, fl1, fl2]
  have htstep : t.step ⟨.frame m f, (PState.step c s (.frame m f)).2⟩ =
      { n := t.n + 1, ts := if started then t.ts ++ [t.n] else t.ts } := by
    show ({ n := t.n + 1, ts := if hasStartOk (PState.step c s (.frame m f)).2 then t.ts ++ [t.n] else t.ts } : TAcc) = _
    rw [hobs, fl1]
  rw [hbstep, htstep, hobs, hfold]
  generalize PState.step c s (.frame m f) = r at hrec hring hn
  replace hring : RBase c.K r.1.ring r.1.n (if stopped then s.n + 1 else mark) := by rw [hn]; exact hring
  cases hcur : cur with
  | none =>
    subst hcur
    have hidle : s.isRec = false := hm.isRec
    have hbc : b.cur = none := hl.bcur
    rw [hidle] at hrec hsp ⊢
    cases started with
    | false =>
      have hns : stopped = false := by
        cases stopped
        · rfl
        · exact absurd (hsp rfl) (by simp)
      subst hns
      refine ⟨L, none, ⟨⟨mark, hring, hmark⟩, ?_, ?_, by intro x hx; cases hx⟩, ?_⟩
      · show t.n + 1 = r.1.n
        rw [hn, hm.cnt]
      · rw [hrec]; rfl
      · rw [oframe_idle b m false hbc]
        exact hl
    | true =>
      have htile : loOf c.K s.n mark = max (s.n + 1 - c.K) (endOf 0 L) := by
        rw [← hmark rfl]; exact Nat.max_comm _ _
      have hreach : s.n < loOf c.K s.n mark + c.K := by unfold loOf; omega
      have hop := link_open (m := m) hl (loOf c.K s.n mark) s.n hlo hreach htile
      simp only [if_true]
      rw [hm.cnt]
      cases stopped with
      | false =>
        rw [(oframe_start b m hbc).1]
        refine ⟨L, some ⟨loOf c.K s.n mark, s.n, [m], .stillOpen⟩,
          ⟨⟨mark, hring, fun h => by cases h⟩, ?_, ?_, ?_⟩, hop⟩
        · show s.n + 1 = r.1.n
          rw [hn]
        · rw [hrec]; rfl
        · intro x hx
          simp only [Option.some.injEq] at hx
          subst hx
          rw [hn]; rfl
      | true =>
        rw [(oframe_start b m hbc).2]
        have hcl := link_close hop .byStop (Or.inl rfl) f.mStop
        refine ⟨_, none, ⟨⟨s.n + 1, hring, fun _ => ?_⟩, ?_, ?_, by intro x hx; cases hx⟩, hcl⟩
        · rw [endOf_snoc]; rfl
        · show s.n + 1 = r.1.n
          rw [hn]
        · rw [hrec]; rfl
  | some x =>
    subst hcur
    have hisrec : s.isRec = true := hm.isRec
    have hbc : b.cur = some x.ms := hl.bcur
    have hnx : s.n = x.stop := hm.nextId x rfl
    have hns : started = false := by
      cases started
      · rfl
      · have := hst rfl
        rw [hisrec] at this; cases this
    subst hns
    rw [hisrec] at hrec ⊢
    simp only [Bool.false_eq_true, if_false, if_true]
    have hex := link_extend hl m s.n true hnx
    cases stopped with
    | false =>
      rw [(oframe_more b m x.ms hbc).1]
      refine ⟨L, some { x with ms := x.ms ++ [m] }, ⟨⟨mark, hring, fun h => by cases h⟩, ?_, ?_, ?_⟩, hex⟩
      · show t.n + 1 = r.1.n
        rw [hn, hm.cnt]
      · rw [hrec]; rfl
      · intro y hy
        simp only [Option.some.injEq] at hy
        subst hy
        rw [hn, hnx]
        simp [Entry.stop]; omega
    | true =>
      rw [(oframe_more b m x.ms hbc).2]
      have hcl := link_close hex .byStop (Or.inl rfl) f.mStop
      refine ⟨_, none, ⟨⟨s.n + 1, hring, fun _ => ?_⟩, ?_, ?_, by intro x hx; cases hx⟩, hcl⟩
      · rw [endOf_snoc, hnx]
        simp [Entry.stop]; omega
      · show t.n + 1 = r.1.n
        rw [hn, hm.cnt]
      · rw [hrec]; rfl

/-- `stopRecording` on a state satisfying the invariant (bad frame, reset): the open recording, if any, is
closed with end kind `byBadOrReset` -/
theorem ci_stop (c : PCfg) (s : PState) (a : RecAcc) (b : OAcc) (t : TAcc) (ok : Bool) (h : CI c s a b t) :
    CI c (s.stopRecording ok).1 ((s.stopRecording ok).2.foldl RecAcc.obs a) (b.close .byBadOrReset) t := by
  obtain ⟨L, cur, hm, hl⟩ := h
  obtain ⟨mark, hb, hmark⟩ := hm.ring
  obtain ⟨s1, s2, s3, s4⟩ := stop_shape s ok
  rw [s1]
  cases hcur : cur with
  | none =>
    subst hcur
    have hidle : s.isRec = false := hm.isRec
    rw [hidle] at s3 ⊢
    obtain ⟨o1, o2⟩ := oclose_none b .byBadOrReset hl.bcur
    refine ⟨L, none, ⟨⟨mark, ?_, hmark⟩, ?_, ?_, by intro x hx; cases hx⟩, hl.congr rfl rfl o1 o2⟩
    · rw [s3, s4]; exact hb
    · rw [s4]; exact hm.cnt
    · rw [s2]; rfl
  | some x =>
    subst hcur
    have hisrec : s.isRec = true := hm.isRec
    rw [hisrec] at s3 ⊢
    rw [oclose_some b .byBadOrReset x.ms hl.bcur]
    have hcl := link_close hl .byBadOrReset (Or.inr rfl) ok
    refine ⟨L ++ [{ x with e := .byBadOrReset }], none,
      ⟨⟨s.n, ?_, fun _ => ?_⟩, ?_, ?_, by intro x hx; cases hx⟩, ?_⟩
    · rw [s3, s4]; exact rbase_mark hb
    · rw [endOf_snoc]; exact hm.nextId x rfl
    · rw [s4]; exact hm.cnt
    · rw [s2]; rfl
    · simpa [stopObs] using hcl

theorem ci_step (c : PCfg) (s : PState) (a : RecAcc) (b : OAcc) (t : TAcc) (e : Ev)
    (hf : e.faults.mWriteFail = 0) (h : CI c s a b t) :
    CI c (PState.step c s e).1 ((PState.step c s e).2.foldl RecAcc.obs a)
      (b.step ⟨e, (PState.step c s e).2⟩) (t.step ⟨e, (PState.step c s e).2⟩) := by
  cases e with
  | frame m f => exact ci_frame c s a b t m f hf h
  | reset f => exact ci_stop c s a b t f.mStop h
  | testReq =>
    obtain ⟨L, cur, hm, hl⟩ := h
    exact ⟨L, cur, hm.congr rfl rfl rfl, hl⟩
  | bad f =>
    have h0 : CI c { s with ring := s.ring.write garbage } a b t := by
      obtain ⟨L, cur, hm, hl⟩ := h
      obtain ⟨mark, hb, hmark⟩ := hm.ring
      exact ⟨L, cur, ⟨⟨mark, rbase_write garbage hb, hmark⟩, hm.cnt, hm.isRec, hm.nextId⟩, hl⟩
    have h1 := ci_stop c _ a b t f.mStop h0
    obtain ⟨q1, q2, q3, q4⟩ := P01.stopConst_spec c
      (stopRecording { s with ring := s.ring.write garbage } f.mStop).1 f
    obtain ⟨_, _, qf⟩ := quiet_flags _ (all_off_quiet _ q4)
    show CI c (processBad c s f).1 ((processBad c s f).2.foldl RecAcc.obs a) (b.close .byBadOrReset) t
    simp only [processBad, andThen_fst, andThen_snd, List.foldl_append, qf]
    obtain ⟨L, cur, hm, hl⟩ := h1
    exact ⟨L, cur, hm.congr q1 q2 q3, hl⟩

/-- the invariant along every event list -/
theorem ci_trace (c : PCfg) : ∀ (evs : List Ev) (s : PState) (a : RecAcc) (b : OAcc) (t : TAcc),
    (∀ ev ∈ evs, ev.faults.mWriteFail = 0) → CI c s a b t →
    CI c (PState.after c s evs) ((PState.trace c s evs).foldl (fun a st => st.obs.foldl RecAcc.obs a) a)
      ((PState.trace c s evs).foldl OAcc.step b) ((PState.trace c s evs).foldl TAcc.step t) := by
  intro evs
  induction evs with
  | nil => intro s a b t _ h; exact h
  | cons e es ih =>
    intro s a b t hw h
    simp only [PState.after, PState.trace, List.foldl_cons]
    exact ih _ _ _ _ (fun ev hev => hw ev (List.mem_cons_of_mem _ hev))
      (ci_step c s a b t e (hw e (List.mem_cons_self ..)) h)

/-- **The two views of the model's recordings, linked.**  For every configuration with `K ≥ 1`, every event
list and every fault placement except failing motion-sink writes there is one entry list `L` whose three
projections are `recordings tr` (ids), `recordingsOf tr` (motion bits, end kind) and `triggerFrames tr`; every
entry has `lo ≤ t < lo + K` and at least its trigger frame; and `lo = max (t + 1 − K) nf` with `nf` one past
the last id of the previous entry (0 for the first). -/
theorem model_link (c : PCfg) (hK : 0 < c.K) (evs : List Ev) (hw : ∀ ev ∈ evs, ev.faults.mWriteFail = 0) :
    ∃ L : List Entry,
      recordings (PState.trace c (PState.init c) evs) = L.map Entry.ids ∧
      recordingsOf (PState.trace c (PState.init c) evs) = L.map Entry.view ∧
      triggerFrames (PState.trace c (PState.init c) evs) = L.map (·.t) ∧
      (∀ x ∈ L, x.WF c.K) ∧ Tiled c.K 0 L := by
  obtain ⟨L, cur, _, hl⟩ := ci_trace c evs (PState.init c) {} {} {} hw (ci_init c hK)
  obtain ⟨f1, f2, f3⟩ := link_final hl
  refine ⟨L ++ cur.toList, ?_, ?_, ?_, hl.wf, hl.tiled⟩
  · rw [recordings, recAcc_eq]; exact f1
  · rw [recordingsOf_eq_fold]; exact f2
  · rw [triggerFrames_eq_fold]; exact f3

/-! ## (F) one entry: its id list, and what the length rule says about it -/

theorem ids_eq (x : Entry) (h1 : x.lo ≤ x.t) : x.ids = List.range' (x.t - x.pre) (x.pre + x.ms.length) := by
  unfold Entry.ids Entry.pre
  congr 1; omega

theorem ids_head (x : Entry) (h2 : 1 ≤ x.ms.length) : x.ids.head? = some x.lo := by
  unfold Entry.ids
  rw [List.head?_range', if_neg (by omega)]

theorem ids_getLast (x : Entry) (h1 : x.lo ≤ x.t) (h2 : 1 ≤ x.ms.length) : x.ids.getLast? = some (x.stop - 1) := by
  unfold Entry.ids Entry.stop
  rw [List.getLast?_range', if_neg (by omega)]
  congr 1; omega

/-- fewer than `K − 1` pre-trigger frames only for a recording that begins with frame 0 (start-up) or right
after the previous recording -/
theorem tiled_short (K : Nat) (L : List Entry) (ht : Tiled K 0 L) (hwf : ∀ x ∈ L, x.WF K) (i : Nat)
    (h : i < L.length) (hshort : L[i].pre < K - 1) :
    (i = 0 ∧ L[i].lo = 0) ∨ (∃ j, ∃ hj : j < L.length, i = j + 1 ∧ L[i].lo = L[j].stop) := by
  have hlo := tiled_getElem K L 0 ht i h
  have hw := hwf L[i] (List.getElem_mem h)
  unfold Entry.WF at hw
  unfold Entry.pre at hshort
  cases i with
  | zero =>
    simp only [List.take_zero, endOf] at hlo
    exact Or.inl ⟨rfl, by omega⟩
  | succ j =>
    have hj : j < L.length := by omega
    have e : endOf 0 (L.take (j + 1)) = L[j].stop := by
      rw [← List.take_append_getElem hj, endOf_snoc]
    rw [e] at hlo
    exact Or.inr ⟨j, hj, rfl, by omega⟩

/-- **length and extent of one recording under the length rule** (`LengthRuleRec` of `Proofs.C03Spec`):
`pre ≤ K − 1` frames before the trigger frame, then `ms.length` frames — exactly
`max 1 (min maxF (L − 1 + minF))` if it was stopped by the length rule, fewer otherwise -/
theorem entry_bounds (K minF maxF : Nat) (x : Entry) (hwf : x.WF K) (hr : LengthRuleRec minF maxF x.view) :
    x.ids.length = x.pre + x.ms.length ∧ x.pre ≤ K - 1 ∧
    1 ≤ x.ms.length ∧ x.ms.length ≤ max 1 maxF ∧
    (x.e = .byStop → x.ms.length = max 1 (min maxF (lastMotion x.ms - 1 + minF))) ∧
    (x.e ≠ .byStop → x.ms.length < min maxF (lastMotion x.ms - 1 + minF)) := by
  obtain ⟨w1, w2, w3⟩ := hwf
  refine ⟨ids_length x, by unfold Entry.pre; omega, w3, rec_length_le minF maxF _ hr, ?_, ?_⟩
  · intro he
    have hr' : LengthRuleRec minF maxF (x.ms, .byStop) := by rw [← he]; exact hr
    exact rec_stop_length_eq minF maxF x.ms w3 hr'
  · intro he
    exact rec_other_length_lt minF maxF x.ms x.e he w3 hr

end TR.PipeC03
