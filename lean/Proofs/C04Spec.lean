import TR.ProcMon
/-!
# Proofs.C04Spec — what acceptance by the C04 monitor means, as a plain statement about positions

`monC04` (`TR.ProcMon`) folds the state machine `M4.step` over an observed trace.  Here the monitor is
characterised, for EVERY trace, by a statement that does not mention it.

* `Step.startsRec` / `Step.endsRec` — a step begins a motion recording (frame event carrying a successful
  `StartRecording`), a step ends one (frame event carrying a `StopRecording`, or a bad frame, or a reset);
* `openAfter tr` — a motion recording is open after the steps `tr` (`openAfter_iff`: some step begins one and
  neither it nor any later step ends it); `openBefore tr i = openAfter (tr.take i)`;
* `resetsRun o s` — the step ends the current run of motion frames: a frame without motion, or the end of a
  recording; `runAfter tr` — the number of motion frames after the last such step (`runBefore_count`,
  `runBefore_exists`); `runBefore tr i = runAfter (tr.take i)`;
* `attempt trig tr i motion` — a start attempt is due at step `i`;
* `StartRule trig tr` — at every frame step the three clauses (a) (b) (c) of the module doc of `Props.C04Spec`;
* `monC04_iff' : monC04 trig tr = [] ↔ StartRule trig tr`.
-/
namespace TR.C04Spec
open TR

/-! ## (A) the plain specification -/

/-- the step begins a motion recording: a frame event whose observations contain a successful
`StartRecording` on the motion sink -/
def _root_.TR.Step.startsRec (s : Step) : Bool := s.ev.isFrame && hasStartOk s.obs

/-- the step ends a motion recording (if one is open or begins at it): a frame event whose observations
contain a `StopRecording` on the motion sink, a rejected frame, or a camera reset.  A test-recording
request never does. -/
def _root_.TR.Step.endsRec (s : Step) : Bool :=
  match s.ev with
  | .frame _ _ => hasStop s.obs
  | .bad _ => true
  | .reset _ => true
  | .testReq => false

/-- the effect of one step on "a motion recording is open" -/
def nextOpen (o : Bool) (s : Step) : Bool := (o || s.startsRec) && !s.endsRec

/-- "a motion recording is open" after the steps `l`, when it was `o` before them -/
def openFrom (o : Bool) (l : List Step) : Bool := l.foldl nextOpen o

/-- a motion recording is open after the steps `tr` (initially none is); see `openAfter_iff` -/
def openAfter (tr : List Step) : Bool := openFrom false tr

/-- a motion recording is open before step `i` -/
def openBefore (tr : List Step) (i : Nat) : Bool := openAfter (tr.take i)

/-- the step ends the current run of motion frames: it is a frame without motion, or it ends a recording
(one that was open, `o`, or that begins at this very step) -/
def resetsRun (o : Bool) (s : Step) : Bool :=
  (s.ev.isFrame && !s.ev.motion) || ((o || s.startsRec) && s.endsRec)

/-- the effect of one step on the length of the current run of motion frames: back to 0 if the step ends the
run, one more if it is a frame with motion, unchanged otherwise (test request; bad frame or reset while no
recording is open) -/
def nextRun (o : Bool) (r : Nat) (s : Step) : Nat :=
  if resetsRun o s then 0 else if s.ev.motion then r + 1 else r

/-- the run length after the steps `l`, when before them the flag was `o` and the run length `r` -/
def runFrom : Bool → Nat → List Step → Nat
  | _, r, [] => r
  | o, r, s :: rest => runFrom (nextOpen o s) (nextRun o r s) rest

/-- the number of consecutive motion frames at the end of `tr`, counted from the last frame without motion
or the last end of a recording; see `runBefore_count` -/
def runAfter (tr : List Step) : Nat := runFrom false 0 tr

/-- the number of consecutive motion frames immediately before step `i` -/
def runBefore (tr : List Step) (i : Nat) : Nat := runAfter (tr.take i)

/-- a start attempt is due, given the flag and the run length before the step and the step's motion bit:
no recording is open, the frame shows motion and it is at least the `trig`-th motion frame in a row -/
def attemptB (trig : Nat) (o : Bool) (r : Nat) (motion : Bool) : Bool :=
  !o && motion && decide ((if motion then r + 1 else 0) ≥ trig)

/-- a start attempt is due at step `i` (a frame with motion bit `motion`) -/
def attempt (trig : Nat) (tr : List Step) (i : Nat) (motion : Bool) : Bool :=
  attemptB trig (openBefore tr i) (runBefore tr i) motion

/-- **the plain rule**, position by position: at every frame step
(a) a recording starts iff an attempt is due, the window is open, the disk check passes and the start succeeds;
(b) the disk check is consulted only if an attempt is due and the window is open;
(c) `StartRecording` is called only if moreover the disk check passes. -/
def StartRule (trig : Nat) (tr : List Step) : Prop :=
  ∀ i (h : i < tr.length) (motion : Bool) (f : Faults), tr[i].ev = .frame motion f →
    (hasStartOk tr[i].obs = true ↔
      (attempt trig tr i motion = true ∧ f.win = true ∧ f.can = true ∧ f.mStart = true)) ∧
    (hasCan tr[i].obs = true → attempt trig tr i motion = true ∧ f.win = true) ∧
    (hasStartAny tr[i].obs = true → attempt trig tr i motion = true ∧ f.win = true ∧ f.can = true)

/-! ## `attempt`, `openBefore`, `runBefore` step by step -/

theorem attemptB_iff (trig : Nat) (o : Bool) (r : Nat) (motion : Bool) :
    attemptB trig o r motion = true ↔ o = false ∧ motion = true ∧ trig ≤ r + 1 := by
  cases o <;> cases motion <;> simp [attemptB]

theorem openFrom_snoc (o : Bool) (l : List Step) (s : Step) :
    openFrom o (l ++ [s]) = nextOpen (openFrom o l) s := by
  simp only [openFrom, List.foldl_append, List.foldl_cons, List.foldl_nil]

theorem runFrom_snoc : ∀ (l : List Step) (o : Bool) (r : Nat) (s : Step),
    runFrom o r (l ++ [s]) = nextRun (openFrom o l) (runFrom o r l) s := by
  intro l
  induction l with
  | nil => intro o r s; rfl
  | cons a l ih =>
    intro o r s
    simp only [List.cons_append, runFrom, openFrom, List.foldl_cons]
    exact ih _ _ _

theorem openBefore_zero (tr : List Step) : openBefore tr 0 = false := rfl
theorem runBefore_zero (tr : List Step) : runBefore tr 0 = 0 := rfl

theorem openBefore_succ (tr : List Step) (i : Nat) (h : i < tr.length) :
    openBefore tr (i + 1) = nextOpen (openBefore tr i) tr[i] := by
  simp only [openBefore, openAfter]
  rw [← List.take_append_getElem h, openFrom_snoc]

theorem runBefore_succ (tr : List Step) (i : Nat) (h : i < tr.length) :
    runBefore tr (i + 1) = nextRun (openBefore tr i) (runBefore tr i) tr[i] := by
  simp only [runBefore, runAfter, openBefore, openAfter]
  rw [← List.take_append_getElem h, runFrom_snoc]

theorem openBefore_length (tr : List Step) : openBefore tr tr.length = openAfter tr := by
  rw [openBefore, List.take_length]

theorem runBefore_length (tr : List Step) : runBefore tr tr.length = runAfter tr := by
  rw [runBefore, List.take_length]

/-! ## `openAfter`, read as a statement about positions -/

/-- no step of `l` ends a recording -/
def NoEnd (l : List Step) : Prop := ∀ s ∈ l, s.endsRec = false

theorem noEnd_cons (s : Step) (l : List Step) : NoEnd (s :: l) ↔ s.endsRec = false ∧ NoEnd l := by
  simp [NoEnd]

theorem openFrom_iff : ∀ (l : List Step) (o : Bool),
    openFrom o l = true ↔
      (o = true ∧ NoEnd l) ∨
        ∃ pre st post, l = pre ++ st :: post ∧ st.startsRec = true ∧ NoEnd (st :: post) := by
  intro l
  induction l with
  | nil =>
    intro o
    constructor
    · intro h; exact Or.inl ⟨h, fun _ hm => by cases hm⟩
    · rintro (⟨h, _⟩ | ⟨pre, st, post, h, _⟩)
      · exact h
      · cases pre <;> cases h
  | cons a l ih =>
    intro o
    have hstep : openFrom o (a :: l) = openFrom (nextOpen o a) l := rfl
    rw [hstep, ih]
    constructor
    · rintro (⟨h, hn⟩ | ⟨pre, st, post, h, hs, hn⟩)
      · simp only [nextOpen, Bool.and_eq_true, Bool.or_eq_true, Bool.not_eq_true'] at h
        obtain ⟨h1 | h1, h2⟩ := h
        · exact Or.inl ⟨h1, (noEnd_cons a l).mpr ⟨h2, hn⟩⟩
        · exact Or.inr ⟨[], a, l, rfl, h1, (noEnd_cons a l).mpr ⟨h2, hn⟩⟩
      · exact Or.inr ⟨a :: pre, st, post, by rw [h]; rfl, hs, hn⟩
    · rintro (⟨h, hn⟩ | ⟨pre, st, post, h, hs, hn⟩)
      · obtain ⟨h2, hn⟩ := (noEnd_cons a l).mp hn
        exact Or.inl ⟨by simp [nextOpen, h, h2], hn⟩
      · cases pre with
        | nil =>
          simp only [List.nil_append, List.cons.injEq] at h
          obtain ⟨rfl, rfl⟩ := h
          obtain ⟨h2, hn⟩ := (noEnd_cons _ _).mp hn
          exact Or.inl ⟨by simp [nextOpen, hs, h2], hn⟩
        | cons p pre =>
          simp only [List.cons_append, List.cons.injEq] at h
          exact Or.inr ⟨pre, st, post, h.2, hs, hn⟩

/-- **`openAfter` in words**: a motion recording is open after `tr` iff some step of `tr` begins one and
neither that step nor any later one ends it -/
theorem openAfter_iff (tr : List Step) :
    openAfter tr = true ↔
      ∃ pre st post, tr = pre ++ st :: post ∧ st.startsRec = true ∧ NoEnd (st :: post) := by
  rw [openAfter, openFrom_iff]
  constructor
  · rintro (⟨h, _⟩ | h)
    · cases h
    · exact h
  · exact Or.inr

/-! ## `runBefore`, read as a count -/

/-- step `k` of `tr` ends the run of motion frames -/
def resetsAt (tr : List Step) (k : Nat) : Bool :=
  match tr[k]? with
  | some s => resetsRun (openBefore tr k) s
  | none => false

/-- the number of frames with motion among the steps `j ≤ k < i` -/
def motionFrames (tr : List Step) (j i : Nat) : Nat := ((tr.take i).drop j).countP (·.ev.motion)

theorem resetsAt_eq (tr : List Step) (k : Nat) (h : k < tr.length) :
    resetsAt tr k = resetsRun (openBefore tr k) tr[k] := by
  simp only [resetsAt, List.getElem?_eq_getElem h]

theorem runBefore_of_reset (tr : List Step) (k : Nat) (h : resetsAt tr k = true) :
    runBefore tr (k + 1) = 0 := by
  by_cases hk : k < tr.length
  · rw [resetsAt_eq tr k hk] at h
    rw [runBefore_succ tr k hk, nextRun, if_pos h]
  · simp only [resetsAt, List.getElem?_eq_none (Nat.le_of_not_lt hk)] at h
    cases h

theorem runBefore_of_noReset (tr : List Step) (k : Nat) (hk : k < tr.length) (h : resetsAt tr k = false) :
    runBefore tr (k + 1) = runBefore tr k + (if tr[k].ev.motion then 1 else 0) := by
  rw [resetsAt_eq tr k hk] at h
  rw [runBefore_succ tr k hk, nextRun, h]
  simp only [Bool.false_eq_true, if_false]
  split <;> rfl

theorem motionFrames_self (tr : List Step) (j : Nat) : motionFrames tr j j = 0 := by
  have : (tr.take j).drop j = [] := by
    apply List.drop_eq_nil_of_le
    rw [List.length_take]; exact Nat.min_le_left _ _
  rw [motionFrames, this]; rfl

theorem motionFrames_succ (tr : List Step) (j i : Nat) (hji : j ≤ i) (hi : i < tr.length) :
    motionFrames tr j (i + 1) = motionFrames tr j i + (if tr[i].ev.motion then 1 else 0) := by
  have hl : j ≤ (tr.take i).length := by
    rw [List.length_take]; exact Nat.le_min.mpr ⟨hji, Nat.le_trans hji (Nat.le_of_lt hi)⟩
  simp only [motionFrames]
  rw [← List.take_append_getElem hi, List.drop_append_of_le_length hl, List.countP_append]
  simp only [List.countP_cons, List.countP_nil, Nat.zero_add]

/-- **`runBefore` in words**: if step `j - 1` ended a run (or `j = 0`) and no step `j ≤ k < i` does, then the
run before step `i` is the number of motion frames among the steps `j ≤ k < i` -/
theorem runBefore_count_aux (tr : List Step) (j : Nat)
    (hj : j = 0 ∨ resetsAt tr (j - 1) = true) :
    ∀ d, j + d ≤ tr.length → (∀ k, j ≤ k → k < j + d → resetsAt tr k = false) →
      runBefore tr (j + d) = motionFrames tr j (j + d) := by
  intro d
  induction d with
  | zero =>
    intro _ _
    rw [Nat.add_zero, motionFrames_self]
    rcases hj with rfl | hj
    · rfl
    · cases j with
      | zero => rfl
      | succ j => exact runBefore_of_reset tr j hj
  | succ d ih =>
    intro hi hno
    have hi' : j + d < tr.length := hi
    rw [← Nat.add_assoc, runBefore_of_noReset tr (j + d) hi' (hno _ (Nat.le_add_right _ _) (Nat.lt_succ_self _)),
      motionFrames_succ tr j (j + d) (Nat.le_add_right _ _) hi',
      ih (Nat.le_of_lt hi') (fun k h1 h2 => hno k h1 (Nat.lt_succ_of_lt h2))]

/-- **`runBefore` in words**: if step `j - 1` ended a run (or `j = 0`) and no step `j ≤ k < i` does, then the
run before step `i` is the number of motion frames among the steps `j ≤ k < i` -/
theorem runBefore_count (tr : List Step) (j : Nat)
    (hj : j = 0 ∨ resetsAt tr (j - 1) = true) (i : Nat) (hji : j ≤ i) (hi : i ≤ tr.length)
    (hno : ∀ k, j ≤ k → k < i → resetsAt tr k = false) :
    runBefore tr i = motionFrames tr j i := by
  obtain ⟨d, rfl⟩ := Nat.le.dest hji
  exact runBefore_count_aux tr j hj d hi hno

/-- such a position `j` always exists (one past the last step that ended a run, or 0) -/
theorem runBefore_exists (tr : List Step) : ∀ i, i ≤ tr.length →
    ∃ j, j ≤ i ∧ (j = 0 ∨ resetsAt tr (j - 1) = true) ∧ (∀ k, j ≤ k → k < i → resetsAt tr k = false) ∧
      runBefore tr i = motionFrames tr j i := by
  intro i
  induction i with
  | zero =>
    intro _
    exact ⟨0, Nat.le_refl _, Or.inl rfl, fun k _ h => absurd h (Nat.not_lt_zero _), rfl⟩
  | succ i ih =>
    intro hi
    cases hr : resetsAt tr i with
    | true =>
      refine ⟨i + 1, Nat.le_refl _, Or.inr hr, fun k h1 h2 => absurd h1 (Nat.not_le_of_lt h2), ?_⟩
      rw [runBefore_of_reset tr i hr, motionFrames_self]
    | false =>
      obtain ⟨j, hji, hj, hno, _⟩ := ih (Nat.le_of_succ_le hi)
      have hno' : ∀ k, j ≤ k → k < i + 1 → resetsAt tr k = false := by
        intro k h1 h2
        rcases Nat.lt_succ_iff_lt_or_eq.mp h2 with h | rfl
        · exact hno k h1 h
        · exact hr
      exact ⟨j, Nat.le_succ_of_le hji, hj, hno',
        runBefore_count tr j hj (i + 1) (Nat.le_succ_of_le hji) hi hno'⟩

/-! ## the Bool version of `StartRule` (for `decide`, and as the induction vehicle) -/

/-- what the rule demands of one step, given the flag and the run length before it -/
def stepOk (trig : Nat) (o : Bool) (r : Nat) (s : Step) : Bool :=
  match s.ev with
  | .frame motion f =>
    let a := attemptB trig o r motion
    (hasStartOk s.obs == (a && f.win && f.can && f.mStart)) &&
    (!hasCan s.obs || (a && f.win)) &&
    (!hasStartAny s.obs || (a && f.win && f.can))
  | _ => true

/-- the rule for the steps `l`, started with flag `o` and run length `r` -/
def ruleFrom (trig : Nat) : Bool → Nat → List Step → Bool
  | _, _, [] => true
  | o, r, s :: rest => stepOk trig o r s && ruleFrom trig (nextOpen o s) (nextRun o r s) rest

/-- executable `StartRule` -/
def startRuleB (trig : Nat) (tr : List Step) : Bool := ruleFrom trig false 0 tr

theorem ruleFrom_iff (trig : Nat) : ∀ (l : List Step) (o : Bool) (r : Nat),
    ruleFrom trig o r l = true ↔
      ∀ i (h : i < l.length), stepOk trig (openFrom o (l.take i)) (runFrom o r (l.take i)) l[i] = true := by
  intro l
  induction l with
  | nil =>
    intro o r
    constructor
    · intro _ i h; exact absurd h (Nat.not_lt_zero _)
    · intro _; rfl
  | cons a l ih =>
    intro o r
    simp only [ruleFrom, Bool.and_eq_true]
    rw [ih]
    constructor
    · rintro ⟨h0, hs⟩ i h
      cases i with
      | zero => exact h0
      | succ i => exact hs i (Nat.lt_of_succ_lt_succ h)
    · intro h
      exact ⟨h 0 (Nat.zero_lt_succ _), fun i hi => h (i + 1) (Nat.succ_lt_succ hi)⟩

/-- the three clauses at one frame step ⟺ `stepOk` -/
theorem clauses_iff (a st hc hs win can ms : Bool) :
    ((st = true ↔ (a = true ∧ win = true ∧ can = true ∧ ms = true)) ∧
     (hc = true → a = true ∧ win = true) ∧
     (hs = true → a = true ∧ win = true ∧ can = true)) ↔
    ((st == (a && win && can && ms)) && (!hc || (a && win)) && (!hs || (a && win && can))) = true := by
  cases a <;> cases st <;> cases hc <;> cases hs <;> cases win <;> cases can <;> cases ms <;> decide

theorem startRule_iff (trig : Nat) (tr : List Step) : StartRule trig tr ↔ startRuleB trig tr = true := by
  rw [startRuleB, ruleFrom_iff]
  constructor
  · intro h i hi
    have := h i hi
    simp only [stepOk]
    split
    · next motion f he =>
      exact (clauses_iff _ _ _ _ _ _ _).mp (this motion f he)
    · rfl
  · intro h i hi motion f he
    have := h i hi
    simp only [stepOk, he] at this
    exact (clauses_iff _ _ _ _ _ _ _).mpr this

instance (trig : Nat) (tr : List Step) : Decidable (StartRule trig tr) :=
  decidable_of_iff _ (startRule_iff trig tr).symm

/-! ## (B) the monitor, one step at a time -/

theorem m4_open (trig : Nat) (m : M4) (s : Step) :
    (M4.step trig m s).openRec = nextOpen m.openRec s := by
  obtain ⟨ev, obs⟩ := s
  cases ev <;> simp [M4.step, nextOpen, Step.startsRec, Step.endsRec, Ev.isFrame]

theorem m4_run (trig : Nat) (m : M4) (s : Step) :
    (M4.step trig m s).run = nextRun m.openRec m.run s := by
  obtain ⟨ev, obs⟩ := s
  cases ev with
  | frame motion f =>
    simp only [M4.step, nextRun, resetsRun, Step.startsRec, Step.endsRec, Ev.isFrame, Ev.motion,
      Bool.true_and]
    cases motion <;> simp
  | bad f => simp [M4.step, nextRun, resetsRun, Step.startsRec, Step.endsRec, Ev.isFrame, Ev.motion]
  | reset f => simp [M4.step, nextRun, resetsRun, Step.startsRec, Step.endsRec, Ev.isFrame, Ev.motion]
  | testReq => simp [M4.step, nextRun, resetsRun, Step.startsRec, Step.endsRec, Ev.isFrame, Ev.motion]

theorem ite_nil_iff {b : Bool} {l : List String} (hl : l ≠ []) :
    (if b = true then l else []) = [] ↔ b = false := by
  cases b <;> simp [hl]

/-- the reason code of a wrong start is never empty -/
theorem reason_ne_nil (motion o win can ge : Bool) :
    (if (!motion) = true then ["C04:start-without-motion"]
     else if o = true then ["C04:start-while-recording"]
     else if (!win) = true then ["C04:start-outside-window"]
     else if (!can) = true then ["C04:start-despite-disk-check"]
     else if (!ge) = true then ["C04:start-before-trigger-frames"]
     else ["C04:unexpected-start"]) ≠ ([] : List String) := by
  cases motion <;> cases o <;> cases win <;> cases can <;> cases ge <;> decide

theorem checks_iff (st ex hc aw hs awc : Bool) :
    ((((st && !ex) = false ∧ (!st && ex) = false) ∧ (hc && !aw) = false) ∧ (hs && !awc) = false) ↔
      ((st == ex) && (!hc || aw) && (!hs || awc)) = true := by
  cases st <;> cases ex <;> cases hc <;> cases aw <;> cases hs <;> cases awc <;> decide

/-- `fails` stays empty iff it was empty and the step passes the check -/
theorem m4_fails (trig : Nat) (m : M4) (s : Step) :
    (M4.step trig m s).fails = [] ↔ m.fails = [] ∧ stepOk trig m.openRec m.run s = true := by
  obtain ⟨ev, obs⟩ := s
  cases ev with
  | frame motion f =>
    simp only [M4.step, stepOk, attemptB, List.append_eq_nil_iff]
    rw [ite_nil_iff (reason_ne_nil _ _ _ _ _), ite_nil_iff (by simp), ite_nil_iff (by simp),
      ite_nil_iff (by simp), checks_iff]
  | bad f => simp [M4.step, stepOk]
  | reset f => simp [M4.step, stepOk]
  | testReq => simp [M4.step, stepOk]

/-- **the monitor, from any state** -/
theorem fold_fails_iff (trig : Nat) : ∀ (tr : List Step) (m : M4),
    (tr.foldl (M4.step trig) m).fails = [] ↔ m.fails = [] ∧ ruleFrom trig m.openRec m.run tr = true := by
  intro tr
  induction tr with
  | nil => intro m; simp [ruleFrom]
  | cons s tr ih =>
    intro m
    rw [List.foldl_cons, ih, m4_fails, m4_open, m4_run, ruleFrom, Bool.and_eq_true, and_assoc]

/-- the invariant behind the equivalence, on its own: the monitor's state is (`openAfter`, `runAfter`) of
the steps processed so far -/
theorem fold_state (trig : Nat) : ∀ (tr : List Step) (m : M4),
    (tr.foldl (M4.step trig) m).openRec = openFrom m.openRec tr ∧
    (tr.foldl (M4.step trig) m).run = runFrom m.openRec m.run tr := by
  intro tr
  induction tr with
  | nil => intro m; exact ⟨rfl, rfl⟩
  | cons s tr ih =>
    intro m
    rw [List.foldl_cons]
    have := ih (M4.step trig m s)
    rw [m4_open, m4_run] at this
    exact this

/-- **the C04 monitor accepts exactly the traces that obey the plain rule** -/
theorem monC04_iff' (trig : Nat) (tr : List Step) : monC04 trig tr = [] ↔ StartRule trig tr := by
  rw [monC04, fold_fails_iff, startRule_iff, startRuleB]
  exact ⟨fun h => h.2, fun h => ⟨rfl, h⟩⟩

end TR.C04Spec
