import Proofs.Ring
/-!
# Proofs.RingSpec — the readable specification of the frame ring and its refinement

`Spec` is the simplest possible description of what the ring is for: the list of frames
completed since creation / reset, and the position of the last "set as oldest" mark.
The client protocol of the code base is: fill the current frame, then `Move`
(`POp.push`); `SetAsOldest` (`POp.mark`); `Reset` (`POp.reset`).
-/
namespace TR

structure Spec (α : Type) where
  done : List α        -- completed frames since creation / reset, oldest first
  mark : Nat           -- number of completed frames when the mark was last set

inductive POp (α : Type) where
  | push (v : α)       -- write `v` into the current frame, then Move
  | mark               -- SetAsOldest
  | reset              -- Reset

namespace Spec
variable {α : Type}
def init : Spec α := { done := [], mark := 0 }
def apply (s : Spec α) : POp α → Spec α
  | .push v => { s with done := s.done ++ [v] }
  | .mark => { s with mark := s.done.length }
  | .reset => init
/-- first retained global index -/
def lo (s : Spec α) (size : Nat) : Nat := max s.mark (s.done.length + 1 - size)
/-- what `GetHistory` must return when the current frame holds `cur` -/
def history (s : Spec α) (size : Nat) (cur : α) : List α := s.done.drop (s.lo size) ++ [cur]
end Spec

def POp.toOps {α : Type} : POp α → List (RingOp α)
  | .push v => [.write v, .move]
  | .mark => [.mark]
  | .reset => [.reset]

def Ring.applyP {α : Type} (r : Ring α) (op : POp α) : Ring α := op.toOps.foldl Ring.apply r

/-- spec ↔ ghost relation -/
def SRel {α : Type} (s : Spec α) (g : Ghost α) : Prop :=
  g.n = s.done.length ∧ g.mark = s.mark ∧ ∀ k (h : k < s.done.length), g.vals k = s.done[k]

theorem srel_init {α : Type} (b : α) : SRel (Spec.init) ({ n := 0, mark := 0, vals := fun _ => b } : Ghost α) := by
  refine ⟨rfl, rfl, ?_⟩
  intro k h; simp [Spec.init] at h

theorem srel_apply {α : Type} (r : Ring α) (g : Ghost α) (s : Spec α) (op : POp α)
    (hr : RInv r g) (h : SRel s g) :
    RInv (r.applyP op) (op.toOps.foldl (fun (p : Ring α × Ghost α) o => (p.1.apply o, p.2.apply p.1 o)) (r, g)).2 ∧
    SRel (s.apply op) (op.toOps.foldl (fun (p : Ring α × Ghost α) o => (p.1.apply o, p.2.apply p.1 o)) (r, g)).2 := by
  obtain ⟨hn, hm, hv⟩ := h
  cases op with
  | push v =>
    simp only [POp.toOps, List.foldl_cons, List.foldl_nil, Ring.applyP]
    refine ⟨inv_apply _ _ _ (inv_apply _ _ _ hr), ?_⟩
    simp only [Ghost.apply, Ring.apply, Spec.apply, Ghost.move, Ghost.write]
    refine ⟨by simp [hn], hm, ?_⟩
    intro k hk
    simp only [List.length_append, List.length_singleton] at hk
    have hk1 : k ≠ g.n + 1 := by omega
    simp only [hk1, if_false]
    by_cases hk2 : k = g.n
    · subst hk2; simp [hn]
    · simp only [hk2, if_false]
      have : k < s.done.length := by omega
      rw [hv k this, List.getElem_append_left this]
  | mark =>
    simp only [POp.toOps, List.foldl_cons, List.foldl_nil, Ring.applyP]
    refine ⟨inv_apply _ _ _ hr, ?_⟩
    exact ⟨hn, by simp [Ghost.apply, Ghost.markNow, Spec.apply, hn], hv⟩
  | reset =>
    simp only [POp.toOps, List.foldl_cons, List.foldl_nil, Ring.applyP]
    refine ⟨inv_apply _ _ _ hr, ?_⟩
    refine ⟨rfl, rfl, ?_⟩
    intro k h; simp [Spec.apply, Spec.init] at h

/-- Every state reachable by protocol operations is related to the spec via some ghost. -/
theorem reach {α : Type} (size : Nat) (hs : 0 < size) (blank : α) (ops : List (POp α)) :
    ∃ g : Ghost α, RInv (ops.foldl Ring.applyP (Ring.new size blank)) g ∧
      SRel (ops.foldl Spec.apply Spec.init) g := by
  suffices H : ∀ (ops : List (POp α)) (r : Ring α) (g : Ghost α) (s : Spec α), RInv r g → SRel s g →
      ∃ g', RInv (ops.foldl Ring.applyP r) g' ∧ SRel (ops.foldl Spec.apply s) g' from
    H ops _ _ _ (inv_new size blank hs) (srel_init blank)
  intro ops
  induction ops with
  | nil => intro r g s hr hsr; exact ⟨g, hr, hsr⟩
  | cons op ops ih =>
    intro r g s hr hsr
    obtain ⟨h1, h3⟩ := srel_apply r g s op hr hsr
    exact ih _ _ _ h1 h3

theorem size_applyP {α : Type} (r : Ring α) (op : POp α) : (r.applyP op).size = r.size := by
  cases op <;> simp [Ring.applyP, POp.toOps, Ring.apply, Ring.write, Ring.move, Ring.setAsOldest, Ring.reset]

theorem size_foldl_applyP {α : Type} (ops : List (POp α)) (r : Ring α) :
    (ops.foldl Ring.applyP r).size = r.size := by
  induction ops generalizing r with
  | nil => rfl
  | cons op ops ih => simp [List.foldl_cons, ih, size_applyP]

/-- history in terms of the spec, after the current frame has been filled with `cur` -/
theorem history_spec {α : Type} (r : Ring α) (g : Ghost α) (s : Spec α) (cur : α)
    (hr : RInv r g) (hsr : SRel s g) :
    (r.write cur).history = some (s.history r.size cur) := by
  have hw := inv_write r g cur hr
  rw [history_eq _ _ hw]
  obtain ⟨hn, hm, hv⟩ := hsr
  obtain ⟨hs, hc, hf, hmk, ho, hvv⟩ := hr
  congr 1
  have hlo : (g.write cur).lo (r.write cur).size = s.lo r.size := by
    simp [Ghost.lo, Spec.lo, Ghost.write, Ring.write, hn, hm]
  have hnn : (g.write cur).n = s.done.length := by simp [Ghost.write, hn]
  rw [hlo, hnn]
  have hle : s.lo r.size ≤ s.done.length := by
    unfold Spec.lo; rw [← hm, ← hn]; omega
  unfold Spec.history
  apply List.ext_getElem
  · simp; omega
  · intro j h1 h2
    simp only [List.length_map, List.length_range'] at h1
    simp only [List.getElem_map, List.getElem_range', Ghost.write, hn]
    by_cases hj : s.lo r.size + 1 * j = s.done.length
    · simp only [hj, if_true]
      rw [List.getElem_append_right (by simp; omega)]
      simp
    · simp only [hj, if_false]
      have hlt : s.lo r.size + 1 * j < s.done.length := by omega
      rw [hv _ hlt, List.getElem_append_left (by simp; omega)]
      simp [Nat.one_mul]

end TR
