import TR.Processor
import Proofs.Ring
/-!
# Proofs.ProcBase — the processor's frame ring in terms of accepted-frame indices

`RBase K ring n mark`: the ring has capacity `K`, `n` frames have been accepted (so the slot
being filled has global index `n`), every completed global index `k < n` holds the id `k`,
and the last `SetAsOldest` mark sits at global index `mark`.
Under it `GetHistory` (after the current frame `n` has been parsed into the current slot)
is the id list `lo … n` with `lo = max mark (n+1−K)`; in particular it never panics.
-/
namespace TR

def RBase (K : Nat) (ring : Ring Nat) (n mark : Nat) : Prop :=
  ∃ g : Ghost Nat, RInv ring g ∧ ring.size = K ∧ g.n = n ∧ (∀ k, k < n → g.vals k = k) ∧
    g.mark = mark ∧ mark ≤ n

theorem rbase_init (K : Nat) (hK : 0 < K) : RBase K (Ring.new K 0) 0 0 :=
  ⟨{ n := 0, mark := 0, vals := fun _ => 0 }, inv_new K 0 hK, rfl, rfl, by intro k hk; omega, rfl, Nat.le_refl _⟩

/-- first retained id -/
def loOf (K n mark : Nat) : Nat := max mark (n + 1 - K)

theorem loOf_le (K n mark : Nat) (hK : 0 < K) (hm : mark ≤ n) : loOf K n mark ≤ n := by
  unfold loOf; omega

/-- `GetHistory` once frame `n` has been parsed into the current slot -/
theorem rbase_history {K : Nat} {ring : Ring Nat} {n mark : Nat} (h : RBase K ring n mark) :
    (ring.write n).history = some (List.range' (loOf K n mark) (n + 1 - loOf K n mark)) := by
  obtain ⟨g, hr, hsz, hn, hv, hm, hle⟩ := h
  have hw := inv_write ring g n hr
  rw [history_eq _ _ hw]
  have hs : 0 < ring.size := hr.1
  have hlo : (g.write n).lo (ring.write n).size = loOf K n mark := by
    simp [Ghost.lo, loOf, Ghost.write, Ring.write, hn, hm, hsz]
  have hnn : (g.write n).n = n := by simp [Ghost.write, hn]
  rw [hlo, hnn]
  congr 1
  apply List.ext_getElem
  · simp
  · intro j h1 h2
    simp only [List.length_map, List.length_range'] at h1
    simp only [List.getElem_map, List.getElem_range', Ghost.write, hn, Nat.one_mul]
    have hle' := loOf_le K n mark (by rw [← hsz]; exact hs) hle
    by_cases hj : loOf K n mark + j = n
    · simp [hj]
    · simp only [hj, if_false]
      exact hv _ (by omega)

/-- writing anything into the current slot keeps the base invariant (completed frames untouched) -/
theorem rbase_write {K : Nat} {ring : Ring Nat} {n mark : Nat} (v : Nat) (h : RBase K ring n mark) :
    RBase K (ring.write v) n mark := by
  obtain ⟨g, hr, hsz, hn, hv, hm, hle⟩ := h
  refine ⟨g.write v, inv_write ring g v hr, by simpa [Ring.write] using hsz, by simpa [Ghost.write] using hn, ?_,
    by simpa [Ghost.write] using hm, hle⟩
  intro k hk
  simp only [Ghost.write, hn]
  have : k ≠ n := by omega
  simp [this, hv k hk]

/-- accepting frame `n`: it was written into the current slot, then `Move` -/
theorem rbase_accept {K : Nat} {ring : Ring Nat} {n mark : Nat} (h : RBase K ring n mark) :
    RBase K (ring.write n).move (n + 1) mark := by
  obtain ⟨g, hr, hsz, hn, hv, hm, hle⟩ := h
  have hw := inv_write ring g n hr
  have hmv := inv_move _ _ hw
  refine ⟨_, hmv, by simpa [Ring.move, Ring.write] using hsz, by simp [Ghost.move, Ghost.write, hn], ?_,
    by simpa [Ghost.move, Ghost.write] using hm, by omega⟩
  intro k hk
  simp only [Ghost.move, Ghost.write, hn]
  have h1 : k ≠ n + 1 := by omega
  simp only [h1, if_false]
  by_cases h2 : k = n
  · simp [h2]
  · simp only [h2, if_false]; exact hv k (by omega)

/-- `SetAsOldest`: the mark moves to the slot being filled -/
theorem rbase_mark {K : Nat} {ring : Ring Nat} {n mark : Nat} (h : RBase K ring n mark) :
    RBase K ring.setAsOldest n n := by
  obtain ⟨g, hr, hsz, hn, hv, hm, hle⟩ := h
  refine ⟨g.markNow, inv_mark ring g hr, by simpa [Ring.setAsOldest] using hsz, by simpa [Ghost.markNow] using hn,
    by simpa [Ghost.markNow] using hv, by simp [Ghost.markNow, hn], Nat.le_refl _⟩

theorem rbase_size {K : Nat} {ring : Ring Nat} {n mark : Nat} (h : RBase K ring n mark) : 0 < K := by
  obtain ⟨g, hr, hsz, _⟩ := h
  rw [← hsz]; exact hr.1

theorem rbase_mark_le {K : Nat} {ring : Ring Nat} {n mark : Nat} (h : RBase K ring n mark) : mark ≤ n := by
  obtain ⟨g, _, _, _, _, _, hle⟩ := h; exact hle

end TR
