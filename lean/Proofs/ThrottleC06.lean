import TR.ThrMon
import Proofs.Throttle
/-!
# Proofs.ThrottleC06 — the invariant behind C06 (pairing, clean cuts, one event per incident,
transparency until the first throttling)

No clock hypothesis is needed: `adjust` never lowers `avail` (truncated subtraction on ticks),
`TakeAvailable(1)` lowers it by exactly what it returns, and a cut happens only when the adjusted
`avail` is 0.
-/
namespace TR
open Bucket

/-- closes goals that are `True`, reflexive after reduction, or a hypothesis -/
local macro "triv" : tactic => `(tactic| first | trivial | rfl | assumption)

/-! ## bucket facts (no well-formedness, no monotone clock) -/

theorem adjust_avail_ge (b : Bucket) (t : Nat) : b.avail ≤ (b.adjust t).avail := by
  unfold Bucket.adjust
  split
  · exact Nat.le_refl _
  · simp only; omega

theorem available_eq (b : Bucket) (t : Nat) :
    (b.available t).1 = b.adjust t ∧ (b.available t).2 = (b.adjust t).avail := ⟨rfl, rfl⟩

/-- `TakeAvailable(1)`: either a token is handed out and `avail` drops by at most one with respect
to the value before the call, or nothing is handed out and the bucket was (and stays) empty -/
theorem take1_cases (b : Bucket) (t : Nat) :
    ((b.take1 t).2 > 0 ∧ b.avail ≤ (b.take1 t).1.avail + 1) ∨
    (¬ (b.take1 t).2 > 0 ∧ b.avail = 0 ∧ (b.take1 t).1.avail = 0) := by
  have h := adjust_avail_ge b t
  unfold Bucket.take1
  simp only
  split
  · next hz => right; simp only; omega
  · next hz => left; simp only; omega

/-! ## what the three procedures of the throttle do -/

theorem maybeStart_cases (s : TState) (tk tag : Nat) (ok : Bool) :
    (s.maybeStart tk tag ok).1.minLen = s.minLen ∧ (s.maybeStart tk tag ok).1.tag = s.tag ∧
    (((s.bucket.available tk).2 ≥ s.minLen ∧
      (s.maybeStart tk tag ok).2.1 = [TObs.bStart tag ok] ∧ (s.maybeStart tk tag ok).2.2 = ok ∧
      (s.maybeStart tk tag ok).1.recording = (s.recording || ok) ∧
      s.minLen ≤ (s.maybeStart tk tag ok).1.bucket.avail) ∨
     (¬ (s.bucket.available tk).2 ≥ s.minLen ∧
      (s.maybeStart tk tag ok).2.1 = [] ∧ (s.maybeStart tk tag ok).2.2 = true ∧
      (s.maybeStart tk tag ok).1.recording = s.recording)) := by
  unfold TState.maybeStart Bucket.available
  simp only
  split
  · next hge =>
    cases ok
    · simp only [Bool.not_false, if_true, Bool.or_false]
      exact ⟨(by triv), (by triv), Or.inl ⟨hge, (by triv), (by triv), (by triv), hge⟩⟩
    · simp only [Bool.not_true, Bool.false_eq_true, if_false, Bool.or_true]
      exact ⟨(by triv), (by triv), Or.inl ⟨hge, (by triv), (by triv), (by triv), hge⟩⟩
  · next hlt => exact ⟨(by triv), (by triv), Or.inr ⟨hlt, (by triv), (by triv), (by triv)⟩⟩

theorem takeAndWrite_cases (s : TState) (tk id : Nat) (wok pok : Bool) (pre : List TObs)
    (hr : s.recording = true) :
    (s.takeAndWrite tk id wok pok pre).1.minLen = s.minLen ∧
    (((s.takeAndWrite tk id wok pok pre).2 = pre ++ [TObs.bWrite id wok, TObs.ret wok] ∧
      (s.takeAndWrite tk id wok pok pre).1.recording = true ∧
      s.bucket.avail ≤ (s.takeAndWrite tk id wok pok pre).1.bucket.avail + 1) ∨
     ((s.takeAndWrite tk id wok pok pre).2 = pre ++ [TObs.throttled, TObs.bStop pok, TObs.ret pok] ∧
      (s.takeAndWrite tk id wok pok pre).1.recording = false ∧ s.bucket.avail = 0)) := by
  have ht := take1_cases s.bucket tk
  unfold TState.takeAndWrite TState.stopRec
  simp only [hr, if_true]
  split
  · next hpos =>
    rcases ht with ⟨_, h2⟩ | ⟨h1, _⟩
    · exact ⟨(by triv), Or.inl ⟨(by triv), (by triv), h2⟩⟩
    · exact absurd hpos h1
  · next hz =>
    rcases ht with ⟨h1, _⟩ | ⟨_, h2, _⟩
    · exact absurd h1 hz
    · exact ⟨(by triv), Or.inr ⟨by simp only [List.append_assoc, List.cons_append, List.nil_append], (by triv), h2⟩⟩

/-! ## one request of the throttle, as a list of explicit outcomes -/

/-- a start request (the throttle is never recording then): forwarded unchanged, or suppressed
with exactly one event -/
theorem step_start_cases (s : TState) (tk tag : Nat) (ok : Bool) (hr : s.recording = false) :
    (s.step (.start tk tag ok)).1.minLen = s.minLen ∧
    (((s.step (.start tk tag ok)).2 = [TObs.bStart tag ok, TObs.ret ok] ∧
      (s.step (.start tk tag ok)).1.recording = ok ∧
      s.minLen ≤ (s.step (.start tk tag ok)).1.bucket.avail) ∨
     ((s.step (.start tk tag ok)).2 = [TObs.throttled, TObs.ret true] ∧
      (s.step (.start tk tag ok)).1.recording = false)) := by
  have hm := maybeStart_cases s tk tag ok
  unfold TState.step
  simp only
  obtain ⟨hml, _, hm⟩ := hm
  rcases hm with ⟨_, hobs, hret, hrec, hav⟩ | ⟨_, hobs, hret, hrec⟩
  · rw [hr, Bool.false_or] at hrec
    cases ok
    · simp only [hret, Bool.not_false, if_true, hobs, List.cons_append, List.nil_append]
      exact ⟨hml, Or.inl ⟨(by triv), hrec, hav⟩⟩
    · simp only [hret, hrec, Bool.not_true, Bool.false_eq_true, if_false, hobs, List.cons_append,
        List.nil_append, List.append_nil]
      exact ⟨hml, Or.inl ⟨(by triv), (by triv), hav⟩⟩
  · rw [hr] at hrec
    simp only [hret, hrec, Bool.not_true, Bool.false_eq_true, if_false, Bool.not_false, if_true, hobs,
      List.nil_append, List.cons_append]
    exact ⟨hml, Or.inr ⟨(by triv), (by triv)⟩⟩

/-- a write request while recording: forwarded unchanged, or cut (bucket empty) with one event -/
theorem step_write_rec_cases (s : TState) (tk id : Nat) (sok wok pok : Bool) (hr : s.recording = true) :
    (s.step (.write tk id sok wok pok)).1.minLen = s.minLen ∧
    (((s.step (.write tk id sok wok pok)).2 = [TObs.bWrite id wok, TObs.ret wok] ∧
      (s.step (.write tk id sok wok pok)).1.recording = true ∧
      s.bucket.avail ≤ (s.step (.write tk id sok wok pok)).1.bucket.avail + 1) ∨
     ((s.step (.write tk id sok wok pok)).2 = [TObs.throttled, TObs.bStop pok, TObs.ret pok] ∧
      (s.step (.write tk id sok wok pok)).1.recording = false ∧ s.bucket.avail = 0)) := by
  have ht := takeAndWrite_cases s tk id wok pok [] hr
  unfold TState.step
  simp only [hr, if_true]
  simpa only [List.nil_append] using ht

/-- a write request while not recording (restart path) -/
theorem step_write_idle_cases (s : TState) (tk id : Nat) (sok wok pok : Bool) (hr : s.recording = false) :
    (s.step (.write tk id sok wok pok)).1.minLen = s.minLen ∧
    (((s.step (.write tk id sok wok pok)).2 = [TObs.bStart s.tag false, TObs.ret false] ∧
      (s.step (.write tk id sok wok pok)).1.recording = false) ∨
     ((s.step (.write tk id sok wok pok)).2 = [TObs.ret true] ∧
      (s.step (.write tk id sok wok pok)).1.recording = false) ∨
     ((s.step (.write tk id sok wok pok)).2 = [TObs.bStart s.tag true, TObs.bWrite id wok, TObs.ret wok] ∧
      (s.step (.write tk id sok wok pok)).1.recording = true ∧
      s.minLen ≤ (s.step (.write tk id sok wok pok)).1.bucket.avail + 1) ∨
     ((s.step (.write tk id sok wok pok)).2 =
        [TObs.bStart s.tag true, TObs.throttled, TObs.bStop pok, TObs.ret pok] ∧
      (s.step (.write tk id sok wok pok)).1.recording = false ∧ s.minLen = 0)) := by
  have hm := maybeStart_cases s tk s.tag sok
  unfold TState.step
  simp only [hr, Bool.false_eq_true, if_false]
  obtain ⟨hml, _, hm⟩ := hm
  rcases hm with ⟨_, hobs, hret, hrec, hav⟩ | ⟨_, hobs, hret, hrec⟩
  · rw [hr, Bool.false_or] at hrec
    cases sok
    · simp only [hret, Bool.not_false, if_true, hobs, List.cons_append, List.nil_append]
      exact ⟨hml, Or.inl ⟨(by triv), hrec⟩⟩
    · simp only [hret, hrec, Bool.not_true, Bool.false_eq_true, if_false]
      have ht := takeAndWrite_cases (s.maybeStart tk s.tag true).1 tk id wok pok
        (s.maybeStart tk s.tag true).2.1 hrec
      rw [hobs] at ht ⊢
      obtain ⟨htl, ht⟩ := ht
      refine ⟨by rw [htl, hml], ?_⟩
      rcases ht with ⟨ho, hrc, hle⟩ | ⟨ho, hrc, hz⟩
      · exact Or.inr (Or.inr (Or.inl ⟨by simpa only [List.cons_append, List.nil_append] using ho, hrc, by omega⟩))
      · exact Or.inr (Or.inr (Or.inr ⟨by simpa only [List.cons_append, List.nil_append] using ho, hrc, by omega⟩))
  · rw [hr] at hrec
    simp only [hret, hrec, Bool.not_true, Bool.false_eq_true, if_false, Bool.not_false, if_true, hobs,
      List.nil_append]
    exact ⟨hml, Or.inr (Or.inl ⟨(by triv), (by triv)⟩)⟩

theorem step_stop_cases (s : TState) (ok : Bool) :
    (s.step (.stop ok)).1.minLen = s.minLen ∧ (s.step (.stop ok)).1.recording = false ∧
    ((s.recording = true ∧ (s.step (.stop ok)).2 = [TObs.bStop ok, TObs.ret ok]) ∨
     (s.recording = false ∧ (s.step (.stop ok)).2 = [TObs.ret true])) := by
  unfold TState.step TState.stopRec
  cases hr : s.recording
  · simp only [Bool.false_eq_true, if_false, List.nil_append]
    exact ⟨(by triv), hr, Or.inr ⟨(by triv), (by triv)⟩⟩
  · simp only [if_true, List.cons_append, List.nil_append]
    exact ⟨(by triv), (by triv), Or.inl ⟨(by triv), (by triv)⟩⟩

/-! ## the invariant between requests -/

structure Inv6 (minLen : Nat) (u : UState) (m : M6) : Prop where
  fails : m.fails = []
  base : m.baseOpen = u.t.recording
  recUp : u.t.recording = true → u.upOpen = true
  ml : u.t.minLen = minLen
  /-- frames already in the open file + tokens in hand cover the minimum length -/
  len : u.t.recording = true → minLen ≤ m.sinceStart + u.t.bucket.avail
  /-- until the first throttling the throttle records exactly when the upstream does -/
  transp : m.throttledSoFar = false → u.upOpen = u.t.recording

theorem inv6_init (cap q minLen : Nat) : Inv6 minLen { t := TState.init cap q minLen } {} :=
  ⟨rfl, rfl, fun h => by simp [TState.init] at h, rfl, fun h => by simp [TState.init] at h, fun _ => rfl⟩

/-! ## one issued request preserves the invariant -/

/-- evaluate the monitor on a concrete observation list and discharge the six invariant fields -/
local macro "fin6" : tactic =>
  `(tactic| (refine ⟨?_, ?_, ?_, ?_, ?_, ?_⟩ <;>
      simp [M6.step, M6.obs, countThrottled, hasBStart, hasBStop, retOk, *] <;> omega))

set_option linter.unusedSimpArgs false in
theorem inv6_step (minLen : Nat) (u u' : UState) (m : M6) (r : TReq) (obs : List TObs)
    (hi : Inv6 minLen u m) (hs : ustep u r = (u', some obs)) :
    Inv6 minLen u' (M6.step minLen m { req := r, obs := obs }) := by
  obtain ⟨hf, hb, hru, hml, hlen, htr⟩ := hi
  subst hml
  cases r with
  | start tk tag ok =>
    unfold ustep at hs
    simp only at hs
    split at hs
    · simp at hs
    · next hup =>
      simp only [Prod.mk.injEq, Option.some.injEq] at hs
      obtain ⟨rfl, rfl⟩ := hs
      have hr : u.t.recording = false := by
        cases h : u.t.recording
        · rfl
        · exact absurd (hru h) hup
      have hsp := step_start_cases u.t tk tag ok hr
      generalize u.t.step (.start tk tag ok) = x at hsp ⊢
      obtain ⟨s', o⟩ := x
      simp only at hsp ⊢
      obtain ⟨hml', hsp⟩ := hsp
      rcases hsp with ⟨rfl, hrec, hav⟩ | ⟨rfl, hrec⟩
      · cases ok
        · fin6
        · fin6
      · fin6
  | write tk id sok wok pok =>
    unfold ustep at hs
    simp only at hs
    split at hs
    · simp at hs
    · next hup =>
      simp only [Prod.mk.injEq, Option.some.injEq] at hs
      obtain ⟨rfl, rfl⟩ := hs
      have hupt : u.upOpen = true := by simpa using hup
      cases hr : u.t.recording
      · have hth : m.throttledSoFar = true := by
          cases h : m.throttledSoFar
          · have := htr h; rw [hupt, hr] at this; cases this
          · rfl
        have hsp := step_write_idle_cases u.t tk id sok wok pok hr
        generalize u.t.step (.write tk id sok wok pok) = x at hsp ⊢
        obtain ⟨s', o⟩ := x
        simp only at hsp ⊢
        obtain ⟨hml', hsp⟩ := hsp
        rcases hsp with ⟨rfl, hrec⟩ | ⟨rfl, hrec⟩ | ⟨rfl, hrec, hav⟩ | ⟨rfl, hrec, hz⟩
        · fin6
        · fin6
        · fin6
        · fin6
      · have hlen' := hlen hr
        have hsp := step_write_rec_cases u.t tk id sok wok pok hr
        generalize u.t.step (.write tk id sok wok pok) = x at hsp ⊢
        obtain ⟨s', o⟩ := x
        simp only at hsp ⊢
        obtain ⟨hml', hsp⟩ := hsp
        rcases hsp with ⟨rfl, hrec, hav⟩ | ⟨rfl, hrec, hz⟩
        · fin6
        · fin6
  | stop ok =>
    unfold ustep at hs
    simp only at hs
    split at hs
    · simp at hs
    · next hup =>
      simp only [Prod.mk.injEq, Option.some.injEq] at hs
      obtain ⟨rfl, rfl⟩ := hs
      have hsp := step_stop_cases u.t ok
      generalize u.t.step (.stop ok) = x at hsp ⊢
      obtain ⟨s', o⟩ := x
      simp only at hsp ⊢
      obtain ⟨hml', hrec, hsp⟩ := hsp
      have hupt : u.upOpen = true := by simpa using hup
      rcases hsp with ⟨hr, rfl⟩ | ⟨hr, rfl⟩
      · fin6
      · have hth : m.throttledSoFar = true := by
          cases h : m.throttledSoFar
          · have := htr h; rw [hupt, hr] at this; cases this
          · rfl
        fin6

/-! ## all request lists -/

theorem inv6_trace (minLen : Nat) : ∀ (reqs : List TReq) (u : UState) (m : M6), Inv6 minLen u m →
    ((utrace u reqs).foldl (M6.step minLen) m).fails = [] := by
  intro reqs
  induction reqs with
  | nil => intro u m hi; simpa only [utrace, List.foldl_nil] using hi.fails
  | cons r rest ih =>
    intro u m hi
    rcases ustep_spec u r with hnone | ⟨up, hsome⟩
    · simp only [utrace, hnone]
      exact ih u m hi
    · simp only [utrace, hsome, List.foldl_cons]
      exact ih _ _ (inv6_step minLen u _ m r _ hi hsome)

/-- the monitor accepts the trace of every request list from the initial state -/
theorem monC06_ok (cap q minLen : Nat) (reqs : List TReq) :
    monC06 minLen (utrace { t := TState.init cap q minLen } reqs) = [] :=
  inv6_trace minLen reqs _ _ (inv6_init cap q minLen)

end TR
