import TR.ThrMon
import Proofs.Bucket
/-!
# Proofs.Throttle — C05: the window bound for every request/clock schedule
-/
namespace TR
open Bucket

/-- tick at which a request is processed (`last` for a stop, which reads no clock) -/
def TReq.tickAt (r : TReq) (last : Nat) : Nat := (r.tick?).getD last

/-- ticks never decrease along the request list -/
def Mono : Nat → List TReq → Prop
  | _, [] => True
  | last, r :: rest => last ≤ r.tickAt last ∧ Mono (r.tickAt last) rest

theorem mono_weaken (t t' : Nat) (reqs : List TReq) (h : Mono t' reqs) (hle : t ≤ t') : Mono t reqs := by
  induction reqs generalizing t t' with
  | nil => trivial
  | cons r rest ih =>
    cases r with
    | start tk tag ok =>
      simp only [Mono, TReq.tickAt, TReq.tick?, Option.getD_some] at h ⊢
      exact ⟨by omega, h.2⟩
    | write tk id a b c =>
      simp only [Mono, TReq.tickAt, TReq.tick?, Option.getD_some] at h ⊢
      exact ⟨by omega, h.2⟩
    | stop ok =>
      simp only [Mono, TReq.tickAt, TReq.tick?, Option.getD_none] at h ⊢
      exact ⟨Nat.le_refl _, ih t t' h.2 hle⟩

theorem maybeStart_bucket (s : TState) (t tag : Nat) (ok : Bool) (h : s.bucket.WF t) :
    (s.maybeStart t tag ok).1.bucket.WF t ∧ (s.maybeStart t tag ok).1.bucket.E t = s.bucket.E t ∧
    (s.maybeStart t tag ok).1.bucket.cap = s.bucket.cap ∧ (s.maybeStart t tag ok).1.bucket.q = s.bucket.q ∧
    fwdCount (s.maybeStart t tag ok).2.1 = 0 := by
  have ha := adjust_E s.bucket t h
  have hc := adjust_cap s.bucket t
  unfold TState.maybeStart Bucket.available
  simp only
  split
  · split
    · exact ⟨ha.2, ha.1, hc.1, hc.2, by simp [fwdCount]⟩
    · exact ⟨ha.2, ha.1, hc.1, hc.2, by simp [fwdCount]⟩
  · exact ⟨ha.2, ha.1, hc.1, hc.2, by simp [fwdCount]⟩

theorem stopRec_bucket (s : TState) (ok : Bool) :
    (s.stopRec ok).1.bucket = s.bucket ∧ fwdCount (s.stopRec ok).2.1 = 0 := by
  unfold TState.stopRec; split <;> simp [fwdCount]

theorem fwdCount_append (a b : List TObs) : fwdCount (a ++ b) = fwdCount a + fwdCount b := by
  simp [fwdCount, List.filter_append]

theorem takeAndWrite_bucket (s : TState) (t id : Nat) (wok pok : Bool) (pre : List TObs) (h : s.bucket.WF t) :
    (s.takeAndWrite t id wok pok pre).1.bucket.WF t ∧
    (s.takeAndWrite t id wok pok pre).1.bucket.E t + fwdCount (s.takeAndWrite t id wok pok pre).2
      = s.bucket.E t + fwdCount pre ∧
    (s.takeAndWrite t id wok pok pre).1.bucket.cap = s.bucket.cap ∧
    (s.takeAndWrite t id wok pok pre).1.bucket.q = s.bucket.q := by
  have ht := take1_E s.bucket t h
  have hcq := take1_cap s.bucket t
  unfold TState.takeAndWrite
  simp only
  split
  · next hpos =>
    have h1 : (s.bucket.take1 t).2 = 1 := by omega
    refine ⟨ht.2.1, ?_, hcq.1, hcq.2⟩
    simp only [fwdCount_append]
    have : fwdCount [TObs.bWrite id wok, TObs.ret wok] = 1 := by simp [fwdCount]
    rw [this]; omega
  · next hz =>
    have h0 : (s.bucket.take1 t).2 = 0 := by omega
    have hs := stopRec_bucket { s with bucket := (s.bucket.take1 t).1 } pok
    rw [hs.1]
    refine ⟨ht.2.1, ?_, hcq.1, hcq.2⟩
    simp only [fwdCount_append, hs.2]
    have h1 : fwdCount [TObs.throttled] = 0 := by simp [fwdCount]
    have h2 : ∀ b, fwdCount [TObs.ret b] = 0 := by intro b; simp [fwdCount]
    rw [h1, h2]; omega

/-- one request at tick `t`: the potential drops by at least the number of frames forwarded -/
theorem step_bucket (s : TState) (r : TReq) (last : Nat) (h : s.bucket.WF (r.tickAt last)) :
    (s.step r).1.bucket.WF (r.tickAt last) ∧
    (s.step r).1.bucket.E (r.tickAt last) + fwdCount (s.step r).2 ≤ s.bucket.E (r.tickAt last) ∧
    (s.step r).1.bucket.cap = s.bucket.cap ∧ (s.step r).1.bucket.q = s.bucket.q := by
  have hret : ∀ b, fwdCount [TObs.ret b] = 0 := by intro b; simp [fwdCount]
  cases r with
  | start tk tag ok =>
    simp only [TReq.tickAt, TReq.tick?, Option.getD_some] at h ⊢
    have hm := maybeStart_bucket s tk tag ok h
    unfold TState.step
    simp only
    split
    · simp only [fwdCount_append, hm.2.2.2.2, hret]
      exact ⟨hm.1, by rw [hm.2.1]; omega, hm.2.2.1, hm.2.2.2.1⟩
    · have hev : fwdCount (if (!(s.maybeStart tk tag ok).1.recording) = true then [TObs.throttled] else []) = 0 := by
        split <;> simp [fwdCount]
      simp only [fwdCount_append, hm.2.2.2.2, hret, hev]
      exact ⟨hm.1, by rw [hm.2.1]; omega, hm.2.2.1, hm.2.2.2.1⟩
  | stop ok =>
    simp only [TReq.tickAt, TReq.tick?, Option.getD_none] at h ⊢
    have hs := stopRec_bucket s ok
    unfold TState.step
    simp only [fwdCount_append, hs.1, hs.2, hret]
    exact ⟨h, by omega, trivial, trivial⟩
  | write tk id sok wok pok =>
    simp only [TReq.tickAt, TReq.tick?, Option.getD_some] at h ⊢
    have hm := maybeStart_bucket s tk s.tag sok h
    unfold TState.step
    simp only
    split
    · have ht := takeAndWrite_bucket s tk id wok pok [] h
      have h0 : fwdCount ([] : List TObs) = 0 := rfl
      exact ⟨ht.1, by rw [ht.2.1, h0]; omega, ht.2.2.1, ht.2.2.2⟩
    · split
      · simp only [fwdCount_append, hm.2.2.2.2, hret]
        exact ⟨hm.1, by rw [hm.2.1]; omega, hm.2.2.1, hm.2.2.2.1⟩
      · split
        · simp only [fwdCount_append, hm.2.2.2.2, hret]
          exact ⟨hm.1, by rw [hm.2.1]; omega, hm.2.2.1, hm.2.2.2.1⟩
        · have ht := takeAndWrite_bucket (s.maybeStart tk s.tag sok).1 tk id wok pok (s.maybeStart tk s.tag sok).2.1 hm.1
          exact ⟨ht.1, by rw [ht.2.1, hm.2.2.2.2, hm.2.1]; omega, by rw [ht.2.2.1, hm.2.2.1], by rw [ht.2.2.2, hm.2.2.2.1]⟩

end TR

namespace TR
open Bucket

theorem ustep_spec (u : UState) (r : TReq) :
    ustep u r = (u, none) ∨
    ∃ up, ustep u r = ({ t := (u.t.step r).1, upOpen := up }, some (u.t.step r).2) := by
  cases r with
  | start tk tag ok =>
    unfold ustep; simp only
    split
    · exact Or.inl rfl
    · exact Or.inr ⟨_, rfl⟩
  | write tk id a b c =>
    unfold ustep; simp only
    split
    · exact Or.inl rfl
    · exact Or.inr ⟨u.upOpen, rfl⟩
  | stop ok =>
    unfold ustep; simp only
    split
    · exact Or.inl rfl
    · exact Or.inr ⟨false, rfl⟩

theorem mul_window (q t0 tcur t : Nat) (h1 : t0 ≤ tcur) (h2 : tcur ≤ t) :
    q * (tcur - t0) + (t - tcur) * q = q * (t - t0) := by
  rw [Nat.mul_comm (t - tcur) q, ← Nat.mul_add]
  congr 1; omega

theorem windowsFrom_ok (cap q : Nat) : ∀ (reqs : List TReq) (u : UState) (t0 tcur acc : Nat),
    u.t.bucket.cap = cap → u.t.bucket.q = q → u.t.bucket.WF tcur → t0 ≤ tcur → Mono tcur reqs →
    acc + u.t.bucket.E tcur ≤ cap + 1 + q * (tcur - t0) →
    windowsFrom cap q t0 acc (tickFwd tcur (utrace u reqs)) = true := by
  intro reqs
  induction reqs with
  | nil => intro u t0 tcur acc _ _ _ _ _ _; simp [utrace, tickFwd, windowsFrom]
  | cons r rest ih =>
    intro u t0 tcur acc hcap hq hwf ht0 hmono hacc
    obtain ⟨hle, hmrest⟩ := hmono
    rcases ustep_spec u r with hnone | ⟨up, hsome⟩
    · simp only [utrace, hnone]
      exact ih u t0 tcur acc hcap hq hwf ht0 (mono_weaken _ _ _ hmrest hle) hacc
    · simp only [utrace, hsome, tickFwd]
      have hwf' := wf_mono _ _ _ hwf hle
      have hsb := step_bucket u.t r tcur hwf'
      have hEm := E_mono u.t.bucket tcur (r.tickAt tcur) hwf hle
      have hmw := mul_window q t0 tcur (r.tickAt tcur) ht0 hle
      rw [hq] at hEm
      have hkey : acc + fwdCount (u.t.step r).2 + (u.t.step r).1.bucket.E (r.tickAt tcur)
          ≤ cap + 1 + q * (r.tickAt tcur - t0) := by omega
      have ht : (r.tick?).getD tcur = r.tickAt tcur := rfl
      simp only [ht, windowsFrom, Bool.and_eq_true, decide_eq_true_eq]
      refine ⟨by omega, ?_⟩
      exact ih _ t0 (r.tickAt tcur) (acc + fwdCount (u.t.step r).2) (by rw [← hcap]; exact hsb.2.2.1)
        (by rw [← hq]; exact hsb.2.2.2) hsb.1 (by omega) hmrest hkey

theorem allWindows_ok (cap q : Nat) : ∀ (reqs : List TReq) (u : UState) (tcur : Nat),
    u.t.bucket.cap = cap → u.t.bucket.q = q → u.t.bucket.WF tcur → Mono tcur reqs →
    allWindows cap q (tickFwd tcur (utrace u reqs)) = true := by
  intro reqs
  induction reqs with
  | nil => intro u tcur _ _ _ _; simp [utrace, tickFwd, allWindows]
  | cons r rest ih =>
    intro u tcur hcap hq hwf hmono
    have hmono' := hmono
    obtain ⟨hle, hmrest⟩ := hmono
    rcases ustep_spec u r with hnone | ⟨up, hsome⟩
    · simp only [utrace, hnone]
      exact ih u tcur hcap hq hwf (mono_weaken _ _ _ hmrest hle)
    · have hwf' := wf_mono _ _ _ hwf hle
      have hsb := step_bucket u.t r tcur hwf'
      -- the window starting at this request
      have hw := windowsFrom_ok cap q (r :: rest) u (r.tickAt tcur) (r.tickAt tcur) 0 hcap hq hwf'
        (Nat.le_refl _) (by
          refine ⟨?_, ?_⟩
          · cases r <;> simp [TReq.tickAt, TReq.tick?]
          · have : (r.tickAt (r.tickAt tcur)) = r.tickAt tcur := by cases r <;> simp [TReq.tickAt, TReq.tick?]
            rw [this]; exact hmrest)
        (by have := E_le u.t.bucket (r.tickAt tcur); rw [hcap] at this; omega)
      have htf : tickFwd (r.tickAt tcur) (utrace u (r :: rest)) = tickFwd tcur (utrace u (r :: rest)) := by
        simp only [utrace, hsome, tickFwd]
        have : (r.tick?).getD (r.tickAt tcur) = (r.tick?).getD tcur := by cases r <;> simp [TReq.tickAt, TReq.tick?]
        rw [this]
      rw [htf] at hw
      simp only [utrace, hsome, tickFwd] at hw ⊢
      simp only [allWindows, Bool.and_eq_true]
      refine ⟨hw, ?_⟩
      exact ih _ _ (by rw [← hcap]; exact hsb.2.2.1) (by rw [← hq]; exact hsb.2.2.2) hsb.1 hmrest

end TR
