import TR.Excess

/-!
# Proofs.Excess — helper lemmas for `Props.Excess` (`deleteExcessRecordings`)

Everything here is for an arbitrary test `p` on names (`TR.Excess`: the loop does not depend on the pattern).

* Part A: `dropOldestBy` — what is left of a directory after its first `k` accepted files are gone.
* Part B: the free percentage can only grow when files go.
* Part C: one pass through the loop body (`Disk.stepBy`), case by case.
* Part D: the loop equation without fuel.
* Part E: `Good p d r` — everything the loop guarantees about its result `r` on the disk `d`, proved by
  induction on the fuel (`loopBy_good`), and what follows from it.
* Part F: a structurally recursive "contains this block" that the kernel can evaluate, and its meaning; the
  threshold in integers.
-/
namespace TR.Excess

variable (p : String → Bool)

/-! ## Part A — `dropOldestBy` -/

@[simp] theorem dropOldestBy_zero (fs : List File) : dropOldestBy p 0 fs = fs := by
  cases fs <;> rfl

@[simp] theorem dropOldestBy_nil (k : Nat) : dropOldestBy p k [] = [] := by
  cases k <;> rfl

theorem dropOldestBy_cons_pos (k : Nat) (f : File) (fs : List File) (h : p f.name = true) :
    dropOldestBy p (k + 1) (f :: fs) = dropOldestBy p k fs := by
  simp [dropOldestBy, h]

theorem dropOldestBy_cons_neg (k : Nat) (f : File) (fs : List File) (h : p f.name = false) :
    dropOldestBy p (k + 1) (f :: fs) = f :: dropOldestBy p (k + 1) fs := by
  simp [dropOldestBy, h]

/-- the accepted files that are left: all but the first `k` -/
theorem filter_dropOldestBy (k : Nat) (fs : List File) :
    (dropOldestBy p k fs).filter (fun f => p f.name) = (fs.filter (fun f => p f.name)).drop k := by
  induction fs generalizing k with
  | nil => simp
  | cons f fs ih =>
    cases k with
    | zero => simp
    | succ k =>
      cases h : p f.name with
      | true => rw [dropOldestBy_cons_pos p k f fs h, ih k]; simp [h]
      | false => rw [dropOldestBy_cons_neg p k f fs h]; simp [h, ih (k + 1)]

/-- the files that are not accepted are all left, in order -/
theorem filter_not_dropOldestBy (k : Nat) (fs : List File) :
    (dropOldestBy p k fs).filter (fun f => !p f.name) = fs.filter (fun f => !p f.name) := by
  induction fs generalizing k with
  | nil => simp
  | cons f fs ih =>
    cases k with
    | zero => simp
    | succ k =>
      cases h : p f.name with
      | true => rw [dropOldestBy_cons_pos p k f fs h, ih k]; simp [h]
      | false => rw [dropOldestBy_cons_neg p k f fs h]; simp [h, ih (k + 1)]

/-- what is left is a sublist: the order of the directory is preserved -/
theorem dropOldestBy_sublist (k : Nat) (fs : List File) : (dropOldestBy p k fs).Sublist fs := by
  induction fs generalizing k with
  | nil => simp
  | cons f fs ih =>
    cases k with
    | zero => simp
    | succ k =>
      cases h : p f.name with
      | true => rw [dropOldestBy_cons_pos p k f fs h]; exact (ih k).cons f
      | false => rw [dropOldestBy_cons_neg p k f fs h]; exact (ih (k + 1)).cons_cons f

/-- deleting `k` and then `j` is deleting `k + j` -/
theorem dropOldestBy_add (j k : Nat) (fs : List File) :
    dropOldestBy p j (dropOldestBy p k fs) = dropOldestBy p (k + j) fs := by
  induction fs generalizing j k with
  | nil => simp
  | cons f fs ih =>
    cases k with
    | zero => simp
    | succ k =>
      cases h : p f.name with
      | true =>
        rw [dropOldestBy_cons_pos p k f fs h, ih j k, show k + 1 + j = (k + j) + 1 by omega,
          dropOldestBy_cons_pos p (k + j) f fs h]
      | false =>
        rw [dropOldestBy_cons_neg p k f fs h]
        cases j with
        | zero => simp [dropOldestBy_cons_neg p k f fs h]
        | succ j =>
          rw [dropOldestBy_cons_neg p j f _ h, ih (j + 1) (k + 1),
            show k + 1 + (j + 1) = (k + 1 + j) + 1 by omega, dropOldestBy_cons_neg p _ f fs h]

/-- deleting more than there is deletes all accepted files -/
theorem dropOldestBy_of_le (k : Nat) (fs : List File)
    (h : (fs.filter (fun f => p f.name)).length ≤ k) :
    dropOldestBy p k fs = fs.filter (fun f => !p f.name) := by
  induction fs generalizing k with
  | nil => simp
  | cons f fs ih =>
    cases hp : p f.name with
    | true =>
      simp only [List.filter_cons, hp, if_true, List.length_cons] at h
      cases k with
      | zero => omega
      | succ k =>
        rw [dropOldestBy_cons_pos p k f fs hp, ih k (by omega)]
        simp [hp]
    | false =>
      simp only [List.filter_cons, hp] at h
      cases k with
      | zero =>
        have h0 : (fs.filter (fun f => p f.name)).length ≤ 0 := by simpa using h
        have := ih 0 h0
        simp only [dropOldestBy_zero] at this ⊢
        simp [hp, ← this]
      | succ k =>
        rw [dropOldestBy_cons_neg p k f fs hp, ih (k + 1) (by simpa using h)]
        simp [hp]

theorem used_cons (f : File) (fs : List File) : used (f :: fs) = f.blocks + used fs := by
  simp [used]

/-- what is left occupies no more blocks -/
theorem used_dropOldestBy_le (k : Nat) (fs : List File) : used (dropOldestBy p k fs) ≤ used fs := by
  induction fs generalizing k with
  | nil => simp
  | cons f fs ih =>
    cases k with
    | zero => simp
    | succ k =>
      cases h : p f.name with
      | true => rw [dropOldestBy_cons_pos p k f fs h, used_cons]; have := ih k; omega
      | false =>
        rw [dropOldestBy_cons_neg p k f fs h, used_cons, used_cons]; have := ih (k + 1); omega

/-- the more is deleted, the fewer blocks are occupied -/
theorem used_dropOldestBy_anti (i j : Nat) (fs : List File) (h : i ≤ j) :
    used (dropOldestBy p j fs) ≤ used (dropOldestBy p i fs) := by
  have : j = i + (j - i) := by omega
  rw [this, ← dropOldestBy_add]
  exact used_dropOldestBy_le p _ _

/-! ### on disks -/

@[simp] theorem afterDeletingBy_total (d : Disk) (k : Nat) : (d.afterDeletingBy p k).total = d.total := rfl
@[simp] theorem afterDeletingBy_other (d : Disk) (k : Nat) : (d.afterDeletingBy p k).other = d.other := rfl
@[simp] theorem afterDeletingBy_files (d : Disk) (k : Nat) :
    (d.afterDeletingBy p k).files = dropOldestBy p k d.files := rfl

@[simp] theorem afterDeletingBy_zero (d : Disk) : d.afterDeletingBy p 0 = d := by
  simp [Disk.afterDeletingBy]

theorem afterDeletingBy_add (d : Disk) (k j : Nat) :
    (d.afterDeletingBy p k).afterDeletingBy p j = d.afterDeletingBy p (k + j) := by
  simp [Disk.afterDeletingBy, dropOldestBy_add]

theorem matchingBy_afterDeletingBy (d : Disk) (k : Nat) :
    (d.afterDeletingBy p k).matchingBy p = (d.matchingBy p).drop k :=
  filter_dropOldestBy p k d.files

theorem unrelatedBy_afterDeletingBy (d : Disk) (k : Nat) :
    (d.afterDeletingBy p k).unrelatedBy p = d.unrelatedBy p :=
  filter_not_dropOldestBy p k d.files

theorem globBy_eq_map (d : Disk) : d.globBy p = (d.matchingBy p).map (·.name) := by
  simp [Disk.globBy, Disk.matchingBy, List.filter_map, Function.comp_def]

theorem matchingBy_length_le (d : Disk) : (d.matchingBy p).length ≤ d.files.length :=
  List.length_filter_le _ _

/-! ## Part B — the free percentage -/

theorem percentLeft_mono (t o : Nat) (fs₁ fs₂ : List File) (h : used fs₂ ≤ used fs₁) :
    (Disk.mk t o fs₁).percentLeft ≤ (Disk.mk t o fs₂).percentLeft := by
  simp only [Disk.percentLeft, Disk.avail]
  apply Nat.div_le_div_right
  apply Nat.mul_le_mul_right
  omega

/-- the free percentage never decreases as more of the oldest files are deleted -/
theorem percentLeft_afterDeletingBy_mono (d : Disk) (i j : Nat) (h : i ≤ j) :
    (d.afterDeletingBy p i).percentLeft ≤ (d.afterDeletingBy p j).percentLeft :=
  percentLeft_mono d.total d.other _ _ (used_dropOldestBy_anti p i j d.files h)

theorem percentLeft_total_zero (d : Disk) (h : d.total = 0) : d.percentLeft = 0 := by
  simp [Disk.percentLeft, h]

theorem avail_le_total (d : Disk) : d.avail ≤ d.total := by
  simp only [Disk.avail]; omega

theorem percentLeft_le_100 (d : Disk) : d.percentLeft ≤ 100 := by
  simp only [Disk.percentLeft]
  by_cases h : d.total = 0
  · simp [h]
  · apply Nat.div_le_of_le_mul
    have := avail_le_total d
    exact Nat.mul_le_mul_right 100 this

theorem percentLeftU64_eq_of_lt (d : Disk) (h : d.total * 100 < 2 ^ 64) : d.percentLeftU64 = d.percentLeft := by
  simp only [Disk.percentLeftU64, Disk.percentLeft]
  rw [Nat.mod_eq_of_lt]
  have := avail_le_total d
  have := Nat.mul_le_mul_right 100 this
  omega

/-! ## Part C — one pass through the loop body -/

/-- removing by name the first name the test accepts is removing the oldest accepted file -/
theorem eraseP_head_glob (n : String) (fs : List File) (rest : List String)
    (h : (fs.map (·.name)).filter p = n :: rest) :
    fs.eraseP (fun f => f.name == n) = dropOldestBy p 1 fs := by
  induction fs with
  | nil => simp at h
  | cons f fs ih =>
    cases hp : p f.name with
    | true =>
      simp only [List.map_cons, List.filter_cons, hp, if_true, List.cons.injEq] at h
      rw [dropOldestBy_cons_pos p 0 f fs hp, dropOldestBy_zero]
      simp [h.1]
    | false =>
      simp only [List.map_cons, List.filter_cons, hp] at h
      have hn : p n = true := by
        have : n ∈ (fs.map (·.name)).filter p := by simp at h; rw [h]; simp
        exact (List.mem_filter.mp this).2
      have hne : (f.name == n) = false := by
        cases hb : f.name == n with
        | false => rfl
        | true => rw [eq_of_beq hb, hn] at hp; cases hp
      rw [dropOldestBy_cons_neg p 0 f fs hp, ← ih (by simpa using h)]
      simp [hne]

theorem stepBy_stop_ok (d : Disk) (h : d.stepBy p = .stop .ok) : d.total ≠ 0 ∧ 30 < d.percentLeft := by
  unfold Disk.stepBy at h
  split at h
  · cases h
  · split at h
    · exact ⟨by assumption, by assumption⟩
    · split at h <;> cases h

theorem stepBy_stop_noMore (d : Disk) (h : d.stepBy p = .stop .noMoreRecordings) :
    d.total ≠ 0 ∧ d.percentLeft ≤ 30 ∧ d.matchingBy p = [] := by
  unfold Disk.stepBy at h
  split at h
  · cases h
  · split at h
    · cases h
    · split at h
      · rename_i hg
        rw [globBy_eq_map] at hg
        exact ⟨by assumption, by omega, by simpa using hg⟩
      · cases h

theorem stepBy_stop_div (d : Disk) (h : d.stepBy p = .stop .divideByZero) : d.total = 0 := by
  unfold Disk.stepBy at h
  split at h
  · assumption
  · split at h
    · cases h
    · split at h <;> cases h

theorem stepBy_delete (d : Disk) (n : String) (h : d.stepBy p = .delete n) :
    d.total ≠ 0 ∧ d.percentLeft ≤ 30 ∧ (∃ f rest, d.matchingBy p = f :: rest ∧ f.name = n) ∧
      d.remove n = d.afterDeletingBy p 1 := by
  unfold Disk.stepBy at h
  split at h
  · cases h
  · split at h
    · cases h
    · split at h
      · cases h
      · rename_i m rest hg
        have hmn : m = n := by injection h
        rw [← hmn]
        refine ⟨by assumption, by omega, ?_, ?_⟩
        · rw [globBy_eq_map] at hg
          cases hm : d.matchingBy p with
          | nil => rw [hm] at hg; simp at hg
          | cons f fs =>
            rw [hm] at hg
            simp only [List.map_cons, List.cons.injEq] at hg
            exact ⟨f, fs, rfl, hg.1⟩
        · simp only [Disk.remove, Disk.afterDeletingBy]
          rw [eraseP_head_glob p m d.files rest hg]

/-- the converse of the four lemmas above: the step is determined by these facts -/
theorem stepBy_of_total_zero (d : Disk) (h : d.total = 0) : d.stepBy p = .stop .divideByZero := by
  simp [Disk.stepBy, h]

theorem stepBy_of_enough (d : Disk) (h : 30 < d.percentLeft) : d.stepBy p = .stop .ok := by
  have ht : d.total ≠ 0 := by
    intro h0; rw [percentLeft_total_zero d h0] at h; omega
  simp [Disk.stepBy, ht, h]

theorem stepBy_of_short (d : Disk) (ht : d.total ≠ 0) (h : d.percentLeft ≤ 30) (f : File) (rest : List File)
    (hm : d.matchingBy p = f :: rest) : d.stepBy p = .delete f.name := by
  have : ¬ 30 < d.percentLeft := by omega
  simp [Disk.stepBy, ht, this, globBy_eq_map, hm]

/-! ## Part D — the loop equation, without fuel -/

theorem length_dropOldestBy_one (fs : List File) (h : fs.filter (fun f => p f.name) ≠ []) :
    (dropOldestBy p 1 fs).length + 1 = fs.length := by
  induction fs with
  | nil => simp at h
  | cons f fs ih =>
    cases hp : p f.name with
    | true => rw [dropOldestBy_cons_pos p 0 f fs hp]; simp
    | false =>
      rw [dropOldestBy_cons_neg p 0 f fs hp]
      have : fs.filter (fun f => p f.name) ≠ [] := by simpa [List.filter_cons, hp] using h
      simp [ih this]

theorem remove_files_length (d : Disk) (n : String) (h : d.stepBy p = .delete n) :
    (d.remove n).files.length + 1 = d.files.length := by
  obtain ⟨_, _, ⟨f, rest, hm, _⟩, hr⟩ := stepBy_delete p d n h
  rw [hr]
  apply length_dropOldestBy_one
  have : d.files.filter (fun f => p f.name) = f :: rest := hm
  rw [this]; simp

theorem deleteExcessBy_equation (d : Disk) :
    deleteExcessBy p d =
      match d.stepBy p with
      | .stop r => ⟨d, r, []⟩
      | .delete n =>
        let r := deleteExcessBy p (d.remove n)
        { r with deleted := n :: r.deleted } := by
  unfold deleteExcessBy
  cases hs : d.stepBy p with
  | stop r => cases d.files.length <;> simp [loopBy, hs]
  | delete n =>
    have hl := remove_files_length p d n hs
    rw [← hl]
    simp [loopBy, hs]

/-! ## Part E — everything the loop guarantees -/

/-- what the loop guarantees about its result `r` on the disk `d` -/
structure Good (d : Disk) (r : Run) : Prop where
  le : r.deleted.length ≤ (d.matchingBy p).length
  names : r.deleted = ((d.matchingBy p).take r.deleted.length).map (·.name)
  disk : r.disk = d.afterDeletingBy p r.deleted.length
  before : ∀ j, j < r.deleted.length → (d.afterDeletingBy p j).percentLeft ≤ 30
  ok : r.result = .ok → d.total ≠ 0 ∧ 30 < r.disk.percentLeft
  noMore : r.result = .noMoreRecordings →
    d.total ≠ 0 ∧ r.deleted.length = (d.matchingBy p).length ∧ r.disk.percentLeft ≤ 30
  divz : r.result = .divideByZero → d.total = 0 ∧ r.deleted = []

theorem good_stop (d : Disk) (r : Result) (h : d.stepBy p = .stop r) : Good p d ⟨d, r, []⟩ := by
  refine ⟨by simp, by simp, by simp, by simp, ?_, ?_, ?_⟩
  · intro hr; simp only at hr; subst hr; exact stepBy_stop_ok p d h
  · intro hr; simp only at hr; subst hr
    obtain ⟨a, b, c⟩ := stepBy_stop_noMore p d h
    exact ⟨a, by simp [c], b⟩
  · intro hr; simp only at hr; subst hr; exact ⟨stepBy_stop_div p d h, rfl⟩

theorem good_delete (d : Disk) (n : String) (r : Run) (h : d.stepBy p = .delete n)
    (g : Good p (d.remove n) r) : Good p d { r with deleted := n :: r.deleted } := by
  obtain ⟨ht, hpct, ⟨f, rest, hm, hf⟩, hr⟩ := stepBy_delete p d n h
  have hm' : (d.remove n).matchingBy p = rest := by
    rw [hr, matchingBy_afterDeletingBy, hm]; rfl
  have htot : (d.remove n).total = d.total := rfl
  refine ⟨?_, ?_, ?_, ?_, ?_, ?_, ?_⟩
  · have := g.le; rw [hm'] at this; simp [hm]; omega
  · have := g.names; rw [hm'] at this
    simp only [List.length_cons, hm, List.take_succ_cons, List.map_cons, hf]
    rw [← this]
  · have := g.disk
    simp only [List.length_cons]
    rw [this, hr, afterDeletingBy_add, Nat.add_comm]
  · intro j hj
    simp only [List.length_cons] at hj
    cases j with
    | zero => simpa using hpct
    | succ j =>
      have := g.before j (by omega)
      rwa [hr, afterDeletingBy_add, Nat.add_comm] at this
  · intro hok; have := g.ok hok; rw [htot] at this; exact this
  · intro hno
    obtain ⟨a, b, c⟩ := g.noMore hno
    rw [htot] at a; rw [hm'] at b
    exact ⟨a, by simp [hm, b], c⟩
  · intro hdz
    have := (g.divz hdz).1
    rw [htot] at this
    exact absurd this ht

theorem loopBy_good (fuel : Nat) (d : Disk) (h : (d.matchingBy p).length ≤ fuel) :
    Good p d (loopBy p fuel d) := by
  induction fuel generalizing d with
  | zero =>
    cases hs : d.stepBy p with
    | stop r => simp only [loopBy, hs]; exact good_stop p d r hs
    | delete n =>
      obtain ⟨_, _, ⟨f, rest, hm, _⟩, _⟩ := stepBy_delete p d n hs
      rw [hm] at h; simp at h
  | succ fuel ih =>
    cases hs : d.stepBy p with
    | stop r => simp only [loopBy, hs]; exact good_stop p d r hs
    | delete n =>
      simp only [loopBy, hs]
      apply good_delete p d n _ hs
      apply ih
      obtain ⟨_, _, ⟨f, rest, hm, _⟩, hr⟩ := stepBy_delete p d n hs
      rw [hm] at h
      rw [hr, matchingBy_afterDeletingBy, hm]
      simp at h ⊢
      omega

theorem deleteExcessBy_good (d : Disk) : Good p d (deleteExcessBy p d) :=
  loopBy_good p _ d (matchingBy_length_le p d)

/-! ### consequences -/

theorem result_divz_iff (d : Disk) : (deleteExcessBy p d).result = .divideByZero ↔ d.total = 0 := by
  have g := deleteExcessBy_good p d
  constructor
  · intro h; exact (g.divz h).1
  · intro h
    cases hr : (deleteExcessBy p d).result with
    | ok => exact absurd h (g.ok hr).1
    | noMoreRecordings => exact absurd h (g.noMore hr).1
    | divideByZero => rfl

theorem result_ok_iff (d : Disk) :
    (deleteExcessBy p d).result = .ok ↔
      ∃ j, j ≤ (d.matchingBy p).length ∧ 30 < (d.afterDeletingBy p j).percentLeft := by
  have g := deleteExcessBy_good p d
  constructor
  · intro h
    refine ⟨_, g.le, ?_⟩
    rw [← g.disk]; exact (g.ok h).2
  · rintro ⟨j, hj, hpct⟩
    cases hr : (deleteExcessBy p d).result with
    | ok => rfl
    | noMoreRecordings =>
      obtain ⟨_, b, c⟩ := g.noMore hr
      rw [g.disk, b] at c
      have := percentLeft_afterDeletingBy_mono p d j _ hj
      omega
    | divideByZero =>
      have h0 := (g.divz hr).1
      have : (d.afterDeletingBy p j).percentLeft = 0 := percentLeft_total_zero _ h0
      omega

theorem result_noMore_iff (d : Disk) :
    (deleteExcessBy p d).result = .noMoreRecordings ↔
      d.total ≠ 0 ∧ (d.afterDeletingBy p (d.matchingBy p).length).percentLeft ≤ 30 := by
  have g := deleteExcessBy_good p d
  constructor
  · intro h
    obtain ⟨a, b, c⟩ := g.noMore h
    rw [g.disk, b] at c
    exact ⟨a, c⟩
  · rintro ⟨ht, hpct⟩
    cases hr : (deleteExcessBy p d).result with
    | noMoreRecordings => rfl
    | ok =>
      have := (g.ok hr).2
      rw [g.disk] at this
      have := percentLeft_afterDeletingBy_mono p d _ _ g.le
      omega
    | divideByZero => exact absurd (g.divz hr).1 ht

/-- the run from an intermediate disk is the rest of the run -/
theorem deleteExcessBy_from (d : Disk) (j : Nat) (hj : j ≤ (deleteExcessBy p d).deleted.length) :
    deleteExcessBy p (d.afterDeletingBy p j) =
      { deleteExcessBy p d with deleted := (deleteExcessBy p d).deleted.drop j } := by
  have g := deleteExcessBy_good p d
  induction j with
  | zero => simp
  | succ j ih =>
    have ih := ih (by omega)
    have hlt : j < (deleteExcessBy p d).deleted.length := hj
    -- the pass at the intermediate disk deletes
    have ht : d.total ≠ 0 := by
      intro h0
      have := (result_divz_iff p d).mpr h0
      have := (g.divz this).2
      rw [this] at hlt; simp at hlt
    have hpct := g.before j hlt
    have hm : (d.afterDeletingBy p j).matchingBy p = (d.matchingBy p).drop j :=
      matchingBy_afterDeletingBy p d j
    have hlen : j < (d.matchingBy p).length := by have := g.le; omega
    obtain ⟨f, rest, hfr⟩ : ∃ f rest, (d.matchingBy p).drop j = f :: rest := by
      cases hd : (d.matchingBy p).drop j with
      | nil =>
        have := congrArg List.length hd
        simp at this; omega
      | cons f rest => exact ⟨f, rest, rfl⟩
    have hstep := stepBy_of_short p (d.afterDeletingBy p j) (by simpa using ht) hpct f rest (hm.trans hfr)
    have hrem := (stepBy_delete p _ _ hstep).2.2.2
    have heq := deleteExcessBy_equation p (d.afterDeletingBy p j)
    rw [hstep] at heq
    simp only at heq
    rw [hrem, afterDeletingBy_add] at heq
    rw [ih] at heq
    -- read the tail off
    have hd : (deleteExcessBy p (d.afterDeletingBy p (j + 1))).deleted
        = (deleteExcessBy p d).deleted.drop (j + 1) := by
      have := congrArg Run.deleted heq
      simp only at this
      have h2 : ((deleteExcessBy p d).deleted.drop j).tail = (deleteExcessBy p d).deleted.drop (j + 1) := by
        simp [List.tail_drop]
      rw [← h2, this]; rfl
    have hdisk := congrArg Run.disk heq
    have hres := congrArg Run.result heq
    simp only at hdisk hres
    cases hrun : deleteExcessBy p (d.afterDeletingBy p (j + 1)) with
    | mk dk rs dl =>
      rw [hrun] at hd hdisk hres
      simp only at hd hdisk hres
      rw [hd, ← hdisk, ← hres]

/-! ## Part F — "contains the block `lit`", by structural recursion -/

/-- does `s` contain `lit` as a contiguous block? -/
def containsBlock (lit : List Char) : List Char → Bool
  | [] => lit.isPrefixOf []
  | c :: cs => lit.isPrefixOf (c :: cs) || containsBlock lit cs

theorem containsBlock_iff (lit s : List Char) : containsBlock lit s = true ↔ lit <:+: s := by
  induction s with
  | nil => simp [containsBlock, List.isPrefixOf_iff_prefix]
  | cons c cs ih =>
    simp only [containsBlock, Bool.or_eq_true, ih, List.isPrefixOf_iff_prefix, List.infix_cons_iff]

/-- the name contains `.cptv` — evaluable by `decide`, unlike `matchesGlob` -/
def hasCptv (n : String) : Bool := containsBlock ".cptv".toList n.toList

theorem percent_gt_30_iff (d : Disk) (h : d.total ≠ 0) :
    30 < d.percentLeft ↔ 31 * d.total ≤ d.avail * 100 := by
  simp only [Disk.percentLeft]
  exact Nat.le_div_iff_mul_le (by omega)

end TR.Excess
