import TR.ThrMon
/-!
# Proofs.C06Spec — what acceptance by the C06 monitor (`monC06`) and by the throttle's C11 monitor
(`monC11Thr`) means, as plain statements about the trace

`monC06 minLen` (`TR.ThrMon`) folds the state machine `M6.step` over a trace of throttle steps; `monC11Thr`
folds `M11.step`.  Here both are characterised, for EVERY trace, by statements that do not mention them.

Definitions (A):
* `baseOf obs` / `baseCalls tr` — the base-recorder calls (`bStart/bWrite/bStop`) of a step / of a trace;
* `baseOpenAfter cs` — a base file is open after the calls `cs` (`baseOpenAfter_iff`: some successful
  `bStart` is followed by no `bStop`);
* `framesInFile cs` — the number of `bWrite`s since the last successful `bStart` (`framesInFile_spec`);
* `BasePaired`, `CutsLongEnough minLen`, `EventsExact`, `TransparentUntilThrottled`, `StopForwarding`;
* `C06Spec minLen tr` — their conjunction;  `monC06_iff' : monC06 minLen tr = [] ↔ C06Spec minLen tr`.

Definitions (B):
* `latestTag tr i` — the tag of the last `.start` request among steps `0..i`;
* `FreshTags tr` — every `bStart tag _` observed at step `i` has `latestTag tr i = some tag`;
  `monC11Thr_iff' : monC11Thr tr = [] ↔ FreshTags tr`.

Method: every check is a "scan" (`scanAll upd chk st l`: the check `chk` holds at every position, in the
state obtained by folding `upd` over the elements before it).  `scanAll_iff` turns a scan into a statement
about positions once and for all; the monitors are shown to be conjunctions of scans.
-/
namespace TR.C06Spec
open TR

/-! ## generic: scans -/

/-- `chk` holds at every element of `l`, in the state reached by folding `upd` over the elements before it -/
def scanAll {σ α : Type} (upd : σ → α → σ) (chk : σ → α → Bool) : σ → List α → Bool
  | _, [] => true
  | st, x :: xs => chk st x && scanAll upd chk (upd st x) xs

theorem scanAll_iff {σ α : Type} (upd : σ → α → σ) (chk : σ → α → Bool) :
    ∀ (l : List α) (st : σ), scanAll upd chk st l = true ↔
      ∀ i (h : i < l.length), chk ((l.take i).foldl upd st) l[i] = true := by
  intro l
  induction l with
  | nil =>
    intro st
    constructor
    · intro _ i h; exact absurd h (Nat.not_lt_zero _)
    · intro _; rfl
  | cons c cs ih =>
    intro st
    simp only [scanAll, Bool.and_eq_true]
    rw [ih]
    constructor
    · rintro ⟨h0, hs⟩ i h
      cases i with
      | zero => exact h0
      | succ i => exact hs i (Nat.lt_of_succ_lt_succ h)
    · intro h
      exact ⟨h 0 (Nat.zero_lt_succ _), fun i hi => h (i + 1) (Nat.succ_lt_succ hi)⟩

theorem scanAll_append {σ α : Type} (upd : σ → α → σ) (chk : σ → α → Bool) :
    ∀ (a b : List α) (st : σ),
      scanAll upd chk st (a ++ b) = (scanAll upd chk st a && scanAll upd chk (a.foldl upd st) b) := by
  intro a
  induction a with
  | nil => intro b st; rfl
  | cons x a ih =>
    intro b st
    simp only [List.cons_append, scanAll, List.foldl_cons, ih, Bool.and_assoc]

/-- a scan over a concatenation of blocks is a scan of scans -/
theorem scanAll_flatMap {σ α β : Type} (upd : σ → α → σ) (chk : σ → α → Bool) (f : β → List α) :
    ∀ (l : List β) (st : σ),
      scanAll upd chk st (l.flatMap f) =
        scanAll (fun st x => (f x).foldl upd st) (fun st x => scanAll upd chk st (f x)) st l := by
  intro l
  induction l with
  | nil => intro st; rfl
  | cons x l ih =>
    intro st
    simp only [List.flatMap_cons, scanAll_append, scanAll, ih]

theorem foldl_flatMap {σ α β : Type} (upd : σ → α → σ) (f : β → List α) :
    ∀ (l : List β) (st : σ),
      (l.flatMap f).foldl upd st = l.foldl (fun st x => (f x).foldl upd st) st := by
  intro l
  induction l with
  | nil => intro st; rfl
  | cons x l ih =>
    intro st
    simp only [List.flatMap_cons, List.foldl_append, List.foldl_cons, ih]

/-- elements that neither change the state nor are checked can be filtered out -/
theorem foldl_filter {σ α : Type} (upd : σ → α → σ) (p : α → Bool)
    (hq : ∀ st x, p x = false → upd st x = st) :
    ∀ (l : List α) (st : σ), (l.filter p).foldl upd st = l.foldl upd st := by
  intro l
  induction l with
  | nil => intro st; rfl
  | cons x l ih =>
    intro st
    cases hp : p x with
    | true => simp only [List.filter_cons, hp, if_true, List.foldl_cons, ih]
    | false =>
      simp only [List.filter_cons, hp, Bool.false_eq_true, if_false, List.foldl_cons, ih, hq st x hp]

theorem scanAll_filter {σ α : Type} (upd : σ → α → σ) (chk : σ → α → Bool) (p : α → Bool)
    (hq : ∀ st x, p x = false → upd st x = st) (hc : ∀ st x, p x = false → chk st x = true) :
    ∀ (l : List α) (st : σ), scanAll upd chk st (l.filter p) = scanAll upd chk st l := by
  intro l
  induction l with
  | nil => intro st; rfl
  | cons x l ih =>
    intro st
    cases hp : p x with
    | true => simp only [List.filter_cons, hp, if_true, scanAll, ih]
    | false =>
      simp only [List.filter_cons, hp, Bool.false_eq_true, if_false, scanAll, ih, hq st x hp, hc st x hp,
        Bool.true_and]

theorem list_rev_induction {α : Type} {P : List α → Prop} (nil : P [])
    (snoc : ∀ l x, P l → P (l ++ [x])) : ∀ l, P l := by
  have h : ∀ l : List α, P l.reverse := by
    intro l
    induction l with
    | nil => exact nil
    | cons x l ih => rw [List.reverse_cons]; exact snoc _ _ ih
  intro l
  have := h l.reverse
  rwa [List.reverse_reverse] at this

theorem eq_nil_or_snoc {α : Type} (l : List α) : l = [] ∨ ∃ l' x, l = l' ++ [x] := by
  induction l using list_rev_induction with
  | nil => exact Or.inl rfl
  | snoc l x _ => exact Or.inr ⟨l, x, rfl⟩

/-! ## (A) the plain notions -/

/-- a call on the base recorder (not the `throttled` event, not the value returned upstream) -/
def isBase : TObs → Bool
  | .bStart _ _ => true
  | .bWrite _ _ => true
  | .bStop _ => true
  | _ => false

/-- the base-recorder calls among some observations, in order -/
def baseOf (obs : List TObs) : List TObs := obs.filter isBase

/-- all base-recorder calls of a trace, in order -/
def baseCalls (tr : List TStep) : List TObs := tr.flatMap fun s => baseOf s.obs

/-- the effect of one observation on "a base file is open": a successful `bStart` opens, a `bStop` closes
whatever its outcome, everything else (failed `bStart`, `bWrite`, `throttled`, `ret`) changes nothing -/
def nextOpen (o : Bool) : TObs → Bool
  | .bStart _ true => true
  | .bStop _ => false
  | _ => o

/-- "a base file is open after these calls": initially none is; see `baseOpenAfter_iff` -/
def baseOpenAfter (cs : List TObs) : Bool := cs.foldl nextOpen false

/-- the effect of one observation on "frames in the current file": a successful `bStart` resets the count,
a `bWrite` (successful or not) adds one -/
def nextCount (n : Nat) : TObs → Nat
  | .bStart _ true => 0
  | .bWrite _ _ => n + 1
  | _ => n

/-- the number of `bWrite`s since the last successful `bStart` (all of them if there is none); see
`framesInFile_spec` -/
def framesInFile (cs : List TObs) : Nat := cs.foldl nextCount 0

/-- the number of `bWrite`s in a list of observations -/
def writeCount (cs : List TObs) : Nat :=
  (cs.filter fun o => match o with | .bWrite _ _ => true | _ => false).length

/-- pairing, position by position, of a sequence of base calls -/
def PairedCalls (cs : List TObs) : Prop :=
  ∀ i (h : i < cs.length), match cs[i] with
    | .bWrite _ _ => baseOpenAfter (cs.take i) = true    -- a write (successful or not) only into an open file
    | .bStop _ => baseOpenAfter (cs.take i) = true       -- a stop (successful or not) only of an open file
    | .bStart _ _ => baseOpenAfter (cs.take i) = false   -- no start (attempt) while a file is open
    | _ => True

/-- **pairing**: the storage layer sees properly paired start / write / stop calls -/
def BasePaired (tr : List TStep) : Prop := PairedCalls (baseCalls tr)

def isWriteReq : TReq → Bool
  | .write .. => true
  | _ => false

/-- **clean cuts**: whenever a `bStop` is observed during a `.write` request (position `j` of step `i`), the
file being closed has received at least `minLen` frames: at least `minLen` `bWrite`s since the last
successful `bStart` among the base calls made before that `bStop` -/
def CutsLongEnough (minLen : Nat) (tr : List TStep) : Prop :=
  ∀ i (h : i < tr.length), isWriteReq tr[i].req = true →
    ∀ j (hj : j < tr[i].obs.length), (∃ ok, tr[i].obs[j] = TObs.bStop ok) →
      minLen ≤ framesInFile (baseCalls (tr.take i) ++ baseOf (tr[i].obs.take j))

/-- a start request during which no `bStart` is attempted -/
def SuppressedStart (s : TStep) : Prop :=
  (∃ t tag ok, s.req = TReq.start t tag ok) ∧ ∀ tag ok, TObs.bStart tag ok ∉ s.obs

/-- a write request during which the base file is stopped -/
def Cut (s : TStep) : Prop :=
  (∃ t id a b c, s.req = TReq.write t id a b c) ∧ ∃ ok, TObs.bStop ok ∈ s.obs

/-- **events**: exactly one `throttled` per suppressed start or cut, none in any other step -/
def EventsExact (tr : List TStep) : Prop :=
  ∀ s ∈ tr, ((SuppressedStart s ∨ Cut s) → s.obs.count TObs.throttled = 1) ∧
            (¬ (SuppressedStart s ∨ Cut s) → s.obs.count TObs.throttled = 0)

/-- what a transparent wrapper does with a request: forward it, return the result -/
def forwarded : TReq → List TObs
  | .start _ tag ok => [TObs.bStart tag ok, TObs.ret ok]
  | .write _ id _ wok _ => [TObs.bWrite id wok, TObs.ret wok]
  | .stop ok => [TObs.bStop ok, TObs.ret ok]

/-- **transparency**: as long as no step up to and including step `i` emits `throttled`, step `i` is the
forwarded call and its result, nothing else -/
def TransparentUntilThrottled (tr : List TStep) : Prop :=
  ∀ i (h : i < tr.length), (∀ s ∈ tr.take (i + 1), TObs.throttled ∉ s.obs) → tr[i].obs = forwarded tr[i].req

/-- **stops**: a `.stop` request forwards a `bStop` iff a base file is open before it -/
def StopForwarding (tr : List TStep) : Prop :=
  ∀ i (h : i < tr.length), (∃ ok, tr[i].req = TReq.stop ok) →
    ((∃ ok, TObs.bStop ok ∈ tr[i].obs) ↔ baseOpenAfter (baseCalls (tr.take i)) = true)

/-- the plain reading of C06 -/
def C06Spec (minLen : Nat) (tr : List TStep) : Prop :=
  BasePaired tr ∧ CutsLongEnough minLen tr ∧ EventsExact tr ∧ TransparentUntilThrottled tr ∧ StopForwarding tr

/-! ### `baseOpenAfter` and `framesInFile`, read as statements about positions -/

/-- no `bStop` (successful or not) among these observations -/
def NoStop (cs : List TObs) : Prop := ∀ ok, TObs.bStop ok ∉ cs

/-- no successful `bStart` among these observations -/
def NoStartOk (cs : List TObs) : Prop := ∀ tag, TObs.bStart tag true ∉ cs

theorem baseOpenAfter_snoc (cs : List TObs) (c : TObs) :
    baseOpenAfter (cs ++ [c]) = nextOpen (baseOpenAfter cs) c := by
  simp only [baseOpenAfter, List.foldl_append, List.foldl_cons, List.foldl_nil]

theorem framesInFile_snoc (cs : List TObs) (c : TObs) :
    framesInFile (cs ++ [c]) = nextCount (framesInFile cs) c := by
  simp only [framesInFile, List.foldl_append, List.foldl_cons, List.foldl_nil]

/-- every observation is a successful start, a stop, or leaves the flag alone (and is not a stop) -/
theorem open_cases (c : TObs) :
    (∃ tag, c = .bStart tag true) ∨ (∃ ok, c = .bStop ok) ∨
      ((∀ o, nextOpen o c = o) ∧ ∀ ok, c ≠ .bStop ok) := by
  cases c with
  | bStart tag ok =>
    cases ok with
    | true => exact Or.inl ⟨tag, rfl⟩
    | false => exact Or.inr (Or.inr ⟨fun _ => rfl, fun _ h => by cases h⟩)
  | bStop ok => exact Or.inr (Or.inl ⟨ok, rfl⟩)
  | bWrite id ok => exact Or.inr (Or.inr ⟨fun _ => rfl, fun _ h => by cases h⟩)
  | throttled => exact Or.inr (Or.inr ⟨fun _ => rfl, fun _ h => by cases h⟩)
  | ret ok => exact Or.inr (Or.inr ⟨fun _ => rfl, fun _ h => by cases h⟩)

theorem noStop_nil : NoStop [] := fun _ h => by cases h

theorem noStop_cons (c : TObs) (cs : List TObs) :
    NoStop (c :: cs) ↔ (∀ ok, c ≠ .bStop ok) ∧ NoStop cs := by
  constructor
  · intro h
    exact ⟨fun ok e => h ok (by rw [e]; exact List.mem_cons_self ..),
      fun ok hm => h ok (List.mem_cons_of_mem _ hm)⟩
  · intro h ok hm
    rcases List.mem_cons.mp hm with e | hm
    · exact h.1 ok e.symm
    · exact h.2 ok hm

theorem foldl_nextOpen_iff : ∀ (cs : List TObs) (o : Bool),
    cs.foldl nextOpen o = true ↔
      (o = true ∧ NoStop cs) ∨ ∃ pre tag post, cs = pre ++ TObs.bStart tag true :: post ∧ NoStop post := by
  intro cs
  induction cs with
  | nil =>
    intro o
    constructor
    · intro h; exact Or.inl ⟨h, noStop_nil⟩
    · rintro (⟨h, _⟩ | ⟨pre, tag, post, h, _⟩)
      · exact h
      · cases pre <;> cases h
  | cons c cs ih =>
    intro o
    rw [List.foldl_cons, ih]
    constructor
    · rintro (⟨h, hn⟩ | ⟨pre, tag, post, h, hn⟩)
      · rcases open_cases c with ⟨tag, rfl⟩ | ⟨ok, rfl⟩ | ⟨hc, hs⟩
        · exact Or.inr ⟨[], tag, cs, rfl, hn⟩
        · cases h
        · rw [hc] at h
          exact Or.inl ⟨h, (noStop_cons c cs).mpr ⟨hs, hn⟩⟩
      · exact Or.inr ⟨c :: pre, tag, post, by rw [h]; rfl, hn⟩
    · rintro (⟨h, hn⟩ | ⟨pre, tag, post, h, hn⟩)
      · obtain ⟨hs, hn⟩ := (noStop_cons c cs).mp hn
        refine Or.inl ⟨?_, hn⟩
        rcases open_cases c with ⟨tag, rfl⟩ | ⟨ok, rfl⟩ | ⟨hc, _⟩
        · rfl
        · exact absurd rfl (hs ok)
        · rw [hc]; exact h
      · cases pre with
        | nil =>
          simp only [List.nil_append, List.cons.injEq] at h
          obtain ⟨rfl, rfl⟩ := h
          exact Or.inl ⟨rfl, hn⟩
        | cons p pre =>
          simp only [List.cons_append, List.cons.injEq] at h
          exact Or.inr ⟨pre, tag, post, h.2, hn⟩

/-- **`baseOpenAfter` in words**: a base file is open after `cs` iff some successful `bStart` in `cs` is
followed by no `bStop` (successful or not) — the last successful start comes after the last stop -/
theorem baseOpenAfter_iff (cs : List TObs) :
    baseOpenAfter cs = true ↔ ∃ pre tag post, cs = pre ++ TObs.bStart tag true :: post ∧ NoStop post := by
  rw [baseOpenAfter, foldl_nextOpen_iff]
  constructor
  · rintro (⟨h, _⟩ | h)
    · cases h
    · exact h
  · exact Or.inr

theorem writeCount_cons (c : TObs) (cs : List TObs) :
    writeCount (c :: cs) = (match c with | .bWrite _ _ => 1 | _ => 0) + writeCount cs := by
  cases c <;> simp [writeCount, Nat.add_comm]

theorem noStartOk_cons (c : TObs) (cs : List TObs) :
    NoStartOk (c :: cs) ↔ (∀ tag, c ≠ .bStart tag true) ∧ NoStartOk cs := by
  constructor
  · intro h
    exact ⟨fun tag e => h tag (by rw [e]; exact List.mem_cons_self ..),
      fun tag hm => h tag (List.mem_cons_of_mem _ hm)⟩
  · intro h tag hm
    rcases List.mem_cons.mp hm with e | hm
    · exact h.1 tag e.symm
    · exact h.2 tag hm

/-- without a successful start the count just grows by the number of writes -/
theorem foldl_nextCount_noStart : ∀ (cs : List TObs) (n : Nat), NoStartOk cs →
    cs.foldl nextCount n = n + writeCount cs := by
  intro cs
  induction cs with
  | nil => intro n _; rfl
  | cons c cs ih =>
    intro n h
    obtain ⟨hc, hn⟩ := (noStartOk_cons c cs).mp h
    rw [List.foldl_cons, ih _ hn, writeCount_cons]
    cases c with
    | bStart tag ok =>
      cases ok with
      | true => exact absurd rfl (hc tag)
      | false => simp only [nextCount]; omega
    | bWrite id ok => simp only [nextCount]; omega
    | bStop ok => simp only [nextCount]; omega
    | throttled => simp only [nextCount]; omega
    | ret ok => simp only [nextCount]; omega

/-- **`framesInFile` in words**: after a successful `bStart` followed by no other successful `bStart`, it is
the number of `bWrite`s after that start; with no successful start at all it is the number of all `bWrite`s -/
theorem framesInFile_spec (cs : List TObs) :
    (∀ pre tag post, cs = pre ++ TObs.bStart tag true :: post → NoStartOk post →
      framesInFile cs = writeCount post) ∧
    (NoStartOk cs → framesInFile cs = writeCount cs) := by
  constructor
  · intro pre tag post he hn
    rw [he, framesInFile, List.foldl_append, List.foldl_cons]
    show post.foldl nextCount 0 = _
    rw [foldl_nextCount_noStart post 0 hn, Nat.zero_add]
  · intro hn
    rw [framesInFile, foldl_nextCount_noStart cs 0 hn, Nat.zero_add]

/-! ## the monitor `M6`, one observation at a time -/

/-- may this base call be made when a file is / is not open? -/
def okWhen (o : Bool) : TObs → Bool
  | .bStart _ _ => !o
  | .bWrite _ _ => o
  | .bStop _ => o
  | _ => true

/-- a `bStop` (inside a write request) needs `minLen` frames in the file -/
def cutOk (minLen n : Nat) : TObs → Bool
  | .bStop _ => decide (minLen ≤ n)
  | _ => true

theorem obs_open (minLen : Nat) (w : Bool) (m : M6) (o : TObs) :
    (M6.obs minLen w m o).baseOpen = nextOpen m.baseOpen o := by
  cases o with
  | bStart tag ok => cases ok <;> simp [M6.obs, nextOpen]
  | bWrite id ok => rfl
  | bStop ok => rfl
  | throttled => rfl
  | ret ok => rfl

theorem obs_since (minLen : Nat) (w : Bool) (m : M6) (o : TObs) :
    (M6.obs minLen w m o).sinceStart = nextCount m.sinceStart o := by
  cases o with
  | bStart tag ok => cases ok <;> simp [M6.obs, nextCount]
  | bWrite id ok => rfl
  | bStop ok => rfl
  | throttled => rfl
  | ret ok => rfl

theorem obs_thr (minLen : Nat) (w : Bool) (m : M6) (o : TObs) :
    (M6.obs minLen w m o).throttledSoFar = m.throttledSoFar := by
  cases o <;> rfl

theorem obs_fails (minLen : Nat) (w : Bool) (m : M6) (o : TObs) :
    (M6.obs minLen w m o).fails = [] ↔
      m.fails = [] ∧ okWhen m.baseOpen o = true ∧ (w = true → cutOk minLen m.sinceStart o = true) := by
  cases o with
  | bStart tag ok =>
    simp only [M6.obs, okWhen, cutOk]
    cases m.baseOpen <;> simp
  | bWrite id ok =>
    simp only [M6.obs, okWhen, cutOk]
    cases m.baseOpen <;> simp
  | bStop ok =>
    simp only [M6.obs, okWhen, cutOk]
    cases m.baseOpen <;> cases w <;> simp [Nat.not_lt]
  | throttled => simp [M6.obs, okWhen, cutOk]
  | ret ok => simp [M6.obs, okWhen, cutOk]

theorem foldObs_state (minLen : Nat) (w : Bool) : ∀ (obs : List TObs) (m : M6),
    (obs.foldl (M6.obs minLen w) m).baseOpen = obs.foldl nextOpen m.baseOpen ∧
    (obs.foldl (M6.obs minLen w) m).sinceStart = obs.foldl nextCount m.sinceStart ∧
    (obs.foldl (M6.obs minLen w) m).throttledSoFar = m.throttledSoFar := by
  intro obs
  induction obs with
  | nil => intro m; exact ⟨rfl, rfl, rfl⟩
  | cons o obs ih =>
    intro m
    simp only [List.foldl_cons]
    have := ih (M6.obs minLen w m o)
    rw [obs_open, obs_since, obs_thr] at this
    exact this

theorem foldObs_fails (minLen : Nat) (w : Bool) : ∀ (obs : List TObs) (m : M6),
    (obs.foldl (M6.obs minLen w) m).fails = [] ↔
      m.fails = [] ∧ scanAll nextOpen okWhen m.baseOpen obs = true ∧
        (w = true → scanAll nextCount (cutOk minLen) m.sinceStart obs = true) := by
  intro obs
  induction obs with
  | nil =>
    intro m
    constructor
    · intro h; exact ⟨h, rfl, fun _ => rfl⟩
    · intro h; exact h.1
  | cons o obs ih =>
    intro m
    rw [List.foldl_cons, ih, obs_fails, obs_open, obs_since]
    simp only [scanAll, Bool.and_eq_true]
    constructor
    · rintro ⟨⟨h1, h2, h3⟩, h4, h5⟩
      exact ⟨h1, ⟨h2, h4⟩, fun hw => ⟨h3 hw, h5 hw⟩⟩
    · rintro ⟨h1, ⟨h2, h4⟩, h35⟩
      exact ⟨⟨h1, h2, fun hw => (h35 hw).1⟩, h4, fun hw => (h35 hw).2⟩

/-! ## the monitor `M6`, one step at a time -/

/-- the number of `throttled` events the monitor expects in a step -/
def expectEv (s : TStep) : Nat :=
  match s.req with
  | .start .. => if hasBStart s.obs then 0 else 1
  | .write .. => if hasBStop s.obs then 1 else 0
  | .stop _ => 0

def evOk (s : TStep) : Bool := countThrottled s.obs == expectEv s

def hasThr (s : TStep) : Bool := decide (countThrottled s.obs > 0)

def transpOk (thr : Bool) (s : TStep) : Bool := thr || hasThr s || s.obs == forwarded s.req

def stopOk (o : Bool) (s : TStep) : Bool :=
  match s.req with
  | .stop _ => hasBStop s.obs == o
  | _ => true

def cutsOk (minLen n : Nat) (s : TStep) : Bool :=
  !isWriteReq s.req || scanAll nextCount (cutOk minLen) n s.obs

theorem step_state (minLen : Nat) (m : M6) (s : TStep) :
    (M6.step minLen m s).baseOpen = s.obs.foldl nextOpen m.baseOpen ∧
    (M6.step minLen m s).sinceStart = s.obs.foldl nextCount m.sinceStart ∧
    (M6.step minLen m s).throttledSoFar = (m.throttledSoFar || hasThr s) := by
  simp only [M6.step, hasThr]
  exact ⟨(foldObs_state ..).1, (foldObs_state ..).2.1, trivial⟩

theorem ite_nil_iff {c : Prop} [Decidable c] (x : String) : (if c then [] else [x]) = [] ↔ c := by
  by_cases h : c <;> simp [h]

theorem ite_ite_nil_iff {c d : Prop} [Decidable c] [Decidable d] (x : String) :
    (if c then [] else if d then [] else [x]) = [] ↔ (c ∨ d) := by
  by_cases h : c <;> by_cases h' : d <;> simp [h, h']

theorem step_fails (minLen : Nat) (m : M6) (s : TStep) :
    (M6.step minLen m s).fails = [] ↔
      m.fails = [] ∧ scanAll nextOpen okWhen m.baseOpen s.obs = true ∧ cutsOk minLen m.sinceStart s = true ∧
        evOk s = true ∧ transpOk m.throttledSoFar s = true ∧ stopOk m.baseOpen s = true := by
  obtain ⟨req, obs⟩ := s
  cases req with
  | start t tag ok =>
    simp only [M6.step, List.append_eq_nil_iff, foldObs_fails, cutsOk, isWriteReq, evOk, expectEv, transpOk,
      hasThr, stopOk, forwarded, ite_nil_iff, ite_ite_nil_iff, Bool.or_eq_true, decide_eq_true_eq, beq_iff_eq,
      Bool.not_false, Bool.true_or, Bool.false_eq_true, false_imp_iff, and_true, true_and]
    constructor
    · rintro ⟨⟨⟨h1, h2⟩, h3⟩, h4⟩; exact ⟨h1, h2, h3, h4⟩
    · rintro ⟨h1, h2, h3, h4⟩; exact ⟨⟨⟨h1, h2⟩, h3⟩, h4⟩
  | write t id a b c =>
    simp only [M6.step, List.append_eq_nil_iff, foldObs_fails, cutsOk, isWriteReq, evOk, expectEv, transpOk,
      hasThr, stopOk, forwarded, ite_nil_iff, ite_ite_nil_iff, Bool.or_eq_true, decide_eq_true_eq, beq_iff_eq,
      Bool.not_true, Bool.false_or, true_imp_iff, and_true]
    constructor
    · rintro ⟨⟨⟨h1, h2, h2'⟩, h3⟩, h4⟩; exact ⟨h1, h2, h2', h3, h4⟩
    · rintro ⟨h1, h2, h2', h3, h4⟩; exact ⟨⟨⟨h1, h2, h2'⟩, h3⟩, h4⟩
  | stop ok =>
    simp only [M6.step, List.append_eq_nil_iff, foldObs_fails, cutsOk, isWriteReq, evOk, expectEv, transpOk,
      hasThr, stopOk, forwarded, ite_nil_iff, ite_ite_nil_iff, Bool.or_eq_true, decide_eq_true_eq, beq_iff_eq,
      Bool.not_false, Bool.true_or, Bool.false_eq_true, false_imp_iff, and_true, true_and]
    constructor
    · rintro ⟨⟨⟨⟨h1, h2⟩, h3⟩, h4⟩, h5⟩; exact ⟨h1, h2, h3, h4, h5⟩
    · rintro ⟨h1, h2, h3, h4, h5⟩; exact ⟨⟨⟨⟨h1, h2⟩, h3⟩, h4⟩, h5⟩

/-! ## the monitor `M6` over a trace: five scans -/

def stepOpen (o : Bool) (s : TStep) : Bool := s.obs.foldl nextOpen o
def stepCount (n : Nat) (s : TStep) : Nat := s.obs.foldl nextCount n
def stepThr (t : Bool) (s : TStep) : Bool := t || hasThr s

/-- pairing of the observations of one step, from the flag `o` -/
def pairedOk (o : Bool) (s : TStep) : Bool := scanAll nextOpen okWhen o s.obs

/-- **the monitor, from any state** -/
theorem fold_fails (minLen : Nat) : ∀ (tr : List TStep) (m : M6),
    (tr.foldl (M6.step minLen) m).fails = [] ↔
      m.fails = [] ∧ scanAll stepOpen pairedOk m.baseOpen tr = true ∧
        scanAll stepCount (cutsOk minLen) m.sinceStart tr = true ∧ tr.all evOk = true ∧
        scanAll stepThr transpOk m.throttledSoFar tr = true ∧ scanAll stepOpen stopOk m.baseOpen tr = true := by
  intro tr
  induction tr with
  | nil =>
    intro m
    constructor
    · intro h; exact ⟨h, rfl, rfl, rfl, rfl, rfl⟩
    · intro h; exact h.1
  | cons s tr ih =>
    intro m
    obtain ⟨ho, hn, ht⟩ := step_state minLen m s
    rw [List.foldl_cons, ih, step_fails, ho, hn, ht]
    simp only [scanAll, List.all_cons, Bool.and_eq_true, pairedOk, stepOpen, stepCount, stepThr]
    constructor
    · rintro ⟨⟨h1, h2, h3, h4, h5, h6⟩, g2, g3, g4, g5, g6⟩
      exact ⟨h1, ⟨h2, g2⟩, ⟨h3, g3⟩, ⟨h4, g4⟩, ⟨h5, g5⟩, ⟨h6, g6⟩⟩
    · rintro ⟨h1, ⟨h2, g2⟩, ⟨h3, g3⟩, ⟨h4, g4⟩, ⟨h5, g5⟩, ⟨h6, g6⟩⟩
      exact ⟨⟨h1, h2, h3, h4, h5, h6⟩, g2, g3, g4, g5, g6⟩

/-- the state the monitor keeps -/
theorem fold_state (minLen : Nat) : ∀ (tr : List TStep) (m : M6),
    (tr.foldl (M6.step minLen) m).baseOpen = tr.foldl stepOpen m.baseOpen ∧
    (tr.foldl (M6.step minLen) m).sinceStart = tr.foldl stepCount m.sinceStart ∧
    (tr.foldl (M6.step minLen) m).throttledSoFar = tr.foldl stepThr m.throttledSoFar := by
  intro tr
  induction tr with
  | nil => intro m; exact ⟨rfl, rfl, rfl⟩
  | cons s tr ih =>
    intro m
    obtain ⟨ho, hn, ht⟩ := step_state minLen m s
    have := ih (M6.step minLen m s)
    rw [ho, hn, ht] at this
    exact this

/-! ### non-base observations do not matter -/

theorem nextOpen_quiet (o : Bool) (c : TObs) (h : isBase c = false) : nextOpen o c = o := by
  cases c <;> first | rfl | cases h

theorem nextCount_quiet (n : Nat) (c : TObs) (h : isBase c = false) : nextCount n c = n := by
  cases c <;> first | rfl | cases h

theorem okWhen_quiet (o : Bool) (c : TObs) (h : isBase c = false) : okWhen o c = true := by
  cases c <;> first | rfl | cases h

theorem foldl_open_baseOf (obs : List TObs) (o : Bool) :
    (baseOf obs).foldl nextOpen o = obs.foldl nextOpen o :=
  foldl_filter nextOpen isBase nextOpen_quiet obs o

theorem foldl_count_baseOf (obs : List TObs) (n : Nat) :
    (baseOf obs).foldl nextCount n = obs.foldl nextCount n :=
  foldl_filter nextCount isBase nextCount_quiet obs n

theorem foldl_stepOpen (tr : List TStep) (o : Bool) :
    tr.foldl stepOpen o = (baseCalls tr).foldl nextOpen o := by
  rw [baseCalls, foldl_flatMap]
  congr 1
  funext o s
  exact (foldl_open_baseOf s.obs o).symm

theorem foldl_stepCount (tr : List TStep) (n : Nat) :
    tr.foldl stepCount n = (baseCalls tr).foldl nextCount n := by
  rw [baseCalls, foldl_flatMap]
  congr 1
  funext n s
  exact (foldl_count_baseOf s.obs n).symm

theorem scan_pairedOk (tr : List TStep) (o : Bool) :
    scanAll stepOpen pairedOk o tr = scanAll nextOpen okWhen o (baseCalls tr) := by
  rw [baseCalls, scanAll_flatMap]
  congr 1
  · funext o s
    exact (foldl_open_baseOf s.obs o).symm
  · funext o s
    exact (scanAll_filter nextOpen okWhen isBase nextOpen_quiet okWhen_quiet s.obs o).symm

/-! ## Bool versions of the five statements -/

def pairedCallsB (cs : List TObs) : Bool := scanAll nextOpen okWhen false cs
def basePairedB (tr : List TStep) : Bool := pairedCallsB (baseCalls tr)
def cutsLongEnoughB (minLen : Nat) (tr : List TStep) : Bool := scanAll stepCount (cutsOk minLen) 0 tr
def eventsExactB (tr : List TStep) : Bool := tr.all evOk
def transparentB (tr : List TStep) : Bool := scanAll stepThr transpOk false tr
def stopForwardingB (tr : List TStep) : Bool := scanAll stepOpen stopOk false tr

/-- **the C06 monitor is the conjunction of the five executable checks** -/
theorem monC06_iff_bool (minLen : Nat) (tr : List TStep) :
    monC06 minLen tr = [] ↔
      (basePairedB tr = true ∧ cutsLongEnoughB minLen tr = true ∧ eventsExactB tr = true ∧
        transparentB tr = true ∧ stopForwardingB tr = true) := by
  rw [monC06, fold_fails, scan_pairedOk]
  constructor
  · rintro ⟨_, h⟩; exact h
  · intro h; exact ⟨rfl, h⟩

/-! ## each check, read as the plain statement -/

/-! ### pairing -/

theorem match_iff_okWhen (o : Bool) (c : TObs) :
    (match c with
      | .bWrite _ _ => o = true
      | .bStop _ => o = true
      | .bStart _ _ => o = false
      | _ => True) ↔ okWhen o c = true := by
  cases c with
  | bStart tag ok => cases o <;> simp [okWhen]
  | bWrite id ok => exact Iff.rfl
  | bStop ok => exact Iff.rfl
  | throttled => simp [okWhen]
  | ret ok => simp [okWhen]

theorem pairedCalls_iff (cs : List TObs) : PairedCalls cs ↔ pairedCallsB cs = true := by
  rw [pairedCallsB, scanAll_iff]
  constructor
  · intro h i hi
    exact (match_iff_okWhen _ _).mp (h i hi)
  · intro h i hi
    exact (match_iff_okWhen _ _).mpr (h i hi)

theorem basePaired_iff (tr : List TStep) : BasePaired tr ↔ basePairedB tr = true :=
  pairedCalls_iff _

/-! ### clean cuts -/

theorem cutOk_iff (minLen n : Nat) (c : TObs) :
    cutOk minLen n c = true ↔ ((∃ ok, c = TObs.bStop ok) → minLen ≤ n) := by
  cases c with
  | bStop ok =>
    simp only [cutOk, decide_eq_true_eq]
    exact ⟨fun h _ => h, fun h => h ⟨ok, rfl⟩⟩
  | bStart tag ok => exact ⟨fun _ ⟨_, h⟩ => (nomatch h), fun _ => rfl⟩
  | bWrite id ok => exact ⟨fun _ ⟨_, h⟩ => (nomatch h), fun _ => rfl⟩
  | throttled => exact ⟨fun _ ⟨_, h⟩ => (nomatch h), fun _ => rfl⟩
  | ret ok => exact ⟨fun _ ⟨_, h⟩ => (nomatch h), fun _ => rfl⟩

/-- the count reached inside step `s` after the steps `pre` -/
theorem count_inside (pre : List TStep) (obs : List TObs) :
    obs.foldl nextCount (pre.foldl stepCount 0) = framesInFile (baseCalls pre ++ baseOf obs) := by
  rw [framesInFile, List.foldl_append, foldl_count_baseOf, foldl_stepCount]

theorem cutsOk_iff (minLen : Nat) (pre : List TStep) (s : TStep) :
    cutsOk minLen (pre.foldl stepCount 0) s = true ↔
      (isWriteReq s.req = true → ∀ j (hj : j < s.obs.length), (∃ ok, s.obs[j] = TObs.bStop ok) →
        minLen ≤ framesInFile (baseCalls pre ++ baseOf (s.obs.take j))) := by
  rw [cutsOk]
  cases hw : isWriteReq s.req with
  | false => simp
  | true =>
    simp only [Bool.not_true, Bool.false_or, true_imp_iff]
    rw [scanAll_iff]
    constructor
    · intro h j hj hs
      have := (cutOk_iff _ _ _).mp (h j hj) hs
      rw [count_inside] at this
      exact this
    · intro h j hj
      rw [cutOk_iff, count_inside]
      exact h j hj

theorem cutsLongEnough_iff (minLen : Nat) (tr : List TStep) :
    CutsLongEnough minLen tr ↔ cutsLongEnoughB minLen tr = true := by
  rw [cutsLongEnoughB, scanAll_iff]
  constructor
  · intro h i hi
    exact (cutsOk_iff minLen (tr.take i) tr[i]).mpr (h i hi)
  · intro h i hi
    exact (cutsOk_iff minLen (tr.take i) tr[i]).mp (h i hi)

/-! ### events -/

theorem countThrottled_eq (obs : List TObs) : countThrottled obs = obs.count TObs.throttled := by
  rw [countThrottled, List.count_eq_length_filter]

theorem hasBStart_iff (obs : List TObs) : hasBStart obs = true ↔ ∃ tag ok, TObs.bStart tag ok ∈ obs := by
  simp only [hasBStart, List.any_eq_true]
  constructor
  · rintro ⟨o, hm, h⟩
    cases o with
    | bStart tag ok => exact ⟨tag, ok, hm⟩
    | _ => cases h
  · rintro ⟨tag, ok, hm⟩; exact ⟨_, hm, rfl⟩

theorem hasBStop_iff (obs : List TObs) : hasBStop obs = true ↔ ∃ ok, TObs.bStop ok ∈ obs := by
  simp only [hasBStop, List.any_eq_true]
  constructor
  · rintro ⟨o, hm, h⟩
    cases o with
    | bStop ok => exact ⟨ok, hm⟩
    | _ => cases h
  · rintro ⟨ok, hm⟩; exact ⟨_, hm, rfl⟩

def suppressedStartB (s : TStep) : Bool :=
  (match s.req with | .start .. => true | _ => false) && !hasBStart s.obs

def cutB (s : TStep) : Bool := isWriteReq s.req && hasBStop s.obs

theorem suppressedStart_iff (s : TStep) : SuppressedStart s ↔ suppressedStartB s = true := by
  obtain ⟨req, obs⟩ := s
  simp only [SuppressedStart, suppressedStartB, Bool.and_eq_true, Bool.not_eq_true']
  have hb : hasBStart obs = false ↔ ∀ tag ok, TObs.bStart tag ok ∉ obs := by
    rw [← Bool.not_eq_true, hasBStart_iff]
    exact ⟨fun h tag ok hm => h ⟨tag, ok, hm⟩, fun h ⟨tag, ok, hm⟩ => h tag ok hm⟩
  rw [hb]
  cases req with
  | start t tag ok => exact ⟨fun h => ⟨rfl, h.2⟩, fun h => ⟨⟨t, tag, ok, rfl⟩, h.2⟩⟩
  | write t id a b c => exact ⟨fun ⟨⟨_, _, _, h⟩, _⟩ => (nomatch h), fun h => by cases h.1⟩
  | stop ok => exact ⟨fun ⟨⟨_, _, _, h⟩, _⟩ => (nomatch h), fun h => by cases h.1⟩

theorem cut_iff (s : TStep) : Cut s ↔ cutB s = true := by
  obtain ⟨req, obs⟩ := s
  simp only [Cut, cutB, Bool.and_eq_true, hasBStop_iff]
  cases req with
  | write t id a b c => exact ⟨fun h => ⟨rfl, h.2⟩, fun h => ⟨⟨t, id, a, b, c, rfl⟩, h.2⟩⟩
  | start t tag ok => exact ⟨fun ⟨⟨_, _, _, _, _, h⟩, _⟩ => (nomatch h), fun h => by cases h.1⟩
  | stop ok => exact ⟨fun ⟨⟨_, _, _, _, _, h⟩, _⟩ => (nomatch h), fun h => by cases h.1⟩

instance (s : TStep) : Decidable (SuppressedStart s) := decidable_of_iff _ (suppressedStart_iff s).symm
instance (s : TStep) : Decidable (Cut s) := decidable_of_iff _ (cut_iff s).symm

theorem expectEv_eq (s : TStep) : expectEv s = if suppressedStartB s || cutB s then 1 else 0 := by
  obtain ⟨req, obs⟩ := s
  cases req with
  | start t tag ok => cases h : hasBStart obs <;> simp [expectEv, suppressedStartB, cutB, isWriteReq, h]
  | write t id a b c => cases h : hasBStop obs <;> simp [expectEv, suppressedStartB, cutB, isWriteReq, h]
  | stop ok => simp [expectEv, suppressedStartB, cutB, isWriteReq]

theorem evOk_iff (s : TStep) :
    evOk s = true ↔
      (((SuppressedStart s ∨ Cut s) → s.obs.count TObs.throttled = 1) ∧
       (¬ (SuppressedStart s ∨ Cut s) → s.obs.count TObs.throttled = 0)) := by
  rw [evOk, beq_iff_eq, countThrottled_eq, expectEv_eq, suppressedStart_iff, cut_iff, ← Bool.or_eq_true]
  cases suppressedStartB s || cutB s <;> simp

theorem eventsExact_iff (tr : List TStep) : EventsExact tr ↔ eventsExactB tr = true := by
  rw [eventsExactB, List.all_eq_true]
  constructor
  · intro h s hs; exact (evOk_iff s).mpr (h s hs)
  · intro h s hs; exact (evOk_iff s).mp (h s hs)

/-! ### transparency -/

theorem hasThr_iff (s : TStep) : hasThr s = true ↔ TObs.throttled ∈ s.obs := by
  rw [hasThr, decide_eq_true_eq, countThrottled_eq]
  exact List.count_pos_iff

theorem foldl_stepThr : ∀ (l : List TStep) (t : Bool),
    l.foldl stepThr t = true ↔ (t = true ∨ ∃ s ∈ l, TObs.throttled ∈ s.obs) := by
  intro l
  induction l with
  | nil => intro t; simp
  | cons x l ih =>
    intro t
    rw [List.foldl_cons, ih, stepThr, Bool.or_eq_true, hasThr_iff]
    simp only [List.mem_cons, exists_eq_or_imp, or_assoc]

theorem transpOk_iff (pre : List TStep) (s : TStep) :
    transpOk (pre.foldl stepThr false) s = true ↔
      ((∀ x ∈ pre ++ [s], TObs.throttled ∉ x.obs) → s.obs = forwarded s.req) := by
  rw [transpOk, Bool.or_eq_true, Bool.or_eq_true, foldl_stepThr, hasThr_iff, beq_iff_eq]
  constructor
  · intro h hall
    rcases h with (⟨h | ⟨x, hx, hm⟩⟩ | h) | h
    · cases h
    · exact absurd hm (hall x (List.mem_append_left _ hx))
    · exact absurd h (hall s (List.mem_append_right _ (List.mem_singleton.mpr rfl)))
    · exact h
  · intro h
    by_cases h1 : ∃ x ∈ pre, TObs.throttled ∈ x.obs
    · exact Or.inl (Or.inl (Or.inr h1))
    · by_cases h2 : TObs.throttled ∈ s.obs
      · exact Or.inl (Or.inr h2)
      · refine Or.inr (h ?_)
        intro x hx hm
        rcases List.mem_append.mp hx with hx | hx
        · exact h1 ⟨x, hx, hm⟩
        · rw [List.mem_singleton.mp hx] at hm; exact h2 hm

theorem transparent_iff (tr : List TStep) : TransparentUntilThrottled tr ↔ transparentB tr = true := by
  rw [transparentB, scanAll_iff]
  constructor
  · intro h i hi
    rw [transpOk_iff, List.take_append_getElem hi]
    exact h i hi
  · intro h i hi
    have := h i hi
    rw [transpOk_iff, List.take_append_getElem hi] at this
    exact this

/-! ### stops -/

theorem stopOk_iff (pre : List TStep) (s : TStep) :
    stopOk (pre.foldl stepOpen false) s = true ↔
      ((∃ ok, s.req = TReq.stop ok) →
        ((∃ ok, TObs.bStop ok ∈ s.obs) ↔ baseOpenAfter (baseCalls pre) = true)) := by
  rw [foldl_stepOpen, ← baseOpenAfter, ← hasBStop_iff]
  obtain ⟨req, obs⟩ := s
  cases req with
  | stop ok =>
    simp only [stopOk, beq_iff_eq]
    constructor
    · intro h _; rw [h]
    · intro h
      have := h ⟨ok, rfl⟩
      cases hb : hasBStop obs <;> cases ho : baseOpenAfter (baseCalls pre) <;> simp [hb, ho] at this ⊢
  | start t tag ok => exact ⟨fun _ ⟨_, h⟩ => (nomatch h), fun _ => rfl⟩
  | write t id a b c => exact ⟨fun _ ⟨_, h⟩ => (nomatch h), fun _ => rfl⟩

theorem stopForwarding_iff (tr : List TStep) : StopForwarding tr ↔ stopForwardingB tr = true := by
  rw [stopForwardingB, scanAll_iff]
  constructor
  · intro h i hi
    exact (stopOk_iff (tr.take i) tr[i]).mpr (h i hi)
  · intro h i hi
    exact (stopOk_iff (tr.take i) tr[i]).mp (h i hi)

/-! ## decidability, and the equivalence -/

instance (cs : List TObs) : Decidable (PairedCalls cs) := decidable_of_iff _ (pairedCalls_iff cs).symm
instance (tr : List TStep) : Decidable (BasePaired tr) := decidable_of_iff _ (basePaired_iff tr).symm
instance (minLen : Nat) (tr : List TStep) : Decidable (CutsLongEnough minLen tr) :=
  decidable_of_iff _ (cutsLongEnough_iff minLen tr).symm
instance (tr : List TStep) : Decidable (EventsExact tr) := decidable_of_iff _ (eventsExact_iff tr).symm
instance (tr : List TStep) : Decidable (TransparentUntilThrottled tr) :=
  decidable_of_iff _ (transparent_iff tr).symm
instance (tr : List TStep) : Decidable (StopForwarding tr) := decidable_of_iff _ (stopForwarding_iff tr).symm
instance (minLen : Nat) (tr : List TStep) : Decidable (C06Spec minLen tr) := by
  unfold C06Spec; exact inferInstance

/-- **the C06 monitor accepts exactly the traces that satisfy the five plain statements** -/
theorem monC06_iff' (minLen : Nat) (tr : List TStep) : monC06 minLen tr = [] ↔ C06Spec minLen tr := by
  rw [monC06_iff_bool, C06Spec, basePaired_iff, cutsLongEnough_iff, eventsExact_iff, transparent_iff,
    stopForwarding_iff]

/-- the state the monitor keeps, in plain terms -/
theorem monitor_state (minLen : Nat) (tr : List TStep) :
    (tr.foldl (M6.step minLen) {}).baseOpen = baseOpenAfter (baseCalls tr) ∧
    (tr.foldl (M6.step minLen) {}).sinceStart = framesInFile (baseCalls tr) ∧
    ((tr.foldl (M6.step minLen) {}).throttledSoFar = true ↔ ∃ s ∈ tr, TObs.throttled ∈ s.obs) := by
  obtain ⟨ho, hn, ht⟩ := fold_state minLen tr {}
  refine ⟨?_, ?_, ?_⟩
  · rw [ho, foldl_stepOpen]; rfl
  · rw [hn, foldl_stepCount]; rfl
  · rw [ht, foldl_stepThr]
    constructor
    · rintro (h | h)
      · cases h
      · exact h
    · exact Or.inr

/-! ### pairing and cuts, position by position inside the steps -/

theorem open_inside (pre : List TStep) (obs : List TObs) :
    obs.foldl nextOpen (pre.foldl stepOpen false) = baseOpenAfter (baseCalls pre ++ baseOf obs) := by
  rw [baseOpenAfter, List.foldl_append, foldl_open_baseOf, foldl_stepOpen]

/-- `BasePaired`, stated per step `i` and observation position `j` instead of over the flat list of calls -/
theorem basePaired_nested (tr : List TStep) :
    BasePaired tr ↔
      ∀ i (h : i < tr.length) j (hj : j < tr[i].obs.length),
        okWhen (baseOpenAfter (baseCalls (tr.take i) ++ baseOf (tr[i].obs.take j))) tr[i].obs[j] = true := by
  rw [basePaired_iff, basePairedB, pairedCallsB, ← scan_pairedOk, scanAll_iff]
  constructor
  · intro h i hi j hj
    have := h i hi
    rw [pairedOk, scanAll_iff] at this
    have := this j hj
    rw [open_inside] at this
    exact this
  · intro h i hi
    rw [pairedOk, scanAll_iff]
    intro j hj
    rw [open_inside]
    exact h i hi j hj

/-- when a file is open, the calls split at its start: the LAST successful `bStart`, after which there is
neither a `bStop` nor another successful `bStart` -/
theorem open_split (cs : List TObs) (h : baseOpenAfter cs = true) :
    ∃ pre tag post, cs = pre ++ TObs.bStart tag true :: post ∧ NoStop post ∧ NoStartOk post := by
  induction cs using list_rev_induction with
  | nil => cases h
  | snoc cs c ih =>
    rw [baseOpenAfter_snoc] at h
    have key : ∀ (hq : ∀ o, nextOpen o c = o) (hs : ∀ ok, c ≠ TObs.bStop ok) (hst : ∀ tag, c ≠ TObs.bStart tag true),
        ∃ pre tag post, cs ++ [c] = pre ++ TObs.bStart tag true :: post ∧ NoStop post ∧ NoStartOk post := by
      intro hq hs hst
      rw [hq] at h
      obtain ⟨pre, tag, post, he, h1, h2⟩ := ih h
      refine ⟨pre, tag, post ++ [c], by rw [he]; simp, ?_, ?_⟩
      · intro ok hm
        rcases List.mem_append.mp hm with hm | hm
        · exact h1 ok hm
        · exact hs ok (List.mem_singleton.mp hm).symm
      · intro tg hm
        rcases List.mem_append.mp hm with hm | hm
        · exact h2 tg hm
        · exact hst tg (List.mem_singleton.mp hm).symm
    cases c with
    | bStart tag ok =>
      cases ok with
      | true => exact ⟨cs, tag, [], rfl, fun _ hm => (by cases hm), fun _ hm => (by cases hm)⟩
      | false => exact key (fun _ => rfl) (fun _ e => nomatch e) (fun _ e => nomatch e)
    | bStop ok => cases h
    | bWrite id ok => exact key (fun _ => rfl) (fun _ e => nomatch e) (fun _ e => nomatch e)
    | throttled => exact key (fun _ => rfl) (fun _ e => nomatch e) (fun _ e => nomatch e)
    | ret ok => exact key (fun _ => rfl) (fun _ e => nomatch e) (fun _ e => nomatch e)

/-! ## (B) the tag monitor `M11` -/

/-- the tag carried by a `.start` request -/
def startTag? : TReq → Option Nat
  | .start _ tag _ => some tag
  | _ => none

/-- the tag of the latest `.start` REQUEST among steps `0..i` (at or before step `i`) -/
def latestTag (tr : List TStep) (i : Nat) : Option Nat :=
  ((tr.take (i + 1)).filterMap fun s => startTag? s.req).getLast?

/-- **fresh tags**: every `bStart` observed at step `i` carries the tag of the latest upstream start request
at or before step `i` -/
def FreshTags (tr : List TStep) : Prop :=
  ∀ i (h : i < tr.length), ∀ tag ok, TObs.bStart tag ok ∈ tr[i].obs → latestTag tr i = some tag

/-- the monitor's update of the remembered tag -/
def tagNext (t : Option Nat) (s : TStep) : Option Nat :=
  match s.req with
  | .start _ tag _ => some tag
  | _ => t

def tagOk (t : Option Nat) (s : TStep) : Bool := !(s.obs.any (staleStart (tagNext t s)))

theorem m11_step_tag (m : M11) (s : TStep) : (M11.step m s).lastTag = tagNext m.lastTag s := by
  obtain ⟨req, obs⟩ := s
  simp only [M11.step]
  split <;> cases req <;> rfl

theorem m11_step_fails (m : M11) (s : TStep) :
    (M11.step m s).fails = [] ↔ m.fails = [] ∧ tagOk m.lastTag s = true := by
  obtain ⟨req, obs⟩ := s
  have ht : M11.tagAfter m req = tagNext m.lastTag ⟨req, obs⟩ := by cases req <;> rfl
  simp only [M11.step, tagOk, ht]
  cases List.any obs (staleStart (tagNext m.lastTag ⟨req, obs⟩)) <;> simp

theorem m11_fold_fails : ∀ (tr : List TStep) (m : M11),
    (tr.foldl M11.step m).fails = [] ↔ m.fails = [] ∧ scanAll tagNext tagOk m.lastTag tr = true := by
  intro tr
  induction tr with
  | nil =>
    intro m
    constructor
    · intro h; exact ⟨h, rfl⟩
    · intro h; exact h.1
  | cons s tr ih =>
    intro m
    rw [List.foldl_cons, ih, m11_step_fails, m11_step_tag]
    simp only [scanAll, Bool.and_eq_true, and_assoc]

theorem m11_fold_tag : ∀ (tr : List TStep) (m : M11),
    (tr.foldl M11.step m).lastTag = tr.foldl tagNext m.lastTag := by
  intro tr
  induction tr with
  | nil => intro m; rfl
  | cons s tr ih => intro m; rw [List.foldl_cons, ih, m11_step_tag]; rfl

/-- the remembered tag is the last start tag, or the initial one -/
theorem foldl_tagNext : ∀ (l : List TStep) (t : Option Nat),
    l.foldl tagNext t = ((l.filterMap fun s => startTag? s.req).getLast?).or t := by
  intro l
  induction l with
  | nil => intro t; rfl
  | cons s l ih =>
    intro t
    rw [List.foldl_cons, ih]
    obtain ⟨req, obs⟩ := s
    cases req with
    | start tk tag ok =>
      have hf : List.filterMap (fun s => startTag? s.req) (⟨.start tk tag ok, obs⟩ :: l) =
          tag :: List.filterMap (fun s => startTag? s.req) l := rfl
      rw [hf, List.getLast?_cons]
      simp only [tagNext]
      generalize (List.filterMap (fun s => startTag? s.req) l).getLast? = g
      cases g <;> rfl
    | write tk id a b c => simp only [tagNext, List.filterMap_cons, startTag?]
    | stop ok => simp only [tagNext, List.filterMap_cons, startTag?]

theorem tagNext_take (tr : List TStep) (i : Nat) (h : i < tr.length) :
    tagNext ((tr.take i).foldl tagNext none) tr[i] = latestTag tr i := by
  have : tagNext ((tr.take i).foldl tagNext none) tr[i] = (tr.take i ++ [tr[i]]).foldl tagNext none := by
    rw [List.foldl_append]; rfl
  rw [this, List.take_append_getElem h, foldl_tagNext, latestTag, Option.or_none]

theorem tagOk_iff (t : Option Nat) (s : TStep) :
    tagOk t s = true ↔ ∀ tag ok, TObs.bStart tag ok ∈ s.obs → tagNext t s = some tag := by
  rw [tagOk, Bool.not_eq_true', List.any_eq_false]
  constructor
  · intro h tag ok hm
    have := h _ hm
    simp only [staleStart, bne_iff_ne, ne_eq, Decidable.not_not] at this
    exact this.symm
  · intro h o ho
    cases o with
    | bStart tag ok => simp [staleStart, h tag ok ho]
    | _ => simp [staleStart]

def freshTagsB (tr : List TStep) : Bool := scanAll tagNext tagOk none tr

theorem freshTags_iff (tr : List TStep) : FreshTags tr ↔ freshTagsB tr = true := by
  rw [freshTagsB, scanAll_iff]
  constructor
  · intro h i hi
    rw [tagOk_iff, tagNext_take tr i hi]
    exact h i hi
  · intro h i hi
    have := h i hi
    rw [tagOk_iff, tagNext_take tr i hi] at this
    exact this

instance (tr : List TStep) : Decidable (FreshTags tr) := decidable_of_iff _ (freshTags_iff tr).symm

/-- **the throttle's C11 monitor accepts exactly the traces whose base starts carry fresh tags** -/
theorem monC11Thr_iff' (tr : List TStep) : monC11Thr tr = [] ↔ FreshTags tr := by
  rw [monC11Thr, m11_fold_fails, freshTags_iff, freshTagsB]
  constructor
  · rintro ⟨_, h⟩; exact h
  · intro h; exact ⟨rfl, h⟩

/-- the tag the monitor remembers after a trace is the tag of its last start request -/
theorem m11_state (tr : List TStep) :
    (tr.foldl M11.step {}).lastTag = (tr.filterMap fun s => startTag? s.req).getLast? := by
  rw [m11_fold_tag, foldl_tagNext, Option.or_none]

/-- the last `some` value of `f` over a list, by position -/
theorem getLast?_filterMap_iff {α β : Type} (f : α → Option β) (b : β) (l : List α) :
    (l.filterMap f).getLast? = some b ↔
      ∃ pre s post, l = pre ++ s :: post ∧ f s = some b ∧ ∀ x ∈ post, f x = none := by
  induction l using list_rev_induction with
  | nil =>
    constructor
    · intro h; cases h
    · rintro ⟨pre, s, post, h, _⟩; cases pre <;> cases h
  | snoc l x ih =>
    rw [List.filterMap_append]
    cases hx : f x with
    | some t =>
      have : List.filterMap f [x] = [t] := by simp [hx]
      rw [this, List.getLast?_concat]
      constructor
      · intro h
        cases h
        exact ⟨l, x, [], rfl, hx, fun _ hm => nomatch hm⟩
      · rintro ⟨pre, s, post, he, hs, hp⟩
        rcases eq_nil_or_snoc post with rfl | ⟨post, y, rfl⟩
        · have := List.append_inj' he rfl
          have hxs : x = s := by simpa using this.2
          rw [hxs, hs] at hx
          exact hx.symm
        · have he' : l ++ [x] = (pre ++ s :: post) ++ [y] := by rw [he]; simp
          have := List.append_inj' he' rfl
          have hxy : x = y := by simpa using this.2
          have := hp y (by simp)
          rw [← hxy, hx] at this
          cases this
    | none =>
      have : List.filterMap f [x] = [] := by simp [hx]
      rw [this, List.append_nil, ih]
      constructor
      · rintro ⟨pre, s, post, he, hs, hp⟩
        refine ⟨pre, s, post ++ [x], by rw [he]; simp, hs, ?_⟩
        intro y hy
        rcases List.mem_append.mp hy with hy | hy
        · exact hp y hy
        · rw [List.mem_singleton.mp hy]; exact hx
      · rintro ⟨pre, s, post, he, hs, hp⟩
        rcases eq_nil_or_snoc post with rfl | ⟨post, y, rfl⟩
        · have := List.append_inj' he rfl
          have hxs : x = s := by simpa using this.2
          rw [hxs, hs] at hx
          cases hx
        · have he' : l ++ [x] = (pre ++ s :: post) ++ [y] := by rw [he]; simp
          have := List.append_inj' he' rfl
          exact ⟨pre, s, post, this.1, hs, fun z hz => hp z (by simp [hz])⟩

/-- **`latestTag` in words**: `latestTag tr i = some tag` iff the steps `0..i` split as `pre ++ s :: post`
where `s` is a `.start` request with that tag and no step of `post` is a `.start` request -/
theorem latestTag_iff (tr : List TStep) (i : Nat) (tag : Nat) :
    latestTag tr i = some tag ↔
      ∃ pre s post, tr.take (i + 1) = pre ++ s :: post ∧ startTag? s.req = some tag ∧
        ∀ x ∈ post, startTag? x.req = none :=
  getLast?_filterMap_iff (fun s : TStep => startTag? s.req) tag (tr.take (i + 1))

end TR.C06Spec
