import Proofs.Ring
import TR.DetSpec
/-!
# Proofs.DetC07 — the detector with a fixed threshold and no FFC refines the declarative spec

State invariant `DInv c d h n` between events (`h` = frames of the current epoch, `n` = their
number): the threshold is the configured one, no FFC flag is pending, the floored ring holds the
epoch (ghost with `n`, mark 0), and the diff ring (capacity 2) holds, in the slot that is not
current, the interior of the previous frame's diff.
-/
namespace TR
namespace DetC07
variable {F : FloatOps}

/-! ### small facts -/

theorem pixDiff_self (w : Bool) (t a : Nat) : pixDiff w t a a = 0 := by
  unfold pixDiff
  simp

theorem mem_interior (c : DCfg) (p : Nat × Nat) (hp : p ∈ c.interior) : c.inI p.1 p.2 = true := by
  simp only [DCfg.interior, DCfg.rows, DCfg.cols, List.mem_flatMap, List.mem_map,
    List.mem_range'_1] at hp
  obtain ⟨y, hy, x, hx, rfl⟩ := hp
  simp only [DCfg.inI, Bool.and_eq_true, decide_eq_true_eq]
  omega

/-- the diff frame written by `pixelsChanged` -/
def newDiff (c : DCfg) (d : Det F) (f : Frame) : Frame := fun y x =>
  if c.inI y x then
    pixDiff c.warmerOnly d.tempThresh (f y x) ((d.floored.write f).oldestFrame y x)
  else d.diffs.current y x

/-- the "previous diff" read by `pixelsChanged` -/
def prevDiff (c : DCfg) (d : Det F) (f : Frame) : Frame :=
  ((d.diffs.write (newDiff c d f)).move).current

/-! ### `pixelsChanged` / `detect` without FFC -/

theorem pc_floored (c : DCfg) (d : Det F) (f : Frame) :
    (Det.pixelsChanged c d f false false).1.floored = (d.floored.write f).move := by
  unfold Det.pixelsChanged
  cases d.firstDiff <;> rfl

theorem pc_diffs (c : DCfg) (d : Det F) (f : Frame) :
    (Det.pixelsChanged c d f false false).1.diffs = (d.diffs.write (newDiff c d f)).move := by
  unfold Det.pixelsChanged
  cases d.firstDiff <;> rfl

theorem pc_firstDiff (c : DCfg) (d : Det F) (f : Frame) :
    (Det.pixelsChanged c d f false false).1.firstDiff = true := by
  unfold Det.pixelsChanged
  cases h : d.firstDiff
  · rfl
  · simp

theorem pc_tempThresh (c : DCfg) (d : Det F) (f : Frame) (a b : Bool) :
    (Det.pixelsChanged c d f a b).1.tempThresh = d.tempThresh := by
  unfold Det.pixelsChanged
  cases d.firstDiff <;> cases a <;> cases b <;> rfl

theorem pc_affected (c : DCfg) (d : Det F) (f : Frame) (a b : Bool) :
    (Det.pixelsChanged c d f a b).1.affected = d.affected := by
  unfold Det.pixelsChanged
  cases d.firstDiff <;> cases a <;> cases b <;> rfl

theorem pc_out (c : DCfg) (d : Det F) (f : Frame) :
    (Det.pixelsChanged c d f false false).2 =
      (d.firstDiff &&
        decide (Det.countChanged c (newDiff c d f)
          (if c.useOneDiff then none else some (prevDiff c d f)) ≥ c.countThresh)) := by
  unfold Det.pixelsChanged
  cases d.firstDiff <;> rfl

/-- fixed threshold, no FFC now or before: `Detect` is `pixelsChanged` -/
theorem detect_eq (c : DCfg) (hdyn : c.dynamic = false) (d : Det F) (ha : d.affected = false)
    (f : Frame) : Det.detect c d f false = Det.pixelsChanged c d f false false := by
  cases d
  simp only at ha
  subst ha
  simp [Det.detect, hdyn]

/-- with a fixed threshold `Detect` never touches the threshold (FFC or not) -/
theorem detect_tempThresh (c : DCfg) (hdyn : c.dynamic = false) (d : Det F) (f : Frame)
    (ffc : Bool) : (Det.detect c d f ffc).1.tempThresh = d.tempThresh := by
  simp only [Det.detect, hdyn, Bool.false_and, Bool.false_eq_true, if_false]
  rw [pc_tempThresh]

/-! ### rings of capacity 2 -/

theorem ring2_prev {α : Type} (r : Ring α) (v : α) (hs : r.size = 2) (hc : r.cur < 2) :
    ((r.write v).move).current = r.slots ((r.cur + 1) % 2) := by
  have hne : (r.cur + 1) % 2 ≠ r.cur := by have := hc; omega
  simp [Ring.current, Ring.move, Ring.write, Ring.next, hs, hne]

theorem ring2_next_prev {α : Type} (r : Ring α) (v : α) (hs : r.size = 2) (hc : r.cur < 2) :
    ((r.write v).move).slots ((((r.write v).move).cur + 1) % 2) = v := by
  have he : ((r.cur + 1) % 2 + 1) % 2 = r.cur := by omega
  simp [Ring.move, Ring.write, Ring.next, hs, he]

theorem ring2_size {α : Type} (r : Ring α) (v : α) : ((r.write v).move).size = r.size := rfl

theorem ring2_cur {α : Type} (r : Ring α) (v : α) (hs : r.size = 2) :
    ((r.write v).move).cur < 2 := by
  simp only [Ring.move, Ring.write, Ring.next, hs]
  omega

/-! ### the counts -/

theorem count_eq (c : DCfg) (diff prev : Frame) (h : Nat → Frame) (n : Nat)
    (hd : ∀ y x, c.inI y x = true → diff y x = specDiff c h n y x)
    (hp : ∀ y x, c.inI y x = true → prev y x = specDiff c h (n - 1) y x) :
    Det.countChanged c diff (if c.useOneDiff then none else some prev) = specCount c h n := by
  unfold Det.countChanged specCount
  congr 1
  apply List.filter_congr
  intro p hpm
  have hin := mem_interior c p hpm
  rw [hd _ _ hin]
  cases c.useOneDiff
  · simp [hp _ _ hin]
  · simp

theorem count_zero (c : DCfg) (diff : Frame) (prev : Option Frame)
    (hd : ∀ y x, c.inI y x = true → diff y x = 0) :
    Det.countChanged c diff prev = 0 := by
  unfold Det.countChanged
  rw [List.length_eq_zero_iff, List.filter_eq_nil_iff]
  intro p hpm
  simp [hd _ _ (mem_interior c p hpm)]

/-! ### the invariant -/

structure DInv (c : DCfg) (d : Det F) (h : Nat → Frame) (n : Nat) : Prop where
  thresh : d.tempThresh = c.tempThresh
  aff : d.affected = false
  fl : ∃ g : Ghost Frame, RInv d.floored g ∧ g.n = n ∧ g.mark = 0 ∧ ∀ k, k < n → g.vals k = h k
  flsize : d.floored.size = c.gap + 1
  dsize : d.diffs.size = 2
  dcur : d.diffs.cur < 2
  first : d.firstDiff = false → n = 0
  prev : 1 ≤ n → ∀ y x, c.inI y x = true →
    d.diffs.slots ((d.diffs.cur + 1) % 2) y x = specDiff c h (n - 1) y x

/-- extension of the epoch by one frame -/
def ext (h : Nat → Frame) (n : Nat) (f : Frame) : Nat → Frame := fun k => if k = n then f else h k

theorem inv_init (F : FloatOps) (c : DCfg) :
    DInv c (Det.init F c) (fun _ => Det.zeroFrame) 0 where
  thresh := rfl
  aff := rfl
  fl := ⟨_, inv_new (c.gap + 1) Det.zeroFrame (Nat.succ_pos _), rfl, rfl, fun _ _ => rfl⟩
  flsize := rfl
  dsize := rfl
  dcur := by simp [Det.init, Ring.new]
  first := fun _ => rfl
  prev := fun h => absurd h (by omega)

theorem inv_reset' (c : DCfg) (d : Det F) (h : Nat → Frame) (n : Nat) (inv : DInv c d h n) :
    DInv c d.reset (fun _ => Det.zeroFrame) 0 := by
  obtain ⟨g, hR, _, _, _⟩ := inv.fl
  exact {
    thresh := inv.thresh
    aff := inv.aff
    fl := ⟨_, inv_reset _ _ hR, rfl, rfl, fun k hk => absurd hk (by omega)⟩
    flsize := inv.flsize
    dsize := inv.dsize
    dcur := by simp [Det.reset, Ring.reset]
    first := fun _ => rfl
    prev := fun h => absurd h (by omega) }

/-- the frame the new one is compared with is frame `n − gap` of the extended epoch -/
theorem compare_eq (c : DCfg) (d : Det F) (h : Nat → Frame) (n : Nat) (inv : DInv c d h n)
    (f : Frame) : (d.floored.write f).oldestFrame = ext h n f (n - c.gap) := by
  obtain ⟨g, hR, hn, hm, hv⟩ := inv.fl
  rw [oldestFrame_eq _ _ (inv_write _ g f hR)]
  have hsz : (d.floored.write f).size = c.gap + 1 := inv.flsize
  have hlo : (g.write f).lo (d.floored.write f).size = n - c.gap := by
    simp only [Ghost.lo, Ghost.write, hsz, hn, hm]
    omega
  rw [hlo]
  simp only [Ghost.write, ext, hn]
  split
  · rfl
  · exact hv _ (by omega)

theorem newDiff_eq (c : DCfg) (d : Det F) (h : Nat → Frame) (n : Nat) (inv : DInv c d h n)
    (f : Frame) (y x : Nat) (hin : c.inI y x = true) :
    newDiff c d f y x = specDiff c (ext h n f) n y x := by
  simp only [newDiff, hin, if_true, specDiff, compare_eq c d h n inv f, inv.thresh]
  simp [ext]

theorem specDiff_ext (c : DCfg) (h : Nat → Frame) (n : Nat) (f : Frame) (k : Nat) (hk : k < n)
    (y x : Nat) : specDiff c (ext h n f) k y x = specDiff c h k y x := by
  have h1 : k ≠ n := by omega
  have h2 : k - c.gap ≠ n := by omega
  simp [specDiff, ext, h1, h2]

/-- one FFC-free frame: invariant preserved, verdict as specified -/
theorem step_frame (c : DCfg) (hdyn : c.dynamic = false) (hcount : 1 ≤ c.countThresh)
    (d : Det F) (h : Nat → Frame) (n : Nat) (inv : DInv c d h n) (f : Frame) :
    DInv c (Det.detect c d f false).1 (ext h n f) (n + 1) ∧
      (Det.detect c d f false).2 = specMotion c (ext h n f) n := by
  rw [detect_eq c hdyn d inv.aff f]
  have hnd := newDiff_eq c d h n inv f
  constructor
  · obtain ⟨g, hR, hn, hm, hv⟩ := inv.fl
    refine {
      thresh := by rw [pc_tempThresh]; exact inv.thresh
      aff := by rw [pc_affected]; exact inv.aff
      fl := ?_
      flsize := by rw [pc_floored]; exact inv.flsize
      dsize := by rw [pc_diffs, ring2_size]; exact inv.dsize
      dcur := by rw [pc_diffs]; exact ring2_cur _ _ inv.dsize
      first := by rw [pc_firstDiff]; intro hh; cases hh
      prev := ?_ }
    · rw [pc_floored]
      refine ⟨_, inv_move _ _ (inv_write _ g f hR), ?_, ?_, ?_⟩
      · simp [Ghost.move, Ghost.write, hn]
      · simp [Ghost.move, Ghost.write, hm]
      · intro k hk
        have h1 : k ≠ n + 1 := by omega
        simp only [Ghost.move, Ghost.write, hn, h1, if_false, ext]
        split
        · rfl
        · exact hv k (by omega)
    · intro _ y x hin
      rw [pc_diffs, ring2_next_prev _ _ inv.dsize inv.dcur, Nat.add_sub_cancel]
      exact hnd y x hin
  · rw [pc_out]
    cases hfd : d.firstDiff
    · have := inv.first hfd
      subst this
      simp [specMotion]
    · rcases Nat.eq_zero_or_pos n with hz | hpos
      · subst hz
        have hzero : ∀ y x, c.inI y x = true → newDiff c d f y x = 0 := by
          intro y x hin
          rw [hnd y x hin]
          simp only [specDiff, Nat.zero_sub]
          exact pixDiff_self _ _ _
        rw [count_zero c _ _ hzero]
        have : ¬ (0 ≥ c.countThresh) := by omega
        simp [specMotion, this]
      · have hprev : ∀ y x, c.inI y x = true →
            prevDiff c d f y x = specDiff c (ext h n f) (n - 1) y x := by
          intro y x hin
          unfold prevDiff
          rw [ring2_prev _ _ inv.dsize inv.dcur, inv.prev hpos y x hin,
            specDiff_ext c h n f (n - 1) (by omega)]
        rw [count_eq c _ _ (ext h n f) n hnd hprev]
        have : n ≥ 1 := hpos
        simp [specMotion, this]

/-! ### event lists -/

theorem outputs_eq (c : DCfg) (hdyn : c.dynamic = false) (hcount : 1 ≤ c.countThresh)
    (evs : List DEv) (hnoffc : ∀ e ∈ evs, e.ffc = false) :
    ∀ (d : Det F) (h : Nat → Frame) (n : Nat), DInv c d h n →
      Det.outputs c d evs = specOutputs c h n evs := by
  induction evs with
  | nil => intro d h n _; rfl
  | cons e es ih =>
    intro d h n inv
    have hes : ∀ e ∈ es, e.ffc = false := fun e he => hnoffc e (List.mem_cons_of_mem _ he)
    cases e with
    | reset =>
      simp only [Det.outputs, Det.stepEv, specOutputs]
      exact ih hes _ _ _ (inv_reset' c d h n inv)
    | frame f b =>
      have hb : b = false := hnoffc (.frame f b) List.mem_cons_self
      subst hb
      obtain ⟨inv', hout⟩ := step_frame c hdyn hcount d h n inv f
      simp only [Det.outputs, Det.stepEv, specOutputs]
      rw [hout, ih hes _ _ _ inv']
      rfl

/-- the invariant along `after` -/
theorem after_inv (c : DCfg) (hdyn : c.dynamic = false) (hcount : 1 ≤ c.countThresh)
    (evs : List DEv) (hnoffc : ∀ e ∈ evs, e.ffc = false) :
    ∀ (d : Det F) (h : Nat → Frame) (n : Nat), DInv c d h n →
      ∃ h' n', DInv c (Det.after c d evs) h' n' := by
  induction evs with
  | nil => intro d h n inv; exact ⟨h, n, inv⟩
  | cons e es ih =>
    intro d h n inv
    have hes : ∀ e ∈ es, e.ffc = false := fun e he => hnoffc e (List.mem_cons_of_mem _ he)
    cases e with
    | reset => exact ih hes _ _ _ (inv_reset' c d h n inv)
    | frame f b =>
      have hb : b = false := hnoffc (.frame f b) List.mem_cons_self
      subst hb
      exact ih hes _ _ _ (step_frame c hdyn hcount d h n inv f).1

theorem after_append (c : DCfg) (d : Det F) (xs ys : List DEv) :
    Det.after c d (xs ++ ys) = Det.after c (Det.after c d xs) ys := by
  induction xs generalizing d with
  | nil => rfl
  | cons e es ih => exact ih _

/-- with a fixed threshold the threshold is the configured one after any events (FFC included) -/
theorem after_tempThresh (c : DCfg) (hdyn : c.dynamic = false) (evs : List DEv) :
    ∀ d : Det F, (Det.after c d evs).tempThresh = d.tempThresh := by
  induction evs with
  | nil => intro d; rfl
  | cons e es ih =>
    intro d
    cases e with
    | reset => exact ih _
    | frame f b =>
      simp only [Det.after, Det.stepEv]
      rw [ih, detect_tempThresh c hdyn]

theorem outputs_append (c : DCfg) (d : Det F) (xs ys : List DEv) :
    Det.outputs c d (xs ++ ys) = Det.outputs c d xs ++ Det.outputs c (Det.after c d xs) ys := by
  induction xs generalizing d with
  | nil => rfl
  | cons e es ih =>
    cases e with
    | reset => simp only [List.cons_append, Det.outputs, Det.after, Det.stepEv]; exact ih _
    | frame f b =>
      simp only [List.cons_append, Det.outputs, Det.after, Det.stepEv]
      rw [ih]

/-- before the first `pixelsChanged` ever (`firstDiff = false`) `Detect` answers "no motion",
whatever the configuration and the FFC flag -/
theorem detect_first_false (c : DCfg) (d : Det F) (f : Frame) (ffc : Bool)
    (hfd : d.firstDiff = false) : (Det.detect c d f ffc).2 = false := by
  have key : ∀ (d' : Det F) (a b : Bool), d'.firstDiff = false →
      (Det.pixelsChanged c d' f a b).2 = false := by
    intro d' a b h'
    simp [Det.pixelsChanged, h']
  unfold Det.detect
  apply key
  simp only [Det.updateBackground]
  split
  · split
    · split <;> exact hfd
    · split <;> exact hfd
  · exact hfd

/-- the first FFC-free frame after a reset is never reported (fixed threshold, no FFC pending) -/
theorem first_after_reset (c : DCfg) (hdyn : c.dynamic = false) (hcount : 1 ≤ c.countThresh)
    (d : Det F) (h : Nat → Frame) (n : Nat) (inv : DInv c d h n) (f : Frame) :
    (Det.detect c d.reset f false).2 = false := by
  rw [(step_frame c hdyn hcount _ _ _ (inv_reset' c d h n inv) f).2]
  simp [specMotion]

end DetC07
end TR
