import TR.Leptond
import Proofs.SocketC14
/-!
# Helper lemmas for C14Daemons (camera daemon ⇄ recorder over the frame socket)

About the model `TR.Leptond` and its relation to `TR.Socket.encode`; the property statements are
in `Props.C14Daemons`.
-/
namespace TR.Leptond
open TR.Socket

/-! ## `sent` -/

theorem sent_nil : sent [] = [] := rfl

theorem sent_cons (ev : CamEv) (evs : List CamEv) : sent (ev :: evs) = ev.item :: sent evs := rfl

theorem sent_append (a b : List CamEv) : sent (a ++ b) = sent a ++ sent b := by
  simp [sent]

/-- one item per `NextFrame` call -/
theorem sent_length (evs : List CamEv) : (sent evs).length = evs.length := by
  simp [sent]

theorem sent_take (evs : List CamEv) (k : Nat) : sent (evs.take k) = (sent evs).take k := by
  simp [sent, List.map_take]

theorem sent_take_prefix (evs : List CamEv) (k : Nat) : sent (evs.take k) <+: sent evs := by
  rw [sent_take]; exact List.take_prefix _ _

theorem mem_sent {i : Item} {evs : List CamEv} (h : i ∈ sent evs) : ∃ ev ∈ evs, ev.item = i := by
  simpa [sent] using h

/-- every `clear` on the wire is a camera restart and vice versa -/
theorem count_clear_sent (evs : List CamEv) :
    (sent evs).count Item.clear
      = evs.countP CamEv.isTimeout + evs.countP CamEv.isResetRequested := by
  induction evs with
  | nil => rfl
  | cons ev evs ih =>
    rw [sent_cons, List.count_cons, List.countP_cons, List.countP_cons, ih]
    cases ev <;> simp [CamEv.item, CamEv.isTimeout, CamEv.isResetRequested] <;> omega

/-- the frames on the wire are the delivered frames, in order -/
theorem frames_sent (evs : List CamEv) :
    (sent evs).filterMap itemFrame? = evs.filterMap CamEv.delivered? := by
  induction evs with
  | nil => rfl
  | cons ev evs ih =>
    rw [sent_cons]
    cases ev with
    | frame b =>
      show List.filterMap itemFrame? (Item.frame b :: sent evs) = _
      rw [List.filterMap_cons_some (f := itemFrame?) (a := Item.frame b) (b := b) rfl,
        List.filterMap_cons_some (f := CamEv.delivered?) (a := CamEv.frame b) (b := b) rfl, ih]
    | timeout =>
      show List.filterMap itemFrame? (Item.clear :: sent evs) = _
      rw [List.filterMap_cons_none (f := itemFrame?) (a := Item.clear) rfl,
        List.filterMap_cons_none (f := CamEv.delivered?) (a := CamEv.timeout) rfl, ih]
    | resetRequested b =>
      show List.filterMap itemFrame? (Item.clear :: sent evs) = _
      rw [List.filterMap_cons_none (f := itemFrame?) (a := Item.clear) rfl,
        List.filterMap_cons_none (f := CamEv.delivered?) (a := CamEv.resetRequested b) rfl, ih]

/-! ## the operational loop writes exactly `encode (sent evs)` -/

theorem run_eq (s : DState) (evs : List CamEv) : run s evs = pending s ++ encode (sent evs) := by
  induction evs generalizing s with
  | nil => simp [run, sent_nil, encode_nil]
  | cons ev evs ih =>
    rw [run, ih, sent_cons, encode_cons]
    cases ev <;> simp [step, cameraIter, CamEv.item, encodeItem, pending]

/-- started inside `runCamera` (no restart under way), the loop writes the body of `stream` -/
theorem run_inCamera (evs : List CamEv) : run .inCamera evs = encode (sent evs) := by
  rw [run_eq]; rfl

/-- the operational `runMain` writes exactly `stream` -/
theorem run_eq_stream (lines : List (List Nat)) (evs : List CamEv) :
    runMain lines evs = stream lines evs := by
  rw [runMain, run_inCamera]; rfl

/-- the bytes of the operational loop split event by event: the first `k` events have written a
prefix of what the whole history writes (up to the `clear` of a restart still under way) -/
theorem run_append (s : DState) (a b : List CamEv) :
    run s (a ++ b) = pending s ++ encode (sent a) ++ encode (sent b) := by
  rw [run_eq, sent_append]; simp [encode, List.append_assoc]

/-! ## `encode` and prefixes -/

theorem encode_append (a b : List Item) : encode (a ++ b) = encode a ++ encode b := by
  simp [encode]

theorem encode_take_prefix (items : List Item) (k : Nat) :
    encode (items.take k) <+: encode items := by
  have h : encode items = encode (items.take k) ++ encode (items.drop k) := by
    rw [← encode_append, List.take_append_drop]
  rw [h]; exact List.prefix_append _ _

/-- any prefix of an encoded item list is a whole number of items followed by nothing, or by a
non-empty proper part of the next item -/
theorem prefix_encode_cases (items : List Item) (q : List Nat) (h : q <+: encode items) :
    ∃ k part, k ≤ items.length ∧ q = encode (items.take k) ++ part ∧
      (part = [] ∨ ∃ last, items[k]? = some last ∧ part <+: encodeItem last ∧ part ≠ [] ∧
        part ≠ encodeItem last) := by
  induction items generalizing q with
  | nil =>
    rw [encode_nil] at h
    have : q = [] := List.prefix_nil.1 h
    exact ⟨0, [], Nat.le_refl _, by simp [this, encode_nil], Or.inl rfl⟩
  | cons i is ih =>
    rw [encode_cons] at h
    rcases prefix_append_cases h with h1 | ⟨q', rfl, hq'⟩
    · by_cases h0 : q = []
      · exact ⟨0, [], Nat.zero_le _, by simp [h0, encode_nil], Or.inl rfl⟩
      · by_cases hfull : q = encodeItem i
        · refine ⟨1, [], by simp, ?_, Or.inl rfl⟩
          simp [hfull, encode_cons, encode_nil]
        · exact ⟨0, q, Nat.zero_le _, by simp [encode_nil],
            Or.inr ⟨i, by simp, h1, h0, hfull⟩⟩
    · obtain ⟨k, part, hk, rfl, hcase⟩ := ih q' hq'
      refine ⟨k + 1, part, by simp; omega, ?_, ?_⟩
      · simp [List.take_succ_cons, encode_cons, List.append_assoc]
      · simpa using hcase

end TR.Leptond
