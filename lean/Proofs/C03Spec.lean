import TR.ProcMon
import Proofs.ProcProto03
/-!
# Proofs.C03Spec — what acceptance by the C03 monitor means, as a plain statement about recordings

`recordingsOf tr` is a reference interpreter that does not mention the monitor `M3`: it walks an observed
trace and returns, for every recording, the motion bits of the frames it received (trigger frame first)
and how it ended.  `LengthRuleRec` is a closed-form predicate on one such recording: at each of its frames
the length rule `p ≥ min maxF (L(p) - 1 + minF)` is due if and only if the recording was stopped at that
frame.

* (B) `monC03_sound`: if `monC03 minF maxF tr = []` and no step dictates a failing motion-sink write, every
  recording of `tr` satisfies `LengthRuleRec` — for EVERY trace; (B') `monC03_complete` is the converse.
* (C) consequences for one recording: `rec_length_le`, `rec_stop_length_ge`, `rec_stop_length_eq`,
  `rec_other_length_lt`, and the closed form `lengthRuleRec_iff_stopPoint`.
* (A') the same specification read position by position: `lengthRule_at_trigger`, `lengthRule_at_frame`
  (trace cut into segments) and `LengthRuleAt` (indices); `lengthRuleAt_of_lengthRule` and
  `lengthRule_of_lengthRuleAt` show the two forms equivalent.
* (D) facts about the model's trace: starts only on motion frames while idle, nothing on test requests,
  no restart (`model_recordings_wf`).
-/
namespace TR.C03Spec
open TR

/-! ## (A) plain definitions -/

/-- how a recording ended -/
inductive EndKind
  | byStop        -- `StopRecording` on the motion sink while one of its frames was processed
  | byBadOrReset  -- a rejected (bad) frame or a camera reset arrived
  | byRestart     -- a successful `StartRecording` on a later frame while it was still open (never in the model)
  | stillOpen     -- the trace ends first
  deriving DecidableEq, Repr

/-- a recording: the motion bits of the frames it received, trigger frame first, and how it ended -/
abbrev Recording := List Bool × EndKind

/-- The remainder of a recording that has received the frames `ms` so far and is still open, given the
steps that follow.  Only FRAME events add a frame; a test-recording request is skipped; a bad frame or a
reset ends the recording without adding a frame; a frame that carries a stop is the last frame. -/
def restOf (ms : List Bool) : List Step → Recording
  | [] => (ms, .stillOpen)
  | st :: rest =>
    match st.ev with
    | .frame m _ =>
      if hasStartOk st.obs then (ms, .byRestart)
      else if hasStop st.obs then (ms ++ [m], .byStop)
      else restOf (ms ++ [m]) rest
    | .bad _ => (ms, .byBadOrReset)
    | .reset _ => (ms, .byBadOrReset)
    | .testReq => restOf ms rest

/-- All recordings of a trace, oldest first: one for every frame event that carries a successful
`StartRecording` on the motion sink (the trigger frame, counted as frame 1 of the recording). -/
def recordingsOf : List Step → List Recording
  | [] => []
  | st :: rest =>
    match st.ev with
    | .frame m _ =>
      if hasStartOk st.obs then
        (if hasStop st.obs then ([m], EndKind.byStop) else restOf [m] rest) :: recordingsOf rest
      else recordingsOf rest
    | _ => recordingsOf rest

/-- 1-based index of the last `true` in the list, 0 if there is none -/
def lastMotion : List Bool → Nat
  | [] => 0
  | b :: bs => if lastMotion bs ≠ 0 then lastMotion bs + 1 else if b then 1 else 0

/-- The length rule at frame `p` (1-based, trigger frame = 1) of a recording with motion bits `ms`:
`p` has reached `maxF`, or `p` has reached `L - 1 + minF` where `L` is the index of the last motion frame
among frames `1..p`.  (If none of them had motion — impossible in the model, whose trigger frame is a
motion frame — the rule reads as if the trigger frame had: `0 - 1 = 0` in `Nat`.) -/
def dueAt (minF maxF : Nat) (ms : List Bool) (p : Nat) : Prop :=
  p ≥ min maxF (lastMotion (ms.take p) - 1 + minF)

instance (minF maxF : Nat) (ms : List Bool) (p : Nat) : Decidable (dueAt minF maxF ms p) := by
  unfold dueAt; infer_instance

/-- **The length rule for one recording**: at every frame `p` of the recording, the rule is due at `p`
if and only if the recording was stopped at `p` (i.e. `p` is its last frame and it ended `byStop`). -/
def LengthRuleRec (minF maxF : Nat) (r : Recording) : Prop :=
  ∀ p, 1 ≤ p → p ≤ r.1.length → (dueAt minF maxF r.1 p ↔ (p = r.1.length ∧ r.2 = .byStop))

/-- **The plain specification of C03**: every recording of the trace obeys the length rule. -/
def LengthRule (minF maxF : Nat) (tr : List Step) : Prop :=
  ∀ r ∈ recordingsOf tr, LengthRuleRec minF maxF r

/-- the first frame of a recording at which the length rule is due, if there is one -/
def stopPoint (minF maxF : Nat) (ms : List Bool) : Option Nat :=
  (List.range' 1 ms.length).find? fun p => decide (dueAt minF maxF ms p)

/-! ### `lastMotion` -/

theorem lastMotion_snoc (ms : List Bool) (b : Bool) :
    lastMotion (ms ++ [b]) = if b then ms.length + 1 else lastMotion ms := by
  induction ms with
  | nil => cases b <;> rfl
  | cons a ms ih =>
    simp only [List.cons_append, lastMotion, ih, List.length_cons]
    cases b
    · simp
    · simp

theorem lastMotion_le (ms : List Bool) : lastMotion ms ≤ ms.length := by
  induction ms with
  | nil => exact Nat.le_refl _
  | cons a ms ih =>
    simp only [lastMotion, List.length_cons]
    split
    · omega
    · split <;> omega

/-- `lastMotion` is what its name says -/
theorem lastMotion_spec (ms : List Bool) :
    (lastMotion ms = 0 ∧ ∀ b ∈ ms, b = false) ∨
    (∃ pre post, ms = pre ++ true :: post ∧ (∀ b ∈ post, b = false) ∧ lastMotion ms = pre.length + 1) := by
  induction ms with
  | nil => exact Or.inl ⟨rfl, by intro b hb; cases hb⟩
  | cons a ms ih =>
    rcases ih with ⟨h0, hall⟩ | ⟨pre, post, rfl, hpost, hl⟩
    · cases a
      · refine Or.inl ⟨by simp [lastMotion, h0], ?_⟩
        intro b hb
        rcases List.mem_cons.mp hb with rfl | hb
        · rfl
        · exact hall b hb
      · exact Or.inr ⟨[], ms, rfl, hall, by simp [lastMotion, h0]⟩
    · refine Or.inr ⟨a :: pre, post, rfl, hpost, ?_⟩
      simp only [lastMotion, hl, List.length_cons]
      simp

/-! ### `dueAt` depends only on the first `p` frames -/

theorem dueAt_append (minF maxF : Nat) (ms more : List Bool) (p : Nat) (hp : p ≤ ms.length) :
    dueAt minF maxF (ms ++ more) p ↔ dueAt minF maxF ms p := by
  unfold dueAt
  rw [List.take_append_of_le_length hp]

theorem dueAt_length (minF maxF : Nat) (ms : List Bool) :
    dueAt minF maxF ms ms.length ↔ ms.length ≥ min maxF (lastMotion ms - 1 + minF) := by
  unfold dueAt
  rw [List.take_length]

/-! ## (B) soundness of the monitor -/

/-- the verdict of `M3.step` at a frame with counters `p`, `l` -/
def verdict (minF maxF p l : Nat) (stopped : Bool) : List String :=
  if decide (p ≥ min maxF (l - 1 + minF)) && !stopped then ["C03:ran-past-limit"]
  else if !decide (p ≥ min maxF (l - 1 + minF)) && stopped then ["C03:stopped-early"] else []

theorem verdict_nil (minF maxF p l : Nat) (stopped : Bool) :
    verdict minF maxF p l stopped = [] ↔ (stopped = true ↔ p ≥ min maxF (l - 1 + minF)) := by
  unfold verdict
  by_cases h : p ≥ min maxF (l - 1 + minF) <;> cases stopped <;> simp [h]

/-- `M3.step` on a step without a dictated write failure, by event kind -/
theorem step_testReq (minF maxF : Nat) (m : M3) (obs : List Obs)
    (hnf : Step.motionWriteFault ⟨.testReq, obs⟩ = false) : M3.step minF maxF m ⟨.testReq, obs⟩ = m := by
  simp only [M3.step, hnf, Bool.false_eq_true, if_false]

theorem step_bad (minF maxF : Nat) (m : M3) (f : Faults) (obs : List Obs)
    (hnf : Step.motionWriteFault ⟨.bad f, obs⟩ = false) :
    M3.step minF maxF m ⟨.bad f, obs⟩ = { m with openRec := false } := by
  simp only [M3.step, hnf, Bool.false_eq_true, if_false]

theorem step_reset (minF maxF : Nat) (m : M3) (f : Faults) (obs : List Obs)
    (hnf : Step.motionWriteFault ⟨.reset f, obs⟩ = false) :
    M3.step minF maxF m ⟨.reset f, obs⟩ = { m with openRec := false } := by
  simp only [M3.step, hnf, Bool.false_eq_true, if_false]

/-- a frame that neither starts a recording nor finds one open -/
theorem step_frame_idle (minF maxF : Nat) (m : M3) (mo : Bool) (f : Faults) (obs : List Obs)
    (hnf : Step.motionWriteFault ⟨.frame mo f, obs⟩ = false) (hs : hasStartOk obs = false)
    (ho : m.openRec = false) : M3.step minF maxF m ⟨.frame mo f, obs⟩ = m := by
  simp only [M3.step, hnf, hs, ho, Bool.false_eq_true, if_false]

/-- a frame of an open recording -/
theorem step_frame_open (minF maxF : Nat) (m : M3) (mo : Bool) (f : Faults) (obs : List Obs)
    (hnf : Step.motionWriteFault ⟨.frame mo f, obs⟩ = false) (hs : hasStartOk obs = false)
    (ho : m.openRec = true) (ht : m.tainted = false) :
    M3.step minF maxF m ⟨.frame mo f, obs⟩ =
      { m with p := m.p + 1, l := if mo then m.p + 1 else m.l, openRec := !hasStop obs,
               fails := m.fails ++ verdict minF maxF (m.p + 1) (if mo then m.p + 1 else m.l) (hasStop obs) } := by
  simp only [M3.step, hnf, hs, ho, ht, Bool.false_eq_true, if_false, if_true, verdict]

/-- a trigger frame -/
theorem step_frame_start (minF maxF : Nat) (m : M3) (mo : Bool) (f : Faults) (obs : List Obs)
    (hnf : Step.motionWriteFault ⟨.frame mo f, obs⟩ = false) (hs : hasStartOk obs = true)
    (ht : m.tainted = false) :
    M3.step minF maxF m ⟨.frame mo f, obs⟩ =
      { m with p := 1, l := if mo then 1 else 0, openRec := !hasStop obs,
               fails := m.fails ++ verdict minF maxF 1 (if mo then 1 else 0) (hasStop obs) } := by
  simp only [M3.step, hnf, hs, ht, Bool.false_eq_true, if_false, if_true, verdict, Nat.zero_add]

/-- without a write fault an untainted monitor stays untainted and only appends to `fails` -/
theorem step_facts (minF maxF : Nat) (m : M3) (st : Step) (hnf : st.motionWriteFault = false)
    (ht : m.tainted = false) :
    (M3.step minF maxF m st).tainted = false ∧ ∃ l, (M3.step minF maxF m st).fails = m.fails ++ l := by
  obtain ⟨ev, obs⟩ := st
  cases ev with
  | testReq => rw [step_testReq minF maxF m obs hnf]; exact ⟨ht, [], by simp⟩
  | bad f => rw [step_bad minF maxF m f obs hnf]; exact ⟨ht, [], by simp⟩
  | reset f => rw [step_reset minF maxF m f obs hnf]; exact ⟨ht, [], by simp⟩
  | frame mo f =>
    cases hs : hasStartOk obs with
    | true => rw [step_frame_start minF maxF m mo f obs hnf hs ht]; exact ⟨ht, _, rfl⟩
    | false =>
      cases ho : m.openRec with
      | false => rw [step_frame_idle minF maxF m mo f obs hnf hs ho]; exact ⟨ht, [], by simp⟩
      | true => rw [step_frame_open minF maxF m mo f obs hnf hs ho ht]; exact ⟨ht, _, rfl⟩

theorem fold_fails (minF maxF : Nat) : ∀ (tr : List Step) (m : M3),
    (∀ st ∈ tr, st.motionWriteFault = false) → m.tainted = false →
    (tr.foldl (M3.step minF maxF) m).fails = [] → m.fails = [] := by
  intro tr
  induction tr with
  | nil => intro m _ _ h; exact h
  | cons st tr ih =>
    intro m hnf ht h
    obtain ⟨ht', l, hl⟩ := step_facts minF maxF m st (hnf st (List.mem_cons_self ..)) ht
    have h1 := ih _ (fun s hs => hnf s (List.mem_cons_of_mem _ hs)) ht' h
    rw [hl] at h1
    exact (List.append_eq_nil_iff.mp h1).1

/-- the monitor's counters describe the open recording with motion bits `ms` -/
structure Tracks (m : M3) (ms : List Bool) : Prop where
  taint : m.tainted = false
  opn : m.openRec = true
  p : m.p = ms.length
  l : m.l = lastMotion ms

theorem rule_of_not_due (minF maxF : Nat) (ms : List Bool) (e : EndKind) (he : e ≠ .byStop)
    (h : ∀ p, 1 ≤ p → p ≤ ms.length → ¬ dueAt minF maxF ms p) : LengthRuleRec minF maxF (ms, e) := by
  intro p h1 h2
  constructor
  · intro hd; exact absurd hd (h p h1 h2)
  · intro hh; exact absurd hh.2 he

theorem not_due_snoc (minF maxF : Nat) (ms : List Bool) (b : Bool)
    (h : ∀ p, 1 ≤ p → p ≤ ms.length → ¬ dueAt minF maxF ms p)
    (hn : ¬ dueAt minF maxF (ms ++ [b]) (ms ++ [b]).length) :
    ∀ p, 1 ≤ p → p ≤ (ms ++ [b]).length → ¬ dueAt minF maxF (ms ++ [b]) p := by
  intro p h1 h2
  by_cases hp : p ≤ ms.length
  · rw [dueAt_append minF maxF ms [b] p hp]; exact h p h1 hp
  · have : p = (ms ++ [b]).length := by
      simp only [List.length_append, List.length_cons, List.length_nil] at h2 ⊢; omega
    rw [this]; exact hn

theorem rule_of_stop (minF maxF : Nat) (ms : List Bool) (b : Bool)
    (h : ∀ p, 1 ≤ p → p ≤ ms.length → ¬ dueAt minF maxF ms p)
    (hd : dueAt minF maxF (ms ++ [b]) (ms ++ [b]).length) :
    LengthRuleRec minF maxF (ms ++ [b], .byStop) := by
  intro p h1 h2
  by_cases hp : p ≤ ms.length
  · have hne : p ≠ (ms ++ [b]).length := by
      simp only [List.length_append, List.length_cons, List.length_nil]; omega
    constructor
    · intro hdp
      rw [dueAt_append minF maxF ms [b] p hp] at hdp
      exact absurd hdp (h p h1 hp)
    · intro hh; exact absurd hh.1 hne
  · have : p = (ms ++ [b]).length := by
      simp only [List.length_append, List.length_cons, List.length_nil] at h2 ⊢; omega
    subst this
    exact ⟨fun _ => ⟨rfl, rfl⟩, fun _ => hd⟩

/-- one more frame of a tracked recording: the monitor's verdict is the length rule at that frame -/
theorem tracks_frame (minF maxF : Nat) (m : M3) (ms : List Bool) (mo : Bool) (f : Faults) (obs : List Obs)
    (hnf : Step.motionWriteFault ⟨.frame mo f, obs⟩ = false) (hs : hasStartOk obs = false)
    (h : Tracks m ms) (hf : (M3.step minF maxF m ⟨.frame mo f, obs⟩).fails = []) :
    (hasStop obs = true ↔ dueAt minF maxF (ms ++ [mo]) (ms ++ [mo]).length) ∧
    (hasStop obs = false → Tracks (M3.step minF maxF m ⟨.frame mo f, obs⟩) (ms ++ [mo])) := by
  rw [step_frame_open minF maxF m mo f obs hnf hs h.opn h.taint] at hf ⊢
  have hv := (verdict_nil minF maxF _ _ _).mp (List.append_eq_nil_iff.mp hf).2
  have hl : (if mo then m.p + 1 else m.l) = lastMotion (ms ++ [mo]) := by
    rw [lastMotion_snoc, h.p, h.l]
  have hp : m.p + 1 = (ms ++ [mo]).length := by
    rw [h.p]; simp
  rw [hl, hp] at hv
  refine ⟨?_, ?_⟩
  · rw [dueAt_length]; exact hv
  · intro hst
    exact ⟨h.taint, by simp [hst], hp, hl⟩

/-- the trigger frame -/
theorem tracks_start (minF maxF : Nat) (m : M3) (mo : Bool) (f : Faults) (obs : List Obs)
    (hnf : Step.motionWriteFault ⟨.frame mo f, obs⟩ = false) (hs : hasStartOk obs = true)
    (ht : m.tainted = false) (hf : (M3.step minF maxF m ⟨.frame mo f, obs⟩).fails = []) :
    (hasStop obs = true ↔ dueAt minF maxF [mo] 1) ∧
    (hasStop obs = false → Tracks (M3.step minF maxF m ⟨.frame mo f, obs⟩) [mo]) := by
  rw [step_frame_start minF maxF m mo f obs hnf hs ht] at hf ⊢
  have hv := (verdict_nil minF maxF _ _ _).mp (List.append_eq_nil_iff.mp hf).2
  have hl : (if mo then 1 else 0) = lastMotion [mo] := by cases mo <;> rfl
  rw [hl] at hv
  refine ⟨?_, ?_⟩
  · have := dueAt_length minF maxF [mo]
    exact hv.trans this.symm
  · intro hst
    exact ⟨ht, by simp [hst], rfl, hl⟩

theorem restOf_ok (minF maxF : Nat) : ∀ (rest : List Step) (m : M3) (ms : List Bool),
    Tracks m ms → (∀ p, 1 ≤ p → p ≤ ms.length → ¬ dueAt minF maxF ms p) →
    (∀ st ∈ rest, st.motionWriteFault = false) → (rest.foldl (M3.step minF maxF) m).fails = [] →
    LengthRuleRec minF maxF (restOf ms rest) := by
  intro rest
  induction rest with
  | nil => intro m ms _ h _ _; exact rule_of_not_due minF maxF ms _ (by simp) h
  | cons st rest ih =>
    intro m ms htr h hnf hacc
    have hnf0 := hnf st (List.mem_cons_self ..)
    have hnf' : ∀ s ∈ rest, s.motionWriteFault = false := fun s hs => hnf s (List.mem_cons_of_mem _ hs)
    rw [List.foldl_cons] at hacc
    obtain ⟨ht', _⟩ := step_facts minF maxF m st hnf0 htr.taint
    have hf0 := fold_fails minF maxF rest _ hnf' ht' hacc
    obtain ⟨ev, obs⟩ := st
    cases ev with
    | testReq =>
      rw [step_testReq minF maxF m obs hnf0] at hacc
      exact ih m ms htr h hnf' hacc
    | bad f => exact rule_of_not_due minF maxF ms _ (by simp) h
    | reset f => exact rule_of_not_due minF maxF ms _ (by simp) h
    | frame mo f =>
      cases hs : hasStartOk obs with
      | true =>
        simp only [restOf, hs, if_true]
        exact rule_of_not_due minF maxF ms _ (by simp) h
      | false =>
        obtain ⟨k1, k2⟩ := tracks_frame minF maxF m ms mo f obs hnf0 hs htr hf0
        cases hst : hasStop obs with
        | true =>
          simp only [restOf, hs, hst, if_true, Bool.false_eq_true, if_false]
          exact rule_of_stop minF maxF ms mo h (k1.mp hst)
        | false =>
          simp only [restOf, hs, hst, Bool.false_eq_true, if_false]
          refine ih _ _ (k2 hst) (not_due_snoc minF maxF ms mo h ?_) hnf' hacc
          intro hd
          have := k1.mpr hd
          rw [hst] at this
          exact absurd this (by simp)

theorem recordingsOf_ok (minF maxF : Nat) : ∀ (tr : List Step) (m : M3),
    m.tainted = false → (∀ st ∈ tr, st.motionWriteFault = false) →
    (tr.foldl (M3.step minF maxF) m).fails = [] →
    ∀ r ∈ recordingsOf tr, LengthRuleRec minF maxF r := by
  intro tr
  induction tr with
  | nil => intro m _ _ _ r hr; cases hr
  | cons st rest ih =>
    intro m ht hnf hacc
    have hnf0 := hnf st (List.mem_cons_self ..)
    have hnf' : ∀ s ∈ rest, s.motionWriteFault = false := fun s hs => hnf s (List.mem_cons_of_mem _ hs)
    rw [List.foldl_cons] at hacc
    obtain ⟨ht', _⟩ := step_facts minF maxF m st hnf0 ht
    have hf0 := fold_fails minF maxF rest _ hnf' ht' hacc
    have hrest := ih _ ht' hnf' hacc
    obtain ⟨ev, obs⟩ := st
    cases ev with
    | testReq => exact hrest
    | bad f => exact hrest
    | reset f => exact hrest
    | frame mo f =>
      cases hs : hasStartOk obs with
      | false =>
        simp only [recordingsOf, hs, Bool.false_eq_true, if_false]
        exact hrest
      | true =>
        obtain ⟨k1, k2⟩ := tracks_start minF maxF m mo f obs hnf0 hs ht hf0
        simp only [recordingsOf, hs, if_true]
        intro r hr
        rcases List.mem_cons.mp hr with rfl | hr
        · cases hst : hasStop obs with
          | true =>
            simp only [if_true]
            have := rule_of_stop minF maxF [] mo (by intro p h1 h2; simp at h2; omega) (k1.mp hst)
            exact this
          | false =>
            simp only [Bool.false_eq_true, if_false]
            refine restOf_ok minF maxF rest _ [mo] (k2 hst) ?_ hnf' hacc
            intro p h1 h2 hd
            have hp : p = 1 := by simp at h2; omega
            subst hp
            have := k1.mpr hd
            rw [hst] at this
            exact absurd this (by simp)
        · exact hrest r hr

/-- **Soundness of the C03 monitor**, for every trace: if the monitor accepts and no step dictates a failing
motion-sink write, every recording of the trace obeys the length rule. -/
theorem monC03_sound (minF maxF : Nat) (tr : List Step)
    (hacc : monC03 minF maxF tr = []) (hnf : ∀ st ∈ tr, st.motionWriteFault = false) :
    LengthRule minF maxF tr :=
  recordingsOf_ok minF maxF tr {} rfl hnf hacc

/-! ### shape of `restOf` (any trace) -/

/-- a recording keeps the frames it already has; it ends `byStop` only on a further frame -/
theorem restOf_shape : ∀ (rest : List Step) (ms : List Bool),
    ∃ more, (restOf ms rest).1 = ms ++ more ∧ ((restOf ms rest).2 = .byStop → more ≠ []) := by
  intro rest
  induction rest with
  | nil => intro ms; exact ⟨[], by simp [restOf], by simp [restOf]⟩
  | cons st rest ih =>
    intro ms
    obtain ⟨ev, obs⟩ := st
    cases ev with
    | testReq => exact ih ms
    | bad f => exact ⟨[], by simp [restOf], by simp [restOf]⟩
    | reset f => exact ⟨[], by simp [restOf], by simp [restOf]⟩
    | frame mo f =>
      cases hs : hasStartOk obs with
      | true => exact ⟨[], by simp [restOf, hs], by simp [restOf, hs]⟩
      | false =>
        cases hst : hasStop obs with
        | true => exact ⟨[mo], by simp [restOf, hs, hst], by simp⟩
        | false =>
          obtain ⟨more, h1, _⟩ := ih (ms ++ [mo])
          refine ⟨mo :: more, ?_, by simp⟩
          simp only [restOf, hs, hst, Bool.false_eq_true, if_false]
          rw [h1]; simp

/-- every recording has at least its trigger frame -/
theorem recordingsOf_nonempty : ∀ (tr : List Step), ∀ r ∈ recordingsOf tr, 1 ≤ r.1.length := by
  intro tr
  induction tr with
  | nil => intro r hr; cases hr
  | cons st rest ih =>
    obtain ⟨ev, obs⟩ := st
    cases ev with
    | testReq => exact ih
    | bad f => exact ih
    | reset f => exact ih
    | frame mo f =>
      cases hs : hasStartOk obs with
      | false => simpa only [recordingsOf, hs, Bool.false_eq_true, if_false] using ih
      | true =>
        simp only [recordingsOf, hs, if_true]
        intro r hr
        rcases List.mem_cons.mp hr with rfl | hr
        · cases hst : hasStop obs with
          | true => simp
          | false =>
            simp only [Bool.false_eq_true, if_false]
            obtain ⟨more, h1, _⟩ := restOf_shape rest [mo]
            rw [h1]; simp
        · exact ih r hr

/-- a recording that continues past its first `ms.length` frames was not due at frame `ms.length` -/
theorem not_due_of_continues (minF maxF : Nat) (ms : List Bool) (rest : List Step) (h1 : 1 ≤ ms.length)
    (h : LengthRuleRec minF maxF (restOf ms rest)) : ¬ dueAt minF maxF ms ms.length := by
  obtain ⟨more, e1, e2⟩ := restOf_shape rest ms
  intro hd
  have hd' : dueAt minF maxF (restOf ms rest).1 ms.length := by
    rw [e1, dueAt_append minF maxF ms more _ (Nat.le_refl _)]; exact hd
  have := (h ms.length h1 (by rw [e1]; simp)).mp hd'
  obtain ⟨g1, g2⟩ := this
  have hm := e2 g2
  rw [e1] at g1
  simp only [List.length_append] at g1
  have : more.length = 0 := by omega
  exact hm (List.eq_nil_of_length_eq_zero this)

/-! ## (B') completeness: the plain specification is no weaker than the monitor -/

theorem complete_aux (minF maxF : Nat) : ∀ (rest : List Step) (m : M3),
    m.tainted = false → m.fails = [] →
    (m.openRec = true → ∃ ms, 1 ≤ ms.length ∧ Tracks m ms ∧ LengthRuleRec minF maxF (restOf ms rest)) →
    (∀ r ∈ recordingsOf rest, LengthRuleRec minF maxF r) →
    (∀ st ∈ rest, st.motionWriteFault = false) →
    (rest.foldl (M3.step minF maxF) m).fails = [] := by
  intro rest
  induction rest with
  | nil => intro m _ hf _ _ _; exact hf
  | cons st rest ih =>
    intro m ht hf hopen hrecs hnf
    have hnf0 := hnf st (List.mem_cons_self ..)
    have hnf' : ∀ s ∈ rest, s.motionWriteFault = false := fun s hs => hnf s (List.mem_cons_of_mem _ hs)
    rw [List.foldl_cons]
    obtain ⟨ev, obs⟩ := st
    cases ev with
    | testReq =>
      rw [step_testReq minF maxF m obs hnf0]
      exact ih m ht hf hopen hrecs hnf'
    | bad f =>
      rw [step_bad minF maxF m f obs hnf0]
      exact ih _ ht hf (by intro h; cases h) hrecs hnf'
    | reset f =>
      rw [step_reset minF maxF m f obs hnf0]
      exact ih _ ht hf (by intro h; cases h) hrecs hnf'
    | frame mo f =>
      cases hs : hasStartOk obs with
      | true =>
        simp only [recordingsOf, hs, if_true] at hrecs
        have hfirst := hrecs _ (List.mem_cons_self ..)
        have hrecs' : ∀ r ∈ recordingsOf rest, LengthRuleRec minF maxF r :=
          fun r hr => hrecs r (List.mem_cons_of_mem _ hr)
        have hl : (if mo then 1 else 0) = lastMotion [mo] := by cases mo <;> rfl
        rw [step_frame_start minF maxF m mo f obs hnf0 hs ht]
        cases hst : hasStop obs with
        | true =>
          simp only [hst, if_true] at hfirst
          have hd : dueAt minF maxF [mo] 1 := (hfirst 1 (Nat.le_refl _) (by simp)).mpr ⟨by simp, rfl⟩
          have hd' := (dueAt_length minF maxF [mo]).mp hd
          refine ih _ ht ?_ (by intro h; simp at h) hrecs' hnf'
          show m.fails ++ _ = []
          rw [hf, List.nil_append, verdict_nil, hl]
          exact ⟨fun _ => hd', fun _ => rfl⟩
        | false =>
          simp only [hst, Bool.false_eq_true, if_false] at hfirst
          have hnd := not_due_of_continues minF maxF [mo] rest (by simp) hfirst
          rw [dueAt_length] at hnd
          refine ih _ ht ?_ ?_ hrecs' hnf'
          · show m.fails ++ _ = []
            rw [hf, List.nil_append, verdict_nil, hl]
            exact ⟨fun h => absurd h (by simp), fun h => absurd h hnd⟩
          · intro _
            exact ⟨[mo], by simp, ⟨ht, by simp, rfl, hl⟩, hfirst⟩
      | false =>
        simp only [recordingsOf, hs, Bool.false_eq_true, if_false] at hrecs
        cases ho : m.openRec with
        | false =>
          rw [step_frame_idle minF maxF m mo f obs hnf0 hs ho]
          exact ih m ht hf (by intro h; rw [ho] at h; cases h) hrecs hnf'
        | true =>
          obtain ⟨ms, hms, htr, hrule⟩ := hopen ho
          have hl : (if mo then m.p + 1 else m.l) = lastMotion (ms ++ [mo]) := by
            rw [lastMotion_snoc, htr.p, htr.l]
          have hp : m.p + 1 = (ms ++ [mo]).length := by rw [htr.p]; simp
          rw [step_frame_open minF maxF m mo f obs hnf0 hs ho ht]
          cases hst : hasStop obs with
          | true =>
            simp only [restOf, hs, hst, if_true, Bool.false_eq_true, if_false] at hrule
            have hd : dueAt minF maxF (ms ++ [mo]) (ms ++ [mo]).length :=
              (hrule _ (by simp) (Nat.le_refl _)).mpr ⟨rfl, rfl⟩
            have hd' := (dueAt_length minF maxF _).mp hd
            refine ih _ ht ?_ (by intro h; simp at h) hrecs hnf'
            show m.fails ++ _ = []
            rw [hf, List.nil_append, verdict_nil, hl, hp]
            exact ⟨fun _ => hd', fun _ => rfl⟩
          | false =>
            simp only [restOf, hs, hst, Bool.false_eq_true, if_false] at hrule
            have hnd := not_due_of_continues minF maxF (ms ++ [mo]) rest (by simp) hrule
            rw [dueAt_length] at hnd
            refine ih _ ht ?_ ?_ hrecs hnf'
            · show m.fails ++ _ = []
              rw [hf, List.nil_append, verdict_nil, hl, hp]
              exact ⟨fun h => absurd h (by simp), fun h => absurd h hnd⟩
            · intro _
              exact ⟨ms ++ [mo], by simp, ⟨ht, by simp, hp, hl⟩, hrule⟩

/-- **Completeness of the C03 monitor**: a trace without dictated write failures whose recordings all obey
the length rule is accepted.  With `monC03_sound`: the monitor accepts exactly the traces that satisfy the
plain specification. -/
theorem monC03_complete (minF maxF : Nat) (tr : List Step)
    (hrule : LengthRule minF maxF tr) (hnf : ∀ st ∈ tr, st.motionWriteFault = false) :
    monC03 minF maxF tr = [] :=
  complete_aux minF maxF tr {} rfl rfl (by intro h; cases h) hrule hnf

/-! ## (C) consequences of the length rule for one recording -/

/-- no recording — however it ended — holds more than `max 1 maxF` frames -/
theorem rec_length_le (minF maxF : Nat) (r : Recording) (h : LengthRuleRec minF maxF r) :
    r.1.length ≤ max 1 maxF := by
  by_cases h2 : r.1.length ≤ 1
  · omega
  · have hn : ¬ dueAt minF maxF r.1 (r.1.length - 1) := by
      intro hd
      have := ((h (r.1.length - 1) (by omega) (by omega)).mp hd).1
      omega
    unfold dueAt at hn
    omega

/-- a recording ended by a stop holds at least `min maxF minF` frames -/
theorem rec_stop_length_ge (minF maxF : Nat) (ms : List Bool) (h1 : 1 ≤ ms.length)
    (h : LengthRuleRec minF maxF (ms, .byStop)) : min maxF minF ≤ ms.length := by
  have hd := (dueAt_length minF maxF ms).mp ((h ms.length h1 (Nat.le_refl _)).mpr ⟨rfl, rfl⟩)
  omega

/-- **exact length** of a recording ended by a stop: with `L` the index of its last motion frame it holds
`min maxF (L - 1 + minF)` frames (and at least the trigger frame) — it ends `minF - 1` frames after its last
motion frame unless capped by `maxF` -/
theorem rec_stop_length_eq (minF maxF : Nat) (ms : List Bool) (h1 : 1 ≤ ms.length)
    (h : LengthRuleRec minF maxF (ms, .byStop)) :
    ms.length = max 1 (min maxF (lastMotion ms - 1 + minF)) := by
  have hd := (dueAt_length minF maxF ms).mp ((h ms.length h1 (Nat.le_refl _)).mpr ⟨rfl, rfl⟩)
  rcases List.eq_nil_or_concat ms with rfl | ⟨init, b, rfl⟩
  · simp at h1
  · rw [List.concat_eq_append] at *
    rw [lastMotion_snoc] at hd ⊢
    simp only [List.length_append, List.length_cons, List.length_nil] at *
    by_cases hi : init.length = 0
    · cases b <;> simp only [Bool.false_eq_true, if_false, if_true] at hd ⊢ <;> omega
    · have hn : ¬ dueAt minF maxF init init.length := by
        intro hd'
        have := ((h init.length (by omega) (by simp)).mp
          ((dueAt_append minF maxF init [b] _ (Nat.le_refl _)).mpr hd')).1
        simp at this
      rw [dueAt_length] at hn
      have hle := lastMotion_le init
      cases b <;> simp only [Bool.false_eq_true, if_false, if_true] at hd ⊢ <;> omega

/-- a recording not ended by a stop (bad frame, reset, restart, still open): the rule was never due, in
particular at its last frame — fewer than `maxF` frames, and the last motion frame is recent -/
theorem rec_other_length_lt (minF maxF : Nat) (ms : List Bool) (e : EndKind) (he : e ≠ .byStop)
    (h1 : 1 ≤ ms.length) (h : LengthRuleRec minF maxF (ms, e)) :
    ms.length < min maxF (lastMotion ms - 1 + minF) := by
  have hn : ¬ dueAt minF maxF ms ms.length := by
    intro hd
    exact he ((h ms.length h1 (Nat.le_refl _)).mp hd).2
  rw [dueAt_length] at hn
  omega

/-! ### closed form through `stopPoint` -/

theorem find?_range' (q : Nat → Bool) : ∀ (n s k : Nat),
    (List.range' s n).find? q = some k ↔ (s ≤ k ∧ k < s + n ∧ q k = true ∧ ∀ j, s ≤ j → j < k → q j = false) := by
  intro n
  induction n with
  | zero => intro s k; simp; omega
  | succ n ih =>
    intro s k
    rw [List.range'_succ, List.find?_cons]
    cases hq : q s with
    | true =>
      simp only [Option.some.injEq]
      constructor
      · rintro rfl
        exact ⟨Nat.le_refl _, by omega, hq, fun j h1 h2 => by omega⟩
      · rintro ⟨h1, _, _, h4⟩
        by_cases hk : s = k
        · exact hk
        · have := h4 s (Nat.le_refl _) (by omega)
          rw [hq] at this; cases this
    | false =>
      simp only
      rw [ih (s + 1) k]
      constructor
      · rintro ⟨h1, h2, h3, h4⟩
        refine ⟨by omega, by omega, h3, ?_⟩
        intro j hj1 hj2
        by_cases hjs : j = s
        · rw [hjs]; exact hq
        · exact h4 j (by omega) hj2
      · rintro ⟨h1, h2, h3, h4⟩
        have hne : s ≠ k := by
          intro he; rw [he] at hq; rw [hq] at h3; cases h3
        exact ⟨by omega, by omega, h3, fun j hj1 hj2 => h4 j (by omega) hj2⟩

/-- **closed form**: a recording obeys the length rule iff the first frame at which the rule is due is its
last frame when it ended `byStop`, and there is no such frame when it ended otherwise -/
theorem lengthRuleRec_iff_stopPoint (minF maxF : Nat) (r : Recording) (h1 : 1 ≤ r.1.length) :
    LengthRuleRec minF maxF r ↔
      stopPoint minF maxF r.1 = if r.2 = .byStop then some r.1.length else none := by
  unfold stopPoint
  by_cases he : r.2 = .byStop
  · rw [if_pos he, find?_range']
    simp only [decide_eq_true_eq, decide_eq_false_iff_not]
    constructor
    · intro h
      refine ⟨h1, by omega, (h _ h1 (Nat.le_refl _)).mpr ⟨rfl, he⟩, ?_⟩
      intro j hj1 hj2 hd
      have := ((h j hj1 (by omega)).mp hd).1
      omega
    · rintro ⟨_, _, h3, h4⟩ p hp1 hp2
      by_cases hp : p = r.1.length
      · subst hp; exact ⟨fun _ => ⟨rfl, he⟩, fun _ => h3⟩
      · exact ⟨fun hd => absurd hd (h4 p hp1 (by omega)), fun hh => absurd hh.1 hp⟩
  · rw [if_neg he, List.find?_eq_none]
    simp only [decide_eq_true_eq, List.mem_range'_1]
    constructor
    · intro h x hx hd
      exact he ((h x hx.1 (by omega)).mp hd).2
    · intro h p hp1 hp2
      exact ⟨fun hd => absurd hd (h p ⟨hp1, by omega⟩), fun hh => absurd hh.2 he⟩

/-! ### decidability (for the examples) -/

instance (minF maxF : Nat) (r : Recording) : Decidable (LengthRuleRec minF maxF r) :=
  decidable_of_iff
    (∀ p, p < r.1.length + 1 → 1 ≤ p → (dueAt minF maxF r.1 p ↔ (p = r.1.length ∧ r.2 = .byStop)))
    ⟨fun h p h1 h2 => h p (by omega) h1, fun h p h1 h2 => h p h2 (by omega)⟩

instance (minF maxF : Nat) (tr : List Step) : Decidable (LengthRule minF maxF tr) := by
  unfold LengthRule; infer_instance

/-! ## (A') the same specification, read position by position -/

/-- a recording starts at this step: a frame event with a successful `StartRecording` on the motion sink -/
def startsRec (st : Step) : Bool := st.ev.isFrame && hasStartOk st.obs

/-- this step ends an open recording: a frame event with a `StopRecording`, a bad frame, or a reset -/
def endsRec (st : Step) : Bool :=
  match st.ev with
  | .frame _ _ => hasStop st.obs
  | .bad _ => true
  | .reset _ => true
  | .testReq => false

/-- the motion bits of the FRAME events of a stretch of the trace -/
def motionBits (seg : List Step) : List Bool := (seg.filter (·.ev.isFrame)).map (·.ev.motion)

theorem motionBits_cons_frame (mo : Bool) (f : Faults) (obs : List Obs) (seg : List Step) :
    motionBits (⟨.frame mo f, obs⟩ :: seg) = mo :: motionBits seg := rfl
theorem motionBits_cons_testReq (obs : List Obs) (seg : List Step) :
    motionBits (⟨.testReq, obs⟩ :: seg) = motionBits seg := rfl
theorem motionBits_nil : motionBits [] = [] := rfl

theorem motionBits_append (a b : List Step) : motionBits (a ++ b) = motionBits a ++ motionBits b := by
  simp [motionBits]

/-- steps that neither start nor end a recording just contribute their frames -/
theorem restOf_quiet : ∀ (mid : List Step) (ms : List Bool) (rest : List Step),
    (∀ s ∈ mid, startsRec s = false ∧ endsRec s = false) →
    restOf ms (mid ++ rest) = restOf (ms ++ motionBits mid) rest := by
  intro mid
  induction mid with
  | nil => intro ms rest _; simp [motionBits_nil]
  | cons st mid ih =>
    intro ms rest h
    have h0 := h st (List.mem_cons_self ..)
    have h' : ∀ s ∈ mid, startsRec s = false ∧ endsRec s = false := fun s hs => h s (List.mem_cons_of_mem _ hs)
    obtain ⟨ev, obs⟩ := st
    cases ev with
    | testReq =>
      rw [motionBits_cons_testReq]
      exact ih ms rest h'
    | bad f => exact absurd h0.2 (by simp [endsRec])
    | reset f => exact absurd h0.2 (by simp [endsRec])
    | frame mo f =>
      have hs : hasStartOk obs = false := by simpa [startsRec, Ev.isFrame] using h0.1
      have hst : hasStop obs = false := by simpa [endsRec] using h0.2
      rw [motionBits_cons_frame]
      simp only [List.cons_append, restOf, hs, hst, Bool.false_eq_true, if_false]
      rw [ih _ rest h']
      simp

theorem recordingsOf_suffix (pre rest : List Step) :
    ∀ r ∈ recordingsOf rest, r ∈ recordingsOf (pre ++ rest) := by
  induction pre with
  | nil => intro r hr; exact hr
  | cons st pre ih =>
    intro r hr
    have := ih r hr
    obtain ⟨ev, obs⟩ := st
    cases ev with
    | testReq => exact this
    | bad f => exact this
    | reset f => exact this
    | frame mo f =>
      simp only [List.cons_append, recordingsOf]
      split
      · exact List.mem_cons_of_mem _ this
      · exact this

/-- the length rule at the trigger frame itself -/
theorem lengthRule_at_trigger (minF maxF : Nat) (pre post : List Step) (first : Step)
    (h : LengthRule minF maxF (pre ++ first :: post)) (h1 : startsRec first = true) :
    hasStop first.obs = true ↔ dueAt minF maxF [first.ev.motion] 1 := by
  obtain ⟨ev, obs⟩ := first
  cases ev with
  | testReq => simp [startsRec, Ev.isFrame] at h1
  | bad f => simp [startsRec, Ev.isFrame] at h1
  | reset f => simp [startsRec, Ev.isFrame] at h1
  | frame mo f =>
    have hs : hasStartOk obs = true := by simpa [startsRec, Ev.isFrame] using h1
    have hmem : (if hasStop obs then ([mo], EndKind.byStop) else restOf [mo] post) ∈
        recordingsOf (pre ++ ⟨.frame mo f, obs⟩ :: post) := by
      apply recordingsOf_suffix
      simp only [recordingsOf, hs, if_true]
      exact List.mem_cons_self ..
    have hr := h _ hmem
    show hasStop obs = true ↔ dueAt minF maxF [mo] 1
    cases hst : hasStop obs with
    | true =>
      rw [hst] at hr
      exact ⟨fun _ => (hr 1 (Nat.le_refl _) (by simp)).mpr ⟨by simp, rfl⟩, fun _ => rfl⟩
    | false =>
      rw [hst] at hr
      simp only [Bool.false_eq_true, if_false] at hr
      have := not_due_of_continues minF maxF [mo] post (by simp) hr
      exact ⟨fun h => absurd h (by simp), fun hd => absurd hd this⟩

/-- **The length rule at a later frame of a recording.**  Cut the trace as
`pre ++ first :: mid ++ last :: post` where `first` starts a recording (and does not end it), no step of
`mid` starts or ends one, and `last` is a frame event that does not start a new one.  Then the recording is
stopped at `last` if and only if the length rule is due there, the frames of the recording so far being the
frame events of `first :: mid ++ [last]`. -/
theorem lengthRule_at_frame (minF maxF : Nat) (pre mid post : List Step) (first last : Step)
    (h : LengthRule minF maxF (pre ++ first :: (mid ++ last :: post)))
    (h1 : startsRec first = true) (h2 : endsRec first = false)
    (hmid : ∀ s ∈ mid, startsRec s = false ∧ endsRec s = false)
    (hl1 : last.ev.isFrame = true) (hl2 : startsRec last = false) :
    hasStop last.obs = true ↔
      dueAt minF maxF (motionBits (first :: (mid ++ [last]))) (motionBits (first :: (mid ++ [last]))).length := by
  obtain ⟨ev, obs⟩ := first
  cases ev with
  | testReq => simp [startsRec, Ev.isFrame] at h1
  | bad f => simp [startsRec, Ev.isFrame] at h1
  | reset f => simp [startsRec, Ev.isFrame] at h1
  | frame mo f =>
    have hs : hasStartOk obs = true := by simpa [startsRec, Ev.isFrame] using h1
    have hst : hasStop obs = false := by simpa [endsRec] using h2
    obtain ⟨lev, lobs⟩ := last
    cases lev with
    | testReq => simp [Ev.isFrame] at hl1
    | bad f => simp [Ev.isFrame] at hl1
    | reset f => simp [Ev.isFrame] at hl1
    | frame lmo lf =>
      have hls : hasStartOk lobs = false := by simpa [startsRec, Ev.isFrame] using hl2
      have hmem : restOf [mo] (mid ++ ⟨.frame lmo lf, lobs⟩ :: post) ∈
          recordingsOf (pre ++ ⟨.frame mo f, obs⟩ :: (mid ++ ⟨.frame lmo lf, lobs⟩ :: post)) := by
        apply recordingsOf_suffix
        simp only [recordingsOf, hs, hst, if_true, Bool.false_eq_true, if_false]
        exact List.mem_cons_self ..
      have hr := h _ hmem
      rw [restOf_quiet mid [mo] _ hmid] at hr
      have hbits : motionBits (⟨.frame mo f, obs⟩ :: (mid ++ [⟨.frame lmo lf, lobs⟩])) =
          ([mo] ++ motionBits mid) ++ [lmo] := by
        rw [motionBits_cons_frame, motionBits_append, motionBits_cons_frame, motionBits_nil]
        simp
      rw [hbits]
      show hasStop lobs = true ↔ _
      cases hlst : hasStop lobs with
      | true =>
        simp only [restOf, hls, hlst, if_true, Bool.false_eq_true, if_false] at hr
        exact ⟨fun _ => (hr _ (by simp) (Nat.le_refl _)).mpr ⟨rfl, rfl⟩, fun _ => rfl⟩
      | false =>
        simp only [restOf, hls, hlst, Bool.false_eq_true, if_false] at hr
        have := not_due_of_continues minF maxF _ post (by simp) hr
        exact ⟨fun h => absurd h (by simp), fun hd => absurd hd this⟩

/-! ### … and with indices -/

/-- a recording starts at position `i` -/
def startsAt (tr : List Step) (i : Nat) : Prop := ∃ st, tr[i]? = some st ∧ startsRec st = true

/-- position `k ≥ i` is still inside the recording that started at `i`: no step at `i..k-1` ended it and no
step at `i+1..k` started a new one -/
def insideRecording (tr : List Step) (i k : Nat) : Prop :=
  i ≤ k ∧ (∀ j st, i ≤ j → j < k → tr[j]? = some st → endsRec st = false) ∧
  (∀ j st, i < j → j ≤ k → tr[j]? = some st → startsRec st = false)

/-- the motion bits of the frame events at positions `i..k` -/
def framesBetween (tr : List Step) (i k : Nat) : List Bool := motionBits ((tr.drop i).take (k + 1 - i))

/-- the length rule at position `k` of the recording started at `i`: with `p` the number of frame events at
`i..k` and `l` the index (counted the same way) of the last one with motion, `p ≥ min maxF (l - 1 + minF)` -/
def due (minF maxF : Nat) (tr : List Step) (i k : Nat) : Prop :=
  (framesBetween tr i k).length ≥ min maxF (lastMotion (framesBetween tr i k) - 1 + minF)

/-- **the positional form of the specification**: at every frame of a recording, the recording is stopped at
that frame if and only if the length rule is due -/
def LengthRuleAt (minF maxF : Nat) (tr : List Step) : Prop :=
  ∀ i k st, startsAt tr i → insideRecording tr i k → tr[k]? = some st → st.ev.isFrame = true →
    (hasStop st.obs = true ↔ due minF maxF tr i k)

theorem split_at (tr : List Step) (i : Nat) (st : Step) (h : tr[i]? = some st) :
    tr = tr.take i ++ st :: tr.drop (i + 1) := by
  obtain ⟨hi, rfl⟩ := List.getElem?_eq_some_iff.mp h
  rw [← List.drop_eq_getElem_cons hi, List.take_append_drop]

theorem motionBits_single_frame (st : Step) (h : st.ev.isFrame = true) : motionBits [st] = [st.ev.motion] := by
  simp [motionBits, h]

theorem lengthRuleAt_of_lengthRule (minF maxF : Nat) (tr : List Step) (h : LengthRule minF maxF tr) :
    LengthRuleAt minF maxF tr := by
  intro i k st ⟨first, hfi, hfs⟩ ⟨hik, hin1, hin2⟩ hk hfr
  have hsplit := split_at tr i first hfi
  have hdrop : tr.drop i = first :: tr.drop (i + 1) := by
    obtain ⟨hi, rfl⟩ := List.getElem?_eq_some_iff.mp hfi
    exact List.drop_eq_getElem_cons hi
  by_cases hki : k = i
  · subst hki
    have hst : st = first := by rw [hfi] at hk; exact (Option.some.inj hk).symm
    subst hst
    rw [hsplit] at h
    have := lengthRule_at_trigger minF maxF _ _ st h hfs
    have hfb : framesBetween tr k k = [st.ev.motion] := by
      unfold framesBetween
      rw [hdrop, show k + 1 - k = 1 by omega]
      simp only [List.take_succ_cons, List.take_zero]
      exact motionBits_single_frame st hfr
    unfold due
    rw [hfb]
    rw [this, ← dueAt_length]
    rfl
  · have hlt : i < k := by omega
    let R := tr.drop (i + 1)
    let n := k - i - 1
    have hRn : R[n]? = some st := by
      show (tr.drop (i + 1))[k - i - 1]? = some st
      rw [List.getElem?_drop, show i + 1 + (k - i - 1) = k by omega]; exact hk
    have hR : R = R.take n ++ st :: R.drop (n + 1) := split_at R n st hRn
    have hmid : ∀ s ∈ R.take n, startsRec s = false ∧ endsRec s = false := by
      intro s hs
      obtain ⟨j, hj, hjs⟩ := List.mem_take_iff_getElem.mp hs
      have hj' : j < n ∧ j < R.length := by omega
      have hget : tr[i + 1 + j]? = some s := by
        rw [← List.getElem?_drop]
        exact List.getElem?_eq_some_iff.mpr ⟨hj'.2, hjs⟩
      exact ⟨hin2 _ s (by omega) (by omega) hget, hin1 _ s (by omega) (by omega) hget⟩
    have h2 : endsRec first = false := hin1 i first (Nat.le_refl _) hlt hfi
    have hl2 : startsRec st = false := hin2 k st hlt (Nat.le_refl _) hk
    have htr : tr = tr.take i ++ first :: (R.take n ++ st :: R.drop (n + 1)) := by
      rw [← hR]; exact hsplit
    rw [htr] at h
    have := lengthRule_at_frame minF maxF _ _ _ first st h hfs h2 hmid hfr hl2
    have hfb : framesBetween tr i k = motionBits (first :: (R.take n ++ [st])) := by
      unfold framesBetween
      rw [hdrop, show k + 1 - i = (n + 1) + 1 by omega, List.take_succ_cons]
      congr 2
      show List.take (n + 1) R = List.take n R ++ [st]
      rw [List.take_add_one, hRn]; rfl
    unfold due
    rw [hfb, this, dueAt_length]

/-! ### the positional form is equivalent: `LengthRuleAt → LengthRule` -/

theorem getElem?_pre (pre rest : List Step) (j : Nat) : (pre ++ rest)[pre.length + j]? = rest[j]? := by
  rw [List.getElem?_append_right (Nat.le_add_right ..), Nat.add_sub_cancel_left]

theorem startsRec_isFrame (st : Step) (h : startsRec st = true) : st.ev.isFrame = true := by
  simp only [startsRec, Bool.and_eq_true] at h; exact h.1

theorem seg_trigger_of_at (minF maxF : Nat) (tr : List Step) (h : LengthRuleAt minF maxF tr)
    (pre post : List Step) (first : Step) (htr : tr = pre ++ first :: post) (h1 : startsRec first = true) :
    hasStop first.obs = true ↔ dueAt minF maxF [first.ev.motion] 1 := by
  have hget : tr[pre.length]? = some first := by
    rw [htr]; simp
  have hin : insideRecording tr pre.length pre.length :=
    ⟨Nat.le_refl _, fun j st a b => by omega, fun j st a b => by omega⟩
  have := h pre.length pre.length first ⟨first, hget, h1⟩ hin hget (startsRec_isFrame first h1)
  rw [this]
  have hfb : framesBetween tr pre.length pre.length = [first.ev.motion] := by
    unfold framesBetween
    rw [htr, List.drop_left', show pre.length + 1 - pre.length = 1 by omega]
    · simp only [List.take_succ_cons, List.take_zero]
      exact motionBits_single_frame first (startsRec_isFrame first h1)
    · rfl
  unfold due
  rw [hfb, ← dueAt_length]
  rfl

theorem seg_frame_of_at (minF maxF : Nat) (tr : List Step) (h : LengthRuleAt minF maxF tr)
    (pre mid post : List Step) (first last : Step) (htr : tr = pre ++ first :: (mid ++ last :: post))
    (h1 : startsRec first = true) (h2 : endsRec first = false)
    (hmid : ∀ s ∈ mid, startsRec s = false ∧ endsRec s = false)
    (hl1 : last.ev.isFrame = true) (hl2 : startsRec last = false) :
    hasStop last.obs = true ↔
      dueAt minF maxF (motionBits (first :: (mid ++ [last]))) (motionBits (first :: (mid ++ [last]))).length := by
  have hidx : ∀ j, tr[pre.length + j]? = (first :: (mid ++ last :: post))[j]? := by
    intro j; rw [htr]; exact getElem?_pre pre _ j
  have hget0 : tr[pre.length]? = some first := by simpa using hidx 0
  have hmidx : ∀ j, j < mid.length → tr[pre.length + (j + 1)]? = mid[j]? := by
    intro j hj
    rw [hidx (j + 1), List.getElem?_cons_succ, List.getElem?_append_left hj]
  have hlast : tr[pre.length + (mid.length + 1)]? = some last := by
    rw [hidx (mid.length + 1), List.getElem?_cons_succ, List.getElem?_append_right (Nat.le_refl _)]
    simp
  have hin : insideRecording tr pre.length (pre.length + (mid.length + 1)) := by
    refine ⟨by omega, ?_, ?_⟩
    · intro j st hj1 hj2 hst
      obtain ⟨j', rfl⟩ : ∃ j', j = pre.length + j' := ⟨j - pre.length, by omega⟩
      cases j' with
      | zero =>
        rw [Nat.add_zero, hget0] at hst
        rw [← Option.some.inj hst]; exact h2
      | succ j'' =>
        rw [hmidx j'' (by omega)] at hst
        exact (hmid st (List.mem_of_getElem? hst)).2
    · intro j st hj1 hj2 hst
      obtain ⟨j', rfl⟩ : ∃ j', j = pre.length + j' := ⟨j - pre.length, by omega⟩
      cases j' with
      | zero => omega
      | succ j'' =>
        by_cases hjm : j'' < mid.length
        · rw [hmidx j'' hjm] at hst
          exact (hmid st (List.mem_of_getElem? hst)).1
        · have : j'' = mid.length := by omega
          subst this
          rw [hlast] at hst
          rw [← Option.some.inj hst]; exact hl2
  have := h pre.length (pre.length + (mid.length + 1)) last ⟨first, hget0, h1⟩ hin hlast hl1
  rw [this]
  have hfb : framesBetween tr pre.length (pre.length + (mid.length + 1)) =
      motionBits (first :: (mid ++ [last])) := by
    unfold framesBetween
    rw [htr, List.drop_left' rfl,
      show pre.length + (mid.length + 1) + 1 - pre.length = (mid.length + 1) + 1 by omega,
      List.take_succ_cons]
    congr 2
    rw [List.take_append, List.take_of_length_le (Nat.le_succ _)]
    simp
  unfold due
  rw [hfb, dueAt_length]

theorem motionBits_first (first : Step) (mid : List Step) (h1 : startsRec first = true) :
    motionBits (first :: mid) = first.ev.motion :: motionBits mid := by
  have := startsRec_isFrame first h1
  simp [motionBits, this]

theorem restOf_of_at (minF maxF : Nat) (tr : List Step) (h : LengthRuleAt minF maxF tr)
    (pre : List Step) (first : Step) (h1 : startsRec first = true) (h2 : endsRec first = false) :
    ∀ (rest mid : List Step), tr = pre ++ first :: (mid ++ rest) →
    (∀ s ∈ mid, startsRec s = false ∧ endsRec s = false) →
    (∀ p, 1 ≤ p → p ≤ (motionBits (first :: mid)).length → ¬ dueAt minF maxF (motionBits (first :: mid)) p) →
    LengthRuleRec minF maxF (restOf (motionBits (first :: mid)) rest) := by
  intro rest
  induction rest with
  | nil => intro mid _ _ hnd; exact rule_of_not_due minF maxF _ _ (by simp) hnd
  | cons st rest ih =>
    intro mid htr hmid hnd
    have htr' : tr = pre ++ first :: ((mid ++ [st]) ++ rest) := by rw [htr]; simp
    have hbits : motionBits (first :: (mid ++ [st])) = motionBits (first :: mid) ++ motionBits [st] := by
      rw [← List.cons_append, motionBits_append]
    obtain ⟨ev, obs⟩ := st
    cases ev with
    | bad f => exact rule_of_not_due minF maxF _ _ (by simp) hnd
    | reset f => exact rule_of_not_due minF maxF _ _ (by simp) hnd
    | testReq =>
      have hq : ∀ s ∈ mid ++ [⟨.testReq, obs⟩], startsRec s = false ∧ endsRec s = false := by
        intro s hs
        rcases List.mem_append.mp hs with hs | hs
        · exact hmid s hs
        · rw [List.mem_singleton] at hs; subst hs; exact ⟨rfl, rfl⟩
      have := ih (mid ++ [⟨.testReq, obs⟩]) htr' hq
      rw [hbits] at this
      simp only [motionBits_cons_testReq, motionBits_nil, List.append_nil] at this
      exact this hnd
    | frame mo f =>
      cases hs : hasStartOk obs with
      | true =>
        simp only [restOf, hs, if_true]
        exact rule_of_not_due minF maxF _ _ (by simp) hnd
      | false =>
        have hl2 : startsRec ⟨.frame mo f, obs⟩ = false := by simp [startsRec, hs]
        have hseg := seg_frame_of_at minF maxF tr h pre mid rest first ⟨.frame mo f, obs⟩ htr h1 h2 hmid rfl hl2
        rw [hbits, motionBits_cons_frame, motionBits_nil] at hseg
        cases hst : hasStop obs with
        | true =>
          simp only [restOf, hs, hst, if_true, Bool.false_eq_true, if_false]
          exact rule_of_stop minF maxF _ mo hnd (hseg.mp hst)
        | false =>
          simp only [restOf, hs, hst, Bool.false_eq_true, if_false]
          have hq : ∀ s ∈ mid ++ [⟨.frame mo f, obs⟩], startsRec s = false ∧ endsRec s = false := by
            intro s hs'
            rcases List.mem_append.mp hs' with hs' | hs'
            · exact hmid s hs'
            · rw [List.mem_singleton] at hs'; subst hs'; exact ⟨hl2, hst⟩
          have := ih (mid ++ [⟨.frame mo f, obs⟩]) htr' hq
          rw [hbits, motionBits_cons_frame, motionBits_nil] at this
          refine this (not_due_snoc minF maxF _ mo hnd ?_)
          intro hd
          have := hseg.mpr hd
          rw [hst] at this
          exact absurd this (by simp)

theorem recordingsOf_of_at (minF maxF : Nat) (tr : List Step) (h : LengthRuleAt minF maxF tr) :
    ∀ (rest pre : List Step), tr = pre ++ rest → ∀ r ∈ recordingsOf rest, LengthRuleRec minF maxF r := by
  intro rest
  induction rest with
  | nil => intro pre _ r hr; cases hr
  | cons st rest ih =>
    intro pre htr
    have hrest := ih (pre ++ [st]) (by rw [htr]; simp)
    obtain ⟨ev, obs⟩ := st
    cases ev with
    | testReq => exact hrest
    | bad f => exact hrest
    | reset f => exact hrest
    | frame mo f =>
      cases hs : hasStartOk obs with
      | false =>
        simp only [recordingsOf, hs, Bool.false_eq_true, if_false]
        exact hrest
      | true =>
        have h1 : startsRec ⟨.frame mo f, obs⟩ = true := by simp [startsRec, hs, Ev.isFrame]
        have htrig := seg_trigger_of_at minF maxF tr h pre rest _ htr h1
        simp only [recordingsOf, hs, if_true]
        intro r hr
        rcases List.mem_cons.mp hr with rfl | hr
        · cases hst : hasStop obs with
          | true =>
            simp only [if_true]
            exact rule_of_stop minF maxF [] mo (by intro p h1 h2; simp at h2; omega) (htrig.mp hst)
          | false =>
            simp only [Bool.false_eq_true, if_false]
            have := restOf_of_at minF maxF tr h pre _ h1 hst rest [] (by simpa using htr)
              (by intro s hs; cases hs)
            rw [motionBits_cons_frame, motionBits_nil] at this
            apply this
            intro p hp1 hp2 hd
            have hp : p = 1 := by simp at hp2; omega
            subst hp
            have := htrig.mpr hd
            rw [hst] at this
            exact absurd this (by simp)
        · exact hrest r hr

theorem lengthRule_of_lengthRuleAt (minF maxF : Nat) (tr : List Step) (h : LengthRuleAt minF maxF tr) :
    LengthRule minF maxF tr :=
  recordingsOf_of_at minF maxF tr h tr [] rfl

/-! ## (D) the model's trace: where starts and stops occur, no restart, trigger frames have motion -/

open TR.PState in
/-- in the model a successful start happens only on a motion frame while no recording is open -/
theorem model_start (c : PCfg) (s : PState) (mo : Bool) (f : Faults)
    (h : hasStartOk (PState.step c s (.frame mo f)).2 = true) : mo = true ∧ s.isRec = false := by
  rw [(P03.frame_summary c s mo f).1] at h
  simp only [P03.starts, P03.attempt, P03.pre, Bool.and_eq_true, Bool.not_eq_true'] at h
  exact ⟨h.1.1.1.1.2, h.1.1.1.1.1⟩

/-- after a frame of the model a recording is open iff one was open or started and it was not stopped -/
theorem model_frame_isRec (c : PCfg) (s : PState) (mo : Bool) (f : Faults) :
    (PState.step c s (.frame mo f)).1.isRec =
      ((s.isRec || hasStartOk (PState.step c s (.frame mo f)).2) && !hasStop (PState.step c s (.frame mo f)).2) := by
  obtain ⟨h1, h2, h3, _⟩ := P03.frame_summary c s mo f
  rw [h1, h2, h3]; rfl

/-- events that are not frames never carry a successful start in the model; a test request carries nothing -/
theorem model_nonframe_start (c : PCfg) (s : PState) (ev : Ev) (h : ev.isFrame = false) :
    hasStartOk (PState.step c s ev).2 = false := by
  cases ev with
  | frame mo f => simp [Ev.isFrame] at h
  | testReq => rfl
  | reset f =>
    show hasStartOk (s.stopRecording f.mStop).2 = false
    unfold PState.stopRecording; split <;> rfl
  | bad f =>
    show hasStartOk (PState.processBad c s f).2 = false
    simp only [PState.processBad, PState.andThen, P03.hasStartOk_append]
    have h1 : ∀ t : PState, hasStartOk (t.stopRecording f.mStop).2 = false := by
      intro t; unfold PState.stopRecording; split <;> rfl
    have h2 : ∀ t : PState, hasStartOk (PState.stopConstantRecorder c t f).2 = false := by
      intro t; unfold PState.stopConstantRecorder; split <;> rfl
    rw [h1, h2]; rfl

theorem model_testReq_obs (c : PCfg) (s : PState) : (PState.step c s .testReq).2 = [] := rfl

theorem model_testReq_isRec (c : PCfg) (s : PState) : (PState.step c s .testReq).1.isRec = s.isRec := rfl

/-- while the model is recording, the recording is never superseded by a restart -/
theorem model_restOf_kind (c : PCfg) : ∀ (evs : List Ev) (s : PState) (ms : List Bool),
    s.isRec = true → (restOf ms (PState.trace c s evs)).2 ≠ .byRestart := by
  intro evs
  induction evs with
  | nil => intro s ms _; simp [PState.trace, restOf]
  | cons e es ih =>
    intro s ms hr
    cases e with
    | testReq => exact ih _ ms (by rw [model_testReq_isRec]; exact hr)
    | bad f => simp [PState.trace, restOf]
    | reset f => simp [PState.trace, restOf]
    | frame mo f =>
      have hs : hasStartOk (PState.step c s (.frame mo f)).2 = false := by
        cases hh : hasStartOk (PState.step c s (.frame mo f)).2 with
        | false => rfl
        | true => have := (model_start c s mo f hh).2; rw [hr] at this; cases this
      simp only [PState.trace, restOf, hs, Bool.false_eq_true, if_false]
      cases hst : hasStop (PState.step c s (.frame mo f)).2 with
      | true => simp
      | false =>
        simp only [Bool.false_eq_true, if_false]
        refine ih _ _ ?_
        rw [model_frame_isRec, hr, hst]; rfl

/-- every recording of the model's trace begins with a motion frame and is never superseded by a restart -/
theorem model_recordings_wf (c : PCfg) : ∀ (evs : List Ev) (s : PState),
    ∀ r ∈ recordingsOf (PState.trace c s evs), r.1.head? = some true ∧ r.2 ≠ .byRestart := by
  intro evs
  induction evs with
  | nil => intro s r hr; cases hr
  | cons e es ih =>
    intro s
    cases e with
    | testReq => exact ih _
    | bad f => exact ih _
    | reset f => exact ih _
    | frame mo f =>
      cases hs : hasStartOk (PState.step c s (.frame mo f)).2 with
      | false =>
        simp only [PState.trace, recordingsOf, hs, Bool.false_eq_true, if_false]
        exact ih _
      | true =>
        obtain ⟨rfl, hidle⟩ := model_start c s mo f hs
        simp only [PState.trace, recordingsOf, hs, if_true]
        intro r hr
        rcases List.mem_cons.mp hr with rfl | hr
        · cases hst : hasStop (PState.step c s (.frame true f)).2 with
          | true => simp
          | false =>
            simp only [Bool.false_eq_true, if_false]
            obtain ⟨more, h1, _⟩ := restOf_shape (PState.trace c (PState.step c s (.frame true f)).1 es) [true]
            refine ⟨by rw [h1]; rfl, ?_⟩
            refine model_restOf_kind c es _ _ ?_
            rw [model_frame_isRec, hs, hst]; simp
        · exact ih _ r hr

end TR.C03Spec
