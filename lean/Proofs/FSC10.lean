import TR.FS

/-!
# Proofs.FSC10 — helper lemmas for property C10 (only complete recordings under `.cptv` names)

Part A: invariants of the directory model under the system calls of the recorder operations.
Part B: lemmas on the glob matcher.
-/
namespace TR.C10
open TR.FS

/-! ## Part A — directory invariants -/

/-- `Good P d`: nothing bad was ever done to a `.cptv` name, and every `.cptv` entry is a complete
recording whose id satisfies `P` -/
def Good (P : Nat → Prop) (d : Dir) : Prop :=
  d.bad = false ∧ ∀ p ∈ d.files, p.1.kind = Kind.F → p.2 = Status.complete ∧ P p.1.idx

theorem Good.mono {P Q : Nat → Prop} {d : Dir} (h : Good P d) (hpq : ∀ k, P k → Q k) : Good Q d :=
  ⟨h.1, fun p hp hk => ⟨(h.2 p hp hk).1, hpq _ (h.2 p hp hk).2⟩⟩

theorem Good.ok {P : Nat → Prop} {d : Dir} (h : Good P d) : d.ok = true := by
  unfold Dir.ok
  simp only [Bool.and_eq_true, Bool.not_eq_true', List.all_eq_true]
  refine ⟨h.1, fun p hp => ?_⟩
  split
  · rename_i hk
    have hk' : p.1.kind = Kind.F := by simpa using hk
    simp [(h.2 p hp hk').1]
  · rfl

theorem Good.cleanup {P : Nat → Prop} {d : Dir} (h : Good P d) :
    ∀ p ∈ d.cleanup.files, p.1.kind = Kind.F ∧ p.2 = Status.complete := by
  intro p hp
  simp only [Dir.cleanup, List.mem_filter, beq_iff_eq] at hp
  exact ⟨hp.2, (h.2 p hp.1 hp.2).1⟩

/-- system calls that never touch a `.cptv` name -/
def Neutral : Sys → Prop
  | .creat n => n.kind ≠ Kind.F
  | .write n => n.kind ≠ Kind.F
  | .close _ => True
  | .unlink _ => True
  | .rename _ _ => False

theorem Good.remove {P : Nat → Prop} {d : Dir} (h : Good P d) (n : Name) : Good P (d.remove n) := by
  refine ⟨h.1, fun p hp hk => ?_⟩
  simp only [Dir.remove, List.mem_filter] at hp
  exact h.2 p hp.1 hk

theorem Good.sealedUpd {P : Nat → Prop} {d : Dir} (h : Good P d) (s : List Nat) :
    Good P { d with sealed := s } := h

theorem Good.putNonF {P : Nat → Prop} {d : Dir} (h : Good P d) (n : Name) (st : Status)
    (hn : n.kind ≠ Kind.F) : Good P (d.put n st) := by
  refine ⟨h.1, fun p hp hk => ?_⟩
  simp only [Dir.put, List.mem_cons] at hp
  rcases hp with rfl | hp
  · exact absurd hk hn
  · exact (h.remove n).2 p hp hk

theorem neutral_step {P : Nat → Prop} {d : Dir} {s : Sys} (hs : Neutral s) (h : Good P d) :
    Good P (d.step s) := by
  cases s with
  | creat n =>
    have hn : n.kind ≠ Kind.F := hs
    have hF : (n.kind == Kind.F) = false := by simpa using hn
    simp only [Dir.step, hF, Bool.false_eq_true, if_false]
    split
    · exact Good.putNonF (d := { d with sealed := _ }) h n _ hn
    · exact h.putNonF n _ hn
  | write n =>
    have hn : n.kind ≠ Kind.F := hs
    have hF : (n.kind == Kind.F) = false := by simpa using hn
    simp only [Dir.step, hF, Bool.false_eq_true, if_false]
    split
    · exact h
    · exact h
  | close n =>
    simp only [Dir.step]
    split
    · exact h
    · exact h
  | unlink n => exact h.remove n
  | rename a b => exact absurd hs (by simp [Neutral])

theorem neutral_run {P : Nat → Prop} {l : List Sys} : ∀ {d : Dir}, (∀ s ∈ l, Neutral s) →
    Good P d → Good P (d.run l) := by
  induction l with
  | nil => intro d _ h; exact h
  | cons a l ih =>
    intro d hl h
    have : Dir.run d (a :: l) = Dir.run (d.step a) l := rfl
    rw [this]
    exact ih (fun s hs => hl s (List.mem_cons_of_mem _ hs))
      (neutral_step (hl a (List.mem_cons_self ..)) h)

theorem neutral_prefix {P : Nat → Prop} {l pre : List Sys} {d : Dir} (hl : ∀ s ∈ l, Neutral s)
    (h : Good P d) (hp : pre <+: l) : Good P (d.run pre) :=
  neutral_run (fun s hs => hl s (hp.subset hs)) h

theorem run_append (d : Dir) (a b : List Sys) : d.run (a ++ b) = (d.run a).run b := by
  simp [Dir.run, List.foldl_append]

/-- the one non-neutral call of the protocol: renaming a sealed `T` onto its fresh final name -/
theorem rename_step {P : Nat → Prop} {d : Dir} {i : Nat} (h : Good P d) (hi : ¬ P i)
    (hs : i ∈ d.sealed) :
    Good (fun k => P k ∨ k = i) (d.step (.rename ⟨i, .T⟩ ⟨i, .F⟩)) := by
  have hhas : d.has ⟨i, .F⟩ = false := by
    simp only [Dir.has, List.any_eq_false, beq_iff_eq]
    intro p hp hpn
    exact hi (by simpa [hpn] using (h.2 p hp (by simp [hpn])).2)
  have hc : d.sealed.contains i = true := by simpa using hs
  simp only [Dir.step, hc, hhas, beq_self_eq_true, Bool.and_self, Bool.not_false, Bool.not_true,
    Bool.false_eq_true, if_false, if_true, Bool.and_false]
  refine ⟨h.1, fun p hp hk => ?_⟩
  simp only [Dir.put, List.mem_cons] at hp
  rcases hp with rfl | hp
  · exact ⟨rfl, Or.inr rfl⟩
  · have := ((h.remove ⟨i, .T⟩).remove ⟨i, .F⟩).2 p hp hk
    exact ⟨this.1, Or.inl this.2⟩

/-- the calls of `stop` before the rename -/
def stopHead (i : Nat) : List Sys :=
  [.write ⟨i, .S⟩, .write ⟨i, .T⟩, .close ⟨i, .T⟩, .close ⟨i, .S⟩, .unlink ⟨i, .S⟩]

theorem stopSteps_eq (i : Nat) : stopSteps i = stopHead i ++ [.rename ⟨i, .T⟩ ⟨i, .F⟩] := rfl

theorem stopHead_neutral (i : Nat) : ∀ s ∈ stopHead i, Neutral s := by
  intro s hs
  simp only [stopHead, List.mem_cons, List.not_mem_nil, or_false] at hs
  rcases hs with rfl | rfl | rfl | rfl | rfl <;> simp [Neutral]

/-- after the head of `stop`, `T i` is sealed: `close T` is not followed by a creat/write of `T i` -/
theorem stopHead_sealed (d : Dir) (i : Nat) : i ∈ (d.run (stopHead i)).sealed := by
  simp [Dir.run, stopHead, Dir.step, Dir.remove]

theorem startSteps_neutral (i : Nat) : ∀ s ∈ startSteps i, Neutral s := by
  intro s hs
  simp only [startSteps, List.mem_cons, List.not_mem_nil, or_false] at hs
  rcases hs with rfl | rfl | rfl <;> simp [Neutral]

theorem writeSteps_neutral (i : Nat) : ∀ s ∈ writeSteps i, Neutral s := by
  intro s hs
  simp only [writeSteps, List.mem_cons, List.not_mem_nil, or_false] at hs
  subst hs; simp [Neutral]

theorem discardSteps_neutral (i : Nat) : ∀ s ∈ discardSteps i, Neutral s := by
  intro s hs
  simp only [discardSteps, List.mem_cons, List.not_mem_nil, or_false] at hs
  rcases hs with rfl | rfl | rfl | rfl | rfl | rfl <;> simp [Neutral]

theorem startFailSteps_neutral (i : Nat) : ∀ s ∈ startFailSteps i, Neutral s := by
  intro s hs
  simp only [startFailSteps, List.mem_cons, List.not_mem_nil, or_false] at hs
  rcases hs with rfl | rfl | rfl | rfl | rfl | rfl | rfl | rfl <;> simp [Neutral]

/-- a prefix of `a ++ b` is a prefix of `a`, or `a` followed by a prefix of `b` -/
theorem prefix_append_cases {α : Type} {pre a b : List α} (h : pre <+: a ++ b) :
    pre <+: a ∨ ∃ t, pre = a ++ t ∧ t <+: b := by
  induction a generalizing pre with
  | nil => exact Or.inr ⟨pre, rfl, by simpa using h⟩
  | cons x a ih =>
    rw [List.cons_append, List.prefix_cons_iff] at h
    rcases h with rfl | ⟨t, rfl, ht⟩
    · exact Or.inl (List.nil_prefix)
    · rcases ih ht with h1 | ⟨u, rfl, hu⟩
      · exact Or.inl ((List.prefix_cons_inj x).2 h1)
      · exact Or.inr ⟨u, rfl, hu⟩

/-- the crash-point property: nothing bad happened to a `.cptv` name and every `.cptv` entry is complete -/
def Safe (d : Dir) : Prop := Good (fun _ => True) d

theorem Good.safe {P : Nat → Prop} {d : Dir} (h : Good P d) : Safe d := h.mono fun _ _ => trivial

/-- invariant at operation boundaries (`opn` = ids of open recordings, `used` = ids ever started): open
ids are distinct and were started; nothing bad happened to a `.cptv` name; every `.cptv` entry is
complete and belongs to a started recording that is no longer open -/
def Boundary (opn used : List Nat) (d : Dir) : Prop :=
  opn.Nodup ∧ (∀ i ∈ opn, i ∈ used) ∧ Good (fun k => k ∈ used ∧ k ∉ opn) d

theorem boundary_init : Boundary [] [] {} :=
  ⟨List.nodup_nil, fun _ h => absurd h List.not_mem_nil, rfl, fun _ h => absurd h List.not_mem_nil⟩

theorem Boundary.safe {opn used : List Nat} {d : Dir} (h : Boundary opn used d) : Safe d := h.2.2.safe

/-- `start i` with a fresh id: every crash point is safe, and the boundary invariant is re-established -/
theorem op_start {opn used : List Nat} {d : Dir} {i : Nat} (hb : Boundary opn used d) (hi : i ∉ used) :
    (∀ pre, pre <+: startSteps i → Safe (d.run pre)) ∧
      Boundary (i :: opn) (i :: used) (d.run (startSteps i)) := by
  obtain ⟨hnd, hsub, hg⟩ := hb
  refine ⟨fun pre hp => (neutral_prefix (startSteps_neutral i) hg hp).safe, ?_, ?_, ?_⟩
  · exact List.nodup_cons.2 ⟨fun h => hi (hsub i h), hnd⟩
  · intro k hk
    rcases List.mem_cons.1 hk with rfl | hk
    · exact List.mem_cons_self ..
    · exact List.mem_cons_of_mem _ (hsub k hk)
  · refine (neutral_run (startSteps_neutral i) hg).mono fun k hk => ⟨List.mem_cons_of_mem _ hk.1, ?_⟩
    intro hmem
    rcases List.mem_cons.1 hmem with rfl | hmem
    · exact hi hk.1
    · exact hk.2 hmem

theorem op_write {opn used : List Nat} {d : Dir} (i : Nat) (hb : Boundary opn used d) :
    (∀ pre, pre <+: writeSteps i → Safe (d.run pre)) ∧ Boundary opn used (d.run (writeSteps i)) := by
  obtain ⟨hnd, hsub, hg⟩ := hb
  exact ⟨fun pre hp => (neutral_prefix (writeSteps_neutral i) hg hp).safe, hnd, hsub,
    neutral_run (writeSteps_neutral i) hg⟩

/-- `stop i` of an open recording: the rename is legal (sealed `T i`, no `F i` yet) -/
theorem op_stop {opn used : List Nat} {d : Dir} {i : Nat} (hb : Boundary opn used d) (hi : i ∈ opn) :
    (∀ pre, pre <+: stopSteps i → Safe (d.run pre)) ∧
      Boundary (opn.erase i) used (d.run (stopSteps i)) := by
  obtain ⟨hnd, hsub, hg⟩ := hb
  have hfull : Good (fun k => (k ∈ used ∧ k ∉ opn) ∨ k = i) (d.run (stopSteps i)) := by
    rw [stopSteps_eq, run_append]
    exact rename_step (neutral_run (stopHead_neutral i) hg) (fun h => h.2 hi) (stopHead_sealed d i)
  refine ⟨fun pre hp => ?_, hnd.erase i, fun k hk => hsub k (List.mem_of_mem_erase hk), ?_⟩
  · rw [stopSteps_eq, List.prefix_concat_iff] at hp
    rcases hp with rfl | hp
    · rw [← stopSteps_eq]; exact hfull.safe
    · exact (neutral_prefix (stopHead_neutral i) hg hp).safe
  · refine hfull.mono fun k hk => ?_
    rcases hk with hk | rfl
    · exact ⟨hk.1, fun h => hk.2 (List.mem_of_mem_erase h)⟩
    · exact ⟨hsub k hi, fun h => ((hnd.mem_erase_iff).1 h).1 rfl⟩

theorem op_discard {opn used : List Nat} {d : Dir} (i : Nat) (hb : Boundary opn used d) :
    (∀ pre, pre <+: discardSteps i → Safe (d.run pre)) ∧
      Boundary (opn.erase i) used (d.run (discardSteps i)) := by
  obtain ⟨hnd, hsub, hg⟩ := hb
  exact ⟨fun pre hp => (neutral_prefix (discardSteps_neutral i) hg hp).safe, hnd.erase i,
    fun k hk => hsub k (List.mem_of_mem_erase hk),
    (neutral_run (discardSteps_neutral i) hg).mono
      fun k hk => ⟨hk.1, fun h => hk.2 (List.mem_of_mem_erase h)⟩⟩

/-- a start that fails while writing the header uses up a fresh id and leaves no open recording -/
theorem op_startFail {opn used : List Nat} {d : Dir} {i : Nat} (hb : Boundary opn used d) (_hi : i ∉ used) :
    (∀ pre, pre <+: startFailSteps i → Safe (d.run pre)) ∧
      Boundary opn (i :: used) (d.run (startFailSteps i)) := by
  obtain ⟨hnd, hsub, hg⟩ := hb
  refine ⟨fun pre hp => (neutral_prefix (startFailSteps_neutral i) hg hp).safe, hnd,
    fun k hk => List.mem_cons_of_mem _ (hsub k hk), ?_⟩
  exact (neutral_run (startFailSteps_neutral i) hg).mono fun k hk => ⟨List.mem_cons_of_mem _ hk.1, hk.2⟩

/-- sequencing: a crash point of `a ++ rest` lies inside `a`, or inside `rest` after all of `a` -/
theorem seq_safe {B : Dir → Prop} {d : Dir} {a rest pre : List Sys}
    (hop : (∀ pre, pre <+: a → Safe (d.run pre)) ∧ B (d.run a))
    (ih : ∀ d', B d' → ∀ pre, pre <+: rest → Safe (d'.run pre))
    (hp : pre <+: a ++ rest) : Safe (d.run pre) := by
  rcases prefix_append_cases hp with h1 | ⟨t, rfl, ht⟩
  · exact hop.1 pre h1
  · rw [run_append]; exact ih _ hop.2 t ht

/-! ## Part B — the glob matcher -/

theorem glob_star_nil (ps : List Char) : globMatch ('*' :: ps) [] = globMatch ps [] := by
  rw [globMatch]

theorem glob_star_cons (ps : List Char) (c : Char) (cs : List Char) :
    globMatch ('*' :: ps) (c :: cs) = (globMatch ps (c :: cs) || globMatch ('*' :: ps) cs) := by
  rw [globMatch]

theorem glob_lit_nil (p : Char) (ps : List Char) (hp : p ≠ '*') : globMatch (p :: ps) [] = false := by
  rw [globMatch]
  intro h
  exact hp h

theorem glob_lit_cons (p : Char) (ps : List Char) (c : Char) (cs : List Char) (hp : p ≠ '*') :
    globMatch (p :: ps) (c :: cs) = (p == c && globMatch ps cs) := by
  rw [globMatch]
  intro h
  exact hp h

/-- a trailing `*` matches everything -/
theorem glob_star_all (s : List Char) : globMatch ['*'] s = true := by
  induction s with
  | nil => rw [glob_star_nil, globMatch]
  | cons c cs ih => rw [glob_star_cons, ih, Bool.or_true]

/-- a leading `*` may swallow any prefix of the subject -/
theorem glob_star_skip (ps pre s : List Char) (h : globMatch ('*' :: ps) s = true) :
    globMatch ('*' :: ps) (pre ++ s) = true := by
  induction pre with
  | nil => exact h
  | cons c pre ih => rw [List.cons_append, glob_star_cons, ih, Bool.or_true]

/-- literal characters match themselves -/
theorem glob_lit_prefix (lit ps s : List Char) (hl : ∀ c ∈ lit, c ≠ '*') :
    globMatch (lit ++ ps) (lit ++ s) = globMatch ps s := by
  induction lit with
  | nil => rfl
  | cons c lit ih =>
    rw [List.cons_append, List.cons_append, glob_lit_cons _ _ _ _ (hl c (List.mem_cons_self ..)),
      ih (fun x hx => hl x (List.mem_cons_of_mem _ hx))]
    simp

/-- a match against a pattern starting with literal characters starts with these characters -/
theorem glob_lit_inv (lit ps s : List Char) (hl : ∀ c ∈ lit, c ≠ '*')
    (h : globMatch (lit ++ ps) s = true) : ∃ t, s = lit ++ t ∧ globMatch ps t = true := by
  induction lit generalizing s with
  | nil => exact ⟨s, rfl, h⟩
  | cons c lit ih =>
    have hc : c ≠ '*' := hl c (List.mem_cons_self ..)
    cases s with
    | nil => rw [List.cons_append, glob_lit_nil _ _ hc] at h; exact absurd h (by simp)
    | cons x xs =>
      rw [List.cons_append, glob_lit_cons _ _ _ _ hc, Bool.and_eq_true, beq_iff_eq] at h
      obtain ⟨t, rfl, ht⟩ := ih xs (fun y hy => hl y (List.mem_cons_of_mem _ hy)) h.2
      exact ⟨t, by rw [h.1]; rfl, ht⟩

/-- `* lit …` only matches subjects that contain `lit` (a non-empty literal without `*`) -/
theorem glob_star_lit_mem (lit ps : List Char) (hl : ∀ c ∈ lit, c ≠ '*') (hne : lit ≠ []) (s : List Char)
    (h : globMatch ('*' :: (lit ++ ps)) s = true) : ∀ c ∈ lit, c ∈ s := by
  induction s with
  | nil =>
    rw [glob_star_nil] at h
    obtain ⟨t, ht, _⟩ := glob_lit_inv lit ps [] hl h
    have : lit = [] := by
      cases lit with
      | nil => rfl
      | cons _ _ => simp at ht
    exact absurd this hne
  | cons x xs ih =>
    rw [glob_star_cons, Bool.or_eq_true] at h
    intro c hc
    rcases h with h | h
    · obtain ⟨t, ht, _⟩ := glob_lit_inv lit ps (x :: xs) hl h
      rw [ht]; exact List.mem_append_left _ hc
    · exact List.mem_cons_of_mem _ (ih h c hc)

/-- the literal part `.cptv.temp` of the clean-up pattern -/
def tempLit : List Char := ['.', 'c', 'p', 't', 'v', '.', 't', 'e', 'm', 'p']

theorem tempLit_nostar : ∀ c ∈ tempLit, c ≠ '*' := by decide

/-- anything of the form `<prefix>.cptv.temp<rest>` is matched by `*.cptv.temp*` -/
theorem matches_temp (pre rest : List Char) :
    globMatch ('*' :: (tempLit ++ ['*'])) (pre ++ (tempLit ++ rest)) = true := by
  apply glob_star_skip
  have : tempLit ++ rest = '.' :: (['c', 'p', 't', 'v', '.', 't', 'e', 'm', 'p'] ++ rest) := rfl
  rw [this, glob_star_cons, ← this, glob_lit_prefix tempLit ['*'] rest tempLit_nostar, glob_star_all]
  rfl

/-- whatever `*.cptv.temp*` matches contains the character `e` -/
theorem match_has_e (s : List Char) (h : globMatch ('*' :: (tempLit ++ ['*'])) s = true) : 'e' ∈ s :=
  glob_star_lit_mem tempLit ['*'] tempLit_nostar (by decide) s h 'e' (by decide)

end TR.C10
