import TR.Pipeline
/-!
# Proofs.PipeLemmas — helper lemmas about the composed model `TR.Pipeline`

* a generic closure principle for the observation fold (`applyObs_fold_rel`): any reflexive,
  transitive relation on pipes that holds across `startFile`, `writeFile`, `stopFile` and updates of
  the throttle fields holds across `List.foldl (Pipe.applyObs c)`;
* the variant for observation lists without `start` / `write` calls (`applyObs_fold_rel_quiet`);
* what `updOpen` does to the file list (`FileLe`, `PW`, `Ext`).
-/
namespace TR.PipeLemmas
open TR

variable {F : FloatOps}

/-! ## generic closure over the observation fold -/

section generic
variable (c : PipeCfg) (R : Pipe F → Pipe F → Prop)

theorem applyTObs_fold_rel
    (hrefl : ∀ p, R p p) (htrans : ∀ p q r, R p q → R q r → R p r)
    (hstartT : ∀ p, R p (Pipe.startFile c p .motion p.threshOfStart))
    (hwrite : ∀ p k id, R p (Pipe.writeFile p k id))
    (hstop : ∀ p k, R p (Pipe.stopFile p k)) :
    ∀ (tobs : List TObs) (p : Pipe F), R p (tobs.foldl (Pipe.applyTObs c) p) := by
  intro tobs
  induction tobs with
  | nil => intro p; exact hrefl p
  | cons t ts ih =>
    intro p
    simp only [List.foldl_cons]
    refine htrans _ _ _ ?_ (ih _)
    cases t with
    | bStart tag ok => exact hstartT _
    | bWrite id ok => exact hwrite _ _ _
    | bStop ok => exact hstop _ _
    | throttled => exact hrefl _
    | ret ok => exact hrefl _

theorem motionCall_rel
    (hrefl : ∀ p, R p p) (htrans : ∀ p q r, R p q → R q r → R p r)
    (hstartM : c.throttle = false → ∀ p, R p (Pipe.startFile c p .motion p.det.tempThresh))
    (hstartT : c.throttle = true → ∀ p, R p (Pipe.startFile c p .motion p.threshOfStart))
    (hwrite : ∀ p k id, R p (Pipe.writeFile p k id))
    (hstop : ∀ p k, R p (Pipe.stopFile p k))
    (hthr : ∀ (p : Pipe F) t, R p { p with thr := t })
    (htos : c.throttle = true → ∀ (p : Pipe F), R p { p with threshOfStart := p.det.tempThresh })
    (p : Pipe F) (call : Call) : R p (Pipe.motionCall c p call) := by
  cases hthrot : c.throttle with
  | false =>
    cases call with
    | can => simp only [Pipe.motionCall, hthrot, ↓reduceIte, Bool.false_eq_true]; exact hrefl _
    | start => simp only [Pipe.motionCall, hthrot, ↓reduceIte, Bool.false_eq_true]; exact hstartM hthrot _
    | write id => simp only [Pipe.motionCall, hthrot, ↓reduceIte, Bool.false_eq_true]; exact hwrite _ _ _
    | stop => simp only [Pipe.motionCall, hthrot, ↓reduceIte, Bool.false_eq_true]; exact hstop _ _
  | true =>
    have hT := applyTObs_fold_rel c R hrefl htrans (hstartT hthrot) hwrite hstop
    cases call with
    | can => simp only [Pipe.motionCall, hthrot, ↓reduceIte]; exact hrefl _
    | start =>
      simp only [Pipe.motionCall, hthrot, ↓reduceIte]
      exact htrans _ _ _ (htos hthrot p)
        (htrans _ _ _ (hthr _ (p.thr.step (TReq.start 0 0 true)).1) (hT _ _))
    | write id =>
      simp only [Pipe.motionCall, hthrot, ↓reduceIte]
      exact htrans _ _ _ (hthr p (p.thr.step (TReq.write 0 id true true true)).1) (hT _ _)
    | stop =>
      simp only [Pipe.motionCall, hthrot, ↓reduceIte]
      exact htrans _ _ _ (hthr p (p.thr.step (TReq.stop true)).1) (hT _ _)

theorem applyObs_rel
    (hrefl : ∀ p, R p p) (htrans : ∀ p q r, R p q → R q r → R p r)
    (hstartM : c.throttle = false → ∀ p, R p (Pipe.startFile c p .motion p.det.tempThresh))
    (hstartT : c.throttle = true → ∀ p, R p (Pipe.startFile c p .motion p.threshOfStart))
    (hstartC : ∀ p, R p (Pipe.startFile c p .const 0))
    (hstartS : ∀ p, R p (Pipe.startFile c p .test 0))
    (hwrite : ∀ p k id, R p (Pipe.writeFile p k id))
    (hstop : ∀ p k, R p (Pipe.stopFile p k))
    (hthr : ∀ (p : Pipe F) t, R p { p with thr := t })
    (htos : c.throttle = true → ∀ (p : Pipe F), R p { p with threshOfStart := p.det.tempThresh })
    (p : Pipe F) (o : Obs) : R p (Pipe.applyObs c p o) := by
  have hM := motionCall_rel c R hrefl htrans hstartM hstartT hwrite hstop hthr htos
  cases o with
  | md => exact hrefl _
  | rs => exact hrefl _
  | re => exact hrefl _
  | panic => exact hrefl _
  | call s cl ok =>
    cases s <;> cases cl <;> cases ok <;> simp only [Pipe.applyObs] <;>
      first
        | exact hrefl _
        | exact hM _ _
        | exact hstartC _
        | exact hstartS _
        | exact hwrite _ _ _
        | exact hstop _ _

/-- closure principle, fine-grained: the four ways a file is started are separate hypotheses -/
theorem applyObs_fold_rel'
    (hrefl : ∀ p, R p p) (htrans : ∀ p q r, R p q → R q r → R p r)
    (hstartM : c.throttle = false → ∀ p, R p (Pipe.startFile c p .motion p.det.tempThresh))
    (hstartT : c.throttle = true → ∀ p, R p (Pipe.startFile c p .motion p.threshOfStart))
    (hstartC : ∀ p, R p (Pipe.startFile c p .const 0))
    (hstartS : ∀ p, R p (Pipe.startFile c p .test 0))
    (hwrite : ∀ p k id, R p (Pipe.writeFile p k id))
    (hstop : ∀ p k, R p (Pipe.stopFile p k))
    (hthr : ∀ (p : Pipe F) t, R p { p with thr := t })
    (htos : c.throttle = true → ∀ (p : Pipe F), R p { p with threshOfStart := p.det.tempThresh }) :
    ∀ (obs : List Obs) (p : Pipe F), R p (obs.foldl (Pipe.applyObs c) p) := by
  intro obs
  induction obs with
  | nil => intro p; exact hrefl p
  | cons o os ih =>
    intro p
    simp only [List.foldl_cons]
    exact htrans _ _ _
      (applyObs_rel c R hrefl htrans hstartM hstartT hstartC hstartS hwrite hstop hthr htos p o) (ih _)

/-- closure principle: a reflexive, transitive relation that holds across the three file operations
and across updates of the throttle fields holds across the whole observation fold -/
theorem applyObs_fold_rel
    (hrefl : ∀ p, R p p) (htrans : ∀ p q r, R p q → R q r → R p r)
    (hstart : ∀ p k t, R p (Pipe.startFile c p k t))
    (hwrite : ∀ p k id, R p (Pipe.writeFile p k id))
    (hstop : ∀ p k, R p (Pipe.stopFile p k))
    (hthr : ∀ (p : Pipe F) t, R p { p with thr := t })
    (htos : ∀ (p : Pipe F) n, R p { p with threshOfStart := n }) :
    ∀ (obs : List Obs) (p : Pipe F), R p (obs.foldl (Pipe.applyObs c) p) :=
  applyObs_fold_rel' c R hrefl htrans (fun _ p => hstart p _ _) (fun _ p => hstart p _ _)
    (fun p => hstart p _ _) (fun p => hstart p _ _) hwrite hstop hthr (fun _ p => htos p _)

end generic

/-! ## observation lists without `start` / `write` -/

/-- an observation that is neither a `StartRecording` nor a `WriteFrame` call -/
def quiet : Obs → Bool
  | .call _ .start _ => false
  | .call _ (.write _) _ => false
  | _ => true

section quietSec
variable (c : PipeCfg) (R : Pipe F → Pipe F → Prop)

theorem motionCall_stop_rel
    (htrans : ∀ p q r, R p q → R q r → R p r)
    (hstop : ∀ p k, R p (Pipe.stopFile p k))
    (hthr : ∀ (p : Pipe F) t, R p { p with thr := t })
    (p : Pipe F) : R p (Pipe.motionCall c p .stop) := by
  cases hthrot : c.throttle with
  | false => simp only [Pipe.motionCall, hthrot, ↓reduceIte, Bool.false_eq_true]; exact hstop _ _
  | true =>
    cases hrec : p.thr.recording with
    | false =>
      simp only [Pipe.motionCall, hthrot, ↓reduceIte, TState.step, TState.stopRec, hrec,
        Bool.false_eq_true, List.nil_append, List.foldl_cons, List.foldl_nil, Pipe.applyTObs]
      exact hthr _ _
    | true =>
      simp only [Pipe.motionCall, hthrot, ↓reduceIte, TState.step, TState.stopRec, hrec,
        List.cons_append, List.nil_append, List.foldl_cons, List.foldl_nil, Pipe.applyTObs]
      exact htrans _ _ _ (hthr p { p.thr with recording := false }) (hstop _ _)

theorem applyObs_quiet_rel
    (hrefl : ∀ p, R p p) (htrans : ∀ p q r, R p q → R q r → R p r)
    (hstop : ∀ p k, R p (Pipe.stopFile p k))
    (hthr : ∀ (p : Pipe F) t, R p { p with thr := t })
    (p : Pipe F) (o : Obs) (hq : quiet o = true) : R p (Pipe.applyObs c p o) := by
  have hM := motionCall_stop_rel c R htrans hstop hthr
  cases o with
  | md => exact hrefl _
  | rs => exact hrefl _
  | re => exact hrefl _
  | panic => exact hrefl _
  | call s cl ok =>
    cases cl with
    | start => simp [quiet] at hq
    | write id => simp [quiet] at hq
    | can =>
      cases s <;> cases ok <;> simp only [Pipe.applyObs, Pipe.motionCall] <;>
        (try split) <;> exact hrefl _
    | stop =>
      cases s <;> cases ok <;> simp only [Pipe.applyObs] <;>
        first
          | exact hrefl _
          | exact hM _
          | exact hstop _ _

/-- closure principle for observation lists without `start` / `write` calls: only `stopFile`
and updates of the throttle state have to be covered -/
theorem applyObs_fold_rel_quiet
    (hrefl : ∀ p, R p p) (htrans : ∀ p q r, R p q → R q r → R p r)
    (hstop : ∀ p k, R p (Pipe.stopFile p k))
    (hthr : ∀ (p : Pipe F) t, R p { p with thr := t }) :
    ∀ (obs : List Obs), (∀ o ∈ obs, quiet o = true) →
      ∀ (p : Pipe F), R p (obs.foldl (Pipe.applyObs c) p) := by
  intro obs
  induction obs with
  | nil => intro _ p; exact hrefl p
  | cons o os ih =>
    intro hq p
    simp only [List.foldl_cons]
    refine htrans _ _ _ (applyObs_quiet_rel c R hrefl htrans hstop hthr p o ?_) (ih ?_ _)
    · exact hq o (List.mem_cons_self ..)
    · intro o' ho'; exact hq o' (List.mem_cons_of_mem _ ho')

end quietSec

/-! ## processor observations on a rejected frame / a reset -/

theorem stopRecording_quiet (s : PState) (ok : Bool) : ∀ o ∈ (s.stopRecording ok).2, quiet o = true := by
  intro o ho
  simp only [PState.stopRecording] at ho
  split at ho
  · simp at ho
  · simp only [List.mem_cons, List.not_mem_nil, or_false] at ho
    rcases ho with rfl | rfl <;> rfl

theorem stopConstantRecorder_quiet (pc : PCfg) (s : PState) (f : Faults) :
    ∀ o ∈ (PState.stopConstantRecorder pc s f).2, quiet o = true := by
  intro o ho
  simp only [PState.stopConstantRecorder] at ho
  split at ho
  · simp at ho
  · simp only [List.mem_cons, List.not_mem_nil, or_false] at ho
    subst ho; rfl

/-- the observations of `processBad` are `[re, motion stop]` and/or `[const stop]`: no `start`, no `write` -/
theorem processBad_quiet (pc : PCfg) (s : PState) (f : Faults) :
    ∀ o ∈ (PState.processBad pc s f).2, quiet o = true := by
  intro o ho
  simp only [PState.processBad, PState.andThen, List.mem_append] at ho
  rcases ho with ho | ho
  · exact stopRecording_quiet _ _ o ho
  · exact stopConstantRecorder_quiet _ _ _ o ho

theorem stopRecording_n (s : PState) (ok : Bool) : (s.stopRecording ok).1.n = s.n := by
  simp only [PState.stopRecording]; split <;> rfl

theorem stopRecording_isRec (s : PState) (ok : Bool) : (s.stopRecording ok).1.isRec = false := by
  simp only [PState.stopRecording]
  split
  · next h => simpa using h
  · rfl

theorem processBad_n (pc : PCfg) (s : PState) (f : Faults) : (PState.processBad pc s f).1.n = s.n := by
  simp only [PState.processBad, PState.andThen, PState.stopConstantRecorder]
  split <;> simp only [stopRecording_n]

theorem processBad_isRec (pc : PCfg) (s : PState) (f : Faults) : (PState.processBad pc s f).1.isRec = false := by
  simp only [PState.processBad, PState.andThen, PState.stopConstantRecorder]
  split <;> simp only [stopRecording_isRec]

/-! ## what `updOpen` does to the file list -/

theorem updOpen_length (fs : List RecFile) (k : FileKind) (u : RecFile → RecFile) :
    (Pipe.updOpen fs k u).length = fs.length := by
  induction fs with
  | nil => rfl
  | cons x xs ih => simp only [Pipe.updOpen]; split <;> simp [ih]

/-- closing the open file of a kind leaves every frame list alone -/
theorem updOpen_close_frames (fs : List RecFile) (k : FileKind) :
    (Pipe.updOpen fs k fun f => { f with closed := true }).map (·.frames) = fs.map (·.frames) := by
  induction fs with
  | nil => rfl
  | cons x xs ih => simp only [Pipe.updOpen]; split <;> simp [ih]

/-- `b` is a later state of the file `a`: same header, frames only appended, a closed file is final -/
def FileLe (a b : RecFile) : Prop :=
  a.kind = b.kind ∧ a.thresh = b.thresh ∧ a.bg = b.bg ∧ a.bgSeeded = b.bgSeeded ∧
  a.frames <+: b.frames ∧ (a.closed = true → b = a)

theorem FileLe.refl (a : RecFile) : FileLe a a :=
  ⟨rfl, rfl, rfl, rfl, List.prefix_refl _, fun _ => rfl⟩

theorem FileLe.trans {a b d : RecFile} (h₁ : FileLe a b) (h₂ : FileLe b d) : FileLe a d := by
  obtain ⟨k1, t1, b1, s1, f1, c1⟩ := h₁
  obtain ⟨k2, t2, b2, s2, f2, c2⟩ := h₂
  refine ⟨k1.trans k2, t1.trans t2, b1.trans b2, s1.trans s2, List.IsPrefix.trans f1 f2, ?_⟩
  intro hc
  have hb := c1 hc
  have hd := c2 (by rw [hb]; exact hc)
  rw [hd, hb]

theorem FileLe.closed_mono {a b : RecFile} (h : FileLe a b) (hc : a.closed = true) : b.closed = true := by
  rw [h.2.2.2.2.2 hc]; exact hc

/-- position-wise `FileLe` of two lists of the same length -/
def PW : List RecFile → List RecFile → Prop
  | [], [] => True
  | a :: as, b :: bs => FileLe a b ∧ PW as bs
  | _, _ => False

theorem PW.refl : ∀ (l : List RecFile), PW l l
  | [] => trivial
  | a :: as => ⟨FileLe.refl a, PW.refl as⟩

theorem PW.trans : ∀ {l₁ l₂ l₃ : List RecFile}, PW l₁ l₂ → PW l₂ l₃ → PW l₁ l₃
  | [], [], [], _, _ => trivial
  | _ :: _, _ :: _, _ :: _, h₁, h₂ => ⟨FileLe.trans h₁.1 h₂.1, PW.trans h₁.2 h₂.2⟩
  | [], _ :: _, _, h₁, _ => h₁.elim
  | _ :: _, [], _, h₁, _ => h₁.elim
  | _, [], _ :: _, _, h₂ => h₂.elim
  | _, _ :: _, [], _, h₂ => h₂.elim

theorem PW.length_eq : ∀ {l₁ l₂ : List RecFile}, PW l₁ l₂ → l₁.length = l₂.length
  | [], [], _ => rfl
  | _ :: _, _ :: _, h => by simp only [List.length_cons, PW.length_eq h.2]
  | [], _ :: _, h => h.elim
  | _ :: _, [], h => h.elim

theorem PW.getElem : ∀ {l₁ l₂ : List RecFile}, PW l₁ l₂ →
    ∀ (i : Nat) (h₁ : i < l₁.length) (h₂ : i < l₂.length), FileLe l₁[i] l₂[i]
  | [], _, _, i, h₁, _ => absurd h₁ (Nat.not_lt_zero i)
  | _ :: _, [], h, _, _, _ => h.elim
  | _ :: _, _ :: _, h, 0, _, _ => h.1
  | _ :: _, _ :: _, h, i + 1, h₁, h₂ => by
    simp only [List.getElem_cons_succ]
    exact PW.getElem h.2 i (Nat.lt_of_succ_lt_succ h₁) (Nat.lt_of_succ_lt_succ h₂)

/-- splitting a position-wise relation along an append on the left -/
theorem PW.split_left : ∀ (a u : List RecFile) {l : List RecFile}, PW (a ++ u) l →
    ∃ la lu, l = la ++ lu ∧ PW a la ∧ PW u lu
  | [], u, l, h => ⟨[], l, rfl, trivial, h⟩
  | x :: a, u, [], h => h.elim
  | x :: a, u, y :: l, h => by
    obtain ⟨la, lu, hl, ha, hu⟩ := PW.split_left a u h.2
    exact ⟨y :: la, lu, by rw [hl]; rfl, ⟨h.1, ha⟩, hu⟩

theorem PW.updOpen (k : FileKind) (u : RecFile → RecFile) (hu : ∀ x, x.closed = false → FileLe x (u x)) :
    ∀ (fs : List RecFile), PW fs (Pipe.updOpen fs k u)
  | [] => trivial
  | x :: xs => by
    simp only [Pipe.updOpen]
    split
    · next h =>
      refine ⟨hu x ?_, PW.refl xs⟩
      simp only [Bool.and_eq_true, Bool.not_eq_true'] at h
      exact h.2
    · exact ⟨FileLe.refl x, PW.updOpen k u hu xs⟩

/-- `new` extends `old`: some files were started (consed at the head), and the old files are still
there, in the same order, each possibly with more frames / closed -/
def Ext (old new : List RecFile) : Prop := ∃ added upd, new = added ++ upd ∧ PW old upd

theorem Ext.refl (l : List RecFile) : Ext l l := ⟨[], l, rfl, PW.refl l⟩

theorem Ext.trans {l₁ l₂ l₃ : List RecFile} (h₁ : Ext l₁ l₂) (h₂ : Ext l₂ l₃) : Ext l₁ l₃ := by
  obtain ⟨a1, u1, e1, p1⟩ := h₁
  obtain ⟨a2, u2, e2, p2⟩ := h₂
  rw [e1] at p2
  obtain ⟨la, lu, hl, _, hu⟩ := PW.split_left a1 u1 p2
  refine ⟨a2 ++ la, lu, ?_, PW.trans p1 hu⟩
  rw [e2, hl, List.append_assoc]

theorem Ext.cons (x : RecFile) (l : List RecFile) : Ext l (x :: l) := ⟨[x], l, rfl, PW.refl l⟩

theorem Ext.of_PW {l₁ l₂ : List RecFile} (h : PW l₁ l₂) : Ext l₁ l₂ := ⟨[], l₂, rfl, h⟩

theorem Ext.length_le {l₁ l₂ : List RecFile} (h : Ext l₁ l₂) : l₁.length ≤ l₂.length := by
  obtain ⟨a, u, e, p⟩ := h
  rw [e, List.length_append, PW.length_eq p]
  exact Nat.le_add_left _ _

/-- the old files, counted from the oldest (= from the end of the newest-first list) -/
theorem Ext.reverse_getElem {l₁ l₂ : List RecFile} (h : Ext l₁ l₂) (i : Nat) (h₁ : i < l₁.length) :
    ∃ h₂ : i < l₂.reverse.length, FileLe (l₁.reverse[i]'(by simpa using h₁)) (l₂.reverse[i]) := by
  obtain ⟨a, u, e, p⟩ := h
  have hlen := PW.length_eq p
  subst e
  have hi : i < (a ++ u).reverse.length := by
    simp only [List.length_reverse, List.length_append]; omega
  refine ⟨hi, ?_⟩
  simp only [List.getElem_reverse, List.length_append]
  have hidx : (a ++ u)[a.length + u.length - 1 - i]'(by simp only [List.length_append]; omega)
      = u[u.length - 1 - i]'(by omega) := by
    rw [List.getElem_append_right (by omega)]
    congr 1; omega
  rw [hidx]
  have := PW.getElem p (l₁.length - 1 - i) (by omega) (by omega)
  simp only [hlen] at this ⊢
  exact this

/-! ## the three file operations as `Ext` steps -/

theorem startFile_ext (c : PipeCfg) (p : Pipe F) (k : FileKind) (t : Nat) :
    Ext p.files (Pipe.startFile c p k t).files := Ext.cons _ _

theorem writeFile_pw (p : Pipe F) (k : FileKind) (id : Nat) : PW p.files (Pipe.writeFile p k id).files := by
  refine PW.updOpen k (fun f => { f with frames := f.frames ++ [id] }) ?_ p.files
  intro x hx
  refine ⟨rfl, rfl, rfl, rfl, List.prefix_append _ _, ?_⟩
  intro hc; rw [hx] at hc; cases hc

theorem stopFile_pw (p : Pipe F) (k : FileKind) : PW p.files (Pipe.stopFile p k).files := by
  refine PW.updOpen k (fun f => { f with closed := true }) ?_ p.files
  intro x hx
  refine ⟨rfl, rfl, rfl, rfl, List.prefix_refl _, ?_⟩
  intro hc; rw [hx] at hc; cases hc

theorem writeFile_ext (p : Pipe F) (k : FileKind) (id : Nat) : Ext p.files (Pipe.writeFile p k id).files :=
  Ext.of_PW (writeFile_pw p k id)

theorem stopFile_ext (p : Pipe F) (k : FileKind) : Ext p.files (Pipe.stopFile p k).files :=
  Ext.of_PW (stopFile_pw p k)

/-- any observation list extends the file list -/
theorem applyObs_fold_ext (c : PipeCfg) (obs : List Obs) (p : Pipe F) :
    Ext p.files (obs.foldl (Pipe.applyObs c) p).files :=
  applyObs_fold_rel c (fun p q => Ext p.files q.files)
    (fun _ => Ext.refl _) (fun _ _ _ => Ext.trans)
    (startFile_ext c) writeFile_ext stopFile_ext
    (fun _ _ => Ext.refl _) (fun _ _ => Ext.refl _) obs p

/-! ## open motion files -/

/-- is some motion file still open? -/
def openMotion (files : List RecFile) : Bool := files.any (fun f => f.kind == .motion && !f.closed)

/-- number of motion files still open -/
def motionOpenCount (files : List RecFile) : Nat := files.countP (fun f => f.kind == .motion && !f.closed)

theorem openMotion_false_of_count_zero (fs : List RecFile) (h : motionOpenCount fs = 0) : openMotion fs = false := by
  simp only [motionOpenCount, List.countP_eq_zero] at h
  simp only [openMotion, List.any_eq_false]
  intro x hx
  simpa using h x hx

/-- closing the most recently started open motion file lowers the count of open motion files by one -/
theorem motionOpenCount_close (fs : List RecFile) :
    motionOpenCount (Pipe.updOpen fs .motion fun f => { f with closed := true }) = motionOpenCount fs - 1 := by
  induction fs with
  | nil => rfl
  | cons x xs ih =>
    simp only [Pipe.updOpen]
    split
    · next h =>
      simp only [motionOpenCount, List.countP_cons, h, if_true]
      have : ((({ x with closed := true } : RecFile).kind == FileKind.motion) &&
          !({ x with closed := true } : RecFile).closed) = false := by simp
      simp only [this]
      simp
    · next h =>
      simp only [motionOpenCount, List.countP_cons, h] at ih ⊢
      simpa using ih

/-! ## observation lists without `start` / `write` leave the stored frames alone -/

theorem applyObs_fold_quiet_frames (c : PipeCfg) (obs : List Obs) (hq : ∀ o ∈ obs, quiet o = true) (p : Pipe F) :
    (obs.foldl (Pipe.applyObs c) p).files.map (·.frames) = p.files.map (·.frames) :=
  applyObs_fold_rel_quiet c (fun p q => q.files.map (·.frames) = p.files.map (·.frames))
    (fun _ => rfl) (fun _ _ _ h₁ h₂ => h₂.trans h₁)
    (fun p k => updOpen_close_frames p.files k) (fun _ _ => rfl) obs hq p

theorem applyObs_fold_quiet_length (c : PipeCfg) (obs : List Obs) (hq : ∀ o ∈ obs, quiet o = true) (p : Pipe F) :
    (obs.foldl (Pipe.applyObs c) p).files.length = p.files.length := by
  have h := congrArg List.length (applyObs_fold_quiet_frames c obs hq p)
  simpa only [List.length_map] using h

theorem map_frames_length (l : List RecFile) :
    l.map (fun f => f.frames.length) = (l.map (·.frames)).map List.length := by
  induction l with
  | nil => rfl
  | cons x xs ih => simp only [List.map_cons, ih]

/-! ## `Pipe.item` case by case -/

theorem item_clear (c : PipeCfg) (p : Pipe F) :
    Pipe.item c p .clear =
      let r := PState.stopRecording p.proc true
      let p' := r.2.foldl (Pipe.applyObs c) { p with proc := r.1 }
      { p' with det := p'.det.reset, resets := p'.resets + 1 } := rfl

theorem item_bad (c : PipeCfg) (p : Pipe F) (bytes : List Nat) (y x : Nat)
    (hbad : (if c.lepton then Parse.parseLepton (fun i => bytes.toArray.getD i 0) c.det.resX c.det.resY c.det.edge
             else Parse.parseBoson (fun i => bytes.toArray.getD i 0) c.det.resX c.det.resY c.det.edge) = .bad y x) :
    Pipe.item c p (.frame bytes) =
      let r := PState.processBad c.proc p.proc (Pipe.faults c)
      let p' := r.2.foldl (Pipe.applyObs c) { p with proc := r.1 }
      { p' with badFrames := p'.badFrames + 1 } := by
  simp only [Pipe.item]
  rw [hbad]
  rfl

theorem item_ok (c : PipeCfg) (p : Pipe F) (bytes : List Nat) (pix : Frame) (tel : Parse.Telemetry)
    (hok : (if c.lepton then Parse.parseLepton (fun i => bytes.toArray.getD i 0) c.det.resX c.det.resY c.det.edge
            else Parse.parseBoson (fun i => bytes.toArray.getD i 0) c.det.resX c.det.resY c.det.edge) = .ok pix tel) :
    Pipe.item c p (.frame bytes) =
      let ffc := Det.affectedBy c.det ((tel.timeOnMs : Int) * 1000000) ((tel.lastFFCMs : Int) * 1000000)
      let d := Det.detect c.det p.det pix ffc
      let r := PState.processFrame c.proc p.proc d.2 (Pipe.faults c)
      r.2.foldl (Pipe.applyObs c)
        { p with det := d.1, accepted := { pix := pix, tel := tel } :: p.accepted, proc := r.1 } := by
  simp only [Pipe.item]
  rw [hok]
  rfl

/-! ## headers of the files started by an observation list -/

theorem PW.mem_right : ∀ {l₁ l₂ : List RecFile}, PW l₁ l₂ → ∀ g ∈ l₂, ∃ f ∈ l₁, FileLe f g
  | [], [], _, g, hg => by cases hg
  | [], _ :: _, h, _, _ => h.elim
  | _ :: _, [], h, _, _ => h.elim
  | a :: as, b :: bs, h, g, hg => by
    rcases List.mem_cons.mp hg with rfl | hg
    · exact ⟨a, List.mem_cons_self .., h.1⟩
    · obtain ⟨f, hf, hfg⟩ := PW.mem_right h.2 g hg
      exact ⟨f, List.mem_cons_of_mem _ hf, hfg⟩

/-- the header of a file started while the detector state is `d` and the throttle's stored threshold
is `tos`: background and seeded flag are the detector's; the threshold is 0 for test / continuous
files, the detector's for a motion file — or, only with the throttle, the threshold the throttle
stored at the upstream start -/
def Hdr (c : PipeCfg) (d : Det F) (tos : Nat) (f : RecFile) : Prop :=
  f.bg = d.background c.det ∧ f.bgSeeded = d.bgSeeded ∧
  (f.kind ≠ .motion → f.thresh = 0) ∧
  (f.kind = .motion → (f.thresh = d.tempThresh ∨ (c.throttle = true ∧ f.thresh = tos)))

theorem Hdr.of_le {c : PipeCfg} {d : Det F} {tos : Nat} {f g : RecFile} (h : Hdr c d tos f) (hfg : FileLe f g) :
    Hdr c d tos g := by
  obtain ⟨k, t, b, s, _, _⟩ := hfg
  obtain ⟨h1, h2, h4, h5⟩ := h
  refine ⟨b ▸ h1, s ▸ h2, ?_, ?_⟩
  · intro hk; rw [← t]; exact h4 (k ▸ hk)
  · intro hk; rw [← t]; exact h5 (k ▸ hk)

/-- across an observation list: the detector is untouched, the throttle's stored threshold is the old
one or the detector's, and every file started carries a header taken from that detector -/
def Started (c : PipeCfg) (p q : Pipe F) : Prop :=
  q.det = p.det ∧ (q.threshOfStart = p.threshOfStart ∨ (c.throttle = true ∧ q.threshOfStart = p.det.tempThresh)) ∧
  ∃ added upd, q.files = added ++ upd ∧ PW p.files upd ∧ ∀ f ∈ added, Hdr c p.det p.threshOfStart f

theorem Started.refl (c : PipeCfg) (p : Pipe F) : Started c p p :=
  ⟨rfl, Or.inl rfl, [], p.files, rfl, PW.refl _, fun _ h => by cases h⟩

theorem Started.trans {c : PipeCfg} {p q r : Pipe F} (h₁ : Started c p q) (h₂ : Started c q r) : Started c p r := by
  obtain ⟨d1, t1, a1, u1, e1, p1, hd1⟩ := h₁
  obtain ⟨d2, t2, a2, u2, e2, p2, hd2⟩ := h₂
  rw [e1] at p2
  obtain ⟨la, lu, hl, hla, hlu⟩ := PW.split_left a1 u1 p2
  refine ⟨d2.trans d1, ?_, a2 ++ la, lu, ?_, PW.trans p1 hlu, ?_⟩
  · rcases t2 with t2 | ⟨ht, t2⟩
    · rw [t2]; exact t1
    · exact Or.inr ⟨ht, by rw [t2, d1]⟩
  · rw [e2, hl, List.append_assoc]
  · intro f hf
    rcases List.mem_append.mp hf with hf | hf
    · obtain ⟨h1, h2, h4, h5⟩ := hd2 f hf
      rw [d1] at h1 h2 h5
      refine ⟨h1, h2, h4, ?_⟩
      intro hk
      rcases h5 hk with h | ⟨ht, h⟩
      · exact Or.inl h
      · rcases t1 with t1 | ⟨_, t1⟩
        · exact Or.inr ⟨ht, by rw [h, t1]⟩
        · exact Or.inl (by rw [h, t1])
    · obtain ⟨g, hg, hgf⟩ := PW.mem_right hla f hf
      exact (hd1 g hg).of_le hgf

theorem Started.of_same {c : PipeCfg} {p q : Pipe F} (hd : q.det = p.det) (ht : q.threshOfStart = p.threshOfStart)
    (hf : PW p.files q.files) : Started c p q :=
  ⟨hd, Or.inl ht, [], q.files, rfl, hf, fun _ h => by cases h⟩

/-- every file started by an observation list has its header from the detector state the list was applied to -/
theorem applyObs_fold_started (c : PipeCfg) (obs : List Obs) (p : Pipe F) :
    Started c p (obs.foldl (Pipe.applyObs c) p) := by
  refine applyObs_fold_rel' c (Started c) (Started.refl c) (fun _ _ _ => Started.trans)
    ?_ ?_ ?_ ?_ ?_ ?_ ?_ ?_ obs p
  · intro _ p
    refine ⟨rfl, Or.inl rfl, [_], p.files, rfl, PW.refl _, ?_⟩
    intro f hf
    rw [List.mem_singleton] at hf; subst hf
    exact ⟨rfl, rfl, fun h => absurd rfl h, fun _ => Or.inl rfl⟩
  · intro ht p
    refine ⟨rfl, Or.inl rfl, [_], p.files, rfl, PW.refl _, ?_⟩
    intro f hf
    rw [List.mem_singleton] at hf; subst hf
    exact ⟨rfl, rfl, fun h => absurd rfl h, fun _ => Or.inr ⟨ht, rfl⟩⟩
  · intro p
    refine ⟨rfl, Or.inl rfl, [_], p.files, rfl, PW.refl _, ?_⟩
    intro f hf
    rw [List.mem_singleton] at hf; subst hf
    exact ⟨rfl, rfl, fun _ => rfl, fun h => by cases h⟩
  · intro p
    refine ⟨rfl, Or.inl rfl, [_], p.files, rfl, PW.refl _, ?_⟩
    intro f hf
    rw [List.mem_singleton] at hf; subst hf
    exact ⟨rfl, rfl, fun _ => rfl, fun h => by cases h⟩
  · intro p k id
    exact Started.of_same rfl rfl (writeFile_pw p k id)
  · intro p k
    exact Started.of_same rfl rfl (stopFile_pw p k)
  · intro p t
    exact Started.of_same rfl rfl (PW.refl _)
  · intro ht p
    exact ⟨rfl, Or.inr ⟨ht, rfl⟩, [], p.files, rfl, PW.refl _, fun _ h => by cases h⟩

/-! ## a tiny executable configuration (for the `example`s in `Props.Pipeline`) -/

namespace Tiny

/-- integer stand-ins for the two float types -/
def F0 : FloatOps :=
  { ω := Nat, w0 := 0, lower := fun new w bg => decide (new < bg + w), bump := (· + 1),
    α := Nat, a0 := 0, add := fun _ acc px => acc + px, trunc := fun a => a }

/-- 2×2 Boson frames, fixed threshold 10, one-diff detection, 3-slot ring, no continuous recorder -/
def c0 : PipeCfg :=
  { det := { resX := 2, resY := 2, edge := 0, gap := 1, useOneDiff := true, deltaThresh := 5, countThresh := 1,
             tempThresh := 10, threshMin := 0, threshMax := 0, warmerOnly := false, dynamic := false,
             previewFrames := 0, ffcPeriod := 0 },
    proc := { K := 3, minF := 2, maxF := 10, trig := 1, constOn := false, testLast := 2 },
    fps := 9, lepton := false, windowOpen := true, diskOk := true, throttle := false,
    bucketFrames := 10, minLenFrames := 1 }

/-- the same with the throttle and a two-frame bucket -/
def c1 : PipeCfg := { c0 with throttle := true, bucketFrames := 2, minLenFrames := 1 }

def cold : Socket.Item := .frame [20, 0, 20, 0, 20, 0, 20, 0]
def hot : Socket.Item := .frame [90, 0, 90, 0, 90, 0, 90, 0]
/-- second pixel is zero: rejected by the parser -/
def badf : Socket.Item := .frame [20, 0, 0, 0, 20, 0, 20, 0]

/-- (per file: frames, closed, threshold), bad frames, resets, accepted, recording?, next frame id -/
def summary (p : Pipe F0) : List (List Nat × Bool × Nat) × Nat × Nat × Nat × Bool × Nat :=
  (p.files.map (fun f => (f.frames, f.closed, f.thresh)), p.badFrames, p.resets, p.accepted.length,
    p.proc.isRec, p.proc.n)

end Tiny

end TR.PipeLemmas
