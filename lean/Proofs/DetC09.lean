import TR.DetSpec
import Proofs.Ring
/-!
# Proofs.DetC09 — helper lemmas for C09 (FFC quiet period, independence of earlier frames)
-/
namespace TR.P09
open TR

variable {F : FloatOps}

/-! ## (a) quiet frames -/

theorem pixelsChanged_affected (c : DCfg) (d : Det F) (f : Frame) (ffc prevFFC : Bool) :
    (Det.pixelsChanged c d f ffc prevFFC).1.affected = d.affected := by
  unfold Det.pixelsChanged
  simp only
  split
  · rfl
  · split <;> rfl

theorem pixelsChanged_quiet (c : DCfg) (d : Det F) (f : Frame) (ffc prevFFC : Bool)
    (h : (ffc || prevFFC) = true) : (Det.pixelsChanged c d f ffc prevFFC).2 = false := by
  unfold Det.pixelsChanged
  simp only [h, if_true]
  split <;> rfl

theorem updateBackground_affected (c : DCfg) (d : Det F) (f : Frame) (p : Bool) :
    (Det.updateBackground c d f p).1.affected = d.affected := by
  unfold Det.updateBackground
  simp only
  split <;> rfl

theorem detect_affected (c : DCfg) (d : Det F) (f : Frame) (ffc : Bool) :
    (Det.detect c d f ffc).1.affected = ffc := by
  unfold Det.detect
  simp only
  rw [pixelsChanged_affected]
  split
  · split
    · simp only [updateBackground_affected]
    · simp only [updateBackground_affected]
  · rfl

theorem detect_quiet (c : DCfg) (d : Det F) (f : Frame) (ffc : Bool)
    (h : ffc = true ∨ d.affected = true) : (Det.detect c d f ffc).2 = false := by
  unfold Det.detect
  simp only
  apply pixelsChanged_quiet
  rcases h with h | h <;> simp [h]

theorem reset_affected (d : Det F) : d.reset.affected = d.affected := rfl


/-! ## Normal form of `detect` -/

/-- the part of `Detect` before `pixelsChanged`: FFC flag and (dynamic threshold) background update -/
def dpre (c : DCfg) (d : Det F) (f : Frame) (ffc : Bool) : Det F :=
  let prevFFC := d.affected
  let d := { d with affected := ffc }
  if c.dynamic && !ffc then
    let r := Det.updateBackground c d f prevFFC
    if r.2.2 && decide (r.1.backgroundFrames > c.previewFrames) then
      { r.1 with tempThresh := Det.clampThresh c (F.trunc r.2.1) }
    else r.1
  else d

theorem detect_eq (c : DCfg) (d : Det F) (f : Frame) (ffc : Bool) :
    Det.detect c d f ffc = Det.pixelsChanged c (dpre c d f ffc) f ffc d.affected := rfl

theorem ub_fields (c : DCfg) (d : Det F) (f : Frame) (p : Bool) :
    (Det.updateBackground c d f p).1.floored = d.floored ∧
    (Det.updateBackground c d f p).1.diffs = d.diffs ∧
    (Det.updateBackground c d f p).1.firstDiff = d.firstDiff ∧
    (Det.updateBackground c d f p).1.backgroundFrames = d.backgroundFrames + 1 ∧
    (Det.updateBackground c d f p).1.tempThresh = d.tempThresh := by
  unfold Det.updateBackground
  simp only
  split <;> exact ⟨rfl, rfl, rfl, rfl, rfl⟩

theorem dpre_skip (c : DCfg) (d : Det F) (f : Frame) (ffc : Bool) (h : (c.dynamic && !ffc) = false) :
    dpre c d f ffc = { d with affected := ffc } := by
  unfold dpre
  simp only [h, Bool.false_eq_true, if_false]

theorem dpre_dyn (c : DCfg) (d : Det F) (f : Frame) (ffc : Bool) (h : (c.dynamic && !ffc) = true) :
    dpre c d f ffc =
      if (Det.updateBackground c { d with affected := ffc } f d.affected).2.2 &&
          decide ((Det.updateBackground c { d with affected := ffc } f d.affected).1.backgroundFrames
            > c.previewFrames) then
        { (Det.updateBackground c { d with affected := ffc } f d.affected).1 with
          tempThresh := Det.clampThresh c
            (F.trunc (Det.updateBackground c { d with affected := ffc } f d.affected).2.1) }
      else (Det.updateBackground c { d with affected := ffc } f d.affected).1 := by
  unfold dpre
  simp only [h, if_true]

theorem dpre_fields (c : DCfg) (d : Det F) (f : Frame) (ffc : Bool) :
    (dpre c d f ffc).floored = d.floored ∧ (dpre c d f ffc).diffs = d.diffs ∧
    (dpre c d f ffc).firstDiff = d.firstDiff ∧
    (dpre c d f ffc).backgroundFrames = (if c.dynamic && !ffc then d.backgroundFrames + 1 else d.backgroundFrames) := by
  cases h : (c.dynamic && !ffc)
  · rw [dpre_skip c d f ffc h]; simp
  · rw [dpre_dyn c d f ffc h]
    have hu := ub_fields c { d with affected := ffc } f d.affected
    split <;> simp [hu]

/-- the diff frame written by `pixelsChanged` -/
def diffOf (c : DCfg) (t : Nat) (f cmp stale : Frame) : Frame :=
  fun y x => if c.inI y x then pixDiff c.warmerOnly t (f y x) (cmp y x) else stale y x

def newDiff (c : DCfg) (d : Det F) (f : Frame) (ffc : Bool) : Frame :=
  diffOf c (dpre c d f ffc).tempThresh f (d.floored.write f).oldestFrame d.diffs.current

theorem pc_eq (c : DCfg) (d : Det F) (f : Frame) (ffc p : Bool) :
    Det.pixelsChanged c d f ffc p =
      ({ d with
          floored := (if d.firstDiff && (ffc || p) then (d.floored.write f).setAsOldest
                      else d.floored.write f).move,
          diffs := (d.diffs.write (diffOf c d.tempThresh f (d.floored.write f).oldestFrame d.diffs.current)).move,
          firstDiff := !(d.firstDiff && (ffc || p)) },
       d.firstDiff && !(ffc || p) &&
        decide (Det.countChanged c (diffOf c d.tempThresh f (d.floored.write f).oldestFrame d.diffs.current)
          (if c.useOneDiff then none else
            some ((d.diffs.write (diffOf c d.tempThresh f (d.floored.write f).oldestFrame d.diffs.current)).move).current)
          ≥ c.countThresh)) := by
  obtain ⟨fl, df, fd, t, bg, bs, w, bf, aff⟩ := d
  unfold diffOf
  cases fd <;> cases hq : (ffc || p) <;> simp [Det.pixelsChanged, hq]


theorem det_floored (c : DCfg) (d : Det F) (f : Frame) (ffc : Bool) :
    (Det.detect c d f ffc).1.floored =
      (if d.firstDiff && (ffc || d.affected) then (d.floored.write f).setAsOldest
       else d.floored.write f).move := by
  obtain ⟨h1, _, h3, _⟩ := dpre_fields c d f ffc
  rw [detect_eq, pc_eq]; simp only [h1, h3]

theorem det_diffs (c : DCfg) (d : Det F) (f : Frame) (ffc : Bool) :
    (Det.detect c d f ffc).1.diffs = (d.diffs.write (newDiff c d f ffc)).move := by
  obtain ⟨h1, h2, _, _⟩ := dpre_fields c d f ffc
  rw [detect_eq, pc_eq]; simp only [h1, h2, newDiff]

theorem det_firstDiff (c : DCfg) (d : Det F) (f : Frame) (ffc : Bool) :
    (Det.detect c d f ffc).1.firstDiff = !(d.firstDiff && (ffc || d.affected)) := by
  obtain ⟨_, _, h3, _⟩ := dpre_fields c d f ffc
  rw [detect_eq, pc_eq]; simp only [h3]

theorem det_rest (c : DCfg) (d : Det F) (f : Frame) (ffc : Bool) :
    (Det.detect c d f ffc).1.tempThresh = (dpre c d f ffc).tempThresh ∧
    (Det.detect c d f ffc).1.bg = (dpre c d f ffc).bg ∧
    (Det.detect c d f ffc).1.weight = (dpre c d f ffc).weight ∧
    (Det.detect c d f ffc).1.backgroundFrames = (dpre c d f ffc).backgroundFrames := by
  rw [detect_eq, pc_eq]; exact ⟨rfl, rfl, rfl, rfl⟩

theorem det_out (c : DCfg) (d : Det F) (f : Frame) (ffc : Bool) :
    (Det.detect c d f ffc).2 =
      (d.firstDiff && !(ffc || d.affected) &&
        decide (Det.countChanged c (newDiff c d f ffc)
          (if c.useOneDiff then none else some ((d.diffs.write (newDiff c d f ffc)).move).current)
          ≥ c.countThresh)) := by
  obtain ⟨h1, h2, h3, _⟩ := dpre_fields c d f ffc
  rw [detect_eq, pc_eq]; simp only [h1, h2, h3, newDiff]; rfl

/-! ## The two-slot diff ring -/

theorem prev_read {α : Type} (r : Ring α) (v : α) (h : r.size = 2) :
    ((r.write v).move).current = r.slots ((r.cur + 1) % 2) := by
  simp only [Ring.current, Ring.move, Ring.write, Ring.next, h]
  have : (r.cur + 1) % 2 ≠ r.cur := by omega
  simp only [this, if_false]

theorem prev_after {α : Type} (r : Ring α) (v : α) (h : r.size = 2) (hc : r.cur < 2) :
    ((r.write v).move).slots (((r.write v).move.cur + 1) % 2) = v ∧
    (r.write v).move.cur = (r.cur + 1) % 2 ∧ (r.write v).move.size = 2 := by
  simp only [Ring.move, Ring.write, Ring.next, h]
  have : ((r.cur + 1) % 2 + 1) % 2 = r.cur := by omega
  simp only [this, if_true, and_self]

/-! ## Interior -/

theorem mem_interior_inI (c : DCfg) (p : Nat × Nat) (h : p ∈ c.interior) : c.inI p.1 p.2 = true := by
  unfold DCfg.interior DCfg.rows DCfg.cols at h
  simp only [List.mem_flatMap, List.mem_map, List.mem_range'_1] at h
  obtain ⟨y, ⟨hy1, hy2⟩, x, ⟨hx1, hx2⟩, rfl⟩ := h
  unfold DCfg.inI
  simp only [Bool.and_eq_true, decide_eq_true_eq]
  omega

/-- equality of two frames on the interior -/
def EqI (c : DCfg) (f g : Frame) : Prop := ∀ p ∈ c.interior, f p.1 p.2 = g p.1 p.2

theorem pixDiff_self (w : Bool) (t a : Nat) : pixDiff w t a a = 0 := by
  unfold pixDiff; simp

theorem diffOf_eqI (c : DCfg) (tA tB : Nat) (f cmp sA sB : Frame)
    (ht : ∀ p ∈ c.interior, tA = tB) : EqI c (diffOf c tA f cmp sA) (diffOf c tB f cmp sB) := by
  intro p hp
  simp only [diffOf, mem_interior_inI c p hp, if_true, ht p hp]

theorem diffOf_self (c : DCfg) (t : Nat) (f s : Frame) :
    ∀ p ∈ c.interior, diffOf c t f f s p.1 p.2 = 0 := by
  intro p hp
  simp only [diffOf, mem_interior_inI c p hp, if_true, pixDiff_self]

theorem countChanged_congr (c : DCfg) (dA dB pA pB : Frame) (o : Bool) (h1 : EqI c dA dB) (h2 : EqI c pA pB) :
    Det.countChanged c dA (if o then none else some pA) = Det.countChanged c dB (if o then none else some pB) := by
  unfold Det.countChanged
  congr 1
  apply List.filter_congr
  intro p hp
  rw [h1 p hp]
  cases o
  · simp only [Bool.false_eq_true, if_false, h2 p hp]
  · simp only [if_true]

theorem countChanged_zero (c : DCfg) (d : Frame) (pv : Option Frame) (h : ∀ p ∈ c.interior, d p.1 p.2 = 0) :
    Det.countChanged c d pv = 0 := by
  unfold Det.countChanged
  rw [List.length_eq_zero_iff, List.filter_eq_nil_iff]
  intro p hp
  simp [h p hp]


/-! ## Shape: the fields of two runs that only depend on the constructors and FFC flags of the events -/

structure Shape (dA dB : Det F) (gA gB : Ghost Frame) : Prop where
  fd : dA.firstDiff = dB.firstDiff
  aff : dA.affected = dB.affected
  bf : dA.backgroundFrames = dB.backgroundFrames
  dcur : dA.diffs.cur = dB.diffs.cur
  dlt : dA.diffs.cur < 2
  dsA : dA.diffs.size = 2
  dsB : dB.diffs.size = 2
  fs : dA.floored.size = dB.floored.size
  rA : RInv dA.floored gA
  rB : RInv dB.floored gB
  gn : gA.n = gB.n
  gm : gA.mark = gB.mark

/-- ghost of the floored ring after `Detect` -/
def gstep (d : Det F) (g : Ghost Frame) (f : Frame) (ffc : Bool) : Ghost Frame :=
  if d.firstDiff && (ffc || d.affected) then
    ((g.write f).markNow).move ((d.floored.write f).slots ((d.floored.write f).next (d.floored.write f).cur))
  else (g.write f).move ((d.floored.write f).slots ((d.floored.write f).next (d.floored.write f).cur))

theorem gstep_inv (c : DCfg) (d : Det F) (g : Ghost Frame) (f : Frame) (ffc : Bool) (h : RInv d.floored g) :
    RInv (Det.detect c d f ffc).1.floored (gstep d g f ffc) := by
  rw [det_floored]; unfold gstep
  split
  · exact inv_move _ _ (inv_mark _ _ (inv_write _ _ f h))
  · exact inv_move _ _ (inv_write _ _ f h)

theorem gstep_n (d : Det F) (g : Ghost Frame) (f : Frame) (ffc : Bool) : (gstep d g f ffc).n = g.n + 1 := by
  unfold gstep; split <;> rfl

theorem gstep_mark (d : Det F) (g : Ghost Frame) (f : Frame) (ffc : Bool) :
    (gstep d g f ffc).mark = if d.firstDiff && (ffc || d.affected) then g.n else g.mark := by
  unfold gstep; split <;> rfl

theorem gstep_vals (d : Det F) (g : Ghost Frame) (f : Frame) (ffc : Bool) (k : Nat) (hk : k ≤ g.n) :
    (gstep d g f ffc).vals k = if k = g.n then f else g.vals k := by
  have : k ≠ g.n + 1 := by omega
  unfold gstep; split <;> simp [Ghost.move, Ghost.write, Ghost.markNow, this]

theorem det_floored_size (c : DCfg) (d : Det F) (f : Frame) (ffc : Bool) :
    (Det.detect c d f ffc).1.floored.size = d.floored.size := by
  rw [det_floored]; split <;> rfl

theorem det_bf (c : DCfg) (d : Det F) (f : Frame) (ffc : Bool) :
    (Det.detect c d f ffc).1.backgroundFrames =
      if c.dynamic && !ffc then d.backgroundFrames + 1 else d.backgroundFrames := by
  rw [(det_rest c d f ffc).2.2.2, (dpre_fields c d f ffc).2.2.2]

theorem shape_step (c : DCfg) (dA dB : Det F) (gA gB : Ghost Frame) (f g : Frame) (ffc : Bool)
    (sh : Shape dA dB gA gB) :
    Shape (Det.detect c dA f ffc).1 (Det.detect c dB g ffc).1 (gstep dA gA f ffc) (gstep dB gB g ffc) := by
  have pA := prev_after dA.diffs (newDiff c dA f ffc) sh.dsA sh.dlt
  have pB := prev_after dB.diffs (newDiff c dB g ffc) sh.dsB (sh.dcur ▸ sh.dlt)
  refine ⟨?_, ?_, ?_, ?_, ?_, ?_, ?_, ?_, gstep_inv c dA gA f ffc sh.rA, gstep_inv c dB gB g ffc sh.rB, ?_, ?_⟩
  · rw [det_firstDiff, det_firstDiff, sh.fd, sh.aff]
  · rw [detect_affected, detect_affected]
  · rw [det_bf, det_bf, sh.bf]
  · rw [det_diffs, det_diffs, pA.2.1, pB.2.1, sh.dcur]
  · rw [det_diffs, pA.2.1]; omega
  · rw [det_diffs]; exact pA.2.2
  · rw [det_diffs]; exact pB.2.2
  · rw [det_floored_size, det_floored_size, sh.fs]
  · rw [gstep_n, gstep_n, sh.gn]
  · rw [gstep_mark, gstep_mark, sh.fd, sh.aff, sh.gn, sh.gm]

theorem shape_reset (dA dB : Det F) (gA gB : Ghost Frame) (sh : Shape dA dB gA gB) :
    Shape dA.reset dB.reset (Ghost.reset (dA.floored.slots 0)) (Ghost.reset (dB.floored.slots 0)) :=
  ⟨sh.fd, sh.aff, rfl, rfl, by simp [Det.reset, Ring.reset], sh.dsA, sh.dsB, sh.fs,
    inv_reset _ _ sh.rA, inv_reset _ _ sh.rB, rfl, rfl⟩

theorem shape_init (F : FloatOps) (c : DCfg) :
    Shape (Det.init F c) (Det.init F c) { n := 0, mark := 0, vals := fun _ => Det.zeroFrame }
      { n := 0, mark := 0, vals := fun _ => Det.zeroFrame } :=
  ⟨rfl, rfl, rfl, rfl, by simp [Det.init, Ring.new], rfl, rfl, rfl,
    inv_new _ _ (Nat.succ_pos _), inv_new _ _ (Nat.succ_pos _), rfl, rfl⟩


/-! ## Background / threshold (dynamic mode) -/

/-- the content-dependent fields read by the background update agree on the interior -/
structure DynOK (c : DCfg) (dA dB : Det F) : Prop where
  bg : EqI c dA.bg dB.bg
  w : ∀ p ∈ c.interior, dA.weight p.1 p.2 = dB.weight p.1 p.2
  t : ∀ p ∈ c.interior, dA.tempThresh = dB.tempThresh

/-- holds of every run without `Reset`: the threshold was never recomputed while
`backgroundFrames ≤ previewFrames`, and the weights are untouched while `backgroundFrames = 0` -/
structure U (c : DCfg) (d : Det F) : Prop where
  t : d.backgroundFrames ≤ c.previewFrames → d.tempThresh = c.tempThresh
  w : d.backgroundFrames = 0 → ∀ y x, d.weight y x = F.w0

theorem foldl_congr_mem {β γ : Type} (l : List β) (g1 g2 : γ → β → γ) (a : γ)
    (h : ∀ x ∈ l, ∀ a, g1 a x = g2 a x) : l.foldl g1 a = l.foldl g2 a := by
  induction l generalizing a with
  | nil => rfl
  | cons x xs ih =>
    simp only [List.foldl_cons]
    rw [h x (List.mem_cons_self ..)]
    exact ih _ (fun y hy => h y (List.mem_cons_of_mem _ hy))

theorem any_congr_mem {β : Type} (l : List β) (g1 g2 : β → Bool) (h : ∀ x ∈ l, g1 x = g2 x) :
    l.any g1 = l.any g2 := by
  induction l with
  | nil => rfl
  | cons x xs ih =>
    simp only [List.any_cons]
    rw [h x (List.mem_cons_self ..), ih (fun y hy => h y (List.mem_cons_of_mem _ hy))]

theorem meanOf_congr (c : DCfg) (bA bB : Frame) (h : EqI c bA bB) :
    Det.meanOf F c bA = Det.meanOf F c bB := by
  unfold Det.meanOf
  apply foldl_congr_mem
  intro p hp a
  rw [h p hp]

theorem ub_rel (c : DCfg) (dA dB : Det F) (f : Frame) (p : Bool)
    (hbf : dA.backgroundFrames = dB.backgroundFrames) (hbg : EqI c dA.bg dB.bg)
    (hw : ∀ q ∈ c.interior, dA.weight q.1 q.2 = dB.weight q.1 q.2) :
    EqI c (Det.updateBackground c dA f p).1.bg (Det.updateBackground c dB f p).1.bg ∧
    (∀ q ∈ c.interior, (Det.updateBackground c dA f p).1.weight q.1 q.2 =
      (Det.updateBackground c dB f p).1.weight q.1 q.2) ∧
    (Det.updateBackground c dA f p).2.1 = (Det.updateBackground c dB f p).2.1 ∧
    (Det.updateBackground c dA f p).2.2 = (Det.updateBackground c dB f p).2.2 := by
  unfold Det.updateBackground
  simp only [hbf]
  split
  · have e : EqI c (fun y x => if c.inI y x = true then f y x else dA.bg y x)
        (fun y x => if c.inI y x = true then f y x else dB.bg y x) := by
      intro q hq; simp only [mem_interior_inI c q hq, if_true]
    exact ⟨e, hw, meanOf_congr c _ _ e, rfl⟩
  · have e : EqI c
        (fun y x => if (c.inI y x && (p || F.lower (f y x) (dA.weight y x) (dA.bg y x))) = true then f y x
          else dA.bg y x)
        (fun y x => if (c.inI y x && (p || F.lower (f y x) (dB.weight y x) (dB.bg y x))) = true then f y x
          else dB.bg y x) := by
      intro q hq; simp only [mem_interior_inI c q hq, hbg q hq, hw q hq]
    refine ⟨e, ?_, meanOf_congr c _ _ e, ?_⟩
    · intro q hq; simp only [mem_interior_inI c q hq, hbg q hq, hw q hq]
    · apply any_congr_mem
      intro q hq; simp only [hbg q hq, hw q hq]

theorem ub_seed (c : DCfg) (dA dB : Det F) (f : Frame)
    (hbf : dA.backgroundFrames = dB.backgroundFrames)
    (hwA : dA.backgroundFrames = 0 → ∀ y x, dA.weight y x = F.w0)
    (hwB : dB.backgroundFrames = 0 → ∀ y x, dB.weight y x = F.w0) :
    EqI c (Det.updateBackground c dA f true).1.bg (Det.updateBackground c dB f true).1.bg ∧
    (∀ q ∈ c.interior, (Det.updateBackground c dA f true).1.weight q.1 q.2 =
      (Det.updateBackground c dB f true).1.weight q.1 q.2) ∧
    (Det.updateBackground c dA f true).2.1 = (Det.updateBackground c dB f true).2.1 ∧
    (∀ q ∈ c.interior, (Det.updateBackground c dA f true).2.2 = true ∧
      (Det.updateBackground c dB f true).2.2 = true) := by
  unfold Det.updateBackground
  simp only [hbf] at hwA ⊢
  split
  · next h1 =>
    have e : EqI c (fun y x => if c.inI y x = true then f y x else dA.bg y x)
        (fun y x => if c.inI y x = true then f y x else dB.bg y x) := by
      intro q hq; simp only [mem_interior_inI c q hq, if_true]
    refine ⟨e, ?_, meanOf_congr c _ _ e, fun _ _ => ⟨rfl, rfl⟩⟩
    intro q _
    rw [hwA (by omega), hwB (by omega)]
  · have e : EqI c
        (fun y x => if (c.inI y x && (true || F.lower (f y x) (dA.weight y x) (dA.bg y x))) = true then f y x
          else dA.bg y x)
        (fun y x => if (c.inI y x && (true || F.lower (f y x) (dB.weight y x) (dB.bg y x))) = true then f y x
          else dB.bg y x) := by
      intro q hq; simp only [mem_interior_inI c q hq, Bool.true_or, Bool.and_self, if_true]
    refine ⟨e, ?_, meanOf_congr c _ _ e, ?_⟩
    · intro q hq; simp only [mem_interior_inI c q hq, Bool.true_or, if_true]
    · intro q hq
      simp only [Bool.true_or, List.any_eq_true]
      exact ⟨⟨q, hq, trivial⟩, ⟨q, hq, trivial⟩⟩


theorem dpre_dyn_fields (c : DCfg) (d : Det F) (f : Frame) (ffc : Bool) (h : (c.dynamic && !ffc) = true) :
    (dpre c d f ffc).bg = (Det.updateBackground c { d with affected := ffc } f d.affected).1.bg ∧
    (dpre c d f ffc).weight = (Det.updateBackground c { d with affected := ffc } f d.affected).1.weight ∧
    (dpre c d f ffc).tempThresh =
      if (Det.updateBackground c { d with affected := ffc } f d.affected).2.2 &&
          decide (d.backgroundFrames + 1 > c.previewFrames) then
        Det.clampThresh c (F.trunc (Det.updateBackground c { d with affected := ffc } f d.affected).2.1)
      else d.tempThresh := by
  have hu := ub_fields c { d with affected := ffc } f d.affected
  rw [dpre_dyn c d f ffc h]
  simp only [hu.2.2.2.1]
  split
  · exact ⟨rfl, rfl, rfl⟩
  · exact ⟨rfl, rfl, hu.2.2.2.2⟩

/-- a common frame keeps `DynOK` -/
theorem dyn_keep (c : DCfg) (dA dB : Det F) (f : Frame) (ffc : Bool)
    (hbf : dA.backgroundFrames = dB.backgroundFrames) (haff : dA.affected = dB.affected)
    (hd : DynOK c dA dB) : DynOK c (dpre c dA f ffc) (dpre c dB f ffc) := by
  cases h : (c.dynamic && !ffc)
  · rw [dpre_skip c dA f ffc h, dpre_skip c dB f ffc h]
    exact ⟨hd.bg, hd.w, hd.t⟩
  · obtain ⟨a1, a2, a3⟩ := dpre_dyn_fields c dA f ffc h
    obtain ⟨b1, b2, b3⟩ := dpre_dyn_fields c dB f ffc h
    obtain ⟨e1, e2, e3, e4⟩ := ub_rel c { dA with affected := ffc } { dB with affected := ffc } f dA.affected
      hbf hd.bg hd.w
    rw [← haff] at b1 b2 b3
    refine ⟨by rw [a1, b1]; exact e1, by rw [a2, b2]; exact e2, ?_⟩
    intro q hq
    rw [a3, b3, e3, e4, hbf]
    split
    · rfl
    · exact hd.t q hq

/-- the first unaffected frame after an FFC period re-seeds the background (no `Reset` so far) -/
theorem dyn_seed (c : DCfg) (dA dB : Det F) (f : Frame) (hdyn : c.dynamic = true)
    (hbf : dA.backgroundFrames = dB.backgroundFrames) (haA : dA.affected = true) (haB : dB.affected = true)
    (uA : U c dA) (uB : U c dB) : DynOK c (dpre c dA f false) (dpre c dB f false) := by
  have h : (c.dynamic && !false) = true := by simp [hdyn]
  obtain ⟨a1, a2, a3⟩ := dpre_dyn_fields c dA f false h
  obtain ⟨b1, b2, b3⟩ := dpre_dyn_fields c dB f false h
  rw [haA] at a1 a2 a3
  rw [haB] at b1 b2 b3
  obtain ⟨e1, e2, e3, e4⟩ := ub_seed c { dA with affected := false } { dB with affected := false } f
    hbf uA.w uB.w
  refine ⟨by rw [a1, b1]; exact e1, by rw [a2, b2]; exact e2, ?_⟩
  intro q hq
  rw [a3, b3, e3, (e4 q hq).1, (e4 q hq).2, hbf]
  by_cases hp : dB.backgroundFrames + 1 > c.previewFrames
  · simp only [hp, decide_true, Bool.and_self, if_true]
  · simp only [hp, decide_false, Bool.and_false, Bool.false_eq_true, if_false]
    rw [uA.t (by omega), uB.t (by omega)]

/-- `U` is kept by every frame -/
theorem u_step (c : DCfg) (d : Det F) (f : Frame) (ffc : Bool) (u : U c d) : U c (dpre c d f ffc) := by
  cases h : (c.dynamic && !ffc)
  · rw [dpre_skip c d f ffc h]; exact ⟨u.t, u.w⟩
  · obtain ⟨_, _, a3⟩ := dpre_dyn_fields c d f ffc h
    have hb := (dpre_fields c d f ffc).2.2.2
    simp only [h, if_true] at hb
    refine ⟨?_, ?_⟩
    · intro hle
      rw [hb] at hle
      have : ¬ d.backgroundFrames + 1 > c.previewFrames := by omega
      rw [a3]
      simp only [this, decide_false, Bool.and_false, Bool.false_eq_true, if_false]
      exact u.t (by omega)
    · intro h0; rw [hb] at h0; omega

theorem u_init (F : FloatOps) (c : DCfg) : U c (Det.init F c) := ⟨fun _ => rfl, fun _ _ _ => rfl⟩

/-- transfer along `pixelsChanged`, which touches none of these fields -/
theorem dyn_det (c : DCfg) (dA dB : Det F) (f g : Frame) (ffc : Bool)
    (h : DynOK c (dpre c dA f ffc) (dpre c dB g ffc)) :
    DynOK c (Det.detect c dA f ffc).1 (Det.detect c dB g ffc).1 := by
  obtain ⟨a1, a2, a3, _⟩ := det_rest c dA f ffc
  obtain ⟨b1, b2, b3, _⟩ := det_rest c dB g ffc
  exact ⟨by rw [a2, b2]; exact h.bg, by rw [a3, b3]; exact h.w, by rw [a1, b1]; exact h.t⟩

theorem u_det (c : DCfg) (d : Det F) (f : Frame) (ffc : Bool) (u : U c d) : U c (Det.detect c d f ffc).1 := by
  obtain ⟨a1, _, a3, a4⟩ := det_rest c d f ffc
  have h := u_step c d f ffc u
  exact ⟨by rw [a1, a4]; exact h.t, by rw [a3, a4]; exact h.w⟩

/-- fixed threshold: `DynOK` is kept even by different frames -/
theorem dyn_fixed (c : DCfg) (hdyn : c.dynamic = false) (dA dB : Det F) (f g : Frame) (ffc : Bool)
    (hd : DynOK c dA dB) : DynOK c (Det.detect c dA f ffc).1 (Det.detect c dB g ffc).1 := by
  apply dyn_det
  have h : (c.dynamic && !ffc) = false := by simp [hdyn]
  rw [dpre_skip c dA f ffc h, dpre_skip c dB g ffc h]
  exact ⟨hd.bg, hd.w, hd.t⟩

theorem dyn_reset (c : DCfg) (dA dB : Det F) (hd : DynOK c dA dB) : DynOK c dA.reset dB.reset :=
  ⟨hd.bg, hd.w, hd.t⟩

theorem dyn_refl (c : DCfg) (d : Det F) : DynOK c d d := ⟨fun _ _ => rfl, fun _ _ => rfl, fun _ _ => rfl⟩


/-! ## The relational invariant of two runs over a common suffix -/

/-- the buffered floored frames `Oldest()` can still return are the same in both runs -/
def ValsAgree (gA gB : Ghost Frame) : Prop := ∀ k, gA.mark ≤ k → k < gA.n → gA.vals k = gB.vals k

/-- the previous-diff slot agrees on the interior -/
def PrevOK (c : DCfg) (dA dB : Det F) : Prop :=
  EqI c (dA.diffs.slots ((dA.diffs.cur + 1) % 2)) (dB.diffs.slots ((dB.diffs.cur + 1) % 2))

structure Rel (c : DCfg) (dA dB : Det F) (gA gB : Ghost Frame) : Prop where
  sh : Shape dA dB gA gB
  fl : ValsAgree gA gB ∨ (dA.firstDiff = true ∧ dA.affected = true)
  dy : DynOK c dA dB ∨ (c.dynamic = true ∧ dA.affected = true ∧ U c dA ∧ U c dB)
  pv : PrevOK c dA dB ∨ dA.firstDiff = false ∨ gA.mark = gA.n ∨ dA.affected = true

theorem cmp_eq (dA dB : Det F) (gA gB : Ghost Frame) (sh : Shape dA dB gA gB) (hv : ValsAgree gA gB)
    (f : Frame) : (dA.floored.write f).oldestFrame = (dB.floored.write f).oldestFrame := by
  rw [oldestFrame_eq _ _ (inv_write _ _ f sh.rA), oldestFrame_eq _ _ (inv_write _ _ f sh.rB)]
  simp only [Ghost.write, Ghost.lo, Ring.write]
  rw [← sh.fs, ← sh.gn, ← sh.gm]
  have hm := sh.rA.2.2.2.1
  have hs := sh.rA.1
  by_cases h : max gA.mark (gA.n + 1 - dA.floored.size) = gA.n
  · simp only [h, if_true]
  · simp only [h, if_false]; exact hv _ (by omega) (by omega)

theorem cmp_self (r : Ring Frame) (g : Ghost Frame) (f : Frame) (h : RInv r g) (hm : g.mark = g.n) :
    (r.write f).oldestFrame = f := by
  rw [oldestFrame_eq _ _ (inv_write _ _ f h)]
  simp only [Ghost.write, Ghost.lo, Ring.write]
  have hs := h.1
  have : max g.mark (g.n + 1 - r.size) = g.n := by omega
  simp only [this, if_true]

theorem vals_step (dA dB : Det F) (gA gB : Ghost Frame) (sh : Shape dA dB gA gB) (f : Frame) (ffc : Bool)
    (h : ValsAgree gA gB ∨ (dA.firstDiff && (ffc || dA.affected)) = true) :
    ValsAgree (gstep dA gA f ffc) (gstep dB gB f ffc) := by
  intro k hk1 hk2
  rw [gstep_n] at hk2
  rw [gstep_mark] at hk1
  rw [gstep_vals _ _ _ _ _ (by omega), gstep_vals _ _ _ _ _ (by rw [← sh.gn]; omega), ← sh.gn]
  by_cases hk : k = gA.n
  · simp only [hk, if_true]
  · simp only [hk, if_false]
    rcases h with hv | hm
    · split at hk1
      · omega
      · exact hv k hk1 (by omega)
    · rw [if_pos hm] at hk1; omega

theorem dyn_part (c : DCfg) (dA dB : Det F) (gA gB : Ghost Frame) (sh : Shape dA dB gA gB) (f : Frame)
    (ffc : Bool)
    (dy : DynOK c dA dB ∨ (c.dynamic = true ∧ (ffc = true ∨ dA.affected = true) ∧ U c dA ∧ U c dB))
    (hf : ffc = false) : DynOK c (dpre c dA f ffc) (dpre c dB f ffc) := by
  rcases dy with hd | ⟨hdyn, hq, uA, uB⟩
  · exact dyn_keep c dA dB f ffc sh.bf sh.aff hd
  · subst hf
    rcases hq with hq | hq
    · exact absurd hq (by simp)
    · exact dyn_seed c dA dB f hdyn sh.bf hq (sh.aff ▸ hq) uA uB

theorem newDiff_eqI (c : DCfg) (dA dB : Det F) (gA gB : Ghost Frame) (sh : Shape dA dB gA gB) (f : Frame)
    (ffc : Bool) (hv : ValsAgree gA gB) (hd : DynOK c (dpre c dA f ffc) (dpre c dB f ffc)) :
    EqI c (newDiff c dA f ffc) (newDiff c dB f ffc) := by
  unfold newDiff
  rw [cmp_eq dA dB gA gB sh hv f]
  exact diffOf_eqI c _ _ f _ _ _ hd.t

theorem prevOK_step (c : DCfg) (dA dB : Det F) (gA gB : Ghost Frame) (sh : Shape dA dB gA gB) (f : Frame)
    (ffc : Bool) (h : EqI c (newDiff c dA f ffc) (newDiff c dB f ffc)) :
    PrevOK c (Det.detect c dA f ffc).1 (Det.detect c dB f ffc).1 := by
  unfold PrevOK
  rw [det_diffs, det_diffs, (prev_after dA.diffs _ sh.dsA sh.dlt).1,
    (prev_after dB.diffs _ sh.dsB (sh.dcur ▸ sh.dlt)).1]
  exact h

theorem rel_step (c : DCfg) (dA dB : Det F) (gA gB : Ghost Frame) (f : Frame)
    (ffc : Bool) (sh : Shape dA dB gA gB)
    (fl : ffc = true ∨ ValsAgree gA gB ∨ (dA.firstDiff = true ∧ dA.affected = true))
    (dy : DynOK c dA dB ∨ (c.dynamic = true ∧ (ffc = true ∨ dA.affected = true) ∧ U c dA ∧ U c dB))
    (pv : ffc = true ∨ PrevOK c dA dB ∨ dA.firstDiff = false ∨ gA.mark = gA.n ∨ dA.affected = true) :
    Rel c (Det.detect c dA f ffc).1 (Det.detect c dB f ffc).1 (gstep dA gA f ffc) (gstep dB gB f ffc) ∧
    (Det.detect c dA f ffc).2 = (Det.detect c dB f ffc).2 := by
  refine ⟨⟨shape_step c dA dB gA gB f f ffc sh, ?_, ?_, ?_⟩, ?_⟩
  · -- floored
    by_cases hm : (dA.firstDiff && (ffc || dA.affected)) = true
    · exact Or.inl (vals_step dA dB gA gB sh f ffc (Or.inr hm))
    · rcases fl with hffc | hv | ⟨h1, h2⟩
      · right
        rw [det_firstDiff, detect_affected]
        simp only [hffc, Bool.true_or, Bool.and_true] at hm ⊢
        simp [hm]
      · exact Or.inl (vals_step dA dB gA gB sh f ffc (Or.inl hv))
      · simp [h1, h2] at hm
  · -- background / threshold
    cases hf : ffc
    · exact Or.inl (dyn_det c dA dB f f false (hf ▸ dyn_part c dA dB gA gB sh f ffc dy hf))
    · rcases dy with hd | ⟨hdyn, _, uA, uB⟩
      · exact Or.inl (dyn_det c dA dB f f true (dyn_keep c dA dB f true sh.bf sh.aff hd))
      · exact Or.inr ⟨hdyn, detect_affected c dA f true, u_det c dA f true uA, u_det c dB f true uB⟩
  · -- previous diff
    cases hf : ffc
    · have hd := dyn_part c dA dB gA gB sh f ffc dy hf
      subst hf
      by_cases hm : (dA.firstDiff && (false || dA.affected)) = true
      · right; left; rw [det_firstDiff, hm]; rfl
      · rcases fl with hffc | hv | ⟨h1, h2⟩
        · exact absurd hffc (by simp)
        · exact Or.inl (prevOK_step c dA dB gA gB sh f false (newDiff_eqI c dA dB gA gB sh f false hv hd))
        · simp [h1, h2] at hm
    · right; right; right; exact detect_affected c dA f true
  · -- verdict
    rw [det_out, det_out, ← sh.fd, ← sh.aff]
    cases hq : (ffc || dA.affected)
    · cases hfd : dA.firstDiff
      · rfl
      · simp only [Bool.or_eq_false_iff] at hq
        obtain ⟨hf, ha⟩ := hq
        have hd := dyn_part c dA dB gA gB sh f ffc dy hf
        have hv : ValsAgree gA gB := by
          rcases fl with hffc | hv | ⟨_, h2⟩
          · rw [hf] at hffc; exact absurd hffc (by simp)
          · exact hv
          · rw [ha] at h2; exact absurd h2 (by simp)
        have e := newDiff_eqI c dA dB gA gB sh f ffc hv hd
        simp only [Bool.true_and, Bool.not_false]
        rcases pv with hffc | hp | h1 | hmk | h2
        · rw [hf] at hffc; exact absurd hffc (by simp)
        · rw [prev_read _ _ sh.dsA, prev_read _ _ sh.dsB,
            countChanged_congr c _ _ _ _ c.useOneDiff e hp]
        · rw [hfd] at h1; exact absurd h1 (by simp)
        · have zA : Det.countChanged c (newDiff c dA f ffc)
              (if c.useOneDiff then none else some ((dA.diffs.write (newDiff c dA f ffc)).move).current) = 0 := by
            apply countChanged_zero
            unfold newDiff
            rw [cmp_self _ _ f sh.rA hmk]
            exact diffOf_self c _ f _
          have zB : Det.countChanged c (newDiff c dB f ffc)
              (if c.useOneDiff then none else some ((dB.diffs.write (newDiff c dB f ffc)).move).current) = 0 := by
            apply countChanged_zero
            unfold newDiff
            rw [cmp_self _ _ f sh.rB (by rw [← sh.gm, ← sh.gn]; exact hmk)]
            exact diffOf_self c _ f _
          rw [zA, zB]
        · rw [ha] at h2; exact absurd h2 (by simp)
    · simp


theorem rel_frame (c : DCfg) (dA dB : Det F) (gA gB : Ghost Frame) (f : Frame) (ffc : Bool)
    (r : Rel c dA dB gA gB) :
    Rel c (Det.detect c dA f ffc).1 (Det.detect c dB f ffc).1 (gstep dA gA f ffc) (gstep dB gB f ffc) ∧
    (Det.detect c dA f ffc).2 = (Det.detect c dB f ffc).2 := by
  apply rel_step c dA dB gA gB f ffc r.sh (Or.inr r.fl)
  · rcases r.dy with h | ⟨h1, h2, h3, h4⟩
    · exact Or.inl h
    · exact Or.inr ⟨h1, Or.inr h2, h3, h4⟩
  · exact Or.inr r.pv

/-- `Reset` when the background state already agrees (always the case with a fixed threshold) -/
theorem rel_reset (c : DCfg) (dA dB : Det F) (gA gB : Ghost Frame) (sh : Shape dA dB gA gB)
    (hd : DynOK c dA dB) :
    Rel c dA.reset dB.reset (Ghost.reset (dA.floored.slots 0)) (Ghost.reset (dB.floored.slots 0)) :=
  ⟨shape_reset dA dB gA gB sh, Or.inl (fun k _ hk => absurd hk (Nat.not_lt_zero k)),
    Or.inl (dyn_reset c dA dB hd), Or.inr (Or.inr (Or.inl rfl))⟩

/-- the pivot of (b): an FFC-affected frame on two runs of the same shape -/
theorem rel_pivot (c : DCfg) (dA dB : Det F) (gA gB : Ghost Frame) (f : Frame) (sh : Shape dA dB gA gB)
    (dy : DynOK c dA dB ∨ (c.dynamic = true ∧ U c dA ∧ U c dB)) :
    Rel c (Det.detect c dA f true).1 (Det.detect c dB f true).1 (gstep dA gA f true) (gstep dB gB f true) ∧
    (Det.detect c dA f true).2 = (Det.detect c dB f true).2 := by
  apply rel_step c dA dB gA gB f true sh (Or.inl rfl)
  · rcases dy with h | ⟨h1, h3, h4⟩
    · exact Or.inl h
    · exact Or.inr ⟨h1, Or.inl rfl, h3, h4⟩
  · exact Or.inl rfl

/-- two related runs give the same verdicts on the same events; `Reset` is allowed while the
background state agrees -/
theorem rel_run (c : DCfg) (evs : List DEv) (dA dB : Det F) (gA gB : Ghost Frame) (r : Rel c dA dB gA gB)
    (h : DynOK c dA dB ∨ ∀ e ∈ evs, e ≠ DEv.reset) : Det.outputs c dA evs = Det.outputs c dB evs := by
  induction evs generalizing dA dB gA gB with
  | nil => rfl
  | cons e es ih =>
    cases e with
    | frame f ffc =>
      obtain ⟨r', ho⟩ := rel_frame c dA dB gA gB f ffc r
      simp only [Det.outputs, Det.stepEv]
      rw [ho]
      congr 1
      apply ih _ _ _ _ r'
      rcases h with h | h
      · exact Or.inl (dyn_det c dA dB f f ffc (dyn_keep c dA dB f ffc r.sh.bf r.sh.aff h))
      · exact Or.inr (fun e he => h e (List.mem_cons_of_mem _ he))
    | reset =>
      simp only [Det.outputs, Det.stepEv]
      rcases h with h | h
      · exact ih _ _ _ _ (rel_reset c dA dB gA gB r.sh h) (Or.inl (dyn_reset c dA dB h))
      · exact absurd rfl (h _ (List.mem_cons_self ..))

/-! ## Prefixes of the same shape -/

/-- same constructors and FFC flags, arbitrary frame contents -/
def sameShape : List DEv → List DEv → Prop
  | [], [] => True
  | .frame _ a :: as, .frame _ b :: bs => a = b ∧ sameShape as bs
  | .reset :: as, .reset :: bs => sameShape as bs
  | _, _ => False

/-- fixed threshold: shape and background state agree after prefixes of the same shape -/
theorem pre_fixed (c : DCfg) (hdyn : c.dynamic = false) (pA pB : List DEv) (dA dB : Det F)
    (gA gB : Ghost Frame) (hs : sameShape pA pB) (sh : Shape dA dB gA gB) (hd : DynOK c dA dB) :
    ∃ gA' gB', Shape (Det.after c dA pA) (Det.after c dB pB) gA' gB' ∧
      DynOK c (Det.after c dA pA) (Det.after c dB pB) := by
  induction pA generalizing pB dA dB gA gB with
  | nil =>
    cases pB with
    | nil => exact ⟨gA, gB, sh, hd⟩
    | cons b bs => exact absurd hs (by simp [sameShape])
  | cons a as ih =>
    cases pB with
    | nil => cases a <;> exact absurd hs (by simp [sameShape])
    | cons b bs =>
      cases a with
      | frame f fa =>
        cases b with
        | frame g fb =>
          simp only [sameShape] at hs
          obtain ⟨rfl, hs⟩ := hs
          simp only [Det.after, Det.stepEv]
          exact ih bs _ _ _ _ hs (shape_step c dA dB gA gB f g fa sh) (dyn_fixed c hdyn dA dB f g fa hd)
        | reset => exact absurd hs (by simp [sameShape])
      | reset =>
        cases b with
        | frame g fb => exact absurd hs (by simp [sameShape])
        | reset =>
          simp only [sameShape] at hs
          simp only [Det.after, Det.stepEv]
          exact ih bs _ _ _ _ hs (shape_reset dA dB gA gB sh) (dyn_reset c dA dB hd)

/-- any threshold mode: the shape agrees after prefixes of the same shape -/
theorem pre_shape (c : DCfg) (pA pB : List DEv) (dA dB : Det F)
    (gA gB : Ghost Frame) (hs : sameShape pA pB) (sh : Shape dA dB gA gB) :
    ∃ gA' gB', Shape (Det.after c dA pA) (Det.after c dB pB) gA' gB' := by
  induction pA generalizing pB dA dB gA gB with
  | nil =>
    cases pB with
    | nil => exact ⟨gA, gB, sh⟩
    | cons b bs => exact absurd hs (by simp [sameShape])
  | cons a as ih =>
    cases pB with
    | nil => cases a <;> exact absurd hs (by simp [sameShape])
    | cons b bs =>
      cases a with
      | frame f fa =>
        cases b with
        | frame g fb =>
          simp only [sameShape] at hs
          obtain ⟨rfl, hs⟩ := hs
          simp only [Det.after, Det.stepEv]
          exact ih bs _ _ _ _ hs (shape_step c dA dB gA gB f g fa sh)
        | reset => exact absurd hs (by simp [sameShape])
      | reset =>
        cases b with
        | frame g fb => exact absurd hs (by simp [sameShape])
        | reset =>
          simp only [sameShape] at hs
          simp only [Det.after, Det.stepEv]
          exact ih bs _ _ _ _ hs (shape_reset dA dB gA gB sh)

theorem sameShape_noReset (pA pB : List DEv) (hs : sameShape pA pB) (h : ∀ e ∈ pA, e ≠ DEv.reset) :
    ∀ e ∈ pB, e ≠ DEv.reset := by
  induction pA generalizing pB with
  | nil =>
    cases pB with
    | nil => exact fun _ he => absurd he (by simp)
    | cons b bs => exact absurd hs (by simp [sameShape])
  | cons a as ih =>
    cases pB with
    | nil => cases a <;> exact absurd hs (by simp [sameShape])
    | cons b bs =>
      cases a with
      | frame f fa =>
        cases b with
        | frame g fb =>
          simp only [sameShape] at hs
          intro e he
          rcases List.mem_cons.mp he with rfl | he
          · intro h'; cases h'
          · exact ih bs hs.2 (fun e he => h e (List.mem_cons_of_mem _ he)) e he
        | reset => exact absurd hs (by simp [sameShape])
      | reset => exact absurd rfl (h _ (List.mem_cons_self ..))

/-- without `Reset`, `U` holds after any prefix -/
theorem pre_u (c : DCfg) (p : List DEv) (d : Det F) (h : ∀ e ∈ p, e ≠ DEv.reset) (u : U c d) :
    U c (Det.after c d p) := by
  induction p generalizing d with
  | nil => exact u
  | cons a as ih =>
    cases a with
    | frame f fa =>
      simp only [Det.after, Det.stepEv]
      exact ih _ (fun e he => h e (List.mem_cons_of_mem _ he)) (u_det c d f fa u)
    | reset => exact absurd rfl (h _ (List.mem_cons_self ..))

/-! ## The three independence results -/

theorem reset_independence (F : FloatOps) (c : DCfg) (hdyn : c.dynamic = false)
    (preA preB post : List DEv) (hs : sameShape preA preB) :
    Det.outputs c (Det.after c (Det.init F c) preA) (.reset :: post) =
    Det.outputs c (Det.after c (Det.init F c) preB) (.reset :: post) := by
  obtain ⟨gA, gB, sh, hd⟩ := pre_fixed c hdyn preA preB _ _ _ _ hs (shape_init F c) (dyn_refl c _)
  simp only [Det.outputs, Det.stepEv]
  exact rel_run c post _ _ _ _ (rel_reset c _ _ gA gB sh hd) (Or.inl (dyn_reset c _ _ hd))

theorem ffc_independence_fixed (F : FloatOps) (c : DCfg) (hdyn : c.dynamic = false)
    (preA preB : List DEv) (hs : sameShape preA preB) (f : Frame) (rest : List DEv) :
    Det.outputs c (Det.after c (Det.init F c) preA) (.frame f true :: rest) =
    Det.outputs c (Det.after c (Det.init F c) preB) (.frame f true :: rest) := by
  obtain ⟨gA, gB, sh, hd⟩ := pre_fixed c hdyn preA preB _ _ _ _ hs (shape_init F c) (dyn_refl c _)
  obtain ⟨r, ho⟩ := rel_pivot c _ _ gA gB f sh (Or.inl hd)
  simp only [Det.outputs, Det.stepEv]
  rw [ho]
  congr 1
  exact rel_run c rest _ _ _ _ r
    (Or.inl (dyn_det c _ _ f f true (dyn_keep c _ _ f true sh.bf sh.aff hd)))

theorem ffc_independence_noreset (F : FloatOps) (c : DCfg)
    (preA preB : List DEv) (hs : sameShape preA preB) (hnr : ∀ e ∈ preA, e ≠ DEv.reset)
    (f : Frame) (rest : List DEv) (hnr' : ∀ e ∈ rest, e ≠ DEv.reset) :
    Det.outputs c (Det.after c (Det.init F c) preA) (.frame f true :: rest) =
    Det.outputs c (Det.after c (Det.init F c) preB) (.frame f true :: rest) := by
  cases hdyn : c.dynamic
  · exact ffc_independence_fixed F c hdyn preA preB hs f rest
  · obtain ⟨gA, gB, sh⟩ := pre_shape c preA preB _ _ _ _ hs (shape_init F c)
    have uA := pre_u c preA _ hnr (u_init F c)
    have uB := pre_u c preB _ (sameShape_noReset preA preB hs hnr) (u_init F c)
    obtain ⟨r, ho⟩ := rel_pivot c _ _ gA gB f sh (Or.inr ⟨hdyn, uA, uB⟩)
    simp only [Det.outputs, Det.stepEv]
    rw [ho]
    congr 1
    exact rel_run c rest _ _ _ _ r (Or.inr hnr')

end TR.P09
