import TR.DetSpec
/-!
# Proofs.DetC09 — helper lemmas for C09 (FFC quiet period, independence of earlier frames)
-/
namespace TR.P09
open TR

variable {F : FloatOps}

/-! ## (a) quiet frames -/

theorem pixelsChanged_affected (c : DCfg) (d : Det F) (f : Frame) (ffc prevFFC : Bool) :
    (Det.pixelsChanged c d f ffc prevFFC).1.affected = d.affected := by
  unfold Det.pixelsChanged
  simp only
  split
  · rfl
  · split <;> rfl

theorem pixelsChanged_quiet (c : DCfg) (d : Det F) (f : Frame) (ffc prevFFC : Bool)
    (h : (ffc || prevFFC) = true) : (Det.pixelsChanged c d f ffc prevFFC).2 = false := by
  unfold Det.pixelsChanged
  simp only [h, if_true]
  split <;> rfl

theorem updateBackground_affected (c : DCfg) (d : Det F) (f : Frame) (p : Bool) :
    (Det.updateBackground c d f p).1.affected = d.affected := by
  unfold Det.updateBackground
  simp only
  split <;> rfl

theorem detect_affected (c : DCfg) (d : Det F) (f : Frame) (ffc : Bool) :
    (Det.detect c d f ffc).1.affected = ffc := by
  unfold Det.detect
  simp only
  rw [pixelsChanged_affected]
  split
  · split
    · simp only [updateBackground_affected]
    · simp only [updateBackground_affected]
  · rfl

theorem detect_quiet (c : DCfg) (d : Det F) (f : Frame) (ffc : Bool)
    (h : ffc = true ∨ d.affected = true) : (Det.detect c d f ffc).2 = false := by
  unfold Det.detect
  simp only
  apply pixelsChanged_quiet
  rcases h with h | h <;> simp [h]

theorem reset_affected (d : Det F) : d.reset.affected = d.affected := rfl

end TR.P09
