import TR.Throttle
/-!
# Proofs.Bucket — the potential argument for the juju token bucket

`E b t` = the number of tokens obtainable at tick `t` without waiting.  It is at most
`cap + 1` (the `+1` is real: after idling while full, `latestTick` is stale and the first
`adjust` after a take credits a whole tick at once), grows by at most `q` per tick, is
unchanged by `Available()` and drops by exactly the number of tokens taken.
-/
namespace TR.Bucket

def E (b : Bucket) (t : Nat) : Nat :=
  if b.avail ≥ b.cap then (if b.latest < t then b.cap + 1 else b.cap)
  else min b.cap (b.avail + (t - b.latest) * b.q)

def WF (b : Bucket) (t : Nat) : Prop := 0 < b.cap ∧ 0 < b.q ∧ b.avail ≤ b.cap ∧ b.latest ≤ t

theorem wf_new (cap q : Nat) (hc : 0 < cap) (hq : 0 < q) (t : Nat) : (Bucket.new cap q).WF t :=
  ⟨hc, hq, Nat.le_refl _, Nat.zero_le _⟩

theorem wf_mono (b : Bucket) (t t' : Nat) (h : b.WF t) (htt : t ≤ t') : b.WF t' := by
  obtain ⟨a, b', c, d⟩ := h; exact ⟨a, b', c, by omega⟩

theorem E_le (b : Bucket) (t : Nat) : b.E t ≤ b.cap + 1 := by
  unfold E
  by_cases h : b.avail ≥ b.cap
  · simp only [h, if_true]; split <;> omega
  · simp only [h, if_false]; omega

theorem E_mono (b : Bucket) (t t' : Nat) (h : b.WF t) (htt : t ≤ t') :
    b.E t' ≤ b.E t + (t' - t) * b.q := by
  obtain ⟨hc, hq, ha, hl⟩ := h
  unfold E
  by_cases hf : b.avail ≥ b.cap
  · simp only [hf, if_true]
    by_cases h1 : b.latest < t
    · have h2 : b.latest < t' := by omega
      simp only [h1, h2, if_true]; omega
    · simp only [h1, if_false]
      by_cases h2 : b.latest < t'
      · simp only [h2, if_true]
        have : 1 ≤ (t' - t) * b.q := Nat.mul_pos (by omega) hq
        omega
      · simp only [h2, if_false]; omega
  · simp only [hf, if_false]
    have : (t' - b.latest) * b.q = (t - b.latest) * b.q + (t' - t) * b.q := by
      rw [← Nat.add_mul]; congr 1; omega
    omega

theorem adjust_cap (b : Bucket) (t : Nat) : (b.adjust t).cap = b.cap ∧ (b.adjust t).q = b.q := by
  unfold adjust; split <;> simp

/-- `Available()` does not change the potential -/
theorem adjust_E (b : Bucket) (t : Nat) (h : b.WF t) :
    (b.adjust t).E t = b.E t ∧ (b.adjust t).WF t := by
  obtain ⟨hc, hq, ha, hl⟩ := h
  unfold adjust
  by_cases hfull : b.avail ≥ b.cap
  · simp only [hfull, if_true]; exact ⟨trivial, hc, hq, ha, hl⟩
  · simp only [hfull, if_false]
    refine ⟨?_, hc, hq, by simp only; omega, Nat.le_refl _⟩
    unfold E
    simp only [hfull, if_false, Nat.lt_irrefl, Nat.sub_self, Nat.zero_mul, Nat.add_zero]
    generalize hx : min b.cap (b.avail + (t - b.latest) * b.q) = a'
    have ha' : a' ≤ b.cap := by omega
    by_cases h2 : a' ≥ b.cap
    · simp only [h2, if_true]; omega
    · simp only [h2, if_false]; omega

theorem take1_cap (b : Bucket) (t : Nat) : (b.take1 t).1.cap = b.cap ∧ (b.take1 t).1.q = b.q := by
  have := adjust_cap b t
  unfold take1; simp only; split <;> simp [this]

/-- `TakeAvailable(1)` lowers the potential by exactly what it hands out -/
theorem take1_E (b : Bucket) (t : Nat) (h : b.WF t) :
    (b.take1 t).1.E t + (b.take1 t).2 = b.E t ∧ (b.take1 t).1.WF t ∧ (b.take1 t).2 ≤ 1 := by
  obtain ⟨hc, hq, ha, hl⟩ := h
  unfold take1 adjust E WF
  by_cases hfull : b.avail ≥ b.cap
  · have hav : b.avail = b.cap := by omega
    simp only [hfull, if_true]
    have hne : ¬ b.avail = 0 := by omega
    simp only [hne, if_false]
    have hlt : ¬ (b.avail - 1 ≥ b.cap) := by omega
    simp only [hlt, if_false]
    by_cases hs : b.latest < t
    · simp only [hs, if_true]
      have : 1 ≤ (t - b.latest) * b.q := Nat.mul_pos (by omega) hq
      refine ⟨by omega, ⟨hc, hq, by omega, hl⟩, Nat.le_refl _⟩
    · simp only [hs, if_false]
      have : t - b.latest = 0 := by omega
      simp only [this, Nat.zero_mul]
      refine ⟨by omega, ⟨hc, hq, by omega, hl⟩, Nat.le_refl _⟩
  · simp only [hfull, if_false]
    generalize hx : min b.cap (b.avail + (t - b.latest) * b.q) = a'
    have ha' : a' ≤ b.cap := by omega
    by_cases hz : a' = 0
    · simp [hz]; omega
    · simp only [hz, if_false, Nat.sub_self, Nat.zero_mul, Nat.add_zero]
      have : ¬ (a' - 1 ≥ b.cap) := by omega
      simp only [this, if_false]
      refine ⟨by omega, ⟨hc, hq, by omega, Nat.le_refl _⟩, Nat.le_refl _⟩

/-- what `Available()` returns is at most the potential -/
theorem available_le_E (b : Bucket) (t : Nat) (h : b.WF t) : (b.available t).2 ≤ b.E t := by
  obtain ⟨hc, hq, ha, hl⟩ := h
  unfold available adjust E
  by_cases hfull : b.avail ≥ b.cap
  · simp only [hfull, if_true]; split <;> omega
  · simp only [hfull, if_false]; omega

end TR.Bucket
