import Proofs.Ring
import Proofs.RingSpec
import Proofs.PipeLemmas
import Proofs.C01Spec
import Proofs.C12Spec
import Proofs.C03Spec
import Proofs.PipeThr
