import Proofs.Ring
import Proofs.RingSpec
import Proofs.PipeLemmas
import Proofs.C01Spec
