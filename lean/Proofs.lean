import Proofs.Ring
import Proofs.RingSpec
