import Proofs.Ring
import Proofs.RingSpec
import Proofs.PipeLemmas
