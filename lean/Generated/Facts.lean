/-!
# Generated.Facts — regenerated from the current thermal-recorder source by tools/gofacts

Do not edit: rewritten by every ./check run.
-/
namespace Facts

/-- cmd/thermal-recorder/main.go: const clearBuffer -/
def recorderClear : String := "clear"

/-- cmd/leptond/main.go: const clearBuffer -/
def leptondClear : String := "clear"

/-- handleConn: io.ReadFull(reader, rawFrame[:N]) -/
def probeLen : Nat := 5

/-- handleConn: number of io.ReadFull calls (probe + rest of frame) -/
def recorderReadFullCalls : Nat := 2

/-- handleConn: the comparison that recognises the marker -/
def recorderMarkerTest : String := "message == clearBuffer"

/-- leptond: how the marker is written to the socket -/
def leptondMarkerSend : String := "conn.Write([]byte(clearBuffer))"

/-- leptond sendCameraSpecs: headers.* keys written -/
def leptondHeaderKeys : String := "Brand,FPS,Firmware,FrameSize,Model,Serial,XResolution,YResolution"

/-- leptond sendCameraSpecs: the header map literal -/
def leptondHeaderValues : String := "headers.Brand:lepton3.Brand;headers.FPS:camera.FPS();headers.Firmware:firmware;headers.FrameSize:lepton3.BytesPerFrame;headers.Model:model;headers.Serial:serial;headers.XResolution:camera.ResX();headers.YResolution:camera.ResY()"

/-- headers.ReadHeaderInfo: keys read from the YAML map -/
def recorderHeaderKeys : String := "Brand,FPS,Firmware,FrameSize,Model,Serial,XResolution,YResolution"

/-- headers.ReadHeaderInfo: end-of-header test -/
def headerBlankLineTest : String := "strings.Trim(line, \" \") == \"\\n\""

/-- motion/motion.go: const ffcPeriod -/
def ffcPeriodNs : Nat := 10000000000

/-- motion/motion.go: isAffectedByFFC -/
def ffcTest : String := "f.Status.TimeOn-f.Status.LastFFCTime < ffcPeriod"

/-- motion/motionprocessor.go: const minLogInterval -/
def minLogIntervalNs : Nat := 60000000000

/-- NewMotionProcessor: log field -/
def processorLogInit : String := "loglimiter.New(minLogInterval)"

/-- NewMotionProcessor: frameLoop field -/
def ringSizeExpr : String := "NewFrameLoop(recorderConf.PreviewSecs*c.FPS()+motionConf.TriggerFrames, c)"

/-- NewMotionProcessor: minFrames field -/
def minFramesExpr : String := "recorderConf.MinSecs * c.FPS()"

/-- NewMotionProcessor: maxFrames field -/
def maxFramesExpr : String := "recorderConf.MaxSecs * c.FPS()"

/-- processSnapshot: when the test recording stops -/
def testRecStopTest : String := "mp.snapshotFrames > 20"

/-- processSnapshot: N in `snapshotFrames > N` -/
def testRecLast : Nat := 20

/-- processConstantRecorder: when the continuous file is cut -/
def constRecStopTest : String := "mp.crFrames > mp.maxFrames"

/-- canStartWriting: the window test -/
def windowGate : String := "!mp.window.Active()"

/-- process: the trigger-frames test -/
def triggerTest : String := "mp.triggered < mp.triggerFrames"

/-- recorder.NewConfig: arguments of window.New -/
def windowCtorArgs : String := "windowsConfig.StartRecording;windowsConfig.StopRecording;float64(windowLocationConfig.Latitude);float64(windowLocationConfig.Longitude)"

/-- recorder.NewConfig: the RecorderConfig literal -/
def recorderConfigFields : String := "MinSecs:thermalRecorderConfig.MinSecs;MaxSecs:thermalRecorderConfig.MaxSecs;PreviewSecs:thermalRecorderConfig.PreviewSecs;Window:*w;ConstantRecorder:thermalRecorderConfig.ConstantRecorder"

/-- RecorderConfig.validate: the rejected case -/
def recorderConfigValidate : String := "conf.MaxSecs < conf.MinSecs"

/-- MotionProcessor.Reset: the statements of its body -/
def processorResetBody : String := "mp.stopRecording();mp.motionDetector.Reset(camera)"

/-- frameParser: camera model -> parser -/
def frameParserMap : String := "lepton3.Model,lepton3.Model35=>return lepton3.ParseRawFrame;\"boson\"=>return convertRawBosonFrame"

/-- handleConn: condition under which the throttle wraps the recorder -/
def throttleGuardExpr : String := "conf.Throttler.Activate"

/-- handleConn: minimum recording length handed to the throttle -/
def throttleMinSecsExpr : String := "conf.Recorder.MinSecs + conf.Recorder.PreviewSecs"

/-- handleConn: the continuous recorder is a plain file recorder (never throttled) -/
def constantRecorderCtor : String := "NewCPTVFileRecorder"

/-- cmd/thermal-recorder/main.go: const cptvTempExt -/
def cptvTempExt : String := "cptv.temp"

/-- deleteTempFiles: the glob pattern expression -/
def cleanupGlobExpr : String := "\"*.\" + cptvTempExt + \"*\""

/-- deleteExcessRecordings: the glob pattern -/
def excessGlobExpr : String := "\"*.cptv*\""

/-- deleteExcessRecordings: the condition under which nothing (more) is deleted -/
def excessStopTest : String := "percentageLeft > 30"

/-- deleteExcessRecordings: the file removed in one pass of the loop -/
def excessVictimExpr : String := "matches[0]"

/-- newRecordingTempName: time layout expression -/
def tempNameLayoutExpr : String := "\"20060102.150405.000.\" + cptvTempExt"

/-- cptvfilerecorder.go: reTempName -/
def finalNameRegex : String := "(.+)\\.temp$"

/-- CPTVFileRecorder.StopRecording: Close happens before the rename -/
def stopRecordingOrder : String := "fw.writer.Close;renameTempRecording"

/-- handleConn: deferred clean-up of an unfinished recording -/
def handleConnDefer : String := "cptvRecorder.Stop()"

/-- runMain: configuration, service, clean-up of the output directory, then the loop listen / accept / close the listener / handleConn -/
def runMainSkeleton : String := "ParseConfig(args.ConfigDir);startService(conf.OutputDir);deleteTempFiles(conf.OutputDir);for{;os.Remove(conf.FrameInput);net.Listen(\"unix\",conf.FrameInput);listener.Accept();listener.Close();handleConn(conn,conf);}"

/-- thermal-writer runMain: configuration, then the loop listen / accept / close the listener / handleConn -/
def writerRunMainSkeleton : String := "ParseConfig(args.ConfigDir);for{;os.Remove(conf.FrameInput);net.Listen(\"unix\",conf.FrameInput);listener.Accept();listener.Close();handleConn(conn,conf,args.FrameRate);}"

/-- thermal-writer handleConn: const inFlight -/
def inFlight : Nat := 256

/-- thermal-writer handleConn: channel creation -/
def writerChannels : String := "make(chan []byte, inFlight);make(chan []byte, inFlight)"

/-- thermal-writer handleConn: order of channel operations and reads -/
def writerReaderOrder : String := "send spentFrames;recv spentFrames;io.ReadFull frame;close writeFrames;send writeFrames"

/-- thermal-writer writer: order of writes, buffer returns and closes -/
def writerWriterOrder : String := "case <-changeFile;builder.Close;case frame, ok := <-inFrames;builder.Close;writeFrame;send outFrames"

/-- lockset table: (thread, shared variable, R/W, locks held) for every access reachable from the
frame-loop root (handleConn) and the service roots (TakeSnapshot, TakeTestRecording, CameraInfo,
snapshotRecordingTriggers) -/
def accesses : List (String × String × String × String) := [
  ("frame", "CurrentFrame", "W", ""),
  ("frame", "SnapshotRecording", "R", ""),
  ("frame", "SnapshotRecording", "W", ""),
  ("frame", "StartSnapshot", "R", ""),
  ("frame", "StartSnapshot", "W", ""),
  ("frame", "frameLoop.bufferFull", "R", ""),
  ("frame", "frameLoop.bufferFull", "W", "FrameLoop.mu"),
  ("frame", "frameLoop.currentIndex", "R", ""),
  ("frame", "frameLoop.currentIndex", "R", "FrameLoop.mu"),
  ("frame", "frameLoop.currentIndex", "W", "FrameLoop.mu"),
  ("frame", "frameLoop.frames", "R", ""),
  ("frame", "frameLoop.frames", "R", "FrameLoop.mu"),
  ("frame", "frameLoop.oldest", "R", ""),
  ("frame", "frameLoop.oldest", "R", "FrameLoop.mu"),
  ("frame", "frameLoop.oldest", "W", ""),
  ("frame", "frameLoop.oldest", "W", "FrameLoop.mu"),
  ("frame", "headerInfo", "R", ""),
  ("frame", "headerInfo", "W", ""),
  ("frame", "processor", "R", ""),
  ("frame", "processor", "W", ""),
  ("service", "CurrentFrame", "R", "snapshot.mu"),
  ("service", "StartSnapshot", "W", "snapshot.mu"),
  ("service", "frameLoop.bufferFull", "R", "FrameLoop.mu+snapshot.mu"),
  ("service", "frameLoop.currentIndex", "R", "FrameLoop.mu+snapshot.mu"),
  ("service", "frameLoop.frames", "R", "FrameLoop.mu+snapshot.mu"),
  ("service", "headerInfo", "R", ""),
  ("service", "previousSnapshotTime", "R", "snapshot.mu"),
  ("service", "processor", "R", ""),
  ("service", "processor", "R", "snapshot.mu")
]

end Facts
