import Generated.Facts
