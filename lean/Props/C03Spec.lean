import Props.C03
import Proofs.C03Spec
import Proofs.C01Spec
/-!
# C03, de-monitored — acceptance by `monC03` means "every recording obeys the length rule"

`Props.C03` states C03 through the executable monitor `monC03`.  Here the monitor is taken out of the
trusted reading.  Everything below is stated with definitions of `Proofs.C03Spec` that do not mention the
monitor state `M3`:

* `recordingsOf tr` — a reference interpreter: one recording for every FRAME event that carries a
  successful `StartRecording` on the motion sink (the trigger frame, counted as frame 1); each later frame
  event adds a frame; the recording ends at the first frame event carrying a `StopRecording` (`byStop`, that
  frame included), at a bad frame or reset (`byBadOrReset`, no frame added), at a later frame carrying
  another successful start (`byRestart`; never in the model) or with the trace (`stillOpen`).  Test-recording
  requests carry no frame and are skipped.  The result is the list of motion bits of the frames + the end kind.
* `dueAt minF maxF ms p` — the length rule at frame `p`: `p ≥ min maxF (L - 1 + minF)`, `L = lastMotion`
  of the first `p` frames.
* `LengthRuleRec minF maxF (ms, e)` — at EVERY frame `p` of the recording, the rule is due at `p` iff the
  recording was stopped at `p` (`p` is its last frame and `e = byStop`).  `LengthRule` — every recording of
  the trace.
* `LengthRuleAt` — the same, read position by position on the trace (`startsAt`, `insideRecording`, `due`),
  without the interpreter.  `lengthRule_iff_positional`: the two forms are equivalent on every trace.

Headline results:

* `monitor_sound` — for EVERY trace (the model's or one recorded from the real code): accepted by `monC03`
  and no dictated motion-sink write failure ⟹ `LengthRule`.  `monitor_exact`: under the same side condition
  acceptance is EQUIVALENT to `LengthRule` (and to `LengthRuleAt`) — the plain statement loses nothing.
* `c03_length_rule` — the model, for every configuration with `K ≥ 1`, `minF ≤ maxF`, every event list and
  every fault placement except failing motion-sink writes, satisfies both forms; its recordings begin with a
  motion frame and are never superseded by a restart.
* `recording_bounds` / `c03_recording_bounds` — the user-facing bounds, derived from the plain specification
  alone.

Corners (all exhibited below by `decide`):
* the clean `↔` holds at every frame, including a start and a stop on the same frame (`minF ≤ 1`);
* a successful start on a frame while a recording is open begins a NEW recording (the monitor restarts its
  counters); the old one is listed as `byRestart`.  No `monC12` hypothesis is needed for the theorem; for the
  model `byRestart` never occurs (`c03_length_rule`);
* observations attached to events that are not frames are ignored by the monitor, hence by the
  specification: a stop on a test-request step does not end a recording, a start on a bad frame / reset does
  not begin one.  The model never produces such observations (`model_nonframe_observations`);
* after a dictated motion-sink write failure the monitor is blind (`tainted`), so the hypothesis is needed.
-/
namespace TR.C03Spec
open TR

/-! ## generic: any trace -/

/-- **Soundness of the C03 monitor**: on every trace the monitor accepts and in which no motion-sink write
was made to fail, every recording obeys the length rule — at each of its frames, the rule is due iff the
recording was stopped at that frame. -/
theorem monitor_sound (minF maxF : Nat) (tr : List Step)
    (hacc : monC03 minF maxF tr = []) (hnf : ∀ st ∈ tr, st.motionWriteFault = false) :
    LengthRule minF maxF tr :=
  monC03_sound minF maxF tr hacc hnf

/-- the interpreter form and the positional form of the specification agree on every trace -/
theorem lengthRule_iff_positional (minF maxF : Nat) (tr : List Step) :
    LengthRule minF maxF tr ↔ LengthRuleAt minF maxF tr :=
  ⟨lengthRuleAt_of_lengthRule minF maxF tr, lengthRule_of_lengthRuleAt minF maxF tr⟩

/-- **The monitor is exactly the plain specification** (both forms) on traces without dictated motion-sink
write failures. -/
theorem monitor_exact (minF maxF : Nat) (tr : List Step) (hnf : ∀ st ∈ tr, st.motionWriteFault = false) :
    (monC03 minF maxF tr = [] ↔ LengthRule minF maxF tr) ∧
    (monC03 minF maxF tr = [] ↔ LengthRuleAt minF maxF tr) := by
  have h1 : monC03 minF maxF tr = [] ↔ LengthRule minF maxF tr :=
    ⟨fun h => monC03_sound minF maxF tr h hnf, fun h => monC03_complete minF maxF tr h hnf⟩
  exact ⟨h1, h1.trans (lengthRule_iff_positional minF maxF tr)⟩

/-- **Soundness, positional form**: if a recording starts at position `i` (frame event with a successful
start), position `k ≥ i` is still inside it (no stop-on-a-frame / bad frame / reset at `i..k-1`, no new start
at `i+1..k`) and `tr[k]` is a frame event, then `tr[k]` carries a stop iff `p ≥ min maxF (l - 1 + minF)` with
`p` = number of frame events at `i..k` and `l` = index among them of the last one with motion. -/
theorem monitor_sound_positional (minF maxF : Nat) (tr : List Step)
    (hacc : monC03 minF maxF tr = []) (hnf : ∀ st ∈ tr, st.motionWriteFault = false) :
    ∀ i k st, startsAt tr i → insideRecording tr i k → tr[k]? = some st → st.ev.isFrame = true →
      (hasStop st.obs = true ↔
        (framesBetween tr i k).length ≥ min maxF (lastMotion (framesBetween tr i k) - 1 + minF)) :=
  lengthRuleAt_of_lengthRule minF maxF tr (monC03_sound minF maxF tr hacc hnf)

/-- **The user-facing bounds**, from the plain specification alone (any trace satisfying it).  For a
recording with motion bits `ms` (so `ms.length` post-trigger frames, trigger frame included):
1. it has at least its trigger frame and at most `max 1 maxF` frames, however it ended;
2. ended by a stop: at least `min maxF minF` frames, and EXACTLY `min maxF (L - 1 + minF)` frames (at least 1)
   where `L` is the index of its last motion frame — it ends `minF - 1` frames after its last motion frame
   (each motion frame pushes the end to `minF` frames counted from itself) unless capped by `maxF`;
3. not ended by a stop (bad frame, reset, restart, trace over): the rule was not yet due at its last frame;
4. closed form: the first frame at which the rule is due is the last frame of a stopped recording and does
   not exist for the others. -/
theorem recording_bounds (minF maxF : Nat) (tr : List Step) (h : LengthRule minF maxF tr) :
    ∀ ms e, (ms, e) ∈ recordingsOf tr →
      (1 ≤ ms.length ∧ ms.length ≤ max 1 maxF) ∧
      (e = .byStop → min maxF minF ≤ ms.length ∧ ms.length = max 1 (min maxF (lastMotion ms - 1 + minF))) ∧
      (e ≠ .byStop → ms.length < min maxF (lastMotion ms - 1 + minF)) ∧
      stopPoint minF maxF ms = (if e = .byStop then some ms.length else none) := by
  intro ms e hmem
  have h1 : 1 ≤ ms.length := recordingsOf_nonempty tr _ hmem
  have hr := h _ hmem
  refine ⟨⟨h1, rec_length_le minF maxF _ hr⟩, ?_, ?_, ?_⟩
  · rintro rfl
    exact ⟨rec_stop_length_ge minF maxF ms h1 hr, rec_stop_length_eq minF maxF ms h1 hr⟩
  · intro he
    exact rec_other_length_lt minF maxF ms e he h1 hr
  · exact (lengthRuleRec_iff_stopPoint minF maxF (ms, e) h1).mp hr

/-! ## the model -/

/-- **C03 as a plain specification.**  For every configuration with `K ≥ 1` and `minF ≤ maxF`, every event
list and every fault placement except failing motion-sink writes: every recording of the model's trace obeys
the length rule (interpreter form and positional form); every recording begins with a motion frame and none
is superseded by a restart. -/
theorem c03_length_rule (c : PCfg) (hK : 0 < c.K) (hmm : c.minF ≤ c.maxF) (evs : List Ev)
    (hw : C03.NoWriteFaults evs) :
    let tr := PState.trace c (PState.init c) evs
    LengthRule c.minF c.maxF tr ∧ LengthRuleAt c.minF c.maxF tr ∧
    ∀ r ∈ recordingsOf tr, r.1.head? = some true ∧ r.2 ≠ .byRestart := by
  intro tr
  have hacc := C03.c03_length_monitor c hK hmm evs hw
  have hnf := C01Spec.trace_no_write_fault c evs (PState.init c) hw
  have h := monC03_sound c.minF c.maxF tr hacc hnf
  exact ⟨h, lengthRuleAt_of_lengthRule _ _ tr h, model_recordings_wf c evs (PState.init c)⟩

/-- the observations the specification ignores do not occur in the model: an event that is not a frame never
carries a successful start, a test request carries no observation at all (so recordings start only at frame
events, and stops occur only at frame events, bad frames and resets) -/
theorem model_nonframe_observations (c : PCfg) (s : PState) :
    (∀ ev, ev.isFrame = false → hasStartOk (PState.step c s ev).2 = false) ∧
    (PState.step c s .testReq).2 = [] ∧
    (∀ mo f, hasStartOk (PState.step c s (.frame mo f)).2 = true → mo = true ∧ s.isRec = false) :=
  ⟨model_nonframe_start c s, rfl, model_start c s⟩

/-- **The user-facing bounds for the model** (`K ≥ 1`, `1 ≤ minF ≤ maxF`, no failing motion-sink writes).
For every recording of the model's trace, `ms.length` being its number of post-trigger frames (trigger frame
included) and `L ≥ 1` the index of its last motion frame:
* ended by `StopRecording`: `minF ≤ ms.length ≤ maxF` and `ms.length = min maxF (L - 1 + minF)` exactly;
* ended by a bad frame / reset, or still open: `ms.length < min maxF (L - 1 + minF)` — cut short, never long. -/
theorem c03_recording_bounds (c : PCfg) (hK : 0 < c.K) (hmm : c.minF ≤ c.maxF) (h1 : 1 ≤ c.minF)
    (evs : List Ev) (hw : C03.NoWriteFaults evs) :
    ∀ ms e, (ms, e) ∈ recordingsOf (PState.trace c (PState.init c) evs) →
      1 ≤ lastMotion ms ∧ lastMotion ms ≤ ms.length ∧
      (e = .byStop → c.minF ≤ ms.length ∧ ms.length ≤ c.maxF ∧
        ms.length = min c.maxF (lastMotion ms - 1 + c.minF)) ∧
      (e ≠ .byStop → 1 ≤ ms.length ∧ ms.length < min c.maxF (lastMotion ms - 1 + c.minF)) := by
  intro ms e hmem
  obtain ⟨hrule, _, hwf⟩ := c03_length_rule c hK hmm evs hw
  obtain ⟨⟨g1, g2⟩, g3, g4, _⟩ := recording_bounds c.minF c.maxF _ hrule ms e hmem
  have hhead := (hwf _ hmem).1
  have hL : 1 ≤ lastMotion ms := by
    cases ms with
    | nil => simp at hhead
    | cons b bs =>
      simp only [List.head?_cons, Option.some.injEq] at hhead
      subst hhead
      simp only [lastMotion]
      split
      · omega
      · simp
  refine ⟨hL, lastMotion_le ms, ?_, ?_⟩
  · intro he
    obtain ⟨k1, k2⟩ := g3 he
    omega
  · intro he
    exact ⟨g1, g4 he⟩

/-! ## non-vacuity -/

private def cfg : PCfg := { K := 3, minF := 3, maxF := 6, trig := 1, constOn := true, testLast := 1 }

private def evs : List Ev :=
  [.frame false {},
   -- recording 1: motion, still, motion, still, still — stopped at frame 5 = (3 - 1) + minF
   .frame true {}, .frame false {}, .frame true {}, .frame false {}, .frame false {},
   .frame false {},
   -- recording 2: sustained motion — capped at maxF = 6
   .frame true {}, .frame true {}, .frame true {}, .frame true {}, .frame true {}, .frame true {},
   -- recording 3: cut by a bad frame (a test request in between carries no frame)
   .frame true {}, .testReq, .bad {},
   -- refused start (disk check), then recording 4 cut by a reset (its StopRecording fails)
   .frame true { can := false }, .frame true { mStop := false }, .frame false {}, .reset { mStop := false },
   -- recording 5: still open at the end
   .frame false {}, .frame true {}, .frame false {}]

example : 0 < cfg.K ∧ cfg.minF ≤ cfg.maxF ∧ C03.NoWriteFaults evs := by
  refine ⟨by decide, by decide, ?_⟩
  unfold C03.NoWriteFaults; decide

set_option maxRecDepth 8000 in
/-- the recordings of the model on that input, with the first frame at which the rule is due -/
example :
    (recordingsOf (PState.trace cfg (PState.init cfg) evs)).map
      (fun r => (r.1, r.2, stopPoint cfg.minF cfg.maxF r.1)) =
    [([true, false, true, false, false], .byStop, some 5),
     ([true, true, true, true, true, true], .byStop, some 6),
     ([true], .byBadOrReset, none),
     ([true, false], .byBadOrReset, none),
     ([true, false], .stillOpen, none)] := by decide

/-- stopped ONE FRAME EARLY (`minF = 3`: due at frame 3, stopped at 2): rejected by the monitor, violates the
plain specification in both forms -/
example :
    let tr : List Step :=
      [⟨.frame true {}, [.call .motion .start true, .call .motion (.write 0) true]⟩,
       ⟨.frame false {}, [.call .motion (.write 1) true, .call .motion .stop true]⟩]
    monC03 3 5 tr = ["C03:stopped-early"] ∧ recordingsOf tr = [([true, false], .byStop)] ∧
    stopPoint 3 5 [true, false] = none ∧ ¬ LengthRule 3 5 tr ∧ ¬ LengthRuleAt 3 5 tr := by
  refine ⟨by decide, by decide, by decide, by decide, fun h => ?_⟩
  exact absurd (lengthRule_of_lengthRuleAt _ _ _ h) (by decide)

/-- stopped ONE FRAME LATE (`minF = 2`: due at frame 2, stopped at 3): rejected, violates the specification -/
example :
    let tr : List Step :=
      [⟨.frame true {}, [.call .motion .start true, .call .motion (.write 0) true]⟩,
       ⟨.frame false {}, [.call .motion (.write 1) true]⟩,
       ⟨.frame false {}, [.call .motion (.write 2) true, .call .motion .stop true]⟩]
    monC03 2 5 tr = ["C03:ran-past-limit"] ∧ recordingsOf tr = [([true, false, false], .byStop)] ∧
    stopPoint 2 5 [true, false, false] = some 2 ∧ ¬ LengthRule 2 5 tr ∧ ¬ LengthRuleAt 2 5 tr := by
  refine ⟨by decide, by decide, by decide, by decide, fun h => ?_⟩
  exact absurd (lengthRule_of_lengthRuleAt _ _ _ h) (by decide)

/-- the same three frames stopped exactly on time are accepted and satisfy the specification -/
example :
    let tr : List Step :=
      [⟨.frame true {}, [.call .motion .start true, .call .motion (.write 0) true]⟩,
       ⟨.frame false {}, [.call .motion (.write 1) true]⟩,
       ⟨.frame false {}, [.call .motion (.write 2) true, .call .motion .stop true]⟩]
    monC03 3 5 tr = [] ∧ LengthRule 3 5 tr ∧ stopPoint 3 5 [true, false, false] = some 3 := by decide

/-- a recording running past `maxF` is rejected although motion continues -/
example :
    let tr : List Step :=
      [⟨.frame true {}, [.call .motion .start true]⟩, ⟨.frame true {}, []⟩, ⟨.frame true {}, []⟩,
       ⟨.frame true {}, [.call .motion .stop true]⟩]
    monC03 2 3 tr = ["C03:ran-past-limit"] ∧ ¬ LengthRule 2 3 tr ∧ stopPoint 2 3 [true, true, true, true] = some 3 := by
  decide

/-! ### corners -/

/-- start and stop on the same frame (`minF ≤ 1`): the clean `↔` holds at the trigger frame too -/
example :
    let tr : List Step :=
      [⟨.frame true {}, [.call .motion .start true, .call .motion (.write 0) true, .call .motion .stop true]⟩,
       ⟨.frame true {}, [.call .motion .start true, .call .motion (.write 1) true, .call .motion .stop true]⟩]
    monC03 1 5 tr = [] ∧ recordingsOf tr = [([true], .byStop), ([true], .byStop)] ∧ LengthRule 1 5 tr ∧
    monC03 2 5 tr = ["C03:stopped-early", "C03:stopped-early"] ∧ ¬ LengthRule 2 5 tr := by decide

/-- a successful start while a recording is open begins a new recording (the monitor restarts its counters,
the interpreter lists the old one as `byRestart`); the C12 monitor flags such a trace, the model never
produces one -/
example :
    let tr : List Step :=
      [⟨.frame true {}, [.call .motion .start true]⟩, ⟨.frame true {}, [.call .motion .start true]⟩,
       ⟨.frame false {}, [.call .motion .stop true]⟩]
    monC03 2 5 tr = [] ∧ recordingsOf tr = [([true], .byRestart), ([true, false], .byStop)] ∧
    LengthRule 2 5 tr ∧ monC12 tr ≠ [] := by decide

/-- observations on events that are not frames are ignored by the monitor and by the specification alike: a
stop attached to a test request does not end the recording, a start attached to a bad frame does not begin
one (the model produces neither, `model_nonframe_observations`) -/
example :
    let tr : List Step :=
      [⟨.frame true {}, [.call .motion .start true]⟩, ⟨.testReq, [.call .motion .stop true]⟩,
       ⟨.frame false {}, [.call .motion .stop true]⟩, ⟨.bad {}, [.call .motion .start true]⟩,
       ⟨.frame false {}, []⟩, ⟨.frame false {}, []⟩, ⟨.frame false {}, []⟩]
    monC03 2 5 tr = [] ∧ recordingsOf tr = [([true, false], .byStop)] ∧ LengthRule 2 5 tr := by decide

/-- the hypothesis "no failing motion-sink write" is needed: the monitor goes blind (`tainted`) -/
example :
    let tr : List Step :=
      [⟨.frame true {}, [.call .motion .start true, .call .motion (.write 0) false]⟩,
       ⟨.frame false {}, [.call .motion .stop true]⟩]
    monC03 3 5 tr = [] ∧ ¬ LengthRule 3 5 tr := by decide

/-- a trigger frame without motion (impossible in the model) is read as if it had motion: `0 - 1 = 0` -/
example : dueAt 2 5 [false, false] 2 ∧ ¬ dueAt 2 5 [false, false] 1 ∧ lastMotion [false, false] = 0 ∧
    lastMotion [true, false, true, false] = 3 := by decide

end TR.C03Spec
