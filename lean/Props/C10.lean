import TR.FS
import Generated.Facts
import Proofs.FSC10

/-!
# C10 — only complete recordings ever carry a `.cptv` name; start-up clean-up after a crash at any
point leaves complete recordings only

Model: `TR.FS` (the system calls of go-cptv's FileWriter driven by `CPTVFileRecorder`, the directory
monitor `Dir`, the glob matcher).  A crash point is any prefix of the sequence of system calls.
-/
namespace TR.C10
open TR.FS

/-- `ValidOps opn used ops`: `opn` = ids of recordings currently open, `used` = all ids ever started -/
inductive ValidOps : List Nat → List Nat → List Op → Prop
  | nil {opn used} : ValidOps opn used []
  | start {opn used i ops} : i ∉ used → ValidOps (i :: opn) (i :: used) ops → ValidOps opn used (.start i :: ops)
  | write {opn used i ops} : i ∈ opn → ValidOps opn used ops → ValidOps opn used (.write i :: ops)
  | stop {opn used i ops} : i ∈ opn → ValidOps (opn.erase i) used ops → ValidOps opn used (.stop i :: ops)
  | discard {opn used i ops} : i ∈ opn → ValidOps (opn.erase i) used ops → ValidOps opn used (.discard i :: ops)
  | startFail {opn used i ops} : i ∉ used → ValidOps opn (i :: used) ops → ValidOps opn used (.startFail i :: ops)

/-- every crash point along a valid operation sequence, from any state satisfying the boundary invariant
(`Proofs.FSC10`: `Boundary`, `Safe`, one lemma per operation), is safe -/
theorem crash_safe {opn used : List Nat} {ops : List Op} (h : ValidOps opn used ops) :
    ∀ (d : Dir), Boundary opn used d → ∀ pre, pre <+: ops.flatMap Op.steps → Safe (d.run pre) := by
  induction h with
  | nil =>
    intro d hb pre hp
    have : pre = [] := by simpa using hp
    subst this
    exact hb.safe
  | start hi _ ih =>
    intro d hb pre hp
    rw [List.flatMap_cons] at hp
    exact seq_safe (op_start hb hi) ih hp
  | @write _ _ i _ _ _ ih =>
    intro d hb pre hp
    rw [List.flatMap_cons] at hp
    exact seq_safe (op_write i hb) ih hp
  | stop hi _ ih =>
    intro d hb pre hp
    rw [List.flatMap_cons] at hp
    exact seq_safe (op_stop hb hi) ih hp
  | @discard _ _ i _ _ _ ih =>
    intro d hb pre hp
    rw [List.flatMap_cons] at hp
    exact seq_safe (op_discard i hb) ih hp
  | startFail hi _ ih =>
    intro d hb pre hp
    rw [List.flatMap_cons] at hp
    exact seq_safe (op_startFail hb hi) ih hp

/-- (i) at EVERY crash point every `.cptv` name is a complete recording that was never written in place -/
theorem c10_every_crash_point_ok (ops : List Op) (h : ValidOps [] [] ops) (pre : List Sys)
    (hp : pre <+: ops.flatMap Op.steps) : (Dir.run {} pre).ok = true :=
  (crash_safe h {} boundary_init pre hp).ok

/-- (ii) after start-up clean-up of ANY crash state only complete `.cptv` files remain -/
theorem c10_cleanup_leaves_only_complete (ops : List Op) (h : ValidOps [] [] ops) (pre : List Sys)
    (hp : pre <+: ops.flatMap Op.steps) :
    ∀ p ∈ (Dir.run {} pre).cleanup.files, p.1.kind = Kind.F ∧ p.2 = Status.complete :=
  (crash_safe h {} boundary_init pre hp).cleanup

/-! ## The clean-up pattern -/

/-- a time stamp (`20060102.150405.000`) is a string of digits and dots -/
def IsStamp (s : String) : Prop := ∀ c ∈ s.toList, c.isDigit = true ∨ c = '.'

/-- the pattern built from the constant in the source is `*.cptv.temp*` -/
theorem pattern_eq :
    ("*." ++ Facts.cptvTempExt ++ "*").toList = '*' :: (tempLit ++ ['*']) := by decide

theorem cleanup_removes_T (stamp : String) :
    removedByCleanup ("*." ++ Facts.cptvTempExt ++ "*") stamp .T = true := by
  unfold removedByCleanup fileName
  rw [pattern_eq, String.toList_append]
  have : (suffixOf .T).toList = tempLit ++ [] := by decide
  rw [this]
  exact matches_temp _ _

theorem cleanup_removes_S (stamp : String) :
    removedByCleanup ("*." ++ Facts.cptvTempExt ++ "*") stamp .S = true := by
  unfold removedByCleanup fileName
  rw [pattern_eq, String.toList_append]
  have : (suffixOf .S).toList = tempLit ++ ['.', 't', 'm', 'p'] := by decide
  rw [this]
  exact matches_temp _ _

theorem cleanup_keeps_F (stamp : String) (h : IsStamp stamp) :
    removedByCleanup ("*." ++ Facts.cptvTempExt ++ "*") stamp .F = false := by
  unfold removedByCleanup fileName
  rw [pattern_eq, String.toList_append]
  cases hm : globMatch ('*' :: (tempLit ++ ['*'])) (stamp.toList ++ (suffixOf .F).toList) with
  | false => rfl
  | true =>
    exfalso
    have he : 'e' ∈ stamp.toList ++ (suffixOf .F).toList := match_has_e _ hm
    rcases List.mem_append.1 he with he | he
    · rcases h 'e' he with h1 | h1
      · exact absurd h1 (by decide)
      · exact absurd h1 (by decide)
    · exact absurd he (by decide)

/-! ## Facts from the source (re-extracted by tools/gofacts at every check) -/

/-- the temp extension, the clean-up glob `"*." + cptvTempExt + "*"`, the temp-name layout (a digits-and-dots
stamp followed by `.cptv.temp`), the final name = temp name without `.temp`, Close before rename in
`StopRecording`, and the deferred `Stop()` in `handleConn` -/
theorem c10_source_facts :
    Facts.cptvTempExt = "cptv.temp" ∧
    Facts.cleanupGlobExpr = "\"*.\" + cptvTempExt + \"*\"" ∧
    Facts.tempNameLayoutExpr = "\"20060102.150405.000.\" + cptvTempExt" ∧
    Facts.finalNameRegex = "(.+)\\.temp$" ∧
    Facts.stopRecordingOrder = "fw.writer.Close;renameTempRecording" ∧
    Facts.handleConnDefer = "cptvRecorder.Stop()" := by decide

/-! ## Non-vacuity -/

/-- two interleaved recordings; 0 is stopped, 1 is left open -/
private def exOps : List Op := [.start 0, .write 0, .start 1, .write 1, .write 0, .stop 0, .write 1]

example : ValidOps [] [] exOps :=
  .start (by decide) <| .write (by decide) <| .start (by decide) <| .write (by decide) <|
    .write (by decide) <| .stop (by decide) <| .write (by decide) .nil

/-- the crash state: one complete `.cptv`, and `T`, `S` of the open recording with partial data -/
example : (Dir.run {} (exOps.flatMap Op.steps)).files =
    [(⟨0, .F⟩, .complete), (⟨1, .T⟩, .partialData), (⟨1, .S⟩, .partialData)] := by decide

example : (Dir.run {} (exOps.flatMap Op.steps)).ok = true := by decide

/-- clean-up leaves only the complete recording -/
example : (Dir.run {} (exOps.flatMap Op.steps)).cleanup.files = [(⟨0, .F⟩, .complete)] := by decide

/-- a crash in the middle of `stop 0` (after `unlink S`, before the rename): no `.cptv` yet -/
example : (Dir.run {} ((exOps.flatMap Op.steps).take 14)).files =
    [(⟨1, .T⟩, .partialData), (⟨1, .S⟩, .partialData), (⟨0, .T⟩, .partialData)] := by decide

/-- a start that fails while the header is written leaves a partial `T` (no `S`, no `.cptv`); the next start
uses a fresh name and completes; clean-up removes the debris -/
private def exFail : List Op := [.startFail 0, .start 1, .write 1, .stop 1]
example : ValidOps [] [] exFail :=
  .startFail (by decide) <| .start (by decide) <| .write (by decide) <| .stop (by decide) .nil
example : (Dir.run {} (exFail.flatMap Op.steps)).files = [(⟨1, .F⟩, .complete), (⟨0, .T⟩, .partialData)] := by decide
example : (Dir.run {} (exFail.flatMap Op.steps)).cleanup.files = [(⟨1, .F⟩, .complete)] := by decide

/-- the monitor rejects writing under the final name … -/
example : (Dir.run {} [.creat ⟨0, .F⟩]).ok = false := by decide

/-- … renaming before the compressed stream is closed … -/
example : (Dir.run {} [.creat ⟨0, .T⟩, .rename ⟨0, .T⟩ ⟨0, .F⟩]).ok = false := by decide

/-- … writing to `T` between close and rename … -/
example : (Dir.run {} [.creat ⟨0, .T⟩, .close ⟨0, .T⟩, .write ⟨0, .T⟩, .rename ⟨0, .T⟩ ⟨0, .F⟩]).ok = false := by
  decide

/-- … and renaming onto an existing final name (time-stamp collision) -/
example : (Dir.run {} (stopSteps 0 ++ startSteps 0 ++ stopSteps 0)).ok = false := by decide

/-- without the trailing `*` in the pattern the scratch file `S` would survive clean-up -/
example : removedByCleanup "*.cptv.temp" "20260927.120000.000" .S = false := by
  simp [removedByCleanup, fileName, suffixOf, globMatch]

example : IsStamp "20260927.120000.000" := by unfold IsStamp; decide

end TR.C10
