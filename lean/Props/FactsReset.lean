import Generated.Facts
/-! # Source facts — C07 C09 C15: MotionProcessor.Reset (re-extracted by tools/gofacts at every check; one small module per concern so
that a rewrite of one function re-opens only the obligations of the properties that depend on it) -/
namespace TR.FactsProc
open Facts

/-- C09/C15: a camera reset ends the recording in progress and then restarts the detector unconditionally -/
theorem processor_reset_body : processorResetBody = "mp.stopRecording();mp.motionDetector.Reset(camera)" := rfl

end TR.FactsProc
