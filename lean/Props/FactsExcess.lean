import Generated.Facts
/-! # Source facts — C17: the continuous recorder's disk management as `TR/Excess` models it (re-extracted by tools/gofacts
at every check): the pattern `*.cptv*`, the loop ends as soon as more than 30 % is free, the first match is removed -/
namespace TR.FactsExcess
open Facts

theorem excess_loop_shape :
    excessGlobExpr = "\"*.cptv*\"" ∧ excessStopTest = "percentageLeft > 30" ∧ excessVictimExpr = "matches[0]" := by decide

end TR.FactsExcess
