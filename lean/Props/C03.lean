import Proofs.ProcProto03
/-!
# C03 — recording length

Quantifier: every configuration with ring capacity `K ≥ 1` and `0 ≤ minF ≤ maxF`, any `trig`, continuous
recorder on/off; every finite list of events (motion / still / rejected frames, resets, test-recording
requests); every placement of environment faults EXCEPT a failing `WriteFrame` on the motion sink
(window closed, disk check failing, `StartRecording` / `StopRecording` failing, continuous / test sink
faults are all covered).

`K ≥ 1` is necessary: with `K = 0` the Go slice expression in `GetHistory` panics; the model marks that
with `Obs.panic` and continues with the old `writeUntil`, which makes the monitor fail (see the
counterexample at the end of this file).
-/
namespace TR.C03
open TR TR.PState TR.P03

def NoWriteFaults (evs : List Ev) : Prop := ∀ ev ∈ evs, ev.faults.mWriteFail = 0

/-- **C03.** Recording length: a recording ends exactly at the first post-trigger frame `p` (trigger
frame = 1) with `p ≥ min maxF (L(p) - 1 + minF)`, `L(p)` = index of the last motion frame so far — for all
motion patterns, refused starts, bad frames, resets, all `0 ≤ minF ≤ maxF`. -/
theorem c03_length_monitor (c : PCfg) (hK : 0 < c.K) (hmm : c.minF ≤ c.maxF) (evs : List Ev)
    (hw : NoWriteFaults evs) :
    monC03 c.minF c.maxF (PState.trace c (PState.init c) evs) = [] :=
  (i3_trace c hmm evs (PState.init c) {} hw (i3_init c hK)).fails

/-- the monitor's counters agree with the model after every event list: `p` is `framesWritten`,
and `writeUntil` is the limit `min maxF (l - 1 + minF)` computed from the last motion frame `l` -/
theorem c03_monitor_tracks (c : PCfg) (hK : 0 < c.K) (hmm : c.minF ≤ c.maxF) (evs : List Ev)
    (hw : NoWriteFaults evs) :
    ((PState.trace c (PState.init c) evs).foldl (M3.step c.minF c.maxF) {}).openRec
      = (PState.after c (PState.init c) evs).isRec ∧
    ((PState.after c (PState.init c) evs).isRec = true →
      (PState.after c (PState.init c) evs).framesWritten
        = ((PState.trace c (PState.init c) evs).foldl (M3.step c.minF c.maxF) {}).p ∧
      (PState.after c (PState.init c) evs).writeUntil
        = min c.maxF (((PState.trace c (PState.init c) evs).foldl (M3.step c.minF c.maxF) {}).l - 1 + c.minF)) := by
  have h := i3_trace c hmm evs (PState.init c) {} hw (i3_init c hK)
  exact ⟨h.openEq, fun hr => ⟨(h.recd hr).1, (h.recd hr).2.2.2.1⟩⟩

/-- **Upper bound.** Whenever a recording is still open after an event, fewer than `maxF` post-trigger
frames have been written (so a recording never holds more than `max 1 maxF` post-trigger frames: the next
frame either is the `maxF`-th and ends it, or it was ended earlier) — on the monitor's counter … -/
theorem c03_open_lt_max (c : PCfg) (hK : 0 < c.K) (hmm : c.minF ≤ c.maxF) (evs : List Ev)
    (hw : NoWriteFaults evs) :
    ((PState.trace c (PState.init c) evs).foldl (M3.step c.minF c.maxF) {}).openRec = true →
    ((PState.trace c (PState.init c) evs).foldl (M3.step c.minF c.maxF) {}).p < c.maxF := by
  have h := i3_trace c hmm evs (PState.init c) {} hw (i3_init c hK)
  intro ho
  obtain ⟨_, _, _, h4, h5⟩ := h.recd (h.openEq.symm.trans ho)
  omega

/-- … and on the model: in every reachable state with a recording open, `framesWritten < writeUntil ≤ maxF`;
with none open, both counters are 0. -/
theorem c03_model_bound (c : PCfg) (hK : 0 < c.K) (hmm : c.minF ≤ c.maxF) (evs : List Ev)
    (hw : NoWriteFaults evs) :
    ((PState.after c (PState.init c) evs).isRec = true →
      (PState.after c (PState.init c) evs).framesWritten < (PState.after c (PState.init c) evs).writeUntil ∧
      (PState.after c (PState.init c) evs).writeUntil ≤ c.maxF) ∧
    ((PState.after c (PState.init c) evs).isRec = false →
      (PState.after c (PState.init c) evs).framesWritten = 0 ∧ (PState.after c (PState.init c) evs).writeUntil = 0) := by
  have h := i3_trace c hmm evs (PState.init c) {} hw (i3_init c hK)
  refine ⟨fun hr => ?_, h.idle⟩
  obtain ⟨h1, _, _, h4, h5⟩ := h.recd hr
  omega

/-- **Sustained motion** (`minF ≥ 2`, hence `maxF ≥ 2`). From a reachable state with no recording open and
the motion run about to reach `trig`, `maxF` consecutive fault-free motion frames produce exactly one start
(in the first event), one post-trigger write per event (`framesWritten = i` after `i` events), and exactly
one stop, in the last event: the recording holds exactly `maxF` post-trigger frames.

For `minF ≤ 1` this is false by design of the length rule (`p ≥ min maxF (L - 1 + minF)` already holds at
the trigger frame `p = L = 1`): every recording then ends on its trigger frame — see the example below. -/
theorem c03_sustained_motion (c : PCfg) (hK : 0 < c.K) (hmm : c.minF ≤ c.maxF) (h2 : 2 ≤ c.minF)
    (evs : List Ev) (hw : NoWriteFaults evs)
    (hidle : (PState.after c (PState.init c) evs).isRec = false)
    (htrig : c.trig ≤ (PState.after c (PState.init c) evs).triggered + 1) :
    (PState.trace c (PState.after c (PState.init c) evs) (List.replicate c.maxF (.frame true {}))).map
        (fun st => hasStartOk st.obs) = true :: List.replicate (c.maxF - 1) false ∧
    (PState.trace c (PState.after c (PState.init c) evs) (List.replicate c.maxF (.frame true {}))).map
        (fun st => hasStop st.obs) = List.replicate (c.maxF - 1) false ++ [true] ∧
    (∀ i, 1 ≤ i → i < c.maxF →
      (PState.after c (PState.after c (PState.init c) evs) (List.replicate i (.frame true {}))).isRec = true ∧
      (PState.after c (PState.after c (PState.init c) evs) (List.replicate i (.frame true {}))).framesWritten = i) ∧
    (PState.after c (PState.after c (PState.init c) evs) (List.replicate c.maxF (.frame true {}))).isRec = false := by
  have h := i3_trace c hmm evs (PState.init c) {} hw (i3_init c hK)
  obtain ⟨mark, hring⟩ := h.ring
  obtain ⟨j, hj⟩ : ∃ j, c.maxF = j + 2 := ⟨c.maxF - 2, by omega⟩
  obtain ⟨g1, g2, g3, g4⟩ := sustained c h2 j hj _ mark hring hidle (h.idle hidle).1 htrig
  rw [hj]
  exact ⟨g1, g2, fun i h1 hi => g3 i h1 (by omega), g4⟩

/-! ## Non-vacuity: the monitor rejects wrong traces; the model makes recordings of the stated lengths -/

/-- a recording that runs past `minF` frames without further motion is rejected -/
example : monC03 2 5 [⟨.frame true {}, [.call .motion .start true, .call .motion (.write 0) true]⟩,
                      ⟨.frame false {}, [.call .motion (.write 1) true]⟩] = ["C03:ran-past-limit"] := by decide
/-- a recording that stops before `minF` frames is rejected -/
example : monC03 3 5 [⟨.frame true {}, [.call .motion .start true, .call .motion (.write 0) true]⟩,
                      ⟨.frame false {}, [.call .motion (.write 1) true, .call .motion .stop true]⟩]
    = ["C03:stopped-early"] := by decide

/-- motion, motion (trigger), still: the recording holds `minF = 2` post-trigger frames -/
example (c : PCfg) (hc : c = { K := 3, minF := 2, maxF := 5, trig := 2, constOn := true, testLast := 2 }) :
    (PState.trace c (PState.init c) [.frame true {}, .frame true {}, .frame false {}, .frame false {}]).map
      (fun st => (hasStartOk st.obs, hasStop st.obs))
    = [(false, false), (true, false), (false, true), (false, false)] := by
  subst hc; decide
/-- sustained motion: the recording holds `maxF = 5` post-trigger frames -/
example (c : PCfg) (hc : c = { K := 3, minF := 2, maxF := 5, trig := 2, constOn := true, testLast := 2 }) :
    (PState.trace c (PState.init c) (List.replicate 7 (.frame true {}))).map
      (fun st => (hasStartOk st.obs, hasStop st.obs))
    = [(false, false), (true, false), (false, false), (false, false), (false, false), (false, true), (false, false)] := by
  subst hc; decide
/-- the hypotheses of `c03_sustained_motion` are satisfiable -/
example (c : PCfg) (hc : c = { K := 3, minF := 2, maxF := 5, trig := 2, constOn := true, testLast := 2 }) :
    (PState.after c (PState.init c) [.frame true {}]).isRec = false ∧
    c.trig ≤ (PState.after c (PState.init c) [.frame true {}]).triggered + 1 ∧ 2 ≤ c.minF ∧ 0 < c.K ∧
    c.minF ≤ c.maxF ∧ NoWriteFaults [.frame true {}] := by
  subst hc
  refine ⟨by decide, by decide, by decide, by decide, by decide, ?_⟩
  intro ev hev
  simp only [List.mem_singleton] at hev
  subst hev; rfl

/-- `minF ≤ 1`: under sustained motion every frame starts a recording that ends on the same frame -/
example (c : PCfg) (hc : c = { K := 3, minF := 1, maxF := 5, trig := 1, constOn := true, testLast := 2 }) :
    (PState.trace c (PState.init c) (List.replicate 3 (.frame true {}))).map
      (fun st => (hasStartOk st.obs, hasStop st.obs))
    = [(true, true), (true, true), (true, true)] := by
  subst hc; decide

/-- **Counterexample for `K = 0`** (why `0 < c.K` is a hypothesis): `GetHistory` panics inside
`startRecording`, `writeUntil` keeps its old value 0, and the recording is cut after the trigger frame. -/
example (c : PCfg) (hc : c = { K := 0, minF := 2, maxF := 2, trig := 0, constOn := false, testLast := 0 }) :
    monC03 c.minF c.maxF (PState.trace c (PState.init c) [.frame true {}]) = ["C03:stopped-early"] := by
  subst hc; decide

end TR.C03
