import Generated.Facts
/-! # Source facts — C14: marker, probe length and header keys/values agreed between the daemons (re-extracted by tools/gofacts at every check; one small module per concern) -/
namespace TR.FactsWiring
open Facts

/-- C14: both daemons use the same marker, the recorder probes exactly as many bytes as the marker has,
reads frames with io.ReadFull (probe + rest), and reads every header key leptond writes -/
theorem marker_agreement : recorderClear = leptondClear ∧ recorderClear.utf8ByteSize = probeLen ∧
    recorderReadFullCalls = 2 ∧ recorderMarkerTest = "message == clearBuffer" ∧
    leptondMarkerSend = "conn.Write([]byte(clearBuffer))" := by decide

/-- C14: the recorder reads every header key the camera daemon writes; a blank line ends the header -/
theorem header_keys_agree : leptondHeaderKeys = recorderHeaderKeys ∧
    headerBlankLineTest = "strings.Trim(line, \" \") == \"\\n\"" := by decide

/-- C14: the camera daemon describes the camera with the camera's own values (resolution, frame size, fps,
brand from the lepton3 package; model, 64-bit serial and firmware as read from the camera) -/
theorem leptond_header_values : leptondHeaderValues =
    "headers.Brand:lepton3.Brand;headers.FPS:camera.FPS();headers.Firmware:firmware;headers.FrameSize:lepton3.BytesPerFrame;headers.Model:model;headers.Serial:serial;headers.XResolution:camera.ResX();headers.YResolution:camera.ResY()" :=
  rfl

end TR.FactsWiring
