import Proofs.ProcProto12
/-!
# C13 (processor part) — bad frames are never recorded or buffered and end the recording cleanly

Quantifier: every configuration with ring capacity ≥ 1, every event list (valid / bad frames,
resets, test requests) with every fault placement.  `monC13` checks, per event: no sink is ever
handed the content a rejected frame left in the ring slot (id `garbage`), a bad frame produces no
write and no start on any sink, and a motion recording open at a bad frame is stopped in that
same step.

Added hypothesis `hlen : evs.length < garbage`: frame ids are accepted-frame indices and the
monitor reserves the id `garbage = 4000000000` as the sentinel for rejected content, so the
statement is only meaningful while fewer than `garbage` frames have been accepted.  Without the
bound the statement is false for the model — `TR.c13_needs_bound` (Proofs.ProcProto12) shows the
run of `garbage + 1` plain frames with the continuous recorder on is flagged, because the frame
whose index happens to be `garbage` is written.  (`TR.c13_bounded` proves the slightly stronger
`evs.length ≤ garbage` version.)

Unbounded statement, not provable as such:
`theorem c13_bad_frames (c : PCfg) (hK : 0 < c.K) (evs : List Ev) :
    monC13 (PState.trace c (PState.init c) evs) = []`
-/
namespace TR.C13
open TR

theorem c13_bad_frames (c : PCfg) (hK : 0 < c.K) (evs : List Ev) (hlen : evs.length < garbage) :
    monC13 (PState.trace c (PState.init c) evs) = [] :=
  c13_bounded c hK evs (Nat.le_of_lt hlen)

/-- non-vacuity: the monitor rejects a write during a bad frame, a recording left open across a
bad frame, and a write of the rejected content; and in a concrete run of the model a bad frame
arriving during a recording does stop it (and the continuous recorder) without any write -/
example :
    monC13 [⟨.bad {}, [.call .const (.write 3) true]⟩] ≠ [] ∧
    monC13 [⟨.frame true {}, [.call .motion .start true]⟩, ⟨.bad {}, []⟩] ≠ [] ∧
    monC13 [⟨.frame true {}, [.call .motion (.write garbage) true]⟩] ≠ [] ∧
    (let c : PCfg := ⟨3, 5, 9, 1, true, 20⟩
     (PState.trace c (PState.init c) [.frame true {}, .bad {}]).map (·.obs) =
       [[.md, .call .motion .can true, .call .motion .start true, .rs, .call .motion (.write 0) true,
         .call .const .start true, .call .const (.write 0) true],
        [.re, .call .motion .stop true, .call .const .stop true]]) := by
  decide

end TR.C13
