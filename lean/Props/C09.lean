import TR.DetSpec
import Proofs.DetC09
/-!
# C09 — FFC quiet period; detection does not depend on frames from before an FFC period / a reset

"No frame taken within 10 s after a flat-field correction (FFC), nor the frame directly following
that period, is ever reported as motion.  Once an FFC period has passed - or, with a fixed
threshold, after a camera reset - detection results no longer depend on the content of any frame
from before it."

In the model a frame event carries the flag `ffc` (= the frame was taken within the FFC period).

* (a) `c09a_step`, `c09a_affected`, `c09a_run`: quiet frames.  Every configuration, every event list.
* (c) `c09c_reset_independence`: fixed threshold, two prefixes of the same shape (same constructors
  and FFC flags, arbitrary frame contents), then `Reset`, then any common suffix: same verdicts.
* (b) `c09b_ffc_independence_fixed`: the same with an FFC-affected frame instead of the `Reset`.
  `c09b_ffc_independence_dynamic_partial`: any threshold mode, but no `Reset` in the prefix or the
  suffix.  The full statement for the dynamic threshold is false (finding F7: `Reset` zeroes
  `backgroundFrames` but keeps `tempThresh`); the counterexample is checked below.

The hypothesis `1 ≤ c.countThresh` of the statements is not used by the proofs: right after a
`Reset` the frame is compared with itself, so the pixel count is 0 in *both* runs and the verdicts
agree whatever `countThresh` is (the primed versions are stated without it).
-/
namespace TR.C09
open TR

/-! ## (a) quiet frames -/

/-- A frame that is FFC-affected, or whose predecessor was, is never reported as motion. -/
theorem c09a_step (F : FloatOps) (c : DCfg) (d : Det F) (f : Frame) (ffc : Bool)
    (h : ffc = true ∨ d.affected = true) : (Det.detect c d f ffc).2 = false :=
  P09.detect_quiet c d f ffc h

/-- The detector remembers exactly the FFC flag of the last frame. -/
theorem c09a_affected (F : FloatOps) (c : DCfg) (d : Det F) (f : Frame) (ffc : Bool) :
    (Det.detect c d f ffc).1.affected = ffc :=
  P09.detect_affected c d f ffc

/-- which outputs must be false: the frame is FFC-affected or the previous frame (resets skipped) was -/
def mustBeQuiet : Bool → List DEv → List Bool
  | _, [] => []
  | prev, .frame _ ffc :: es => (ffc || prev) :: mustBeQuiet ffc es
  | prev, .reset :: es => mustBeQuiet prev es

/-- (a) from an arbitrary detector state -/
theorem c09a_run_from (F : FloatOps) (c : DCfg) (evs : List DEv) (d : Det F) (i : Nat)
    (h : (mustBeQuiet d.affected evs)[i]? = some true) : (Det.outputs c d evs)[i]? = some false := by
  induction evs generalizing d i with
  | nil => simp [mustBeQuiet] at h
  | cons e es ih =>
    cases e with
    | frame f ffc =>
      simp only [Det.outputs, Det.stepEv]
      simp only [mustBeQuiet] at h
      cases i with
      | zero =>
        simp only [List.getElem?_cons_zero, Option.some.injEq, Bool.or_eq_true] at h ⊢
        exact c09a_step F c d f ffc h
      | succ j =>
        simp only [List.getElem?_cons_succ] at h ⊢
        apply ih
        rw [c09a_affected]
        exact h
    | reset =>
      simp only [Det.outputs, Det.stepEv]
      simp only [mustBeQuiet] at h
      exact ih d.reset i h

/-- (a) No frame within an FFC period, nor the frame following it, is reported as motion —
every configuration, every event list (resets anywhere). -/
theorem c09a_run (F : FloatOps) (c : DCfg) (evs : List DEv) (i : Nat)
    (h : (mustBeQuiet false evs)[i]? = some true) :
    (Det.outputs c (Det.init F c) evs)[i]? = some false :=
  c09a_run_from F c evs (Det.init F c) i h

/-! ## (c), (b) independence of earlier frames -/

/-- same constructors and FFC flags, arbitrary (different) frame contents -/
inductive SameShape : List DEv → List DEv → Prop
  | nil : SameShape [] []
  | frame {f g : Frame} {ffc : Bool} {as bs} :
      SameShape as bs → SameShape (.frame f ffc :: as) (.frame g ffc :: bs)
  | reset {as bs} : SameShape as bs → SameShape (.reset :: as) (.reset :: bs)

theorem SameShape.rec' {as bs : List DEv} (h : SameShape as bs) : P09.sameShape as bs := by
  induction h with
  | nil => trivial
  | frame _ ih => exact ⟨rfl, ih⟩
  | reset _ ih => exact ih

def NoReset (evs : List DEv) : Prop := ∀ e ∈ evs, e ≠ .reset

theorem c09c_reset_independence' (F : FloatOps) (c : DCfg) (hdyn : c.dynamic = false)
    (preA preB post : List DEv) (hs : SameShape preA preB) :
    Det.outputs c (Det.after c (Det.init F c) preA) (.reset :: post) =
    Det.outputs c (Det.after c (Det.init F c) preB) (.reset :: post) :=
  P09.reset_independence F c hdyn preA preB post hs.rec'

/-- (c) Fixed threshold: after a `Reset` the verdicts do not depend on the content of any earlier frame. -/
theorem c09c_reset_independence (F : FloatOps) (c : DCfg) (hdyn : c.dynamic = false)
    (hcount : 1 ≤ c.countThresh) (preA preB post : List DEv) (hs : SameShape preA preB) :
    Det.outputs c (Det.after c (Det.init F c) preA) (.reset :: post) =
    Det.outputs c (Det.after c (Det.init F c) preB) (.reset :: post) :=
  have _ := hcount
  c09c_reset_independence' F c hdyn preA preB post hs

theorem c09b_ffc_independence_fixed' (F : FloatOps) (c : DCfg) (hdyn : c.dynamic = false)
    (preA preB : List DEv) (hs : SameShape preA preB) (f : Frame) (rest : List DEv) :
    Det.outputs c (Det.after c (Det.init F c) preA) (.frame f true :: rest) =
    Det.outputs c (Det.after c (Det.init F c) preB) (.frame f true :: rest) :=
  P09.ffc_independence_fixed F c hdyn preA preB hs.rec' f rest

/-- (b) Fixed threshold: from the first FFC-affected frame on, the verdicts do not depend on the
content of any earlier frame (the suffix may contain further FFC periods and resets). -/
theorem c09b_ffc_independence_fixed (F : FloatOps) (c : DCfg) (hdyn : c.dynamic = false)
    (hcount : 1 ≤ c.countThresh) (preA preB : List DEv) (hs : SameShape preA preB) (f : Frame)
    (rest : List DEv) :
    Det.outputs c (Det.after c (Det.init F c) preA) (.frame f true :: rest) =
    Det.outputs c (Det.after c (Det.init F c) preB) (.frame f true :: rest) :=
  have _ := hcount
  c09b_ffc_independence_fixed' F c hdyn preA preB hs f rest

theorem c09b_ffc_independence_dynamic_partial' (F : FloatOps) (c : DCfg)
    (preA preB : List DEv) (hs : SameShape preA preB) (hnr : NoReset preA) (f : Frame)
    (rest : List DEv) (hnr' : NoReset rest) :
    Det.outputs c (Det.after c (Det.init F c) preA) (.frame f true :: rest) =
    Det.outputs c (Det.after c (Det.init F c) preB) (.frame f true :: rest) :=
  P09.ffc_independence_noreset F c preA preB hs.rec' hnr f rest hnr'

/-- (b) Any threshold mode (fixed or dynamic), no `Reset` before or after: from the first
FFC-affected frame on, the verdicts do not depend on the content of any earlier frame.
Partial: the statement without `hnr`, `hnr'` is false for the dynamic threshold (F7, see below). -/
theorem c09b_ffc_independence_dynamic_partial (F : FloatOps) (c : DCfg) (hcount : 1 ≤ c.countThresh)
    (preA preB : List DEv) (hs : SameShape preA preB) (hnr : NoReset preA) (f : Frame)
    (rest : List DEv) (hnr' : NoReset rest) :
    Det.outputs c (Det.after c (Det.init F c) preA) (.frame f true :: rest) =
    Det.outputs c (Det.after c (Det.init F c) preB) (.frame f true :: rest) :=
  have _ := hcount
  c09b_ffc_independence_dynamic_partial' F c preA preB hs hnr f rest hnr'

/-! ## Non-vacuity, and the F7 counterexample -/

/-- exact toy arithmetic: weights and mean in `Nat` (with one interior pixel the mean is the pixel) -/
private def natOps : FloatOps :=
  { ω := Nat, w0 := 0, lower := fun new w bg => decide (new < bg + w), bump := (· + 1),
    α := Nat, a0 := 0, add := fun _ acc px => acc + px, trunc := fun a => a }

/-- 1×1 image, compare with the previous frame, one diff, 1 changed pixel over delta 5 = motion -/
private def cfg (dyn : Bool) : DCfg :=
  { resX := 1, resY := 1, edge := 0, gap := 1, useOneDiff := true, deltaThresh := 5, countThresh := 1,
    tempThresh := 0, threshMin := 0, threshMax := 0, warmerOnly := false, dynamic := dyn,
    previewFrames := 1, ffcPeriod := 0 }

private def fr (v : Nat) (ffc : Bool := false) : DEv := .frame (fun _ _ => v) ffc

private def run (dyn : Bool) (evs : List DEv) : List Bool :=
  Det.outputs (cfg dyn) (Det.init natOps (cfg dyn)) evs

/-- (a): the mask is neither all-true nor all-false, motion is reported outside it, and a jump of the
same size inside the period / right after it is not -/
example : mustBeQuiet false [fr 0, fr 100, fr 200 true, fr 300 true, fr 400, fr 500, fr 600] =
    [false, false, true, true, true, false, false] := by decide
example : run false [fr 0, fr 100, fr 200 true, fr 300 true, fr 400, fr 500, fr 600] =
    [false, true, false, false, false, false, true] := by decide

private def preA : List DEv := [fr 1001, fr 1000]
private def preB : List DEv := [fr 1, fr 0]
example : SameShape preA preB := .frame (.frame .nil)
example : NoReset preA := by unfold NoReset preA fr; intro e he; simp at he; rcases he with rfl | rfl <;> simp

/-- without a reset or an FFC period the verdicts do depend on the earlier frames (fixed threshold) -/
example : run false (preA ++ [fr 500]) = [false, false, true] ∧
    run false (preB ++ [fr 500]) = [false, false, true] ∧
    run false (preA ++ [fr 1000]) = [false, false, false] ∧
    run false (preB ++ [fr 1000]) = [false, false, true] := by decide

/-- (c), (b) on these prefixes: equal and not constantly false -/
example : run false (preA ++ [.reset, fr 10, fr 500]) = [false, false, false, true] ∧
    run false (preB ++ [.reset, fr 10, fr 500]) = [false, false, false, true] := by decide
example : run false (preA ++ [fr 10 true, fr 10, fr 10, fr 500]) = [false, false, false, false, false, true] ∧
    run false (preB ++ [fr 10 true, fr 10, fr 10, fr 500]) = [false, false, false, false, false, true] := by
  decide
/-- dynamic threshold, no reset: equal and not constantly false -/
example : run true (preA ++ [fr 10 true, fr 10, fr 10, fr 500]) = [false, false, false, false, false, true] ∧
    run true (preB ++ [fr 10 true, fr 10, fr 10, fr 500]) = [false, false, false, false, false, true] := by
  decide

/-- **F7**: with the dynamic threshold, `c09b` without `NoReset preA` is false.  `previewFrames = 1`;
the second frame of the prefix lowers the background, so the threshold is recomputed from the
prefix (1000 in run A, 0 in run B).  `Reset` zeroes `backgroundFrames` but keeps that threshold; the
frames after the FFC period are background frames 1 and 2 (≤ `previewFrames`, resp. unchanged), so
the stale threshold decides: run A floors 10 and 500 to 1000 (no motion), run B reports motion. -/
example : SameShape (preA ++ [.reset]) (preB ++ [.reset]) := .frame (.frame (.reset .nil))
example : run true ((preA ++ [.reset]) ++ [fr 10 true, fr 10, fr 500]) = [false, false, false, false, false] ∧
    run true ((preB ++ [.reset]) ++ [fr 10 true, fr 10, fr 500]) = [false, false, false, false, true] := by
  decide
/-- the same with the `Reset` inside the FFC period (`NoReset rest` violated) -/
example : run true (preA ++ [fr 10 true, .reset, fr 10, fr 500]) = [false, false, false, false, false] ∧
    run true (preB ++ [fr 10 true, .reset, fr 10, fr 500]) = [false, false, false, false, true] := by
  decide
/-- and (c) with the dynamic threshold: the verdicts after a `Reset` depend on the frames before it -/
example : run true (preA ++ [.reset, fr 10, fr 500]) = [false, false, false, false] ∧
    run true (preB ++ [.reset, fr 10, fr 500]) = [false, false, false, true] := by decide

end TR.C09
