import Proofs.ProcProto12
/-!
# C17 — the continuous recorder tiles the stream; a test recording is `testLast + 1` frames

Quantifier: every configuration (any `maxF`, `testLast`, recorder on or off), every event list
with arbitrary motion, bad frames, resets and test requests.  `monC17` predicts, from its own
counters, the exact call list each valid frame must produce on the continuous sink (start at
position 0, one write of the frame's id, stop after `maxF + 1` frames; a bad frame closes the
file) and on the test sink (start on the first frame after a request, one write per frame, stop
after `testLast + 1` frames), independently of everything on the motion sink.  As in the monitor,
the claim stops applying once a continuous/test sink call was made to fail or a request
overlapped a test recording (`tainted`).  The ring capacity plays no role (`hK` is unused).
-/
namespace TR.C17
open TR

theorem c17_continuous_and_test (c : PCfg) (hK : 0 < c.K) (evs : List Ev) :
    monC17 c (PState.trace c (PState.init c) evs) = [] :=
  have _ := hK
  c17_all c evs

/-- non-vacuity: the monitor rejects a frame the continuous recorder skipped and a test recording
that does not start on the frame after the request; and a concrete run of the model (`maxF = 1`,
`testLast = 1`) produces two-frame continuous files and a two-frame test file -/
example :
    (let c : PCfg := ⟨3, 5, 1, 1, true, 1⟩
     monC17 c [⟨.frame false {}, []⟩] ≠ [] ∧
     monC17 c [⟨.testReq, []⟩,
       ⟨.frame false {}, [.call .const .start true, .call .const (.write 0) true]⟩] ≠ [] ∧
     (PState.trace c (PState.init c) [.frame false {}, .testReq, .frame false {}, .frame false {}]).map
         (·.obs) =
       [[.call .const .start true, .call .const (.write 0) true],
        [],
        [.call .const (.write 1) true, .call .const .stop true,
         .call .test .start true, .call .test (.write 1) true],
        [.call .const .start true, .call .const (.write 2) true,
         .call .test (.write 2) true, .call .test .stop true]]) := by
  decide

end TR.C17
