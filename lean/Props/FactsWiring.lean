import Props.FactsThrottleWiring
import Props.FactsMarker
import Props.FactsParserSel
import Props.FactsWriterHandoff
/-! # Source facts about the daemon wiring (C05, C06, C11, C13, C14, C18): the theorems live in the imported modules
(namespace `TR.FactsWiring`), one module per concern -/
