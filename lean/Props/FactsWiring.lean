import Generated.Facts
/-! # Source facts about the daemon wiring (C05, C10, C14, C18) -/
namespace TR.FactsWiring
open Facts

/-- C05: the throttle wraps the motion recorder iff `thermal-throttler.activate`, its minimum clip is
min-secs + preview-secs, and the continuous recorder is a plain (unthrottled) file recorder -/
theorem throttle_wiring : throttleGuardExpr = "conf.Throttler.Activate" ∧
    throttleMinSecsExpr = "conf.Recorder.MinSecs + conf.Recorder.PreviewSecs" ∧
    constantRecorderCtor = "NewCPTVFileRecorder" := by decide

/-- C14: both daemons use the same marker, the recorder probes exactly as many bytes as the marker has,
reads frames with io.ReadFull (probe + rest), and reads every header key leptond writes -/
theorem marker_agreement : recorderClear = leptondClear ∧ recorderClear.utf8ByteSize = probeLen ∧
    recorderReadFullCalls = 2 ∧ recorderMarkerTest = "message == clearBuffer" ∧
    leptondMarkerSend = "conn.Write([]byte(clearBuffer))" := by decide

theorem header_keys_agree : leptondHeaderKeys = recorderHeaderKeys ∧
    headerBlankLineTest = "strings.Trim(line, \" \") == \"\\n\"" := by decide

/-- C14: the camera daemon describes the camera with the camera's own values (resolution, frame size, fps,
brand from the lepton3 package; model, 64-bit serial and firmware as read from the camera) -/
theorem leptond_header_values : leptondHeaderValues =
    "headers.Brand:lepton3.Brand;headers.FPS:camera.FPS();headers.Firmware:firmware;headers.FrameSize:lepton3.BytesPerFrame;headers.Model:model;headers.Serial:serial;headers.XResolution:camera.ResX();headers.YResolution:camera.ResY()" :=
  rfl

/-- C13: Lepton cameras are parsed by the lepton3 library's parser, Bosons by `convertRawBosonFrame`
(the two parsers `TR.Parse` models) -/
theorem frame_parser_selection : frameParserMap =
    "lepton3.Model,lepton3.Model35=>return lepton3.ParseRawFrame;\"boson\"=>return convertRawBosonFrame" := rfl

/-- C18: 256 buffers circulate between two channels of that capacity; the reader takes a spent buffer,
fills it, hands it to the writer, and closes the queue on a read error; the writer writes a frame
before returning its buffer and closes the file when the queue is closed -/
theorem writer_handoff : inFlight = 256 ∧
    writerChannels = "make(chan []byte, inFlight);make(chan []byte, inFlight)" ∧
    writerReaderOrder = "send spentFrames;recv spentFrames;io.ReadFull frame;close writeFrames;send writeFrames" ∧
    writerWriterOrder = "case <-changeFile;builder.Close;case frame, ok := <-inFrames;builder.Close;writeFrame;send outFrames" := by
  decide

end TR.FactsWiring
