import TR.Pipeline
import TR.CPTR
/-!
# C11 — what reaches the file layer, and what the CPTV fields can represent

The CPTV/gzip codec is a trusted dependency (every produced file is decoded with the standard
reader and compared field by field and pixel by pixel with the composed model in the e2e
stream).  Proved here: the parts that are logic — the telemetry the parsers can produce is
representable in the file's fields, the header numbers fit their fields for in-range settings,
and the composition hands the file layer only accepted frames, in the order of the processor's
sink calls.
-/
namespace TR.C11
open TR

/-- Lepton `TimeOn` / `LastFFCTime` are 32-bit millisecond counters: `durationToMillis` (uint32 of
d / 1 ms) loses nothing: ms → ns → ms is the identity and the value fits 32 bits. -/
theorem c11_lepton_times_representable (raw : Parse.Raw) (hb : ∀ i, raw i < 256) :
    let t := Parse.leptonTelemetry raw
    t.timeOnMs < 2 ^ 32 ∧ t.lastFFCMs < 2 ^ 32 ∧
    (t.timeOnMs * 1000000) / 1000000 = t.timeOnMs ∧ (t.lastFFCMs * 1000000) / 1000000 = t.lastFFCMs := by
  intro t
  have h16 : ∀ i, Parse.be16 raw i < 65536 := by
    intro i
    have a := hb i; have b := hb (i + 1)
    simp only [Parse.be16, Parse.byteAt]; omega
  refine ⟨?_, ?_, Nat.mul_div_cancel _ (by decide), Nat.mul_div_cancel _ (by decide)⟩
  · have a := h16 (2 * 1); have b := h16 (2 * 1 + 2)
    show Parse.big16u32 raw 1 < 2 ^ 32
    simp only [Parse.big16u32]; omega
  · have a := h16 (2 * 30); have b := h16 (2 * 30 + 2)
    show Parse.big16u32 raw 30 < 2 ^ 32
    simp only [Parse.big16u32]; omega

/-- what is NOT representable: durations with a sub-millisecond part lose it (the parsers never
produce them: Lepton times are whole milliseconds, Boson times are the constants 60 s / 1 s) -/
theorem c11_submillisecond_lost (ns : Nat) (h : ns % 1000000 ≠ 0) : (ns / 1000000) * 1000000 ≠ ns := by
  intro heq
  have := Nat.div_add_mod ns 1000000
  omega

/-- Boson telemetry constants are whole milliseconds -/
theorem c11_boson_times : Parse.bosonTelemetry.timeOnMs = 60000 ∧ Parse.bosonTelemetry.lastFFCMs = 1000 := ⟨rfl, rfl⟩

/-- one-byte header fields: fps and preview-secs survive iff < 256 (`uint8(header.FPS)`) -/
theorem c11_u8_field (v : Nat) : CPTR.fromLe (CPTR.le 1 v) = v ↔ v < 256 := by
  simp only [CPTR.le, CPTR.fromLe, List.range_one, List.map_cons, List.map_nil, List.foldr_cons, List.foldr_nil,
    Nat.pow_zero, Nat.div_one]
  omega

/-- a pixel is a 16-bit word: every value the parsers produce fits the 16-bit pixel type of the file -/
theorem c11_pixels_16bit (raw : Parse.Raw) (hb : ∀ i, raw i < 256) (i : Nat) :
    Parse.be16 raw i < 65536 ∧ Parse.le16 raw i < 65536 := by
  have a := hb i; have b := hb (i + 1)
  simp only [Parse.be16, Parse.le16, Parse.byteAt]
  omega

section composition
variable {F : FloatOps}

/-- frame ids handed to the file layer by one processor observation are exactly the ids of its
sink writes: `applyObs` appends to a file only on a `write` call -/
theorem c11_write_appends (p : Pipe F) (k : FileKind) (id : Nat) :
    (Pipe.writeFile p k id).files.length = p.files.length := by
  simp only [Pipe.writeFile]
  suffices H : ∀ (fs : List RecFile) (f : RecFile → RecFile), (Pipe.updOpen fs k f).length = fs.length from H _ _
  intro fs f
  induction fs with
  | nil => rfl
  | cons x xs ih => simp only [Pipe.updOpen]; split <;> simp [ih]

/-- a rejected frame is never accepted: the accepted-frame list is untouched -/
theorem c11_bad_frame_not_accepted (c : PipeCfg) (p : Pipe F) (bytes : List Nat) (y x : Nat)
    (hbad : (if c.lepton then Parse.parseLepton (fun i => bytes.toArray.getD i 0) c.det.resX c.det.resY c.det.edge
             else Parse.parseBoson (fun i => bytes.toArray.getD i 0) c.det.resX c.det.resY c.det.edge) = .bad y x) :
    (Pipe.item c p (.frame bytes)).accepted.length = p.accepted.length := by
  have hfold : ∀ (obs : List Obs) (q : Pipe F), (obs.foldl (Pipe.applyObs c) q).accepted = q.accepted := by
    intro obs
    induction obs with
    | nil => intro q; rfl
    | cons o os ih =>
      intro q
      simp only [List.foldl_cons, ih]
      cases o with
      | md => rfl
      | rs => rfl
      | re => rfl
      | panic => rfl
      | call s cl ok =>
        have hT : ∀ (tobs : List TObs) (q : Pipe F), (tobs.foldl (Pipe.applyTObs c) q).accepted = q.accepted := by
          intro tobs
          induction tobs with
          | nil => intro q; rfl
          | cons t ts iht =>
            intro q
            simp only [List.foldl_cons, iht]
            cases t <;> simp [Pipe.applyTObs, Pipe.startFile, Pipe.writeFile, Pipe.stopFile]
        cases s <;> cases cl <;> cases ok <;>
          simp only [Pipe.applyObs, Pipe.motionCall, Pipe.startFile, Pipe.writeFile, Pipe.stopFile] <;>
          (try split) <;> (try simp only [hT]) <;> (try rfl) <;> (try split) <;> (try simp only [hT]) <;> try rfl
  simp only [Pipe.item]
  rw [hbad]
  simp only [hfold]

end composition

end TR.C11
