import TR.Parse
/-!
# C13 (parsing): a raw frame is rejected iff it has a zero pixel outside the edge border;
valid frames are decoded pixel-exactly, Lepton telemetry word-exactly — both formats
-/
namespace TR.C13P
open TR.Parse

theorem mem_coords (w h y x : Nat) : (y, x) ∈ coords w h ↔ y < h ∧ x < w := by
  unfold coords
  simp only [List.mem_flatMap, List.mem_range, List.mem_map, Prod.mk.injEq]
  constructor
  · rintro ⟨a, ha, b, hb, rfl, rfl⟩; exact ⟨ha, hb⟩
  · rintro ⟨h1, h2⟩; exact ⟨y, h1, x, h2, rfl, rfl⟩

/-- **rejection ⇔ interior zero pixel**, for any word order, offset, resolution and edge -/
theorem firstBad_isSome_iff (word : Raw → Nat → Nat) (raw : Raw) (off w h edge : Nat) :
    (firstBad word raw off w h edge).isSome = true ↔
      ∃ y x, y < h ∧ x < w ∧ onEdge w h edge y x = false ∧ pixel word raw off w y x = 0 := by
  unfold firstBad
  rw [List.find?_isSome]
  constructor
  · rintro ⟨p, hp, hq⟩
    obtain ⟨y, x⟩ := p
    have := (mem_coords w h y x).mp hp
    simp only [Bool.and_eq_true, Bool.not_eq_true', beq_iff_eq] at hq
    exact ⟨y, x, this.1, this.2, hq.1, hq.2⟩
  · rintro ⟨y, x, hy, hx, he, hz⟩
    exact ⟨(y, x), (mem_coords w h y x).mpr ⟨hy, hx⟩, by simp [he, hz]⟩

/-- the reported bad pixel is an interior zero pixel -/
theorem firstBad_spec (word : Raw → Nat → Nat) (raw : Raw) (off w h edge : Nat) (p : Nat × Nat)
    (hb : firstBad word raw off w h edge = some p) :
    p.1 < h ∧ p.2 < w ∧ onEdge w h edge p.1 p.2 = false ∧ pixel word raw off w p.1 p.2 = 0 := by
  unfold firstBad at hb
  have hm := List.mem_of_find?_eq_some hb
  have hq := List.find?_some hb
  have := (mem_coords w h p.1 p.2).mp hm
  simp only [Bool.and_eq_true, Bool.not_eq_true', beq_iff_eq] at hq
  exact ⟨this.1, this.2, hq.1, hq.2⟩

/-- **Lepton.** Bad frame iff an interior pixel word (big-endian, after the telemetry) is zero. -/
theorem c13_lepton_bad_iff (raw : Raw) (w h edge : Nat) :
    (∃ y x, parseLepton raw w h edge = .bad y x) ↔
      ∃ y x, y < h ∧ x < w ∧ onEdge w h edge y x = false ∧ be16 raw (640 + 2 * (y * w + x)) = 0 := by
  have key := firstBad_isSome_iff be16 raw leptonTelemetryBytes w h edge
  unfold parseLepton
  cases hf : firstBad be16 raw leptonTelemetryBytes w h edge with
  | none =>
    rw [hf] at key
    simp only [Option.isSome_none, Bool.false_eq_true, false_iff] at key
    constructor
    · rintro ⟨y, x, h⟩; cases h
    · intro h; exact absurd h key
  | some p =>
    rw [hf] at key
    simp only [Option.isSome_some, true_iff] at key
    exact ⟨fun _ => key, fun _ => ⟨p.1, p.2, rfl⟩⟩

/-- **Lepton, valid frame**: every pixel is the big-endian word at its position; telemetry fields are the
specified words (TimeOn / LastFFCTime in ms with Big16 32-bit order, temperatures in centi-kelvin). -/
theorem c13_lepton_ok (raw : Raw) (w h edge : Nat) (pix : Nat → Nat → Nat) (t : Telemetry)
    (hok : parseLepton raw w h edge = .ok pix t) :
    (∀ y x, pix y x = byteAt raw (640 + 2 * (y * w + x)) * 256 + byteAt raw (640 + 2 * (y * w + x) + 1)) ∧
    t.timeOnMs = be16 raw 2 + be16 raw 4 * 65536 ∧
    t.lastFFCMs = be16 raw 60 + be16 raw 62 * 65536 ∧
    t.fpaTempCK = be16 raw 48 ∧ t.fpaTempLastFFCCK = be16 raw 58 ∧
    (∀ y x, y < h → x < w → onEdge w h edge y x = false → pix y x ≠ 0) := by
  unfold parseLepton at hok
  cases hf : firstBad be16 raw leptonTelemetryBytes w h edge with
  | some p => rw [hf] at hok; cases hok
  | none =>
    rw [hf] at hok
    simp only [Result.ok.injEq] at hok
    obtain ⟨rfl, rfl⟩ := hok
    refine ⟨fun y x => rfl, rfl, rfl, rfl, rfl, ?_⟩
    intro y x hy hx he hz
    have key := (firstBad_isSome_iff be16 raw leptonTelemetryBytes w h edge).mpr ⟨y, x, hy, hx, he, hz⟩
    rw [hf] at key; cases key

/-- **Boson.** Bad frame iff an interior pixel word (little-endian, from byte 0) is zero. -/
theorem c13_boson_bad_iff (raw : Raw) (w h edge : Nat) :
    (∃ y x, parseBoson raw w h edge = .bad y x) ↔
      ∃ y x, y < h ∧ x < w ∧ onEdge w h edge y x = false ∧ le16 raw (2 * (y * w + x)) = 0 := by
  have key := firstBad_isSome_iff le16 raw 0 w h edge
  unfold parseBoson
  cases hf : firstBad le16 raw 0 w h edge with
  | none =>
    rw [hf] at key
    simp only [Option.isSome_none, Bool.false_eq_true, false_iff] at key
    constructor
    · rintro ⟨y, x, h⟩; cases h
    · intro h
      obtain ⟨y, x, a, b, c, d⟩ := h
      exact absurd ⟨y, x, a, b, c, by simpa [pixel] using d⟩ key
  | some p =>
    rw [hf] at key
    simp only [Option.isSome_some, true_iff] at key
    refine ⟨fun _ => ?_, fun _ => ⟨p.1, p.2, rfl⟩⟩
    obtain ⟨y, x, a, b, c, d⟩ := key
    exact ⟨y, x, a, b, c, by simpa [pixel] using d⟩

theorem c13_boson_ok (raw : Raw) (w h edge : Nat) (pix : Nat → Nat → Nat) (t : Telemetry)
    (hok : parseBoson raw w h edge = .ok pix t) :
    (∀ y x, pix y x = byteAt raw (2 * (y * w + x)) + byteAt raw (2 * (y * w + x) + 1) * 256) ∧
    t = bosonTelemetry := by
  unfold parseBoson at hok
  cases hf : firstBad le16 raw 0 w h edge with
  | some p => rw [hf] at hok; cases hok
  | none =>
    rw [hf] at hok
    simp only [Result.ok.injEq] at hok
    obtain ⟨rfl, rfl⟩ := hok
    exact ⟨fun y x => by simp [pixel, le16], rfl⟩

/-- the border / interior boundary: a zero pixel in the border never rejects a frame -/
theorem c13_border_zero_ignored (w h edge y x : Nat) (hb : y < edge ∨ x < edge ∨ y ≥ h - edge ∨ x ≥ w - edge) :
    onEdge w h edge y x = true := by
  unfold onEdge
  rcases hb with h1 | h1 | h1 | h1 <;> simp [h1]

/-! non-vacuity: 3×3, edge 1 — only the centre pixel is interior -/
example : (match parseBoson (ofList [1,0, 1,0, 1,0,  1,0, 0,0, 1,0,  1,0, 1,0, 1,0]) 3 3 1 with
           | .bad y x => y == 1 && x == 1 | .ok _ _ => false) = true := by decide
example : (match parseBoson (ofList [0,0, 0,0, 0,0,  0,0, 5,1, 0,0,  0,0, 0,0, 0,0]) 3 3 1 with
           | .ok pix _ => pix 1 1 == 261 | .bad _ _ => false) = true := by decide

end TR.C13P
