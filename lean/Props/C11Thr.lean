import TR.ThrMon
import Proofs.Throttle
/-!
# C11 (threshold at trigger time, through the throttle)

Every file the throttle starts — at once, or deferred into the middle of a trigger once the
budget is back — is started with the background / threshold handed over by the most recent
upstream `StartRecording`, for every request list, clock and base-failure pattern.
-/
namespace TR.C11T
open TR

/-- invariant: while the upstream recording is open the stored tag is the last upstream start's -/
def Rel (u : UState) (m : M11) : Prop :=
  m.fails = [] ∧ (u.upOpen = true → m.lastTag = some u.t.tag)

theorem maybeStart_obs (s : TState) (t tag : Nat) (ok : Bool) :
    ∀ o ∈ (s.maybeStart t tag ok).2.1, ∃ b, o = TObs.bStart tag b := by
  intro o ho
  unfold TState.maybeStart at ho
  simp only at ho
  split at ho
  · split at ho
    · simp only [List.mem_singleton] at ho; exact ⟨false, ho⟩
    · simp only [List.mem_singleton] at ho; exact ⟨true, ho⟩
  · simp at ho

theorem maybeStart_tag (s : TState) (t tag : Nat) (ok : Bool) : (s.maybeStart t tag ok).1.tag = s.tag := by
  unfold TState.maybeStart; simp only; split
  · split <;> rfl
  · rfl

theorem stopRec_tag (s : TState) (ok : Bool) : (s.stopRec ok).1.tag = s.tag ∧ ∀ o ∈ (s.stopRec ok).2.1, ∃ b, o = TObs.bStop b := by
  unfold TState.stopRec; split
  · exact ⟨rfl, by intro o ho; simp only [List.mem_singleton] at ho; exact ⟨_, ho⟩⟩
  · exact ⟨rfl, by intro o ho; simp at ho⟩

/-- no base start with a tag other than `tg` among the observations -/
def OnlyTag (tg : Nat) (obs : List TObs) : Prop := ∀ o ∈ obs, ∀ t b, o = TObs.bStart t b → t = tg

theorem takeAndWrite_spec (s : TState) (t id : Nat) (wok pok : Bool) (pre : List TObs) (tg : Nat) (hp : OnlyTag tg pre) :
    (s.takeAndWrite t id wok pok pre).1.tag = s.tag ∧ OnlyTag tg (s.takeAndWrite t id wok pok pre).2 := by
  unfold TState.takeAndWrite
  simp only
  split
  · refine ⟨rfl, ?_⟩
    intro o ho t' b he
    simp only [List.mem_append, List.mem_cons, List.mem_singleton, List.not_mem_nil, or_false] at ho
    rcases ho with h | h | h
    · exact hp o h t' b he
    · subst h; cases he
    · subst h; cases he
  · have hs := stopRec_tag { s with bucket := (s.bucket.take1 t).1 } pok
    refine ⟨hs.1, ?_⟩
    intro o ho t' b he
    simp only [List.mem_append, List.mem_singleton] at ho
    rcases ho with ((h | h) | h) | h
    · exact hp o h t' b he
    · subst h; cases he
    · obtain ⟨b', hb⟩ := hs.2 o h; subst hb; cases he
    · subst h; cases he

theorem start_spec (s : TState) (tk tag : Nat) (ok : Bool) :
    (retOk (s.step (.start tk tag ok)).2 = true → (s.step (.start tk tag ok)).1.tag = tag) ∧
    OnlyTag tag (s.step (.start tk tag ok)).2 := by
  have hms := maybeStart_obs s tk tag ok
  unfold TState.step
  simp only
  cases hr : (s.maybeStart tk tag ok).2.2 with
  | false =>
    simp only [Bool.not_false, if_true]
    constructor
    · intro h
      exfalso
      simp only [retOk, List.contains_eq_mem, List.mem_append, List.mem_singleton, decide_eq_true_eq] at h
      rcases h with h | h
      · obtain ⟨b', hb⟩ := hms _ h; cases hb
      · cases h
    · intro o ho t b he
      simp only [List.mem_append, List.mem_singleton] at ho
      rcases ho with h | h
      · obtain ⟨b', hb⟩ := hms o h; rw [hb] at he; cases he; rfl
      · subst h; cases he
  | true =>
    simp only [Bool.not_true, Bool.false_eq_true, if_false]
    refine ⟨fun _ => trivial, ?_⟩
    intro o ho t b he
    simp only [List.mem_append, List.mem_singleton] at ho
    rcases ho with (h | h) | h
    · obtain ⟨b', hb⟩ := hms o h; rw [hb] at he; cases he; rfl
    · split at h
      · simp only [List.mem_singleton] at h; subst h; cases he
      · simp at h
    · subst h; cases he

theorem step_ok (u : UState) (m : M11) (r : TReq) (obs : List TObs) (u' : UState)
    (hu : ustep u r = (u', some obs)) (h : Rel u m) : Rel u' (M11.step m ⟨r, obs⟩) := by
  obtain ⟨hf, ht⟩ := h
  cases r with
  | start tk tag ok =>
    unfold ustep at hu
    simp only at hu
    split at hu
    · cases hu
    · simp only [Prod.mk.injEq, Option.some.injEq] at hu
      obtain ⟨rfl, rfl⟩ := hu
      have hsp := start_spec u.t tk tag ok
      have hany : ((u.t.step (.start tk tag ok)).2.any (staleStart (some tag))) = false := by
        rw [List.any_eq_false]
        intro o ho
        cases o with
        | bStart t b => have := hsp.2 _ ho t b rfl; subst this; simp [staleStart]
        | _ => simp [staleStart]
      refine ⟨?_, ?_⟩
      · simp only [M11.step, M11.tagAfter, hany]; exact hf
      · intro hopen
        simp only [M11.step, M11.tagAfter, hany]
        simp only [Bool.false_eq_true, if_false]
        rw [hsp.1 hopen]
  | write tk id a b c =>
    unfold ustep at hu
    simp only at hu
    split at hu
    · cases hu
    · next hopen =>
      simp only [Prod.mk.injEq, Option.some.injEq] at hu
      obtain ⟨rfl, rfl⟩ := hu
      have hopen' : u.upOpen = true := by simpa using hopen
      have hlast := ht hopen'
      have hms := maybeStart_obs u.t tk u.t.tag a
      have hmt := maybeStart_tag u.t tk u.t.tag a
      have hpre : OnlyTag u.t.tag (u.t.maybeStart tk u.t.tag a).2.1 := by
        intro o ho t b' he
        obtain ⟨b'', hb⟩ := hms o ho; rw [hb] at he; cases he; rfl
      have hspec : (u.t.step (.write tk id a b c)).1.tag = u.t.tag ∧ OnlyTag u.t.tag (u.t.step (.write tk id a b c)).2 := by
        unfold TState.step
        simp only
        split
        · exact takeAndWrite_spec u.t tk id b c [] u.t.tag (by intro o ho; simp at ho)
        · split
          · refine ⟨hmt, ?_⟩
            intro o ho t b' he
            simp only [List.mem_append, List.mem_singleton] at ho
            rcases ho with h | h
            · exact hpre o h t b' he
            · subst h; cases he
          · split
            · refine ⟨hmt, ?_⟩
              intro o ho t b' he
              simp only [List.mem_append, List.mem_singleton] at ho
              rcases ho with h | h
              · exact hpre o h t b' he
              · subst h; cases he
            · have := takeAndWrite_spec (u.t.maybeStart tk u.t.tag a).1 tk id b c _ u.t.tag hpre
              exact ⟨by rw [this.1, hmt], this.2⟩
      have hany : ((u.t.step (.write tk id a b c)).2.any (staleStart m.lastTag)) = false := by
        rw [List.any_eq_false]
        intro o ho
        cases o with
        | bStart t b' => have := hspec.2 _ ho t b' rfl; subst this; simp [staleStart, hlast]
        | _ => simp [staleStart]
      refine ⟨?_, ?_⟩
      · simp only [M11.step, M11.tagAfter, hany]; exact hf
      · intro _
        simp only [M11.step, M11.tagAfter, hany]
        simp only [Bool.false_eq_true, if_false]
        rw [hspec.1]; exact hlast
  | stop ok =>
    unfold ustep at hu
    simp only at hu
    split at hu
    · cases hu
    · simp only [Prod.mk.injEq, Option.some.injEq] at hu
      obtain ⟨rfl, rfl⟩ := hu
      have hs := stopRec_tag u.t ok
      have hany : ((u.t.step (.stop ok)).2.any (staleStart m.lastTag)) = false := by
        rw [List.any_eq_false]
        intro o ho
        unfold TState.step at ho
        simp only [List.mem_append, List.mem_singleton] at ho
        rcases ho with h | h
        · obtain ⟨b', hb⟩ := hs.2 o h; subst hb; simp [staleStart]
        · subst h; simp [staleStart]
      refine ⟨?_, ?_⟩
      · simp only [M11.step, M11.tagAfter, hany]; exact hf
      · intro h; cases h

theorem trace_ok : ∀ (reqs : List TReq) (u : UState) (m : M11), Rel u m →
    ((utrace u reqs).foldl M11.step m).fails = [] := by
  intro reqs
  induction reqs with
  | nil => intro u m h; exact h.1
  | cons r rest ih =>
    intro u m h
    rcases ustep_spec u r with hnone | ⟨up, hsome⟩
    · simp only [utrace, hnone]; exact ih u m h
    · simp only [utrace, hsome, List.foldl_cons]
      exact ih _ _ (step_ok u m r _ _ hsome h)

/-- **C11 (threshold at trigger time).** For every bucket, minimum length, request list, clock and
base-failure pattern the throttle's trace is accepted by the monitor. -/
theorem c11_threshold_at_trigger (cap q minLen : Nat) (reqs : List TReq) :
    monC11Thr (utrace { t := TState.init cap q minLen } reqs) = [] :=
  trace_ok reqs _ {} ⟨rfl, by intro h; cases h⟩

example : monC11Thr [⟨.start 0 7 true, [.bStart 7 true, .ret true]⟩, ⟨.write 0 1 true true true, [.bStart 6 true]⟩]
    = ["C11:file-started-with-stale-threshold-or-background",
       "C06:deferred-start-not-forwarded-with-the-arguments-of-the-latest-start"] := by decide

end TR.C11T
