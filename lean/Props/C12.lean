import Proofs.ProcProto12
/-!
# C12 — sinks see writes only inside start..stop; faults never crash the pipeline

Quantifier: every configuration with ring capacity ≥ 1 (continuous recorder on or off), every
list of events over {valid frame with / without motion, bad frame, reset, test-recording
request}, every placement of failures on the individual sink calls (the `Faults` record carried
by each event).  `monC12` is the executable protocol monitor of `TR.ProcMon` (start never while
open, write only while open, no `Obs.panic`); the proof is the invariant `Inv12` of
`Proofs.ProcProto12` (ring invariant + monitor state = model state).
-/
namespace TR.C12
open TR

/-- every sink sees a well-formed call sequence and nothing panics, for every event list and
every fault placement -/
theorem c12_protocol (c : PCfg) (hK : 0 < c.K) (evs : List Ev) :
    monC12 (PState.trace c (PState.init c) evs) = [] :=
  c12_protocol_all c hK evs

/-- recovery: from every reachable state, `max c.trig 1` consecutive motion frames with all gates
open and no faults lead to a successful frame write on the motion sink -/
theorem c12_recovery (c : PCfg) (hK : 0 < c.K) (evs : List Ev) :
    ∃ id, Obs.call .motion (.write id) true ∈
      (PState.trace c (PState.after c (PState.init c) evs)
        (List.replicate (max c.trig 1) (Ev.frame true {}))).flatMap (·.obs) :=
  have _ := hK
  c12_recovery_all c (PState.after c (PState.init c) evs)

/-- non-vacuity: the monitor rejects a write on a closed sink, a start on an open one and a panic;
and a concrete run of the model (trigger, test request, bad frame, re-trigger) opens all three
sinks, so the accepted traces are not the empty ones -/
example :
    monC12 [⟨.frame false {}, [.call .const (.write 0) true]⟩] ≠ [] ∧
    monC12 [⟨.frame true {}, [.call .motion .start true, .call .motion .start true]⟩] ≠ [] ∧
    monC12 [⟨.frame true {}, [.panic]⟩] ≠ [] ∧
    (let c : PCfg := ⟨3, 2, 4, 1, true, 1⟩
     let obs := (PState.trace c (PState.init c)
        [.frame false {}, .testReq, .frame true {}, .bad {}, .frame true {}]).flatMap (·.obs)
     Obs.call .motion .start true ∈ obs ∧ Obs.call .const .start true ∈ obs ∧
     Obs.call .test .start true ∈ obs ∧ Obs.call .motion (.write 0) true ∈ obs) := by
  decide

end TR.C12
