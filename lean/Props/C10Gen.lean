import TR.FS
import Proofs.FSC10
import Proofs.C10Gen
import Props.C10

/-!
# C10 over every history of lives — kill at any system call, restart, clean-up, run again, any number of times

`Props.C10` proves C10 for ONE life of the daemon, from the empty directory.  Here the daemon runs (a valid
operation sequence), is killed at an arbitrary system call (any prefix of its calls, including all of them), is
restarted (start-up clean-up `Dir.cleanup`), runs again with fresh recording ids, is killed again, and so on.

* `c10_generations_every_instant` — at every instant of every life every `.cptv` name is a complete recording
  never written in place;
* `c10_generations_cleanup` — after any history of kills the next start-up leaves complete recordings only;
* `c10_generations_keeps_finished`, `c10_generations_never_lost` — a `.cptv` entry, once there, stays (same
  status) through the rest of its life, every kill, every clean-up and every later life.

Model: `TR.FS`.  Helper lemmas: `Proofs.FSC10`, `Proofs.C10Gen`.
-/
namespace TR.C10Gen
open TR.FS TR.C10

/-- one life of the daemon: the operations it performs and the system calls that actually happened before the
kill -/
structure Life where
  ops : List Op
  pre : List Sys

/-- ids started in an operation list (`start` and `startFail`) -/
def startedIds : List Op → List Nat
  | [] => []
  | .start i :: ops => i :: startedIds ops
  | .startFail i :: ops => i :: startedIds ops
  | _ :: ops => startedIds ops

/-- lives are valid one after the other: each is a `ValidOps` sequence from no open recordings, with ids fresh
with respect to everything started in earlier lives (names are time stamps and time moves on; the recorder also
refuses a name that exists), and `pre` is a prefix of its system calls -/
inductive ValidLives : List Nat → List Life → Prop
  | nil {used} : ValidLives used []
  | cons {used l ls} : ValidOps [] used l.ops → l.pre <+: l.ops.flatMap Op.steps →
      ValidLives (startedIds l.ops ++ used) ls → ValidLives used (l :: ls)

/-- the ids used up after a list of lives (the `used` argument `ValidLives` reaches at its end) -/
def usedAfter (used : List Nat) : List Life → List Nat
  | [] => used
  | l :: ls => usedAfter (startedIds l.ops ++ used) ls

/-- the directory after a list of lives, each ended by a kill and followed by the start-up clean-up of the
next start -/
def afterLives (d : Dir) : List Life → Dir
  | [] => d
  | l :: ls => afterLives ((d.run l.pre).cleanup) ls

/-! ## One life from any boundary state, with ids -/

/-- `crash_safe` with ids: at every crash point of a valid operation sequence from a boundary state every
`.cptv` entry is complete and belongs to a recording started before or during this sequence -/
theorem crash_good {opn used : List Nat} {ops : List Op} (h : ValidOps opn used ops) :
    ∀ (d : Dir), Boundary opn used d → ∀ pre, pre <+: ops.flatMap Op.steps →
      Good (fun k => k ∈ startedIds ops ++ used) (d.run pre) := by
  induction h with
  | nil =>
    intro d hb pre hp
    have : pre = [] := by simpa using hp
    subst this
    exact hb.2.2.mono fun k hk => by simpa [startedIds] using hk.1
  | start hi _ ih =>
    intro d hb pre hp
    rw [List.flatMap_cons] at hp
    exact seq_good (op_start_good hb hi) ih (fun k hk => by simp [startedIds, hk])
      (fun k hk => by simpa [startedIds, or_left_comm] using hk) hp
  | @write _ _ i _ _ _ ih =>
    intro d hb pre hp
    rw [List.flatMap_cons] at hp
    exact seq_good (op_write_good i hb) ih (fun k hk => by simp [startedIds, hk])
      (fun k hk => by simpa [startedIds] using hk) hp
  | stop hi _ ih =>
    intro d hb pre hp
    rw [List.flatMap_cons] at hp
    exact seq_good (op_stop_good hb hi) ih (fun k hk => by simp [startedIds, hk])
      (fun k hk => by simpa [startedIds] using hk) hp
  | @discard _ _ i _ _ _ ih =>
    intro d hb pre hp
    rw [List.flatMap_cons] at hp
    exact seq_good (op_discard_good i hb) ih (fun k hk => by simp [startedIds, hk])
      (fun k hk => by simpa [startedIds] using hk) hp
  | startFail hi _ ih =>
    intro d hb pre hp
    rw [List.flatMap_cons] at hp
    exact seq_good (op_startFail_good hb hi) ih (fun k hk => by simp [startedIds, hk])
      (fun k hk => by simpa [startedIds, or_left_comm] using hk) hp

/-- kill at any system call, then start-up clean-up: a boundary state again, with no open recording and the
ids of this life used up -/
theorem boundary_restart {used : List Nat} {l : Life} {d : Dir} (hb : Boundary [] used d)
    (hops : ValidOps [] used l.ops) (hpre : l.pre <+: l.ops.flatMap Op.steps) :
    Boundary [] (startedIds l.ops ++ used) (d.run l.pre).cleanup :=
  boundary_cleanup (crash_good hops d hb l.pre hpre)

/-- the boundary invariant survives every history of lives -/
theorem boundary_afterLives {used : List Nat} {lives : List Life} (h : ValidLives used lives) :
    ∀ (d : Dir), Boundary [] used d → Boundary [] (usedAfter used lives) (afterLives d lives) := by
  induction h with
  | nil => intro d hb; exact hb
  | cons hops hpre _ ih => intro d hb; exact ih _ (boundary_restart hb hops hpre)

/-- within one life a `.cptv` entry, once there, stays: from crash point `pre` to any later crash point
`pre ++ u` (a rename onto an existing `.cptv` name would raise `bad`, and `crash_safe` excludes that) -/
theorem life_keeps {opn used : List Nat} {ops : List Op} (h : ValidOps opn used ops) {d : Dir}
    (hb : Boundary opn used d) {pre u : List Sys} (hp : pre ++ u <+: ops.flatMap Op.steps)
    {p : Name × Status} (hmem : p ∈ (d.run pre).files) (hk : p.1.kind = Kind.F) :
    p ∈ (d.run (pre ++ u)).files := by
  rw [run_append]
  refine run_keeps (fun s hs => flat_noFLoss ops s (hp.subset (List.mem_append_right _ hs))) (fun v hv => ?_)
    hmem hk
  rw [← run_append]
  have hv' : pre ++ v <+: pre ++ u := (List.prefix_append_right_inj pre).2 hv
  exact (crash_safe h d hb _ (hv'.trans hp)).1

/-! ## The theorems -/

/-- (1) at EVERY instant of EVERY life every `.cptv` name is a complete recording never written in place: after
any valid history `lives` (each killed at any system call, each followed by start-up clean-up), at any crash
point `l.pre` of one more life `l` -/
theorem c10_generations_every_instant (lives : List Life) (h : ValidLives [] lives) (l : Life)
    (hl : ValidOps [] (usedAfter [] lives) l.ops) (hp : l.pre <+: l.ops.flatMap Op.steps) :
    ((afterLives {} lives).run l.pre).ok = true :=
  (crash_good hl _ (boundary_afterLives h {} boundary_init) l.pre hp).ok

/-- (2) after ANY history of kills the next start-up clean-up leaves complete recordings only -/
theorem c10_generations_cleanup (lives : List Life) (h : ValidLives [] lives) (l : Life)
    (hl : ValidOps [] (usedAfter [] lives) l.ops) (hp : l.pre <+: l.ops.flatMap Op.steps) :
    ∀ p ∈ ((afterLives {} lives).run l.pre).cleanup.files, p.1.kind = Kind.F ∧ p.2 = Status.complete :=
  (crash_good hl _ (boundary_afterLives h {} boundary_init) l.pre hp).cleanup

/-- (3) complete recordings are never lost by a kill or a restart: every `.cptv` entry of a boundary state is
still there, with the same status, after any valid history of lives -/
theorem c10_generations_keeps_finished {used : List Nat} {lives : List Life} (h : ValidLives used lives) :
    ∀ (d : Dir), Boundary [] used d → ∀ n s, (n, s) ∈ d.files → n.kind = Kind.F →
      (n, s) ∈ (afterLives d lives).files := by
  induction h with
  | nil => intro d _ n s hmem _; exact hmem
  | cons hops hpre _ ih =>
    intro d hb n s hmem hk
    refine ih _ (boundary_restart hb hops hpre) n s (mem_cleanup ?_ hk) hk
    exact life_keeps (pre := []) hops hb hpre hmem hk

/-! ## The same, phrased over one whole history -/

theorem afterLives_append (d : Dir) (a b : List Life) :
    afterLives d (a ++ b) = afterLives (afterLives d a) b := by
  induction a generalizing d with
  | nil => rfl
  | cons l a ih => exact ih _

/-- a history is valid iff its first part is and the rest is valid after it -/
theorem validLives_append {used : List Nat} {a b : List Life} :
    ValidLives used (a ++ b) ↔ ValidLives used a ∧ ValidLives (usedAfter used a) b := by
  induction a generalizing used with
  | nil => exact ⟨fun h => ⟨.nil, h⟩, fun h => h.2⟩
  | cons l a ih =>
    constructor
    · intro h
      cases h with
      | cons hops hpre hrest => exact ⟨.cons hops hpre (ih.1 hrest).1, (ih.1 hrest).2⟩
    · rintro ⟨h1, h2⟩
      cases h1 with
      | cons hops hpre hrest => exact .cons hops hpre (ih.2 ⟨hrest, h2⟩)

/-- the hypotheses of (1) and (2) are exactly: `lives` followed by `l` is a valid history -/
theorem validLives_concat {lives : List Life} {l : Life} :
    ValidLives [] (lives ++ [l]) ↔
      ValidLives [] lives ∧ ValidOps [] (usedAfter [] lives) l.ops ∧ l.pre <+: l.ops.flatMap Op.steps := by
  rw [validLives_append]
  constructor
  · rintro ⟨h1, h2⟩
    cases h2 with
    | cons hops hpre _ => exact ⟨h1, hops, hpre⟩
  · rintro ⟨h1, hops, hpre⟩
    exact ⟨h1, .cons hops hpre .nil⟩

/-- (1'), (2') for a whole history: in life number `k` of a valid history, at every system call up to its
kill, the directory is ok, and cleaning it up leaves complete recordings only -/
theorem c10_generations_whole_history (history : List Life) (h : ValidLives [] history) (k : Nat)
    (hk : k < history.length) (pre : List Sys) (hp : pre <+: history[k].pre) :
    ((afterLives {} (history.take k)).run pre).ok = true ∧
      ∀ p ∈ ((afterLives {} (history.take k)).run pre).cleanup.files,
        p.1.kind = Kind.F ∧ p.2 = Status.complete := by
  have hsplit : history = history.take k ++ history[k] :: history.drop (k + 1) := by
    rw [← List.drop_eq_getElem_cons hk, List.take_append_drop]
  rw [hsplit, validLives_append] at h
  obtain ⟨h1, h2⟩ := h
  cases h2 with
  | cons hops hpre _ =>
    exact ⟨c10_generations_every_instant _ h1 ⟨history[k].ops, pre⟩ hops (hp.trans hpre),
      c10_generations_cleanup _ h1 ⟨history[k].ops, pre⟩ hops (hp.trans hpre)⟩

/-- (3') a `.cptv` entry present at ANY instant `pre` of ANY life `l` of a valid history (from the empty
directory) is still there, with the same status, at the end of the history — through the rest of that life, its
kill, and every later clean-up and life -/
theorem c10_generations_never_lost (lives : List Life) (l : Life) (later : List Life)
    (h : ValidLives [] (lives ++ l :: later)) (pre : List Sys) (hp : pre <+: l.pre)
    (n : Name) (s : Status) (hmem : (n, s) ∈ ((afterLives {} lives).run pre).files) (hk : n.kind = Kind.F) :
    (n, s) ∈ (afterLives {} (lives ++ l :: later)).files := by
  rw [validLives_append] at h
  obtain ⟨h1, h2⟩ := h
  cases h2 with
  | cons hops hpre hlater =>
    have hb := boundary_afterLives h1 {} boundary_init
    obtain ⟨u, hu⟩ := hp
    rw [afterLives_append]
    show (n, s) ∈ (afterLives ((afterLives {} lives).run l.pre).cleanup later).files
    refine c10_generations_keeps_finished hlater _ (boundary_restart hb hops hpre) n s (mem_cleanup ?_ hk) hk
    rw [← hu] at hpre ⊢
    exact life_keeps hops hb hpre hmem hk

/-! ## Non-vacuity -/

/-- first life: recording 0 finished, recording 1 killed inside `stop` (after `write S`, `write T`: both `T`
and `S` of recording 1 are debris) -/
private def exLife1 : Life :=
  let ops := [.start 0, .write 0, .stop 0, .start 1, .write 1, .stop 1]
  ⟨ops, (ops.flatMap Op.steps).take 16⟩

/-- second life (fresh ids 2, 3): recording 2 finished, recording 3 killed between two writes -/
private def exLife2 : Life :=
  let ops := [.start 2, .write 2, .stop 2, .start 3, .write 3, .write 3]
  ⟨ops, (ops.flatMap Op.steps).take 14⟩

private def exLives : List Life := [exLife1, exLife2]

example : ValidLives [] exLives :=
  .cons
    (.start (by decide) <| .write (by decide) <| .stop (by decide) <| .start (by decide) <|
      .write (by decide) <| .stop (by decide) .nil)
    (List.take_prefix _ _) <|
  .cons
    (.start (by decide) <| .write (by decide) <| .stop (by decide) <| .start (by decide) <|
      .write (by decide) <| .write (by decide) .nil)
    (List.take_prefix _ _) .nil

/-- the kill points are strictly inside the lives -/
example : exLife1.pre.length = 16 ∧ (exLife1.ops.flatMap Op.steps).length = 20 := by decide
example : exLife2.pre.length = 14 ∧ (exLife2.ops.flatMap Op.steps).length = 15 := by decide
example : exLife1.pre.getLast? = some (.write ⟨1, .T⟩) := by decide

/-- the first crash state: one complete `.cptv`, `T` and `S` of recording 1 as debris -/
example : (Dir.run {} exLife1.pre).files =
    [(⟨1, .T⟩, .partialData), (⟨1, .S⟩, .partialData), (⟨0, .F⟩, .complete)] := by decide

/-- the restart removes the debris -/
example : (afterLives {} [exLife1]).files = [(⟨0, .F⟩, .complete)] := by decide

/-- the second crash state: both finished recordings, debris of recording 3 -/
example : ((afterLives {} [exLife1]).run exLife2.pre).files =
    [(⟨3, .T⟩, .partialData), (⟨3, .S⟩, .partialData), (⟨2, .F⟩, .complete), (⟨0, .F⟩, .complete)] := by
  decide

example : ((afterLives {} [exLife1]).run exLife2.pre).ok = true := by decide

/-- after both lives and the next start-up exactly the complete recordings remain -/
example : (afterLives {} exLives).files = [(⟨2, .F⟩, .complete), (⟨0, .F⟩, .complete)] := by decide

example : usedAfter [] exLives = [2, 3, 0, 1] := by decide

/-- `Dir.cleanup` keeps the `sealed` field, so a stale entry survives the restart; harmless, because `Boundary`
does not mention `sealed`: ids are fresh and `stop` seals its own `T` again before it renames -/
example : (afterLives {} [exLife1]).sealed = [0] := by decide

/-- a third life may not reuse an id: `ValidOps` refuses `start 0` after these lives … -/
example : ¬ ValidOps [] (usedAfter [] exLives) [.start 0] := by
  intro h
  cases h with
  | start hi _ => exact hi (by decide)

/-- … and reusing it would indeed overwrite a finished recording in place (the monitor says not ok) -/
example : ((afterLives {} exLives).run ([Op.start 0, .write 0, .stop 0].flatMap Op.steps)).ok = false := by
  decide


end TR.C10Gen
