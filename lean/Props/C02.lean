import Props.C01
/-!
# C02 — Pre-trigger buffering: recordings start a full preview before the trigger

`Props.C01.c01_c02_monitor` already contains C02 in monitor form (`C02:wrong-first-frame` is never
reported).  This file restates it directly on the model: whenever a recording starts, the event's
observations are `MotionDetected, CheckCanRecord ok, StartRecording ok, RecordingStarted`, then the
writes of exactly the ids `lo, lo+1, …, t` (`t` = the trigger frame), then possibly the end of the
recording, then calls on the other two sinks — with `lo = max (t + 1 − K) nextFree`.

Quantifier: every configuration with `K ≥ 1`, every reachable state (any event list and fault
placement without failing motion-sink writes), every trigger position.
-/
namespace TR.C02
open TR

/-- one more than the largest id written to the motion sink so far (0 if nothing was written).
By C01 the ids are written in ascending order, so after a recording this is `1 +` its last id. -/
def nextFree (tr : List Step) : Nat :=
  tr.foldl (fun a st => st.obs.foldl (fun a o =>
    match o.isWrite .motion with
    | some (id, _) => max a (id + 1)
    | none => a) a) 0

/-- it is the `nextFree` field of the C01/C02 monitor (for any trace, not only the model's) -/
theorem nextFree_eq_monitor (K : Nat) (tr : List Step) :
    (tr.foldl (M12.step K) {}).nextFree = nextFree tr :=
  P01.trace_nextFree K tr {}

/-- **C02.** In a state `s` reached from the initial state by any events (without motion-sink write
faults) and not recording, a frame with motion that completes the trigger run while the window is open,
the disk check passes and the file can be created, starts a recording whose writes are exactly
`lo, …, s.n` in this order, where `s.n` is the id of the trigger frame and
`lo = max (s.n + 1 − K) nextFree`; nothing else is written to the motion sink during the event. -/
theorem c02_start (c : PCfg) (hK : 0 < c.K) (evs : List Ev) (hw : C01.NoWriteFaults evs) (f : Faults)
    (hwin : f.win = true) (hcan : f.can = true) (hst : f.mStart = true) (hwf : f.mWriteFail = 0) :
    let s := PState.after c (PState.init c) evs
    let lo := max (s.n + 1 - c.K) (nextFree (PState.trace c (PState.init c) evs))
    s.isRec = false → c.trig ≤ s.triggered + 1 →
    lo ≤ s.n ∧
    ∃ tail side : List Obs,
      (tail = [] ∨ tail = [Obs.re, Obs.call .motion .stop f.mStop]) ∧
      (∀ o ∈ side, ∃ cl ok, o = Obs.call .const cl ok ∨ o = Obs.call .test cl ok) ∧
      (PState.step c s (.frame true f)).2 =
        [Obs.md, Obs.call .motion .can true, Obs.call .motion .start true, Obs.rs] ++
        (List.range' lo (s.n + 1 - lo)).map (fun id => Obs.call .motion (.write id) true) ++
        tail ++ side := by
  intro s lo hrec htr
  obtain ⟨_, _, mark, hb, _, hnrec⟩ := P01.pinv_trace c evs (PState.init c) {} hw (P01.pinv_init c hK)
  have hmark : mark = nextFree (PState.trace c (PState.init c) evs) := by
    rw [hnrec hrec]; exact nextFree_eq_monitor c.K _
  have hlo : lo = loOf c.K s.n mark := by
    show max _ _ = max _ _
    rw [hmark]; exact Nat.max_comm _ _
  have hle : lo ≤ s.n := by rw [hlo]; exact loOf_le c.K s.n mark hK (rbase_mark_le hb)
  have hh : (s.ring.write s.n).history = some (List.range' lo (s.n + 1 - lo)) := by
    rw [hlo]; exact rbase_history hb
  obtain ⟨tail, side, h1, h2, h3⟩ := P01.processFrame_start c s f lo hwf hwin hcan hst hrec htr hh hle
  refine ⟨hle, tail, side, h1, ?_, h3⟩
  intro o ho
  exact (P01.offMotion_iff o).1 (List.all_eq_true.1 h2 o ho)

/-- the reach of the pre-trigger buffer: a recording holds `K − 1` frames before the trigger frame
unless fewer frames have been accepted since the previous recording (or start-up) — then it begins
right after the previous recording -/
theorem c02_reach (K n nf : Nat) (hK : 0 < K) :
    let lo := max (n + 1 - K) nf
    (nf + K ≤ n + 1 → lo + (K - 1) = n) ∧ (n + 1 ≤ nf + K → lo = nf) ∧ n + 1 - lo ≤ K := by
  intro lo
  show (nf + K ≤ n + 1 → max (n + 1 - K) nf + (K - 1) = n) ∧ (n + 1 ≤ nf + K → max (n + 1 - K) nf = nf) ∧
    n + 1 - max (n + 1 - K) nf ≤ K
  omega

/-! ### Non-vacuity -/

private def cfg : PCfg := { K := 3, minF := 2, maxF := 3, trig := 2, constOn := true, testLast := 1 }

/-- six still frames, one motion frame: the next motion frame (id 7) completes the trigger run -/
private def evs1 : List Ev :=
  [.frame false {}, .frame false {}, .frame false {}, .frame false {}, .frame false {}, .frame false {},
   .frame true {}]

example : C01.NoWriteFaults evs1 := by unfold C01.NoWriteFaults; decide
set_option maxRecDepth 8000 in
example : (PState.after cfg (PState.init cfg) evs1).isRec = false ∧
    cfg.trig ≤ (PState.after cfg (PState.init cfg) evs1).triggered + 1 ∧
    (PState.after cfg (PState.init cfg) evs1).n = 7 ∧
    nextFree (PState.trace cfg (PState.init cfg) evs1) = 0 := by decide
-- full reach: `K − 1 = 2` frames before the trigger frame 7
set_option maxRecDepth 8000 in
example : (PState.step cfg (PState.after cfg (PState.init cfg) evs1) (.frame true {})).2 =
    [.md, .call .motion .can true, .call .motion .start true, .rs,
     .call .motion (.write 5) true, .call .motion (.write 6) true, .call .motion (.write 7) true,
     .call .const (.write 7) true, .call .const .stop true] := by decide

/-- then: recording 5..8 ended by a reset, motion on 9 and 10.  Frame 10 completes the trigger run; the
buffer reaches back to 8, which is already recorded, so the new recording starts right after it, at 9. -/
private def evs2 : List Ev := evs1 ++ [.frame true {}, .frame true {}, .reset {}, .frame true {}]

set_option maxRecDepth 8000 in
example : (PState.after cfg (PState.init cfg) evs2).isRec = false ∧
    (PState.after cfg (PState.init cfg) evs2).n = 10 ∧
    nextFree (PState.trace cfg (PState.init cfg) evs2) = 9 := by decide
set_option maxRecDepth 8000 in
example : (PState.step cfg (PState.after cfg (PState.init cfg) evs2) (.frame true {})).2 =
    [.md, .call .motion .can true, .call .motion .start true, .rs,
     .call .motion (.write 9) true, .call .motion (.write 10) true,
     .call .const (.write 10) true] := by decide

end TR.C02
