import TR.Excess
import Proofs.Excess
import Props.C10Glob

/-!
# Excess — what `deleteExcessRecordings` of the continuous recorder deletes, for EVERY disk

The model is `TR.Excess` (read its header first: what a `Disk` is, truncated subtraction, `total = 0`).
`deleteExcess d : Run` is the call on the disk `d`: `.disk` the disk afterwards, `.result` the outcome
(`ok` = `return nil`, `noMoreRecordings` = the error, `divideByZero` = Go's panic when `fs.Blocks = 0`),
`.deleted` the names removed, in the order of removal.

Vocabulary: `d.matching` = the files of the directory that `*.cptv*` matches, in directory order = oldest
first; `d.unrelated` = the other files; `d.afterDeleting k` = the disk with the first `k` matching files
gone and everything else in place; `d.percentLeft` = `avail * 100 / total`.

All theorems hold for all disks: any sizes (also `other + files > total`, also `total = 0`), any names (also
repeated ones), any number of files.  No theorem has a hypothesis on the disk except where it is stated.

0. `deleteExcess_loop_equation` — the model satisfies the equation of the Go loop, no fuel in it.
1. `deleted_le_files`.
2. `deleted_is_oldest_prefix`, `only_matching_deleted`.
3. `minimal`, `ok_iff`, `noMoreRecordings_iff`, `divideByZero_iff`, `noMoreRecordings_deletes_all`.
4. `enough_room_untouched`.
5. `other_untouched`.
6. `monotone`, `run_passes_through`, `percent_never_decreases`, `ok_percent`.
7. `matchesGlob_iff` and what the pattern matches besides finished recordings.
8. Examples, evaluated by the kernel.
9. Arithmetic remarks: `more_than_30_means_31`, `percentLeftU64_eq`.
-/
namespace TR.Excess
open TR.FS

/-! ## 0. The model is the Go loop -/

/-- `deleteExcess` satisfies the equation of the Go loop: one pass through the body (`Disk.step`: panic if
`total = 0`; `ok` if more than 30 % left; else glob, error if nothing matches, else delete the first match) and,
after a deletion, the same again on the disk without that name. -/
theorem deleteExcess_loop_equation (d : Disk) :
    deleteExcess d =
      match d.step with
      | .stop r => ⟨d, r, []⟩
      | .delete n =>
        let r := deleteExcess (d.remove n)
        { r with deleted := n :: r.deleted } :=
  deleteExcessBy_equation matchesGlob d

/-- the name a pass deletes is the first matching one, and removing it by name is removing the oldest
matching file (also when names repeat) -/
theorem step_delete (d : Disk) (n : String) (h : d.step = .delete n) :
    d.total ≠ 0 ∧ d.percentLeft ≤ 30 ∧ (d.matching.head?.map (·.name) = some n) ∧
      d.remove n = d.afterDeleting 1 := by
  obtain ⟨a, b, ⟨f, rest, hm, hf⟩, c⟩ := stepBy_delete matchesGlob d n h
  refine ⟨a, b, ?_, c⟩
  show (d.matchingBy matchesGlob).head?.map (·.name) = some n
  rw [hm]; simp [hf]

/-! ## 1. Never more deletions than matching files -/

theorem deleted_le_files (d : Disk) :
    (deleteExcess d).deleted.length ≤ d.matching.length ∧ d.matching.length ≤ d.files.length :=
  ⟨(deleteExcessBy_good matchesGlob d).le, matchingBy_length_le matchesGlob d⟩

/-! ## 2. The oldest go first, nothing is skipped, nothing else is touched -/

/-- With `k` the number of deletions: the deleted names are the names of the first `k` matching files, in
that order (a PREFIX of the matching names); the directory afterwards is the original one without exactly
those `k` files: its matching files are the remaining ones, its other files are all there, and it is a
sublist of the original directory (the order is preserved). -/
theorem deleted_is_oldest_prefix (d : Disk) :
    let r := deleteExcess d
    let k := r.deleted.length
    r.deleted <+: d.matching.map (·.name) ∧
    r.deleted = (d.matching.take k).map (·.name) ∧
    r.disk = d.afterDeleting k ∧
    r.disk.matching = d.matching.drop k ∧
    r.disk.unrelated = d.unrelated ∧
    r.disk.files.Sublist d.files := by
  intro r k
  have g := deleteExcessBy_good matchesGlob d
  have hn : r.deleted = (d.matching.take k).map (·.name) := g.names
  have hd : r.disk = d.afterDeleting k := g.disk
  refine ⟨?_, hn, hd, ?_, ?_, ?_⟩
  · rw [hn, List.map_take]; exact List.take_prefix _ _
  · rw [hd]; exact matchingBy_afterDeletingBy matchesGlob d k
  · rw [hd]; exact unrelatedBy_afterDeletingBy matchesGlob d k
  · rw [hd]; exact dropOldestBy_sublist matchesGlob k d.files

/-- nothing that the pattern does not match is ever deleted -/
theorem only_matching_deleted (d : Disk) : ∀ n ∈ (deleteExcess d).deleted, matchesGlob n = true := by
  intro n hn
  have h := (deleted_is_oldest_prefix d).1
  have : n ∈ d.matching.map (·.name) := h.subset hn
  obtain ⟨f, hf, rfl⟩ := List.mem_map.mp this
  exact (List.mem_filter.mp hf).2

/-! ## 3. As few deletions as possible; when the call succeeds and when it fails -/

/-- deletion stops as early as possible: with any smaller number of deletions there was still ≤ 30 % left
(whatever the outcome) -/
theorem minimal (d : Disk) :
    ∀ j, j < (deleteExcess d).deleted.length → (d.afterDeleting j).percentLeft ≤ 30 :=
  (deleteExcessBy_good matchesGlob d).before

/-- the call returns `nil` iff deleting SOME number of the oldest matching files leaves more than 30 % -/
theorem ok_iff (d : Disk) :
    (deleteExcess d).result = .ok ↔
      ∃ j, j ≤ d.matching.length ∧ 30 < (d.afterDeleting j).percentLeft :=
  result_ok_iff matchesGlob d

/-- when the call returns `nil`, the number of deletions is the LEAST number that leaves more than 30 % -/
theorem ok_least (d : Disk) (h : (deleteExcess d).result = .ok) :
    30 < (d.afterDeleting (deleteExcess d).deleted.length).percentLeft ∧
      ∀ j, 30 < (d.afterDeleting j).percentLeft → (deleteExcess d).deleted.length ≤ j := by
  have g := deleteExcessBy_good matchesGlob d
  refine ⟨?_, ?_⟩
  · have := (g.ok h).2; rwa [g.disk] at this
  · intro j hj
    refine Nat.le_of_not_lt fun hlt => ?_
    have := minimal d j hlt
    omega

/-- the call returns the error iff even deleting ALL matching files leaves ≤ 30 % (on a file system with
`total ≠ 0`) -/
theorem noMoreRecordings_iff (d : Disk) :
    (deleteExcess d).result = .noMoreRecordings ↔
      d.total ≠ 0 ∧ (d.afterDeleting d.matching.length).percentLeft ≤ 30 :=
  result_noMore_iff matchesGlob d

/-- Go panics iff the file system reports 0 blocks; nothing is deleted then -/
theorem divideByZero_iff (d : Disk) :
    ((deleteExcess d).result = .divideByZero ↔ d.total = 0) ∧
      (d.total = 0 → deleteExcess d = ⟨d, .divideByZero, []⟩) := by
  refine ⟨result_divz_iff matchesGlob d, fun h => ?_⟩
  rw [deleteExcess_loop_equation]
  have : d.step = .stop .divideByZero := stepBy_of_total_zero matchesGlob d h
  rw [this]

/-- THE PRICE OF THE ERROR: when the call returns the error it has deleted EVERY matching file first — the
directory is left with the unrelated files only, and there is still ≤ 30 % left. -/
theorem noMoreRecordings_deletes_all (d : Disk) (h : (deleteExcess d).result = .noMoreRecordings) :
    (deleteExcess d).deleted = d.matching.map (·.name) ∧
      (deleteExcess d).disk.files = d.unrelated ∧
      (deleteExcess d).disk.matching = [] ∧
      (deleteExcess d).disk.percentLeft ≤ 30 := by
  have g := deleteExcessBy_good matchesGlob d
  obtain ⟨_, hk, hp⟩ := g.noMore h
  have hk' : (deleteExcess d).deleted.length = d.matching.length := hk
  obtain ⟨_, hn, hd, hm, _, _⟩ := deleted_is_oldest_prefix d
  refine ⟨?_, ?_, ?_, hp⟩
  · rw [hn, hk', List.take_length]
  · rw [hd, hk']
    exact dropOldestBy_of_le matchesGlob _ d.files (Nat.le_refl _)
  · rw [hm, hk', List.drop_length]

/-! ## 4. Enough room: nothing happens -/

theorem enough_room_untouched (d : Disk) (h : 30 < d.percentLeft) :
    deleteExcess d = ⟨d, .ok, []⟩ := by
  rw [deleteExcess_loop_equation]
  have : d.step = .stop .ok := stepBy_of_enough matchesGlob d h
  rw [this]

/-! ## 5. The rest of the file system is safe -/

/-- `total` and `other` (everything outside the directory: the motion recordings of the main output
directory) never change, and every file that `*.cptv*` does not match is still there, in place -/
theorem other_untouched (d : Disk) :
    (deleteExcess d).disk.total = d.total ∧
      (deleteExcess d).disk.other = d.other ∧
      (deleteExcess d).disk.unrelated = d.unrelated := by
  obtain ⟨_, _, hd, _, hu, _⟩ := deleted_is_oldest_prefix d
  refine ⟨?_, ?_, hu⟩ <;> rw [hd] <;> rfl

/-! ## 6. The free percentage during the run -/

/-- the more of the oldest files are gone, the larger (or equal) the free percentage -/
theorem monotone (d : Disk) (i j : Nat) (h : i ≤ j) :
    (d.afterDeleting i).percentLeft ≤ (d.afterDeleting j).percentLeft :=
  percentLeft_afterDeletingBy_mono matchesGlob d i j h

/-- the disks the run passes through are `d.afterDeleting 0`, `d.afterDeleting 1`, … `d.afterDeleting k`:
started from the `j`-th of them, the call does the rest of the run (same final disk, same outcome, the
remaining deletions) -/
theorem run_passes_through (d : Disk) (j : Nat) (hj : j ≤ (deleteExcess d).deleted.length) :
    deleteExcess (d.afterDeleting j) =
      { deleteExcess d with deleted := (deleteExcess d).deleted.drop j } :=
  deleteExcessBy_from matchesGlob d j hj

/-- the call never makes things worse -/
theorem percent_never_decreases (d : Disk) : d.percentLeft ≤ (deleteExcess d).disk.percentLeft := by
  have := monotone d 0 (deleteExcess d).deleted.length (Nat.zero_le _)
  rw [← (deleted_is_oldest_prefix d).2.2.1] at this
  simpa [Disk.afterDeleting] using this

/-- after `return nil` there is more than 30 % left -/
theorem ok_percent (d : Disk) (h : (deleteExcess d).result = .ok) :
    30 < (deleteExcess d).disk.percentLeft :=
  ((deleteExcessBy_good matchesGlob d).ok h).2

/-! ## 7. What `*.cptv*` matches -/

/-- the pattern matches exactly the names that contain `.cptv` somewhere (`<:+:` = contiguous block) -/
theorem matchesGlob_iff (n : String) : matchesGlob n = true ↔ ".cptv".toList <:+: n.toList := by
  unfold matchesGlob
  rw [show "*.cptv*".toList = '*' :: (".cptv".toList ++ ['*']) by decide]
  exact TR.C10Glob.glob_star_lit_star_iff _ (by decide) _

/-- `hasCptv` (`Proofs.Excess`) is the same test by structural recursion; the examples are evaluated with it -/
theorem matchesGlob_eq_hasCptv : matchesGlob = hasCptv := by
  funext n
  rw [Bool.eq_iff_iff, matchesGlob_iff, hasCptv, containsBlock_iff]

theorem deleteExcess_eval (d : Disk) : deleteExcess d = deleteExcessBy hasCptv d := by
  rw [deleteExcess, matchesGlob_eq_hasCptv]

/-- so it matches a finished recording, but also the two UNFINISHED files of a recording that is being
written, a file of any other kind whose name happens to contain `.cptv`, and not a file without it -/
theorem matches_unfinished :
    matchesGlob "20240102.030405.000.cptv" = true ∧
    matchesGlob "20240102.030405.000.cptv.temp" = true ∧
    matchesGlob "20240102.030405.000.cptv.temp.tmp" = true ∧
    matchesGlob "backup.cptv.d" = true ∧
    matchesGlob "20240102.030405.000.cpt" = false ∧
    matchesGlob "notes.txt" = false := by
  rw [matchesGlob_eq_hasCptv]; decide

/-- for every time stamp: all three names of a recording are matched -/
theorem matches_all_three (stamp : String) :
    matchesGlob (stamp ++ ".cptv") = true ∧ matchesGlob (stamp ++ ".cptv.temp") = true ∧
      matchesGlob (stamp ++ ".cptv.temp.tmp") = true := by
  simp only [matchesGlob_iff, String.toList_append]
  refine ⟨⟨stamp.toList, [], by simp⟩, ⟨stamp.toList, ".temp".toList, ?_⟩,
    ⟨stamp.toList, ".temp.tmp".toList, ?_⟩⟩
  · rw [show ".cptv.temp".toList = ".cptv".toList ++ ".temp".toList by decide]; simp
  · rw [show ".cptv.temp.tmp".toList = ".cptv".toList ++ ".temp.tmp".toList by decide]; simp

/-- a directory whose oldest name is a temporary file: 20 % left, so one deletion is needed — and the file
that goes is the temporary file, not the oldest finished recording -/
def tempFirst : Disk :=
  { total := 1000, other := 500,
    files := [⟨"20240101.235959.000.cptv.temp", 150⟩, ⟨"20240102.000500.000.cptv", 150⟩] }

theorem temp_file_deleted_first :
    tempFirst.percentLeft = 20 ∧
    deleteExcess tempFirst =
      ⟨{ tempFirst with files := [⟨"20240102.000500.000.cptv", 150⟩] }, .ok,
        ["20240101.235959.000.cptv.temp"]⟩ := by
  rw [deleteExcess_eval]; decide

/-! ## 8. Examples (not vacuous) -/

/-- 1000 blocks, 600 used elsewhere, 300 in the directory: 10 % left.  Five finished recordings of different
sizes, one temporary file among them, one unrelated file. -/
def tenPercent : Disk :=
  { total := 1000, other := 600,
    files := [⟨"20240101.000000.000.cptv", 50⟩, ⟨"20240101.010000.000.cptv", 70⟩,
              ⟨"20240101.020000.000.cptv.temp", 30⟩, ⟨"20240102.000000.000.cptv", 80⟩,
              ⟨"20240103.000000.000.cptv", 40⟩, ⟨"20240104.000000.000.cptv", 20⟩,
              ⟨"notes.txt", 10⟩] }

/-- 10 % → 15 % → 22 % → 25 % → 33 %: the four oldest matching files go (the temporary file is the third),
the two newest recordings and the unrelated file stay -/
theorem tenPercent_run :
    tenPercent.percentLeft = 10 ∧
    deleteExcess tenPercent =
      ⟨{ tenPercent with files := [⟨"20240103.000000.000.cptv", 40⟩, ⟨"20240104.000000.000.cptv", 20⟩,
                                   ⟨"notes.txt", 10⟩] },
        .ok,
        ["20240101.000000.000.cptv", "20240101.010000.000.cptv", "20240101.020000.000.cptv.temp",
         "20240102.000000.000.cptv"]⟩ ∧
    (List.range 5).map (fun j => (tenPercent.afterDeleting j).percentLeft) = [10, 15, 22, 25, 33] ∧
    (deleteExcess tenPercent).disk.percentLeft = 33 := by
  simp only [deleteExcess_eval, Disk.afterDeleting, matchesGlob_eq_hasCptv]; decide

/-- 1000 blocks, 750 used by the MAIN output directory and the rest of the system, 200 by the continuous
recorder: 5 % left.  Deleting all five recordings gives 25 %: the call deletes all five and THEN fails. -/
def mainDirFull : Disk :=
  { total := 1000, other := 750,
    files := [⟨"20240101.000000.000.cptv", 40⟩, ⟨"20240102.000000.000.cptv", 40⟩,
              ⟨"20240103.000000.000.cptv", 40⟩, ⟨"20240104.000000.000.cptv", 40⟩,
              ⟨"20240105.000000.000.cptv", 40⟩, ⟨"notes.txt", 0⟩] }

theorem mainDirFull_run :
    mainDirFull.percentLeft = 5 ∧
    deleteExcess mainDirFull =
      ⟨{ mainDirFull with files := [⟨"notes.txt", 0⟩] }, .noMoreRecordings,
        ["20240101.000000.000.cptv", "20240102.000000.000.cptv", "20240103.000000.000.cptv",
         "20240104.000000.000.cptv", "20240105.000000.000.cptv"]⟩ ∧
    (deleteExcess mainDirFull).disk.percentLeft = 25 := by
  simp only [deleteExcess_eval]; decide

/-- enough room: nothing happens; a file system of 0 blocks: the panic, nothing deleted; an over-committed
disk (truncated subtraction): 0 % -/
theorem small_examples :
    deleteExcess ⟨1000, 600, [⟨"20240101.000000.000.cptv", 50⟩]⟩ =
      ⟨⟨1000, 600, [⟨"20240101.000000.000.cptv", 50⟩]⟩, .ok, []⟩ ∧
    deleteExcess ⟨0, 0, [⟨"20240101.000000.000.cptv", 50⟩]⟩ =
      ⟨⟨0, 0, [⟨"20240101.000000.000.cptv", 50⟩]⟩, .divideByZero, []⟩ ∧
    (Disk.mk 1000 990 [⟨"20240101.000000.000.cptv", 50⟩]).percentLeft = 0 := by
  simp only [deleteExcess_eval]; decide

/-- the helper of the test driver on the first example -/
theorem expectDeleted_example :
    expectDeleted 1000 600
      [("20240101.000000.000.cptv", 50), ("20240101.010000.000.cptv", 70),
       ("20240101.020000.000.cptv.temp", 30), ("20240102.000000.000.cptv", 80),
       ("20240103.000000.000.cptv", 40), ("20240104.000000.000.cptv", 20), ("notes.txt", 10)] = (4, true) ∧
    expectDeleted 1000 750 [("20240101.000000.000.cptv", 40), ("20240102.000000.000.cptv", 40)] = (2, false) := by
  simp only [expectDeleted, deleteExcess_eval]; decide

/-! ## 9. Arithmetic remarks -/

/-- "more than 30 %" with integer division means AT LEAST 31 %: 30.9 % free still deletes -/
theorem more_than_30_means_31 (d : Disk) (h : d.total ≠ 0) :
    30 < d.percentLeft ↔ 31 * d.total ≤ d.avail * 100 :=
  percent_gt_30_iff d h

theorem almost_31_percent_deletes :
    (Disk.mk 1000 0 [⟨"20240101.000000.000.cptv", 691⟩]).avail = 309 ∧
    (deleteExcess ⟨1000, 0, [⟨"20240101.000000.000.cptv", 691⟩]⟩).deleted = ["20240101.000000.000.cptv"] := by
  simp only [deleteExcess_eval]; decide

/-- Go's `uint64` computation `(Bavail * 100) / Blocks` is the one of the model as long as `total * 100` fits
in 64 bits (file systems below 2^64 / 100 blocks: about 687 million TiB with 4 KiB blocks) -/
theorem percentLeftU64_eq (d : Disk) (h : d.total * 100 < 2 ^ 64) : d.percentLeftU64 = d.percentLeft :=
  percentLeftU64_eq_of_lt d h

/-- beyond that the product wraps: a disk of 2^63 blocks, all free, has "0 % left" in `uint64` -/
theorem percentLeftU64_wraps :
    (Disk.mk (2 ^ 63) 0 []).percentLeft = 100 ∧ (Disk.mk (2 ^ 63) 0 []).percentLeftU64 = 0 := by
  decide

end TR.Excess
