import Generated.Facts
/-! # Source facts — C05 C06 C11: how handleConn wires the throttle (re-extracted by tools/gofacts at every check; one small module per concern) -/
namespace TR.FactsWiring
open Facts

/-- C05: the throttle wraps the motion recorder iff `thermal-throttler.activate`, its minimum clip is
min-secs + preview-secs, and the continuous recorder is a plain (unthrottled) file recorder -/
theorem throttle_wiring : throttleGuardExpr = "conf.Throttler.Activate" ∧
    throttleMinSecsExpr = "conf.Recorder.MinSecs + conf.Recorder.PreviewSecs" ∧
    constantRecorderCtor = "NewCPTVFileRecorder" := by decide

end TR.FactsWiring
