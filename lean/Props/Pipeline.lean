import TR.Pipeline
import Proofs.PipeLemmas
/-!
# Pipeline-level statements of C13 / C14 / C15 / C17 (and the C11 flavour of "append only")

Everything is about the composed model `TR.Pipeline`: socket item → parser → detector →
processor → (throttle) → abstract files, for every `FloatOps`, every configuration and every
pipeline state (no reachability assumption).
-/
namespace TR.PipeProps
open TR TR.PipeLemmas

variable {F : FloatOps}

/-! ## 1. the frame lemma -/

/-- applying processor observations touches only `files`, `thr` and `threshOfStart` -/
theorem applyObs_fold_frame (c : PipeCfg) (obs : List Obs) (p : Pipe F) :
    (obs.foldl (Pipe.applyObs c) p).det = p.det ∧
    (obs.foldl (Pipe.applyObs c) p).proc = p.proc ∧
    (obs.foldl (Pipe.applyObs c) p).accepted = p.accepted ∧
    (obs.foldl (Pipe.applyObs c) p).badFrames = p.badFrames ∧
    (obs.foldl (Pipe.applyObs c) p).resets = p.resets :=
  applyObs_fold_rel c
    (fun p q => q.det = p.det ∧ q.proc = p.proc ∧ q.accepted = p.accepted ∧
      q.badFrames = p.badFrames ∧ q.resets = p.resets)
    (fun _ => ⟨rfl, rfl, rfl, rfl, rfl⟩)
    (fun _ _ _ h₁ h₂ => ⟨h₂.1.trans h₁.1, h₂.2.1.trans h₁.2.1, h₂.2.2.1.trans h₁.2.2.1,
      h₂.2.2.2.1.trans h₁.2.2.2.1, h₂.2.2.2.2.trans h₁.2.2.2.2⟩)
    (fun _ _ _ => ⟨rfl, rfl, rfl, rfl, rfl⟩) (fun _ _ _ => ⟨rfl, rfl, rfl, rfl, rfl⟩)
    (fun _ _ => ⟨rfl, rfl, rfl, rfl, rfl⟩) (fun _ _ => ⟨rfl, rfl, rfl, rfl, rfl⟩)
    (fun _ _ => ⟨rfl, rfl, rfl, rfl, rfl⟩) obs p

/-! ## 2. C13 — a rejected frame reaches neither the detector, nor the bookkeeping, nor a file -/

/-- C13 at pipeline level.  The hypothesis is the one of `C11.c11_bad_frame_not_accepted`. -/
theorem c13_bad_frame_pipeline (c : PipeCfg) (p : Pipe F) (bytes : List Nat) (y x : Nat)
    (hbad : (if c.lepton then Parse.parseLepton (fun i => bytes.toArray.getD i 0) c.det.resX c.det.resY c.det.edge
             else Parse.parseBoson (fun i => bytes.toArray.getD i 0) c.det.resX c.det.resY c.det.edge) = .bad y x) :
    let q := Pipe.item c p (.frame bytes)
    q.det = p.det ∧ q.accepted = p.accepted ∧ q.proc.n = p.proc.n ∧ q.badFrames = p.badFrames + 1 ∧
    q.resets = p.resets ∧ q.proc.isRec = false ∧
    q.files.map (·.frames) = p.files.map (·.frames) ∧
    (q.files.map (·.frames.length)).sum = (p.files.map (·.frames.length)).sum ∧
    q.files.length = p.files.length := by
  intro q
  have hq : q = _ := item_bad c p bytes y x hbad
  have hfr := applyObs_fold_frame c (PState.processBad c.proc p.proc (Pipe.faults c)).2
    { p with proc := (PState.processBad c.proc p.proc (Pipe.faults c)).1 }
  have hquiet := processBad_quiet c.proc p.proc (Pipe.faults c)
  have hfiles := applyObs_fold_quiet_frames c _ hquiet
    { p with proc := (PState.processBad c.proc p.proc (Pipe.faults c)).1 }
  have hlen := applyObs_fold_quiet_length c _ hquiet
    { p with proc := (PState.processBad c.proc p.proc (Pipe.faults c)).1 }
  obtain ⟨h1, h2, h3, h4, h5⟩ := hfr
  rw [hq]
  refine ⟨h1, h3, ?_, ?_, h5, ?_, hfiles, ?_, hlen⟩
  · show (Pipe.proc (List.foldl _ _ _)).n = _
    rw [h2]; exact processBad_n _ _ _
  · show Pipe.badFrames (List.foldl _ _ _) + 1 = _
    rw [h4]
  · show (Pipe.proc (List.foldl _ _ _)).isRec = _
    rw [h2]; exact processBad_isRec _ _ _
  · show (List.map (fun f : RecFile => f.frames.length) (Pipe.files (List.foldl _ _ _))).sum = _
    rw [map_frames_length, map_frames_length, hfiles]

/-! ## 3. C14 — a `clear` marker is a camera reset -/

/-- C14 at pipeline level: detector reset, recording stopped, nothing accepted, nothing written -/
theorem c14_clear_pipeline (c : PipeCfg) (p : Pipe F) :
    let q := Pipe.item c p .clear
    q.det = p.det.reset ∧ q.proc.isRec = false ∧ q.accepted = p.accepted ∧ q.resets = p.resets + 1 ∧
    q.proc.n = p.proc.n ∧ q.badFrames = p.badFrames ∧
    q.files.map (·.frames) = p.files.map (·.frames) ∧ q.files.length = p.files.length := by
  intro q
  have hq : q = _ := item_clear c p
  have hfr := applyObs_fold_frame c (PState.stopRecording p.proc true).2
    { p with proc := (PState.stopRecording p.proc true).1 }
  have hquiet := stopRecording_quiet p.proc true
  have hfiles := applyObs_fold_quiet_frames c _ hquiet { p with proc := (PState.stopRecording p.proc true).1 }
  have hlen := applyObs_fold_quiet_length c _ hquiet { p with proc := (PState.stopRecording p.proc true).1 }
  obtain ⟨h1, h2, h3, h4, h5⟩ := hfr
  rw [hq]
  refine ⟨?_, ?_, h3, ?_, ?_, h4, hfiles, hlen⟩
  · show Det.reset (Pipe.det (List.foldl _ _ _)) = _
    rw [h1]
  · show (Pipe.proc (List.foldl _ _ _)).isRec = _
    rw [h2]; exact stopRecording_isRec _ _
  · show Pipe.resets (List.foldl _ _ _) + 1 = _
    rw [h5]
  · show (Pipe.proc (List.foldl _ _ _)).n = _
    rw [h2]; exact stopRecording_n _ _

/-- C14, the file: without the throttle, a `clear` during a recording closes the most recently
started open motion file — the number of open motion files drops by one -/
theorem c14_clear_closes_count (c : PipeCfg) (p : Pipe F) (hthrot : c.throttle = false)
    (hrec : p.proc.isRec = true) :
    motionOpenCount (Pipe.item c p .clear).files = motionOpenCount p.files - 1 := by
  rw [item_clear]
  simp only [PState.stopRecording, hrec, Bool.not_true, Bool.false_eq_true, ↓reduceIte, List.foldl_cons,
    List.foldl_nil, Pipe.applyObs, Pipe.motionCall, hthrot, Pipe.stopFile]
  exact motionOpenCount_close p.files

/-- … so if at most one motion file was open (the processor has one motion recording at a time),
none is open afterwards -/
theorem c14_clear_closes_motion_file (c : PipeCfg) (p : Pipe F) (hthrot : c.throttle = false)
    (hrec : p.proc.isRec = true) (hone : motionOpenCount p.files ≤ 1) :
    openMotion (Pipe.item c p .clear).files = false := by
  apply openMotion_false_of_count_zero
  rw [c14_clear_closes_count c p hthrot hrec]
  omega

/-- when the processor was not recording, a `clear` leaves the files exactly as they were -/
theorem c14_clear_idle_files (c : PipeCfg) (p : Pipe F) (hrec : p.proc.isRec = false) :
    (Pipe.item c p .clear).files = p.files := by
  rw [item_clear]
  simp only [PState.stopRecording, hrec, Bool.not_false, ↓reduceIte, List.foldl_nil]

/-! ## 4. C15, last clause — a recording stores what the detector holds at its start -/

/-- without the throttle, the processor's `StartRecording` on the motion sink creates a file whose
header is the detector's current threshold and background -/
theorem c15_start_stores_detector (c : PipeCfg) (p : Pipe F) (hthrot : c.throttle = false) :
    ∃ f, (Pipe.motionCall c p .start).files = f :: p.files ∧
      (Pipe.motionCall c p .start).files.head? = some f ∧
      f.kind = .motion ∧ f.thresh = p.det.tempThresh ∧ f.bg = p.det.background c.det ∧
      f.bgSeeded = p.det.bgSeeded ∧ f.frames = [] ∧ f.closed = false := by
  simp only [Pipe.motionCall, hthrot, Bool.false_eq_true, ↓reduceIte, Pipe.startFile]
  exact ⟨_, rfl, rfl, rfl, rfl, rfl, rfl, rfl, rfl⟩

/-- for a frame that parses, the processor's observations are applied to a pipe whose detector is
the one AFTER `detect` of that very frame (and it stays that one to the end of the item) -/
theorem c15_frame_detector_after_detect (c : PipeCfg) (p : Pipe F) (bytes : List Nat) (pix : Frame)
    (tel : Parse.Telemetry)
    (hok : (if c.lepton then Parse.parseLepton (fun i => bytes.toArray.getD i 0) c.det.resX c.det.resY c.det.edge
            else Parse.parseBoson (fun i => bytes.toArray.getD i 0) c.det.resX c.det.resY c.det.edge) = .ok pix tel) :
    let ffc := Det.affectedBy c.det ((tel.timeOnMs : Int) * 1000000) ((tel.lastFFCMs : Int) * 1000000)
    let d := Det.detect c.det p.det pix ffc
    let r := PState.processFrame c.proc p.proc d.2 (Pipe.faults c)
    let p₀ : Pipe F := { p with det := d.1, accepted := { pix := pix, tel := tel } :: p.accepted, proc := r.1 }
    Pipe.item c p (.frame bytes) = r.2.foldl (Pipe.applyObs c) p₀ ∧
    p₀.det = d.1 ∧
    (Pipe.item c p (.frame bytes)).det = d.1 ∧
    (Pipe.item c p (.frame bytes)).proc = r.1 ∧
    (Pipe.item c p (.frame bytes)).accepted = { pix := pix, tel := tel } :: p.accepted := by
  intro ffc d r p₀
  have hq : Pipe.item c p (.frame bytes) = r.2.foldl (Pipe.applyObs c) p₀ := item_ok c p bytes pix tel hok
  obtain ⟨h1, h2, h3, _, _⟩ := applyObs_fold_frame c r.2 p₀
  refine ⟨hq, rfl, ?_, ?_, ?_⟩
  · rw [hq, h1]
  · rw [hq, h2]
  · rw [hq, h3]

/-- every file started while a valid frame is processed carries a header taken from the detector
state after `detect` of that frame: background and seeded flag always; the threshold is 0 for
test / continuous files and the detector's for a motion file — with the throttle it may instead be
the threshold the throttle stored at the upstream start (`p.threshOfStart`), see `Hdr`.
The files that existed before are all still there, in order, below the new ones (`PW`). -/
theorem c15_frame_started_files (c : PipeCfg) (p : Pipe F) (bytes : List Nat) (pix : Frame)
    (tel : Parse.Telemetry)
    (hok : (if c.lepton then Parse.parseLepton (fun i => bytes.toArray.getD i 0) c.det.resX c.det.resY c.det.edge
            else Parse.parseBoson (fun i => bytes.toArray.getD i 0) c.det.resX c.det.resY c.det.edge) = .ok pix tel) :
    let ffc := Det.affectedBy c.det ((tel.timeOnMs : Int) * 1000000) ((tel.lastFFCMs : Int) * 1000000)
    let d := Det.detect c.det p.det pix ffc
    ∃ added upd, (Pipe.item c p (.frame bytes)).files = added ++ upd ∧ PW p.files upd ∧
      ∀ f ∈ added, Hdr c d.1 p.threshOfStart f := by
  intro ffc d
  rw [item_ok c p bytes pix tel hok]
  exact (applyObs_fold_started c _ _).2.2

/-- the same without the throttle, spelled out -/
theorem c15_frame_started_files_unthrottled (c : PipeCfg) (p : Pipe F) (bytes : List Nat) (pix : Frame)
    (tel : Parse.Telemetry) (hthrot : c.throttle = false)
    (hok : (if c.lepton then Parse.parseLepton (fun i => bytes.toArray.getD i 0) c.det.resX c.det.resY c.det.edge
            else Parse.parseBoson (fun i => bytes.toArray.getD i 0) c.det.resX c.det.resY c.det.edge) = .ok pix tel) :
    let ffc := Det.affectedBy c.det ((tel.timeOnMs : Int) * 1000000) ((tel.lastFFCMs : Int) * 1000000)
    let d := Det.detect c.det p.det pix ffc
    ∃ added upd, (Pipe.item c p (.frame bytes)).files = added ++ upd ∧ PW p.files upd ∧
      ∀ f ∈ added, f.bg = d.1.background c.det ∧ f.bgSeeded = d.1.bgSeeded ∧
        (f.kind = .motion → f.thresh = d.1.tempThresh) ∧ (f.kind ≠ .motion → f.thresh = 0) := by
  intro ffc d
  obtain ⟨added, upd, e, pw, h⟩ := c15_frame_started_files c p bytes pix tel hok
  refine ⟨added, upd, e, pw, ?_⟩
  intro f hf
  obtain ⟨h1, h2, h3, h4⟩ := h f hf
  refine ⟨h1, h2, ?_, h3⟩
  intro hk
  rcases h4 hk with h | ⟨ht, _⟩
  · exact h
  · rw [hthrot] at ht; cases ht

/-! ## 5. C17 / C11 flavour — files are never removed or reordered, frames only appended -/

/-- one socket item extends the file list: new files at the head, the old ones below, in order,
each with the same header, its old frames as a prefix of the new ones, unchanged once closed -/
theorem c17_item_extends_files (c : PipeCfg) (p : Pipe F) (it : Socket.Item) :
    Ext p.files (Pipe.item c p it).files := by
  cases it with
  | clear =>
    rw [item_clear]
    exact applyObs_fold_ext c _ { p with proc := _ }
  | frame bytes =>
    cases hres : (if c.lepton then Parse.parseLepton (fun i => bytes.toArray.getD i 0) c.det.resX c.det.resY c.det.edge
             else Parse.parseBoson (fun i => bytes.toArray.getD i 0) c.det.resX c.det.resY c.det.edge) with
    | bad y x =>
      rw [item_bad c p bytes y x hres]
      exact applyObs_fold_ext c _ { p with proc := _ }
    | ok pix tel =>
      rw [item_ok c p bytes pix tel hres]
      exact applyObs_fold_ext c _ { p with det := _, accepted := _, proc := _ }

theorem c17_item_files_length (c : PipeCfg) (p : Pipe F) (it : Socket.Item) :
    (Pipe.item c p it).files.length ≥ p.files.length :=
  (c17_item_extends_files c p it).length_le

/-- counted from the oldest file (the list is newest-first): position `i` still holds the same
file, its old frame list is a prefix of the new one -/
theorem c17_item_frames_prefix (c : PipeCfg) (p : Pipe F) (it : Socket.Item) (i : Nat) (hi : i < p.files.length) :
    ∃ h₂ : i < (Pipe.item c p it).files.reverse.length,
      (p.files.reverse[i]'(by simpa using hi)).frames <+: ((Pipe.item c p it).files.reverse[i]).frames ∧
      (p.files.reverse[i]'(by simpa using hi)).kind = ((Pipe.item c p it).files.reverse[i]).kind ∧
      (p.files.reverse[i]'(by simpa using hi)).thresh = ((Pipe.item c p it).files.reverse[i]).thresh ∧
      (p.files.reverse[i]'(by simpa using hi)).bg = ((Pipe.item c p it).files.reverse[i]).bg ∧
      ((p.files.reverse[i]'(by simpa using hi)).closed = true →
        (Pipe.item c p it).files.reverse[i] = p.files.reverse[i]'(by simpa using hi)) := by
  obtain ⟨h₂, hle⟩ := (c17_item_extends_files c p it).reverse_getElem i hi
  exact ⟨h₂, hle.2.2.2.2.1, hle.1, hle.2.1, hle.2.2.1, hle.2.2.2.2.2⟩

/-- the same over a whole item sequence -/
theorem c17_run_extends_files (c : PipeCfg) (items : List Socket.Item) (p : Pipe F) :
    Ext p.files (items.foldl (Pipe.item c) p).files := by
  induction items generalizing p with
  | nil => exact Ext.refl _
  | cons it its ih =>
    simp only [List.foldl_cons]
    exact Ext.trans (c17_item_extends_files c p it) (ih _)

/-! ## the model run on a tiny configuration -/

section examples
open TR.PipeLemmas.Tiny

/-- two cold frames, a hot one (motion → recording starts, pre-trigger frames 0,1 and frame 2 written),
then `clear`: the file is closed, the reset counted, nothing else accepted -/
example : summary ([cold, cold, hot, .clear].foldl (Pipe.item c0) (Pipe.init F0 c0)) =
    ([([0, 1, 2], true, 10)], 0, 1, 3, false, 3) := by decide

/-- the same with a rejected frame instead of the `clear`: the recording is stopped, the bad frame is
counted, it gets no id and reaches no file -/
example : summary ([cold, cold, hot, badf].foldl (Pipe.item c0) (Pipe.init F0 c0)) =
    ([([0, 1, 2], true, 10)], 1, 0, 3, false, 3) := by decide

/-- with the throttle and a two-token bucket: the recording is cut after two frames, the `clear`
finds the file already closed -/
example : summary ([cold, cold, hot, hot, hot, hot, hot, .clear].foldl (Pipe.item c1) (Pipe.init F0 c1)) =
    ([([0, 1], true, 10)], 0, 1, 7, false, 7) := by decide

end examples

end TR.PipeProps
