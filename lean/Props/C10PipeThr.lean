import Props.C10Pipe
import Proofs.C10PipeThr
import TR.Pipeline
/-!
# C10 for every frame history, THROTTLED wiring — what reaches the motion file recorder is the throttle's base calls

`Props.C10Pipe` composes C12 (the processor drives its three sinks `WellFormed`ly) with C10 (a `ValidOps` sequence
keeps every `.cptv` name complete at every system call) for the wiring in which the processor's motion sink IS the
`CPTVFileRecorder`.  With `thermal-throttler.activate` set, `handleConn` puts a `ThrottledRecorder` between the two
(one per connection, with a fresh, full bucket): the motion file recorder then sees the throttle's BASE calls
(`TObs.bStart / bWrite / bStop` of `TR.Throttle`), not the processor's calls.  The test and the continuous recorder are
wired as before.

**The translation `thrObs`.**  Walk the processor's observations; keep everything that is not a call on the motion
sink; keep `CheckCanRecord` on the motion sink (the throttle passes it through); turn every other call on the motion
sink into a throttle request (`reqOf`), run `TState.step`, and emit the base calls of that step as calls on the motion
sink (`baseObs`; `throttled` and the value returned upstream are dropped).  The environment `Env` gives, for the `k`-th
request: the tick of the clock, the tag, and the outcomes of `base.StartRecording` (on the restart path of a write)
and `base.WriteFrame`.  Two outcomes are NOT free:
* a `.start` request carries the `ok` the processor observed: `ThrottledRecorder.StartRecording` returns exactly the
  base recorder's error when it calls it, and `nil` when it does not — so when the base recorder is called its outcome
  IS what the processor sees (and when it is not called the outcome is not used).  Letting the two differ would
  describe a processor that was told "failed" by a throttle that started a file;
* every `base.StopRecording` succeeds (`.stop true`, `.write … true`), as in `Props.C10Pipe`: `TR.FS` has no
  operation for a failing stop.
The `ok` of the processor's `.write` and `.stop` observations (what the throttle returned upstream) is not used.

**What is proved** — for every environment (clock, tags, base failures of start and write), every bucket
`(cap, q, minLen)`:
* `thr_wellFormed` — if every sink's calls in `os` are `WellFormed`, so are they in `thrObs … os`: the test and
  continuous sinks see the same calls (`thr_other_sinks`); on the motion sink the base calls are in order
  (per request: `Proofs.C10PipeThr.step_*_base`, from the case lists behind C06; between requests: the throttle
  records only while the upstream recording is open).
* `thr_stopsSucceed` — no failing stop in `thrObs … os`, provided none on the test / continuous sink in `os`.
* `pipe_thr_exact`, `pipe_thr_ops_valid`, `pipe_thr_ops_valid_from` — on the model's traces (`0 < c.K`) the translation
  to file-system operations is `Exact` and `ValidOps`; `pipe_thr_c10_every_instant`, `pipe_thr_c10_cleanup` — C10 for
  one throttled connection.
* `pipe_thr_c10_connections`, `pipe_thr_lives_valid`, `pipe_thr_c10_lives` — several connections per daemon life and a
  whole history of lives, each connection throttled or not (`TConn.thr`), each with its own bucket and environment.
* `motionCall_eq_thrStep` — the tie to the composed model `TR.Pipeline`: with the environment `Pipe.motionCall` uses
  (`envPipe`: tick 0, tag 0, no base failure) one processor call on the motion sink has, through `thrStep`, exactly the
  effect `motionCall` has on the pipeline's files and throttle state.
-/
namespace TR.C10PipeThr
open TR TR.FS TR.C10 TR.C10Gen TR.C12Spec TR.C10Pipe

/-! ## Definitions -/

/-- what the world decides during the `k`-th request the processor makes of the throttle (`k` counts the
`StartRecording` / `WriteFrame` / `StopRecording` calls on the motion sink, from 0) -/
structure Env where
  /-- the bucket's tick (`(now − startTime) / fillInterval`) at that request — NOT assumed monotone -/
  tick : Nat → Nat := fun _ => 0
  /-- the background / threshold handed to a start request -/
  tag : Nat → Nat := fun _ => 0
  /-- outcome of `base.StartRecording` if that request is a write that tries to (re)start -/
  bStart : Nat → Bool := fun _ => true
  /-- outcome of `base.WriteFrame` if that request is a write that is forwarded -/
  bWrite : Nat → Bool := fun _ => true

/-- the throttle request a processor call on the motion sink becomes (`ok` = the outcome the processor observed);
`CheckCanRecord` is not a request -/
def reqOf (e : Env) (k : Nat) : Call → Bool → Option TReq
  | .start, ok => some (.start (e.tick k) (e.tag k) ok)
  | .write id, _ => some (.write (e.tick k) id (e.bStart k) (e.bWrite k) true)
  | .stop, _ => some (.stop true)
  | .can, _ => none

/-- a call of the throttle on the base recorder = a call on the motion FILE recorder -/
def baseObs : TObs → Option Obs
  | .bStart _ ok => some (.call .motion .start ok)
  | .bWrite id ok => some (.call .motion (.write id) ok)
  | .bStop ok => some (.call .motion .stop ok)
  | _ => none

/-- one observation of the processor, seen from the file recorders: state = (number of requests so far, throttle) -/
def thrStep (e : Env) (kt : Nat × TState) : Obs → (Nat × TState) × List Obs
  | .call .motion c ok =>
    match reqOf e kt.1 c ok with
    | none => (kt, [.call .motion c ok])
    | some r => ((kt.1 + 1, (kt.2.step r).1), (kt.2.step r).2.filterMap baseObs)
  | o => (kt, [o])

def thrObsFrom (e : Env) : Nat × TState → List Obs → List Obs
  | _, [] => []
  | kt, o :: os => (thrStep e kt o).2 ++ thrObsFrom e (thrStep e kt o).1 os

/-- **what the three file recorders see in the throttled wiring** when the processor's observations are `os`:
a fresh throttle with bucket capacity `cap`, quantum `q`, minimum recording length `minLen` -/
def thrObs (e : Env) (cap q minLen : Nat) (os : List Obs) : List Obs :=
  thrObsFrom e (0, TState.init cap q minLen) os

/-- every `StopRecording` on the continuous and on the test recorder succeeds (the motion sink's outcomes are what
the throttle returns; they play no role) -/
def CTStopsSucceed (os : List Obs) : Prop :=
  Obs.call .const .stop false ∉ os ∧ Obs.call .test .stop false ∉ os

/-- the throttle of one connection: environment and bucket -/
structure Thr where
  env : Env
  cap : Nat
  q : Nat
  minLen : Nat

/-- one camera connection: processor configuration, events, and the throttle (`none`: `activate = false`) -/
structure TConn where
  cfg : PCfg
  evs : List Ev
  thr : Option Thr

/-- what the file recorders see during that connection -/
def TConn.obs (x : TConn) : List Obs :=
  match x.thr with
  | none => C10Pipe.obsOf x.cfg x.evs
  | some b => thrObs b.env b.cap b.q b.minLen (C10Pipe.obsOf x.cfg x.evs)

/-- `Props.C10Pipe.connsOps` over connections of either wiring -/
def connsOpsT (leaves : Nat → Bool) : Nat → List TConn → Nat × List Op
  | n, [] => (n, [])
  | n, p :: ps =>
    let r := fsOps leaves { next := n } p.obs
    let r' := connsOpsT leaves r.1.next ps
    (r'.1, r.2 ++ endOps r.1 ++ r'.2)

/-- one life of the daemon (`Props.C10Pipe.DLife`) over connections of either wiring -/
structure TLife where
  conns : List TConn
  kill : Nat

def livesOfT (leaves : Nat → Bool) : Nat → List TLife → List Life
  | _, [] => []
  | n, l :: ls =>
    let r := connsOpsT leaves n l.conns
    ⟨r.2, (r.2.flatMap Op.steps).take l.kill⟩ :: livesOfT leaves r.1 ls

/-! ## Machinery -/

theorem thrObsFrom_cons (e : Env) (kt : Nat × TState) (o : Obs) (os : List Obs) :
    thrObsFrom e kt (o :: os) = (thrStep e kt o).2 ++ thrObsFrom e (thrStep e kt o).1 os := rfl

/-- the base calls of a step, read back with `callsOf`: all on the motion sink -/
theorem callsOf_baseObs_motion (l : List TObs) : callsOf .motion (l.filterMap baseObs) = baseCallsOf l := by
  induction l with
  | nil => rfl
  | cons o l ih =>
    cases o <;> simp [baseObs, baseCall, baseCallsOf, callsOf] at ih ⊢ <;> exact ih

theorem callsOf_baseObs_other (s : Sink) (hs : s ≠ .motion) (l : List TObs) :
    callsOf s (l.filterMap baseObs) = [] := by
  induction l with
  | nil => rfl
  | cons o l ih =>
    have hs' : ¬ Sink.motion = s := fun h => hs h.symm
    cases o <;> simp [baseObs, callsOf, hs'] at ih ⊢ <;> exact ih

theorem mem_baseObs_stop {s : Sink} {b : Bool} {l : List TObs} (h : Obs.call s .stop b ∈ l.filterMap baseObs) :
    ¬ NoStopWith b l := by
  intro hn
  apply hn
  rw [List.mem_filterMap] at h
  obtain ⟨o, ho, he⟩ := h
  refine List.mem_filterMap.mpr ⟨o, ho, ?_⟩
  cases o <;> simp [baseObs] at he
  obtain ⟨_, rfl⟩ := he
  rfl

/-- one processor observation on a sink other than the motion sink, or a listener observation, is passed on -/
theorem thrStep_quiet (e : Env) (kt : Nat × TState) (o : Obs) (h : ∀ c ok, o ≠ .call .motion c ok) :
    thrStep e kt o = (kt, [o]) := by
  cases o with
  | call s c ok =>
    cases s with
    | motion => exact absurd rfl (h c ok)
    | const => rfl
    | test => rfl
  | _ => rfl

/-- **between requests**: if the throttle records only while the upstream recording is open (`u`), and the
processor's calls on the motion sink are in order from `u`, the base calls are in order from `t.recording` -/
theorem thrObsFrom_motion (e : Env) : ∀ (os : List Obs) (k : Nat) (t : TState) (u : Bool),
    (t.recording = true → u = true) → wfFrom u (callsOf .motion os) = true →
    wfFrom t.recording (callsOf .motion (thrObsFrom e (k, t) os)) = true := by
  intro os
  induction os with
  | nil => intro k t u _ _; rfl
  | cons o os ih =>
    intro k t u hinv hw
    have quiet : (∀ c ok, o ≠ .call .motion c ok) → callsOf .motion (o :: os) = callsOf .motion os →
        wfFrom t.recording (callsOf .motion (thrObsFrom e (k, t) (o :: os))) = true := by
      intro hq hc
      rw [thrObsFrom_cons, thrStep_quiet e _ o hq]
      show wfFrom t.recording (callsOf .motion (o :: thrObsFrom e (k, t) os)) = true
      have hc' : callsOf .motion (o :: thrObsFrom e (k, t) os) = callsOf .motion (thrObsFrom e (k, t) os) := by
        cases o with
        | call s c ok =>
          rw [callsOf_cons_call, if_neg]
          intro hs; subst hs; exact hq c ok rfl
        | _ => rfl
      rw [hc']
      rw [hc] at hw
      exact ih k t u hinv hw
    cases o with
    | md => exact quiet (fun _ _ h => by cases h) rfl
    | rs => exact quiet (fun _ _ h => by cases h) rfl
    | re => exact quiet (fun _ _ h => by cases h) rfl
    | panic => exact quiet (fun _ _ h => by cases h) rfl
    | call s c ok =>
      cases s with
      | const => exact quiet (fun _ _ h => by cases h) (by rw [callsOf_cons_call, if_neg (by decide)])
      | test => exact quiet (fun _ _ h => by cases h) (by rw [callsOf_cons_call, if_neg (by decide)])
      | motion =>
        rw [callsOf_cons_call, if_pos rfl, wfFrom, Bool.and_eq_true] at hw
        obtain ⟨h0, hw⟩ := hw
        cases c with
        | can =>
          show wfFrom t.recording (callsOf .motion (Obs.call .motion .can ok :: thrObsFrom e (k, t) os)) = true
          rw [callsOf_cons_call, if_pos rfl, wfFrom, Bool.and_eq_true]
          exact ⟨rfl, ih k t u hinv hw⟩
        | start =>
          have hu : u = false := by cases u <;> simp [okWhen] at h0 ⊢
          have hr : t.recording = false := by
            cases h : t.recording with
            | false => rfl
            | true => have := hinv h; rw [hu] at this; cases this
          obtain ⟨h1, h2, h3, _⟩ := step_start_base t (e.tick k) (e.tag k) ok hr
          show wfFrom t.recording (callsOf .motion
            ((t.step (.start (e.tick k) (e.tag k) ok)).2.filterMap baseObs ++
              thrObsFrom e (k + 1, (t.step (.start (e.tick k) (e.tag k) ok)).1) os)) = true
          rw [callsOf_append, callsOf_baseObs_motion, wfFrom_append, hr, h1, h2, Bool.true_and]
          refine ih _ _ _ (fun h => ?_) hw
          rw [h3 h]; rfl
        | write id =>
          have hu : u = true := h0
          obtain ⟨h1, h2, _⟩ := step_write_base t (e.tick k) id (e.bStart k) (e.bWrite k) true
          show wfFrom t.recording (callsOf .motion
            ((t.step (.write (e.tick k) id (e.bStart k) (e.bWrite k) true)).2.filterMap baseObs ++
              thrObsFrom e (k + 1, (t.step (.write (e.tick k) id (e.bStart k) (e.bWrite k) true)).1) os)) = true
          rw [callsOf_append, callsOf_baseObs_motion, wfFrom_append, h1, h2, Bool.true_and]
          exact ih _ _ _ (fun _ => hu) hw
        | stop =>
          obtain ⟨h1, hrec, h2, _⟩ := step_stop_base t true
          show wfFrom t.recording (callsOf .motion
            ((t.step (.stop true)).2.filterMap baseObs ++ thrObsFrom e (k + 1, (t.step (.stop true)).1) os)) = true
          rw [callsOf_append, callsOf_baseObs_motion, wfFrom_append, h1, h2, Bool.true_and]
          have := ih (k + 1) (t.step (.stop true)).1 (nextOpen u (.stop, ok))
            (fun h => by rw [hrec] at h; cases h) hw
          rwa [hrec] at this

theorem thrObsFrom_other (e : Env) (s : Sink) (hs : s ≠ .motion) : ∀ (os : List Obs) (kt : Nat × TState),
    callsOf s (thrObsFrom e kt os) = callsOf s os := by
  intro os
  induction os with
  | nil => intro kt; rfl
  | cons o os ih =>
    intro kt
    rw [thrObsFrom_cons, callsOf_append, ih]
    have hcons : callsOf s (o :: os) = callsOf s [o] ++ callsOf s os := callsOf_append s [o] os
    rw [hcons]
    congr 1
    by_cases hq : ∀ c ok, o ≠ .call .motion c ok
    · rw [thrStep_quiet e kt o hq]
    · have : ∃ c ok, o = .call .motion c ok := by
        apply Classical.byContradiction
        intro hn
        exact hq fun c ok he => hn ⟨c, ok, he⟩
      obtain ⟨c, ok, rfl⟩ := this
      have hs' : ¬ Sink.motion = s := fun h => hs h.symm
      rw [callsOf_cons_call, if_neg hs']
      show callsOf s (match reqOf e kt.1 c ok with
        | none => (kt, [Obs.call .motion c ok])
        | some r => ((kt.1 + 1, (kt.2.step r).1), (kt.2.step r).2.filterMap baseObs)).2 = callsOf s []
      cases reqOf e kt.1 c ok with
      | none => show callsOf s [Obs.call .motion c ok] = _; rw [callsOf_cons_call, if_neg hs']
      | some r => exact callsOf_baseObs_other s hs _

theorem thrObsFrom_stop_false (e : Env) : ∀ (os : List Obs) (kt : Nat × TState) (s : Sink),
    Obs.call s .stop false ∈ thrObsFrom e kt os → s ≠ .motion ∧ Obs.call s .stop false ∈ os := by
  intro os
  induction os with
  | nil => intro kt s h; cases h
  | cons o os ih =>
    intro kt s h
    rw [thrObsFrom_cons] at h
    rcases List.mem_append.mp h with h | h
    · by_cases hq : ∀ c ok, o ≠ .call .motion c ok
      · rw [thrStep_quiet e kt o hq] at h
        have he : Obs.call s .stop false = o := List.mem_singleton.mp h
        refine ⟨fun hs => ?_, he ▸ List.mem_cons_self ..⟩
        subst hs
        exact hq _ _ he.symm
      · have : ∃ c ok, o = .call .motion c ok := by
          apply Classical.byContradiction
          intro hn
          exact hq fun c ok he => hn ⟨c, ok, he⟩
        obtain ⟨c, ok, rfl⟩ := this
        exfalso
        cases c with
        | can => cases List.mem_singleton.mp h
        | start =>
          exact mem_baseObs_stop h (step_start_noStop kt.2 _ _ ok false)
        | write id => exact mem_baseObs_stop h (step_write_base kt.2 _ id _ _ true).2.2
        | stop => exact mem_baseObs_stop h (step_stop_base kt.2 true).2.2.2
    · obtain ⟨h1, h2⟩ := ih _ s h
      exact ⟨h1, List.mem_cons_of_mem _ h2⟩

/-! ### connections and lives, either wiring (as in `Props.C10Pipe`, over `TConn.obs`) -/

theorem connsOpsT_valid (leaves : Nat → Bool) : ∀ (conns : List TConn) (n : Nat) (opn used : List Nat),
    (∀ x ∈ used, x < n) → ValidOps opn used (connsOpsT leaves n conns).2 := by
  intro conns
  induction conns with
  | nil => intro n opn used _; exact .nil
  | cons p ps ih =>
    intro n opn used hu
    show ValidOps opn used ((fsOps leaves { next := n } p.obs).2 ++ endOps (fsOps leaves { next := n } p.obs).1 ++
      (connsOpsT leaves (fsOps leaves { next := n } p.obs).1.next ps).2)
    rw [List.append_assoc]
    exact fsOps_valid_then leaves _ _ opn used (Inv.init (fun s => by cases s <;> rfl) hu) _
      fun opn' used' hi' => endOps_valid hi' fun opn'' => ih _ opn'' used' hi'.used

theorem connsOpsT_ids (leaves : Nat → Bool) : ∀ (conns : List TConn) (n : Nat),
    n ≤ (connsOpsT leaves n conns).1 ∧
      ∀ x ∈ startedIds (connsOpsT leaves n conns).2, n ≤ x ∧ x < (connsOpsT leaves n conns).1 := by
  intro conns
  induction conns with
  | nil => intro n; exact ⟨Nat.le_refl _, fun x hx => by cases hx⟩
  | cons p ps ih =>
    intro n
    obtain ⟨h1, h1'⟩ := fsOps_ids leaves p.obs { next := n }
    obtain ⟨h2, h2'⟩ := ih (fsOps leaves { next := n } p.obs).1.next
    show n ≤ (connsOpsT leaves (fsOps leaves { next := n } p.obs).1.next ps).1 ∧
      ∀ x ∈ startedIds ((fsOps leaves { next := n } p.obs).2 ++ endOps (fsOps leaves { next := n } p.obs).1 ++
        (connsOpsT leaves (fsOps leaves { next := n } p.obs).1.next ps).2),
        n ≤ x ∧ x < (connsOpsT leaves (fsOps leaves { next := n } p.obs).1.next ps).1
    have h1n : n ≤ (fsOps leaves { next := n } p.obs).1.next := h1
    refine ⟨Nat.le_trans h1n h2, fun x hx => ?_⟩
    rw [startedIds_append, startedIds_append, startedIds_endOps, List.append_nil] at hx
    rcases List.mem_append.mp hx with hx | hx
    · have := h1' x hx
      have h3 : n ≤ x := this.1
      omega
    · have := h2' x hx; omega

/-! ## The theorems -/

/-- the test and the continuous recorder see exactly the calls the processor makes on them -/
theorem thr_other_sinks (e : Env) (cap q minLen : Nat) (os : List Obs) :
    callsOf .const (thrObs e cap q minLen os) = callsOf .const os ∧
    callsOf .test (thrObs e cap q minLen os) = callsOf .test os :=
  ⟨thrObsFrom_other e .const (by decide) os _, thrObsFrom_other e .test (by decide) os _⟩

/-- **the throttle's base calls obey the sink protocol**: whenever the processor's calls are `WellFormed` on every
sink, so are the calls the three file recorders see in the throttled wiring — for every clock, every tag, every
pattern of base start / write failures, every bucket -/
theorem thr_wellFormed (e : Env) (cap q minLen : Nat) (os : List Obs) (hw : ∀ s, WellFormed (callsOf s os)) :
    ∀ s, WellFormed (callsOf s (thrObs e cap q minLen os)) := by
  intro s
  cases s with
  | motion =>
    exact (wellFormed_iff _).mpr
      (thrObsFrom_motion e os 0 (TState.init cap q minLen) false (fun h => by cases h)
        ((wellFormed_iff _).mp (hw .motion)))
  | const => rw [(thr_other_sinks e cap q minLen os).1]; exact hw .const
  | test => rw [(thr_other_sinks e cap q minLen os).2]; exact hw .test

/-- no stop fails in the throttled wiring if none fails on the test / continuous recorder (base stops succeed by
construction of `reqOf`) -/
theorem thr_stopsSucceed (e : Env) (cap q minLen : Nat) (os : List Obs) (h : CTStopsSucceed os) :
    StopsSucceed (thrObs e cap q minLen os) := by
  intro s hm
  obtain ⟨hs, hm⟩ := thrObsFrom_stop_false e os _ s hm
  cases s with
  | motion => exact hs rfl
  | const => exact h.1 hm
  | test => exact h.2 hm

/-- `CTStopsSucceed` follows from `StopsSucceed`, hence (`stopsSucceed_of_faults`) from fault records that dictate no
failing stop -/
theorem ctStops_of_stopsSucceed {os : List Obs} (h : StopsSucceed os) : CTStopsSucceed os := ⟨h .const, h .test⟩

theorem ctStops_of_faults (c : PCfg) (evs : List Ev) (h : ∀ e ∈ evs, StopFaultFree e) :
    CTStopsSucceed (C10Pipe.obsOf c evs) :=
  ctStops_of_stopsSucceed (stopsSucceed_of_faults c evs h)

/-- **C12 ∘ C06-pairing, throttled wiring**: on every trace of the processor model (ring capacity ≥ 1, any events, any
fault placement in which the test / continuous stops succeed), with any environment and any bucket, from any id
counter, the translation of what the file recorders see is exact: every `WriteFrame` that reaches a file recorder finds
its open file, every `StartRecording` finds the recorder closed, no stop fails -/
theorem pipe_thr_exact (leaves : Nat → Bool) (c : PCfg) (hK : 0 < c.K) (evs : List Ev)
    (hstop : CTStopsSucceed (C10Pipe.obsOf c evs)) (e : Env) (cap q minLen : Nat) (n : Nat) :
    Exact leaves { next := n } (thrObs e cap q minLen (C10Pipe.obsOf c evs)) :=
  exact_of_wellFormed leaves _ n (thr_wellFormed e cap q minLen _ (c12_wellformed c hK evs).2)
    (thr_stopsSucceed e cap q minLen _ hstop)

/-- **(1)** the file-system operations of a throttled connection — exactly those (`Exact`) — obey the recorder
protocol, with the connection ended (`endOps`: `handleConn`'s deferred `cptvRecorder.Stop()` on the BASE motion
recorder) and with the connection still running -/
theorem pipe_thr_ops_valid (leaves : Nat → Bool) (c : PCfg) (hK : 0 < c.K) (evs : List Ev)
    (hstop : CTStopsSucceed (C10Pipe.obsOf c evs)) (e : Env) (cap q minLen : Nat) :
    Exact leaves {} (thrObs e cap q minLen (C10Pipe.obsOf c evs)) ∧
    ValidOps [] [] ((fsOps leaves {} (thrObs e cap q minLen (C10Pipe.obsOf c evs))).2 ++
      endOps (fsOps leaves {} (thrObs e cap q minLen (C10Pipe.obsOf c evs))).1) ∧
    ValidOps [] [] (fsOps leaves {} (thrObs e cap q minLen (C10Pipe.obsOf c evs))).2 :=
  ⟨pipe_thr_exact leaves c hK evs hstop e cap q minLen 0, ops_valid_any leaves _ 0 [] [] (fun _ h => by cases h)⟩

/-- **(1), from any id counter**: ids are ≥ `n`, and the operations are valid after any `used` below `n` -/
theorem pipe_thr_ops_valid_from (leaves : Nat → Bool) (c : PCfg) (hK : 0 < c.K) (evs : List Ev)
    (hstop : CTStopsSucceed (C10Pipe.obsOf c evs)) (e : Env) (cap q minLen : Nat) (n : Nat) (used : List Nat)
    (hused : ∀ x ∈ used, x < n) :
    Exact leaves { next := n } (thrObs e cap q minLen (C10Pipe.obsOf c evs)) ∧
    ValidOps [] used ((fsOps leaves { next := n } (thrObs e cap q minLen (C10Pipe.obsOf c evs))).2 ++
      endOps (fsOps leaves { next := n } (thrObs e cap q minLen (C10Pipe.obsOf c evs))).1) ∧
    ValidOps [] used (fsOps leaves { next := n } (thrObs e cap q minLen (C10Pipe.obsOf c evs))).2 ∧
    ∀ x ∈ startedIds (fsOps leaves { next := n } (thrObs e cap q minLen (C10Pipe.obsOf c evs))).2,
      n ≤ x ∧ x < (fsOps leaves { next := n } (thrObs e cap q minLen (C10Pipe.obsOf c evs))).1.next :=
  ⟨pipe_thr_exact leaves c hK evs hstop e cap q minLen n, (ops_valid_any leaves _ n [] used hused).1,
   (ops_valid_any leaves _ n [] used hused).2, (ops_ids leaves _ n).2⟩

/-- **(2)** at every instant (= after every prefix of the system calls) of a throttled connection, including its
end, every `.cptv` name is a complete recording never written in place -/
theorem pipe_thr_c10_every_instant (leaves : Nat → Bool) (c : PCfg) (hK : 0 < c.K) (evs : List Ev)
    (hstop : CTStopsSucceed (C10Pipe.obsOf c evs)) (e : Env) (cap q minLen : Nat) (pre : List Sys)
    (hp : pre <+: ((fsOps leaves {} (thrObs e cap q minLen (C10Pipe.obsOf c evs))).2 ++
      endOps (fsOps leaves {} (thrObs e cap q minLen (C10Pipe.obsOf c evs))).1).flatMap Op.steps) :
    (Dir.run {} pre).ok = true :=
  c10_every_crash_point_ok _ (pipe_thr_ops_valid leaves c hK evs hstop e cap q minLen).2.1 pre hp

/-- **(2')** and start-up clean-up of the state at that instant leaves complete recordings only -/
theorem pipe_thr_c10_cleanup (leaves : Nat → Bool) (c : PCfg) (hK : 0 < c.K) (evs : List Ev)
    (hstop : CTStopsSucceed (C10Pipe.obsOf c evs)) (e : Env) (cap q minLen : Nat) (pre : List Sys)
    (hp : pre <+: ((fsOps leaves {} (thrObs e cap q minLen (C10Pipe.obsOf c evs))).2 ++
      endOps (fsOps leaves {} (thrObs e cap q minLen (C10Pipe.obsOf c evs))).1).flatMap Op.steps) :
    ∀ p ∈ (Dir.run {} pre).cleanup.files, p.1.kind = Kind.F ∧ p.2 = Status.complete :=
  c10_cleanup_leaves_only_complete _ (pipe_thr_ops_valid leaves c hK evs hstop e cap q minLen).2.1 pre hp

/-- every connection, throttled or not, is translated exactly (from any id counter) -/
theorem tconn_exact (leaves : Nat → Bool) (x : TConn) (hK : 0 < x.cfg.K)
    (hstop : match x.thr with
      | none => StopsSucceed (C10Pipe.obsOf x.cfg x.evs)
      | some _ => CTStopsSucceed (C10Pipe.obsOf x.cfg x.evs)) (n : Nat) :
    Exact leaves { next := n } x.obs := by
  obtain ⟨cfg, evs, thr⟩ := x
  cases thr with
  | none => exact pipe_exact leaves cfg hK evs hstop n
  | some b => exact pipe_thr_exact leaves cfg hK evs hstop b.env b.cap b.q b.minLen n

/-- **(3)** several camera connections in one daemon life, each throttled (own bucket, own environment) or not: every
connection is translated exactly, and the concatenated operation list obeys the recorder protocol -/
theorem pipe_thr_c10_connections (leaves : Nat → Bool) (conns : List TConn)
    (hK : ∀ x ∈ conns, 0 < x.cfg.K)
    (hstop : ∀ x ∈ conns, match x.thr with
      | none => StopsSucceed (C10Pipe.obsOf x.cfg x.evs)
      | some _ => CTStopsSucceed (C10Pipe.obsOf x.cfg x.evs)) :
    (∀ x ∈ conns, ∀ n, Exact leaves { next := n } x.obs) ∧
    ValidOps [] [] (connsOpsT leaves 0 conns).2 :=
  ⟨fun x hx n => tconn_exact leaves x (hK x hx) (hstop x hx) n,
   connsOpsT_valid leaves conns 0 [] [] (fun _ h => by cases h)⟩

/-- (3), from any id counter and after any `used` below it; the ids started lie between the counters -/
theorem pipe_thr_connections_from (leaves : Nat → Bool) (conns : List TConn) (n : Nat) (used : List Nat)
    (hused : ∀ x ∈ used, x < n) :
    ValidOps [] used (connsOpsT leaves n conns).2 ∧
    ∀ x ∈ startedIds (connsOpsT leaves n conns).2, n ≤ x ∧ x < (connsOpsT leaves n conns).1 :=
  ⟨connsOpsT_valid leaves conns n [] used hused, (connsOpsT_ids leaves conns n).2⟩

/-- with no throttled connection `connsOpsT` / `livesOfT` are `connsOps` / `livesOf` of `Props.C10Pipe` -/
theorem connsOpsT_unthrottled (leaves : Nat → Bool) : ∀ (conns : List (PCfg × List Ev)) (n : Nat),
    connsOpsT leaves n (conns.map fun p => ⟨p.1, p.2, none⟩) = connsOps leaves n conns := by
  intro conns
  induction conns with
  | nil => intro n; rfl
  | cons p ps ih =>
    intro n
    show (_, _) = (_, _)
    simp only [TConn.obs, ih]

theorem livesOfT_unthrottled (leaves : Nat → Bool) : ∀ (hist : List DLife) (n : Nat),
    livesOfT leaves n (hist.map fun l => ⟨l.conns.map fun p => ⟨p.1, p.2, none⟩, l.kill⟩) =
      livesOf leaves n hist := by
  intro hist
  induction hist with
  | nil => intro n; rfl
  | cons l ls ih =>
    intro n
    rw [List.map_cons]
    simp only [livesOfT, livesOf, connsOpsT_unthrottled, ih]

/-- **(3') a whole history of lives**, each a list of connections of either wiring, each killed after `kill` system
calls: a valid history in the sense of `Props.C10Gen` -/
theorem pipe_thr_lives_valid (leaves : Nat → Bool) : ∀ (hist : List TLife) (n : Nat) (used : List Nat),
    (∀ x ∈ used, x < n) → ValidLives used (livesOfT leaves n hist) := by
  intro hist
  induction hist with
  | nil => intro n used _; exact .nil
  | cons l ls ih =>
    intro n used hu
    refine .cons (connsOpsT_valid leaves l.conns n [] used hu) (List.take_prefix _ _) (ih _ _ fun x hx => ?_)
    rcases List.mem_append.mp hx with hx | hx
    · exact ((connsOpsT_ids leaves l.conns n).2 x hx).2
    · exact Nat.lt_of_lt_of_le (hu x hx) (connsOpsT_ids leaves l.conns n).1

/-- **(3'') C10 over every history of frame histories, throttle on or off in each connection**: in life number `k`,
at every system call up to its kill (after the kills, restarts and clean-ups of the lives before it), every `.cptv`
name is a complete recording never written in place, and cleaning up leaves complete recordings only -/
theorem pipe_thr_c10_lives (leaves : Nat → Bool) (hist : List TLife) (k : Nat)
    (hk : k < (livesOfT leaves 0 hist).length) (pre : List Sys) (hp : pre <+: (livesOfT leaves 0 hist)[k].pre) :
    ((afterLives {} ((livesOfT leaves 0 hist).take k)).run pre).ok = true ∧
      ∀ p ∈ ((afterLives {} ((livesOfT leaves 0 hist).take k)).run pre).cleanup.files,
        p.1.kind = Kind.F ∧ p.2 = Status.complete :=
  c10_generations_whole_history _ (pipe_thr_lives_valid leaves hist 0 [] (fun _ h => by cases h)) k hk pre hp

/-! ## The tie to the composed model `TR.Pipeline` -/

section pipeline
variable {F : FloatOps}

/-- the environment `Pipe.motionCall` uses: every request at tick 0 with tag 0, no base failure -/
def envPipe : Env := {}

/-- what a call that reaches the motion FILE recorder does to the pipeline's abstract files (`Pipe.applyTObs`, read
through `baseObs`) -/
def applyBaseObs (c : PipeCfg) (p : Pipe F) : Obs → Pipe F
  | .call .motion .start _ => Pipe.startFile c p .motion p.threshOfStart
  | .call .motion (.write id) _ => Pipe.writeFile p .motion id
  | .call .motion .stop _ => Pipe.stopFile p .motion
  | _ => p

/-- `motionCall` stores the detector's threshold at an upstream start, before the request is made -/
def stampStart (p : Pipe F) : Call → Pipe F
  | .start => { p with threshOfStart := p.det.tempThresh }
  | _ => p

theorem foldl_applyBaseObs (c : PipeCfg) : ∀ (l : List TObs) (p : Pipe F),
    (l.filterMap baseObs).foldl (applyBaseObs c) p = l.foldl (Pipe.applyTObs c) p := by
  intro l
  induction l with
  | nil => intro p; rfl
  | cons o l ih =>
    intro p
    cases o <;> simp only [List.filterMap_cons, baseObs, List.foldl_cons, ih] <;> rfl

/-- **`thrObs` is the wiring of `TR.Pipeline`.**  With the throttle on, one processor call on the motion sink (the
pipeline model only has successful ones) acts on the pipeline exactly as `thrStep` says, in the environment `envPipe`
and whatever the request count `k`: the throttle state becomes the one `thrStep` reaches, and the files change as the
calls `thrStep` emits for the motion file recorder dictate -/
theorem motionCall_eq_thrStep (c : PipeCfg) (hthr : c.throttle = true) (p : Pipe F) (k : Nat) (call : Call) :
    Pipe.motionCall c p call =
      (thrStep envPipe (k, p.thr) (.call .motion call true)).2.foldl (applyBaseObs c)
        { stampStart p call with thr := (thrStep envPipe (k, p.thr) (.call .motion call true)).1.2 } := by
  unfold Pipe.motionCall
  rw [if_pos hthr]
  cases call with
  | can => rfl
  | start => exact (foldl_applyBaseObs c _ _).symm
  | write id => exact (foldl_applyBaseObs c _ _).symm
  | stop => exact (foldl_applyBaseObs c _ _).symm

end pipeline

/-! ## Non-vacuity -/

instance (os : List Obs) : Decidable (CTStopsSucceed os) := by unfold CTStopsSucceed; infer_instance

/-- ring of 3, recordings of 2 to 20 frames, trigger on the first motion frame, no continuous recorder, test
recordings of 2 frames -/
private def cfg : PCfg := ⟨3, 2, 20, 1, false, 1⟩

/-- a still frame, a test request, twelve motion frames (ids 1 … 12; the recording starts at frame 1 with the
pre-trigger frame 0), two still frames (the recording stops after frame 13) -/
private def evs : List Ev :=
  [.frame false {}, .testReq] ++ List.replicate 12 (.frame true {}) ++ [.frame false {}, .frame false {}]

/-- one tick every two requests; `base.StartRecording` fails during request 10, `base.WriteFrame` during request 3 -/
private def env : Env := { tick := fun k => k / 2, bStart := fun k => k != 10, bWrite := fun k => k != 3 }

set_option maxRecDepth 20000 in
/-- what the processor asks of its motion sink: one recording of 14 frames (requests 0 … 15) -/
example : callsOf .motion (C10Pipe.obsOf cfg evs) =
    [(.can, true), (.start, true)] ++ (List.range 14).map (fun i => (Call.write i, true)) ++ [(.stop, true)] := by
  decide

set_option maxRecDepth 20000 in
/-- what the motion FILE recorder sees behind a throttle with a bucket of 3 frames, one frame per tick, minimum
recording length 2: frames 0 … 5 (the write of frame 2 failing in the base recorder), the CUT when frame 6 finds the
bucket empty, frames 6 … 8 dropped while fewer than 2 tokens are back, a restart attempt on frame 9 that FAILS in the
base recorder (frame 9 is lost), the restart on frame 10, frames 10 … 13, and the processor's stop -/
example : callsOf .motion (thrObs env 3 1 2 (C10Pipe.obsOf cfg evs)) =
    [(.can, true), (.start, true), (.write 0, true), (.write 1, true), (.write 2, false), (.write 3, true),
     (.write 4, true), (.write 5, true), (.stop, true),
     (.start, false),
     (.start, true), (.write 10, true), (.write 11, true), (.write 12, true), (.write 13, true), (.stop, true)] := by
  decide

set_option maxRecDepth 20000 in
/-- the test recorder is untouched -/
example : callsOf .test (thrObs env 3 1 2 (C10Pipe.obsOf cfg evs)) =
    [(.start, true), (.write 1, true), (.write 2, true), (.stop, true)] ∧
    callsOf .test (C10Pipe.obsOf cfg evs) = [(.start, true), (.write 1, true), (.write 2, true), (.stop, true)] := by
  decide

private def thrOps : List Op :=
  [.start 0, .write 0, .write 0,                  -- motion file 0: frames 0, 1
   .start 1, .write 1,                            -- test recorder: file 1
   .write 0, .write 1, .stop 1,                   -- frame 2 (its write fails); the test recording ends
   .write 0, .write 0, .write 0,                  -- frames 3, 4, 5: the bucket is empty
   .stop 0,                                       -- frame 6: cut by the throttle — file 0 gets its `.cptv` name
                                                  -- frames 6, 7, 8: dropped, no operation
   .startFail 2,                                  -- frame 9: restart attempt, the header write fails: `2.cptv.temp`
   .start 3, .write 3, .write 3, .write 3, .write 3,   -- frame 10: restart — file 3: frames 10 … 13
   .stop 3]                                       -- the processor's stop

set_option maxRecDepth 20000 in
/-- the file-system operations of that connection -/
example : fsOps (fun _ => true) {} (thrObs env 3 1 2 (C10Pipe.obsOf cfg evs)) = ({ next := 4 }, thrOps) := rfl

set_option maxRecDepth 20000 in
/-- the same events without the throttle: one file of 14 frames -/
example : (fsOps (fun _ => true) {} (C10Pipe.obsOf cfg evs)).2 =
    [.start 0, .write 0, .write 0, .start 1, .write 1, .write 0, .write 1, .stop 1] ++
      List.replicate 11 (.write 0) ++ [.stop 0] := rfl

set_option maxRecDepth 20000 in
/-- the hypothesis of the theorems holds for it (by evaluation; also from the fault records) -/
example : CTStopsSucceed (C10Pipe.obsOf cfg evs) := by decide

example : CTStopsSucceed (C10Pipe.obsOf cfg evs) :=
  ctStops_of_faults _ _ (by simp [evs, StopFaultFree, Ev.faults])

/-- so the translation above is exact and valid (an instance of `pipe_thr_ops_valid`) -/
example : Exact (fun _ => true) {} (thrObs env 3 1 2 (C10Pipe.obsOf cfg evs)) :=
  (pipe_thr_ops_valid _ cfg (by decide) evs (ctStops_of_faults _ _ (by simp [evs, StopFaultFree, Ev.faults]))
    env 3 1 2).1

/-- the directory afterwards: the cut file 0, the restarted file 3 and the test recording 1 are complete recordings,
the failed restart left debris; clean-up leaves the three recordings -/
example : (Dir.run {} (thrOps.flatMap Op.steps)).files =
    [(⟨3, .F⟩, .complete), (⟨2, .T⟩, .partialData), (⟨0, .F⟩, .complete), (⟨1, .F⟩, .complete)] ∧
    (Dir.run {} (thrOps.flatMap Op.steps)).cleanup.files =
    [(⟨3, .F⟩, .complete), (⟨0, .F⟩, .complete), (⟨1, .F⟩, .complete)] := by decide

set_option maxRecDepth 20000 in
/-- the camera disconnects after frame 11: the restarted base file 3 is open (the upstream recording too) and
`handleConn`'s deferred `cptvRecorder.Stop()` discards it -/
example : fsOps (fun _ => true) {} (thrObs env 3 1 2 (C10Pipe.obsOf cfg (evs.take 13))) =
      ({ motion := some 3, next := 4 }, thrOps.take 16) ∧
    endOps { motion := some 3, next := 4 } = [.discard 3] := ⟨rfl, rfl⟩

example : (Dir.run {} ((thrOps.take 16 ++ [Op.discard 3]).flatMap Op.steps)).files =
    [(⟨2, .T⟩, .partialData), (⟨0, .F⟩, .complete), (⟨1, .F⟩, .complete)] ∧
    (Dir.run {} ((thrOps.take 16 ++ [Op.discard 3]).flatMap Op.steps)).cleanup.files =
    [(⟨0, .F⟩, .complete), (⟨1, .F⟩, .complete)] := by decide

set_option maxRecDepth 20000 in
/-- `minLen = 0`, bucket of 2 never refilled (`Props.PipeThr`, second example): after the cut every frame opens a base
file and closes it at once — twelve empty recordings; still paired, still exact, still `ValidOps` -/
example : callsOf .motion (thrObs {} 2 1 0 (C10Pipe.obsOf cfg evs)) =
    [(.can, true), (.start, true), (.write 0, true), (.write 1, true), (.stop, true)] ++
      (List.replicate 11 [(Call.start, true), (Call.stop, true)]).flatten := by decide

/-- two lives.  The first: the throttled connection above, cut short after frame 11, then an UNTHROTTLED connection of
three frames (`activate` is read from the configuration of the life, so the real daemon does not mix the wirings
within a life; the theorems allow it anyway); killed after its last system call.  The second: throttled, bucket of 2
frames never refilled (`q = 0`), killed after 20 of its 22 system calls (inside the stop of the test recording) -/
private def hist : List TLife :=
  [⟨[⟨cfg, evs.take 13, some ⟨env, 3, 1, 2⟩⟩, ⟨cfg, evs.take 5, none⟩], 70⟩,
   ⟨[⟨cfg, evs, some ⟨{}, 2, 0, 2⟩⟩], 20⟩]

set_option maxRecDepth 20000 in
example : (livesOfT (fun _ => true) 0 hist).map (·.ops) =
    [thrOps.take 16 ++ [.discard 3] ++
       [.start 4, .write 4, .write 4, .start 5, .write 5, .write 4, .write 5, .stop 5, .write 4, .discard 4],
     [.start 6, .write 6, .write 6, .start 7, .write 7, .stop 6, .write 7, .stop 7]] := rfl

set_option maxRecDepth 20000 in
example : (livesOfT (fun _ => true) 0 hist).map (fun l => (l.pre.length, (l.ops.flatMap Op.steps).length)) =
    [(69, 69), (20, 22)] := by decide

set_option maxRecDepth 20000 in
/-- the crash state of the second life: the recordings of the first life survived; file 6 — cut by the throttle when
the bucket ran out — is complete; the test recording 7 (killed inside its stop) is debris; the next start-up leaves
the four recordings -/
example :
    ((livesOfT (fun _ => true) 0 hist)[1]?.map fun l =>
        ((afterLives {} ((livesOfT (fun _ => true) 0 hist).take 1)).run l.pre).files) =
      some [(⟨6, .F⟩, .complete), (⟨7, .T⟩, .partialData), (⟨7, .S⟩, .partialData),
       (⟨5, .F⟩, .complete), (⟨0, .F⟩, .complete), (⟨1, .F⟩, .complete)] ∧
    (afterLives {} (livesOfT (fun _ => true) 0 hist)).files =
      [(⟨6, .F⟩, .complete), (⟨5, .F⟩, .complete), (⟨0, .F⟩, .complete), (⟨1, .F⟩, .complete)] := by decide

/-- why a `.start` request carries the processor's `ok`: were the base start to SUCCEED (bucket full) while the
processor is told it failed, the processor's next start attempt would reach the base recorder while its file is open
(the throttle forwards a second start request: first line).  `thrObs` cannot express this (the outcome is tied); the
broken list is not `WellFormed` and not `Exact` -/
example (leaves : Nat → Bool) :
    baseCallsOf ((TState.init 3 1 2).step (.start 0 0 true)).2 ++
      baseCallsOf (((TState.init 3 1 2).step (.start 0 0 true)).1.step (.start 0 0 true)).2 =
      [(.start, true), (.start, true)] ∧
    ¬ WellFormed [(Call.start, true), (Call.start, true)] ∧
    ¬ Exact leaves {} [.call .motion .start true, .call .motion .start true] := by
  refine ⟨by decide, by decide, fun h => ?_⟩
  have := h [_] _ [] rfl; cases this

end TR.C10PipeThr
