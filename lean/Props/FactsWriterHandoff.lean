import Generated.Facts
/-! # Source facts — C18: the buffer hand-off of thermal-writer (re-extracted by tools/gofacts at every check; one small module per concern) -/
namespace TR.FactsWiring
open Facts

/-- C18: 256 buffers circulate between two channels of that capacity; the reader takes a spent buffer,
fills it, hands it to the writer, and closes the queue on a read error; the writer writes a frame
before returning its buffer and closes the file when the queue is closed -/
theorem writer_handoff : inFlight = 256 ∧
    writerChannels = "make(chan []byte, inFlight);make(chan []byte, inFlight)" ∧
    writerReaderOrder = "send spentFrames;recv spentFrames;io.ReadFull frame;close writeFrames;send writeFrames" ∧
    writerWriterOrder = "case <-changeFile;builder.Close;case frame, ok := <-inFrames;builder.Close;writeFrame;send outFrames" := by
  decide

end TR.FactsWiring
