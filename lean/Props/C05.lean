import Proofs.Throttle
/-!
# C05 — Throttling bounds recorded frames by the token bucket in every time interval

Quantifier: every bucket capacity ≥ 1 and quantum ≥ 1 (the two numbers the rate-limiter
library derives from `bucket-size*fps` and the refill rate), every minimum recording length,
every list of upstream start / write / stop requests — whatever the upstream is, in
particular the motion processor under continuous motion — with any non-decreasing clock, and
every pattern of base-recorder failures.

Tick `T = (now − start) / fillInterval`.  In every window of requests `i … j`
  frames forwarded to storage  ≤  cap + 1 + q·(T_j − T_i)
and `T_j − T_i ≤ (t_j − t_i)/fillInterval + 1`, i.e. bucket + refill earned + (1 + q) frames;
with `q = 1` (every rate below 10⁷ frames/s) that is the property's two-frame tolerance.
-/
namespace TR.C05
open TR

/-- sum of forwarded frames over a list of (tick, forwarded) pairs -/
def fwdSum (l : List (Nat × Nat)) : Nat := (l.map (·.2)).sum

theorem windowsFrom_sound (cap q t0 : Nat) : ∀ (l : List (Nat × Nat)) (acc : Nat),
    windowsFrom cap q t0 acc l = true →
    ∀ j (hj : j < l.length), acc + fwdSum (l.take (j + 1)) ≤ cap + 1 + q * (l[j].1 - t0) := by
  intro l
  induction l with
  | nil => intro acc _ j hj; simp at hj
  | cons a rest ih =>
    intro acc h j hj
    obtain ⟨t, f⟩ := a
    simp only [windowsFrom, Bool.and_eq_true, decide_eq_true_eq] at h
    cases j with
    | zero => simp [fwdSum]; exact h.1
    | succ j =>
      have := ih (acc + f) h.2 j (by simpa using hj)
      simp only [List.take_succ_cons, fwdSum, List.map_cons, List.sum_cons, List.getElem_cons_succ] at this ⊢
      omega

/-- **C05 (readable form of the monitor).** If `allWindows` accepts a list then every window
`i … j` satisfies the bound. -/
theorem allWindows_sound (cap q : Nat) : ∀ (l : List (Nat × Nat)), allWindows cap q l = true →
    ∀ i j (hij : i ≤ j) (hj : j < l.length),
      fwdSum ((l.drop i).take (j - i + 1)) ≤ cap + 1 + q * (l[j].1 - (l[i]'(by omega)).1) := by
  intro l
  induction l with
  | nil => intro _ i j _ hj; simp at hj
  | cons a rest ih =>
    intro h i j hij hj
    obtain ⟨t, f⟩ := a
    simp only [allWindows, Bool.and_eq_true] at h
    cases i with
    | zero =>
      have := windowsFrom_sound cap q t ((t, f) :: rest) 0 h.1 j hj
      simpa using this
    | succ i =>
      cases j with
      | zero => omega
      | succ j =>
        have := ih h.2 i j (by omega) (by simpa using hj)
        simpa using this

/-- **C05.** For every schedule the throttle's trace is accepted by the window monitor. -/
theorem c05_window_monitor (cap q minLen : Nat) (hc : 0 < cap) (hq : 0 < q) (reqs : List TReq)
    (hm : Mono 0 reqs) :
    monC05 cap q (utrace { t := TState.init cap q minLen } reqs) = [] := by
  unfold monC05
  rw [allWindows_ok cap q reqs _ 0 rfl rfl (Bucket.wf_new cap q hc hq 0) hm]
  rfl

/-- **C05, spelled out.** In the trace of any schedule, the frames forwarded to storage during
requests `i … j` are at most `cap + 1 + q·(T_j − T_i)`. -/
theorem c05_every_window (cap q minLen : Nat) (hc : 0 < cap) (hq : 0 < q) (reqs : List TReq)
    (hm : Mono 0 reqs) (i j : Nat) (hij : i ≤ j)
    (hj : j < (tickFwd 0 (utrace { t := TState.init cap q minLen } reqs)).length) :
    fwdSum (((tickFwd 0 (utrace { t := TState.init cap q minLen } reqs)).drop i).take (j - i + 1))
      ≤ cap + 1 + q * ((tickFwd 0 (utrace { t := TState.init cap q minLen } reqs))[j].1
          - ((tickFwd 0 (utrace { t := TState.init cap q minLen } reqs))[i]'(by omega)).1) :=
  allWindows_sound cap q _
    (allWindows_ok cap q reqs _ 0 rfl rfl (Bucket.wf_new cap q hc hq 0) hm) i j hij hj

/-- ticks versus wall-clock: with `tick = t / fill`, the tick difference of two instants is at
most the elapsed time in fill intervals plus one — the "2 frames of tick quantisation" for q = 1 -/
theorem tick_diff_le (fill t1 t2 : Nat) (hf : 0 < fill) (hle : t1 ≤ t2) :
    t2 / fill - t1 / fill ≤ (t2 - t1) / fill + 1 := by
  have h1 := Nat.div_add_mod t1 fill
  have h2 := Nat.div_add_mod t2 fill
  have h3 := Nat.div_add_mod (t2 - t1) fill
  have m1 := Nat.mod_lt t1 hf
  have m2 := Nat.mod_lt t2 hf
  have m3 := Nat.mod_lt (t2 - t1) hf
  -- fill * (a - b - c - 1) < ... contradiction by cases
  rcases Nat.lt_or_ge ((t2 - t1) / fill + 1) (t2 / fill - t1 / fill) with hlt | hge
  · exfalso
    have : fill * ((t2 - t1) / fill + 2) ≤ fill * (t2 / fill - t1 / fill) := Nat.mul_le_mul_left _ (by omega)
    rw [Nat.mul_sub] at this
    rw [Nat.mul_add] at this
    omega
  · exact hge

/-! ### Non-vacuity: the `+1` is attained — after idling while full, cap+1 frames pass at once -/
example :
    let reqs : List TReq := [.start 5 1 true, .write 5 1 true true true, .write 5 2 true true true,
                             .write 5 3 true true true, .write 5 4 true true true]
    (tickFwd 0 (utrace { t := TState.init 2 1 1 } reqs)).map (·.2) = [0, 1, 1, 1, 0] := by decide

end TR.C05
