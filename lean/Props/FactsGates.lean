import Generated.Facts
/-! # Source facts — C04: the start gates (re-extracted by tools/gofacts at every check; one small module per concern so
that a rewrite of one function re-opens only the obligations of the properties that depend on it) -/
namespace TR.FactsProc
open Facts

/-- C04: the window is consulted in `canStartWriting`, the run counter is compared with trigger-frames -/
theorem gates_expr : windowGate = "!mp.window.Active()" ∧ triggerTest = "mp.triggered < mp.triggerFrames" := by decide

end TR.FactsProc
