import Generated.Facts
/-! # Source facts — C03 C17 C11: minF / maxF (re-extracted by tools/gofacts at every check; one small module per concern so
that a rewrite of one function re-opens only the obligations of the properties that depend on it) -/
namespace TR.FactsProc
open Facts

/-- C03: the limits are min-secs*fps and max-secs*fps (`minF`, `maxF` of the model) -/
theorem limits_expr : minFramesExpr = "recorderConf.MinSecs * c.FPS()" ∧ maxFramesExpr = "recorderConf.MaxSecs * c.FPS()" := by
  decide

end TR.FactsProc
