import Proofs.ConcC16
/-!
# C16 — a snapshot served concurrently with frame processing observes a whole frame

Model: `TR/Conc.lean`.  The frame thread writes the words of frame `n` into slot `cur` of the ring
WITHOUT `FrameLoop.mu` (the parser fills `frameLoop.Current()`), then atomically locks, `Move`s and
unlocks.  The requester (`GetRecentFrame` → `CopyRecent`) takes the lock, copies the slot before the
current one word by word, and unlocks.  `Step content` is one atomic action of either thread, a
path `Reach content s0 s` is an arbitrary interleaving; frame `k` has word `i` equal to
`content k i`.

Quantifiers: every capacity `size ≥ 2` (the recorder's ring always has ≥ 2 slots), every frame
size `words`, every `content`, every interleaving.

`s.nAtLock` is the number of completed frames at the moment the requester took the lock, so
"frame `nAtLock − 1`" is the last frame whose processing (`Move`) had completed at that moment.
If `nAtLock = 0` no frame had completed and there is no frame to return (hypothesis `h1`).

The second half ties the model to the source: the lockset check `racyVars` evaluated on the access
table regenerated from the Go source (`Facts.accesses`) reports no unprotected conflicting pair on
any ring variable, and `c16_common_lock_orders_accesses` is the reason a common lock matters.
-/
namespace TR.C16
open TR.Conc

/-! ## 1. The snapshot is one whole frame -/

/-- **C16.** For every capacity ≥ 2, every frame size, every frame contents and EVERY interleaving:
when a request has finished, its copy is exactly frame `nAtLock − 1`, the last frame completed when
the lock was taken (a whole frame, never a mixture). -/
theorem c16_snapshot_is_whole_frame (content : Nat → Nat → Nat) (size words : Nat) (h2 : 2 ≤ size)
    (s : St) (hr : Reach content (init size words) s) (hd : s.r = .done) (h1 : 1 ≤ s.nAtLock) :
    ∀ i, i < words → s.copy i = content (s.nAtLock - 1) i :=
  ((cinv_reach h2 hr).hdone hd).2 h1

/-- While the copy is in progress the words already copied are words of that same frame, and no
`Move` has happened since the lock was taken. -/
theorem c16_partial_copy_is_prefix (content : Nat → Nat → Nat) (size words : Nat) (h2 : 2 ≤ size)
    (s : St) (hr : Reach content (init size words) s) (slot pos : Nat)
    (hrd : s.r = .reading slot pos) (h1 : 1 ≤ s.nAtLock) :
    s.n = s.nAtLock ∧ ∀ i, i < pos → s.copy i = content (s.nAtLock - 1) i :=
  have h := (cinv_reach h2 hr).hread slot pos hrd
  ⟨h.2.1, h.2.2.2.2 h1⟩

/-! ## 2. The frame returned is the most recent at request time, or newer -/

/-- `n` (the number of completed frames) never decreases. -/
theorem c16_completed_frames_monotone (content : Nat → Nat → Nat) (s t : St)
    (h : Reach content s t) : s.n ≤ t.n := n_mono_reach h

/-- If the request is made in state `s` (requester idle, `s.n` frames completed) and is finished in
a later state `t`, the lock was taken when at least `s.n` frames had completed.  (The reachability
of `s` is not needed for this part.) -/
theorem c16_snapshot_not_older_than_request (content : Nat → Nat → Nat) (size words : Nat)
    (s t : St) (_hr : Reach content (init size words) s) (hi : s.r = .idle)
    (hst : Reach content s t) (hd : t.r = .done) : s.n ≤ t.nAtLock := by
  rcases (fresh_reach hst hi).2 with h | h
  · rw [hd] at h; exact absurd h (by simp)
  · exact h

/-- **C16, both halves together.**  A request made when frames `0 … s.n − 1` had completed returns
exactly frame `k` for some `k ≥ s.n − 1` (`k = t.nAtLock − 1`) that had completed when it returned. -/
theorem c16_snapshot_whole_and_fresh (content : Nat → Nat → Nat) (size words : Nat) (h2 : 2 ≤ size)
    (s t : St) (hr : Reach content (init size words) s) (hi : s.r = .idle) (hn : 1 ≤ s.n)
    (hst : Reach content s t) (hd : t.r = .done) :
    ∃ k, s.n - 1 ≤ k ∧ k < t.n ∧ ∀ i, i < words → t.copy i = content k i := by
  have hfresh := c16_snapshot_not_older_than_request content size words s t hr hi hst hd
  have hrt := reach_trans hr hst
  refine ⟨t.nAtLock - 1, by omega, ?_, ?_⟩
  · -- nAtLock ≤ n in every reachable state
    have : ∀ u, Reach content (init size words) u → u.nAtLock ≤ u.n := by
      intro u hu
      induction hu with
      | refl => exact Nat.le_refl _
      | step _ hs ih => cases hs <;> simp <;> omega
    have := this t hrt
    omega
  · exact c16_snapshot_is_whole_frame content size words h2 t hrt hd (by omega)

/-! ## 3. The requester holds the lock for exactly `words` reads; the writer never needs it -/

/-- In every reachable state in which the requester holds the lock it can take a step: another read
while `pos < words`, the unlock when `pos = words` (and `pos ≤ words` always). -/
theorem c16_request_never_stalls_pipeline (content : Nat → Nat → Nat) (size words : Nat)
    (h2 : 2 ≤ size) (s : St) (hr : Reach content (init size words) s) (slot pos : Nat)
    (hrd : s.r = .reading slot pos) :
    pos ≤ words ∧
    (pos < words → ∃ t, Step content s t ∧ t.r = .reading slot (pos + 1) ∧ t.lockedByReq = true) ∧
    (pos = words → ∃ t, Step content s t ∧ t.r = .done ∧ t.lockedByReq = false) := by
  have hinv := cinv_reach h2 hr
  obtain ⟨hl, _, hp, _, _⟩ := hinv.hread slot pos hrd
  refine ⟨hp, ?_, ?_⟩
  · intro hlt
    exact ⟨_, Step.rRead s slot pos hrd (by rw [hinv.hwords]; exact hlt), rfl, hl⟩
  · intro he
    subst he
    exact ⟨_, Step.rUnlock s slot (by rw [hinv.hwords]; exact hrd), rfl, rfl⟩

/-- The frame thread can always write the next word of the incoming frame, whoever holds the lock;
it waits only at the `Move`, and only while the requester holds the lock. -/
theorem c16_frame_thread_progress (content : Nat → Nat → Nat) (s : St) :
    (s.fpos < s.words → ∃ t, Step content s t ∧ t.fpos = s.fpos + 1) ∧
    (s.fpos = s.words → s.lockedByReq = false → ∃ t, Step content s t ∧ t.n = s.n + 1) :=
  ⟨fun h => ⟨_, Step.fWrite s h, rfl⟩, fun h hl => ⟨_, Step.fMove s h hl, rfl⟩⟩

/-! ## 4. Non-vacuity, and why capacity ≥ 2 matters -/

/-- With capacity 2 the interleaved schedule (frame 0 is written and moved, the requester locks and
copies word 0, the frame thread writes both words of frame 1 into the current slot, the requester
copies word 1 and unlocks) is a path of the model and ends with the requester done, `nAtLock = 1` and
the copy equal to frame 0 — the hypotheses of `c16_snapshot_is_whole_frame` are satisfiable. -/
example : ∃ s, Reach demoContent (init 2 2) s ∧ s.r = .done ∧ s.nAtLock = 1 ∧ s.fpos = 2 ∧
    s.copy 0 = 1 ∧ s.copy 1 = 1 := by
  refine ⟨_,
    Reach.step (Reach.step (Reach.step (Reach.step (Reach.step (Reach.step (Reach.step (Reach.step
      (Reach.step Reach.refl
      (Step.fWrite _ (by decide)))
      (Step.fWrite _ (by decide)))
      (Step.fMove _ (by decide) (by decide)))
      (Step.rLock _ (by decide) (by decide)))
      (Step.rRead _ _ 0 rfl (by decide)))
      (Step.fWrite _ (by decide)))
      (Step.fWrite _ (by decide)))
      (Step.rRead _ _ 1 rfl (by decide)))
      (Step.rUnlock _ _ rfl),
    rfl, rfl, rfl, ?_, ?_⟩ <;> decide

/-- **Capacity 1 tears.**  With a single slot the "slot before the current one" IS the current
slot, which the frame thread is writing without the lock: the same schedule returns word 0 of
frame 0 and word 1 of frame 1. -/
theorem c16_capacity_one_can_tear : ∃ s, Reach demoContent (init 1 2) s ∧ s.r = .done ∧
    s.nAtLock = 1 ∧ s.copy 0 = demoContent 0 0 ∧ s.copy 1 = demoContent 1 1 ∧ s.copy 0 ≠ s.copy 1 := by
  refine ⟨_,
    Reach.step (Reach.step (Reach.step (Reach.step (Reach.step (Reach.step (Reach.step (Reach.step
      (Reach.step Reach.refl
      (Step.fWrite _ (by decide)))
      (Step.fWrite _ (by decide)))
      (Step.fMove _ (by decide) (by decide)))
      (Step.rLock _ (by decide) (by decide)))
      (Step.rRead _ _ 0 rfl (by decide)))
      (Step.fWrite _ (by decide)))
      (Step.fWrite _ (by decide)))
      (Step.rRead _ _ 1 rfl (by decide)))
      (Step.rUnlock _ _ rfl),
    rfl, rfl, ?_, ?_, ?_⟩ <;> decide

/-! ## 5. The lockset check on the access table regenerated from the source -/

/-- The variables with an unprotected conflicting pair of accesses in the current source. -/
theorem c16_racy_variables :
    racyVars Facts.accesses = ["CurrentFrame", "StartSnapshot", "headerInfo", "processor"] :=
  racy_accesses

/-- None of the ring's variables is among them: every pair of conflicting accesses to the ring from
different threads shares `FrameLoop.mu`. -/
theorem c16_ring_accesses_protected :
    ∀ v ∈ ["frameLoop.currentIndex", "frameLoop.bufferFull", "frameLoop.oldest", "frameLoop.frames"],
      v ∉ racyVars Facts.accesses := by
  rw [c16_racy_variables]
  decide

/-- The check is not vacuous: the table does contain cross-thread accesses to the ring. -/
example : ("service", "frameLoop.frames", "R", "FrameLoop.mu+snapshot.mu") ∈ Facts.accesses ∧
    ("frame", "frameLoop.currentIndex", "W", "FrameLoop.mu") ∈ Facts.accesses := by
  decide

/-! ## 6. Why a common lock is enough -/

open Lock in
/-- **Lockset soundness.**  Events are `acq t l | rel t l | acc t v w`; `HoldsAfter tr t l` says
that the prefix `tr` is a possible mutex history (no acquire of a held lock, no release by a
non-holder) after which thread `t` holds lock `l`.  If thread `t1` accesses `v` while holding `l`
and a different thread `t2` later accesses `v` while holding `l` too, then the events between the
two accesses contain `rel t1 l` followed by `acq t2 l`: the accesses are ordered by the mutex's
release → acquire edge (happens-before), hence not concurrent. -/
theorem c16_common_lock_orders_accesses (pre mid post : List Ev) (t1 t2 v l : Nat) (w1 w2 : Bool)
    (_hwf : WF (pre ++ Ev.acc t1 v w1 :: (mid ++ Ev.acc t2 v w2 :: post)))
    (h1 : HoldsAfter pre t1 l) (h2 : HoldsAfter (pre ++ Ev.acc t1 v w1 :: mid) t2 l)
    (hne : t1 ≠ t2) :
    ∃ m1 m2 m3, mid = m1 ++ Ev.rel t1 l :: (m2 ++ Ev.acq t2 l :: m3) :=
  common_lock_orders pre mid t1 t2 v l w1 h1 h2 hne

open Lock in
/-- non-vacuity: thread 1 writes `v=7` under lock 0, releases; thread 2 acquires and reads -/
example : WF ([Ev.acq 1 0] ++ Ev.acc 1 7 true :: ([Ev.rel 1 0, Ev.acq 2 0] ++ Ev.acc 2 7 false :: [Ev.rel 2 0])) ∧
    HoldsAfter [Ev.acq 1 0] 1 0 ∧ HoldsAfter ([Ev.acq 1 0] ++ Ev.acc 1 7 true :: [Ev.rel 1 0, Ev.acq 2 0]) 2 0 := by
  refine ⟨by decide, ⟨_, rfl, by decide⟩, ⟨_, rfl, by decide⟩⟩

end TR.C16
