import TR.Daemon
import Generated.Facts
import Props.C10Glob
/-!
# Start-up of the recorder daemon (C10: "the daemon's start-up clean-up leaves complete recordings only")

`TR.Daemon.startUp` with the pattern built from the regenerated constant is what the `daemon` correspondence stream
predicts for the real `runMain` on directories holding finished, temporary and unrelated files.  For ARBITRARY
directory contents: nothing that contains `.cptv.temp` survives, everything else survives in order, a second start
changes nothing, and a refused configuration leaves the directory alone.
-/
namespace TR.DaemonProps
open TR.FS TR.Daemon TR.C10Glob

/-- the pattern of the source -/
def pattern : String := "*." ++ Facts.cptvTempExt ++ "*"

theorem removed_eq (n : String) : Daemon.removed pattern n = C10Glob.removed n := rfl

/-- after a start, no surviving name contains `.cptv.temp` -/
theorem startUp_no_temp (dir out : List String) (h : startUp pattern true dir = some out) :
    ∀ n ∈ out, ¬ ".cptv.temp".toList <:+: n.toList := by
  intro n hn
  simp only [startUp, if_true, Option.some.injEq] at h
  subst h
  have := (List.mem_filter.1 hn).2
  rw [removed_eq] at this
  have hk : C10Glob.removed n = false := by
    cases hr : C10Glob.removed n with
    | false => rfl
    | true => rw [hr] at this; exact absurd this (by decide)
  exact (kept_iff n).1 hk

/-- every name without `.cptv.temp` survives — in particular every finished recording `<stem>.cptv` whose stem does not
contain `.cptv.temp` (`C10Glob.keeps_F_iff`) and every unrelated file -/
theorem startUp_keeps (dir out : List String) (h : startUp pattern true dir = some out) (n : String)
    (hn : n ∈ dir) (hk : ¬ ".cptv.temp".toList <:+: n.toList) : n ∈ out := by
  simp only [startUp, if_true, Option.some.injEq] at h
  subst h
  refine List.mem_filter.2 ⟨hn, ?_⟩
  rw [removed_eq, (kept_iff n).2 hk]
  rfl

/-- exactly: the survivors are the names without `.cptv.temp`, in their original order -/
theorem startUp_eq (dir : List String) :
    startUp pattern true dir = some (dir.filter fun n => !C10Glob.removed n) := rfl

/-- survivors are a sublist: the start creates nothing and reorders nothing -/
theorem startUp_sublist (dir out : List String) (h : startUp pattern true dir = some out) : out.Sublist dir := by
  simp only [startUp, if_true, Option.some.injEq] at h
  subst h
  exact List.filter_sublist

/-- a second start right after the first changes nothing (crash loops do not erode the directory) -/
theorem startUp_idempotent (dir out : List String) (h : startUp pattern true dir = some out) :
    startUp pattern true out = some out := by
  simp only [startUp, if_true, Option.some.injEq] at h ⊢
  subst h
  rw [List.filter_filter]
  congr 1
  funext n
  cases Daemon.removed pattern n <;> rfl

/-- a configuration the daemon refuses (max-secs below min-secs) leaves the directory untouched -/
theorem startUp_refused (dir : List String) :
    startUp pattern false dir = none ∧ oldNamesAfter pattern false dir = dir := ⟨rfl, rfl⟩

/-- non-vacuity: the directory the correspondence stream uses -/
example : startUp "*.cptv.temp*" true
    ["20200101.010101.000.cptv", "20200102.020202.000.cptv.temp", "20200102.020202.000.cptv.temp.tmp", "notes.txt",
     "x.cptv.temporary", "cptv.temp", ".cptv.temp", "a.cptv.tmp", "b.CPTV.TEMP", "c.cptv.tem"] =
    some ["20200101.010101.000.cptv", "notes.txt", "cptv.temp", "a.cptv.tmp", "b.CPTV.TEMP", "c.cptv.tem"] := by
  simp [startUp, Daemon.removed, globMatch]

end TR.DaemonProps
