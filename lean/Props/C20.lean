import TR.LogLimiter
/-!
# C20 — Log limiter drops only exact repeats inside the interval, nothing else

Quantifier: every history of (message, arrival time) pairs, any message type, any interval.
-/
namespace TR.C20
open TR

variable {μ : Type} [DecidableEq μ]

/-- **C20 (characterisation).** A message is suppressed iff it equals the last message
actually printed and arrives less than `interval` after that print. -/
theorem c20_suppressed_iff (l : LogLim μ) (now : Nat) (msg : μ) :
    (l.print now msg).2 = false ↔ ∃ t m, l.last = some (t, m) ∧ msg = m ∧ now - t < l.interval := by
  unfold LogLim.print
  cases h : l.last with
  | none => simp
  | some p =>
    obtain ⟨t, m⟩ := p
    by_cases hc : now - t < l.interval ∧ msg = m
    · obtain ⟨h1, rfl⟩ := hc
      simp only [h1, and_self, if_true, true_iff]
      exact ⟨t, _, rfl, rfl, h1⟩
    · simp only [hc, if_false]
      constructor
      · intro h; cases h
      · rintro ⟨t', m', heq, hm, ht⟩
        simp only [Option.some.injEq, Prod.mk.injEq] at heq
        obtain ⟨rfl, rfl⟩ := heq
        exact absurd ⟨ht, hm⟩ hc

/-- every printed message becomes the reference, unmodified, with its own arrival time -/
theorem c20_printed_recorded (l : LogLim μ) (now : Nat) (msg : μ) (h : (l.print now msg).2 = true) :
    (l.print now msg).1.last = some (now, msg) ∧ (l.print now msg).1.interval = l.interval := by
  unfold LogLim.print at h ⊢
  cases hl : l.last with
  | none => simp
  | some p =>
    obtain ⟨t, m⟩ := p
    simp only [hl] at h
    by_cases hc : now - t < l.interval ∧ msg = m
    · simp [hc] at h
    · simp [hc]

/-- a suppressed repeat does not move the window (state unchanged) -/
theorem c20_suppressed_keeps_state (l : LogLim μ) (now : Nat) (msg : μ) (h : (l.print now msg).2 = false) :
    (l.print now msg).1 = l := by
  unfold LogLim.print at h ⊢
  cases hl : l.last with
  | none => simp [hl] at h
  | some p =>
    obtain ⟨t, m⟩ := p
    simp only [hl] at h
    by_cases hc : now - t < l.interval ∧ msg = m
    · simp [hc]
    · simp [hc] at h

/-- every message different from the last printed one is printed (no distinct message is lost) -/
theorem c20_distinct_printed (l : LogLim μ) (now : Nat) (msg : μ)
    (h : ∀ t m, l.last = some (t, m) → msg ≠ m) : (l.print now msg).2 = true := by
  cases hp : (l.print now msg).2 with
  | true => rfl
  | false =>
    obtain ⟨t, m, hl, hm, _⟩ := (c20_suppressed_iff l now msg).mp hp
    exact absurd hm (h t m hl)

/-- a message arriving `interval` or more after the last print is printed, even if identical
(the condition keeps being reported once per interval) -/
theorem c20_after_interval_printed (l : LogLim μ) (now : Nat) (msg : μ)
    (h : ∀ t m, l.last = some (t, m) → l.interval ≤ now - t) : (l.print now msg).2 = true := by
  cases hp : (l.print now msg).2 with
  | true => rfl
  | false =>
    obtain ⟨t, m, hl, _, ht⟩ := (c20_suppressed_iff l now msg).mp hp
    have := h t m hl
    omega

/-- the reference after any history is the last printed arrival, and it never lies in the future
of a non-decreasing clock -/
def Sane (l : LogLim μ) (now : Nat) : Prop := ∀ t m, l.last = some (t, m) → t ≤ now

theorem sane_print (l : LogLim μ) (now now' : Nat) (msg : μ) (hs : Sane l now) (hle : now ≤ now') :
    Sane (l.print now msg).1 now' := by
  intro t m hl
  cases hp : (l.print now msg).2 with
  | true =>
    have := (c20_printed_recorded l now msg hp).1
    rw [this] at hl
    simp only [Option.some.injEq, Prod.mk.injEq] at hl
    omega
  | false =>
    rw [c20_suppressed_keeps_state l now msg hp] at hl
    have := hs t m hl
    omega

/-- **C20 (rate).** Two consecutive prints of the same message (no other print in between —
i.e. the second print finds the first as reference) are at least `interval` apart. -/
theorem c20_same_message_spacing (l : LogLim μ) (t1 now : Nat) (msg : μ)
    (href : l.last = some (t1, msg)) (hp : (l.print now msg).2 = true) : l.interval ≤ now - t1 := by
  rcases Nat.lt_or_ge (now - t1) l.interval with hlt | hge
  · have : (l.print now msg).2 = false := (c20_suppressed_iff l now msg).mpr ⟨t1, msg, href, rfl, hlt⟩
    rw [this] at hp; cases hp
  · exact hge

/-- **C20 over whole histories**: `run` prints arrival `i` iff it is not an exact repeat of the
last printed arrival inside the interval — stated as: the run equals the specification that
threads "last printed" explicitly. -/
def specRun (interval : Nat) : Option (Nat × μ) → List (Nat × μ) → List Bool
  | _, [] => []
  | last, (t, m) :: rest =>
    let suppressed := match last with
      | some (tp, mp) => decide (m = mp ∧ t - tp < interval)
      | none => false
    (!suppressed) :: specRun interval (if suppressed then last else some (t, m)) rest

theorem c20_run_eq_spec (l : LogLim μ) (h : List (Nat × μ)) :
    l.run h = specRun l.interval l.last h := by
  induction h generalizing l with
  | nil => rfl
  | cons a rest ih =>
    obtain ⟨t, m⟩ := a
    simp only [LogLim.run, specRun]
    cases hl : l.last with
    | none =>
      have hp : l.print t m = ({ l with last := some (t, m) }, true) := by simp [LogLim.print, hl]
      rw [hp, ih]; simp
    | some p =>
      obtain ⟨tp, mp⟩ := p
      by_cases hc : t - tp < l.interval ∧ m = mp
      · have hp : l.print t m = (l, false) := by simp [LogLim.print, hl, hc]
        have hd : decide (m = mp ∧ t - tp < l.interval) = true := by simp [hc.1, hc.2]
        rw [hp, ih, hl]; simp [hd]
      · have hp : l.print t m = ({ l with last := some (t, m) }, true) := by simp [LogLim.print, hl, hc]
        have hd : decide (m = mp ∧ t - tp < l.interval) = false := by
          simp only [decide_eq_false_iff_not]; intro h; exact hc ⟨h.2, h.1⟩
        rw [hp, ih]; simp [hd]

/-! ### Non-vacuity -/
example : (({ interval := 60 } : LogLim String).run
    [(0, "a"), (10, "a"), (59, "a"), (60, "a"), (61, "b"), (62, "a"), (100, "a"), (122, "a")])
    = [true, false, false, true, true, true, false, true] := by decide

end TR.C20
