import TR.ProcMon
import Proofs.ProcProto01
/-!
# C01 — Each motion recording is a gap-free, duplicate-free, in-order run of the stream

The property is the executable monitor `monC01C02` (`TR/ProcMon.lean`): it reports
`C01:not-contiguous` when a write inside a recording is not `last + 1`,
`C01:overlaps-previous-recording` when a recording starts at an id already written to an earlier
recording, `C01:does-not-tile` when a recording within pre-trigger reach of the previous one does
not start right after it, and `C02:wrong-first-frame` when the first id is not
`max (trigger + 1 − K) nextFree`.  The theorem: on the model's trace the monitor reports nothing.

Quantifier: every configuration with ring capacity `K ≥ 1` (no constraint on `minF`, `maxF`,
`trig`), every event list (frames with any motion bit, bad frames, resets, test requests), every
fault placement on every sink call except failing `WriteFrame` calls on the motion sink.
-/
namespace TR.C01
open TR

/-- no write faults on the motion sink in any event (write failures are outside C01's quantifier) -/
def NoWriteFaults (evs : List Ev) : Prop := ∀ ev ∈ evs, ev.faults.mWriteFail = 0

/-- Every motion recording is a consecutive ascending run of accepted-frame ids, recordings never overlap,
    each starts at max (trigger+1-K) (1 + last id of the previous recording) — for every configuration with K ≥ 1,
    every event list (frames with any motion bits, refused starts of all three kinds, bad frames, resets,
    test requests) and every fault placement except failing motion-sink writes. -/
theorem c01_c02_monitor (c : PCfg) (hK : 0 < c.K) (evs : List Ev) (hw : NoWriteFaults evs) :
    monC01C02 c.K (PState.trace c (PState.init c) evs) = [] :=
  (P01.pinv_trace c evs (PState.init c) {} hw (P01.pinv_init c hK)).2.1

/-! ### Non-vacuity -/

/-- ids written to the motion sink, per event -/
private def writes (c : PCfg) (evs : List Ev) : List (List Nat) :=
  (PState.trace c (PState.init c) evs).map fun st => st.obs.filterMap fun o => (o.isWrite .motion).map (·.1)

private def cfg : PCfg := { K := 3, minF := 2, maxF := 3, trig := 1, constOn := true, testLast := 1 }

/-- frames 0–2 still; motion on 3–6: recording 1..5 (two pre-trigger frames, cut by the `maxF` cap), the
next one tiles it (6, 7); a start refused by the disk check on 8 (event 9), recording 8, 9 cut by a bad
frame; a test request; recording 10 cut by a reset; starts refused by file creation (12) and by the
window (13); recording 12, 13, 14 with a full pre-trigger reach. -/
private def evs : List Ev :=
  [.frame false {}, .frame false {}, .frame false {}, .frame true {}, .frame true {}, .frame true {},
   .frame true {}, .frame false {}, .frame true { can := false }, .frame true { mStop := false }, .bad {},
   .testReq, .frame true { cStart := false }, .reset {}, .frame false {}, .frame true { mStart := false },
   .frame true { win := false }, .frame true {}]

example : NoWriteFaults evs := by unfold NoWriteFaults; decide
set_option maxRecDepth 8000 in
example : writes cfg evs =
    [[], [], [], [1, 2, 3], [4], [5], [6], [7], [], [8, 9], [], [], [10], [], [], [], [], [12, 13, 14]] := by
  decide
set_option maxRecDepth 8000 in
example : monC01C02 cfg.K (PState.trace cfg (PState.init cfg) evs) = [] := by decide

/-- the monitor does reject: a gap, a replayed frame, a late start -/
example : monC01C02 3 [⟨.frame true {}, [.call .motion .start true, .call .motion (.write 0) true,
    .call .motion (.write 2) true]⟩] = ["C01:not-contiguous"] := by decide
example : monC01C02 3
    [⟨.frame true {}, [.call .motion .start true, .call .motion (.write 0) true, .call .motion .stop true]⟩,
     ⟨.frame true {}, [.call .motion .start true, .call .motion (.write 0) true, .call .motion (.write 1) true]⟩]
    = ["C01:overlaps-previous-recording", "C02:wrong-first-frame"] := by decide
example : monC01C02 3
    [⟨.frame false {}, []⟩, ⟨.frame true {}, [.call .motion .start true, .call .motion (.write 1) true]⟩]
    = ["C01:does-not-tile", "C02:wrong-first-frame"] := by decide

/-- the hypothesis `K ≥ 1` is needed: with capacity 0 the monitor rejects the model's own trace -/
example : monC01C02 0 (PState.trace { cfg with K := 0 } (PState.init { cfg with K := 0 }) [.frame true {}]) ≠ [] := by
  decide

end TR.C01
