import Props.PipeC04
import Proofs.PipeC15
/-!
# C15, last clause, at pipeline level: the header of a recording is the detector state at its trigger

"The background and threshold stored with a recording are the ones in force at its trigger" — for the composed
pipeline (`TR.Pipeline`) over whole histories in which the window / disk gates change between items
(`Proofs.PipeC04`: `GOp`, `Pipe.gop`, `runG F c gs`, `motionStarts`, `parseItem`, `verdict`).  The trigger of a
recording is the frame on which the file is actually opened; start attempts on earlier motion frames may have been
refused because the window was closed or the disk check failed, while the dynamic threshold kept moving.

Notions (definitions in `Proofs.PipeC15`):

* `motionFile? p i` — motion file number `i` of the pipeline state `p`, counted from the oldest
  (`motionFile?_is_recording`: its frame list is entry `i` of `motionFiles p`, i.e. recording `i` of
  `pipe_gates_files_are_recordings`);
* `detAfter c p pix tel` — the detector state right after the accepted frame `(pix, tel)` has been examined in
  pipeline state `p`: `(Det.detect c.det p.det pix (Det.affectedBy c.det …)).1`, exactly the expression
  `Pipe.item` uses (`detAfter_eq`; its second component is `verdict c p pix tel`).

Theorems, for every `FloatOps`, every configuration with ring capacity ≥ 1, every history `gs`:

* `pipe_c15_stored_at_trigger` (throttle off) — for every motion file `f` of the final state `runG F c gs` there
  is a split `gs = pre ++ g :: post` such that `g` is a socket frame the parser accepts as `(pix, tel)`, both gates
  are open at `g`, the number of motion files grows by one at `g`, `f` is the motion file with exactly that number,
  and `f.thresh`, `f.bg`, `f.bgSeeded` are the threshold / background / seeded flag of the detector right after
  `detect` of that frame (`pipe_c15_stored_at_trigger_nth`: the same by file number);
  `pipe_c15_trigger_unique` — the split is unique;
* `pipe_c15_started_file` — forward: a step that raises the number of motion files from `i` to `i + 1` creates
  motion file `i`, which at the end of every continuation still carries the detector state right after that step;
* `pipe_c15_header_stable`, `pipe_files_only_extend` — later steps only append to `frames` / set `closed` of an
  existing file: `kind`, `thresh`, `bg`, `bgSeeded` never change, nor does the file's number (no hypothesis on the
  configuration);
* `pipe_c15_refused_attempt_does_not_leak` — a start due at `g` but refused by a gate, the file started at a later
  `g'`, the detector's threshold after `g` and after `g'` different: the file carries the latter;
* throttle ON with `0 < c.minLenFrames` (ticks all 0, no refill): `pipe_thr_c15_stored_at_trigger`,
  `pipe_thr_c15_started_file` — the same statements; a base file is opened only by the upstream `StartRecording`
  of that very frame, right after `threshOfStart` was copied from the detector.  For `c.minLenFrames = 0` the
  statement is FALSE (counterexample at the end: the restart path of the throttle's `WriteFrame` opens base files
  at later frames with the threshold of the upstream start).

Non-vacuity (by `decide`, on the `Tiny` pipeline with `dynamic := true`): the window is closed during the first two
motion frames while the scene cools and the threshold drops 40 → 39 → 38, then opens: the file carries 37, the
threshold after the frame that started it.
-/
namespace TR.PipeC15
open TR TR.C01Spec TR.PipeC04 TR.PipeLemmas

section general
variable {F : FloatOps}

theorem detAfter_eq (c : PipeCfg) (p : Pipe F) (pix : Frame) (tel : Parse.Telemetry) :
    detAfter c p pix tel = (Det.detect c.det p.det pix
      (Det.affectedBy c.det ((tel.timeOnMs : Int) * 1000000) ((tel.lastFFCMs : Int) * 1000000))).1 ∧
    verdict c p pix tel = (Det.detect c.det p.det pix
      (Det.affectedBy c.det ((tel.timeOnMs : Int) * 1000000) ((tel.lastFFCMs : Int) * 1000000))).2 :=
  ⟨rfl, rfl⟩

/-- an accepted frame leaves exactly `detAfter` in the pipeline (whatever the processor does with the frame) -/
theorem detAfter_is_next_det (c : PipeCfg) (p : Pipe F) (g : GOp) (bytes : List Nat) (pix : Frame)
    (tel : Parse.Telemetry) (hop : g.op = .item (.frame bytes)) (hparse : parseItem c bytes = .ok pix tel) :
    (Pipe.gop c p g).det = detAfter c p pix tel := by
  rw [gop_frame c p g bytes hop, item_ok (withGates c g) p bytes pix tel hparse]
  exact (applyObs_fold_rel (withGates c g) (fun p q => q.det = p.det) (fun _ => rfl)
    (fun _ _ _ h₁ h₂ => h₂.trans h₁) (fun _ _ _ => rfl) (fun _ _ _ => rfl) (fun _ _ => rfl) (fun _ _ => rfl)
    (fun _ _ => rfl) _ _)

/-- motion file number `i` holds recording number `i` -/
theorem motionFile?_is_recording (p : Pipe F) (i : Nat) :
    (motionFiles p)[i]? = (motionFile? p i).map (·.frames) := motionFile?_frames p i

/-- the motion files of a state are `motionFile? p 0`, …, `motionFile? p (motionStarts p - 1)` -/
theorem motionFile?_iff (p : Pipe F) (f : RecFile) :
    (f ∈ p.files ∧ f.kind = .motion) ↔ ∃ i, i < motionStarts p ∧ motionFile? p i = some f :=
  ⟨fun ⟨h, hk⟩ => (mem_motionFile? h hk).imp fun _ hi => ⟨motionFile?_lt hi, hi⟩,
   fun ⟨_, _, hi⟩ => motionFile?_mem hi⟩

/-! ## headers never change -/

/-- **one step only extends the file list**: new files at the head; every old file stays in place with the same
`kind`, `thresh`, `bg`, `bgSeeded`, its old frames a prefix of the new ones, and unchanged once closed (`Ext`,
`PW`, `FileLe` of `Proofs.PipeLemmas`) — for every configuration, throttled or not, and every gates -/
theorem pipe_files_only_extend (c : PipeCfg) (gs more : List GOp) :
    Ext (runG F c gs).files (runG F c (gs ++ more)).files := runG_ext c gs more

/-- **the header of a motion file is never changed by later steps**, and the file keeps its number -/
theorem pipe_c15_header_stable (c : PipeCfg) (gs more : List GOp) (i : Nat) (f₀ : RecFile)
    (h : motionFile? (runG F c gs) i = some f₀) :
    ∃ f, motionFile? (runG F c (gs ++ more)) i = some f ∧
      f.kind = f₀.kind ∧ f.thresh = f₀.thresh ∧ f.bg = f₀.bg ∧ f.bgSeeded = f₀.bgSeeded ∧
      f₀.frames <+: f.frames ∧ (f₀.closed = true → f = f₀) := by
  obtain ⟨f, hf, hle⟩ := motionFile?_ext (runG_ext c gs more) i f₀ h
  obtain ⟨h1, h2, h3, h4⟩ := FileLe.hdr hle
  exact ⟨f, hf, h1, h2, h3, h4, hle.2.2.2.2.1, hle.2.2.2.2.2⟩

/-- **motion file number `i` is started at one step only** -/
theorem pipe_c15_trigger_unique (c : PipeCfg) (pre pre' post post' : List GOp) (g g' : GOp)
    (e : pre ++ g :: post = pre' ++ g' :: post')
    (h1 : motionStarts (Pipe.gop c (runG F c pre) g) = motionStarts (runG F c pre) + 1)
    (h1' : motionStarts (Pipe.gop c (runG F c pre') g') = motionStarts (runG F c pre') + 1)
    (hi : motionStarts (runG F c pre) = motionStarts (runG F c pre')) :
    pre = pre' ∧ g = g' ∧ post = post' :=
  start_step_unique c pre pre' post post' g g' _ e rfl h1 hi.symm (by rw [h1', hi])

end general

/-! ## throttle off -/

section unthrottled
variable {F : FloatOps}

/-- the facts about a step that starts a motion file, throttle off (input of `stored_induct`) -/
theorem unthr_step (c : PipeCfg) (hK : 0 < c.proc.K) (hthr : c.throttle = false) : StepFact F c := by
  intro gs g hgrow
  obtain ⟨hw, hd, bytes, pix, tel, hop, hparse⟩ := pipe_no_start_outside_window c hK hthr gs g hgrow
  have hone := (pipe_at_most_one_start (F := F) c hK hthr gs g).2
  exact ⟨by omega, bytes, pix, tel, hop, hparse, hw, hd,
    unthr_frame_files c hthr (runG F c gs) g bytes pix tel hop hparse⟩

/-- **C15, last clause, by file number** (throttle off): motion file number `i` of the final state was started at
a step `g` of the history — an accepted frame with both gates open at which the number of motion files went from
`i` to `i + 1` — and its stored threshold, background and seeded flag are those of the detector right after
`detect` of that frame. -/
theorem pipe_c15_stored_at_trigger_nth (c : PipeCfg) (hK : 0 < c.proc.K) (hthr : c.throttle = false)
    (gs : List GOp) (i : Nat) (f : RecFile) (hf : motionFile? (runG F c gs) i = some f) :
    ∃ (pre : List GOp) (g : GOp) (post : List GOp) (bytes : List Nat) (pix : Frame) (tel : Parse.Telemetry),
      gs = pre ++ g :: post ∧ g.op = .item (.frame bytes) ∧ parseItem c bytes = .ok pix tel ∧
      g.windowOpen = true ∧ g.diskOk = true ∧
      motionStarts (runG F c pre) = i ∧ motionStarts (Pipe.gop c (runG F c pre) g) = i + 1 ∧
      let d := (Det.detect c.det (runG F c pre).det pix
        (Det.affectedBy c.det ((tel.timeOnMs : Int) * 1000000) ((tel.lastFFCMs : Int) * 1000000))).1
      f.thresh = d.tempThresh ∧ f.bg = d.background c.det ∧ f.bgSeeded = d.bgSeeded :=
  stored_induct c (unthr_step c hK hthr) gs i f hf

/-- **C15, last clause, at pipeline level** (throttle off).  For every history `gs` of gate values / socket items /
test requests and every motion file `f` of the final state there is a split `gs = pre ++ g :: post` such that

* `g` is a socket frame the parser accepts as `(pix, tel)`, with both gates open;
* the file was started at `g`: the number of motion files grows by one at `g`, and `f` is the motion file with
  that number (`motionStarts (runG F c pre)`, counted from the oldest) in the final state;
* writing `d` for the detector state right after that frame has been examined (the expression `Pipe.item` uses),
  `f.thresh = d.tempThresh`, `f.bg = d.background c.det`, `f.bgSeeded = d.bgSeeded`

— whatever happened before `g`: in particular when start attempts on preceding motion frames were refused by a
gate while the dynamic threshold and the background kept moving. -/
theorem pipe_c15_stored_at_trigger (c : PipeCfg) (hK : 0 < c.proc.K) (hthr : c.throttle = false)
    (gs : List GOp) (f : RecFile) (hf : f ∈ (runG F c gs).files) (hk : f.kind = .motion) :
    ∃ (pre : List GOp) (g : GOp) (post : List GOp) (bytes : List Nat) (pix : Frame) (tel : Parse.Telemetry),
      gs = pre ++ g :: post ∧ g.op = .item (.frame bytes) ∧ parseItem c bytes = .ok pix tel ∧
      g.windowOpen = true ∧ g.diskOk = true ∧
      motionStarts (Pipe.gop c (runG F c pre) g) = motionStarts (runG F c pre) + 1 ∧
      motionFile? (runG F c gs) (motionStarts (runG F c pre)) = some f ∧
      let d := (Det.detect c.det (runG F c pre).det pix
        (Det.affectedBy c.det ((tel.timeOnMs : Int) * 1000000) ((tel.lastFFCMs : Int) * 1000000))).1
      f.thresh = d.tempThresh ∧ f.bg = d.background c.det ∧ f.bgSeeded = d.bgSeeded := by
  obtain ⟨i, hi⟩ := mem_motionFile? hf hk
  obtain ⟨pre, g, post, bytes, pix, tel, e, h1, h2, h3, h4, h5, h6, h7⟩ :=
    pipe_c15_stored_at_trigger_nth c hK hthr gs i f hi
  exact ⟨pre, g, post, bytes, pix, tel, e, h1, h2, h3, h4, by rw [h6, h5], by rw [h5]; exact hi, h7⟩

/-- **forward direction** (throttle off): if the step `g` after `pre` raises the number of motion files, then in
the final state of every continuation `pre ++ g :: post` the motion file with number `motionStarts (runG F c pre)`
exists and carries the detector state right after `g`'s frame. -/
theorem pipe_c15_started_file (c : PipeCfg) (hK : 0 < c.proc.K) (hthr : c.throttle = false)
    (pre : List GOp) (g : GOp) (post : List GOp) (bytes : List Nat) (pix : Frame) (tel : Parse.Telemetry)
    (hop : g.op = .item (.frame bytes)) (hparse : parseItem c bytes = .ok pix tel)
    (hgrow : motionStarts (Pipe.gop c (runG F c pre) g) > motionStarts (runG F c pre)) :
    ∃ f, motionFile? (runG F c (pre ++ g :: post)) (motionStarts (runG F c pre)) = some f ∧
      f.thresh = (detAfter c (runG F c pre) pix tel).tempThresh ∧
      f.bg = (detAfter c (runG F c pre) pix tel).background c.det ∧
      f.bgSeeded = (detAfter c (runG F c pre) pix tel).bgSeeded :=
  started_induct c (unthr_step c hK hthr) pre g post bytes pix tel hop hparse hgrow

/-- **refused attempts do not leak into the header.**  At step `g` (after `pre`) a start is due — accepted frame,
no recording open, motion, the run of motion frames has reached `trig` — but a gate refuses it; nothing is started
up to the later step `g'` (after `pre ++ g :: mid`), where the file is started.  If the detector's threshold right
after `g`'s frame is `t` and right after `g'`'s frame is `t' ≠ t`, the file carries `t'`, not `t` — and likewise
the background of `g'`, at the end of every continuation `post`. -/
theorem pipe_c15_refused_attempt_does_not_leak (c : PipeCfg) (hK : 0 < c.proc.K) (hthr : c.throttle = false)
    (pre mid post : List GOp) (g g' : GOp) (bytes bytes' : List Nat) (pix pix' : Frame)
    (tel tel' : Parse.Telemetry) (t t' : Nat)
    (hop : g.op = .item (.frame bytes)) (hparse : parseItem c bytes = .ok pix tel)
    (hop' : g'.op = .item (.frame bytes')) (hparse' : parseItem c bytes' = .ok pix' tel') :
    let p := runG F c pre
    let p' := runG F c (pre ++ g :: mid)
    -- a start is due at `g` …
    p.proc.isRec = false → verdict c p pix tel = true → c.proc.trig ≤ p.proc.triggered + 1 →
    -- … but refused by a gate
    (g.windowOpen = false ∨ g.diskOk = false) →
    -- the refused recording is started at the later step `g'`
    motionStarts p' = motionStarts p → motionStarts (Pipe.gop c p' g') = motionStarts p' + 1 →
    -- the dynamic threshold moved in between
    (detAfter c p pix tel).tempThresh = t → (detAfter c p' pix' tel').tempThresh = t' → t ≠ t' →
    motionStarts (Pipe.gop c p g) = motionStarts p ∧
    ∃ f, motionFile? (runG F c (pre ++ g :: mid ++ g' :: post)) (motionStarts p) = some f ∧
      f.thresh = t' ∧ f.thresh ≠ t ∧
      f.bg = (detAfter c p' pix' tel').background c.det ∧ f.bgSeeded = (detAfter c p' pix' tel').bgSeeded := by
  intro p p' _ _ _ hgate hsame hstart ht ht' hne
  have hiff := pipe_start_iff (F := F) c hK hthr pre g bytes pix tel hop hparse
  have hmono := (pipe_at_most_one_start (F := F) c hK hthr pre g).1
  have hno : motionStarts (Pipe.gop c (runG F c pre) g) = motionStarts (runG F c pre) := by
    have : ¬ motionStarts (Pipe.gop c (runG F c pre) g) > motionStarts (runG F c pre) := by
      intro hg
      obtain ⟨_, _, _, hw, hd⟩ := hiff.mp hg
      rcases hgate with h | h
      · rw [hw] at h; cases h
      · rw [hd] at h; cases h
    omega
  have hstart' : motionStarts (Pipe.gop c (runG F c (pre ++ g :: mid)) g') =
      motionStarts (runG F c (pre ++ g :: mid)) + 1 := hstart
  obtain ⟨f, hf, h1, h2, h3⟩ := pipe_c15_started_file (F := F) c hK hthr (pre ++ g :: mid) g' post bytes' pix' tel' hop'
    hparse' (by rw [hstart']; exact Nat.lt_succ_self _)
  refine ⟨hno, f, ?_, ?_, ?_, h2, h3⟩
  · rw [← hsame]; exact hf
  · rw [h1]; exact ht'
  · rw [h1]; show (detAfter c p' pix' tel').tempThresh ≠ t; rw [ht']; exact fun h => hne h.symm

end unthrottled

/-! ## throttle on -/

section throttled
variable {F : FloatOps}

/-- the facts about a step that starts a motion file, throttle on with `minLenFrames ≥ 1` -/
theorem thr_step (c : PipeCfg) (hK : 0 < c.proc.K) (hthr : c.throttle = true) (hM : 0 < c.minLenFrames) :
    StepFact F c := by
  intro gs g hgrow
  obtain ⟨hw, hd, bytes, pix, tel, hop, hparse, _⟩ := pipe_thr_start_only_if c hK hthr hM gs g hgrow
  have hone := pipe_thr_at_most_one_start (F := F) c hK hthr hM gs g
  exact ⟨by omega, bytes, pix, tel, hop, hparse, hw, hd,
    thr_frame_files c hK hthr hM (runG F c gs) g (pit_runG c hK hthr gs) bytes pix tel hop hparse⟩

/-- **C15, last clause, by file number, throttle ON** (`0 < c.minLenFrames`; the pipeline's throttle runs with all
ticks 0, so its bucket is never refilled): the same statement as `pipe_c15_stored_at_trigger_nth`.  The base file
is opened by the upstream `StartRecording` of the triggering frame itself, with the threshold the throttle copied
from the detector at that call (`Pipe.motionCall`: `threshOfStart`). -/
theorem pipe_thr_c15_stored_at_trigger_nth (c : PipeCfg) (hK : 0 < c.proc.K) (hthr : c.throttle = true)
    (hM : 0 < c.minLenFrames) (gs : List GOp) (i : Nat) (f : RecFile)
    (hf : motionFile? (runG F c gs) i = some f) :
    ∃ (pre : List GOp) (g : GOp) (post : List GOp) (bytes : List Nat) (pix : Frame) (tel : Parse.Telemetry),
      gs = pre ++ g :: post ∧ g.op = .item (.frame bytes) ∧ parseItem c bytes = .ok pix tel ∧
      g.windowOpen = true ∧ g.diskOk = true ∧
      motionStarts (runG F c pre) = i ∧ motionStarts (Pipe.gop c (runG F c pre) g) = i + 1 ∧
      let d := (Det.detect c.det (runG F c pre).det pix
        (Det.affectedBy c.det ((tel.timeOnMs : Int) * 1000000) ((tel.lastFFCMs : Int) * 1000000))).1
      f.thresh = d.tempThresh ∧ f.bg = d.background c.det ∧ f.bgSeeded = d.bgSeeded :=
  stored_induct c (thr_step c hK hthr hM) gs i f hf

/-- **C15, last clause, at pipeline level, throttle ON** (`0 < c.minLenFrames`) -/
theorem pipe_thr_c15_stored_at_trigger (c : PipeCfg) (hK : 0 < c.proc.K) (hthr : c.throttle = true)
    (hM : 0 < c.minLenFrames) (gs : List GOp) (f : RecFile) (hf : f ∈ (runG F c gs).files)
    (hk : f.kind = .motion) :
    ∃ (pre : List GOp) (g : GOp) (post : List GOp) (bytes : List Nat) (pix : Frame) (tel : Parse.Telemetry),
      gs = pre ++ g :: post ∧ g.op = .item (.frame bytes) ∧ parseItem c bytes = .ok pix tel ∧
      g.windowOpen = true ∧ g.diskOk = true ∧
      motionStarts (Pipe.gop c (runG F c pre) g) = motionStarts (runG F c pre) + 1 ∧
      motionFile? (runG F c gs) (motionStarts (runG F c pre)) = some f ∧
      let d := (Det.detect c.det (runG F c pre).det pix
        (Det.affectedBy c.det ((tel.timeOnMs : Int) * 1000000) ((tel.lastFFCMs : Int) * 1000000))).1
      f.thresh = d.tempThresh ∧ f.bg = d.background c.det ∧ f.bgSeeded = d.bgSeeded := by
  obtain ⟨i, hi⟩ := mem_motionFile? hf hk
  obtain ⟨pre, g, post, bytes, pix, tel, e, h1, h2, h3, h4, h5, h6, h7⟩ :=
    pipe_thr_c15_stored_at_trigger_nth c hK hthr hM gs i f hi
  exact ⟨pre, g, post, bytes, pix, tel, e, h1, h2, h3, h4, by rw [h6, h5], by rw [h5]; exact hi, h7⟩

/-- forward direction, throttle ON (`0 < c.minLenFrames`) -/
theorem pipe_thr_c15_started_file (c : PipeCfg) (hK : 0 < c.proc.K) (hthr : c.throttle = true)
    (hM : 0 < c.minLenFrames) (pre : List GOp) (g : GOp) (post : List GOp) (bytes : List Nat) (pix : Frame)
    (tel : Parse.Telemetry) (hop : g.op = .item (.frame bytes)) (hparse : parseItem c bytes = .ok pix tel)
    (hgrow : motionStarts (Pipe.gop c (runG F c pre) g) > motionStarts (runG F c pre)) :
    ∃ f, motionFile? (runG F c (pre ++ g :: post)) (motionStarts (runG F c pre)) = some f ∧
      f.thresh = (detAfter c (runG F c pre) pix tel).tempThresh ∧
      f.bg = (detAfter c (runG F c pre) pix tel).background c.det ∧
      f.bgSeeded = (detAfter c (runG F c pre) pix tel).bgSeeded :=
  started_induct c (thr_step c hK hthr hM) pre g post bytes pix tel hop hparse hgrow

end throttled

/-! ## non-vacuity -/

section examples
open TR.PipeLemmas.Tiny

/-- the tiny pipeline of `Props.Pipeline` with the DYNAMIC threshold switched on.  With the integer stand-ins `F0`
for the floats (`add` sums, `trunc` is the identity, no bounds configured) the threshold is the sum of the four
background pixels; a background pixel follows the scene downwards. -/
def cD : PipeCfg := { c0 with det := { c0.det with dynamic := true } }

/-- a 2×2 Boson frame: pixel (0,0) = `a` (toggling 10 / 100: motion), pixel (1,1) = `b` (the scene cools) -/
private def fr (a b : Nat) : List Nat := [a, 0, 10, 0, 10, 0, b, 0]

private def st (window : Bool) (bytes : List Nat) : GOp := ⟨window, true, .item (.frame bytes)⟩

/-- window open for the first frame, closed for the next two — both show motion, the threshold drops from 40 to
39 and 38 —, open again for the fourth (threshold 37) -/
private def hist : List GOp :=
  [st true (fr 10 10), st false (fr 100 9), st false (fr 10 8), st true (fr 100 7), st true (fr 10 7)]

/-- the accepted pixels / telemetry of a frame (the parser accepts all frames of `hist`) -/
private def pixOf (bytes : List Nat) : Frame :=
  match parseItem cD bytes with
  | .ok pix _ => pix
  | .bad _ _ => fun _ _ => 0

private def telOf (bytes : List Nat) : Parse.Telemetry :=
  match parseItem cD bytes with
  | .ok _ tel => tel
  | .bad _ _ => Parse.bosonTelemetry

example : cD.det.dynamic = true ∧ cD.throttle = false ∧ 0 < cD.proc.K := by decide

/-- the induced events: (accepted frame?, motion?, window) — starts are due at steps 1 and 2 and refused -/
example : (evsG F0 cD hist).map (fun e => (e.isFrame, e.motion, e.faults.win)) =
    [(true, false, true), (true, true, false), (true, true, false), (true, true, true), (true, true, true)] := by
  decide

set_option maxRecDepth 40000 in
/-- the detector's threshold after 0, 1, …, 5 steps, and the number of motion files: the file starts at step 3 -/
example :
    (List.range 6).map (fun i => (runG F0 cD (hist.take i)).det.tempThresh) = [10, 40, 39, 38, 37, 37] ∧
    (List.range 6).map (fun i => motionStarts (runG F0 cD (hist.take i))) = [0, 0, 0, 0, 1, 1] := by decide

set_option maxRecDepth 40000 in
/-- **the file carries 37** — the threshold after the frame that started it (step 3) —, not 39 or 38, the
thresholds after the refused attempts (steps 1, 2); its background pixel (1,1) is 7, the one of step 3; and it
begins with the pre-trigger frames 1 and 2 -/
example :
    (runG F0 cD hist).files.map (fun f => (f.thresh, f.bg 1 1, f.bg 0 0, f.bgSeeded)) = [(37, 7, 10, true)] ∧
    (runG F0 cD hist).files.map (fun f => (f.kind, f.frames)) = [(.motion, [1, 2, 3, 4])] := by decide

set_option maxRecDepth 40000 in
/-- the hypotheses of `pipe_c15_refused_attempt_does_not_leak` are satisfiable with `t = 39 ≠ 37 = t'`: the
refused attempt is step 1, the file starts at step 3 -/
example : ∃ f, motionFile? (runG F0 cD hist) 0 = some f ∧ f.thresh = 37 ∧ f.thresh ≠ 39 := by
  have hp : parseItem cD (fr 100 9) = .ok (pixOf (fr 100 9)) (telOf (fr 100 9)) := rfl
  have hp' : parseItem cD (fr 100 7) = .ok (pixOf (fr 100 7)) (telOf (fr 100 7)) := rfl
  obtain ⟨_, f, hf, h1, h2, _⟩ := pipe_c15_refused_attempt_does_not_leak (F := F0) cD (by decide) rfl
    [st true (fr 10 10)] [st false (fr 10 8)] [st true (fr 10 7)] (st false (fr 100 9)) (st true (fr 100 7))
    (fr 100 9) (fr 100 7) _ _ _ _ 39 37 rfl hp rfl hp'
    (by decide) (by decide) (by decide) (Or.inl rfl) (by decide) (by decide) (by decide) (by decide) (by decide)
  exact ⟨f, hf, h1, h2⟩

/-- the throttled variant of the configuration: a 10-frame bucket, `minLenFrames = 1` -/
def cDT : PipeCfg := { cD with throttle := true }

set_option maxRecDepth 40000 in
/-- the same history through the throttle: the base file carries 37 as well -/
example : cDT.throttle = true ∧ 0 < cDT.minLenFrames ∧
    (runG F0 cDT hist).files.map (fun f => (f.kind, f.thresh, f.bg 1 1, f.frames)) =
      [(.motion, 37, 7, [1, 2, 3, 4])] := by decide

set_option maxRecDepth 40000 in
/-- **the throttled statement is FALSE for `minLenFrames = 0`.**  Two-frame bucket: the recording starts at step 1
(threshold 39, stored by the throttle in `threshOfStart`), the bucket is empty after the two pre-trigger frames and
the throttle cuts the file at step 2; the processor keeps recording, and at steps 3 and 4 the restart path of the
throttle's `WriteFrame` opens (and at once cuts) a base file — with the threshold of the upstream start, 39, while
the detector's threshold right after those frames is 37 and 36; the background stored is the current one (pixel
(1,1) = 7, 6).  `throttle/throttled_recorder.go` does the same: `tempThresh` is a copy taken at the upstream
`StartRecording`, `backgroundFrame` a pointer to the detector's frame. -/
example :
    let cZ : PipeCfg := { cD with throttle := true, bucketFrames := 2, minLenFrames := 0 }
    let h : List GOp := [st true (fr 10 10), st true (fr 100 9), st true (fr 10 8), st true (fr 100 7),
      st true (fr 10 6)]
    (List.range 6).map (fun i => (runG F0 cZ (h.take i)).det.tempThresh) = [10, 40, 39, 38, 37, 36] ∧
    (List.range 6).map (fun i => motionStarts (runG F0 cZ (h.take i))) = [0, 0, 1, 1, 2, 3] ∧
    (runG F0 cZ h).files.map (fun f => (f.thresh, f.bg 1 1, f.frames)) =
      [(39, 6, []), (39, 7, []), (39, 9, [0, 1])] := by decide

end examples

end TR.PipeC15
