import Props.C17
import Proofs.C17Spec
/-!
# C17, de-monitored — acceptance by `monC17` means "chunks of the segments" and "runs after each request"

`Props.C17` states C17 through the executable monitor `monC17`.  Here the monitor is taken out of the trusted
reading.  Everything below is defined by plain folds over the observed trace (`Proofs.C17Spec`), none of which
mentions `M17`:

* `filesOf s tr` — the id lists written to sink `s` between a successful `StartRecording` and the next
  `StopRecording` (`closedFilesOf`), plus the file still open at the end (`openFileOf`); for the motion sink
  these are the `recordings` of `Props.C01Spec` (`files_motion_eq_recordings`);
* `numFrames tr`, `frameIds tr = [0, …, numFrames tr - 1]` — the frame events, numbered in order;
* `segments tr` — the frame ids cut at the `.bad` events; `chunksOf k l` — `l` cut every `k` elements
  (`chunksOf_rec`: `l.take k :: chunksOf k (l.drop k)`);
* `testStarts tr` — ids of the frame events that are the first frame event after a `.testReq` event
  (`testStarts_positions`);
* side conditions: `sinkFault st.obs = false` for every step (no call on the continuous / test sink was made
  to fail), `reqsSpaced c tr` (between two consecutive `.testReq` events there are at least `testLast + 1`
  frame events; a fold over the events only), `quietStep st` for every step (see below).

`continuous_files`, `continuous_off`, `test_files`: for EVERY trace (the model's or one recorded from the
real code) satisfying the side conditions, `monC17 c tr = []` implies

* `filesOf .const tr = (segments tr).flatMap (chunksOf (maxF + 1))` — hence every valid frame lands in exactly
  one continuous file, in order, and nothing else does; every file has between 1 and `maxF + 1` frames, a file
  that is not the last of its segment has exactly `maxF + 1`, an open file at most `maxF`;
* `filesOf .test tr = (testStarts tr).map fun a => List.range' a (min (testLast + 1) (numFrames tr - a))` —
  every closed test file is `[a, …, a + testLast]`, an open one is a shorter run reaching the last frame.

`c17_files`: the model satisfies the side conditions whenever its events dictate no failure on the two sinks
and its requests are spaced, hence has those files (`0 < c.K` is not needed).

**Deviation from the sketch — the side condition `quietStep`.**  `monC17` compares the calls on the continuous
sink with its prediction during `.frame` and `.bad` steps and those on the test sink during `.frame` steps
only; calls made during other steps are not looked at.  A trace that writes to the continuous sink during a
`.reset` step is accepted although its files are not the chunks (examples below).  `quietStep` excludes
exactly those calls; the model never makes them (`trace_quiet`, unconditionally).  This is a blind spot of the
monitor on recorded traces, not of the theorem about the model.
-/
namespace TR.C17Spec
open TR

/-! ## generic: any trace -/

/-- `filesOf` generalises the recordings of `Props.C01Spec` -/
theorem files_motion_eq_recordings (tr : List Step) : filesOf .motion tr = C01Spec.recordings tr :=
  filesOf_motion tr

/-- the defining recursion of `chunksOf` -/
theorem chunksOf_rec (k : Nat) (hk : 0 < k) (l : List Nat) (hl : l ≠ []) :
    chunksOf k l = l.take k :: chunksOf k (l.drop k) :=
  chunksOf_eq k hk l hl

/-- chunks are non-empty, have at most `k` elements, all but the last exactly `k`; nothing is lost -/
theorem chunksOf_shape (k : Nat) (hk : 0 < k) (l : List Nat) :
    (chunksOf k l).flatten = l ∧ (∀ x ∈ chunksOf k l, 0 < x.length ∧ x.length ≤ k) ∧
    ∀ init last, chunksOf k l = init ++ [last] → ∀ x ∈ init, x.length = k :=
  ⟨chunksOf_flatten k l, chunksOf_length k hk l, chunksOf_full k hk l⟩

/-- the segments partition the frame ids, in order -/
theorem segments_partition (tr : List Step) : (segments tr).flatten = List.range (numFrames tr) :=
  segments_flatten tr

/-- `a` is a test start iff the trace reads `pre ++ q :: mid ++ f :: post` with `q` a `.testReq` step, no frame
step in `mid`, `f` a frame step, and `a` the id of `f` (the number of frame steps before it; `f` sits at
position `(pre ++ q :: mid).length`, cf. `frameIdAt_append`) -/
theorem testStarts_positions (tr : List Step) (a : Nat) :
    a ∈ testStarts tr ↔
      ∃ pre q mid f post, tr = (pre ++ q :: mid) ++ f :: post ∧ q.ev = .testReq ∧
        (∀ s ∈ mid, s.ev.isFrame = false) ∧ f.ev.isFrame = true ∧ a = numFrames (pre ++ q :: mid) := by
  rw [mem_testStarts]
  constructor
  · rintro ⟨p, f, post, rfl, hf, ⟨pre, q, mid, rfl, hq, hmid⟩, ha⟩
    exact ⟨pre, q, mid, f, post, rfl, hq, hmid, hf, ha⟩
  · rintro ⟨pre, q, mid, f, post, rfl, hq, hmid, hf, ha⟩
    exact ⟨pre ++ q :: mid, f, post, rfl, hf, ⟨pre, q, mid, rfl, hq, hmid⟩, ha⟩

/-- the side conditions keep the monitor judging (`tainted = false`) -/
theorem side_conditions_untainted (c : PCfg) (tr : List Step)
    (hsf : ∀ st ∈ tr, sinkFault st.obs = false) (hsp : reqsSpaced c tr = true) :
    (tr.foldl (M17.step c) {}).tainted = false :=
  untainted_of_spaced c tr hsf hsp

/-- **Soundness of the C17 monitor, continuous recorder on.**  For every trace without dictated faults on
the continuous / test sink, with spaced test requests and quiet non-frame steps: if the monitor accepts,
the continuous files are exactly the chunks of `maxF + 1` frames of the segments between bad frames; so
every valid frame lands in exactly one file, in order, and nothing else does; every file has between 1 and
`maxF + 1` frames; a file still open at the end has at most `maxF`. -/
theorem continuous_files (c : PCfg) (hc : c.constOn = true) (tr : List Step)
    (hsf : ∀ st ∈ tr, sinkFault st.obs = false) (hsp : reqsSpaced c tr = true)
    (hq : ∀ st ∈ tr, quietStep st = true) (hacc : monC17 c tr = []) :
    filesOf .const tr = (segments tr).flatMap (chunksOf (c.maxF + 1)) ∧
    (filesOf .const tr).flatten = List.range (numFrames tr) ∧
    (∀ r ∈ filesOf .const tr, 0 < r.length ∧ r.length ≤ c.maxF + 1) ∧
    (∀ r, openFileOf .const tr = some r → 0 < r.length ∧ r.length ≤ c.maxF) := by
  obtain ⟨h1, h2⟩ := const_files c hc tr hq (untainted_of_spaced c tr hsf hsp) hacc
  refine ⟨h1, ?_, ?_, h2⟩
  · rw [h1, flatMap_chunks_flatten, segments_flatten]; rfl
  · intro r hr
    rw [h1] at hr
    obtain ⟨seg, _, hr'⟩ := List.mem_flatMap.mp hr
    exact chunksOf_length (c.maxF + 1) (Nat.succ_pos _) seg r hr'

/-- … continuous recorder off: no continuous file at all -/
theorem continuous_off (c : PCfg) (hc : c.constOn = false) (tr : List Step)
    (hsf : ∀ st ∈ tr, sinkFault st.obs = false) (hsp : reqsSpaced c tr = true)
    (hq : ∀ st ∈ tr, quietStep st = true) (hacc : monC17 c tr = []) :
    filesOf .const tr = [] :=
  constOff_files c hc tr hq (untainted_of_spaced c tr hsf hsp) hacc

/-- **Soundness of the C17 monitor, test recordings.**  Under the same side conditions: there is one test
file per test start, in order; the file of start `a` is the run `a, a+1, …` of `testLast + 1` ids, cut short
only by the end of the trace.  Every closed file is complete (`testLast + 1` consecutive ids beginning with
the first frame after its request); an open file belongs to the last start and is a shorter run that ends
with the last frame of the trace. -/
theorem test_files_spec (c : PCfg) (tr : List Step)
    (hsf : ∀ st ∈ tr, sinkFault st.obs = false) (hsp : reqsSpaced c tr = true)
    (hq : ∀ st ∈ tr, quietStep st = true) (hacc : monC17 c tr = []) :
    filesOf .test tr =
      (testStarts tr).map (fun a => List.range' a (min (c.testLast + 1) (numFrames tr - a))) ∧
    (filesOf .test tr).length = (testStarts tr).length ∧
    (∀ r ∈ closedFilesOf .test tr, ∃ a ∈ testStarts tr, a + (c.testLast + 1) ≤ numFrames tr ∧
      r = List.range' a (c.testLast + 1)) ∧
    (∀ r, openFileOf .test tr = some r → ∃ s0 a, testStarts tr = s0 ++ [a] ∧ a < numFrames tr ∧
      numFrames tr - a ≤ c.testLast ∧ r = List.range' a (numFrames tr - a)) := by
  obtain ⟨h1, h2, h3⟩ := test_files c tr hq (untainted_of_spaced c tr hsf hsp) hacc
  exact ⟨h1, by rw [h1, List.length_map], h2, h3⟩

/-! ## the model -/

/-- the model's trace satisfies the side conditions: quiet always; no sink fault when the events dictate
none; its events are the given events -/
theorem model_side_conditions (c : PCfg) (evs : List Ev) :
    (∀ st ∈ PState.trace c (PState.init c) evs, quietStep st = true) ∧
    ((∀ e ∈ evs, cleanEv e = true) → ∀ st ∈ PState.trace c (PState.init c) evs, sinkFault st.obs = false) ∧
    (PState.trace c (PState.init c) evs).map (·.ev) = evs ∧
    numFrames (PState.trace c (PState.init c) evs) = (evs.filter Ev.isFrame).length :=
  ⟨trace_quiet c evs _, trace_noSinkFault c evs _, trace_evs c evs _, trace_numFrames c evs _⟩

/-- **C17 as a list specification.**  For every configuration, every event list whose fault records leave
the continuous and the test sink alone (`cStart = cWrite = cStop = tStart = tWrite = tStop = true`; anything
may happen on the motion sink, window, disk check) and whose test requests are at least `testLast + 1`
frames apart: with `n` the number of valid frames,

* recorder on: the continuous files are the chunks of `maxF + 1` frames of the segments between bad frames;
  their concatenation is `0, 1, …, n-1`; recorder off: there is none;
* the test files are the runs `[a, …, a + testLast]`, `a` the id of the first valid frame after each
  request, the last one cut at `n`. -/
theorem c17_files (c : PCfg) (hK : 0 < c.K) (evs : List Ev)
    (hcl : ∀ e ∈ evs, cleanEv e = true) (hsp : spacedFrom (c.testLast + 1) none evs = true) :
    let tr := PState.trace c (PState.init c) evs
    let n := (evs.filter Ev.isFrame).length
    (c.constOn = true → filesOf .const tr = (segments tr).flatMap (chunksOf (c.maxF + 1)) ∧
      (filesOf .const tr).flatten = List.range n ∧
      (∀ r ∈ filesOf .const tr, 0 < r.length ∧ r.length ≤ c.maxF + 1) ∧
      (∀ r, openFileOf .const tr = some r → 0 < r.length ∧ r.length ≤ c.maxF)) ∧
    (c.constOn = false → filesOf .const tr = []) ∧
    filesOf .test tr = (testStarts tr).map (fun a => List.range' a (min (c.testLast + 1) (n - a))) ∧
    (∀ r ∈ closedFilesOf .test tr, ∃ a ∈ testStarts tr, a + (c.testLast + 1) ≤ n ∧
      r = List.range' a (c.testLast + 1)) ∧
    (∀ r, openFileOf .test tr = some r → ∃ s0 a, testStarts tr = s0 ++ [a] ∧ a < n ∧
      n - a ≤ c.testLast ∧ r = List.range' a (n - a)) := by
  intro tr n
  have hacc : monC17 c tr = [] := C17.c17_continuous_and_test c hK evs
  obtain ⟨hq, hsf, hev, hn⟩ := model_side_conditions c evs
  have hsf' := hsf hcl
  have hsp' : reqsSpaced c tr = true := by
    unfold reqsSpaced
    rw [show tr.map (·.ev) = evs from hev]; exact hsp
  have hn' : numFrames tr = n := hn
  refine ⟨?_, ?_, ?_⟩
  · intro hc
    have h := continuous_files c hc tr hsf' hsp' hq hacc
    rw [hn'] at h
    exact h
  · intro hc
    exact continuous_off c hc tr hsf' hsp' hq hacc
  · have h := test_files_spec c tr hsf' hsp' hq hacc
    rw [hn'] at h
    exact ⟨h.1, h.2.2.1, h.2.2.2⟩

/-! ## non-vacuity -/

private def cfg : PCfg := { K := 3, minF := 2, maxF := 2, trig := 1, constOn := true, testLast := 1 }

/-- files of three frames; two bad frames in a row; a reset; a request served by frames 5, 6; a bad frame; a
request served by frame 10 alone (still open) -/
private def evs : List Ev :=
  [.frame false {}, .frame false {}, .frame true {}, .frame true { mStop := false }, .bad {}, .bad {},
   .reset {}, .frame false {}, .testReq, .frame false { win := false }, .frame false {}, .frame false {},
   .frame false {}, .frame false {}, .bad {}, .testReq, .frame true { can := false }]

example : (∀ e ∈ evs, cleanEv e = true) ∧ spacedFrom (cfg.testLast + 1) none evs = true := by decide

set_option maxRecDepth 8000 in
example :
    let tr := PState.trace cfg (PState.init cfg) evs
    segments tr = [[0, 1, 2, 3], [], [4, 5, 6, 7, 8, 9], [10]] ∧
    filesOf .const tr = [[0, 1, 2], [3], [4, 5, 6], [7, 8, 9], [10]] ∧
    closedFilesOf .const tr = [[0, 1, 2], [3], [4, 5, 6], [7, 8, 9]] ∧
    testStarts tr = [5, 10] ∧
    filesOf .test tr = [[5, 6], [10]] ∧ openFileOf .test tr = some [10] := by decide

/-- a hand-made trace in which the continuous recorder skips frame 1: rejected, and the files do not cover
the frames -/
example :
    let c : PCfg := { K := 3, minF := 2, maxF := 2, trig := 1, constOn := true, testLast := 1 }
    let tr : List Step :=
      [⟨.frame false {}, [.call .const .start true, .call .const (.write 0) true]⟩,
       ⟨.frame false {}, []⟩,
       ⟨.frame false {}, [.call .const (.write 2) true, .call .const .stop true]⟩]
    monC17 c tr ≠ [] ∧ (∀ st ∈ tr, sinkFault st.obs = false) ∧ reqsSpaced c tr = true ∧
    (∀ st ∈ tr, quietStep st = true) ∧
    filesOf .const tr = [[0, 2]] ∧ (filesOf .const tr).flatten ≠ List.range (numFrames tr) := by decide

/-- … and one in which the test recording starts one frame late: rejected, the file is not the run from the
first frame after the request -/
example :
    let c : PCfg := { K := 3, minF := 2, maxF := 2, trig := 1, constOn := false, testLast := 1 }
    let tr : List Step :=
      [⟨.testReq, []⟩, ⟨.frame false {}, []⟩,
       ⟨.frame false {}, [.call .test .start true, .call .test (.write 1) true]⟩,
       ⟨.frame false {}, [.call .test (.write 2) true, .call .test .stop true]⟩]
    monC17 c tr ≠ [] ∧ testStarts tr = [0] ∧ filesOf .test tr = [[1, 2]] := by decide

/-- **`quietStep` is needed** (blind spot of the monitor): calls on the continuous sink during a `.reset`
step and calls on the test sink during a `.bad` step are not looked at — accepted, untainted, yet the files
are not the specified ones -/
example :
    let c : PCfg := { K := 3, minF := 2, maxF := 2, trig := 1, constOn := true, testLast := 1 }
    let tr : List Step :=
      [⟨.reset {}, [.call .const .start true, .call .const (.write 7) true]⟩,
       ⟨.bad {}, [.call .const .stop true, .call .test .start true, .call .test (.write 9) true]⟩]
    monC17 c tr = [] ∧ (∀ st ∈ tr, sinkFault st.obs = false) ∧ reqsSpaced c tr = true ∧
    (tr.foldl (M17.step c) {}).tainted = false ∧
    filesOf .const tr = [[7]] ∧ (segments tr).flatMap (chunksOf 3) = [] ∧
    filesOf .test tr = [[9]] ∧ testStarts tr = [] := by decide

/-- **`reqsSpaced` is needed**: after an overlapping request the monitor stops judging — accepted although
the requested test recording never happens -/
example :
    let c : PCfg := { K := 3, minF := 2, maxF := 2, trig := 1, constOn := false, testLast := 1 }
    let tr : List Step := [⟨.testReq, []⟩, ⟨.testReq, []⟩, ⟨.frame false {}, []⟩]
    monC17 c tr = [] ∧ reqsSpaced c tr = false ∧ testStarts tr = [0] ∧ filesOf .test tr = [] := by decide

/-- **"no dictated sink fault" is needed**: the monitor goes blind after a failed call -/
example :
    let c : PCfg := { K := 3, minF := 2, maxF := 2, trig := 1, constOn := true, testLast := 1 }
    let tr : List Step := [⟨.frame false {}, [.call .const .start false]⟩, ⟨.frame false {}, []⟩]
    monC17 c tr = [] ∧ filesOf .const tr = [] ∧ (segments tr).flatMap (chunksOf 3) = [[0, 1]] := by decide

end TR.C17Spec
