import Props.C01Spec
import Props.C06
import Proofs.PipeThr
/-!
# The composed pipeline WITH the throttle (`c.throttle = true`)

`Props.C01Spec.pipe_c01` describes the motion files of the unthrottled pipeline: they ARE the recordings
of the processor trace the pipeline induces.  With the throttle every processor call on the motion sink
becomes a throttle request at tick 0 (`Pipe.motionCall`; the bucket `TState.init c.bucketFrames 1
c.minLenFrames` is never refilled) and the base-recorder calls the throttle emits create / extend / close
the motion files.  For every `FloatOps`, every configuration with ring capacity ≥ 1 and the throttle on,
every sequence of socket items and test-recording requests:

* `pipe_thr_files_of_recordings` — every motion file holds a PREFIX of a recording of the induced processor
  trace, and the concatenation of the files is a sublist of the concatenation of the recordings;
* `pipe_thr_files_sub` — hence the three-part conclusion of `pipe_c01`: contiguous ascending runs, strictly
  increasing over all files, only ids of accepted frames;
* `pipe_thr_total_exact`, `pipe_thr_total` — frames in motion files + tokens left = `c.bucketFrames` (every
  forwarded frame costs exactly one token, the frame on which the bucket is found empty is NOT forwarded);
* `pipe_thr_min_tokens`, `pipe_thr_start_has_min_tokens` — every motion file was started with at least
  `c.minLenFrames` tokens in hand.

Not true, and therefore not stated: "one file per recording at most".  With `c.minLenFrames = 0` the restart
path of `WriteFrame` (`TState.step`, `.write` while not recording) opens a base file on EVERY frame that
arrives after a cut and closes it at once: one empty file per frame (second example at the end).
-/
namespace TR.PipeThr
open TR TR.C01Spec

/-! ## the throttle: a base start needs `minLen` tokens, whichever request reaches it -/

theorem takeAndWrite_bStart (s : TState) (tick id : Nat) (wok pok : Bool) (pre : List TObs) (tag : Nat) (ok : Bool)
    (h : TObs.bStart tag ok ∈ (s.takeAndWrite tick id wok pok pre).2) : TObs.bStart tag ok ∈ pre := by
  unfold TState.takeAndWrite TState.stopRec at h
  simp only at h
  split at h
  · simpa using h
  · split at h <;> simpa using h

/-- whenever a throttle request reaches `base.StartRecording` — an upstream start, or the restart path of a
write — the bucket held `minLen` tokens at the tick of the request (`C06.c06_start_has_min_tokens`, lifted
from `maybeStart` to `step`); a stop never starts -/
theorem step_bStart_has_min_tokens (s : TState) (r : TReq) (tag : Nat) (ok : Bool)
    (h : TObs.bStart tag ok ∈ (s.step r).2) :
    ∃ tick, r.tick? = some tick ∧ (s.bucket.available tick).2 ≥ s.minLen := by
  cases r with
  | start tick tag' sok =>
    refine ⟨tick, rfl, C06.c06_start_has_min_tokens s tick tag' sok ?_⟩
    intro hnil
    simp only [TState.step] at h
    split at h
    · simp [hnil] at h
    · split at h <;> simp [hnil] at h
  | stop pok =>
    simp only [TState.step, TState.stopRec] at h
    split at h <;> simp at h
  | write tick id sok wok pok =>
    refine ⟨tick, rfl, C06.c06_start_has_min_tokens s tick s.tag sok ?_⟩
    intro hnil
    simp only [TState.step] at h
    split at h
    · exact absurd (takeAndWrite_bStart _ _ _ _ _ _ _ _ h) (by simp)
    · split at h
      · simp [hnil] at h
      · split at h
        · simp [hnil] at h
        · have := takeAndWrite_bStart _ _ _ _ _ _ _ _ h
          rw [hnil] at this
          simp at this

/-! ## the composed pipeline, throttle on -/

section pipeline
variable {F : FloatOps}

/-- the invariant of `Proofs.PipeThr` at the end of an op list, with the induced event list -/
theorem pipe_thr_inv (c : PipeCfg) (hK : 0 < c.proc.K) (hthr : c.throttle = true) (ops : List PipeOp) :
    let p := ops.foldl (Pipe.op c) (Pipe.init F c)
    ∃ evs : List Ev, C01.NoWriteFaults evs ∧
      p.proc = PState.after c.proc (PState.init c.proc) evs ∧
      (evs.filter Ev.isFrame).length = p.accepted.length ∧
      TInv c.bucketFrames c.minLenFrames (mot p.files)
        (recAcc (PState.trace c.proc (PState.init c.proc) evs)) p.thr := by
  intro p
  obtain ⟨evs, hev, hp, hti, hcount⟩ := pit_ops c hK hthr ops (Pipe.init F c) (pit_init c)
  exact ⟨evs, fun e he => (hev e he).1, hp, hcount, hti⟩

theorem motionFiles_G (p : Pipe F) : motionFiles p = G (mot p.files) := motionFiles_eq p

/-- **The throttled files are cut-down recordings.**  There is an event list — the one of
`pipe_files_are_recordings`: frames with the detector's verdicts, bad frames, resets, test requests — that
takes the processor model to the pipeline's processor state and whose frame events are the accepted frames,
such that every motion file holds a prefix of one of its recordings (the throttle forwards the writes of a
recording until it cuts it and drops the rest; a suppressed recording leaves no file or — only when
`c.minLenFrames = 0` — empty ones), and the files, concatenated oldest first, are a sublist of the
recordings, concatenated (so the files come in the order of the recordings they were cut from, and no frame
is in two files). -/
theorem pipe_thr_files_of_recordings (c : PipeCfg) (hK : 0 < c.proc.K) (hthr : c.throttle = true)
    (ops : List PipeOp) :
    let p := ops.foldl (Pipe.op c) (Pipe.init F c)
    ∃ evs : List Ev, C01.NoWriteFaults evs ∧
      p.proc = PState.after c.proc (PState.init c.proc) evs ∧
      (evs.filter Ev.isFrame).length = p.accepted.length ∧
      (∀ g ∈ motionFiles p, ∃ r ∈ recordings (PState.trace c.proc (PState.init c.proc) evs), g <+: r) ∧
      (motionFiles p).flatten.Sublist (recordings (PState.trace c.proc (PState.init c.proc) evs)).flatten := by
  intro p
  obtain ⟨evs, hw, hp, hcount, hti⟩ := pipe_thr_inv (F := F) c hK hthr ops
  refine ⟨evs, hw, hp, hcount, ?_, ?_⟩
  · intro g hg
    rw [motionFiles_G] at hg
    obtain ⟨f, hf, rfl⟩ := G_mem hg
    exact hti.pre f hf
  · rw [motionFiles_G]; exact hti.sub

/-- **C01 at pipeline level, throttle on**: each motion file is a contiguous ascending run of
accepted-frame ids, over all motion files (oldest first) the ids strictly increase, and every id is the
index of an accepted frame — the conclusion of `pipe_c01`. -/
theorem pipe_thr_files_sub (c : PipeCfg) (hK : 0 < c.proc.K) (hthr : c.throttle = true) (ops : List PipeOp) :
    let p := ops.foldl (Pipe.op c) (Pipe.init F c)
    (∀ r ∈ motionFiles p, ∃ a, r = List.range' a r.length) ∧
    (motionFiles p).flatten.Pairwise (· < ·) ∧
    ∀ id ∈ (motionFiles p).flatten, id < p.accepted.length := by
  intro p
  obtain ⟨evs, hw, _, hcount, hpre, hsub⟩ := pipe_thr_files_of_recordings (F := F) c hK hthr ops
  obtain ⟨h1, h2, h3⟩ := c01_recordings c.proc hK evs hw
  refine ⟨?_, h2.sublist hsub, ?_⟩
  · intro g hg
    obtain ⟨r, hr, hp⟩ := hpre g hg
    obtain ⟨s, hs⟩ := h1 r hr
    rw [hs] at hp
    exact ⟨s, prefix_range' g s _ hp⟩
  · intro id hid
    rw [← hcount]
    exact h3 id (hsub.subset hid)

/-- **Token accounting, exact.**  Frames in motion files + tokens left in the bucket = bucket size: every
frame that reaches a file cost exactly one token and, all requests being made at tick 0, nothing is ever
refilled.  (The write that finds the bucket empty is not forwarded: it closes the file.) -/
theorem pipe_thr_total_exact (c : PipeCfg) (hK : 0 < c.proc.K) (hthr : c.throttle = true) (ops : List PipeOp) :
    let p := ops.foldl (Pipe.op c) (Pipe.init F c)
    (motionFiles p).flatten.length + p.thr.bucket.avail = c.bucketFrames := by
  intro p
  obtain ⟨_, _, _, _, hti⟩ := pipe_thr_inv (F := F) c hK hthr ops
  rw [motionFiles_G]; exact hti.tot

/-- **C05 at pipeline level**: the motion files never hold more frames than the bucket. -/
theorem pipe_thr_total (c : PipeCfg) (hK : 0 < c.proc.K) (hthr : c.throttle = true) (ops : List PipeOp) :
    let p := ops.foldl (Pipe.op c) (Pipe.init F c)
    (motionFiles p).flatten.length ≤ c.bucketFrames := by
  intro p
  have h := pipe_thr_total_exact (F := F) c hK hthr ops
  exact Nat.le.intro h

/-- **C06 (c) at pipeline level, on the files**: every motion file that exists was started with at least
`c.minLenFrames` tokens in hand — the frames of all OLDER motion files plus a whole minimum-length
recording fit in the bucket.  (By `pipe_thr_total_exact` the tokens in hand at that moment are
`c.bucketFrames - pre.flatten.length`.) -/
theorem pipe_thr_min_tokens (c : PipeCfg) (hK : 0 < c.proc.K) (hthr : c.throttle = true) (ops : List PipeOp) :
    let p := ops.foldl (Pipe.op c) (Pipe.init F c)
    ∀ pre f post, motionFiles p = pre ++ f :: post → c.minLenFrames + pre.flatten.length ≤ c.bucketFrames := by
  intro p pre f post hsplit
  obtain ⟨_, _, _, _, hti⟩ := pipe_thr_inv (F := F) c hK hthr ops
  have h := hti.tok pre.length (by rw [← motionFiles_G, hsplit]; simp)
  rw [← motionFiles_G, hsplit, List.take_left' rfl] at h
  exact h

theorem start_min_of_inv {B M : Nat} (p : Pipe F) (a : RecAcc) (hti : TInv B M (mot p.files) a p.thr)
    (r : TReq) (hr : r.tick? = some 0) (tag : Nat) (ok : Bool) (hb : TObs.bStart tag ok ∈ (p.thr.step r).2) :
    M ≤ p.thr.bucket.avail ∧ M + (motionFiles p).flatten.length ≤ B := by
  obtain ⟨tick, htick, hge⟩ := step_bStart_has_min_tokens p.thr r tag ok hb
  rw [hr] at htick
  cases htick
  have hav : (p.thr.bucket.available 0).2 = p.thr.bucket.avail := adjust0_avail p.thr.bucket
  rw [hav, hti.ml] at hge
  have htot := hti.tot
  rw [← motionFiles_G] at htot
  exact ⟨hge, by omega⟩

/-- **C06 (c) at pipeline level, on the requests**: in every reachable state, a throttle request of the
kind `Pipe.motionCall` issues (tick 0) that makes `Pipe.applyTObs` perform `startFile` — i.e. whose
observations contain a `bStart` — finds at least `c.minLenFrames` tokens in the bucket
(`step_bStart_has_min_tokens`, i.e. `C06.c06_start_has_min_tokens`), and the frames already in motion files
plus a minimum-length recording fit in the bucket. -/
theorem pipe_thr_start_has_min_tokens (c : PipeCfg) (hK : 0 < c.proc.K) (hthr : c.throttle = true)
    (ops : List PipeOp) (r : TReq) (hr : r.tick? = some 0) (tag : Nat) (ok : Bool) :
    let p := ops.foldl (Pipe.op c) (Pipe.init F c)
    TObs.bStart tag ok ∈ (p.thr.step r).2 →
      c.minLenFrames ≤ p.thr.bucket.avail ∧
      c.minLenFrames + (motionFiles p).flatten.length ≤ c.bucketFrames := by
  intro p hb
  obtain ⟨_, _, _, _, hti⟩ := pipe_thr_inv (F := F) c hK hthr ops
  exact start_min_of_inv _ _ hti r hr tag ok hb

end pipeline

/-! ## non-vacuity -/

section examples
open TR.PipeLemmas.Tiny

/-- the ops of the example in `Props.C01Spec`: unthrottled, two recordings 0–3 and 4–7 -/
private def ops0 : List PipeOp :=
  [.item cold, .item cold, .item hot, .item hot, .item hot, .item .clear, .testReq,
   .item cold, .item hot, .item hot, .item badf, .item hot]

set_option maxRecDepth 8000 in
example : motionFiles (ops0.foldl (Pipe.op c0) (Pipe.init F0 c0)) = [[0, 1, 2, 3], [4, 5, 6, 7]] := by decide

set_option maxRecDepth 8000 in
/-- the same ops with the throttle, a two-token bucket and `minLenFrames = 1`: the first recording is cut
after two frames (the file is shorter than the unthrottled recording), the second recording is suppressed
(no tokens left: no file at all); both tokens are spent -/
example :
    let p := ops0.foldl (Pipe.op c1) (Pipe.init F0 c1)
    motionFiles p = [[0, 1]] ∧ p.thr.bucket.avail = 0 ∧ p.thr.recording = false ∧ p.accepted.length = 9 := by
  decide

/-- … with `minLenFrames = 0` -/
private def c2 : PipeCfg := { c1 with minLenFrames := 0 }

set_option maxRecDepth 8000 in
/-- with `minLenFrames = 0` the restart path of `WriteFrame` opens and at once closes an EMPTY base file for
every frame the processor writes after the cut — and the suppressed second recording leaves empty files too:
"at most one file per recording" is false, the three-part conclusion and the token bound hold -/
example : motionFiles (ops0.foldl (Pipe.op c2) (Pipe.init F0 c2)) = [[0, 1], [], [], [], [], []] := by
  decide

end examples

end TR.PipeThr
