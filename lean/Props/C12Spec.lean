import Props.C12
import Proofs.C12Spec
/-!
# C12, de-monitored — acceptance by `monC12` IS "every sink sees a well-formed call sequence, no panic"

`Props.C12` states C12 through the executable monitor `monC12` (a fold of the state machine `M12s.obs`).
Here the monitor is taken out of the trusted reading.  The definitions (`Proofs.C12Spec`) do not mention it:

* `allObs tr` — all observations of a trace, in order;
* `callsOf s os` — the calls made on sink `s`, in order, with their outcome;
* `openAfter cs` — a recording is open after the calls `cs`: a fold (successful `start` opens, `stop`
  closes whatever its outcome, nothing else matters), and in words (`openAfter_spec`): some successful
  `start` is followed by no `stop`;
* `WellFormed cs` — for every position: a `write` (successful or not) only when the calls before it leave a
  recording open; a `start` (successful or not) only when they leave none open; `stop` and `can` always.

`monC12_iff`: for EVERY trace (the model's or one recorded from the real code) the monitor reports nothing
iff no observation is a panic and the call sequence of each of the three sinks is `WellFormed`.
`c12_wellformed`: hence the model's traces have that shape, for every configuration with `K ≥ 1`, every
event list and every fault placement.
-/
namespace TR.C12Spec
open TR

/-! ## generic: any trace -/

/-- **The C12 monitor accepts exactly the well-formed, panic-free traces.** -/
theorem monC12_iff (tr : List Step) :
    monC12 tr = [] ↔ (Obs.panic ∉ allObs tr ∧ ∀ s : Sink, WellFormed (callsOf s (allObs tr))) :=
  monC12_iff' tr

/-- soundness alone: what an accepted trace looks like -/
theorem monC12_sound (tr : List Step) (hacc : monC12 tr = []) :
    Obs.panic ∉ allObs tr ∧ ∀ s : Sink, WellFormed (callsOf s (allObs tr)) :=
  (monC12_iff tr).mp hacc

/-- completeness alone: the monitor raises no false alarm -/
theorem monC12_complete (tr : List Step) (hp : Obs.panic ∉ allObs tr)
    (hw : ∀ s : Sink, WellFormed (callsOf s (allObs tr))) : monC12 tr = [] :=
  (monC12_iff tr).mpr ⟨hp, hw⟩

/-- **`openAfter` in words**: a recording is open after `cs` iff `cs` contains a successful `start` after
which there is no `stop` (successful or not) — the last successful start comes after the last stop -/
theorem openAfter_spec (cs : List (Call × Bool)) :
    openAfter cs = true ↔
      ∃ pre post, cs = pre ++ (Call.start, true) :: post ∧ ∀ ok, (Call.stop, ok) ∉ post :=
  openAfter_iff cs

/-- the flag the monitor keeps for sink `s` is `openAfter` of the calls made on `s` (any observations) -/
theorem monitor_flag_is_openAfter (os : List Obs) (s : Sink) :
    (os.foldl M12s.obs {}).get s = openAfter (callsOf s os) :=
  monitor_flag os s

/-- `WellFormed`, spelled out for a write: the calls before it contain a successful start with no stop
in between -/
theorem wellFormed_write {cs : List (Call × Bool)} (hw : WellFormed cs) (i : Nat) (h : i < cs.length)
    (id : Nat) (ok : Bool) (hc : cs[i] = (.write id, ok)) :
    ∃ pre post, cs.take i = pre ++ (Call.start, true) :: post ∧ ∀ ok', (Call.stop, ok') ∉ post := by
  have := hw i h
  rw [hc] at this
  exact (openAfter_iff _).mp this

/-- `WellFormed`, spelled out for a start attempt: every successful start before it is followed by a stop
before it -/
theorem wellFormed_start {cs : List (Call × Bool)} (hw : WellFormed cs) (i : Nat) (h : i < cs.length)
    (ok : Bool) (hc : cs[i] = (.start, ok)) :
    ∀ pre post, cs.take i = pre ++ (Call.start, true) :: post → ∃ ok', (Call.stop, ok') ∈ post := by
  intro pre post he
  have := hw i h
  rw [hc] at this
  apply Classical.byContradiction
  intro hn
  have ho : openAfter (cs.take i) = true :=
    (openAfter_iff _).mpr ⟨pre, post, he, fun ok' hm => hn ⟨ok', hm⟩⟩
  rw [this] at ho
  cases ho

/-! ## the model -/

/-- **C12 as a list specification.**  For every configuration with `K ≥ 1`, every event list and every
fault placement: the model never panics, and on each of the three sinks every `WriteFrame` comes after a
successful `StartRecording` with no `StopRecording` in between, and `StartRecording` is never attempted
while a recording is open. -/
theorem c12_wellformed (c : PCfg) (hK : 0 < c.K) (evs : List Ev) :
    Obs.panic ∉ allObs (PState.trace c (PState.init c) evs) ∧
    ∀ s : Sink, WellFormed (callsOf s (allObs (PState.trace c (PState.init c) evs))) :=
  (monC12_iff _).mp (C12.c12_protocol c hK evs)

/-! ## non-vacuity -/

/-- two recordings on the motion sink (the second after a failed start attempt; a failed write inside the
first; a failed stop followed by a successful one), one on the test sink, nothing on the continuous one -/
private def good : List Step :=
  [⟨.frame true {}, [.md, .call .motion .can true, .call .motion .start true, .rs,
      .call .motion (.write 0) true]⟩,
   ⟨.testReq, []⟩,
   ⟨.frame true {}, [.call .motion (.write 1) false, .call .motion .stop true, .re,
      .call .test .start true, .call .test (.write 1) true]⟩,
   ⟨.frame true {}, [.call .motion .can true, .call .motion .start false]⟩,
   ⟨.frame true {}, [.call .motion .can true, .call .motion .start true, .call .motion (.write 2) true,
      .call .motion (.write 3) true, .call .test (.write 3) true, .call .test .stop false]⟩,
   ⟨.bad {}, [.call .motion .stop false, .call .motion .stop true]⟩]

example : callsOf .motion (allObs good) =
    [(.can, true), (.start, true), (.write 0, true), (.write 1, false), (.stop, true),
     (.can, true), (.start, false), (.can, true), (.start, true), (.write 2, true), (.write 3, true),
     (.stop, false), (.stop, true)] ∧
    callsOf .test (allObs good) = [(.start, true), (.write 1, true), (.write 3, true), (.stop, false)] ∧
    callsOf .const (allObs good) = [] := by decide

/-- accepted, panic-free and well-formed on every sink -/
example : monC12 good = [] ∧ Obs.panic ∉ allObs good ∧ ∀ s : Sink, WellFormed (callsOf s (allObs good)) := by
  decide

/-- a write after the stop: rejected, and not well-formed -/
example :
    let tr : List Step :=
      [⟨.frame true {}, [.call .motion .start true, .call .motion (.write 0) true, .call .motion .stop true]⟩,
       ⟨.frame true {}, [.call .motion (.write 1) true]⟩]
    monC12 tr = ["C12:write-outside-recording-motion"] ∧ ¬ WellFormed (callsOf .motion (allObs tr)) ∧
    WellFormed (callsOf .test (allObs tr)) := by decide

/-- a write after a FAILED start: rejected, and not well-formed (a failed start opens nothing) -/
example :
    let tr : List Step := [⟨.frame true {}, [.call .test .start false, .call .test (.write 0) true]⟩]
    monC12 tr ≠ [] ∧ ¬ WellFormed (callsOf .test (allObs tr)) := by decide

/-- a start while a recording is open: rejected, and not well-formed — whether or not the second start
succeeds -/
example :
    let tr (ok : Bool) : List Step :=
      [⟨.frame true {}, [.call .const .start true, .call .const (.write 0) true]⟩,
       ⟨.frame true {}, [.call .const .start ok, .call .const (.write 1) true]⟩]
    monC12 (tr true) = ["C12:start-while-open-const"] ∧ ¬ WellFormed (callsOf .const (allObs (tr true))) ∧
    monC12 (tr false) = ["C12:start-while-open-const"] ∧ ¬ WellFormed (callsOf .const (allObs (tr false))) := by
  decide

/-- a panic: rejected although every sink's calls are well-formed -/
example :
    let tr : List Step := [⟨.frame true {}, [.call .motion .start true, .panic]⟩]
    monC12 tr = ["C12:panic"] ∧ Obs.panic ∈ allObs tr ∧ ∀ s : Sink, WellFormed (callsOf s (allObs tr)) := by
  decide

/-- sinks are independent: a recording open on one sink does not license a write on another -/
example :
    let tr : List Step := [⟨.frame true {}, [.call .motion .start true, .call .const (.write 0) true]⟩]
    monC12 tr ≠ [] ∧ WellFormed (callsOf .motion (allObs tr)) ∧ ¬ WellFormed (callsOf .const (allObs tr)) := by
  decide

/-- `openAfter` on small inputs -/
example :
    openAfter [] = false ∧ openAfter [(.start, true)] = true ∧ openAfter [(.start, false)] = false ∧
    openAfter [(.start, true), (.write 0, false), (.can, false)] = true ∧
    openAfter [(.start, true), (.stop, false)] = false ∧
    openAfter [(.start, true), (.stop, true), (.start, true)] = true := by decide

private def cfg : PCfg := ⟨3, 2, 4, 1, true, 1⟩

set_option maxRecDepth 8000 in
/-- a run of the model (trigger, test request, bad frame, re-trigger with a failing stop): the calls it
makes on the motion and the test sink -/
example :
    let obs := allObs (PState.trace cfg (PState.init cfg)
      [.frame false {}, .testReq, .frame true {}, .bad {}, .frame true {}])
    callsOf .motion obs =
      [(.can, true), (.start, true), (.write 0, true), (.write 1, true), (.stop, true),
       (.can, true), (.start, true), (.write 2, true)] ∧
    callsOf .test obs = [(.start, true), (.write 1, true), (.write 2, true), (.stop, true)] := by
  decide

end TR.C12Spec
