import Props.C01Spec
import Props.C04Spec
import Proofs.PipeC04
/-!
# C04 at pipeline level, with the window / disk gates changing while the camera streams

`Props.C01Spec.pipe_files_are_recordings` / `pipe_c01` relate the composed pipeline (`TR.Pipeline`: socket
items → parser → detector → processor → abstract files) to the processor trace it induces for a FIXED
configuration.  In the daemon the recording window opens and closes and disk space comes and goes while
frames arrive; the end-to-end harness models this by running every item with a configuration whose
`windowOpen` / `diskOk` have the value of that moment.  Here (definitions in `Proofs.PipeC04`):

* `GOp` — one step of the daemon: the two gates as they are at that moment and a `PipeOp` (a socket item or a
  test-recording request); `withGates c g` — `c` with those gates; `Pipe.gop c p g = Pipe.op (withGates c g) p
  g.op`; `runG F c gs` — the pipeline after the history `gs`, started from `Pipe.init F c`;
* `motionStarts p` — the number of motion files started so far;
* `parseItem c bytes` — the parser's verdict on a socket frame (the expression inside `Pipe.item`);
  `verdict c p pix tel` — the detector's verdict on the accepted frame in pipeline state `p`;
* `Pipe.evOf c p g` — the processor event the step induces (`evOf_cases`: a test request, a reset, a bad frame
  or a frame with the detector's verdict; its fault record is `gfaults g = { win := g.windowOpen, can :=
  g.diskOk }`, nothing else fails); `evsG F c gs` — the events of a whole history (`evsG_getElem`: the `i`-th
  is the event induced by `gs[i]` in the state `runG F c (gs.take i)`).

Quantifier of every theorem of the first part: every `FloatOps`, every configuration with ring capacity ≥ 1 and
the throttle OFF, every history `gs` of gate values / socket items / test requests, every next step `g`.

* `pipe_gates_files_are_recordings` — the motion files ARE the recordings of the processor trace of `evsG`,
  the processor state is the model's state after `evsG`, the trace obeys `C04Spec.StartRule`;
  `pipe_gates_c01` — hence the files keep the shape of `pipe_c01` under changing gates;
* `pipe_no_start_outside_window` — a step that starts a motion file has both gates open and is a socket frame
  the parser accepts;
* `pipe_at_most_one_start` — a step starts at most one motion file (and removes none);
* `pipe_start_iff` — the "iff" of C04: on an accepted frame a motion file starts iff the processor is not
  recording, the detector reports motion, the run of motion frames has reached `trig`, and both gates are open;
* `pipe_refusal_retries` — a start refused by a gate does not reset the run: the next motion frame with both
  gates open starts the file (`pipe_refusal_retries_later`: also with test requests / bad frames / `clear`
  markers in between).

With the throttle ON the statement "a step that starts a motion file has both gates open" is FALSE when
`c.minLenFrames = 0` (counterexample at the end: after the throttle has cut a recording that began while the
window was open, the restart path of its `WriteFrame` opens an empty base file on every further frame of that
recording, whatever the gates are by then).  For `0 < c.minLenFrames` it is proved:
`pipe_thr_no_start_outside_window`, together with `pipe_thr_at_most_one_start` and `pipe_thr_start_only_if` (the
"only if" half of `pipe_start_iff`; the "if" half fails by design — the throttle suppresses starts).

Non-vacuity (by `decide`, on the `Tiny` pipeline of `Props.Pipeline`): a history in which the window is closed
during the first motion frames and opens later; the same with the disk check; the throttle counterexample.
-/
namespace TR.PipeC04
open TR TR.C01Spec

section pipeline
variable {F : FloatOps}

/-! ## the induced events -/

/-- the fault record of an induced event is the two gates of the moment (a test request carries none) -/
theorem evOf_faults (c : PipeCfg) (p : Pipe F) (g : GOp) (h : g.op ≠ .testReq) :
    (Pipe.evOf c p g).faults = { win := g.windowOpen, can := g.diskOk } := by
  rcases evOf_cases c p g with ⟨h1, _⟩ | ⟨_, h2⟩ | ⟨_, _, _, _, _, h2⟩ | ⟨_, _, _, _, _, h2⟩
  · exact absurd h1 h
  · rw [h2]; rfl
  · rw [h2]; rfl
  · rw [h2]; rfl

/-- the events of a history, position by position -/
theorem evsG_spec (c : PipeCfg) (gs : List GOp) :
    (evsG F c gs).length = gs.length ∧
    ∀ i (h : i < gs.length), (evsG F c gs)[i]? = some (Pipe.evOf c (runG F c (gs.take i)) gs[i]) := by
  refine ⟨evsG_length c gs, fun i h => ?_⟩
  rw [List.getElem?_eq_getElem (by rw [evsG_length]; exact h), evsG_getElem c gs i h]

/-! ## the files are the recordings of the induced trace -/

/-- **`pipe_files_are_recordings` under changing gates.**  The event list `evsG F c gs` — one event per step,
with the detector's verdict and the gates of that step as its fault record (`evsG_spec`, `evOf_cases`) — takes
the processor model to the pipeline's processor state; its frame events are the accepted frames; the motion
files are exactly the recordings of its trace; and the trace obeys the plain start rule of `Props.C04Spec`. -/
theorem pipe_gates_files_are_recordings (c : PipeCfg) (hK : 0 < c.proc.K) (hthr : c.throttle = false)
    (gs : List GOp) :
    let p := runG F c gs
    let evs := evsG F c gs
    let tr := PState.trace c.proc (PState.init c.proc) evs
    C01.NoWriteFaults evs ∧
    p.proc = PState.after c.proc (PState.init c.proc) evs ∧
    motionFiles p = recordings tr ∧
    (evs.filter Ev.isFrame).length = p.accepted.length ∧
    C04Spec.StartRule c.proc.trig tr := by
  intro p evs tr
  obtain ⟨hev, hp, hfr, hcount⟩ := pie_runG (F := F) c hK hthr gs
  exact ⟨fun e he => (hev e he).1, hp, frel_motionFiles p _ hfr, hcount, C04Spec.c04_start_rule c.proc evs⟩

/-- the existential form, as in `pipe_files_are_recordings`: some event list with one event per step, whose
fault records are the gates of the steps -/
theorem pipe_gates_files_are_recordings' (c : PipeCfg) (hK : 0 < c.proc.K) (hthr : c.throttle = false)
    (gs : List GOp) :
    let p := runG F c gs
    ∃ evs : List Ev, evs.length = gs.length ∧
      (∀ i (h : i < gs.length), ∃ e, evs[i]? = some e ∧
        (gs[i].op ≠ .testReq → e.faults = { win := gs[i].windowOpen, can := gs[i].diskOk })) ∧
      C01.NoWriteFaults evs ∧
      p.proc = PState.after c.proc (PState.init c.proc) evs ∧
      motionFiles p = recordings (PState.trace c.proc (PState.init c.proc) evs) ∧
      (evs.filter Ev.isFrame).length = p.accepted.length ∧
      C04Spec.StartRule c.proc.trig (PState.trace c.proc (PState.init c.proc) evs) := by
  intro p
  obtain ⟨h1, h2, h3, h4, h5⟩ := pipe_gates_files_are_recordings (F := F) c hK hthr gs
  obtain ⟨hl, hi⟩ := evsG_spec (F := F) c gs
  exact ⟨evsG F c gs, hl, fun i h => ⟨_, hi i h, evOf_faults c _ _⟩, h1, h2, h3, h4, h5⟩

/-- **C01 at pipeline level under changing gates** (throttle off): each motion file is a contiguous ascending
run of accepted-frame ids, over all motion files (oldest first) the ids strictly increase, and every id is the
index of an accepted frame. -/
theorem pipe_gates_c01 (c : PipeCfg) (hK : 0 < c.proc.K) (hthr : c.throttle = false) (gs : List GOp) :
    let p := runG F c gs
    let R := motionFiles p
    (∀ r ∈ R, ∃ a, r = List.range' a r.length) ∧ R.flatten.Pairwise (· < ·) ∧
    ∀ id ∈ R.flatten, id < p.accepted.length := by
  intro p R
  obtain ⟨hw, _, hR, hcount, _⟩ := pipe_gates_files_are_recordings (F := F) c hK hthr gs
  have h := c01_recordings c.proc hK (evsG F c gs) hw
  show (∀ r ∈ motionFiles p, _) ∧ (motionFiles p).flatten.Pairwise (· < ·) ∧ ∀ id ∈ (motionFiles p).flatten, _
  rw [hR, ← hcount]
  exact h

/-! ## one step -/

/-- the number of motion files after a step: the number before plus one if the processor step on the induced
event made a successful `StartRecording` call on the motion sink -/
theorem motionStarts_step (c : PipeCfg) (hK : 0 < c.proc.K) (hthr : c.throttle = false) (gs : List GOp) (g : GOp) :
    let p := runG F c gs
    motionStarts (Pipe.gop c p g) =
      motionStarts p + (if hasStartOk (PState.step c.proc p.proc (Pipe.evOf c p g)).2 = true then 1 else 0) := by
  intro p
  rw [motionStarts_gop c hK hthr p _ g (pie_runG c hK hthr gs), step_startCount_eq]

/-- **a step starts at most one motion file** (and never removes one) -/
theorem pipe_at_most_one_start (c : PipeCfg) (hK : 0 < c.proc.K) (hthr : c.throttle = false)
    (gs : List GOp) (g : GOp) :
    motionStarts (runG F c gs) ≤ motionStarts (Pipe.gop c (runG F c gs) g) ∧
    motionStarts (Pipe.gop c (runG F c gs) g) ≤ motionStarts (runG F c gs) + 1 := by
  have h := motionStarts_step (F := F) c hK hthr gs g
  simp only at h
  rw [h]
  split <;> omega

/-- **no motion file starts outside the window or against the disk check**: a step that starts a motion file
has both gates open, and it is a socket frame item (not a `clear` marker, not a test request) that the parser
accepts -/
theorem pipe_no_start_outside_window (c : PipeCfg) (hK : 0 < c.proc.K) (hthr : c.throttle = false)
    (gs : List GOp) (g : GOp)
    (h : motionStarts (Pipe.gop c (runG F c gs) g) > motionStarts (runG F c gs)) :
    g.windowOpen = true ∧ g.diskOk = true ∧
    ∃ bytes pix tel, g.op = .item (.frame bytes) ∧ parseItem c bytes = .ok pix tel := by
  have hs := motionStarts_gop c hK hthr (runG F c gs) _ g (pie_runG c hK hthr gs)
  have hpos : 0 < startCount (PState.step c.proc (runG F c gs).proc (Pipe.evOf c (runG F c gs) g)).2 := by omega
  rcases evOf_cases c (runG F c gs) g with ⟨_, h2⟩ | ⟨_, h2⟩ | ⟨_, _, _, _, _, h2⟩ | ⟨bytes, pix, tel, hop, hparse, h2⟩
  · rw [h2, step_startCount_nonframe _ _ _ rfl] at hpos; exact absurd hpos (Nat.lt_irrefl _)
  · rw [h2, step_startCount_nonframe _ _ _ rfl] at hpos; exact absurd hpos (Nat.lt_irrefl _)
  · rw [h2, step_startCount_nonframe _ _ _ rfl] at hpos; exact absurd hpos (Nat.lt_irrefl _)
  · rw [h2, startCount_pos_iff, C04.c04_start_iff] at hpos
    exact ⟨hpos.2.2.2.1, hpos.2.2.2.2.1, bytes, pix, tel, hop, hparse⟩

/-- **C04 at pipeline level, the "iff"**: at a socket frame the parser accepts, a motion file is started iff
the processor is not recording, the detector reports motion on this frame, the run of consecutive motion
frames (the processor's `triggered` counter, plus this frame) has reached `c.proc.trig`, the window is open
and the disk check passes — whatever the gates were before -/
theorem pipe_start_iff (c : PipeCfg) (hK : 0 < c.proc.K) (hthr : c.throttle = false) (gs : List GOp) (g : GOp)
    (bytes : List Nat) (pix : Frame) (tel : Parse.Telemetry)
    (hop : g.op = .item (.frame bytes)) (hparse : parseItem c bytes = .ok pix tel) :
    let p := runG F c gs
    motionStarts (Pipe.gop c p g) > motionStarts p ↔
      p.proc.isRec = false ∧
      (Det.detect c.det p.det pix
        (Det.affectedBy c.det ((tel.timeOnMs : Int) * 1000000) ((tel.lastFFCMs : Int) * 1000000))).2 = true ∧
      c.proc.trig ≤ p.proc.triggered + 1 ∧ g.windowOpen = true ∧ g.diskOk = true := by
  intro p
  have hs := motionStarts_gop c hK hthr p _ g (pie_runG c hK hthr gs)
  rw [evOf_ok c p g bytes pix tel hop hparse] at hs
  have hi := C04.c04_start_iff c.proc p.proc (verdict c p pix tel) (gfaults g)
  rw [← startCount_pos_iff] at hi
  show motionStarts (Pipe.gop c p g) > motionStarts p ↔
    p.proc.isRec = false ∧ verdict c p pix tel = true ∧ c.proc.trig ≤ p.proc.triggered + 1 ∧
      (gfaults g).win = true ∧ (gfaults g).can = true
  constructor
  · intro h
    obtain ⟨h1, h2, h3, h4, h5, _⟩ := hi.mp (by omega)
    exact ⟨h1, h2, h3, h4, h5⟩
  · rintro ⟨h1, h2, h3, h4, h5⟩
    have := hi.mpr ⟨h1, h2, h3, h4, h5, rfl⟩
    omega

/-- … and then exactly one is started -/
theorem pipe_start_iff_succ (c : PipeCfg) (hK : 0 < c.proc.K) (hthr : c.throttle = false) (gs : List GOp)
    (g : GOp) (bytes : List Nat) (pix : Frame) (tel : Parse.Telemetry)
    (hop : g.op = .item (.frame bytes)) (hparse : parseItem c bytes = .ok pix tel) :
    let p := runG F c gs
    motionStarts (Pipe.gop c p g) = motionStarts p + 1 ↔
      p.proc.isRec = false ∧
      (Det.detect c.det p.det pix
        (Det.affectedBy c.det ((tel.timeOnMs : Int) * 1000000) ((tel.lastFFCMs : Int) * 1000000))).2 = true ∧
      c.proc.trig ≤ p.proc.triggered + 1 ∧ g.windowOpen = true ∧ g.diskOk = true := by
  intro p
  have h1 := pipe_at_most_one_start (F := F) c hK hthr gs g
  have h2 := pipe_start_iff (F := F) c hK hthr gs g bytes pix tel hop hparse
  simp only at h2
  rw [← h2]
  show motionStarts (Pipe.gop c (runG F c gs) g) = motionStarts (runG F c gs) + 1 ↔ _
  omega

/-! ## a refused start is retried -/

/-- **a start refused by a gate does not reset the run.**  If at step `g` a start is due (accepted frame, the
processor not recording, motion, `trig` reached) but the window is closed or the disk check fails, no file is
started at `g`; and if the next step `g'` is again an accepted frame with motion, now with both gates open, a
motion file is started at `g'`. -/
theorem pipe_refusal_retries (c : PipeCfg) (hK : 0 < c.proc.K) (hthr : c.throttle = false) (gs : List GOp)
    (g g' : GOp) (bytes bytes' : List Nat) (pix pix' : Frame) (tel tel' : Parse.Telemetry)
    (hop : g.op = .item (.frame bytes)) (hparse : parseItem c bytes = .ok pix tel)
    (hop' : g'.op = .item (.frame bytes')) (hparse' : parseItem c bytes' = .ok pix' tel') :
    let p := runG F c gs
    let p₁ := Pipe.gop c p g
    let p₂ := Pipe.gop c p₁ g'
    p.proc.isRec = false → verdict c p pix tel = true → c.proc.trig ≤ p.proc.triggered + 1 →
    (g.windowOpen = false ∨ g.diskOk = false) →
    verdict c p₁ pix' tel' = true → g'.windowOpen = true → g'.diskOk = true →
    motionStarts p₁ = motionStarts p ∧ motionStarts p₂ = motionStarts p₁ + 1 := by
  intro p p₁ p₂ hrec hv htrig hgate hv' hw' hd'
  have hP := pie_runG (F := F) c hK hthr gs
  have hP₁ := pie_gop c hK hthr p _ g hP
  have hs₁ := motionStarts_gop c hK hthr p _ g hP
  have hs₂ := motionStarts_gop c hK hthr p₁ _ g' hP₁
  have hproc₁ := gop_proc c p g
  have he := evOf_ok c p g bytes pix tel hop hparse
  have he' := evOf_ok c p₁ g' bytes' pix' tel' hop' hparse'
  rw [hv] at he
  rw [hv'] at he'
  rw [he] at hs₁ hproc₁
  have hgate' : (gfaults g).win = false ∨ (gfaults g).can = false ∨ (gfaults g).mStart = false := by
    rcases hgate with h | h
    · exact Or.inl h
    · exact Or.inr (Or.inl h)
  have hno := (C04.c04_refusal_keeps_run c.proc p.proc (gfaults g) hrec htrig hgate').2.2
  have hyes := C04.c04_retry_starts c.proc p.proc (gfaults g) (gfaults g') hrec htrig hgate' ⟨hw', hd', rfl⟩
  rw [he', show p₁.proc = _ from hproc₁, step_startCount_eq, hyes] at hs₂
  rw [(startCount_eq_zero_iff _).mpr hno] at hs₁
  exact ⟨hs₁, hs₂⟩

/-- steps that are not accepted frames (test requests, `clear` markers, frames the parser rejects), while no
recording is open: still none open, the run of motion frames stands, no motion file is started — whatever
the gates -/
theorem idle_steps (c : PipeCfg) (hK : 0 < c.proc.K) (hthr : c.throttle = false) :
    ∀ (mid : List GOp) (p : Pipe F) (evs : List Ev), PIE c p evs → p.proc.isRec = false →
      (∀ m ∈ mid, ¬ AcceptedFrame c m) →
      (∃ evs', PIE c (mid.foldl (Pipe.gop c) p) evs') ∧
      (mid.foldl (Pipe.gop c) p).proc.isRec = false ∧
      (mid.foldl (Pipe.gop c) p).proc.triggered = p.proc.triggered ∧
      motionStarts (mid.foldl (Pipe.gop c) p) = motionStarts p := by
  intro mid
  induction mid with
  | nil => intro p evs h hrec _; exact ⟨⟨evs, h⟩, hrec, rfl, rfl⟩
  | cons m mid ih =>
    intro p evs h hrec hmid
    have hnf := evOf_not_frame c p m (hmid m (List.mem_cons_self ..))
    have hs := motionStarts_gop c hK hthr p evs m h
    rw [step_startCount_nonframe _ _ _ hnf, Nat.add_zero] at hs
    obtain ⟨hr1, ht1⟩ := step_nonframe_idle c.proc p.proc _ hnf hrec
    rw [← gop_proc c p m] at hr1 ht1
    obtain ⟨a, b, d, e⟩ := ih (Pipe.gop c p m) _ (pie_gop c hK hthr p evs m h) hr1
      (fun x hx => hmid x (List.mem_cons_of_mem _ hx))
    exact ⟨a, b, d.trans ht1, e.trans hs⟩

/-- `pipe_refusal_retries` with test requests, `clear` markers or rejected frames (`mid`, any gates) between the
refused attempt and the next motion frame -/
theorem pipe_refusal_retries_later (c : PipeCfg) (hK : 0 < c.proc.K) (hthr : c.throttle = false) (gs : List GOp)
    (g g' : GOp) (mid : List GOp) (bytes bytes' : List Nat) (pix pix' : Frame) (tel tel' : Parse.Telemetry)
    (hop : g.op = .item (.frame bytes)) (hparse : parseItem c bytes = .ok pix tel)
    (hmid : ∀ m ∈ mid, ¬ AcceptedFrame c m)
    (hop' : g'.op = .item (.frame bytes')) (hparse' : parseItem c bytes' = .ok pix' tel') :
    let p := runG F c gs
    let p₁ := mid.foldl (Pipe.gop c) (Pipe.gop c p g)
    let p₂ := Pipe.gop c p₁ g'
    p.proc.isRec = false → verdict c p pix tel = true → c.proc.trig ≤ p.proc.triggered + 1 →
    (g.windowOpen = false ∨ g.diskOk = false) →
    verdict c p₁ pix' tel' = true → g'.windowOpen = true → g'.diskOk = true →
    motionStarts p₁ = motionStarts p ∧ motionStarts p₂ = motionStarts p₁ + 1 := by
  intro p p₁ p₂ hrec hv htrig hgate hv' hw' hd'
  have hP := pie_runG (F := F) c hK hthr gs
  have hP₀ := pie_gop c hK hthr p _ g hP
  have hs₀ := motionStarts_gop c hK hthr p _ g hP
  have hproc₀ := gop_proc c p g
  have he := evOf_ok c p g bytes pix tel hop hparse
  rw [hv] at he
  rw [he] at hs₀ hproc₀
  have hgate' : (gfaults g).win = false ∨ (gfaults g).can = false ∨ (gfaults g).mStart = false := by
    rcases hgate with h | h
    · exact Or.inl h
    · exact Or.inr (Or.inl h)
  obtain ⟨k1, k2, k3⟩ := C04.c04_refusal_keeps_run c.proc p.proc (gfaults g) hrec htrig hgate'
  rw [← hproc₀] at k1 k2
  rw [(startCount_eq_zero_iff _).mpr k3, Nat.add_zero] at hs₀
  obtain ⟨⟨evs₁, hP₁⟩, m2, m3, m4⟩ := idle_steps c hK hthr mid (Pipe.gop c p g) _ hP₀ k2 hmid
  have hs₂ := motionStarts_gop c hK hthr p₁ evs₁ g' hP₁
  have he' := evOf_ok c p₁ g' bytes' pix' tel' hop' hparse'
  rw [hv'] at he'
  have hyes : hasStartOk (PState.step c.proc p₁.proc (.frame true (gfaults g'))).2 = true :=
    (C04.c04_start_iff c.proc p₁.proc true (gfaults g')).mpr
      ⟨m2, rfl, by rw [show p₁.proc.triggered = _ from m3, k1]; omega, hw', hd', rfl⟩
  rw [he', step_startCount_eq, hyes] at hs₂
  exact ⟨(show motionStarts p₁ = _ from m4).trans hs₀, hs₂⟩

end pipeline

/-! ## throttle on -/

section throttled
variable {F : FloatOps}

/-- **throttle on, `minLenFrames ≥ 1`: a step starts at most one motion file** -/
theorem pipe_thr_at_most_one_start (c : PipeCfg) (hK : 0 < c.proc.K) (hthr : c.throttle = true)
    (hM : 0 < c.minLenFrames) (gs : List GOp) (g : GOp) :
    motionStarts (Pipe.gop c (runG F c gs) g) ≤ motionStarts (runG F c gs) + 1 :=
  Nat.le_trans (motionStarts_gop_thr c hK hthr hM _ g (pit_runG c hK hthr gs))
    (Nat.add_le_add_left (step_startCount_le _ _ _) _)

/-- **throttle on, `minLenFrames ≥ 1`: what a step that starts a motion file looks like** — both gates are open,
it is a socket frame the parser accepts, the processor was not recording, the detector reports motion and the
run of motion frames has reached `trig` (only the "only if" half of `pipe_start_iff`: the throttle may suppress
the start when the bucket holds fewer than `minLenFrames` tokens) -/
theorem pipe_thr_start_only_if (c : PipeCfg) (hK : 0 < c.proc.K) (hthr : c.throttle = true)
    (hM : 0 < c.minLenFrames) (gs : List GOp) (g : GOp)
    (h : motionStarts (Pipe.gop c (runG F c gs) g) > motionStarts (runG F c gs)) :
    g.windowOpen = true ∧ g.diskOk = true ∧
    ∃ bytes pix tel, g.op = .item (.frame bytes) ∧ parseItem c bytes = .ok pix tel ∧
      (runG F c gs).proc.isRec = false ∧ verdict c (runG F c gs) pix tel = true ∧
      c.proc.trig ≤ (runG F c gs).proc.triggered + 1 := by
  have hs := motionStarts_gop_thr c hK hthr hM (runG F c gs) g (pit_runG c hK hthr gs)
  have hpos : 0 < startCount (PState.step c.proc (runG F c gs).proc (Pipe.evOf c (runG F c gs) g)).2 := by omega
  rcases evOf_cases c (runG F c gs) g with ⟨_, h2⟩ | ⟨_, h2⟩ | ⟨_, _, _, _, _, h2⟩ | ⟨bytes, pix, tel, hop, hparse, h2⟩
  · rw [h2, step_startCount_nonframe _ _ _ rfl] at hpos; exact absurd hpos (Nat.lt_irrefl _)
  · rw [h2, step_startCount_nonframe _ _ _ rfl] at hpos; exact absurd hpos (Nat.lt_irrefl _)
  · rw [h2, step_startCount_nonframe _ _ _ rfl] at hpos; exact absurd hpos (Nat.lt_irrefl _)
  · rw [h2, startCount_pos_iff, C04.c04_start_iff] at hpos
    obtain ⟨a1, a2, a3, a4, a5, _⟩ := hpos
    exact ⟨a4, a5, bytes, pix, tel, hop, hparse, a1, a2, a3⟩

/-- **throttle on, `minLenFrames ≥ 1`: no motion file starts outside the window or against the disk check** -/
theorem pipe_thr_no_start_outside_window (c : PipeCfg) (hK : 0 < c.proc.K) (hthr : c.throttle = true)
    (hM : 0 < c.minLenFrames) (gs : List GOp) (g : GOp)
    (h : motionStarts (Pipe.gop c (runG F c gs) g) > motionStarts (runG F c gs)) :
    g.windowOpen = true ∧ g.diskOk = true ∧
    ∃ bytes pix tel, g.op = .item (.frame bytes) ∧ parseItem c bytes = .ok pix tel := by
  obtain ⟨h1, h2, bytes, pix, tel, h3, h4, _⟩ := pipe_thr_start_only_if c hK hthr hM gs g h
  exact ⟨h1, h2, bytes, pix, tel, h3, h4⟩

end throttled

/-! ## non-vacuity -/

section examples
open TR.PipeLemmas.Tiny

/-- a socket item with the gates of the moment -/
private def it (window disk : Bool) (i : Socket.Item) : GOp := ⟨window, disk, .item i⟩

/-- the tiny pipeline of `Props.Pipeline` (`trig = 1`, 3-slot ring, one-diff detection: every change of scene is
motion).  The window is open for the first frame, closed for the next three — of which the last two show
motion —, then open again. -/
private def hist : List GOp :=
  [it true true cold, it false true cold, it false true hot, it false true cold, it true true hot,
   it true true cold]

/-- the induced events: (accepted frame?, motion?, window, disk check) -/
example : (evsG F0 c0 hist).map (fun e => (e.isFrame, e.motion, e.faults.win, e.faults.can)) =
    [(true, false, true, true), (true, false, false, true), (true, true, false, true),
     (true, true, false, true), (true, true, true, true), (true, true, true, true)] := by decide

set_option maxRecDepth 20000 in
/-- no file while the window is closed although the run of motion frames grows; one file, started at the first
motion frame after the window opens (step 4) -/
example :
    (List.range 7).map (fun i => motionStarts (runG F0 c0 (hist.take i))) = [0, 0, 0, 0, 0, 1, 1] ∧
    (List.range 7).map (fun i => ((runG F0 c0 (hist.take i)).proc.isRec, (runG F0 c0 (hist.take i)).proc.triggered)) =
      [(false, 0), (false, 0), (false, 0), (false, 1), (false, 2), (true, 3), (true, 4)] := by decide

set_option maxRecDepth 20000 in
/-- … and it begins with frames 2 and 3, the pre-trigger frames that arrived while the window was closed -/
example : motionFiles (runG F0 c0 hist) = [[2, 3, 4, 5]] := by decide

set_option maxRecDepth 20000 in
/-- the same with the disk check failing instead (and a test request and a rejected frame in between, which do
not reset the run): the file starts when the check passes again -/
example :
    let h : List GOp := [it true true cold, it true false hot, ⟨true, false, .testReq⟩, it true false badf,
      it true true cold, it true true hot]
    (List.range 7).map (fun i => motionStarts (runG F0 c0 (h.take i))) = [0, 0, 0, 0, 0, 1, 1] ∧
    motionFiles (runG F0 c0 h) = [[0, 1, 2, 3]] := by decide

/-- the throttled configuration of the counterexample: a two-frame bucket and `minLenFrames = 0` -/
private def cT : PipeCfg := { c0 with throttle := true, bucketFrames := 2, minLenFrames := 0 }

set_option maxRecDepth 20000 in
/-- **`pipe_thr_no_start_outside_window` is FALSE for `minLenFrames = 0`.**  A recording starts at step 1 (gates
open), the bucket is empty after two frames and the throttle cuts it at step 2; the processor keeps recording,
and at steps 3 and 4 — window closed, at step 4 also the disk check failing — the restart path of the throttle's
`WriteFrame` opens a base file and cuts it at once: two more (empty) motion files. -/
example :
    let h : List GOp := [it true true cold, it true true hot, it false true cold, it false true hot,
      it false false cold]
    cT.throttle = true ∧ 0 < cT.proc.K ∧ cT.minLenFrames = 0 ∧
    (List.range 6).map (fun i => motionStarts (runG F0 cT (h.take i))) = [0, 0, 1, 1, 2, 3] ∧
    motionFiles (runG F0 cT h) = [[0, 1], [], []] := by decide

set_option maxRecDepth 20000 in
/-- with `minLenFrames = 1` the same history starts one file only -/
example :
    let h : List GOp := [it true true cold, it true true hot, it false true cold, it false true hot,
      it false false cold]
    (List.range 6).map (fun i => motionStarts (runG F0 { cT with minLenFrames := 1 } (h.take i))) =
      [0, 0, 1, 1, 1, 1] := by decide

end examples


end TR.PipeC04
