import Proofs.RingSpec
/-!
# C19 — Frame ring buffer returns exactly the retained history, oldest first

Quantifier: every capacity ≥ 1, every sequence of push (fill current frame + Move) /
set-as-oldest / reset operations (`c19_*`), and additionally every sequence of the raw
operations write / move / mark / reset in any order (`c19_raw_*`, "GetHistory never panics").
-/
namespace TR.C19
open TR

variable {α : Type}

/-- the ring reached from `NewFrameLoop(size)` by protocol operations -/
abbrev ringAfter (size : Nat) (blank : α) (ops : List (POp α)) : Ring α :=
  ops.foldl Ring.applyP (Ring.new size blank)

/-- the specification state after the same operations -/
abbrev specAfter (ops : List (POp α)) : Spec α := ops.foldl Spec.apply Spec.init

/-- **C19 (history).** `GetHistory` returns exactly the retained frames: the completed frames
from index `lo = max mark (completed + 1 − capacity)` on, oldest first, then the current frame.
In particular it never panics. -/
theorem c19_history (size : Nat) (hs : 1 ≤ size) (blank : α) (ops : List (POp α)) (cur : α) :
    ((ringAfter size blank ops).write cur).history
      = some ((specAfter ops).history size cur) := by
  obtain ⟨g, hr, hsr⟩ := reach size hs blank ops
  have := history_spec _ g _ cur hr hsr
  rw [size_foldl_applyP] at this
  exact this

/-- the returned history holds at most `capacity` frames and at least the current one -/
theorem c19_history_length (size : Nat) (hs : 1 ≤ size) (s : Spec α) (cur : α)
    (_hm : s.mark ≤ s.done.length) :
    1 ≤ (s.history size cur).length ∧ (s.history size cur).length ≤ size := by
  unfold Spec.history Spec.lo
  simp only [List.length_append, List.length_drop, List.length_singleton]
  omega

/-- the history is a suffix of "all completed frames, then the current one": oldest-to-newest,
ending with the current frame, with nothing skipped -/
theorem c19_history_suffix (size : Nat) (s : Spec α) (cur : α) :
    s.done.take (s.lo size) ++ s.history size cur = s.done ++ [cur] := by
  unfold Spec.history
  rw [← List.append_assoc, List.take_append_drop]

/-- no frame completed before the mark is returned, and (since `done` only holds frames
completed after creation / the last reset) no slot from before a reset -/
theorem c19_history_after_mark (size : Nat) (s : Spec α) : s.mark ≤ s.lo size := by
  unfold Spec.lo; omega

/-- the mark is honoured exactly while the marked frame is still buffered -/
theorem c19_lo_is_mark (size : Nat) (s : Spec α) (h : s.done.length < s.mark + size) :
    s.lo size = s.mark := by
  unfold Spec.lo; omega

theorem specAfter_mark_le (ops : List (POp α)) :
    (specAfter ops).mark ≤ (specAfter ops).done.length := by
  suffices H : ∀ (ops : List (POp α)) (s : Spec α), s.mark ≤ s.done.length →
      (ops.foldl Spec.apply s).mark ≤ (ops.foldl Spec.apply s).done.length from
    H ops Spec.init (by simp [Spec.init])
  intro ops
  induction ops with
  | nil => intro s h; exact h
  | cons op ops ih =>
    intro s h
    apply ih
    cases op <;> simp [Spec.apply, Spec.init] <;> omega

/-- **C19 (oldest).** `Oldest()` is the head of the history: the marked frame while it is
buffered, otherwise the frame about to be overwritten. -/
theorem c19_oldest (size : Nat) (hs : 1 ≤ size) (blank : α) (ops : List (POp α)) (cur : α) :
    some ((ringAfter size blank ops).write cur).oldestFrame
      = ((specAfter ops).history size cur).head? := by
  obtain ⟨g, hr, hsr⟩ := reach size hs blank ops
  have hw := inv_write _ g cur hr
  rw [oldestFrame_eq _ _ hw]
  obtain ⟨hn, hm, hv⟩ := hsr
  have hsz : ((ringAfter size blank ops).write cur).size = size := by
    simp [Ring.write, ringAfter, size_foldl_applyP, Ring.new]
  have hmk := specAfter_mark_le ops
  have hlo : (g.write cur).lo ((ringAfter size blank ops).write cur).size = (specAfter ops).lo size := by
    rw [hsz]; simp [Ghost.lo, Spec.lo, Ghost.write, hn, hm, specAfter]
  rw [hlo]
  have hle : (specAfter ops).lo size ≤ (specAfter ops).done.length := by
    unfold Spec.lo; omega
  unfold Spec.history
  simp only [Ghost.write, hn]
  by_cases he : (specAfter ops).lo size = (specAfter ops).done.length
  · simp [he, specAfter]
  · have hlt : (specAfter ops).lo size < (specAfter ops).done.length := by omega
    have hlt' : (specAfter ops).lo size < (List.foldl Spec.apply Spec.init ops).done.length := hlt
    simp only [specAfter] at he
    simp only [specAfter, he, if_false]
    rw [hv _ hlt']
    simp [List.head?_append, List.head?_drop, List.getElem?_eq_getElem hlt']

/-- **C19 (recent).** `CopyRecent()` is the frame completed just before the current one, and
nil while no frame has been completed since creation / reset (capacity ≥ 2). -/
theorem c19_recent (size : Nat) (hs : 2 ≤ size) (blank : α) (ops : List (POp α)) :
    (ringAfter size blank ops).recent = (specAfter ops).done.getLast? := by
  obtain ⟨g, hr, hsr⟩ := reach size (by omega) blank ops
  obtain ⟨hn, hm, hv⟩ := hsr
  have hsz : (ringAfter size blank ops).size = size := by
    simp [ringAfter, size_foldl_applyP, Ring.new]
  have hsz' : (List.foldl Ring.applyP (Ring.new size blank) ops).size = size := hsz
  show (List.foldl Ring.applyP (Ring.new size blank) ops).recent = _
  rw [recent_eq _ g hr (by rw [hsz']; exact hs)]
  by_cases h0 : g.n = 0
  · have : (List.foldl Spec.apply Spec.init ops).done = [] := List.eq_nil_of_length_eq_zero (by rw [← hn]; exact h0)
    simp only [h0, if_true, specAfter, this, List.getLast?_nil]
  · simp only [h0, if_false]
    have hk : g.n - 1 < (List.foldl Spec.apply Spec.init ops).done.length := by rw [← hn]; omega
    rw [hv _ hk, List.getLast?_eq_getElem?]
    simp only [specAfter]
    rw [List.getElem?_eq_getElem (by omega)]
    simp [hn]

/-- Capacity 1 corner, stated as what the code does: once a frame has been completed the single
slot is both "current" and "recent"; a one-slot buffer cannot retain the frame before the current one. -/
theorem c19_recent_capacity_one (blank : α) (ops : List (POp α)) (cur : α) :
    ((ringAfter 1 blank ops).write cur).recent = if (specAfter ops).done = [] then none else some cur := by
  obtain ⟨g, hr, hsr⟩ := reach 1 (by omega) blank ops
  have hw := inv_write _ g cur hr
  have hsz : ((ringAfter 1 blank ops).write cur).size = 1 := by
    simp [Ring.write, ringAfter, size_foldl_applyP, Ring.new]
  show ((List.foldl Ring.applyP (Ring.new 1 blank) ops).write cur).recent = _
  rw [recent_size_one _ _ hw hsz]
  have hn : (g.write cur).n = (specAfter ops).done.length := by simp [Ghost.write, hsr.1, specAfter]
  by_cases h0 : (specAfter ops).done = []
  · simp [h0, hn]
  · have hne : (specAfter ops).done.length ≠ 0 := fun h => h0 (List.eq_nil_of_length_eq_zero h)
    have hv : (g.write cur).vals (g.write cur).n = cur := by simp [Ghost.write]
    rw [if_neg h0, hv, hn, if_neg hne]

/-- **C19 (raw operations).** For *any* order of write / move / mark / reset (also moves over
unwritten slots) `GetHistory` never hits the slice-bounds panic and returns the ghost window
`lo..n`, which lies inside the current epoch (`0 ≤ lo`, every index ≤ n). -/
theorem c19_raw_history (size : Nat) (hs : 1 ≤ size) (blank : α) (ops : List (RingOp α)) :
    let st := runOps (Ring.new size blank, { n := 0, mark := 0, vals := fun _ => blank }) ops
    st.1 = ops.foldl Ring.apply (Ring.new size blank) ∧
    st.1.history = some ((List.range' (st.2.lo size) (st.2.n + 1 - st.2.lo size)).map st.2.vals) ∧
    st.2.lo size ≤ st.2.n ∧ st.2.n + 1 - st.2.lo size ≤ size := by
  intro st
  have hinv := inv_runOps ops _ _ (inv_new size blank hs)
  have hsz : st.1.size = size := by
    have : st.1 = ops.foldl Ring.apply (Ring.new size blank) := runOps_ring _ _ _
    rw [this]
    suffices H : ∀ (ops : List (RingOp α)) (r : Ring α), (ops.foldl Ring.apply r).size = r.size from
      by rw [H]; rfl
    intro ops
    induction ops with
    | nil => intro r; rfl
    | cons op ops ih =>
      intro r; simp only [List.foldl_cons, ih]
      cases op <;> simp [Ring.apply, Ring.write, Ring.move, Ring.setAsOldest, Ring.reset]
  refine ⟨runOps_ring _ _ _, ?_, ?_, ?_⟩
  · have := history_eq _ _ hinv
    rw [hsz] at this; exact this
  · exact lo_le_n _ _ hinv.2.2.2.1 hs
  · unfold Ghost.lo; omega

/-! ### Non-vacuity: concrete runs -/

/-- capacity 3: five pushes, a mark after the 4th; history = [marked.., current] -/
example : ((ringAfter 3 0 [.push 10, .push 11, .push 12, .push 13, .mark, .push 14]).write 15).history
    = some [14, 15] := by decide
example : ((ringAfter 3 0 [.push 10, .push 11, .push 12, .push 13]).write 14).history
    = some [12, 13, 14] := by decide
example : (specAfter [.push 10, .push 11, .push 12, .push 13, .mark, .push 14]).history 3 15 = [14, 15] := by
  decide
example : (ringAfter 3 0 [.push 10, .push 11, .push 12, .push 13]).recent = some 13 := by decide
example : (ringAfter 3 0 ([] : List (POp Nat))).recent = none := by decide
example : ((ringAfter 3 0 [.push 10, .reset, .push 20]).write 21).history = some [20, 21] := by decide

end TR.C19
