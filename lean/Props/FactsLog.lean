import Generated.Facts
/-! # Source facts — C20: the limiter interval (re-extracted by tools/gofacts at every check; one small module per concern so
that a rewrite of one function re-opens only the obligations of the properties that depend on it) -/
namespace TR.FactsProc
open Facts

/-- C20: the processor's limiter uses a one-minute interval -/
theorem log_interval : minLogIntervalNs = 60 * 1000000000 ∧ processorLogInit = "loglimiter.New(minLogInterval)" := by decide

end TR.FactsProc
