import Props.FactsRing
import Props.FactsLimits
import Props.FactsRecorderConfig
import Props.FactsReset
import Props.FactsGates
import Props.FactsFFC
import Props.FactsTestRec
import Props.FactsLog
/-!
# Source facts the processor / detector / limiter theorems rely on

`Generated.Facts` is rewritten from /repo's current source on every check; the theorems of the imported modules
(namespace `TR.FactsProc`, one module per concern) re-open as proof obligations whenever the extracted text changes.
-/
