import Generated.Facts
/-!
# Source facts the processor / detector / limiter theorems rely on

`Generated.Facts` is rewritten from /repo's current source on every check; these theorems
re-open as proof obligations whenever the extracted text changes.
-/
namespace TR.FactsProc
open Facts

/-- C01/C02: the pre-trigger ring holds preview-secs*fps + trigger-frames frames (the `K` of the model) -/
theorem ring_capacity_expr :
    ringSizeExpr = "NewFrameLoop(recorderConf.PreviewSecs*c.FPS()+motionConf.TriggerFrames, c)" := by decide

/-- C03: the limits are min-secs*fps and max-secs*fps (`minF`, `maxF` of the model) -/
theorem limits_expr : minFramesExpr = "recorderConf.MinSecs * c.FPS()" ∧ maxFramesExpr = "recorderConf.MaxSecs * c.FPS()" := by
  decide

/-- C03/C04: `recorder.NewConfig` builds the recording window from start-recording / stop-recording and the
location, copies min/max/preview-secs unchanged and rejects max-secs < min-secs -/
theorem recorder_config_wiring :
    windowCtorArgs = "windowsConfig.StartRecording;windowsConfig.StopRecording;float64(windowLocationConfig.Latitude);float64(windowLocationConfig.Longitude)" ∧
    recorderConfigFields = "MinSecs:thermalRecorderConfig.MinSecs;MaxSecs:thermalRecorderConfig.MaxSecs;PreviewSecs:thermalRecorderConfig.PreviewSecs;Window:*w;ConstantRecorder:thermalRecorderConfig.ConstantRecorder" ∧
    recorderConfigValidate = "conf.MaxSecs < conf.MinSecs" := ⟨rfl, rfl, rfl⟩

/-- C09/C15: a camera reset ends the recording in progress and then restarts the detector unconditionally -/
theorem processor_reset_body : processorResetBody = "mp.stopRecording();mp.motionDetector.Reset(camera)" := rfl

/-- C04: the window is consulted in `canStartWriting`, the run counter is compared with trigger-frames -/
theorem gates_expr : windowGate = "!mp.window.Active()" ∧ triggerTest = "mp.triggered < mp.triggerFrames" := by decide

/-- C09: frames within 10 s after an FFC are "affected" -/
theorem ffc_period : ffcPeriodNs = 10 * 1000000000 ∧ ffcTest = "f.Status.TimeOn-f.Status.LastFFCTime < ffcPeriod" := by decide

/-- C17: a test recording is `testRecLast + 1 = 21` frames; the continuous file is cut after maxFrames+1 -/
theorem test_recording_length : testRecLast + 1 = 21 ∧ testRecStopTest = "mp.snapshotFrames > 20" ∧
    constRecStopTest = "mp.crFrames > mp.maxFrames" := by decide

/-- C20: the processor's limiter uses a one-minute interval -/
theorem log_interval : minLogIntervalNs = 60 * 1000000000 ∧ processorLogInit = "loglimiter.New(minLogInterval)" := by decide

end TR.FactsProc
