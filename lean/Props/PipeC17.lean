import Props.C17Spec
import Proofs.PipeC17
/-!
# C17 at pipeline level, over whole histories with the window / disk gates changing

Definitions (in `Proofs.PipeC17`, `Proofs.PipeC04`, `Proofs.C17Spec`):

* `runG F c gs` — the composed pipeline (socket items → parser → detector → processor → throttle → abstract
  files) after the history `gs : List GOp`; a `GOp` is a socket item or a test-recording request together with
  the values of the recording-window and disk-check gates at that moment; `evsG F c gs` — the processor events
  the history induces, `tr` their observed trace;
* `constFiles p`, `testFiles p`, `motionFiles p` — the frame-id lists of the continuous / test / motion files of
  a pipeline state, oldest first (`filesOfKind`); `closedFilesOfKind k p` — those closed by `StopRecording`;
* `opKind c op` — the kind of event an op induces: `.testReq`, `.reset` (a `clear` marker), `.bad` (a frame the
  parser rejects), `.frame` (a frame it accepts); it depends on the op and the parser only;
  `opSegments c gs` — the accepted-frame ids of the history cut at the rejected frames;
  `reqStarts c gs` — the ids of the accepted frames that are the first accepted frame after a test request;
  `reqsSpacedG c k gs` — between two test requests at least `k` frames are accepted; all three are folds over
  `gs.map (opKind c ∘ (·.op))` and mention neither gates nor detector.

Every theorem: every `FloatOps`, every configuration with ring capacity ≥ 1, **throttle on or off** (the
throttle sits on the motion sink only: `kf_motionCall`), every history.

* `pipe_sink_files` — (1) `constFiles p = filesOf .const tr`, `testFiles p = filesOf .test tr`, every induced
  event is `cleanEv`;
* `pipe_c17_continuous` — (2) recorder on: `constFiles p = (segments tr).flatMap (chunksOf (maxF + 1))`, its
  concatenation is `List.range p.accepted.length`, every file has between 1 and `maxF + 1` frames, every file
  but the last of its segment exactly `maxF + 1`.  NO hypothesis on the test requests (they are invisible to the
  continuous recorder: `constAcc_dropReq`).  `pipe_c17_continuous_ops`: the same with `opSegments c gs` — a
  right-hand side that does not mention window, disk check, detector or throttle.  `pipe_c17_continuous_off`;
* `pipe_c17_gates_independent` — two histories with the same ops and arbitrary gates have the same continuous
  and the same test files (no spacing hypothesis);
* `pipe_c17_test` — spaced requests: `testFiles p = (testStarts tr).map fun a => List.range' a (min (testLast
  + 1) (n - a))`; every finished test file is `List.range' a (testLast + 1)`, `a` a test start;
  `pipe_c17_test_ops`: the same with `reqStarts c gs` and the hypothesis `reqsSpacedG` on the ops;
* `pipe_c17_test_undisturbed` — (3) removing every test request from a history changes neither the motion files
  nor the continuous files (full `RecFile`s, headers included; throttle on or off), nor detector, throttle
  state, accepted frames;
* non-vacuity by `decide` on the tiny pipeline.
-/
namespace TR.PipeC17
open TR TR.C01Spec TR.PipeC04 TR.C17Spec

section pipeline
variable {F : FloatOps}

/-! ## (1) the files are the files of the sinks of the induced trace -/

/-- **the link.**  The continuous (test) files of the pipeline are exactly the files of the continuous (test)
sink of the processor trace of the induced events; those events dictate no failure on either sink; their frame
events are the accepted frames; the finished files are the closed ones. -/
theorem pipe_sink_files (c : PipeCfg) (hK : 0 < c.proc.K) (gs : List GOp) :
    let p := runG F c gs
    let evs := evsG F c gs
    let tr := PState.trace c.proc (PState.init c.proc) evs
    constFiles p = filesOf .const tr ∧ testFiles p = filesOf .test tr ∧
    closedFilesOfKind .const p = closedFilesOf .const tr ∧ closedFilesOfKind .test p = closedFilesOf .test tr ∧
    (∀ e ∈ evs, cleanEv e = true) ∧
    p.proc = PState.after c.proc (PState.init c.proc) evs ∧
    numFrames tr = p.accepted.length := by
  intro p evs tr
  have h := pik_runG (F := F) c hK gs
  refine ⟨constFiles_eq c hK gs, testFiles_eq c hK gs, closedConstFiles_eq c hK gs, closedTestFiles_eq c hK gs,
    evsG_clean c gs, h.1, ?_⟩
  show numFrames (PState.trace c.proc (PState.init c.proc) (evsG F c gs)) = _
  rw [trace_numFrames]; exact h.2.2.2

/-! ## (2) the continuous recorder -/

/-- dropping the test requests from the induced events changes nothing for the continuous sink -/
theorem filesOf_const_dropReq (c : PCfg) (evs : List Ev) (hcl : ∀ e ∈ evs, cleanEv e = true) :
    filesOf .const (PState.trace c (PState.init c) evs) =
      filesOf .const (PState.trace c (PState.init c) (evs.filter notReq)) := by
  have h := constAcc_dropReq c evs (PState.init c) (PState.init c) {} ⟨rfl, rfl⟩
    (fun e he => (cleanEv_split e (hcl e he)).1)
  simp only [filesOf, closedFilesOf, openFileOf, fileAcc_accFrom, h]

/-- **C17, continuous recorder, at pipeline level.**  Recorder on, `n` frames accepted so far: the continuous
files are the chunks of `maxF + 1` frames of the segments between rejected frames; every accepted frame lands
in exactly one continuous file, in order, and nothing else does; every file has between 1 and `maxF + 1`
frames; in every segment every file but the last has exactly `maxF + 1`.  No hypothesis on window, disk check,
detector, throttle or test requests. -/
theorem pipe_c17_continuous (c : PipeCfg) (hK : 0 < c.proc.K) (hc : c.proc.constOn = true) (gs : List GOp) :
    let p := runG F c gs
    let tr := PState.trace c.proc (PState.init c.proc) (evsG F c gs)
    let n := p.accepted.length
    constFiles p = (segments tr).flatMap (chunksOf (c.proc.maxF + 1)) ∧
    (constFiles p).flatten = List.range n ∧
    (segments tr).flatten = List.range n ∧
    (∀ r ∈ constFiles p, 0 < r.length ∧ r.length ≤ c.proc.maxF + 1) ∧
    (∀ seg ∈ segments tr, ∀ init last, chunksOf (c.proc.maxF + 1) seg = init ++ [last] →
      ∀ x ∈ init, x.length = c.proc.maxF + 1) := by
  intro p tr n
  obtain ⟨h1, _, _, _, hcl, _, hn⟩ := pipe_sink_files (F := F) c hK gs
  have hn0 : ((evsG F c gs).filter Ev.isFrame).length = n := (pik_runG (F := F) c hK gs).2.2.2
  have hcl0 : ∀ e ∈ (evsG F c gs).filter notReq, cleanEv e = true :=
    fun e he => hcl e (List.mem_filter.mp he).1
  have hsp0 : spacedFrom (c.proc.testLast + 1) none ((evsG F c gs).filter notReq) = true :=
    spacedFrom_noReq _ _ _ (fun e he => (List.mem_filter.mp he).2)
  obtain ⟨k1, k2, k3, _⟩ := (c17_files c.proc hK _ hcl0 hsp0).1 hc
  rw [← filesOf_const_dropReq c.proc _ hcl] at k1 k2 k3
  rw [← segments_dropReq c.proc (PState.init c.proc) (PState.init c.proc)] at k1
  rw [frames_dropReq, hn0] at k2
  have e1 : constFiles p = filesOf .const tr := h1
  refine ⟨e1.trans k1, by rw [e1]; exact k2, ?_, by rw [e1]; exact k3, ?_⟩
  · rw [segments_partition, show numFrames tr = n from hn]
  · intro seg _ init last he
    exact chunksOf_full (c.proc.maxF + 1) (Nat.succ_pos _) seg init last he

/-- … with the right-hand side read off the ops of the history alone: `opSegments c gs` is a fold over the kinds
of the ops (test request / `clear` / rejected frame / accepted frame) and mentions neither the gates nor the
detector nor the throttle -/
theorem pipe_c17_continuous_ops (c : PipeCfg) (hK : 0 < c.proc.K) (hc : c.proc.constOn = true) (gs : List GOp) :
    constFiles (runG F c gs) = (opSegments c gs).flatMap (chunksOf (c.proc.maxF + 1)) := by
  rw [← segments_evsG (F := F) c (PState.init c.proc) gs]
  exact (pipe_c17_continuous (F := F) c hK hc gs).1

/-- recorder off: there is no continuous file -/
theorem pipe_c17_continuous_off (c : PipeCfg) (hK : 0 < c.proc.K) (hc : c.proc.constOn = false) (gs : List GOp) :
    constFiles (runG F c gs) = [] := by
  obtain ⟨h1, _, _, _, hcl, _, _⟩ := pipe_sink_files (F := F) c hK gs
  have hcl0 : ∀ e ∈ (evsG F c gs).filter notReq, cleanEv e = true :=
    fun e he => hcl e (List.mem_filter.mp he).1
  have hsp0 : spacedFrom (c.proc.testLast + 1) none ((evsG F c gs).filter notReq) = true :=
    spacedFrom_noReq _ _ _ (fun e he => (List.mem_filter.mp he).2)
  have k := (c17_files c.proc hK _ hcl0 hsp0).2.1 hc
  rw [← filesOf_const_dropReq c.proc _ hcl] at k
  exact h1.trans k

/-- **independence of the recording window and the disk check, made explicit**: two histories with the same
socket items and test requests in the same order, and arbitrary — different — gate values at every step, have
the same continuous files and the same test files (no hypothesis on the spacing of the requests, throttle on
or off) -/
theorem pipe_c17_gates_independent (c : PipeCfg) (hK : 0 < c.proc.K) (gs gs' : List GOp)
    (h : gs.map (·.op) = gs'.map (·.op)) :
    constFiles (runG F c gs) = constFiles (runG F c gs') ∧ testFiles (runG F c gs) = testFiles (runG F c gs') := by
  have hk := evsG_kinds_of_ops (F := F) c gs gs' h
  have hcl := evsG_clean (F := F) c gs
  have hcl' := evsG_clean (F := F) c gs'
  have hC := constAcc_shape c.proc (evsG F c gs) (evsG F c gs') (PState.init c.proc) (PState.init c.proc) {}
    ⟨rfl, rfl⟩ hk (fun e he => (cleanEv_split e (hcl e he)).1) (fun e he => (cleanEv_split e (hcl' e he)).1)
  have hT := testAcc_shape c.proc (evsG F c gs) (evsG F c gs') (PState.init c.proc) (PState.init c.proc) {}
    ⟨rfl, rfl, rfl, rfl⟩ hk (fun e he => (cleanEv_split e (hcl e he)).2) (fun e he => (cleanEv_split e (hcl' e he)).2)
  rw [constFiles_eq c hK gs, constFiles_eq c hK gs', testFiles_eq c hK gs, testFiles_eq c hK gs']
  simp only [filesOf, closedFilesOf, openFileOf, fileAcc_accFrom, hC, hT]
  exact ⟨trivial, trivial⟩

/-! ## (2) test recordings -/

/-- **C17, test recordings, at pipeline level.**  If between two test requests at least `testLast + 1` frames
are accepted (`spacedFrom` on the induced events; see `pipe_c17_test_ops` for the condition on the history
itself): there is one test file per test start (the first frame accepted after a request), in order; the file
of start `a` is `a, a+1, …`, `testLast + 1` ids, cut short only by the end of the history; every finished test
file has exactly `testLast + 1` consecutive frames beginning with the first frame accepted after its request.
Throttle on or off, any gates, any motion. -/
theorem pipe_c17_test (c : PipeCfg) (hK : 0 < c.proc.K) (gs : List GOp)
    (hsp : spacedFrom (c.proc.testLast + 1) none (evsG F c gs) = true) :
    let p := runG F c gs
    let tr := PState.trace c.proc (PState.init c.proc) (evsG F c gs)
    let n := p.accepted.length
    testFiles p = (testStarts tr).map (fun a => List.range' a (min (c.proc.testLast + 1) (n - a))) ∧
    (∀ r ∈ closedFilesOfKind .test p, ∃ a ∈ testStarts tr, a + (c.proc.testLast + 1) ≤ n ∧
      r = List.range' a (c.proc.testLast + 1)) ∧
    (∀ r ∈ closedFilesOfKind .test p, r.length = c.proc.testLast + 1) := by
  intro p tr n
  obtain ⟨_, h2, _, h4, hcl, _, _⟩ := pipe_sink_files (F := F) c hK gs
  have hn0 : ((evsG F c gs).filter Ev.isFrame).length = n := (pik_runG (F := F) c hK gs).2.2.2
  obtain ⟨_, _, k1, k2, _⟩ := c17_files c.proc hK _ hcl hsp
  rw [hn0] at k1 k2
  have e2 : testFiles p = filesOf .test tr := h2
  have e4 : closedFilesOfKind .test p = closedFilesOf .test tr := h4
  refine ⟨e2.trans k1, by rw [e4]; exact k2, ?_⟩
  intro r hr
  rw [e4] at hr
  obtain ⟨a, _, _, rfl⟩ := k2 r hr
  simp

/-- … with hypothesis and right-hand side read off the ops of the history alone (`reqsSpacedG`, `reqStarts`:
folds over the kinds of the ops) -/
theorem pipe_c17_test_ops (c : PipeCfg) (hK : 0 < c.proc.K) (gs : List GOp)
    (hsp : reqsSpacedG c (c.proc.testLast + 1) gs = true) :
    let p := runG F c gs
    let n := p.accepted.length
    testFiles p = (reqStarts c gs).map (fun a => List.range' a (min (c.proc.testLast + 1) (n - a))) ∧
    (∀ r ∈ closedFilesOfKind .test p, ∃ a ∈ reqStarts c gs, a + (c.proc.testLast + 1) ≤ n ∧
      r = List.range' a (c.proc.testLast + 1)) := by
  intro p n
  have h := pipe_c17_test (F := F) c hK gs (by rw [spaced_evsG]; exact hsp)
  simp only [testStarts_evsG] at h
  exact ⟨h.1, h.2.1⟩

/-! ## (3) a test request does not disturb a motion recording -/

/-- **"without disturbing a motion recording in progress".**  Take any history and delete all its test requests
(`dropReqs gs`).  Both histories end with the same motion files and the same continuous files — as full
`RecFile`s: frames, closed flag, header —, the same detector and throttle state, the same accepted frames and
counters, and a processor state that differs in the three snapshot fields (`startSnap`, `snapRec`, `snapFrames`)
only: in particular `isRec`, `framesWritten`, `writeUntil`, `triggered` and the frame ring of a motion recording
in progress are untouched.  No hypothesis: any configuration, throttle on or off, any gates, any spacing. -/
theorem pipe_c17_test_undisturbed (c : PipeCfg) (gs : List GOp) :
    let p := runG F c gs
    let p' := runG F c (dropReqs gs)
    motionFiles p = motionFiles p' ∧ constFiles p = constFiles p' ∧
    kf .motion p.files = kf .motion p'.files ∧ kf .const p.files = kf .const p'.files ∧
    p.det = p'.det ∧ p.thr = p'.thr ∧ p.accepted = p'.accepted ∧ p.badFrames = p'.badFrames ∧
    p.resets = p'.resets ∧
    ∃ a b k, p.proc = { p'.proc with startSnap := a, snapRec := b, snapFrames := k } := by
  intro p p'
  obtain ⟨hv, hs⟩ := sim_runG (F := F) c gs
  obtain ⟨h1, h2, _, h4, h5, h6, _⟩ := view_fields hv
  exact ⟨(view_filesOfKind hv .motion (by simp)).symm, (view_filesOfKind hv .const (by simp)).symm,
    (view_kf hv .motion (by simp)).symm, (view_kf hv .const (by simp)).symm, h1.symm, h2.symm, h4.symm, h5.symm,
    h6.symm, hs⟩

/-- in particular the motion-recording state of the processor is the same with and without the requests -/
theorem pipe_c17_test_undisturbed_proc (c : PipeCfg) (gs : List GOp) :
    let s := (runG F c gs).proc
    let s' := (runG F c (dropReqs gs)).proc
    s.isRec = s'.isRec ∧ s.framesWritten = s'.framesWritten ∧ s.writeUntil = s'.writeUntil ∧
    s.triggered = s'.triggered ∧ s.ring = s'.ring ∧ s.n = s'.n ∧ s.crFrames = s'.crFrames := by
  intro s s'
  obtain ⟨a, b, k, h⟩ := (pipe_c17_test_undisturbed (F := F) c gs).2.2.2.2.2.2.2.2.2
  have h' : s = { s' with startSnap := a, snapRec := b, snapFrames := k } := h
  rw [h']
  exact ⟨rfl, rfl, rfl, rfl, rfl, rfl, rfl⟩

end pipeline

/-! ## (4) non-vacuity -/

section examples
open TR.PipeLemmas.Tiny

/-- the tiny pipeline of `Props.Pipeline` (2×2 Boson frames, `trig = 1`, 3-slot ring, one-diff detection: every
change of scene is motion) with the continuous recorder on, files of `maxF + 1 = 4` frames, test recordings of
`testLast + 1 = 2` frames -/
private def cC : PipeCfg := { c0 with proc := { c0.proc with constOn := true, maxF := 3, testLast := 1 } }

private def it (window disk : Bool) (i : Socket.Item) : GOp := ⟨window, disk, .item i⟩
private def rq (window disk : Bool) : GOp := ⟨window, disk, .testReq⟩

/-- frames 0–3 with the window closed part of the time (motion at 2 and 3, no start); frame 4: window open,
motion, a motion recording starts with its pre-trigger frames 2, 3; a test request while it runs; frames 5, 6
(the test recording; the motion recording ends with frame 6 by the length rule); a rejected frame ends the
continuous file; frames 7, 8 with the window closed / the disk check failing; a second request (window
closed); frames 9, 10, 11 -/
private def hist : List GOp :=
  [it true true cold, it false true cold, it false true hot, it false true cold, it true true hot,
   rq true true, it true true cold, it true true hot, it true true badf, it false true cold, it true false hot,
   rq false true, it false false cold, it true true cold, it true true cold]

example : cC.proc.constOn = true ∧ 0 < cC.proc.K ∧ cC.throttle = false := by decide

/-- the kinds of the induced events; the requests are spaced -/
example : opKinds cC hist =
    [.frame, .frame, .frame, .frame, .frame, .testReq, .frame, .frame, .bad, .frame, .frame, .testReq, .frame,
     .frame, .frame] ∧
    reqsSpacedG cC (cC.proc.testLast + 1) hist = true ∧
    opSegments cC hist = [[0, 1, 2, 3, 4, 5, 6], [7, 8, 9, 10, 11]] ∧ reqStarts cC hist = [5, 9] := by decide

set_option maxRecDepth 40000 in
/-- twelve accepted frames; continuous files of four frames, cut at the rejected frame, the last one open; two
test files of two frames, the first recorded DURING the motion recording 2–6; one motion file, started only
when the window was open -/
example :
    (runG F0 cC hist).accepted.length = 12 ∧
    constFiles (runG F0 cC hist) = [[0, 1, 2, 3], [4, 5, 6], [7, 8, 9, 10], [11]] ∧
    testFiles (runG F0 cC hist) = [[5, 6], [9, 10]] ∧
    closedFilesOfKind .test (runG F0 cC hist) = [[5, 6], [9, 10]] ∧
    motionFiles (runG F0 cC hist) = [[2, 3, 4, 5, 6]] := by decide

set_option maxRecDepth 40000 in
/-- the motion recording is in progress when the first request arrives and while the test file is written -/
example : (List.range 10).map (fun i => (runG F0 cC (hist.take i)).proc.isRec) =
    [false, false, false, false, false, true, true, true, false, false] := by decide

set_option maxRecDepth 40000 in
/-- without the requests: the same motion and continuous files, no test file -/
example :
    motionFiles (runG F0 cC (dropReqs hist)) = [[2, 3, 4, 5, 6]] ∧
    constFiles (runG F0 cC (dropReqs hist)) = [[0, 1, 2, 3], [4, 5, 6], [7, 8, 9, 10], [11]] ∧
    testFiles (runG F0 cC (dropReqs hist)) = [] := by decide

/-- the same ops with all gates open -/
private def hist' : List GOp := hist.map (fun g => { g with windowOpen := true, diskOk := true })

example : hist'.map (·.op) = hist.map (·.op) := rfl

set_option maxRecDepth 40000 in
/-- all gates open instead: the continuous and the test files are the same, the motion files are not -/
example :
    constFiles (runG F0 cC hist') = [[0, 1, 2, 3], [4, 5, 6], [7, 8, 9, 10], [11]] ∧
    testFiles (runG F0 cC hist') = [[5, 6], [9, 10]] ∧
    motionFiles (runG F0 cC hist') ≠ motionFiles (runG F0 cC hist) := by decide

/-- the same with the throttle and a three-frame bucket -/
private def cCT : PipeCfg := { cC with throttle := true, bucketFrames := 3, minLenFrames := 1 }

set_option maxRecDepth 40000 in
/-- the throttle cuts the motion recording after three frames; the continuous and the test files do not notice -/
example :
    constFiles (runG F0 cCT hist) = [[0, 1, 2, 3], [4, 5, 6], [7, 8, 9, 10], [11]] ∧
    testFiles (runG F0 cCT hist) = [[5, 6], [9, 10]] ∧
    motionFiles (runG F0 cCT hist) = [[2, 3, 4]] ∧
    motionFiles (runG F0 cCT (dropReqs hist)) = [[2, 3, 4]] := by decide

set_option maxRecDepth 40000 in
/-- **the spacing hypothesis of `pipe_c17_test` is needed**: a second request one frame after the first is
swallowed (`processSnapshot` clears `startSnap` while a test recording runs) — one test file, although `reqStarts`
lists two starts -/
example :
    let h : List GOp := [rq true true, it true true cold, rq true true, it true true cold, it true true cold]
    reqsSpacedG cC (cC.proc.testLast + 1) h = false ∧ reqStarts cC h = [0, 1] ∧
    testFiles (runG F0 cC h) = [[0, 1]] := by decide

end examples

end TR.PipeC17
