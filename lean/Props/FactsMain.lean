import Generated.Facts
/-! # Source facts about the recorder daemon's `runMain` (C10, C14) — re-extracted by tools/gofacts at every check -/
namespace TR.FactsMain
open Facts

/-- C10 / C14: the recorder's `runMain` reads the configuration, starts the service, cleans up the OUTPUT directory
once, before the first camera connection is accepted, and then serves one connection at a time: the listener is
closed (not deferred) before `handleConn` runs on the accepted connection with the parsed configuration -/
theorem run_main_skeleton : runMainSkeleton =
    "ParseConfig(args.ConfigDir);startService(conf.OutputDir);deleteTempFiles(conf.OutputDir);for{;os.Remove(conf.FrameInput);net.Listen(\"unix\",conf.FrameInput);listener.Accept();listener.Close();handleConn(conn,conf);}" := rfl

end TR.FactsMain
