import Generated.Facts
/-! # Source facts — C07 C08 C09: the FFC period (re-extracted by tools/gofacts at every check; one small module per concern so
that a rewrite of one function re-opens only the obligations of the properties that depend on it) -/
namespace TR.FactsProc
open Facts

/-- C09: frames within 10 s after an FFC are "affected" -/
theorem ffc_period : ffcPeriodNs = 10 * 1000000000 ∧ ffcTest = "f.Status.TimeOn-f.Status.LastFFCTime < ffcPeriod" := by decide

end TR.FactsProc
