import Props.C04
import Proofs.C04Spec
/-!
# C04, de-monitored — acceptance by `monC04` IS the start rule, position by position

`Props.C04` states C04 through the executable monitor `monC04` (a fold of the state machine `M4.step`).
Here the monitor is taken out of the trusted reading.  The definitions (`Proofs.C04Spec`) do not mention it:

* `Step.startsRec` — the step is a FRAME event whose observations contain a successful `StartRecording` on
  the motion sink; `Step.endsRec` — the step is a frame event whose observations contain a `StopRecording`
  on the motion sink, or a rejected frame, or a camera reset (never a test-recording request);
* `openBefore tr i` — a motion recording is open before step `i`.  A fold (`(o || startsRec) && !endsRec`),
  and in words (`openBefore_spec`): some earlier step begins a recording and neither that step nor any step
  after it (before `i`) ends one;
* `runBefore tr i` — the number of consecutive motion frames immediately before step `i`.  A fold
  (`runBefore_step`: back to 0 at a step that `resetsRun` — a frame without motion or the end of a
  recording —, plus one at a frame with motion, unchanged otherwise), and in words (`runBefore_spec`): the
  number of motion frames after the last step that ended a run;
* `attempt trig tr i motion` — a start attempt is due at the frame step `i` with motion bit `motion`
  (`attempt_iff`): no recording is open before it, the frame shows motion and `trig ≤ runBefore tr i + 1`;
* `StartRule trig tr` — for every position `i` whose event is `.frame motion f`:
  (a) `hasStartOk obs ↔ attempt ∧ f.win ∧ f.can ∧ f.mStart`,
  (b) `hasCan obs → attempt ∧ f.win`,
  (c) `hasStartAny obs → attempt ∧ f.win ∧ f.can`.
  (`hasStartOk_iff` … `hasCan_iff` read the four observation tests as membership statements.)

`monC04_iff`: for EVERY trace (the model's or one recorded from the real code) the monitor reports nothing
iff `StartRule` holds.  `c04_start_rule`: hence the model's traces obey it, for every configuration, every
event list and every fault placement.  The user-facing consequences (`no_start_outside_window`,
`no_start_without_motion`, `no_start_while_recording`, `start_needs_motion_run`, `start_when_due`,
`refused_attempt_retries`, `retry_starts`) are derived from `StartRule` and the definitions alone.

Corners:
* observations attached to events that are not frames are outside the rule, as they are outside the monitor:
  a successful start observed on a bad frame / reset / test request neither opens a recording in
  `openBefore` nor is it forbidden here (C13 forbids it on bad frames, C12 constrains the call order);
* a frame step that both begins and ends a recording (start and stop in the same observations) leaves no
  recording open and resets the run;
* a bad frame or reset resets the run only if a recording was open.
-/
namespace TR.C04Spec
open TR

/-! ## generic: any trace -/

/-- **The C04 monitor accepts exactly the traces that obey the plain start rule.** -/
theorem monC04_iff (trig : Nat) (tr : List Step) : monC04 trig tr = [] ↔ StartRule trig tr :=
  monC04_iff' trig tr

/-- soundness alone: what an accepted trace looks like -/
theorem monC04_sound (trig : Nat) (tr : List Step) (hacc : monC04 trig tr = []) : StartRule trig tr :=
  (monC04_iff trig tr).mp hacc

/-- completeness alone: the monitor raises no false alarm -/
theorem monC04_complete (trig : Nat) (tr : List Step) (h : StartRule trig tr) : monC04 trig tr = [] :=
  (monC04_iff trig tr).mpr h

/-- the state the monitor keeps is (`openAfter`, `runAfter`) of the steps processed so far -/
theorem monitor_state (trig : Nat) (tr : List Step) :
    (tr.foldl (M4.step trig) {}).openRec = openAfter tr ∧ (tr.foldl (M4.step trig) {}).run = runAfter tr :=
  fold_state trig tr {}

/-! ### the observation tests, read as membership -/

theorem hasStartOk_iff (obs : List Obs) :
    hasStartOk obs = true ↔ Obs.call .motion .start true ∈ obs := by
  simp only [hasStartOk, List.any_eq_true]
  constructor
  · rintro ⟨o, hm, h⟩
    split at h
    · exact hm
    · cases h
  · intro hm; exact ⟨_, hm, rfl⟩

theorem hasStartAny_iff (obs : List Obs) :
    hasStartAny obs = true ↔ ∃ ok, Obs.call .motion .start ok ∈ obs := by
  simp only [hasStartAny, List.any_eq_true]
  constructor
  · rintro ⟨o, hm, h⟩
    split at h
    · exact ⟨_, hm⟩
    · cases h
  · rintro ⟨ok, hm⟩; exact ⟨_, hm, rfl⟩

theorem hasCan_iff (obs : List Obs) :
    hasCan obs = true ↔ ∃ ok, Obs.call .motion .can ok ∈ obs := by
  simp only [hasCan, List.any_eq_true]
  constructor
  · rintro ⟨o, hm, h⟩
    split at h
    · exact ⟨_, hm⟩
    · cases h
  · rintro ⟨ok, hm⟩; exact ⟨_, hm, rfl⟩

theorem hasStop_iff (obs : List Obs) :
    hasStop obs = true ↔ ∃ ok, Obs.call .motion .stop ok ∈ obs := by
  simp only [hasStop, List.any_eq_true]
  constructor
  · rintro ⟨o, hm, h⟩
    split at h
    · exact ⟨_, hm⟩
    · cases h
  · rintro ⟨ok, hm⟩; exact ⟨_, hm, rfl⟩

/-! ### `openBefore`, `runBefore`, `attempt` in words -/

/-- **`openBefore` in words**: a motion recording is open before step `i` iff some step before `i` begins one
(frame event with a successful start) and neither that step nor any later step before `i` ends one (stop on
a frame event, bad frame, reset) -/
theorem openBefore_spec (tr : List Step) (i : Nat) :
    openBefore tr i = true ↔
      ∃ pre st post, tr.take i = pre ++ st :: post ∧ st.startsRec = true ∧
        ∀ s ∈ st :: post, s.endsRec = false :=
  openAfter_iff (tr.take i)

/-- `openBefore`, one step at a time -/
theorem openBefore_step (tr : List Step) (i : Nat) (h : i < tr.length) :
    openBefore tr 0 = false ∧
    openBefore tr (i + 1) = ((openBefore tr i || tr[i].startsRec) && !tr[i].endsRec) :=
  ⟨rfl, openBefore_succ tr i h⟩

/-- `runBefore`, one step at a time: 0 after a step that ends the run (a frame without motion, or the end of
a recording), one more after a frame with motion, unchanged otherwise -/
theorem runBefore_step (tr : List Step) (i : Nat) (h : i < tr.length) :
    runBefore tr 0 = 0 ∧
    runBefore tr (i + 1) =
      if resetsRun (openBefore tr i) tr[i] then 0
      else if tr[i].ev.motion then runBefore tr i + 1 else runBefore tr i :=
  ⟨rfl, runBefore_succ tr i h⟩

/-- **`runBefore` in words**: there is a position `j ≤ i` — 0 or one past a step that ended a run — such that
no step `j ≤ k < i` ends the run, and `runBefore tr i` is the number of motion frames among those steps -/
theorem runBefore_spec (tr : List Step) (i : Nat) (hi : i ≤ tr.length) :
    ∃ j, j ≤ i ∧ (j = 0 ∨ resetsAt tr (j - 1) = true) ∧ (∀ k, j ≤ k → k < i → resetsAt tr k = false) ∧
      runBefore tr i = motionFrames tr j i :=
  runBefore_exists tr i hi

/-- … and any such position gives the same count -/
theorem runBefore_eq_count (tr : List Step) (j i : Nat) (hj : j = 0 ∨ resetsAt tr (j - 1) = true)
    (hji : j ≤ i) (hi : i ≤ tr.length) (hno : ∀ k, j ≤ k → k < i → resetsAt tr k = false) :
    runBefore tr i = motionFrames tr j i :=
  runBefore_count tr j hj i hji hi hno

/-- what "step `k` does not end the run" means at a frame step: the frame shows motion, and if its
observations contain a stop then no recording was open and none begins at it -/
theorem noReset_frame (tr : List Step) (k : Nat) (hk : k < tr.length) (h : resetsAt tr k = false)
    (motion : Bool) (f : Faults) (he : tr[k].ev = .frame motion f) :
    motion = true ∧ (hasStop tr[k].obs = true → openBefore tr k = false ∧ hasStartOk tr[k].obs = false) := by
  rw [resetsAt_eq tr k hk] at h
  simp only [resetsRun, Step.startsRec, Step.endsRec, he, Ev.isFrame, Ev.motion, Bool.true_and,
    Bool.or_eq_false_iff, Bool.not_eq_false', Bool.and_eq_false_iff] at h
  refine ⟨h.1, fun hs => ?_⟩
  rcases h.2 with h2 | h2
  · exact h2
  · rw [hs] at h2; cases h2

theorem attempt_iff (trig : Nat) (tr : List Step) (i : Nat) (motion : Bool) :
    attempt trig tr i motion = true ↔
      openBefore tr i = false ∧ motion = true ∧ trig ≤ runBefore tr i + 1 :=
  attemptB_iff trig _ _ motion

/-! ### consequences of `StartRule` alone -/

section consequences
variable {trig : Nat} {tr : List Step}

/-- everything a successful start implies -/
theorem start_conditions (h : StartRule trig tr) (i : Nat) (hi : i < tr.length) (motion : Bool) (f : Faults)
    (he : tr[i].ev = .frame motion f) (hs : hasStartOk tr[i].obs = true) :
    motion = true ∧ openBefore tr i = false ∧ trig ≤ runBefore tr i + 1 ∧
      f.win = true ∧ f.can = true ∧ f.mStart = true := by
  obtain ⟨ha, hw, hc, hm⟩ := (h i hi motion f he).1.mp hs
  obtain ⟨h1, h2, h3⟩ := (attempt_iff trig tr i motion).mp ha
  exact ⟨h2, h1, h3, hw, hc, hm⟩

/-- **no recording starts outside the window** -/
theorem no_start_outside_window (h : StartRule trig tr) (i : Nat) (hi : i < tr.length) (motion : Bool)
    (f : Faults) (he : tr[i].ev = .frame motion f) (hs : hasStartOk tr[i].obs = true) : f.win = true :=
  (start_conditions h i hi motion f he hs).2.2.2.1

/-- **no recording starts without motion** -/
theorem no_start_without_motion (h : StartRule trig tr) (i : Nat) (hi : i < tr.length) (motion : Bool)
    (f : Faults) (he : tr[i].ev = .frame motion f) (hs : hasStartOk tr[i].obs = true) : motion = true :=
  (start_conditions h i hi motion f he hs).1

/-- **no recording starts while one is open** -/
theorem no_start_while_recording (h : StartRule trig tr) (i : Nat) (hi : i < tr.length) (motion : Bool)
    (f : Faults) (he : tr[i].ev = .frame motion f) (hs : hasStartOk tr[i].obs = true) :
    openBefore tr i = false :=
  (start_conditions h i hi motion f he hs).2.1

/-- no recording starts when the recorder reports it cannot record, or when its start fails -/
theorem no_start_despite_disk_check (h : StartRule trig tr) (i : Nat) (hi : i < tr.length) (motion : Bool)
    (f : Faults) (he : tr[i].ev = .frame motion f) (hs : hasStartOk tr[i].obs = true) :
    f.can = true ∧ f.mStart = true :=
  (start_conditions h i hi motion f he hs).2.2.2.2

/-- **a recording starts only on the `trig`-th consecutive motion frame or later**: there is a stretch of
steps `j ≤ k < i` none of which ends the run (so every frame among them shows motion, `noReset_frame`)
containing at least `trig - 1` motion frames -/
theorem start_needs_motion_run (h : StartRule trig tr) (i : Nat) (hi : i < tr.length) (motion : Bool)
    (f : Faults) (he : tr[i].ev = .frame motion f) (hs : hasStartOk tr[i].obs = true) :
    ∃ j, j ≤ i ∧ (∀ k, j ≤ k → k < i → resetsAt tr k = false) ∧ trig ≤ motionFrames tr j i + 1 := by
  obtain ⟨j, hji, _, hno, hr⟩ := runBefore_spec tr i (Nat.le_of_lt hi)
  have := (start_conditions h i hi motion f he hs).2.2.1
  rw [hr] at this
  exact ⟨j, hji, hno, this⟩

/-- **the "if" direction**: a motion frame that completes a run of `trig` motion frames while no recording is
open, with the window open, the disk check passing and the sink accepting the start, does start a recording -/
theorem start_when_due (h : StartRule trig tr) (i : Nat) (hi : i < tr.length) (f : Faults)
    (he : tr[i].ev = .frame true f) (ho : openBefore tr i = false) (hr : trig ≤ runBefore tr i + 1)
    (hw : f.win = true) (hc : f.can = true) (hm : f.mStart = true) : hasStartOk tr[i].obs = true :=
  (h i hi true f he).1.mpr ⟨(attempt_iff trig tr i true).mpr ⟨ho, rfl, hr⟩, hw, hc, hm⟩

/-- a due attempt starts a recording iff the window is open, the disk check passes and the start succeeds -/
theorem attempt_starts_iff (h : StartRule trig tr) (i : Nat) (hi : i < tr.length) (motion : Bool) (f : Faults)
    (he : tr[i].ev = .frame motion f) (ha : attempt trig tr i motion = true) :
    hasStartOk tr[i].obs = true ↔ (f.win = true ∧ f.can = true ∧ f.mStart = true) := by
  rw [(h i hi motion f he).1]
  exact ⟨fun h => h.2, fun h => ⟨ha, h⟩⟩

/-- the disk check is not consulted, and `StartRecording` not called, unless an attempt is due and the
window is open; `StartRecording` is not called when the disk check fails -/
theorem calls_only_when_due (h : StartRule trig tr) (i : Nat) (hi : i < tr.length) (motion : Bool) (f : Faults)
    (he : tr[i].ev = .frame motion f) :
    (hasCan tr[i].obs = true → attempt trig tr i motion = true ∧ f.win = true) ∧
    (hasStartAny tr[i].obs = true → attempt trig tr i motion = true ∧ f.win = true ∧ f.can = true) :=
  (h i hi motion f he).2

end consequences

/-! ### a refused start leaves the pipeline ready to retry (from the definitions alone) -/

/-- after a motion frame at which an attempt was due but no recording started, as long as only events
that are not frames follow (test requests, bad frames, resets), no recording is open and the run stands at
one more than before -/
theorem after_refusal (trig : Nat) (tr : List Step) (i : Nat) (hi : i < tr.length) (f : Faults)
    (he : tr[i].ev = .frame true f) (ha : attempt trig tr i true = true)
    (hns : hasStartOk tr[i].obs = false) :
    ∀ d, i + 1 + d ≤ tr.length →
      (∀ k (hk : k < tr.length), i < k → k < i + 1 + d → tr[k].ev.isFrame = false) →
      openBefore tr (i + 1 + d) = false ∧ runBefore tr (i + 1 + d) = runBefore tr i + 1 := by
  obtain ⟨ho, _, _⟩ := (attempt_iff trig tr i true).mp ha
  intro d
  induction d with
  | zero =>
    intro _ _
    rw [Nat.add_zero, openBefore_succ tr i hi, runBefore_succ tr i hi, ho]
    simp [nextOpen, nextRun, resetsRun, Step.startsRec, hns, he, Ev.isFrame, Ev.motion]
  | succ d ih =>
    intro hlen hnf
    have hk : i + 1 + d < tr.length := hlen
    obtain ⟨h1, h2⟩ := ih (Nat.le_of_lt hk) (fun k hk' a b => hnf k hk' a (Nat.lt_succ_of_lt b))
    have hfr : tr[i + 1 + d].ev.isFrame = false :=
      hnf (i + 1 + d) hk (by omega) (Nat.lt_succ_self _)
    have hmo : tr[i + 1 + d].ev.motion = false := by
      cases hev : tr[i + 1 + d].ev <;> simp_all [Ev.isFrame, Ev.motion]
    rw [← Nat.add_assoc, openBefore_succ tr _ hk, runBefore_succ tr _ hk, h1, h2]
    simp [nextOpen, nextRun, resetsRun, Step.startsRec, hfr, hmo]

/-- **a refused attempt does not reset the run**: if step `i` is a motion frame at which an attempt was due
and no recording started (window closed, disk check failed or start failed), and step `i + 1` is a motion
frame, then an attempt is due at step `i + 1` too -/
theorem refused_attempt_retries (trig : Nat) (tr : List Step) (i : Nat) (hi : i + 1 < tr.length)
    (f f' : Faults) (he : tr[i].ev = .frame true f) (ha : attempt trig tr i true = true)
    (hns : hasStartOk tr[i].obs = false) (_he' : tr[i + 1].ev = .frame true f') :
    attempt trig tr (i + 1) true = true := by
  obtain ⟨h1, h2⟩ := after_refusal trig tr i (Nat.lt_of_succ_lt hi) f he ha hns 0 (Nat.le_of_lt hi)
    (fun k _ a b => absurd a (Nat.not_lt_of_ge (Nat.le_of_lt_succ b)))
  obtain ⟨_, _, hr⟩ := (attempt_iff trig tr i true).mp ha
  exact (attempt_iff trig tr (i + 1) true).mpr ⟨h1, rfl, by rw [h2]; omega⟩

/-- the same with test requests, bad frames or resets in between: the next motion frame `k` is an attempt -/
theorem refused_attempt_retries_later (trig : Nat) (tr : List Step) (i k : Nat) (hik : i < k)
    (hk : k < tr.length) (f : Faults) (he : tr[i].ev = .frame true f) (ha : attempt trig tr i true = true)
    (hns : hasStartOk tr[i].obs = false)
    (hbetween : ∀ j (hj : j < tr.length), i < j → j < k → tr[j].ev.isFrame = false) :
    attempt trig tr k true = true := by
  obtain ⟨d, rfl⟩ := Nat.le.dest (Nat.succ_le_of_lt hik)
  obtain ⟨h1, h2⟩ := after_refusal trig tr i (by omega) f he ha hns d (Nat.le_of_lt hk) hbetween
  obtain ⟨_, _, hr⟩ := (attempt_iff trig tr i true).mp ha
  exact (attempt_iff trig tr (i + 1 + d) true).mpr ⟨h1, rfl, by rw [h2]; omega⟩

/-- … and under the rule the retry succeeds as soon as the gate opens -/
theorem retry_starts {trig : Nat} {tr : List Step} (h : StartRule trig tr) (i : Nat) (hi : i + 1 < tr.length)
    (f f' : Faults) (he : tr[i].ev = .frame true f) (ha : attempt trig tr i true = true)
    (hns : hasStartOk tr[i].obs = false) (he' : tr[i + 1].ev = .frame true f')
    (hw : f'.win = true) (hc : f'.can = true) (hm : f'.mStart = true) :
    hasStartOk tr[i + 1].obs = true :=
  (attempt_starts_iff h (i + 1) hi true f' he'
    (refused_attempt_retries trig tr i hi f f' he ha hns he')).mpr ⟨hw, hc, hm⟩

/-! ## the model -/

/-- **C04 as a plain rule.**  For every configuration, every event list and every fault placement, the
model's trace obeys `StartRule c.trig`. -/
theorem c04_start_rule (c : PCfg) (evs : List Ev) :
    StartRule c.trig (PState.trace c (PState.init c) evs) :=
  (monC04_iff _ _).mp (C04.c04_start_monitor c evs)

/-- on the model's traces `openAfter` is the processor's own `isRec` flag, and while no recording is open
`runAfter` is its `triggered` counter -/
theorem model_state (c : PCfg) (evs : List Ev) :
    openAfter (PState.trace c (PState.init c) evs) = (PState.after c (PState.init c) evs).isRec ∧
    ((PState.after c (PState.init c) evs).isRec = false →
      runAfter (PState.trace c (PState.init c) evs) = (PState.after c (PState.init c) evs).triggered) := by
  obtain ⟨h1, h2⟩ := monitor_state c.trig (PState.trace c (PState.init c) evs)
  rw [← h1, ← h2]
  exact C04.c04_monitor_tracks c evs

/-- no recording of the model starts outside the window, without motion, or while one is open -/
theorem c04_no_bad_start (c : PCfg) (evs : List Ev) (i : Nat)
    (hi : i < (PState.trace c (PState.init c) evs).length) (motion : Bool) (f : Faults)
    (he : (PState.trace c (PState.init c) evs)[i].ev = .frame motion f)
    (hs : hasStartOk (PState.trace c (PState.init c) evs)[i].obs = true) :
    f.win = true ∧ motion = true ∧ openBefore (PState.trace c (PState.init c) evs) i = false := by
  obtain ⟨h1, h2, _, h4, _⟩ := start_conditions (c04_start_rule c evs) i hi motion f he hs
  exact ⟨h4, h1, h2⟩

/-! ## non-vacuity -/

private def cfg : PCfg := { K := 3, minF := 2, maxF := 5, trig := 2, constOn := true, testLast := 2 }

/-- still frame, two motion frames, three refusals (disk check, window, failing start), a start, the
recording runs out on the next (still) frame, a second recording cut by a bad frame, a test
request, a third cut by a reset -/
private def evs : List Ev :=
  [.frame false {}, .frame true {}, .frame true { can := false }, .frame true { win := false },
   .frame true { mStart := false }, .frame true {}, .frame false {}, .frame false {}, .frame false {},
   .frame true {}, .frame true {}, .bad {}, .testReq, .frame true {}, .frame true {}, .reset {},
   .frame true {}, .frame true {}]

set_option maxRecDepth 20000 in
/-- the model's run: where recordings start, where one is open, the run lengths, the attempts -/
example :
    let tr := PState.trace cfg (PState.init cfg) evs
    tr.map (fun st => hasStartOk st.obs) =
      [false, false, false, false, false, true, false, false, false,
       false, true, false, false, false, true, false, false, true] ∧
    (List.range 19).map (openBefore tr) =
      [false, false, false, false, false, false, true, false, false, false,
       false, true, false, false, false, true, false, false, true] ∧
    (List.range 19).map (runBefore tr) =
      [0, 0, 1, 2, 3, 4, 5, 0, 0, 0, 1, 2, 0, 0, 1, 2, 0, 1, 2] ∧
    (List.range 18).map (fun i => attempt cfg.trig tr i (evs.getD i .testReq).motion) =
      [false, false, true, true, true, true, false, false, false,
       false, true, false, false, false, true, false, false, true] := by
  decide

set_option maxRecDepth 20000 in
/-- accepted by the monitor, and obeys the plain rule -/
example :
    monC04 cfg.trig (PState.trace cfg (PState.init cfg) evs) = [] ∧
    StartRule cfg.trig (PState.trace cfg (PState.init cfg) evs) := by
  decide

/-- a hand-written accepted trace: refusal by the disk check, then by a failing start, then a start; a
start and a stop on the same frame; a bad frame while nothing is open keeps the run -/
private def good : List Step :=
  [⟨.frame true {}, [.md]⟩,
   ⟨.frame true { can := false }, [.md, .call .motion .can false]⟩,
   ⟨.frame true { mStart := false }, [.md, .call .motion .can true, .call .motion .start false]⟩,
   ⟨.frame true {}, [.md, .call .motion .can true, .call .motion .start true, .rs,
      .call .motion (.write 0) true, .call .motion .stop true]⟩,
   ⟨.frame true {}, [.md]⟩,
   ⟨.bad {}, []⟩,
   ⟨.testReq, []⟩,
   ⟨.frame true { win := false }, [.md]⟩,
   ⟨.frame true {}, [.md, .call .motion .can true, .call .motion .start true]⟩,
   ⟨.frame true {}, [.md, .call .motion (.write 5) true]⟩,
   ⟨.reset {}, [.call .motion .stop true]⟩]

example :
    monC04 2 good = [] ∧ StartRule 2 good ∧
    (List.range 12).map (openBefore good) =
      [false, false, false, false, false, false, false, false, false, true, true, false] ∧
    (List.range 12).map (runBefore good) = [0, 1, 2, 3, 0, 1, 1, 1, 2, 3, 4, 0] := by
  decide

/-- a start with the window closed: rejected, and the rule fails -/
example :
    let tr : List Step := [⟨.frame true { win := false },
      [.md, .call .motion .can true, .call .motion .start true, .rs]⟩]
    monC04 1 tr ≠ [] ∧ "C04:start-outside-window" ∈ monC04 1 tr ∧ ¬ StartRule 1 tr := by decide

/-- a start on the first motion frame when two are required: rejected, and the rule fails -/
example :
    let tr : List Step := [⟨.frame true {}, [.md, .call .motion .can true, .call .motion .start true, .rs]⟩]
    "C04:start-before-trigger-frames" ∈ monC04 2 tr ∧ ¬ StartRule 2 tr ∧ StartRule 1 tr := by decide

/-- a missing start: rejected, and the rule fails -/
example :
    let tr : List Step := [⟨.frame true {}, [.md]⟩]
    monC04 1 tr = ["C04:start-missing"] ∧ ¬ StartRule 1 tr := by decide

/-- a start while a recording is open; a start on a frame without motion; a start attempt although the disk
check is dictated to fail; the disk check consulted although no attempt is due -/
example :
    ¬ StartRule 1 [⟨.frame true {}, [.call .motion .can true, .call .motion .start true]⟩,
                   ⟨.frame true {}, [.call .motion .can true, .call .motion .start true]⟩] ∧
    ¬ StartRule 0 [⟨.frame false {}, [.call .motion .can true, .call .motion .start true]⟩] ∧
    ¬ StartRule 1 [⟨.frame true { can := false }, [.call .motion .can false, .call .motion .start false]⟩] ∧
    ¬ StartRule 2 [⟨.frame true {}, [.call .motion .can true]⟩] := by decide

/-- a run interrupted by a frame without motion starts over: the start on the third frame is wrong -/
example :
    let tr : List Step :=
      [⟨.frame true {}, [.md]⟩, ⟨.frame false {}, []⟩,
       ⟨.frame true {}, [.md, .call .motion .can true, .call .motion .start true]⟩]
    runBefore tr 2 = 0 ∧ ¬ StartRule 2 tr := by decide

/-- corner: observations on events that are not frames are outside the rule (and outside the monitor) — a
start observed on a test request is accepted, and does not open a recording in `openBefore` -/
example :
    let tr : List Step := [⟨.testReq, [.call .motion .start true]⟩, ⟨.frame false {}, []⟩]
    monC04 1 tr = [] ∧ StartRule 1 tr ∧ openBefore tr 1 = false := by decide

end TR.C04Spec
