import Proofs.ProcProto03
/-!
# C04 — a recording starts iff motion persisted, the window is open and storage is OK

Quantifier: every configuration (any `trig`, `minF`, `maxF`, ring capacity, continuous recorder on/off),
every finite list of events (motion / still / rejected frames, resets, test-recording requests) and
every placement of environment faults (window closed, disk check failing, `StartRecording` failing,
any write or stop failing on any sink).
-/
namespace TR.C04
open TR TR.PState TR.P03

/-- **C04.** A recording starts iff no recording is active, the frame completes a run of ≥ `trig` motion
frames, the window is open, the disk check passes and the file can be created — for every event list and
EVERY fault placement; the disk check / `StartRecording` are consulted exactly when the earlier
conditions hold. -/
theorem c04_start_monitor (c : PCfg) (evs : List Ev) :
    monC04 c.trig (PState.trace c (PState.init c) evs) = [] :=
  (i4_trace c evs (PState.init c) {} (i4_init c)).fails

/-- the monitor's view of the state agrees with the model after every event list: it knows whether a
recording is open and, while none is, the length of the current motion run -/
theorem c04_monitor_tracks (c : PCfg) (evs : List Ev) :
    ((PState.trace c (PState.init c) evs).foldl (M4.step c.trig) {}).openRec
      = (PState.after c (PState.init c) evs).isRec ∧
    ((PState.after c (PState.init c) evs).isRec = false →
      ((PState.trace c (PState.init c) evs).foldl (M4.step c.trig) {}).run
        = (PState.after c (PState.init c) evs).triggered) :=
  ⟨(i4_trace c evs (PState.init c) {} (i4_init c)).openEq, (i4_trace c evs (PState.init c) {} (i4_init c)).runEq⟩

/-- **Start condition, stated on the model.** From ANY state, a frame event makes a successful
`StartRecording` call iff no recording is active, the frame shows motion, it is at least the `trig`-th
motion frame in a row, the window is open, the disk check passes and the sink accepts the start. -/
theorem c04_start_iff (c : PCfg) (s : PState) (motion : Bool) (f : Faults) :
    hasStartOk (PState.step c s (.frame motion f)).2 = true ↔
      s.isRec = false ∧ motion = true ∧ c.trig ≤ s.triggered + 1 ∧ f.win = true ∧ f.can = true ∧
        f.mStart = true := by
  rw [(frame_summary c s motion f).1]
  rw [starts_pre]
  simp only [starts, attempt, Bool.and_eq_true, Bool.not_eq_true', decide_eq_true_eq, and_assoc]

/-- **After a refused start the very next motion frame retries**: a refusal (window closed, disk check
failed, or `StartRecording` failed) does not reset the motion run, and no recording is open. -/
theorem c04_refusal_keeps_run (c : PCfg) (s : PState) (f : Faults)
    (hrec : s.isRec = false) (_htrig : c.trig ≤ s.triggered + 1)
    (hgate : f.win = false ∨ f.can = false ∨ f.mStart = false) :
    (PState.step c s (.frame true f)).1.triggered = s.triggered + 1 ∧
    (PState.step c s (.frame true f)).1.isRec = false ∧
    hasStartOk (PState.step c s (.frame true f)).2 = false := by
  obtain ⟨h1, _, h3, h4, _, _⟩ := frame_summary c s true f
  have hs : starts c (pre s) true f = false := by
    rw [starts_pre]; unfold starts
    rcases hgate with h | h | h <;> simp [h]
  have hr : rec1 c (pre s) true f = false := by rw [rec1, hs]; simp [pre, hrec]
  have hst : stops c (pre s) true f = false := by simp [stops, hr]
  rw [h1, h3, h4, hs, hr, hst]
  simp

/-- … and the retry succeeds as soon as the gate opens: the next motion frame starts a recording. -/
theorem c04_retry_starts (c : PCfg) (s : PState) (f g : Faults)
    (hrec : s.isRec = false) (htrig : c.trig ≤ s.triggered + 1)
    (hgate : f.win = false ∨ f.can = false ∨ f.mStart = false)
    (hopen : g.win = true ∧ g.can = true ∧ g.mStart = true) :
    hasStartOk (PState.step c (PState.step c s (.frame true f)).1 (.frame true g)).2 = true := by
  obtain ⟨h1, h2, _⟩ := c04_refusal_keeps_run c s f hrec htrig hgate
  rw [c04_start_iff]
  refine ⟨h2, rfl, ?_, hopen.1, hopen.2.1, hopen.2.2⟩
  rw [h1]; omega

/-! ## Non-vacuity: the monitor rejects wrong traces, and the model does start / refuse recordings -/

/-- a start on the first motion frame when two are required is rejected by the monitor -/
example : "C04:start-before-trigger-frames" ∈
    monC04 2 [⟨.frame true {}, [.md, .call .motion .can true, .call .motion .start true, .rs]⟩] := by decide
/-- a missing start is rejected by the monitor -/
example : monC04 1 [⟨.frame true {}, [.md]⟩] = ["C04:start-missing"] := by decide
/-- a start with the window closed is rejected by the monitor -/
example : "C04:start-outside-window" ∈ monC04 1 [⟨.frame true { win := false },
    [.md, .call .motion .can true, .call .motion .start true, .rs]⟩] := by decide

/-- the model starts a recording on the second motion frame … -/
example (c : PCfg) (hc : c = { K := 3, minF := 2, maxF := 5, trig := 2, constOn := true, testLast := 2 }) :
    (PState.trace c (PState.init c) [.frame true {}, .frame true {}]).map (fun st => hasStartOk st.obs)
    = [false, true] := by
  subst hc; decide
/-- … refuses while the disk check fails, and starts on the very next motion frame once it passes -/
example (c : PCfg) (hc : c = { K := 3, minF := 2, maxF := 5, trig := 2, constOn := true, testLast := 2 }) :
    (PState.trace c (PState.init c)
      [.frame true {}, .frame true { can := false }, .frame true {}]).map (fun st => hasStartOk st.obs)
    = [false, false, true] := by
  subst hc; decide

end TR.C04
