import Proofs.DetC07
/-!
# C07 — with a fixed threshold and no FFC the detector reports motion exactly per the specification

Quantifier: every resolution, edge width and frame-compare gap (0 included: the floored ring has
capacity gap + 1 ≥ 1), every delta threshold, every count threshold ≥ 1, warmer-only or absolute
differences, one-diff or two-diff mode, every list of `Detect` / `Reset` events in which no frame
is FFC-affected, and every instance of the floating-point parameter (it is never consulted when
`dynamic = false`).

Specification (`TR/DetSpec.lean`): frame `n` of an epoch (frames since start-up / last `Reset`) is
compared with frame `n − gap` of the same epoch (the first one while fewer exist); motion is
reported iff `n ≥ 1` and at least `countThresh` interior pixels exceed `deltaThresh` in this diff
(and, unless one-diff, in the previous frame's diff too).
-/
namespace TR.C07
open TR

/-- **C07.** With a fixed threshold and no FFC-affected frame, the detector reports motion exactly
per the declarative specification — for every resolution, edge, gap, every threshold configuration
with countThresh ≥ 1, every frame sequence with resets anywhere, and every instance of the
floating-point parameter. -/
theorem c07_fixed_threshold (F : FloatOps) (c : DCfg) (hdyn : c.dynamic = false)
    (hcount : 1 ≤ c.countThresh) (evs : List DEv) (hnoffc : ∀ e ∈ evs, e.ffc = false) :
    Det.outputs c (Det.init F c) evs = specOutputs c (fun _ => Det.zeroFrame) 0 evs :=
  DetC07.outputs_eq c hdyn hcount evs hnoffc _ _ _ (DetC07.inv_init F c)

/-- **C07, first frame of the stream.** The very first frame is never reported as motion — for
every configuration (dynamic or not, any count threshold) and whether or not it is FFC-affected. -/
theorem c07_first_frame_no_motion (F : FloatOps) (c : DCfg) (f : Frame) (ffc : Bool)
    (es : List DEv) :
    Det.outputs c (Det.init F c) (.frame f ffc :: es) =
      false :: Det.outputs c (Det.detect c (Det.init F c) f ffc).1 es := by
  simp only [Det.outputs, Det.stepEv]
  rw [DetC07.detect_first_false c _ f ffc rfl]

/-- **C07, first frame after a reset.** After any FFC-free prefix, the first frame following a
`Reset` is never reported as motion: its verdict in the output list is `false`. -/
theorem c07_first_after_reset_no_motion (F : FloatOps) (c : DCfg) (hdyn : c.dynamic = false)
    (hcount : 1 ≤ c.countThresh) (pre : List DEv) (hnoffc : ∀ e ∈ pre, e.ffc = false)
    (f : Frame) (post : List DEv) :
    Det.outputs c (Det.init F c) (pre ++ .reset :: .frame f false :: post) =
      Det.outputs c (Det.init F c) pre ++
        false :: Det.outputs c (Det.after c (Det.init F c) (pre ++ [.reset, .frame f false])) post := by
  obtain ⟨h, n, inv⟩ := DetC07.after_inv c hdyn hcount pre hnoffc _ _ _ (DetC07.inv_init F c)
  rw [DetC07.outputs_append, DetC07.after_append]
  simp only [Det.outputs, Det.stepEv, Det.after]
  rw [DetC07.first_after_reset c hdyn hcount _ h n inv f]

/-- the same, on the detector call itself -/
theorem c07_detect_after_reset_no_motion (F : FloatOps) (c : DCfg) (hdyn : c.dynamic = false)
    (hcount : 1 ≤ c.countThresh) (pre : List DEv) (hnoffc : ∀ e ∈ pre, e.ffc = false)
    (f : Frame) :
    (Det.detect c (Det.after c (Det.init F c) pre).reset f false).2 = false := by
  obtain ⟨h, n, inv⟩ := DetC07.after_inv c hdyn hcount pre hnoffc _ _ _ (DetC07.inv_init F c)
  exact DetC07.first_after_reset c hdyn hcount _ h n inv f

/-- **C07, the threshold is fixed.** With `dynamic = false` the temperature threshold is the
configured one after any events whatsoever (FFC-affected frames and resets included). -/
theorem c07_tempThresh_fixed (F : FloatOps) (c : DCfg) (hdyn : c.dynamic = false)
    (evs : List DEv) : (Det.after c (Det.init F c) evs).tempThresh = c.tempThresh := by
  rw [DetC07.after_tempThresh c hdyn evs]
  rfl

/-! ### Non-vacuity -/

/-- a trivial instance of the floating-point parameter -/
def unitOps : FloatOps :=
  { ω := Unit, w0 := (), lower := fun _ _ _ => false, bump := fun _ => (),
    α := Unit, a0 := (), add := fun _ _ _ => (), trunc := fun _ => 0 }

/-- 2×2 sensor, no edge, gap 1, two-diff mode, fixed threshold -/
def cfg2 : DCfg :=
  { resX := 2, resY := 2, edge := 0, gap := 1, useOneDiff := false, deltaThresh := 3,
    countThresh := 2, tempThresh := 10, threshMin := 0, threshMax := 0, warmerOnly := false,
    dynamic := false, previewFrames := 0, ffcPeriod := 0 }

def cfgGap0 : DCfg := { cfg2 with gap := 0, useOneDiff := true }
def cfgOne : DCfg := { cfg2 with useOneDiff := true }
def cfgCount0 : DCfg := { cfg2 with countThresh := 0 }

def flat (v : Nat) : Frame := fun _ _ => v

/-- the hypotheses are satisfiable and motion is really reported: flat 20, 30, 40, reset, 50, 60, 70
gives no (first frame), no (previous diff is zero), yes, then after the reset again no, no, yes. -/
example :
    let evs := [DEv.frame (flat 20) false, .frame (flat 30) false, .frame (flat 40) false,
      .reset, .frame (flat 50) false, .frame (flat 60) false, .frame (flat 70) false]
    cfg2.dynamic = false ∧ 1 ≤ cfg2.countThresh ∧ (∀ e ∈ evs, e.ffc = false) ∧
      Det.outputs cfg2 (Det.init unitOps cfg2) evs = [false, false, true, false, false, true] := by
  decide

/-- the specification itself says the same (so `c07_fixed_threshold` is an equation between
non-trivial lists) -/
example :
    specOutputs cfg2 (fun _ => Det.zeroFrame) 0
      [DEv.frame (flat 20) false, .frame (flat 30) false, .frame (flat 40) false,
        .reset, .frame (flat 50) false, .frame (flat 60) false, .frame (flat 70) false] =
      [false, false, true, false, false, true] := by
  decide

/-- one-diff mode and gap 0: every frame is compared with itself, never any motion -/
example :
    Det.outputs cfgGap0 (Det.init unitOps cfgGap0)
      [DEv.frame (flat 20) false, .frame (flat 90) false, .frame (flat 20) false] =
      [false, false, false] := by
  decide

/-- one-diff mode, gap 1: the second frame already counts -/
example :
    Det.outputs cfgOne (Det.init unitOps cfgOne)
      [DEv.frame (flat 20) false, .frame (flat 90) false, .frame (flat 90) false] =
      [false, true, false] := by
  decide

/-- `countThresh ≥ 1` is needed: with `countThresh = 0` the model reports motion for the first
frame after a reset (count 0 ≥ 0) while the specification never does. -/
example :
    Det.outputs cfgCount0 (Det.init unitOps cfgCount0)
        [DEv.frame (flat 20) false, .reset, .frame (flat 20) false] = [false, true] ∧
      specOutputs cfgCount0 (fun _ => Det.zeroFrame) 0
        [DEv.frame (flat 20) false, .reset, .frame (flat 20) false] = [false, false] := by
  decide

end TR.C07
