import Props.C05
import TR.ProcMon
/-!
# C05, composed with the motion processor

C05 quantifies over *all* request sequences, so it covers in particular the sequences the motion
processor produces.  This file makes the instance explicit: take any event list of the processor
model (for example continuous motion), take the calls it makes on its motion sink, stamp them with any
non-decreasing clock and any outcomes of the wrapped file recorder — the throttle's trace is accepted
by the window monitor, and every window of it obeys the bucket bound.
-/
namespace TR.C05
open TR

/-- the calls the processor makes on the motion recorder, in order (`CheckCanRecord` is passed through the
throttle untouched and is not a request) -/
def motionCalls (tr : List Step) : List Call :=
  (tr.flatMap (·.obs)).filterMap fun o => match o with
    | .call .motion .can _ => none
    | .call .motion c _ => some c
    | _ => none

/-- a throttle request is *of* a processor call when it is the same kind of call (and the same frame) -/
def reqOf : TReq → Call → Prop
  | .start .., .start => True
  | .write _ id .., .write id' => id = id'
  | .stop _, .stop => True
  | _, _ => False

/-- `reqs` are the processor's calls, one request per call, with arbitrary clocks / base-recorder outcomes -/
def matchAll : List TReq → List Call → Prop
  | [], [] => True
  | r :: rs, c :: cs => reqOf r c ∧ matchAll rs cs
  | _, _ => False

def FromProcessor (c : PCfg) (evs : List Ev) (reqs : List TReq) : Prop :=
  matchAll reqs (motionCalls (PState.trace c (PState.init c) evs))

/-- **C05 composed with the real motion processor**: whatever the frame stream (any motion pattern,
continuous motion included, bad frames, resets, refusals), whatever the clock does between calls. -/
theorem c05_composed (c : PCfg) (evs : List Ev) (cap q minLen : Nat) (hc : 0 < cap) (hq : 0 < q)
    (reqs : List TReq) (_hp : FromProcessor c evs reqs) (hm : Mono 0 reqs) :
    monC05 cap q (utrace { t := TState.init cap q minLen } reqs) = [] :=
  c05_window_monitor cap q minLen hc hq reqs hm

theorem c05_composed_every_window (c : PCfg) (evs : List Ev) (cap q minLen : Nat) (hc : 0 < cap) (hq : 0 < q)
    (reqs : List TReq) (_hp : FromProcessor c evs reqs) (hm : Mono 0 reqs) (i j : Nat) (hij : i ≤ j)
    (hj : j < (tickFwd 0 (utrace { t := TState.init cap q minLen } reqs)).length) :
    fwdSum (((tickFwd 0 (utrace { t := TState.init cap q minLen } reqs)).drop i).take (j - i + 1))
      ≤ cap + 1 + q * ((tickFwd 0 (utrace { t := TState.init cap q minLen } reqs))[j].1
          - ((tickFwd 0 (utrace { t := TState.init cap q minLen } reqs))[i]'(by omega)).1) :=
  c05_every_window cap q minLen hc hq reqs hm i j hij hj

/-! ### Non-vacuity: continuous motion through the processor model into a bucket of 4 frames -/

private def cfg : PCfg := { K := 2, minF := 2, maxF := 3, trig := 1, constOn := false, testLast := 1 }
private def evs : List Ev := List.replicate 8 (.frame true {})

/-- eight motion frames: recordings 0..2, 3..5, 6..7 back to back (cut by `maxF`) -/
example : motionCalls (PState.trace cfg (PState.init cfg) evs) =
    [.start, .write 0, .write 1, .write 2, .stop, .start, .write 3, .write 4, .write 5, .stop,
     .start, .write 6, .write 7] := by decide

private def reqs : List TReq :=
  [.start 0 0 true, .write 0 0 true true true, .write 0 1 true true true, .write 0 2 true true true, .stop true,
   .start 0 0 true, .write 0 3 true true true, .write 0 4 true true true, .write 0 5 true true true, .stop true,
   .start 0 0 true, .write 0 6 true true true, .write 0 7 true true true]

example : FromProcessor cfg evs reqs := by
  unfold FromProcessor
  have : motionCalls (PState.trace cfg (PState.init cfg) evs) =
    [.start, .write 0, .write 1, .write 2, .stop, .start, .write 3, .write 4, .write 5, .stop,
     .start, .write 6, .write 7] := by decide
  rw [this]
  simp [reqs, reqOf, matchAll]

/-- with a bucket of 4 frames, a minimum clip of 2 and no refill in between, only the first recording
(3 frames) reaches storage: one token is left, less than a minimum clip, so the later starts are suppressed -/
example : ((tickFwd 0 (utrace { t := TState.init 4 1 2 } reqs)).map (·.2)).foldl (· + ·) 0 = 3 := by decide

end TR.C05
