import Proofs.SocketC14
/-!
# C14 — the camera socket: header framing and frame alignment

The recorder parses the camera header consuming nothing beyond the blank line that ends it, then
delivers every fixed-size frame exactly once and in order, treats each 5-byte `clear` marker
between frames as a reset, and never loses frame alignment; a header cut short by the connection
closing yields an error rather than a partial description.

Model: `TR.Socket` (`readHeader`, `parseFrames` over the connection's bytes as one flat list).

Quantifiers.
* Header: every list of header lines (each: no newline inside, newline at the end, not blank),
  every blank line (any number of spaces, then newline), every continuation `rest` of the stream.
* Frames: every frame size `N ≥ 5`, every list of items in which each frame has exactly `N` bytes
  and does not begin with the five bytes `clear`, every fuel larger than the number of items.

Why the side conditions are there (each one is shown necessary by an `example` below):
* `N ≥ 5`: the loop probes 5 bytes before deciding; a camera with frames shorter than the probe
  cannot be served by this loop at all.
* a frame must not begin with `clear`: in the wire format itself such a frame is
  indistinguishable from a marker followed by other bytes.
* fuel: `parseFrames` is structurally recursive on a bound for the number of loop iterations;
  one iteration per item plus the final one that sees the end of the stream.  (For
  `c14_frames_truncated` the bound `items.length < fuel` is already enough — that is what the proof
  uses; the statement keeps the bound it was registered with, which is implied.)
-/
namespace TR.C14
open TR.Socket

/-- a header line as the camera daemon's YAML encoder emits it: no newline inside, ends with one,
not blank -/
def IsHeaderLine (l : List Nat) : Prop :=
  ∃ body, l = body ++ [NL] ∧ NL ∉ body ∧ isBlank l = false

/-- the line that ends the header: spaces then newline -/
def IsBlankLine (l : List Nat) : Prop := ∃ k, l = List.replicate k SP ++ [NL]

/-- (1) the header round-trips and NOTHING beyond the blank line is consumed -/
theorem c14_header_exact (lines : List (List Nat)) (blank rest : List Nat)
    (hl : ∀ l ∈ lines, IsHeaderLine l) (hb : IsBlankLine blank) :
    readHeader (lines.flatten ++ blank ++ rest) = some (lines.flatten, rest) := by
  obtain ⟨k, rfl⟩ := hb
  exact readHeader_exact lines k rest hl

/-- (2) a header cut short anywhere (any proper prefix of header text + blank line) is an error -/
theorem c14_header_truncated (lines : List (List Nat)) (blank : List Nat)
    (hl : ∀ l ∈ lines, IsHeaderLine l) (hb : IsBlankLine blank) (pre : List Nat)
    (hp : pre <+: lines.flatten ++ blank) (hne : pre ≠ lines.flatten ++ blank) :
    readHeader pre = none := by
  obtain ⟨k, rfl⟩ := hb
  exact readHeader_truncated lines k hl pre hp hne

/-- items a camera can send with frame size N: frames are exactly N bytes and do not begin with
the marker (a frame beginning with the bytes "clear" is indistinguishable from a marker in the
wire format itself) -/
def ValidItem (N : Nat) : Item → Prop
  | .frame b => b.length = N ∧ b.take 5 ≠ clearMarker
  | .clear => True

/-- (3) every frame and every marker is delivered exactly once, in order (alignment is never
lost) -/
theorem c14_frames_roundtrip (N : Nat) (hN : 5 ≤ N) (items : List Item)
    (hv : ∀ i ∈ items, ValidItem N i) (fuel : Nat) (hf : items.length < fuel) :
    parseFrames N fuel (encode items) = (items, Ending.eofAtBoundary) := by
  obtain ⟨f, rfl⟩ : ∃ f, fuel = items.length + (f + 1) := ⟨fuel - items.length - 1, by omega⟩
  have h := parseFrames_append N hN items
    (fun i hi => by have := hv i hi; cases i <;> exact this) (f + 1) []
  rw [List.append_nil] at h
  rw [h, parseFrames_nil, List.append_nil]

/-- (4) a stream cut inside an item delivers exactly the complete items before it, then reports
truncation -/
theorem c14_frames_truncated (N : Nat) (hN : 5 ≤ N) (items : List Item)
    (hv : ∀ i ∈ items, ValidItem N i) (last : Item) (hlast : ValidItem N last) (part : List Nat)
    (hp : part <+: encodeItem last) (hne : part ≠ []) (hne' : part ≠ encodeItem last)
    (fuel : Nat) (hf : items.length + 1 < fuel) :
    parseFrames N fuel (encode items ++ part) = (items, Ending.truncated) := by
  obtain ⟨f, rfl⟩ : ∃ f, fuel = items.length + (f + 1) := ⟨fuel - items.length - 1, by omega⟩
  have h := parseFrames_append N hN items
    (fun i hi => by have := hv i hi; cases i <;> exact this) (f + 1) part
  have h' := parseFrames_partial N last (by cases last <;> exact hlast) part hp hne hne' f
  rw [h, h', List.append_nil]

/-! ## non-vacuity -/

/-- the hypotheses of (1) are satisfiable: header "a: 1\n" "b\n", blank line "  \n", and the
first frame bytes left untouched -/
example :
    readHeader ([97, 58, 32, 49, 10, 98, 10] ++ [32, 32, 10] ++ [99, 108, 7])
      = some ([97, 58, 32, 49, 10, 98, 10], [99, 108, 7]) :=
  c14_header_exact [[97, 58, 32, 49, 10], [98, 10]] [32, 32, 10] [99, 108, 7]
    (by
      intro l hl
      simp only [List.mem_cons, List.not_mem_nil, or_false] at hl
      rcases hl with rfl | rfl
      · exact ⟨[97, 58, 32, 49], rfl, by decide, by decide⟩
      · exact ⟨[98], rfl, by decide, by decide⟩)
    ⟨2, rfl⟩

/-- the hypotheses of (2) are satisfiable: the same header cut at a line boundary, and cut
inside the blank line -/
example : readHeader [97, 58, 32, 49, 10] = none ∧ readHeader [97, 58, 32, 49, 10, 98, 10, 32] = none := by
  have hl : ∀ l ∈ [[97, 58, 32, 49, 10], [98, 10]], IsHeaderLine l := by
    intro l hl
    simp only [List.mem_cons, List.not_mem_nil, or_false] at hl
    rcases hl with rfl | rfl
    · exact ⟨[97, 58, 32, 49], rfl, by decide, by decide⟩
    · exact ⟨[98], rfl, by decide, by decide⟩
  constructor
  · exact c14_header_truncated _ [32, 32, 10] hl ⟨2, rfl⟩ _ ⟨[98, 10, 32, 32, 10], rfl⟩ (by decide)
  · exact c14_header_truncated _ [32, 32, 10] hl ⟨2, rfl⟩ _ ⟨[32, 10], rfl⟩ (by decide)

/-- a blank line is not a header line and a header line is not a blank line, so the two kinds of
line in (1)/(2) cannot be confused -/
example (l : List Nat) (h : IsHeaderLine l) : ¬ IsBlankLine l := by
  rintro ⟨k, rfl⟩
  obtain ⟨_, _, _, hb⟩ := h
  rw [isBlank_blank] at hb
  exact absurd hb (by decide)

/-- (3) and (4) on a concrete stream with frame size 6: frame, marker, marker, frame — all four
delivered in order; cut two bytes into a fifth item the four are still delivered and the end is
`truncated`; a frame that merely *contains* "clear" later than its first byte is a frame -/
example :
    parseFrames 6 5 (encode [.frame [1, 2, 3, 4, 5, 6], .clear, .clear, .frame [0, 99, 108, 101, 97, 114]])
      = ([.frame [1, 2, 3, 4, 5, 6], .clear, .clear, .frame [0, 99, 108, 101, 97, 114]],
         Ending.eofAtBoundary) ∧
    parseFrames 6 6 (encode [.frame [1, 2, 3, 4, 5, 6], .clear, .clear, .frame [0, 99, 108, 101, 97, 114]]
        ++ [99, 108])
      = ([.frame [1, 2, 3, 4, 5, 6], .clear, .clear, .frame [0, 99, 108, 101, 97, 114]],
         Ending.truncated) ∧
    parseFrames 6 6 (encode [.frame [1, 2, 3, 4, 5, 6]] ++ [9, 9, 9, 9, 9])
      = ([.frame [1, 2, 3, 4, 5, 6]], Ending.truncated) := by
  decide

/-- the side conditions are necessary.
`ValidItem`: a 6-byte frame beginning with "clear" is read as a marker and alignment is lost.
`5 ≤ N`: with 3-byte frames a single frame is reported as truncated.
fuel: with fuel equal to the number of items the loop stops before seeing the end of stream. -/
example :
    parseFrames 6 3 (encode [.frame [99, 108, 101, 97, 114, 7]])
      = ([.clear], Ending.truncated) ∧
    parseFrames 3 2 (encode [.frame [1, 2, 3]]) = ([], Ending.truncated) ∧
    parseFrames 6 1 (encode [.frame [1, 2, 3, 4, 5, 6]])
      = ([.frame [1, 2, 3, 4, 5, 6]], Ending.truncated) := by
  decide

end TR.C14
