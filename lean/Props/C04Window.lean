import TR.Window
/-!
# C04 (window and disk gate): `Active()` is exactly "time of day ∈ [start, stop)" cyclically
-/
namespace TR.C04W
open TR.Window

/-- **Window.** For all start/stop times of day and all clock readings: the window is open iff
start = stop (no window) or the time of day lies in the half-open cyclic interval
[start, stop) — start included, stop excluded, also for windows spanning midnight. -/
theorem c04_window_active_iff (S E tod : Nat) (hS : S < DAY) (hE : E < DAY) (ht : tod < DAY) :
    active S E tod = true ↔
      (S = E ∨ (S < E ∧ S ≤ tod ∧ tod < E) ∨ (E < S ∧ (S ≤ tod ∨ tod < E))) := by
  have hd : DAY = 86400000000000 := by decide
  unfold active nextAbs
  by_cases hse : S = E
  · simp [hse]
  · simp only [hse, if_false, decide_eq_true_eq, false_or]
    rcases Nat.lt_or_ge tod E with a | a <;> rcases Nat.lt_or_ge tod S with b | b
    · rw [if_pos a, if_pos b]
      constructor
      · intro h; exact Or.inr ⟨h, Or.inr a⟩
      · rintro (⟨h1, h2, h3⟩ | ⟨h1, h2⟩)
        · omega
        · exact h1
    · rw [if_pos a, if_neg (by omega)]
      constructor
      · intro h
        rcases Nat.lt_or_ge S E with c | c
        · exact Or.inl ⟨c, b, a⟩
        · exact Or.inr ⟨by omega, Or.inl b⟩
      · intro _; omega
    · rw [if_neg (by omega), if_pos b]
      constructor
      · intro h; omega
      · rintro (⟨h1, h2, h3⟩ | ⟨h1, h2 | h2⟩) <;> omega
    · rw [if_neg (by omega), if_neg (by omega)]
      constructor
      · intro h; exact Or.inr ⟨by omega, Or.inl b⟩
      · rintro (⟨h1, h2, h3⟩ | ⟨h1, h2⟩) <;> omega

/-- both boundaries, to the nanosecond -/
theorem c04_window_boundaries (S E : Nat) (hS : S < DAY) (hE : E < DAY) (hne : S ≠ E) :
    active S E S = true ∧ active S E E = false := by
  have hd : DAY = 86400000000000 := by decide
  unfold active nextAbs
  simp only [hne, if_false]
  constructor
  · by_cases h : E > S <;> simp [h] <;> omega
  · by_cases h : S > E <;> simp [h] <;> omega

/-- **Disk gate.** `enoughSpace` is monotone in the free space and exact at the boundary. -/
theorem c04_disk_gate (bavail bsize mb : Nat) :
    enoughSpace bavail bsize mb = true ↔ mb * 1048576 ≤ bavail * bsize := by
  unfold enoughSpace
  simp only [decide_eq_true_eq, ge_iff_le]
  have e : bavail * bsize / 1024 / 1024 = bavail * bsize / 1048576 := by
    rw [Nat.div_div_eq_div_mul]
  rw [e]
  exact Nat.le_div_iff_mul_le (by omega)

example : active (22 * 3600 * 1000000000) (6 * 3600 * 1000000000) (23 * 3600 * 1000000000) = true := by decide
example : active (22 * 3600 * 1000000000) (6 * 3600 * 1000000000) (6 * 3600 * 1000000000) = false := by decide
example : active (10 * 3600 * 1000000000) (11 * 3600 * 1000000000) (11 * 3600 * 1000000000 - 1) = true := by decide

end TR.C04W
