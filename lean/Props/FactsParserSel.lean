import Generated.Facts
/-! # Source facts — C13 C14 C11: which parser is selected for which camera (re-extracted by tools/gofacts at every check; one small module per concern) -/
namespace TR.FactsWiring
open Facts

/-- C13: Lepton cameras are parsed by the lepton3 library's parser, Bosons by `convertRawBosonFrame`
(the two parsers `TR.Parse` models) -/
theorem frame_parser_selection : frameParserMap =
    "lepton3.Model,lepton3.Model35=>return lepton3.ParseRawFrame;\"boson\"=>return convertRawBosonFrame" := rfl

end TR.FactsWiring
