import Props.C12Spec
import Props.C10Gen
import Proofs.C10Pipe
/-!
# C10 for every frame history — the file-system operations the daemon performs ARE a `ValidOps` sequence

`Props.C10` / `Props.C10Gen` prove C10 (only complete recordings ever carry a `.cptv` name, at every crash point;
clean-up leaves complete recordings only) for operation sequences that OBEY the recorder protocol
(`TR.C10.ValidOps`).  `Props.C12Spec` proves that the frame processor drives each of its three recording sinks
`WellFormed`ly, for every event list and every fault placement.  This file connects the two.

**The translation.**  Each of the three sinks is a `CPTVFileRecorder`.  `fsOps` folds over the observations of a
connection and emits the recorder operation (`TR.FS.Op`) each call causes, keeping in `Tr` the id of the open file of
each sink and the next fresh id (`obsOps`, clause by clause, below).  `endOps` is `handleConn`'s deferred
`cptvRecorder.Stop()`.  `leaves : Nat → Bool` decides, for each start attempt (numbered by the id it would use),
whether a FAILING `StartRecording` leaves a temporary file behind (`Op.startFail`: the header could not be written)
or not (no operation: `NewFileWriter` / `deleteExcessRecordings` failed) — all theorems hold for every `leaves`.

**What is proved.**

* `ops_valid_any` — the translated operations of ANY observation list are `ValidOps` (from any id counter `n`, any
  `opn`, any `used` below `n`).  This needs neither C12 nor any hypothesis on faults: `fsOps` is total and its
  "cannot happen" clauses (a write / a failing stop with no open file: no operation; a start while a file is open: the
  old file is abandoned) are harmless for `ValidOps`.
* `Exact` / `pipe_exact` — where C12 comes in: on the model's traces (ring capacity ≥ 1, every stop succeeds) the
  translation never takes one of those clauses — every `WriteFrame` finds the open file of its sink (so it IS an
  `Op.write`, and the Go code does not dereference a nil writer), every `StartRecording` finds its sink closed (no
  writer is leaked), and no `StopRecording` fails while a file is open (the one thing `TR.FS` has no operation for).
  So the translated list is exactly what the daemon does to the directory.
* `stopsSucceed_of_faults` — the hypothesis `StopsSucceed` on the trace follows from a condition on the input: no
  event's fault record dictates a failing stop.
* `pipe_ops_valid`, `pipe_ops_valid_from`, `pipe_c10_every_instant`, `pipe_c10_cleanup` — both together, and C10 for
  one connection.
* `pipe_c10_connections` — several connections in one daemon life (a fresh processor each, ids continuing, files of
  the test / continuous recorder abandoned at the end of a connection stay open for ever).
* `pipe_lives_valid`, `pipe_c10_lives` — a whole history of lives, each a list of connections, each killed at an
  arbitrary system call, restarted and cleaned up (`Props.C10Gen`).

Helper lemmas: `Proofs.C10Pipe` (the invariant `Inv`, `wellFormed_mid`).
-/
namespace TR.C10Pipe
open TR TR.FS TR.C10 TR.C10Gen TR.C12Spec

/-! ## Definitions -/

/-- translation state: the id of the open file of each sink (if any) and the next fresh id -/
structure Tr where
  motion : Option Nat := none
  const : Option Nat := none
  test : Option Nat := none
  next : Nat := 0
  deriving DecidableEq, Repr

def Tr.get (t : Tr) : Sink → Option Nat
  | .motion => t.motion
  | .const => t.const
  | .test => t.test

def Tr.set (t : Tr) (s : Sink) (v : Option Nat) : Tr :=
  match s with
  | .motion => { t with motion := v }
  | .const => { t with const := v }
  | .test => { t with test := v }

/-- the file-system operation(s) one observation causes (`CPTVFileRecorder`):
* `StartRecording` that succeeds → `Op.start` of a fresh id, which becomes the sink's open file (had the sink an open
  file already, the Go code would overwrite `fw.writer`: the old file is abandoned — excluded by `Exact`);
* `StartRecording` that fails → a fresh id is used up; `Op.startFail` if `leaves` says a file was left, else nothing;
* `WriteFrame` (whatever its outcome) → `Op.write` of the sink's open id (with none open the Go code would panic on the
  nil writer — excluded by `Exact`);
* `StopRecording` that succeeds → `Op.stop` of the open id (nothing if none is open: `fw.writer == nil`);
  the sink then has no open file;
* `StopRecording` that fails → the sink has no open file any more (`fw.writer = nil`); the system calls it made
  (close, failed rename) have NO counterpart in `TR.FS` — excluded by `StopsSucceed` / `Exact`;
* `CheckCanRecord`, listener observations, `panic` → nothing. -/
def obsOps (leaves : Nat → Bool) (t : Tr) : Obs → Tr × List Op
  | .call s .start true => ({ t.set s (some t.next) with next := t.next + 1 }, [.start t.next])
  | .call _ .start false => ({ t with next := t.next + 1 }, if leaves t.next then [.startFail t.next] else [])
  | .call s (.write _) _ => (t, match t.get s with | some i => [.write i] | none => [])
  | .call s .stop true => (t.set s none, match t.get s with | some i => [.stop i] | none => [])
  | .call s .stop false => (t.set s none, [])
  | _ => (t, [])

/-- the operations of an observation list, and the translation state after it -/
def fsOps (leaves : Nat → Bool) : Tr → List Obs → Tr × List Op
  | t, [] => (t, [])
  | t, o :: os =>
    let r := obsOps leaves t o
    let r' := fsOps leaves r.1 os
    (r'.1, r.2 ++ r'.2)

/-- what `handleConn`'s deferred `cptvRecorder.Stop()` does when the connection ends: the MOTION recorder's open file
(if any) is discarded; open files of the test and continuous recorders are simply abandoned (they stay as temporary
files until the next start-up clean-up) -/
def endOps (t : Tr) : List Op :=
  match t.motion with
  | some i => [.discard i]
  | none => []

/-- every `StopRecording` succeeds (on every sink) -/
def StopsSucceed (os : List Obs) : Prop := ∀ s, Obs.call s .stop false ∉ os

/-- the faults dictated during this event let every `StopRecording` succeed (`.testReq` dictates none) -/
def StopFaultFree (e : Ev) : Prop := e.faults.mStop = true ∧ e.faults.cStop = true ∧ e.faults.tStop = true

/-- the translation state `t` (reached by translating what came before) is the one the observation expects: a start
attempt finds its sink closed, a write finds it open, a FAILING stop finds it closed (then it did nothing) -/
def exactAt (t : Tr) : Obs → Bool
  | .call s .start _ => (t.get s).isNone
  | .call s (.write _) _ => (t.get s).isSome
  | .call s .stop false => (t.get s).isNone
  | _ => true

/-- the translation of `os` from `t0` is exact: at every position -/
def Exact (leaves : Nat → Bool) (t0 : Tr) (os : List Obs) : Prop :=
  ∀ pre o post, os = pre ++ o :: post → exactAt (fsOps leaves t0 pre).1 o = true

/-- all observations of one camera connection: a fresh processor fed the events `evs` -/
def obsOf (c : PCfg) (evs : List Ev) : List Obs := allObs (PState.trace c (PState.init c) evs)

/-- several connections in one daemon life, ids from `n` on: each connection (its configuration and its events) is
processed by a fresh processor with fresh recorders and ended by `endOps`; returns the next fresh id -/
def connsOps (leaves : Nat → Bool) : Nat → List (PCfg × List Ev) → Nat × List Op
  | n, [] => (n, [])
  | n, p :: ps =>
    let r := fsOps leaves { next := n } (obsOf p.1 p.2)
    let r' := connsOps leaves r.1.next ps
    (r'.1, r.2 ++ endOps r.1 ++ r'.2)

/-- one life of the daemon: its connections, and the number of system calls it gets to make before it is killed
(anything ≥ the total: it is killed after the last one) -/
structure DLife where
  conns : List (PCfg × List Ev)
  kill : Nat

/-- the lives (`Props.C10Gen.Life`) of a history, ids from `n` on (time stamps move on across restarts) -/
def livesOf (leaves : Nat → Bool) : Nat → List DLife → List Life
  | _, [] => []
  | n, l :: ls =>
    let r := connsOps leaves n l.conns
    ⟨r.2, (r.2.flatMap Op.steps).take l.kill⟩ :: livesOf leaves r.1 ls

/-! ## Machinery -/

theorem Tr.get_set (t : Tr) (s s' : Sink) (v : Option Nat) :
    (t.set s v).get s' = if s' = s then v else t.get s' := by
  cases s <;> cases s' <;> rfl

theorem Tr.set_next (t : Tr) (s : Sink) (v : Option Nat) : (t.set s v).next = t.next := by
  cases s <;> rfl

theorem Tr.get_next (t : Tr) (m : Nat) (s : Sink) : ({ t with next := m } : Tr).get s = t.get s := by
  cases s <;> rfl

/-- one observation: valid from `(opn, used)`, and the continuation `rest` is entered with the invariant -/
theorem obsOps_valid_then (leaves : Nat → Bool) (t : Tr) (o : Obs) (opn used : List Nat)
    (hi : Inv t.get t.next opn used) (rest : List Op)
    (k : ∀ opn' used', Inv (obsOps leaves t o).1.get (obsOps leaves t o).1.next opn' used' →
      ValidOps opn' used' rest) :
    ValidOps opn used ((obsOps leaves t o).2 ++ rest) := by
  cases o with
  | md => exact k _ _ hi
  | rs => exact k _ _ hi
  | re => exact k _ _ hi
  | panic => exact k _ _ hi
  | call s cl ok =>
    cases cl with
    | can => exact k _ _ hi
    | start =>
      cases ok with
      | true =>
        exact .start hi.fresh (k _ _ (hi.start (s := s) fun s' => by
          show ({ t.set s (some t.next) with next := t.next + 1 } : Tr).get s' = _
          rw [Tr.get_next, Tr.get_set]))
      | false =>
        show ValidOps opn used ((if leaves t.next then [Op.startFail t.next] else []) ++ rest)
        cases hl : leaves t.next with
        | true => exact .startFail hi.fresh (k _ _ (hi.startFail fun s' => Tr.get_next t _ s'))
        | false => exact k _ _ (hi.skip fun s' => Tr.get_next t _ s')
    | write id =>
      show ValidOps opn used ((match t.get s with | some i => [Op.write i] | none => []) ++ rest)
      cases hg : t.get s with
      | none => exact k _ _ hi
      | some i => exact .write (hi.mem s i hg) (k _ _ hi)
    | stop =>
      have k' : ∀ opn' used', Inv (t.set s none).get t.next opn' used' → ValidOps opn' used' rest := by
        intro a b h
        rw [← Tr.set_next t s none] at h
        cases ok <;> exact k a b h
      cases ok with
      | false => exact k' _ _ (hi.clear (s := s) fun s' => Tr.get_set t s s' none)
      | true =>
        show ValidOps opn used ((match t.get s with | some i => [Op.stop i] | none => []) ++ rest)
        cases hg : t.get s with
        | none => exact k' _ _ (hi.clear (s := s) fun s' => Tr.get_set t s s' none)
        | some i => exact .stop (hi.mem s i hg) (k' _ _ (hi.stop hg fun s' => Tr.get_set t s s' none))


/-- **the core induction**: the operations of ANY observation list are valid from `(opn, used)` whenever the
invariant holds at the start, and whatever is valid from every state the invariant allows at the end (`tail`: nothing,
`endOps`, the next connection …) may follow -/
theorem fsOps_valid_then (leaves : Nat → Bool) : ∀ (os : List Obs) (t : Tr) (opn used : List Nat),
    Inv t.get t.next opn used → ∀ tail : List Op,
    (∀ opn' used', Inv (fsOps leaves t os).1.get (fsOps leaves t os).1.next opn' used' →
      ValidOps opn' used' tail) →
    ValidOps opn used ((fsOps leaves t os).2 ++ tail) := by
  intro os
  induction os with
  | nil => intro t opn used hi tail k; exact k opn used hi
  | cons o os ih =>
    intro t opn used hi tail k
    show ValidOps opn used (((obsOps leaves t o).2 ++ (fsOps leaves (obsOps leaves t o).1 os).2) ++ tail)
    rw [List.append_assoc]
    exact obsOps_valid_then leaves t o opn used hi _ fun opn' used' hi' => ih _ opn' used' hi' tail k

/-- what may follow a connection: `endOps` -/
theorem endOps_valid {t : Tr} {opn used : List Nat} (hi : Inv t.get t.next opn used) {rest : List Op}
    (k : ∀ opn', ValidOps opn' used rest) : ValidOps opn used (endOps t ++ rest) := by
  unfold endOps
  cases hm : t.motion with
  | none => exact k _
  | some i => exact .discard (hi.mem .motion i hm) (k _)

/-! ### ids -/

theorem startedIds_append (a b : List Op) : startedIds (a ++ b) = startedIds a ++ startedIds b := by
  induction a with
  | nil => rfl
  | cons o a ih => cases o <;> simp [startedIds, ih]

theorem startedIds_endOps (t : Tr) : startedIds (endOps t) = [] := by
  unfold endOps
  cases t.motion <;> rfl

theorem obsOps_ids (leaves : Nat → Bool) (t : Tr) (o : Obs) :
    t.next ≤ (obsOps leaves t o).1.next ∧
      ∀ x ∈ startedIds (obsOps leaves t o).2, t.next ≤ x ∧ x < (obsOps leaves t o).1.next := by
  have triv : t.next ≤ t.next ∧ ∀ x ∈ startedIds ([] : List Op), t.next ≤ x ∧ x < t.next :=
    ⟨Nat.le_refl _, fun x hx => by cases hx⟩
  cases o with
  | md => exact triv
  | rs => exact triv
  | re => exact triv
  | panic => exact triv
  | call s cl ok =>
    cases cl with
    | can => exact triv
    | start =>
      cases ok with
      | true =>
        refine ⟨Nat.le_succ _, fun x hx => ?_⟩
        have : x = t.next := by simpa [obsOps, startedIds] using hx
        subst this
        exact ⟨Nat.le_refl _, Nat.lt_succ_self _⟩
      | false =>
        refine ⟨Nat.le_succ _, fun x hx => ?_⟩
        have hx' : x ∈ startedIds (if leaves t.next then [Op.startFail t.next] else []) := hx
        cases hl : leaves t.next with
        | true =>
          rw [hl] at hx'
          have : x = t.next := by simpa [startedIds] using hx'
          subst this
          exact ⟨Nat.le_refl _, Nat.lt_succ_self _⟩
        | false => rw [hl] at hx'; cases hx'
    | write id =>
      refine ⟨Nat.le_refl _, fun x hx => ?_⟩
      have hx' : x ∈ startedIds (match t.get s with | some i => [Op.write i] | none => []) := hx
      cases hg : t.get s <;> rw [hg] at hx' <;> cases hx'
    | stop =>
      cases ok with
      | false => exact ⟨Nat.le_of_eq (Tr.set_next t s none).symm, fun x hx => by cases hx⟩
      | true =>
        refine ⟨Nat.le_of_eq (Tr.set_next t s none).symm, fun x hx => ?_⟩
        have hx' : x ∈ startedIds (match t.get s with | some i => [Op.stop i] | none => []) := hx
        cases hg : t.get s <;> rw [hg] at hx' <;> cases hx'

theorem fsOps_ids (leaves : Nat → Bool) : ∀ (os : List Obs) (t : Tr),
    t.next ≤ (fsOps leaves t os).1.next ∧
      ∀ x ∈ startedIds (fsOps leaves t os).2, t.next ≤ x ∧ x < (fsOps leaves t os).1.next := by
  intro os
  induction os with
  | nil => intro t; exact ⟨Nat.le_refl _, fun x hx => by cases hx⟩
  | cons o os ih =>
    intro t
    obtain ⟨h1, h1'⟩ := obsOps_ids leaves t o
    obtain ⟨h2, h2'⟩ := ih (obsOps leaves t o).1
    show t.next ≤ (fsOps leaves (obsOps leaves t o).1 os).1.next ∧
      ∀ x ∈ startedIds ((obsOps leaves t o).2 ++ (fsOps leaves (obsOps leaves t o).1 os).2),
        t.next ≤ x ∧ x < (fsOps leaves (obsOps leaves t o).1 os).1.next
    refine ⟨Nat.le_trans h1 h2, fun x hx => ?_⟩
    rw [startedIds_append] at hx
    rcases List.mem_append.mp hx with hx | hx
    · have := h1' x hx; omega
    · have := h2' x hx; omega

/-! ### the translation state follows `openAfter` -/

theorem obsOps_get_same (leaves : Nat → Bool) (t : Tr) (s : Sink) (cl : Call) (ok : Bool) :
    ((obsOps leaves t (.call s cl ok)).1.get s).isSome = nextOpen (t.get s).isSome (cl, ok) := by
  cases cl with
  | can => rfl
  | write id => rfl
  | start =>
    cases ok with
    | true =>
      show (({ t.set s (some t.next) with next := t.next + 1 } : Tr).get s).isSome = true
      rw [Tr.get_next, Tr.get_set, if_pos rfl]; rfl
    | false =>
      show (({ t with next := t.next + 1 } : Tr).get s).isSome = (t.get s).isSome
      rw [Tr.get_next]
  | stop =>
    cases ok <;>
    · show ((t.set s none).get s).isSome = false
      rw [Tr.get_set, if_pos rfl]; rfl

theorem obsOps_get_other (leaves : Nat → Bool) (t : Tr) (s s' : Sink) (cl : Call) (ok : Bool) (h : s' ≠ s) :
    (obsOps leaves t (.call s cl ok)).1.get s' = t.get s' := by
  cases cl with
  | can => rfl
  | write id => rfl
  | start =>
    cases ok with
    | true =>
      show ({ t.set s (some t.next) with next := t.next + 1 } : Tr).get s' = t.get s'
      rw [Tr.get_next, Tr.get_set, if_neg h]
    | false => exact Tr.get_next t _ s'
  | stop =>
    cases ok <;>
    · show (t.set s none).get s' = t.get s'
      rw [Tr.get_set, if_neg h]

theorem fsOps_flag (leaves : Nat → Bool) (s : Sink) : ∀ (os : List Obs) (t : Tr),
    ((fsOps leaves t os).1.get s).isSome = (callsOf s os).foldl nextOpen (t.get s).isSome := by
  intro os
  induction os with
  | nil => intro t; rfl
  | cons o os ih =>
    intro t
    show ((fsOps leaves (obsOps leaves t o).1 os).1.get s).isSome = _
    rw [ih]
    cases o with
    | md => rfl
    | rs => rfl
    | re => rfl
    | panic => rfl
    | call s' cl ok =>
      rw [callsOf_cons_call]
      by_cases e : s' = s
      · subst e
        rw [if_pos rfl, List.foldl_cons, obsOps_get_same]
      · rw [if_neg e, obsOps_get_other leaves t s' s cl ok (fun h => e h.symm)]


/-! ### connections and lives -/

theorem connsOps_valid (leaves : Nat → Bool) : ∀ (conns : List (PCfg × List Ev)) (n : Nat) (opn used : List Nat),
    (∀ x ∈ used, x < n) → ValidOps opn used (connsOps leaves n conns).2 := by
  intro conns
  induction conns with
  | nil => intro n opn used _; exact .nil
  | cons p ps ih =>
    intro n opn used hu
    show ValidOps opn used ((fsOps leaves { next := n } (obsOf p.1 p.2)).2 ++
      endOps (fsOps leaves { next := n } (obsOf p.1 p.2)).1 ++
      (connsOps leaves (fsOps leaves { next := n } (obsOf p.1 p.2)).1.next ps).2)
    rw [List.append_assoc]
    exact fsOps_valid_then leaves _ _ opn used (Inv.init (fun s => by cases s <;> rfl) hu) _
      fun opn' used' hi' => endOps_valid hi' fun opn'' => ih _ opn'' used' hi'.used

theorem connsOps_ids (leaves : Nat → Bool) : ∀ (conns : List (PCfg × List Ev)) (n : Nat),
    n ≤ (connsOps leaves n conns).1 ∧
      ∀ x ∈ startedIds (connsOps leaves n conns).2, n ≤ x ∧ x < (connsOps leaves n conns).1 := by
  intro conns
  induction conns with
  | nil => intro n; exact ⟨Nat.le_refl _, fun x hx => by cases hx⟩
  | cons p ps ih =>
    intro n
    obtain ⟨h1, h1'⟩ := fsOps_ids leaves (obsOf p.1 p.2) { next := n }
    obtain ⟨h2, h2'⟩ := ih (fsOps leaves { next := n } (obsOf p.1 p.2)).1.next
    show n ≤ (connsOps leaves (fsOps leaves { next := n } (obsOf p.1 p.2)).1.next ps).1 ∧
      ∀ x ∈ startedIds ((fsOps leaves { next := n } (obsOf p.1 p.2)).2 ++
        endOps (fsOps leaves { next := n } (obsOf p.1 p.2)).1 ++
        (connsOps leaves (fsOps leaves { next := n } (obsOf p.1 p.2)).1.next ps).2),
        n ≤ x ∧ x < (connsOps leaves (fsOps leaves { next := n } (obsOf p.1 p.2)).1.next ps).1
    have h1n : n ≤ (fsOps leaves { next := n } (obsOf p.1 p.2)).1.next := h1
    refine ⟨Nat.le_trans h1n h2, fun x hx => ?_⟩
    rw [startedIds_append, startedIds_append, startedIds_endOps, List.append_nil] at hx
    rcases List.mem_append.mp hx with hx | hx
    · have := h1' x hx
      have h3 : n ≤ x := this.1
      omega
    · have := h2' x hx; omega

/-! ## The theorems -/

/-- **the translated operations of ANY observation list obey the recorder protocol** — from any id counter `n`, with
any recordings `opn` open (abandoned by earlier connections) and any ids `used` below `n`; both with the connection
ended (`endOps`) and still running.  No hypothesis: see `pipe_exact` for what C12 adds. -/
theorem ops_valid_any (leaves : Nat → Bool) (os : List Obs) (n : Nat) (opn used : List Nat)
    (hused : ∀ x ∈ used, x < n) :
    ValidOps opn used ((fsOps leaves { next := n } os).2 ++ endOps (fsOps leaves { next := n } os).1) ∧
    ValidOps opn used (fsOps leaves { next := n } os).2 := by
  have hi : Inv ({ next := n } : Tr).get ({ next := n } : Tr).next opn used :=
    Inv.init (fun s => by cases s <;> rfl) hused
  constructor
  · refine fsOps_valid_then leaves os _ opn used hi _ fun opn' used' hi' => ?_
    have := endOps_valid hi' (rest := []) fun _ => .nil
    rwa [List.append_nil] at this
  · have := fsOps_valid_then leaves os _ opn used hi [] fun _ _ _ => .nil
    rwa [List.append_nil] at this

/-- ids: the translation hands out ids from its counter on, and every id it starts is below the counter it ends
with -/
theorem ops_ids (leaves : Nat → Bool) (os : List Obs) (n : Nat) :
    n ≤ (fsOps leaves { next := n } os).1.next ∧
    ∀ x ∈ startedIds (fsOps leaves { next := n } os).2, n ≤ x ∧ x < (fsOps leaves { next := n } os).1.next :=
  fsOps_ids leaves os { next := n }

/-- the translation state follows C12's `openAfter`: a sink has an open file after `os` iff a recording is open on it
after the calls of `os` (from a fresh connection) -/
theorem fsOps_open_iff (leaves : Nat → Bool) (os : List Obs) (n : Nat) (s : Sink) :
    ((fsOps leaves { next := n } os).1.get s).isSome = openAfter (callsOf s os) := by
  rw [fsOps_flag]
  cases s <;> rfl

/-- on well-formed call sequences without failing stops the translation is exact -/
theorem exact_of_wellFormed (leaves : Nat → Bool) (os : List Obs) (n : Nat)
    (hw : ∀ s, WellFormed (callsOf s os)) (hs : StopsSucceed os) : Exact leaves { next := n } os := by
  intro pre o post he
  cases o with
  | md => rfl
  | rs => rfl
  | re => rfl
  | panic => rfl
  | call s cl ok =>
    have hmid := wellFormed_mid (hw s) he
    rw [← fsOps_open_iff leaves pre n s] at hmid
    cases cl with
    | can => rfl
    | write id => exact hmid
    | start =>
      have h2 : (!((fsOps leaves { next := n } pre).1.get s).isSome) = true := hmid
      show ((fsOps leaves { next := n } pre).1.get s).isNone = true
      cases h : (fsOps leaves { next := n } pre).1.get s with
      | none => rfl
      | some i => rw [h] at h2; cases h2
    | stop =>
      cases ok with
      | true => rfl
      | false =>
        refine absurd ?_ (hs s)
        rw [he]
        exact List.mem_append_right _ (List.mem_cons_self ..)

/-- `StopsSucceed`, as a condition on the INPUT: it holds when no event dictates a failing stop -/
theorem stopsSucceed_of_faults (c : PCfg) (evs : List Ev) (h : ∀ e ∈ evs, StopFaultFree e) :
    StopsSucceed (obsOf c evs) :=
  nfs_trace c evs _ h

/-- **where C12 is used**: on every trace of the model (ring capacity ≥ 1, any events, any fault placement in which
the stops succeed), from any id counter, the translation is exact: every write becomes an `Op.write` of its sink's
open file, every start attempt finds its sink closed, no stop fails on an open file -/
theorem pipe_exact (leaves : Nat → Bool) (c : PCfg) (hK : 0 < c.K) (evs : List Ev)
    (hstop : StopsSucceed (obsOf c evs)) (n : Nat) : Exact leaves { next := n } (obsOf c evs) :=
  exact_of_wellFormed leaves _ n (c12_wellformed c hK evs).2 hstop

/-- **(1)** the file-system operations the daemon performs while processing any event list — exactly those
(`Exact`) — obey the recorder protocol, with the connection ended and with the connection still running -/
theorem pipe_ops_valid (leaves : Nat → Bool) (c : PCfg) (hK : 0 < c.K) (evs : List Ev)
    (hstop : StopsSucceed (obsOf c evs)) :
    Exact leaves {} (obsOf c evs) ∧
    ValidOps [] [] ((fsOps leaves {} (obsOf c evs)).2 ++ endOps (fsOps leaves {} (obsOf c evs)).1) ∧
    ValidOps [] [] (fsOps leaves {} (obsOf c evs)).2 :=
  ⟨pipe_exact leaves c hK evs hstop 0, ops_valid_any leaves _ 0 [] [] (fun _ h => by cases h)⟩

/-- **(1), from any id counter**: ids are ≥ `n`, and the operations are valid after any `used` below `n` -/
theorem pipe_ops_valid_from (leaves : Nat → Bool) (c : PCfg) (hK : 0 < c.K) (evs : List Ev)
    (hstop : StopsSucceed (obsOf c evs)) (n : Nat) (used : List Nat) (hused : ∀ x ∈ used, x < n) :
    Exact leaves { next := n } (obsOf c evs) ∧
    ValidOps [] used ((fsOps leaves { next := n } (obsOf c evs)).2 ++
      endOps (fsOps leaves { next := n } (obsOf c evs)).1) ∧
    ValidOps [] used (fsOps leaves { next := n } (obsOf c evs)).2 ∧
    ∀ x ∈ startedIds (fsOps leaves { next := n } (obsOf c evs)).2,
      n ≤ x ∧ x < (fsOps leaves { next := n } (obsOf c evs)).1.next :=
  ⟨pipe_exact leaves c hK evs hstop n, (ops_valid_any leaves _ n [] used hused).1,
   (ops_valid_any leaves _ n [] used hused).2, (ops_ids leaves _ n).2⟩

/-- **(2)** at every instant (= after every prefix of the system calls) of a connection, including its end, every
`.cptv` name is a complete recording never written in place -/
theorem pipe_c10_every_instant (leaves : Nat → Bool) (c : PCfg) (hK : 0 < c.K) (evs : List Ev)
    (hstop : StopsSucceed (obsOf c evs)) (pre : List Sys)
    (hp : pre <+: ((fsOps leaves {} (obsOf c evs)).2 ++ endOps (fsOps leaves {} (obsOf c evs)).1).flatMap Op.steps) :
    (Dir.run {} pre).ok = true :=
  c10_every_crash_point_ok _ (pipe_ops_valid leaves c hK evs hstop).2.1 pre hp

/-- **(2')** and start-up clean-up of the state at that instant leaves complete recordings only -/
theorem pipe_c10_cleanup (leaves : Nat → Bool) (c : PCfg) (hK : 0 < c.K) (evs : List Ev)
    (hstop : StopsSucceed (obsOf c evs)) (pre : List Sys)
    (hp : pre <+: ((fsOps leaves {} (obsOf c evs)).2 ++ endOps (fsOps leaves {} (obsOf c evs)).1).flatMap Op.steps) :
    ∀ p ∈ (Dir.run {} pre).cleanup.files, p.1.kind = Kind.F ∧ p.2 = Status.complete :=
  c10_cleanup_leaves_only_complete _ (pipe_ops_valid leaves c hK evs hstop).2.1 pre hp

/-- **(3)** several camera connections in one daemon life: every connection is translated exactly, and the
concatenated operation list obeys the recorder protocol -/
theorem pipe_c10_connections (leaves : Nat → Bool) (conns : List (PCfg × List Ev))
    (hK : ∀ p ∈ conns, 0 < p.1.K) (hstop : ∀ p ∈ conns, StopsSucceed (obsOf p.1 p.2)) :
    (∀ p ∈ conns, ∀ n, Exact leaves { next := n } (obsOf p.1 p.2)) ∧
    ValidOps [] [] (connsOps leaves 0 conns).2 :=
  ⟨fun p hp n => pipe_exact leaves p.1 (hK p hp) p.2 (hstop p hp) n,
   connsOps_valid leaves conns 0 [] [] (fun _ h => by cases h)⟩

/-- (3), from any id counter and after any `used` below it; the ids started lie between the counters -/
theorem pipe_connections_from (leaves : Nat → Bool) (conns : List (PCfg × List Ev)) (n : Nat) (used : List Nat)
    (hused : ∀ x ∈ used, x < n) :
    ValidOps [] used (connsOps leaves n conns).2 ∧
    ∀ x ∈ startedIds (connsOps leaves n conns).2, n ≤ x ∧ x < (connsOps leaves n conns).1 :=
  ⟨connsOps_valid leaves conns n [] used hused, (connsOps_ids leaves conns n).2⟩

/-- **(3') a whole history of lives**, each a list of connections, each killed after `kill` system calls: a valid
history in the sense of `Props.C10Gen` (no hypothesis needed; each connection is translated exactly under the
hypotheses of `pipe_exact`) -/
theorem pipe_lives_valid (leaves : Nat → Bool) : ∀ (hist : List DLife) (n : Nat) (used : List Nat),
    (∀ x ∈ used, x < n) → ValidLives used (livesOf leaves n hist) := by
  intro hist
  induction hist with
  | nil => intro n used _; exact .nil
  | cons l ls ih =>
    intro n used hu
    refine .cons (connsOps_valid leaves l.conns n [] used hu) (List.take_prefix _ _) (ih _ _ fun x hx => ?_)
    rcases List.mem_append.mp hx with hx | hx
    · exact ((connsOps_ids leaves l.conns n).2 x hx).2
    · exact Nat.lt_of_lt_of_le (hu x hx) (connsOps_ids leaves l.conns n).1

/-- **(3'') C10 over every history of frame histories**: in life number `k`, at every system call up to its kill
(after the kills, restarts and clean-ups of the lives before it), every `.cptv` name is a complete recording never
written in place, and cleaning up leaves complete recordings only -/
theorem pipe_c10_lives (leaves : Nat → Bool) (hist : List DLife) (k : Nat)
    (hk : k < (livesOf leaves 0 hist).length) (pre : List Sys) (hp : pre <+: (livesOf leaves 0 hist)[k].pre) :
    ((afterLives {} ((livesOf leaves 0 hist).take k)).run pre).ok = true ∧
      ∀ p ∈ ((afterLives {} ((livesOf leaves 0 hist).take k)).run pre).cleanup.files,
        p.1.kind = Kind.F ∧ p.2 = Status.complete :=
  c10_generations_whole_history _ (pipe_lives_valid leaves hist 0 [] (fun _ h => by cases h)) k hk pre hp

/-! ## Non-vacuity -/

instance (os : List Obs) : Decidable (StopsSucceed os) := by unfold StopsSucceed; infer_instance

/-- ring of 3, recordings of 2 to 4 frames, trigger on the first motion frame, continuous recorder on, test
recordings of 2 frames -/
private def cfg : PCfg := ⟨3, 2, 4, 1, true, 1⟩

/-- a still frame, a test request, a motion frame (the motion recorder starts, writes the pre-trigger frame and this
one; the test recording starts), a still frame (the motion recording reaches its length and stops; so does the test
recording), a bad frame (stops the continuous recorder), motion again with `StartRecording` FAILING on the motion
sink, motion again (now it starts) -/
private def evs : List Ev :=
  [.frame false {}, .testReq, .frame true {}, .frame false {}, .bad {}, .frame true { mStart := false },
   .frame true {}]

private def evsOps : List Op :=
  [.start 0, .write 0,                            -- continuous recorder: file 0
   .start 1, .write 1, .write 1, .write 0,        -- motion recorder: file 1 (two frames); continuous
   .start 2, .write 2,                            -- test recorder: file 2
   .write 1, .stop 1, .write 0, .write 2, .stop 2,  -- motion stops; continuous; test stops
   .stop 0,                                       -- bad frame: continuous stops
   .startFail 3,                                  -- the failing start of the motion recorder leaves `3.cptv.temp`
   .start 4, .write 4,                            -- continuous again: file 4
   .start 5, .write 5, .write 5, .write 4]        -- motion: file 5; continuous

set_option maxRecDepth 20000 in
/-- the operations of that connection: three sinks interleaved; motion file 5 and continuous file 4 still open -/
example : fsOps (fun _ => true) {} (obsOf cfg evs) = ({ motion := some 5, const := some 4, next := 6 }, evsOps) := rfl

set_option maxRecDepth 20000 in
/-- when the failing start leaves nothing behind, id 3 is skipped -/
example : (fsOps (fun _ => false) {} (obsOf cfg evs)).2 =
    evsOps.take 14 ++ evsOps.drop 15 := rfl

set_option maxRecDepth 20000 in
/-- the hypothesis of the theorems holds for it (by evaluation; also by `stopsSucceed_of_faults`) -/
example : StopsSucceed (obsOf cfg evs) := by decide

example : StopsSucceed (obsOf cfg evs) :=
  stopsSucceed_of_faults _ _ (by simp [evs, StopFaultFree, Ev.faults])

/-- the end of the connection discards motion file 5 -/
example : endOps { motion := some 5, const := some 4, next := 6 } = [.discard 5] := rfl

/-- the directory after the connection has ended: three complete recordings, the debris of the failed start and the
abandoned continuous recording; clean-up leaves the three recordings -/
example : (Dir.run {} ((evsOps ++ [Op.discard 5]).flatMap Op.steps)).files =
    [(⟨4, .T⟩, .partialData), (⟨4, .S⟩, .partialData), (⟨3, .T⟩, .partialData),
     (⟨0, .F⟩, .complete), (⟨2, .F⟩, .complete), (⟨1, .F⟩, .complete)] ∧
    (Dir.run {} ((evsOps ++ [Op.discard 5]).flatMap Op.steps)).cleanup.files =
    [(⟨0, .F⟩, .complete), (⟨2, .F⟩, .complete), (⟨1, .F⟩, .complete)] := by decide

/-- `Exact` is not vacuous: observation lists that break the sink protocol (a write before any start; a second
start while a file is open; a failing stop on an open file) are not translated exactly — although their translation
is still a `ValidOps` sequence (`ops_valid_any`) -/
example (leaves : Nat → Bool) :
    ¬ Exact leaves {} [.call .motion (.write 0) true] ∧
    ¬ Exact leaves {} [.call .test .start true, .call .test .start true] ∧
    ¬ Exact leaves {} [.call .const .start true, .call .const .stop false] ∧
    fsOps leaves {} [.call .motion (.write 0) true, .call .test .start true, .call .test .start true,
      .call .test .stop false] = ({ next := 2 }, [.start 0, .start 1]) := by
  refine ⟨fun h => ?_, fun h => ?_, fun h => ?_, rfl⟩
  · have := h [] _ [] rfl; cases this
  · have := h [_] _ [] rfl; cases this
  · have := h [_] _ [] rfl; cases this

/-- a second connection: the continuous recorder's first start fails, then motion -/
private def evs2 : List Ev := [.frame false { cStart := false }, .frame true {}]

set_option maxRecDepth 20000 in
/-- two connections in one life: ids continue (6 …), motion file 5 is discarded at the end of the first connection,
continuous file 4 is abandoned (never touched again) -/
example : connsOps (fun _ => true) 0 [(cfg, evs), (cfg, evs2)] =
    (9, evsOps ++ [.discard 5] ++
      [.startFail 6, .start 7, .write 7, .write 7, .start 8, .write 8, .discard 7]) := rfl

/-- two lives: the first (two connections, the failed start 6 leaving nothing) killed after 60 of its 74 system
calls, the second killed after 12 of 17 (inside `stop 9`, before the rename) -/
private def hist : List DLife :=
  [⟨[(cfg, evs), (cfg, evs2)], 60⟩, ⟨[(cfg, [.frame true {}, .frame false {}, .frame false {}])], 12⟩]

set_option maxRecDepth 20000 in
example : (livesOf (fun n => n != 6) 0 hist).map (·.ops) =
    [evsOps ++ [.discard 5] ++ [.start 7, .write 7, .write 7, .start 8, .write 8, .discard 7],
     [.start 9, .write 9, .start 10, .write 10, .write 9, .stop 9, .write 10, .write 10]] := rfl

set_option maxRecDepth 20000 in
example : (livesOf (fun n => n != 6) 0 hist).map (fun l => (l.pre.length, (l.ops.flatMap Op.steps).length)) =
    [(60, 74), (12, 17)] := by decide

set_option maxRecDepth 20000 in
/-- the crash state of the second life: the three recordings of the first life survived its kill and the restart;
recordings 9 (killed inside its stop) and 10 are debris; the next start-up leaves the three recordings -/
example :
    ((livesOf (fun n => n != 6) 0 hist)[1]?.map fun l =>
        ((afterLives {} ((livesOf (fun n => n != 6) 0 hist).take 1)).run l.pre).files) =
      some [(⟨10, .T⟩, .partialData), (⟨10, .S⟩, .partialData), (⟨9, .T⟩, .partialData), (⟨9, .S⟩, .partialData),
       (⟨0, .F⟩, .complete), (⟨2, .F⟩, .complete), (⟨1, .F⟩, .complete)] ∧
    (afterLives {} (livesOf (fun n => n != 6) 0 hist)).files =
      [(⟨0, .F⟩, .complete), (⟨2, .F⟩, .complete), (⟨1, .F⟩, .complete)] := by decide

end TR.C10Pipe
