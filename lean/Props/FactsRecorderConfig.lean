import Generated.Facts
/-! # Source facts — C03 C04: recorder.NewConfig (re-extracted by tools/gofacts at every check; one small module per concern so
that a rewrite of one function re-opens only the obligations of the properties that depend on it) -/
namespace TR.FactsProc
open Facts

/-- C03/C04: `recorder.NewConfig` builds the recording window from start-recording / stop-recording and the
location, copies min/max/preview-secs unchanged and rejects max-secs < min-secs -/
theorem recorder_config_wiring :
    windowCtorArgs = "windowsConfig.StartRecording;windowsConfig.StopRecording;float64(windowLocationConfig.Latitude);float64(windowLocationConfig.Longitude)" ∧
    recorderConfigFields = "MinSecs:thermalRecorderConfig.MinSecs;MaxSecs:thermalRecorderConfig.MaxSecs;PreviewSecs:thermalRecorderConfig.PreviewSecs;Window:*w;ConstantRecorder:thermalRecorderConfig.ConstantRecorder" ∧
    recorderConfigValidate = "conf.MaxSecs < conf.MinSecs" := ⟨rfl, rfl, rfl⟩

end TR.FactsProc
