import Props.C13
import Proofs.C13Spec
import Proofs.C04Spec
/-!
# C13 (processor part), de-monitored — acceptance by `monC13` IS the bad-frame rule

`Props.C13` states C13 through the executable monitor `monC13` (a fold of the state machine `M13.step`).
Here the monitor is taken out of the trusted reading.  The definitions (`Proofs.C13Spec`) do not mention it:

* `Step.isBad` — the step's event is a frame the parser rejected;
* `openBefore tr i` — a motion recording is open before step `i`, the way C13 counts it.  A fold
  (`!isBad && (o || hasStartOk obs) && !hasStop obs`), and in words (`openBefore_spec`): some earlier step
  carries a successful `StartRecording` on the motion sink, and neither that step nor any step after it
  (before `i`) is a bad frame or carries a `StopRecording` on the motion sink;
* `BadFrameRule tr` —
  (1) for every step: `writesGarbage obs = false` (no `WriteFrame` with the id `garbage`, on any sink);
  (2) for every step whose event is `.bad f`: `anyWrite obs = false` (no write on any sink),
      `hasStartAny obs = false` (no `StartRecording` attempt on the motion sink), and
      `openBefore tr i = true → hasStop obs = true` (an open motion recording is stopped in that step).
  `badFrameRule_plain` spells the four observation tests out as membership statements.

`monC13_iff`: for EVERY trace (the model's or one recorded from the real code) the monitor reports nothing
iff `BadFrameRule` holds.  `c13_bad_frame_rule`: hence the model's traces obey it, for every configuration
with `K ≥ 1`, every event list shorter than `garbage` and every fault placement (see `Props.C13` for why the
length bound is needed).

Corners (all exhibited below by `decide`):
* C13's notion of "open" is NOT the one of C04/C03 (`TR.C04Spec.openBefore`): here a reset closes a recording
  only through the stop it carries, and starts / stops observed on events that are not frames count.  The
  rule follows the monitor.  On the model's traces both notions are the processor's `isRec` flag
  (`model_open`, `TR.C04Spec.model_state`);
* "no start attempt" is about the motion sink only (`hasStartAny`); a start of the continuous or test
  recorder on a bad frame is not a C13 matter (C17 fixes the continuous/test layout);
* the bad frame itself always leaves no recording open (`openBefore_after_bad`), whether or not a stop was seen.
-/
namespace TR.C13Spec
open TR

/-! ## generic: any trace -/

/-- **The C13 monitor accepts exactly the traces that obey the plain bad-frame rule.** -/
theorem monC13_iff (tr : List Step) : monC13 tr = [] ↔ BadFrameRule tr :=
  monC13_iff' tr

/-- soundness alone: what an accepted trace looks like -/
theorem monC13_sound (tr : List Step) (hacc : monC13 tr = []) : BadFrameRule tr :=
  (monC13_iff tr).mp hacc

/-- completeness alone: the monitor raises no false alarm -/
theorem monC13_complete (tr : List Step) (h : BadFrameRule tr) : monC13 tr = [] :=
  (monC13_iff tr).mpr h

/-- the flag the monitor keeps is `openAfter` of the steps processed so far -/
theorem monitor_flag (tr : List Step) : (tr.foldl M13.step {}).openRec = openAfter tr :=
  fold_state tr {}

/-! ### `openBefore` in words -/

/-- **`openBefore` in words**: a motion recording is open before step `i` iff some step before `i` carries a
successful start on the motion sink and neither that step nor any later step before `i` is a bad frame or
carries a stop on the motion sink -/
theorem openBefore_spec (tr : List Step) (i : Nat) :
    openBefore tr i = true ↔
      ∃ pre st post, tr.take i = pre ++ st :: post ∧ hasStartOk st.obs = true ∧
        ∀ s ∈ st :: post, s.isBad = false ∧ hasStop s.obs = false := by
  rw [openBefore, openAfter_iff]
  simp only [AllKeep, Step.keepsOpen, Bool.and_eq_true, Bool.not_eq_true']

/-- `openBefore`, one step at a time -/
theorem openBefore_step (tr : List Step) (i : Nat) (h : i < tr.length) :
    openBefore tr 0 = false ∧
    openBefore tr (i + 1) =
      (!tr[i].isBad && (openBefore tr i || hasStartOk tr[i].obs) && !hasStop tr[i].obs) :=
  ⟨rfl, openBefore_succ tr i h⟩

/-- a bad frame leaves no recording open -/
theorem openBefore_after_bad (tr : List Step) (i : Nat) (h : i < tr.length) (f : Faults)
    (he : tr[i].ev = .bad f) : openBefore tr (i + 1) = false := by
  rw [openBefore_succ tr i h, nextOpen, (isBad_iff _).mpr ⟨f, he⟩]
  rfl

/-! ### the observation tests, read as membership -/

theorem writesGarbage_iff (obs : List Obs) :
    writesGarbage obs = true ↔ ∃ s ok, Obs.call s (.write garbage) ok ∈ obs := by
  simp only [writesGarbage, List.any_eq_true]
  constructor
  · rintro ⟨o, hm, h⟩
    split at h
    · next s id ok =>
      have : id = garbage := eq_of_beq h
      subst this
      exact ⟨s, ok, hm⟩
    · cases h
  · rintro ⟨s, ok, hm⟩
    exact ⟨_, hm, beq_self_eq_true _⟩

theorem anyWrite_iff (obs : List Obs) :
    anyWrite obs = true ↔ ∃ s id ok, Obs.call s (.write id) ok ∈ obs := by
  simp only [anyWrite, List.any_eq_true]
  constructor
  · rintro ⟨o, hm, h⟩
    split at h
    · exact ⟨_, _, _, hm⟩
    · cases h
  · rintro ⟨s, id, ok, hm⟩; exact ⟨_, hm, rfl⟩

theorem hasStartAny_iff (obs : List Obs) :
    hasStartAny obs = true ↔ ∃ ok, Obs.call .motion .start ok ∈ obs := by
  simp only [hasStartAny, List.any_eq_true]
  constructor
  · rintro ⟨o, hm, h⟩
    split at h
    · exact ⟨_, hm⟩
    · cases h
  · rintro ⟨ok, hm⟩; exact ⟨_, hm, rfl⟩

theorem hasStop_iff (obs : List Obs) :
    hasStop obs = true ↔ ∃ ok, Obs.call .motion .stop ok ∈ obs := by
  simp only [hasStop, List.any_eq_true]
  constructor
  · rintro ⟨o, hm, h⟩
    split at h
    · exact ⟨_, hm⟩
    · cases h
  · rintro ⟨ok, hm⟩; exact ⟨_, hm, rfl⟩

theorem hasStartOk_iff (obs : List Obs) :
    hasStartOk obs = true ↔ Obs.call .motion .start true ∈ obs := by
  simp only [hasStartOk, List.any_eq_true]
  constructor
  · rintro ⟨o, hm, h⟩
    split at h
    · exact hm
    · cases h
  · intro hm; exact ⟨_, hm, rfl⟩

theorem eq_false_iff_not {b : Bool} {p : Prop} (h : b = true ↔ p) : b = false ↔ ¬ p := by
  cases b
  · refine ⟨fun _ hp => ?_, fun _ => rfl⟩
    have := h.mpr hp
    cases this
  · refine ⟨fun h' => ?_, fun hn => absurd (h.mp rfl) hn⟩
    cases h'

/-- **`BadFrameRule`, spelled out on the observations**: no step hands the id `garbage` to `WriteFrame` on
any sink; a bad-frame step contains no `WriteFrame` on any sink, no `StartRecording` on the motion sink, and
— if a motion recording was open before it — a `StopRecording` on the motion sink -/
theorem badFrameRule_plain (tr : List Step) :
    BadFrameRule tr ↔
      (∀ st ∈ tr, ∀ s ok, Obs.call s (.write garbage) ok ∉ st.obs) ∧
      ∀ i (h : i < tr.length) (f : Faults), tr[i].ev = .bad f →
        (∀ s id ok, Obs.call s (.write id) ok ∉ tr[i].obs) ∧
        (∀ ok, Obs.call .motion .start ok ∉ tr[i].obs) ∧
        (openBefore tr i = true → ∃ ok, Obs.call .motion .stop ok ∈ tr[i].obs) := by
  have hg : ∀ obs, writesGarbage obs = false ↔ ∀ s ok, Obs.call s (.write garbage) ok ∉ obs := by
    intro obs
    rw [eq_false_iff_not (writesGarbage_iff obs)]
    exact ⟨fun h s ok hm => h ⟨s, ok, hm⟩, fun h ⟨s, ok, hm⟩ => h s ok hm⟩
  have hw : ∀ obs, anyWrite obs = false ↔ ∀ s id ok, Obs.call s (.write id) ok ∉ obs := by
    intro obs
    rw [eq_false_iff_not (anyWrite_iff obs)]
    exact ⟨fun h s id ok hm => h ⟨s, id, ok, hm⟩, fun h ⟨s, id, ok, hm⟩ => h s id ok hm⟩
  have hs : ∀ obs, hasStartAny obs = false ↔ ∀ ok, Obs.call .motion .start ok ∉ obs := by
    intro obs
    rw [eq_false_iff_not (hasStartAny_iff obs)]
    exact ⟨fun h ok hm => h ⟨ok, hm⟩, fun h ⟨ok, hm⟩ => h ok hm⟩
  simp only [BadFrameRule, hg, hw, hs, hasStop_iff]

/-! ### consequences of `BadFrameRule` alone -/

section consequences
variable {tr : List Step}

/-- **the content of a rejected frame never reaches any recorder** -/
theorem garbage_never_written (h : BadFrameRule tr) (st : Step) (hm : st ∈ tr) (s : Sink) (ok : Bool) :
    Obs.call s (.write garbage) ok ∉ st.obs :=
  ((badFrameRule_plain tr).mp h).1 st hm s ok

/-- **a rejected frame is never recorded**: no write on any sink during a bad-frame step -/
theorem bad_frame_not_written (h : BadFrameRule tr) (i : Nat) (hi : i < tr.length) (f : Faults)
    (he : tr[i].ev = .bad f) (s : Sink) (id : Nat) (ok : Bool) :
    Obs.call s (.write id) ok ∉ tr[i].obs :=
  (((badFrameRule_plain tr).mp h).2 i hi f he).1 s id ok

/-- no motion recording starts on a rejected frame -/
theorem bad_frame_no_start (h : BadFrameRule tr) (i : Nat) (hi : i < tr.length) (f : Faults)
    (he : tr[i].ev = .bad f) (ok : Bool) : Obs.call .motion .start ok ∉ tr[i].obs :=
  (((badFrameRule_plain tr).mp h).2 i hi f he).2.1 ok

/-- **a rejected frame ends the recording in progress cleanly**: the motion recorder is stopped in that
very step, and no recording is open after it -/
theorem bad_frame_ends_recording (h : BadFrameRule tr) (i : Nat) (hi : i < tr.length) (f : Faults)
    (he : tr[i].ev = .bad f) (ho : openBefore tr i = true) :
    (∃ ok, Obs.call .motion .stop ok ∈ tr[i].obs) ∧ openBefore tr (i + 1) = false :=
  ⟨(((badFrameRule_plain tr).mp h).2 i hi f he).2.2 ho, openBefore_after_bad tr i hi f he⟩

end consequences

/-! ## the model -/

/-- **C13 as a plain rule.**  For every configuration with `K ≥ 1`, every event list shorter than
`garbage` and every fault placement, the model's trace obeys `BadFrameRule`. -/
theorem c13_bad_frame_rule (c : PCfg) (hK : 0 < c.K) (evs : List Ev) (hlen : evs.length < garbage) :
    BadFrameRule (PState.trace c (PState.init c) evs) :=
  (monC13_iff _).mp (C13.c13_bad_frames c hK evs hlen)

/-- on the model's traces C13's `openAfter` is the processor's own `isRec` flag -/
theorem model_open (c : PCfg) (hK : 0 < c.K) (evs : List Ev) (hlen : evs.length < garbage) :
    openAfter (PState.trace c (PState.init c) evs) = (PState.after c (PState.init c) evs).isRec := by
  have h := trace_fold_inv c M13.step
    (fun k s m => Good c s ∧ s.n ≤ k ∧ (k ≤ garbage → Rel13 s m))
    (fun k s m e hi => by
      obtain ⟨hg, hn, hr⟩ := hi
      refine ⟨good_step c s e hg, ?_, ?_⟩
      · have := step_n_le c s e; omega
      · intro hk
        exact step_rel13 c s m e hg (by omega) (hr (by omega)))
    evs 0 (PState.init c) {} ⟨good_init c hK, Nat.le_refl _, fun _ => ⟨rfl, rfl⟩⟩
  rw [← monitor_flag]
  exact (h.2.2 (by omega)).1

/-! ## non-vacuity -/

private def cfg : PCfg := ⟨3, 2, 9, 1, true, 20⟩

/-- a recording cut by a bad frame, a bad frame while nothing is open, a recording that runs out, one cut by
a reset, a bad frame right after -/
private def evs : List Ev :=
  [.frame true {}, .frame true {}, .bad {}, .bad { mStop := false }, .testReq, .frame true {},
   .frame false {}, .frame false {}, .frame true {}, .reset {}, .bad {}, .frame true {}, .bad { mStop := false }]

set_option maxRecDepth 20000 in
/-- the model's run: accepted, obeys the plain rule; where a recording is open -/
example :
    let tr := PState.trace cfg (PState.init cfg) evs
    monC13 tr = [] ∧ BadFrameRule tr ∧
    (List.range 14).map (openBefore tr) =
      [false, true, true, false, false, false, true, false, false, true, false, false, true, false] ∧
    tr.map (fun st => (st.isBad, hasStop st.obs, anyWrite st.obs)) =
      [(false, false, true), (false, false, true), (true, true, false), (true, false, false),
       (false, false, false), (false, false, true), (false, true, true), (false, false, true),
       (false, false, true), (false, true, false), (true, false, false), (false, false, true),
       (true, true, false)] := by
  decide

/-- a hand-written accepted trace: writes of ordinary ids, a bad frame that stops the open recording (failed
stop included), a bad frame with nothing open and no observations -/
private def good : List Step :=
  [⟨.frame true {}, [.md, .call .motion .can true, .call .motion .start true, .rs,
      .call .motion (.write 0) true, .call .const .start true, .call .const (.write 0) true]⟩,
   ⟨.bad { mStop := false }, [.re, .call .motion .stop false, .call .const .stop true]⟩,
   ⟨.bad {}, [.call .const .stop true]⟩,
   ⟨.frame true {}, [.md, .call .motion .can true, .call .motion .start true, .rs,
      .call .motion (.write 1) true, .call .motion .stop true]⟩,
   ⟨.bad {}, []⟩]

example :
    monC13 good = [] ∧ BadFrameRule good ∧
    (List.range 6).map (openBefore good) = [false, true, false, false, false, false] := by decide

/-- a write during a bad frame: rejected, and the rule fails -/
example :
    let tr : List Step := [⟨.bad {}, [.call .const (.write 3) true]⟩]
    monC13 tr = ["C13:write-during-bad-frame"] ∧ ¬ BadFrameRule tr := by decide

/-- a recording left open across a bad frame: rejected, and the rule fails -/
example :
    let tr : List Step := [⟨.frame true {}, [.call .motion .start true]⟩, ⟨.bad {}, []⟩]
    monC13 tr = ["C13:recording-not-ended"] ∧ ¬ BadFrameRule tr ∧ openBefore tr 1 = true := by decide

/-- the rejected content written (on any sink, on any kind of step): rejected, and the rule fails -/
example :
    let tr (s : Sink) : List Step := [⟨.frame true {}, [.call s (.write garbage) true]⟩]
    monC13 (tr .motion) = ["C13:rejected-frame-content-written"] ∧
    ¬ BadFrameRule (tr .motion) ∧ ¬ BadFrameRule (tr .const) ∧ ¬ BadFrameRule (tr .test) ∧
    ¬ BadFrameRule [⟨.reset {}, [.call .test (.write garbage) false]⟩] := by decide

/-- a start attempt on the motion sink during a bad frame (successful or not): rejected, and the rule fails -/
example :
    ¬ BadFrameRule [⟨.bad {}, [.call .motion .start true]⟩] ∧
    ¬ BadFrameRule [⟨.bad {}, [.call .motion .start false]⟩] ∧
    monC13 [⟨.bad {}, [.call .motion .start false]⟩] = ["C13:start-during-bad-frame"] := by decide

/-- corner: a failed start opens nothing, so the bad frame needs no stop -/
example : BadFrameRule [⟨.frame true {}, [.call .motion .start false]⟩, ⟨.bad {}, []⟩] := by decide

/-- corner: C13 counts "open" differently from C04.  A reset without a stop observation leaves C13's flag
set (the following bad frame must carry the stop) while `TR.C04Spec.openBefore` says closed; a start
observed on a test request opens a recording for C13 but not for C04.  The rule follows the monitor. -/
example :
    let tr : List Step := [⟨.frame true {}, [.call .motion .start true]⟩, ⟨.reset {}, []⟩, ⟨.bad {}, []⟩]
    let tr' : List Step := [⟨.testReq, [.call .motion .start true]⟩, ⟨.bad {}, []⟩]
    openBefore tr 2 = true ∧ C04Spec.openBefore tr 2 = false ∧
    monC13 tr = ["C13:recording-not-ended"] ∧ ¬ BadFrameRule tr ∧
    openBefore tr' 1 = true ∧ C04Spec.openBefore tr' 1 = false ∧ ¬ BadFrameRule tr' := by decide

/-- corner: only the motion sink's start is a C13 matter -/
example : BadFrameRule [⟨.bad {}, [.call .const .start true, .call .test .start true]⟩] := by decide

end TR.C13Spec
