import Proofs.ThrottleC06
/-!
# C06 — the throttle is transparent until it throttles, pairs base calls, cuts cleanly and
reports one event per incident

Quantifier: every bucket capacity and quantum, every minimum recording length, every list of
upstream start / write / stop requests that obeys the recorder protocol (`utrace` drops the
requests the protocol forbids), with ANY clock — not even a non-decreasing one is needed, because
the bucket's `adjust` uses truncated subtraction and never lowers `avail` — and every pattern of
base-recorder failures.

The monitor `monC06` (TR/ThrMon.lean) checks on the trace:
* pairing: `base.Start` only while no base file is open, `base.Write`/`base.Stop` only while one is;
* an upstream stop is forwarded iff a base file is open;
* a file closed by a throttle cut (a `base.Stop` inside a write request) holds ≥ `minLen` frames;
* exactly one `throttled` event per suppressed start and per cut, none otherwise (never per frame);
* until the first `throttled` event every request is forwarded unchanged.
-/
namespace TR.C06
open TR

set_option linter.unusedVariables false in
/-- **C06.** For every bucket (cap, q ≥ 1), every minimum length, every upstream request list (the
upstream obeys the recorder protocol — that is what `utrace` encodes) with any clock, and every
pattern of base-recorder failures: the base recorder sees properly paired calls, a stop is
forwarded iff a file is open, a file closed by a throttle cut holds at least `minLen` frames,
exactly one `throttled` event is emitted per suppressed start or cut (never one per frame), and
until the first throttling every request is forwarded unchanged.
(`hc`, `hq` document the real bucket; the proof does not use them — see `c06_monitor_any_bucket`.) -/
theorem c06_monitor (cap q minLen : Nat) (hc : 0 < cap) (hq : 0 < q) (reqs : List TReq) :
    monC06 minLen (utrace { t := TState.init cap q minLen } reqs) = [] :=
  monC06_ok cap q minLen reqs

/-- **C06**, without the side conditions on the bucket and without any clock hypothesis. -/
theorem c06_monitor_any_bucket (cap q minLen : Nat) (reqs : List TReq) :
    monC06 minLen (utrace { t := TState.init cap q minLen } reqs) = [] :=
  monC06_ok cap q minLen reqs

/-- **C06 (c), spelled out.** Every base start happens with `Available() ≥ minLen`: whenever
`maybeStartRecording` touches the base recorder, the bucket holds a whole minimum-length file. -/
theorem c06_start_has_min_tokens (s : TState) (tick tag : Nat) (ok : Bool)
    (h : (s.maybeStart tick tag ok).2.1 ≠ []) : (s.bucket.available tick).2 ≥ s.minLen := by
  obtain ⟨_, _, hm⟩ := maybeStart_cases s tick tag ok
  rcases hm with ⟨hge, _⟩ | ⟨_, hnil, _⟩
  · exact hge
  · exact absurd hnil h

/-- **C06 (cut), spelled out.** A write request made while recording is either forwarded
unchanged or — only when the bucket was empty before the call — answered by exactly one
`throttled` event followed by one `base.Stop`. -/
theorem c06_write_forward_or_cut (s : TState) (tk id : Nat) (sok wok pok : Bool)
    (hr : s.recording = true) :
    (s.step (.write tk id sok wok pok)).2 = [TObs.bWrite id wok, TObs.ret wok] ∨
    ((s.step (.write tk id sok wok pok)).2 = [TObs.throttled, TObs.bStop pok, TObs.ret pok] ∧
      s.bucket.avail = 0) := by
  obtain ⟨_, h⟩ := step_write_rec_cases s tk id sok wok pok hr
  rcases h with ⟨h, _⟩ | ⟨h, _, hz⟩
  · exact Or.inl h
  · exact Or.inr ⟨h, hz⟩

/-! ### Non-vacuity -/

/-- a cut, then silence (no event per frame), then a restart once tokens are back -/
example :
    let reqs : List TReq := [.start 0 7 true, .write 0 1 true true true, .write 0 2 true true true,
                             .write 0 3 true true true, .write 0 4 true true true,
                             .write 9 5 true true true, .stop true, .stop true]
    (utrace { t := TState.init 2 1 2 } reqs).map (·.obs) =
      [[.bStart 7 true, .ret true], [.bWrite 1 true, .ret true], [.bWrite 2 true, .ret true],
       [.throttled, .bStop true, .ret true], [.ret true],
       [.bStart 7 true, .bWrite 5 true, .ret true], [.bStop true, .ret true]] := by decide

/-- a suppressed start: one event, then nothing is forwarded and nothing more is reported -/
example :
    let reqs : List TReq := [.start 0 7 true, .write 0 1 true true true, .write 0 2 true true true,
                             .stop true]
    (utrace { t := TState.init 2 1 3 } reqs).map (·.obs) =
      [[.throttled, .ret true], [.ret true], [.ret true], [.ret true]] := by decide

/-- the monitor is not trivially empty: a cut after one frame with `minLen = 2` is rejected … -/
example :
    monC06 2 [{ req := .start 0 7 true, obs := [.bStart 7 true, .ret true] },
              { req := .write 0 1 true true true, obs := [.bWrite 1 true, .ret true] },
              { req := .write 0 2 true true true, obs := [.throttled, .bStop true, .ret true] }]
      = ["C06:cut-file-shorter-than-minimum"] := by decide

/-- … and so are one event per frame, and a request altered before any throttling -/
example :
    monC06 0 [{ req := .start 0 7 true, obs := [.throttled, .ret true] },
              { req := .write 0 1 true true true, obs := [.throttled, .ret true] }]
      = ["C06:throttled-event-count"] := by decide

example :
    monC06 0 [{ req := .start 0 7 true, obs := [.bStart 8 true, .ret true] }]
      = ["C06:start-not-transparent"] := by decide

end TR.C06
