import TR.FS
import Generated.Facts
import Proofs.FSC10
import Proofs.C10Glob
import Props.C10

/-!
# C10 (clean-up on arbitrary names) — the start-up clean-up removes EXACTLY the names that contain `.cptv.temp`

`Props.C10` decides the clean-up for the three names of a recording with a digits-and-dots time stamp.
Here the name is arbitrary: the pattern `"*." + cptvTempExt + "*"` = `*.cptv.temp*` matches a name iff the
block `.cptv.temp` occurs somewhere in it (`<:+:` is `List.IsInfix`: a contiguous block).

`globMatch` looks at the PATTERN character first: `'*'` is the wildcard, any other pattern character must
equal the name character.  A `'*'` in the NAME is an ordinary character.
-/
namespace TR.C10Glob
open TR.FS TR.C10

/-! ## 1. `* lit *` means "contains `lit`" -/

/-- a name that contains `lit` is matched by `* lit *` — for ANY `lit` (a `'*'` inside `lit` is a wildcard and a
wildcard also matches a `'*'`) -/
theorem glob_star_lit_star_of_infix (lit s : List Char) (h : lit <:+: s) :
    globMatch ('*' :: (lit ++ ['*'])) s = true :=
  glob_of_infix lit s h

/-- the general lemma: for a literal without `'*'`, `* lit *` matches exactly the names that contain `lit` -/
theorem glob_star_lit_star_iff (lit : List Char) (hl : ∀ c ∈ lit, c ≠ '*') (s : List Char) :
    globMatch ('*' :: (lit ++ ['*'])) s = true ↔ lit <:+: s :=
  ⟨infix_of_glob lit hl s, glob_of_infix lit s⟩

/-- the no-star hypothesis is needed for "matched ⇒ contains": `***` matches the empty name, which does not
contain `*` -/
example : globMatch ('*' :: (['*'] ++ ['*'])) [] = true ∧ ¬ ['*'] <:+: ([] : List Char) := by
  refine ⟨by simp [globMatch], by decide⟩

/-! ## 2. The real pattern -/

/-- what the start-up clean-up does to a directory entry called `n`: the pattern is the expression of the
source (`Props.C10.c10_source_facts`: `cleanupGlobExpr`) over the regenerated constant `cptvTempExt` -/
def removed (n : String) : Bool :=
  globMatch ("*." ++ Facts.cptvTempExt ++ "*").toList n.toList

/-- clean-up removes `n` iff `n` contains `.cptv.temp` -/
theorem cleanup_glob_iff (n : String) :
    globMatch ("*." ++ Facts.cptvTempExt ++ "*").toList n.toList = true ↔
      ".cptv.temp".toList <:+: n.toList := by
  rw [pattern_eq, show ".cptv.temp".toList = tempLit from by decide]
  exact glob_star_lit_star_iff tempLit tempLit_nostar n.toList

theorem removed_iff (n : String) : removed n = true ↔ ".cptv.temp".toList <:+: n.toList :=
  cleanup_glob_iff n

theorem kept_iff (n : String) : removed n = false ↔ ¬ ".cptv.temp".toList <:+: n.toList := by
  rw [← removed_iff, Bool.not_eq_true]

/-! ## 3. Corollaries -/

/-- (a) `<stem>.cptv.temp<rest>` is removed, whatever the stem and the rest -/
theorem removes_temp_any (stem rest : String) : removed (stem ++ ".cptv.temp" ++ rest) = true := by
  rw [removed_iff, String.toList_append, String.toList_append, List.append_assoc]
  exact List.infix_append' _ _ _

/-- (a) the compressed temporary output `<stem>.cptv.temp` is removed, whatever the stem -/
theorem removes_T (stem : String) : removed (stem ++ ".cptv.temp") = true := by
  have := removes_temp_any stem ""
  rwa [String.append_empty] at this

/-- (a) the scratch file `<stem>.cptv.temp.tmp` is removed, whatever the stem -/
theorem removes_S (stem : String) : removed (stem ++ ".cptv.temp.tmp") = true := by
  have := removes_temp_any stem ".tmp"
  rwa [String.append_assoc] at this

/-- (b) a name that does not contain `.cptv.temp` is kept -/
theorem keeps_of_not_infix (n : String) (h : ¬ ".cptv.temp".toList <:+: n.toList) : removed n = false :=
  (kept_iff n).2 h

/-- (b) appending `.cptv` creates no occurrence of `.cptv.temp`: an occurrence would have to end inside
`.cptv` -/
theorem infix_append_cptv_iff (stem : String) :
    ".cptv.temp".toList <:+: (stem ++ ".cptv").toList ↔ ".cptv.temp".toList <:+: stem.toList := by
  rw [String.toList_append]
  simp only [String.reduceToList]
  exact infix_append_noOverlap _ _ _ (by decide)

/-- (b) a finished recording `<stem>.cptv` is kept iff its stem does not contain `.cptv.temp` -/
theorem keeps_F_iff (stem : String) :
    removed (stem ++ ".cptv") = false ↔ ¬ ".cptv.temp".toList <:+: stem.toList := by
  rw [kept_iff, infix_append_cptv_iff]

/-- (b) … so `<stem>.cptv` IS removed when the stem contains `.cptv.temp` (e.g. `x.cptv.temp.cptv`) -/
theorem removes_F_iff (stem : String) :
    removed (stem ++ ".cptv") = true ↔ ".cptv.temp".toList <:+: stem.toList := by
  rw [removed_iff, infix_append_cptv_iff]

/-- (b) the case of `Props.C10.cleanup_keeps_F`: a digits-and-dots stamp has no `e` -/
theorem keeps_F_of_no_e (stem : String) (h : 'e' ∉ stem.toList) : removed (stem ++ ".cptv") = false := by
  rw [keeps_F_iff]
  intro hi
  exact h (hi.subset (by simp only [String.reduceToList]; decide))

/-! (c) the cases the differential test feeds to `filepath.Glob` -/

theorem keeps_no_leading_dot : removed "cptv.temp" = false := by rw [kept_iff]; simp only [String.reduceToList]; decide
theorem keeps_cptv_tmp : removed "a.cptv.tmp" = false := by rw [kept_iff]; simp only [String.reduceToList]; decide
theorem keeps_upper_case : removed "b.CPTV.TEMP" = false := by rw [kept_iff]; simp only [String.reduceToList]; decide
theorem keeps_truncated : removed "c.cptv.tem" = false := by rw [kept_iff]; simp only [String.reduceToList]; decide
theorem keeps_notes : removed "notes.txt" = false := by rw [kept_iff]; simp only [String.reduceToList]; decide
theorem removes_bare : removed ".cptv.temp" = true := by rw [removed_iff]; simp only [String.reduceToList]; decide
theorem removes_temporary : removed "x.cptv.temporary" = true := by rw [removed_iff]; simp only [String.reduceToList]; decide
theorem removes_temp_then_cptv : removed "x.cptv.temp.cptv" = true := by rw [removed_iff]; simp only [String.reduceToList]; decide
/-- a `'*'` in a NAME is an ordinary character -/
theorem keeps_star_name : removed "*" = false := by rw [kept_iff]; simp only [String.reduceToList]; decide

/-- agreement with `Props.C10`: `removedByCleanup` is `removed` of the file name -/
theorem removedByCleanup_eq (stamp : String) (k : Kind) :
    removedByCleanup ("*." ++ Facts.cptvTempExt ++ "*") stamp k = removed (fileName stamp k) := rfl

end TR.C10Glob
