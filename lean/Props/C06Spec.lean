import Props.C06
import Props.C11Thr
import Proofs.C06Spec
/-!
# C06 (and the throttle's C11), de-monitored — acceptance by `monC06` / `monC11Thr` IS a plain statement
about the trace

`Props.C06` states C06 through the executable monitor `monC06 minLen` (a fold of the state machine
`M6.step`), `Props.C11Thr` states "deferred starts carry the arguments of the latest start" through
`monC11Thr` (a fold of `M11.step`).  Here both monitors are taken out of the trusted reading.  The definitions
(`Proofs.C06Spec`) do not mention them.  `tr : List TStep` is any trace (the model's or one recorded from the
real code); `tr[i].req` is the upstream request of step `i`, `tr[i].obs` what was observed during it.

(A) C06
* `baseOf obs`, `baseCalls tr` — the base-recorder calls (`bStart/bWrite/bStop`; not `throttled`, not `ret`)
  of one step / of the whole trace, in order;
* `baseOpenAfter cs` — a base file is open after the calls `cs`.  A fold (a successful `bStart` opens, a
  `bStop` closes whatever its outcome, nothing else matters — in particular a FAILED `bStart` opens nothing),
  and in words (`baseOpenAfter_spec`): some successful `bStart` is followed by no `bStop`;
* `framesInFile cs` — the number of `bWrite`s (successful or not) since the last successful `bStart`
  (`framesInFile_spec`);
* `BasePaired tr` — in `baseCalls tr`, position by position: a `bWrite` and a `bStop` only when the calls
  before it leave a file open; a `bStart` (successful or not) only when they leave none open;
* `CutsLongEnough minLen tr` — whenever a `bStop` is observed at position `j` of a `.write` step `i`:
  `minLen ≤ framesInFile (baseCalls (tr.take i) ++ baseOf (tr[i].obs.take j))`;
* `EventsExact tr` — every step with a `SuppressedStart` (a `.start` request, no `bStart` observed) or a `Cut`
  (a `.write` request, a `bStop` observed) contains exactly one `throttled`; every other step contains none;
* `TransparentUntilThrottled tr` — if no step of `tr.take (i+1)` contains `throttled` then
  `tr[i].obs = forwarded tr[i].req` (`[bStart tag ok, ret ok]`, `[bWrite id wok, ret wok]`, `[bStop ok, ret ok]`);
* `StopForwarding tr` — at a `.stop` step `i`: a `bStop` is observed iff `baseOpenAfter (baseCalls (tr.take i))`.

`monC06_iff`: for EVERY trace the monitor reports nothing iff the five statements hold (`C06Spec`).  No
adjustment of the conjunction was needed; the corners follow the monitor and are listed below.
`c06_spec`: hence the model's traces satisfy them, for every bucket, minimum length, request list, clock and
base-failure pattern.  `cut_file_has_minLen` combines pairing and clean cuts into the user-facing sentence:
the base calls before a cut split as `pre ++ bStart tag true :: post` with neither a `bStop` nor a further
successful `bStart` in `post`, and `post` contains at least `minLen` `bWrite`s.

(B) C11 through the throttle
* `latestTag tr i` — the tag of the last `.start` REQUEST among steps `0..i` (`latestTag_spec`);
* `FreshTags tr` — every `bStart tag _` observed at step `i` has `latestTag tr i = some tag`;
* `monC11Thr_iff`, `c11thr_fresh_tags`.

Corners (all as in the monitors):
* `CutsLongEnough` counts `bWrite`s since the last SUCCESSFUL `bStart` among all base calls before the
  `bStop`, whether or not a file is open there (a `bStop` does not reset the count); when `BasePaired` holds
  a file is open at every `bStop`, so the count is the content of the file being closed
  (`cut_file_has_minLen`).  Failed `bWrite`s count as frames.  Every `bStop` inside a `.write` step is checked.
* `bStop`s observed in `.start` steps are constrained by pairing only; `bStart`s in `.stop` steps likewise.
* Transparency constrains nothing from the first `throttled` on; `ret` values are constrained only by
  transparency.
* A `bStart` observed before any `.start` request violates `FreshTags` (`latestTag = none`).
-/
namespace TR.C06Spec
open TR

/-! ## (A) generic: any trace -/

/-- **The C06 monitor accepts exactly the traces that satisfy the five plain statements.** -/
theorem monC06_iff (minLen : Nat) (tr : List TStep) :
    monC06 minLen tr = [] ↔
      (BasePaired tr ∧ CutsLongEnough minLen tr ∧ EventsExact tr ∧ TransparentUntilThrottled tr ∧
        StopForwarding tr) :=
  monC06_iff' minLen tr

/-- soundness alone: what an accepted trace looks like -/
theorem monC06_sound (minLen : Nat) (tr : List TStep) (hacc : monC06 minLen tr = []) :
    BasePaired tr ∧ CutsLongEnough minLen tr ∧ EventsExact tr ∧ TransparentUntilThrottled tr ∧
      StopForwarding tr :=
  (monC06_iff minLen tr).mp hacc

/-- completeness alone: the monitor raises no false alarm -/
theorem monC06_complete (minLen : Nat) (tr : List TStep) (h1 : BasePaired tr) (h2 : CutsLongEnough minLen tr)
    (h3 : EventsExact tr) (h4 : TransparentUntilThrottled tr) (h5 : StopForwarding tr) :
    monC06 minLen tr = [] :=
  (monC06_iff minLen tr).mpr ⟨h1, h2, h3, h4, h5⟩

/-- **`baseOpenAfter` in words**: a base file is open after `cs` iff `cs` contains a successful `bStart`
after which there is no `bStop` (successful or not) -/
theorem baseOpenAfter_spec (cs : List TObs) :
    baseOpenAfter cs = true ↔
      ∃ pre tag post, cs = pre ++ TObs.bStart tag true :: post ∧ ∀ ok, TObs.bStop ok ∉ post :=
  baseOpenAfter_iff cs

/-- **`framesInFile` in words**: if `cs = pre ++ bStart tag true :: post` with no successful `bStart` in
`post`, it is the number of `bWrite`s in `post`; with no successful `bStart` at all, the number of all
`bWrite`s -/
theorem framesInFile_words (cs : List TObs) :
    (∀ pre tag post, cs = pre ++ TObs.bStart tag true :: post → (∀ tag', TObs.bStart tag' true ∉ post) →
      framesInFile cs = writeCount post) ∧
    ((∀ tag, TObs.bStart tag true ∉ cs) → framesInFile cs = writeCount cs) :=
  framesInFile_spec cs

/-- the state the monitor keeps is (`baseOpenAfter`, `framesInFile`) of the base calls so far, and "some
step so far emitted `throttled`" -/
theorem monitor_state_is (minLen : Nat) (tr : List TStep) :
    (tr.foldl (M6.step minLen) {}).baseOpen = baseOpenAfter (baseCalls tr) ∧
    (tr.foldl (M6.step minLen) {}).sinceStart = framesInFile (baseCalls tr) ∧
    ((tr.foldl (M6.step minLen) {}).throttledSoFar = true ↔ ∃ s ∈ tr, TObs.throttled ∈ s.obs) :=
  monitor_state minLen tr

/-- `BasePaired`, per step `i` and position `j` in its observations: with `cs` the base calls made before
that observation, a `bWrite`/`bStop` needs `baseOpenAfter cs`, a `bStart` needs `¬ baseOpenAfter cs` -/
theorem basePaired_at {tr : List TStep} (hp : BasePaired tr) (i : Nat) (h : i < tr.length) (j : Nat)
    (hj : j < tr[i].obs.length) :
    match tr[i].obs[j] with
    | .bWrite _ _ => baseOpenAfter (baseCalls (tr.take i) ++ baseOf (tr[i].obs.take j)) = true
    | .bStop _ => baseOpenAfter (baseCalls (tr.take i) ++ baseOf (tr[i].obs.take j)) = true
    | .bStart _ _ => baseOpenAfter (baseCalls (tr.take i) ++ baseOf (tr[i].obs.take j)) = false
    | _ => True :=
  (match_iff_okWhen _ _).mpr ((basePaired_nested tr).mp hp i h j hj)

/-- **A throttle-cut file holds at least `minLen` frames.**  In a trace with paired base calls and clean
cuts, at every `bStop` observed during a `.write` request the base calls made before it split as
`pre ++ bStart tag true :: post`, where `post` contains no `bStop`, no further successful `bStart`, and at
least `minLen` `bWrite`s. -/
theorem cut_file_has_minLen {minLen : Nat} {tr : List TStep} (hp : BasePaired tr)
    (hc : CutsLongEnough minLen tr) (i : Nat) (h : i < tr.length) (hw : isWriteReq tr[i].req = true)
    (j : Nat) (hj : j < tr[i].obs.length) (ok : Bool) (hs : tr[i].obs[j] = TObs.bStop ok) :
    ∃ pre tag post,
      baseCalls (tr.take i) ++ baseOf (tr[i].obs.take j) = pre ++ TObs.bStart tag true :: post ∧
      (∀ ok', TObs.bStop ok' ∉ post) ∧ (∀ tag', TObs.bStart tag' true ∉ post) ∧ minLen ≤ writeCount post := by
  have hopen := basePaired_at hp i h j hj
  rw [hs] at hopen
  obtain ⟨pre, tag, post, he, h1, h2⟩ := open_split _ hopen
  refine ⟨pre, tag, post, he, h1, h2, ?_⟩
  have := hc i h hw j hj ⟨ok, hs⟩
  rw [(framesInFile_spec _).1 pre tag post he h2] at this
  exact this

/-- `EventsExact`, spelled out: never more than one `throttled` in a step, none at all in a `.stop` step -/
theorem events_at_most_one {tr : List TStep} (he : EventsExact tr) (s : TStep) (hs : s ∈ tr) :
    s.obs.count TObs.throttled ≤ 1 ∧ ((∃ ok, s.req = TReq.stop ok) → TObs.throttled ∉ s.obs) := by
  obtain ⟨h1, h0⟩ := he s hs
  constructor
  · by_cases hi : SuppressedStart s ∨ Cut s
    · rw [h1 hi]; exact Nat.le_refl 1
    · rw [h0 hi]; exact Nat.zero_le 1
  · rintro ⟨ok, hr⟩ hm
    have hi : ¬ (SuppressedStart s ∨ Cut s) := by
      rintro (⟨⟨_, _, _, e⟩, _⟩ | ⟨⟨_, _, _, _, _, e⟩, _⟩) <;> rw [hr] at e <;> cases e
    have := h0 hi
    have hpos : 0 < s.obs.count TObs.throttled := List.count_pos_iff.mpr hm
    omega

/-! ## (A) the model -/

/-- **C06 as a plain specification.**  For every bucket (capacity, quantum), every minimum recording
length, every upstream request list obeying the recorder protocol (`utrace` drops the requests the protocol
forbids), with any clock and any pattern of base-recorder failures, the throttle's trace has paired base
calls, clean cuts of at least `minLen` frames, exactly one `throttled` per suppressed start or cut and none
otherwise, is transparent until the first `throttled`, and forwards a stop iff a base file is open.
(`c06_monitor` carries the documentary hypotheses `0 < cap`, `0 < q`; they are not needed.) -/
theorem c06_spec (cap q minLen : Nat) (reqs : List TReq) :
    BasePaired (utrace { t := TState.init cap q minLen } reqs) ∧
    CutsLongEnough minLen (utrace { t := TState.init cap q minLen } reqs) ∧
    EventsExact (utrace { t := TState.init cap q minLen } reqs) ∧
    TransparentUntilThrottled (utrace { t := TState.init cap q minLen } reqs) ∧
    StopForwarding (utrace { t := TState.init cap q minLen } reqs) :=
  (monC06_iff _ _).mp (C06.c06_monitor_any_bucket cap q minLen reqs)

/-- the same from `c06_monitor`, with its hypotheses -/
theorem c06_spec' (cap q minLen : Nat) (hc : 0 < cap) (hq : 0 < q) (reqs : List TReq) :
    C06Spec minLen (utrace { t := TState.init cap q minLen } reqs) :=
  (monC06_iff' _ _).mp (C06.c06_monitor cap q minLen hc hq reqs)

/-! ## (B) the tag monitor -/

/-- **The throttle's C11 monitor accepts exactly the traces in which every base start carries the tag of the
latest upstream start request at or before its step.** -/
theorem monC11Thr_iff (tr : List TStep) :
    monC11Thr tr = [] ↔
      ∀ i (h : i < tr.length), ∀ tag ok, TObs.bStart tag ok ∈ tr[i].obs → latestTag tr i = some tag :=
  monC11Thr_iff' tr

theorem monC11Thr_sound (tr : List TStep) (hacc : monC11Thr tr = []) : FreshTags tr :=
  (monC11Thr_iff tr).mp hacc

theorem monC11Thr_complete (tr : List TStep) (h : FreshTags tr) : monC11Thr tr = [] :=
  (monC11Thr_iff tr).mpr h

/-- **`latestTag` in words**: `latestTag tr i = some tag` iff the steps `0..i` split as `pre ++ s :: post`
with `s` a `.start` request carrying `tag` and no `.start` request in `post` -/
theorem latestTag_spec (tr : List TStep) (i tag : Nat) :
    latestTag tr i = some tag ↔
      ∃ pre s post, tr.take (i + 1) = pre ++ s :: post ∧ (∃ t ok, s.req = TReq.start t tag ok) ∧
        ∀ x ∈ post, ∀ t tag' ok, x.req ≠ TReq.start t tag' ok := by
  rw [latestTag_iff]
  have hs : ∀ s : TStep, startTag? s.req = some tag ↔ ∃ t ok, s.req = TReq.start t tag ok := by
    intro s
    cases hr : s.req with
    | start t tg ok =>
      constructor
      · intro h; cases h; exact ⟨t, ok, rfl⟩
      · rintro ⟨_, _, h⟩; cases h; rfl
    | write t id a b c => exact ⟨fun h => (nomatch h), fun ⟨_, _, h⟩ => (nomatch h)⟩
    | stop ok => exact ⟨fun h => (nomatch h), fun ⟨_, _, h⟩ => (nomatch h)⟩
  have hn : ∀ x : TStep, startTag? x.req = none ↔ ∀ t tag' ok, x.req ≠ TReq.start t tag' ok := by
    intro x
    cases hr : x.req with
    | start t tg ok => exact ⟨fun h => (nomatch h), fun h => absurd rfl (h t tg ok)⟩
    | write t id a b c => exact ⟨fun _ _ _ _ h => (nomatch h), fun _ => rfl⟩
    | stop ok => exact ⟨fun _ _ _ _ h => (nomatch h), fun _ => rfl⟩
  constructor
  · rintro ⟨pre, s, post, he, h1, h2⟩
    exact ⟨pre, s, post, he, (hs s).mp h1, fun x hx => (hn x).mp (h2 x hx)⟩
  · rintro ⟨pre, s, post, he, h1, h2⟩
    exact ⟨pre, s, post, he, (hs s).mpr h1, fun x hx => (hn x).mpr (h2 x hx)⟩

/-- **C11 through the throttle, as a plain specification.**  For every bucket, minimum length, request list,
clock and base-failure pattern: every file the throttle starts — at once or deferred into the middle of a
trigger — is started with the tag (background / threshold) of the latest upstream start request. -/
theorem c11thr_fresh_tags (cap q minLen : Nat) (reqs : List TReq) :
    FreshTags (utrace { t := TState.init cap q minLen } reqs) :=
  (monC11Thr_iff _).mp (C11T.c11_threshold_at_trigger cap q minLen reqs)

/-! ## (C) non-vacuity -/

/-- a run of the model (`cap = 2`, `q = 1`, `minLen = 2`): two frames, a cut, silence, a restart in the middle
of the trigger once two tokens are back, a stop; then a suppressed start (tag 8), silence, and a deferred
start — with tag 8 — in the middle of that trigger; the second `.stop` in a row is refused by the protocol -/
private def run : List TReq :=
  [.start 0 7 true, .write 0 1 true true true, .write 0 2 true true true, .write 0 3 true true true,
   .write 0 4 true true true, .write 9 5 true true true, .stop true, .stop true,
   .start 9 8 true, .write 9 6 true true true, .write 12 7 true true true, .stop true]

private def runTrace : List TStep := utrace { t := TState.init 2 1 2 } run

example : runTrace.map (·.obs) =
    [[.bStart 7 true, .ret true], [.bWrite 1 true, .ret true], [.bWrite 2 true, .ret true],
     [.throttled, .bStop true, .ret true], [.ret true],
     [.bStart 7 true, .bWrite 5 true, .ret true], [.bStop true, .ret true],
     [.throttled, .ret true], [.ret true],
     [.bStart 8 true, .bWrite 7 true, .ret true], [.bStop true, .ret true]] := by decide

example : baseCalls runTrace =
    [.bStart 7 true, .bWrite 1 true, .bWrite 2 true, .bStop true, .bStart 7 true, .bWrite 5 true, .bStop true,
     .bStart 8 true, .bWrite 7 true, .bStop true] := by decide

/-- all five statements hold of the run (decided directly, not through the monitor), step 3 is a cut, step 7
a suppressed start, and the tags are fresh -/
example :
    BasePaired runTrace ∧ CutsLongEnough 2 runTrace ∧ EventsExact runTrace ∧
    TransparentUntilThrottled runTrace ∧ StopForwarding runTrace ∧
    Cut runTrace[3] ∧ SuppressedStart runTrace[7] ∧ ¬ Cut runTrace[6] ∧ ¬ SuppressedStart runTrace[0] ∧
    FreshTags runTrace ∧ monC06 2 runTrace = [] ∧ monC11Thr runTrace = [] := by decide

example : (List.range 11).map (latestTag runTrace) =
    [some 7, some 7, some 7, some 7, some 7, some 7, some 7, some 8, some 8, some 8, some 8] := by decide

/-- the same run does NOT have clean cuts for `minLen = 3`: the statement is not vacuous in `minLen` -/
example : ¬ CutsLongEnough 3 runTrace := by decide

/-- an unpaired write (after the stop): rejected, `BasePaired` fails, the other four hold -/
example :
    let tr : List TStep :=
      [⟨.start 0 7 true, [.bStart 7 true, .ret true]⟩, ⟨.stop true, [.bStop true, .ret true]⟩,
       ⟨.start 0 7 true, [.bWrite 1 true, .throttled, .ret true]⟩]
    monC06 0 tr = ["C06:base-write-outside-file"] ∧ ¬ BasePaired tr ∧ CutsLongEnough 0 tr ∧ EventsExact tr ∧
      TransparentUntilThrottled tr ∧ StopForwarding tr := by decide

/-- a write after a FAILED base start, and a start attempt while a file is open: `BasePaired` fails -/
example :
    let tr1 : List TStep := [⟨.start 0 7 false, [.bStart 7 false, .ret false]⟩,
                             ⟨.write 0 1 true true true, [.bWrite 1 true, .ret true]⟩]
    let tr2 (ok : Bool) : List TStep := [⟨.start 0 7 true, [.bStart 7 true, .ret true]⟩,
                             ⟨.write 0 1 true true true, [.bStart 7 ok, .ret true]⟩]
    monC06 0 tr1 ≠ [] ∧ ¬ BasePaired tr1 ∧ monC06 0 (tr2 true) ≠ [] ∧ ¬ BasePaired (tr2 true) ∧
      monC06 0 (tr2 false) ≠ [] ∧ ¬ BasePaired (tr2 false) := by decide

/-- a cut after one frame with `minLen = 2`: rejected, `CutsLongEnough` fails, the other four hold; the same
trace is fine for `minLen = 1` -/
example :
    let tr : List TStep :=
      [⟨.start 0 7 true, [.bStart 7 true, .ret true]⟩, ⟨.write 0 1 true true true, [.bWrite 1 true, .ret true]⟩,
       ⟨.write 0 2 true true true, [.throttled, .bStop true, .ret true]⟩]
    monC06 2 tr = ["C06:cut-file-shorter-than-minimum"] ∧ BasePaired tr ∧ ¬ CutsLongEnough 2 tr ∧
      EventsExact tr ∧ TransparentUntilThrottled tr ∧ StopForwarding tr ∧ monC06 1 tr = [] ∧
      CutsLongEnough 1 tr := by decide

/-- frames written into an EARLIER file do not count for the file being cut -/
example :
    let tr : List TStep :=
      [⟨.start 0 7 true, [.bStart 7 true, .ret true]⟩, ⟨.write 0 1 true true true, [.bWrite 1 true, .ret true]⟩,
       ⟨.write 0 2 true true true, [.bWrite 2 true, .ret true]⟩, ⟨.stop true, [.bStop true, .ret true]⟩,
       ⟨.start 0 8 true, [.bStart 8 true, .ret true]⟩, ⟨.write 0 3 true true true, [.bWrite 3 true, .ret true]⟩,
       ⟨.write 0 4 true true true, [.throttled, .bStop true, .ret true]⟩]
    monC06 2 tr = ["C06:cut-file-shorter-than-minimum"] ∧ BasePaired tr ∧ ¬ CutsLongEnough 2 tr := by decide

/-- two `throttled` events in one step (a cut), one event per frame after a suppressed start, an event on a
stop, a missing event on a suppressed start: rejected, `EventsExact` fails -/
example :
    let tr1 : List TStep :=
      [⟨.start 0 7 true, [.bStart 7 true, .ret true]⟩,
       ⟨.write 0 1 true true true, [.throttled, .throttled, .bStop true, .ret true]⟩]
    let tr2 : List TStep :=
      [⟨.start 0 7 true, [.throttled, .ret true]⟩, ⟨.write 0 1 true true true, [.throttled, .ret true]⟩]
    let tr3 : List TStep := [⟨.start 0 7 true, [.throttled, .ret true]⟩, ⟨.stop true, [.throttled, .ret true]⟩]
    let tr4 : List TStep := [⟨.start 0 7 true, [.ret true]⟩]
    monC06 0 tr1 = ["C06:throttled-event-count"] ∧ ¬ EventsExact tr1 ∧ BasePaired tr1 ∧ CutsLongEnough 0 tr1 ∧
      TransparentUntilThrottled tr1 ∧ StopForwarding tr1 ∧
    monC06 0 tr2 = ["C06:throttled-event-count"] ∧ ¬ EventsExact tr2 ∧
    monC06 0 tr3 = ["C06:throttled-event-count"] ∧ ¬ EventsExact tr3 ∧
    monC06 0 tr4 ≠ [] ∧ ¬ EventsExact tr4 := by decide

/-- a start forwarded with another tag, a swallowed frame, an altered result — each before any throttling:
rejected, `TransparentUntilThrottled` fails (for the first one the other four hold); the same altered start
AFTER a `throttled` event is not a transparency violation -/
example :
    let tr1 : List TStep := [⟨.start 0 7 true, [.bStart 8 true, .ret true]⟩]
    let tr2 : List TStep := [⟨.start 0 7 true, [.bStart 7 true, .ret true]⟩, ⟨.write 0 1 true true true, [.ret true]⟩]
    let tr3 : List TStep := [⟨.start 0 7 false, [.bStart 7 false, .ret true]⟩]
    let tr4 : List TStep := [⟨.start 0 6 true, [.throttled, .ret true]⟩, ⟨.stop true, [.ret true]⟩,
                             ⟨.start 0 7 true, [.bStart 8 true, .ret true]⟩]
    monC06 0 tr1 = ["C06:start-not-transparent"] ∧ ¬ TransparentUntilThrottled tr1 ∧ BasePaired tr1 ∧
      CutsLongEnough 0 tr1 ∧ EventsExact tr1 ∧ StopForwarding tr1 ∧
    monC06 0 tr2 = ["C06:write-not-transparent"] ∧ ¬ TransparentUntilThrottled tr2 ∧
    monC06 0 tr3 = ["C06:start-not-transparent"] ∧ ¬ TransparentUntilThrottled tr3 ∧
    monC06 0 tr4 = [] ∧ TransparentUntilThrottled tr4 ∧ ¬ FreshTags tr4 := by decide

/-- a stop swallowed while a base file is open (after a throttling, so transparency is silent): rejected,
`StopForwarding` fails, the other four hold -/
example :
    let tr : List TStep :=
      [⟨.start 0 6 true, [.throttled, .ret true]⟩, ⟨.stop true, [.ret true]⟩,
       ⟨.start 0 7 true, [.bStart 7 true, .ret true]⟩, ⟨.stop true, [.ret true]⟩]
    monC06 0 tr = ["C06:stop-forwarding"] ∧ ¬ StopForwarding tr ∧ BasePaired tr ∧ CutsLongEnough 0 tr ∧
      EventsExact tr ∧ TransparentUntilThrottled tr := by decide

/-- a stale tag: a deferred start with the tag of an older start request — rejected by `monC11Thr`, not
fresh; accepted by `monC06` (which does not look at tags after the first throttling) -/
example :
    let tr : List TStep :=
      [⟨.start 0 6 true, [.bStart 6 true, .ret true]⟩, ⟨.stop true, [.bStop true, .ret true]⟩,
       ⟨.start 0 7 true, [.throttled, .ret true]⟩, ⟨.write 5 1 true true true, [.bStart 6 true, .bWrite 1 true, .ret true]⟩]
    monC11Thr tr ≠ [] ∧ ¬ FreshTags tr ∧ latestTag tr 3 = some 7 ∧ monC06 0 tr = [] := by decide

/-- a base start before any start request is not fresh either -/
example :
    let tr : List TStep := [⟨.write 0 1 true true true, [.bStart 0 true, .ret true]⟩]
    monC11Thr tr ≠ [] ∧ ¬ FreshTags tr ∧ latestTag tr 0 = none := by decide

/-- `baseOpenAfter`, `framesInFile` on small inputs -/
example :
    baseOpenAfter [] = false ∧ baseOpenAfter [.bStart 1 true] = true ∧ baseOpenAfter [.bStart 1 false] = false ∧
    baseOpenAfter [.bStart 1 true, .bWrite 0 false, .bStart 2 false] = true ∧
    baseOpenAfter [.bStart 1 true, .bStop false] = false ∧
    framesInFile [.bWrite 0 true] = 1 ∧
    framesInFile [.bStart 1 true, .bWrite 0 true, .bWrite 1 false, .bStop true] = 2 ∧
    framesInFile [.bStart 1 true, .bWrite 0 true, .bStop true, .bStart 2 false, .bWrite 1 true] = 2 ∧
    framesInFile [.bStart 1 true, .bWrite 0 true, .bStop true, .bStart 2 true, .bWrite 1 true] = 1 := by decide

end TR.C06Spec
