import Proofs.DetC15
/-!
# C15 — the dynamic threshold tracks the background mean within its configured bounds

Model: `TR/Detector.lean` (`Det.detect`, `Det.updateBackground`, `Det.clampThresh`, `Det.meanOf`,
`Det.background`), event streams: `TR/DetSpec.lean`.

Quantifier: every configuration `c : DCfg`, every frame `f`, every floating-point instance
`F : FloatOps` and an ARBITRARY detector state `d : Det F` (so in particular every reachable one);
the per-step theorems talk about ONE `detect` step, the `c15_run_*` theorems about every event list
(frames with any FFC flags, resets) from `Det.init`.

The only thing assumed about the floating point is `LowerLaw` (and only by the two
"not warmer" theorems): a frame value strictly below the background value always counts as lower,
whatever the weight.  Everything else holds for every `FloatOps`.

Reading of the model: `detect` first stores `affected := ffc`, then — only when
`c.dynamic ∧ ¬ffc` — calls `updateBackground c {d with affected := ffc} f d.affected`
(`prevFFC` is the flag left by the PREVIOUS frame) and recomputes the threshold iff
`changed ∧ backgroundFrames > previewFrames`; `pixelsChanged` never touches `bg`, `tempThresh`,
`backgroundFrames`.

`d.bg` holds the interior values; the background frame as stored by the Go code is
`Det.background c d` = interior + replicated border (all zero before the first update).
-/
namespace TR.C15
open TR TR.Det
variable {F : FloatOps}

/-- The one law about the float32 comparison `float32(new) − w < float32(bg)`: it is true whenever
`new < bg` as integers (true for Go's float32 with the non-negative weights that occur). -/
def LowerLaw (F : FloatOps) : Prop :=
  ∀ (new bg : Nat) (w : F.ω), new < bg → F.lower new w bg = true

/-! ## 1. the background is never warmer than the current frame -/

/-- **C15 (1).** After a non-FFC frame with dynamic thresholding, every interior pixel of the
background estimate is at most the frame's value at that pixel. -/
theorem c15_bg_not_warmer (hl : LowerLaw F) (c : DCfg) (d : Det F) (f : Frame)
    (hdyn : c.dynamic = true) :
    ∀ y x, c.inI y x = true → (detect c d f false).1.bg y x ≤ f y x := by
  intro y x h
  rw [P15.detect_bg_dyn c d f hdyn]
  exact P15.updateBackground_bg_le hl c _ f _ y x h

/-- **C15 (1), stored frame.** The same for the whole stored background frame including the
replicated border: every pixel (any `y x`) is at most the frame's value at the nearest interior
pixel.  (It may well be warmer than the frame's own border pixel: the border is not compared.) -/
theorem c15_background_not_warmer (hl : LowerLaw F) (c : DCfg) (d : Det F) (f : Frame)
    (hdyn : c.dynamic = true) (hne : 2 * c.edge < c.resX ∧ 2 * c.edge < c.resY) :
    ∀ y x, background c (detect c d f false).1 y x ≤ f (c.clampY y) (c.clampX x) := by
  intro y x
  unfold background
  rw [P15.detect_bgSeeded_dyn c d f hdyn]
  exact c15_bg_not_warmer hl c d f hdyn _ _ (P15.inI_clamp c y x hne)

/-- **C15 (1), exact form** (no law needed): each interior pixel of the new background is either the
frame's value or the old background value; and it is the old value only if `lower` said "not lower"
and the previous frame was not FFC-affected and this is not the first background frame. -/
theorem c15_bg_frame_or_kept (c : DCfg) (d : Det F) (f : Frame) (hdyn : c.dynamic = true) (y x : Nat) :
    (detect c d f false).1.bg y x = f y x ∨ (detect c d f false).1.bg y x = d.bg y x := by
  rw [P15.detect_bg_dyn c d f hdyn]
  exact P15.updateBackground_bg_cases c _ f _ y x

/-- Outside the interior `bg` is never written (the stored border comes from `background`). -/
theorem c15_bg_outside_untouched (c : DCfg) (d : Det F) (f : Frame) (ffc : Bool) (y x : Nat)
    (h : c.inI y x = false) : (detect c d f ffc).1.bg y x = d.bg y x := by
  cases hb : (c.dynamic && !ffc)
  · rw [P15.detect_bg_static c d f ffc hb]
  · simp only [Bool.and_eq_true, Bool.not_eq_true'] at hb
    obtain ⟨hdyn, rfl⟩ := hb
    rw [P15.detect_bg_dyn c d f hdyn]
    exact P15.updateBackground_bg_outside c _ f _ y x h

/-! ## 2. the border replicates the nearest interior pixel -/

/-- **C15 (2).** With a non-empty interior, every pixel of the stored background frame equals the
stored pixel at the nearest interior coordinate, and that coordinate is interior.
(The bounds `y < c.resY`, `x < c.resX` of the frame are not needed: the statement holds for all
`y x`.)  This is how the model's `background` is built; the correspondence check compares it with
the frame the Go code holds. -/
theorem c15_border_replicated (c : DCfg) (d : Det F)
    (hne : 2 * c.edge < c.resX ∧ 2 * c.edge < c.resY) (y x : Nat) :
    background c d y x = background c d (c.clampY y) (c.clampX x) ∧
      c.inI (c.clampY y) (c.clampX x) = true := by
  refine ⟨?_, P15.inI_clamp c y x hne⟩
  unfold background
  rw [P15.clampY_idem c y hne.2, P15.clampX_idem c x hne.1]

/-- the form asked for, with the frame bounds as (unused) hypotheses -/
theorem c15_border_replicated_in_frame (c : DCfg) (d : Det F)
    (hne : 2 * c.edge < c.resX ∧ 2 * c.edge < c.resY) (y x : Nat) (_hy : y < c.resY) (_hx : x < c.resX) :
    background c d y x = background c d (c.clampY y) (c.clampX x) ∧
      c.inI (c.clampY y) (c.clampX x) = true :=
  c15_border_replicated c d hne y x

/-- on the interior the stored frame is `bg` itself (once seeded) -/
theorem c15_background_interior (c : DCfg) (d : Det F) (hs : d.bgSeeded = true) (y x : Nat)
    (h : c.inI y x = true) : background c d y x = d.bg y x := by
  unfold background
  rw [(P15.clamp_of_inI c y x h).1, (P15.clamp_of_inI c y x h).2]
  simp [hs]

/-- `clampY`/`clampX` really give the NEAREST interior coordinate: no interior coordinate is closer
(`|a − b|` written with truncated subtraction). -/
theorem c15_clamp_is_nearest (c : DCfg) (y x y' x' : Nat) (h : c.inI y' x' = true) :
    (c.clampY y - y) + (y - c.clampY y) ≤ (y' - y) + (y - y') ∧
      (c.clampX x - x) + (x - c.clampX x) ≤ (x' - x) + (x - x') := by
  unfold DCfg.inI at h
  simp only [Bool.and_eq_true, decide_eq_true_eq] at h
  exact ⟨P15.clampY_nearest c y y' ⟨h.1.1.1, h.1.1.2⟩, P15.clampX_nearest c x x' ⟨h.1.2, h.2⟩⟩

/-! ## 3. re-seeding after an FFC and after a reset -/

/-- **C15 (3).** If the previous frame was FFC-affected (`d.affected`) or this is the first background
frame since start-up / `Reset` (`d.backgroundFrames = 0`), a dynamic non-FFC frame replaces the whole
interior of the background by the frame. -/
theorem c15_reseed_after_ffc (c : DCfg) (d : Det F) (f : Frame) (hdyn : c.dynamic = true)
    (h : d.affected = true ∨ d.backgroundFrames = 0) :
    ∀ y x, c.inI y x = true → (detect c d f false).1.bg y x = f y x := by
  intro y x hi
  rw [P15.detect_bg_dyn c d f hdyn]
  rcases h with h | h
  · rw [h]
    exact P15.updateBackground_bg_prevFFC c _ f y x hi
  · exact P15.updateBackground_bg_first c _ f _ y x h hi

/-- **C15 (3), reset.** `Reset` zeroes the background frame counter (and leaves `bg`, the threshold
and the FFC flag alone), so the next dynamic non-FFC frame re-seeds. -/
theorem c15_reset_restarts (d : Det F) :
    d.reset.backgroundFrames = 0 ∧ d.reset.bg = d.bg ∧ d.reset.tempThresh = d.tempThresh ∧
      d.reset.affected = d.affected ∧ d.reset.bgSeeded = d.bgSeeded :=
  ⟨rfl, rfl, rfl, rfl, rfl⟩

theorem c15_reseed_after_reset (c : DCfg) (d : Det F) (f : Frame) (hdyn : c.dynamic = true) :
    ∀ y x, c.inI y x = true → (detect c d.reset f false).1.bg y x = f y x :=
  c15_reseed_after_ffc c d.reset f hdyn (Or.inr rfl)

/-- every frame leaves its own FFC flag behind: that is the `prevFFC` of the next frame -/
theorem c15_affected_is_last_ffc (c : DCfg) (d : Det F) (f : Frame) (ffc : Bool) :
    (detect c d f ffc).1.affected = ffc :=
  P15.detect_affected c d f ffc

/-- the frame counter: +1 on a dynamic non-FFC frame -/
theorem c15_counter (c : DCfg) (d : Det F) (f : Frame) (hdyn : c.dynamic = true) :
    (detect c d f false).1.backgroundFrames = d.backgroundFrames + 1 :=
  P15.detect_backgroundFrames_dyn c d f hdyn

/-! ## 4. the threshold is the bounded mean of the interior background -/

/-- **C15 (4), exact.** After a dynamic non-FFC frame the threshold is
`clampThresh (uint16 (mean of the interior of the NEW background))` if the background `changed` and
more than `previewFrames` background frames have been seen, and the old threshold otherwise. -/
theorem c15_threshold_eq (c : DCfg) (d : Det F) (f : Frame) (hdyn : c.dynamic = true) :
    (detect c d f false).1.tempThresh =
      if (updateBackground c { d with affected := false } f d.affected).2.2 = true ∧
          d.backgroundFrames + 1 > c.previewFrames then
        clampThresh c (F.trunc (meanOf F c (detect c d f false).1.bg))
      else d.tempThresh :=
  P15.detect_tempThresh_dyn c d f hdyn

/-- **C15 (4).** Either the threshold is unchanged or it is the bounded mean of the new background. -/
theorem c15_threshold_is_bounded_mean (c : DCfg) (d : Det F) (f : Frame) (hdyn : c.dynamic = true) :
    (detect c d f false).1.tempThresh = d.tempThresh ∨
      (detect c d f false).1.tempThresh =
        clampThresh c (F.trunc (meanOf F c (detect c d f false).1.bg)) := by
  rw [c15_threshold_eq c d f hdyn]
  split
  · exact Or.inr rfl
  · exact Or.inl rfl

/-- **C15 (4), recomputed when …** -/
theorem c15_threshold_recomputed (c : DCfg) (d : Det F) (f : Frame) (hdyn : c.dynamic = true)
    (hch : (updateBackground c { d with affected := false } f d.affected).2.2 = true)
    (hpv : d.backgroundFrames + 1 > c.previewFrames) :
    (detect c d f false).1.tempThresh =
      clampThresh c (F.trunc (meanOf F c (detect c d f false).1.bg)) := by
  rw [c15_threshold_eq c d f hdyn, if_pos ⟨hch, hpv⟩]

/-- **C15 (4), … and only then.** -/
theorem c15_threshold_kept (c : DCfg) (d : Det F) (f : Frame) (hdyn : c.dynamic = true)
    (h : (updateBackground c { d with affected := false } f d.affected).2.2 = false ∨
      d.backgroundFrames + 1 ≤ c.previewFrames) :
    (detect c d f false).1.tempThresh = d.tempThresh := by
  rw [c15_threshold_eq c d f hdyn, if_neg]
  rintro ⟨h1, h2⟩
  rcases h with h | h
  · rw [h] at h1
    exact Bool.noConfusion h1
  · omega

/-- what `changed` means: first background frame of the epoch, or some interior pixel was replaced
(previous frame FFC-affected, or `lower`) -/
theorem c15_changed_iff (c : DCfg) (d : Det F) (f : Frame) :
    (updateBackground c { d with affected := false } f d.affected).2.2 = true ↔
      d.backgroundFrames = 0 ∨
        ∃ y x, c.inI y x = true ∧
          (d.affected || F.lower (f y x) (d.weight y x) (d.bg y x)) = true :=
  P15.updateBackground_changed_iff c _ f _

/-- when nothing changed the background is literally the old one (so the mean would be the same) -/
theorem c15_unchanged_bg (c : DCfg) (d : Det F) (f : Frame) (hdyn : c.dynamic = true)
    (h : (updateBackground c { d with affected := false } f d.affected).2.2 = false) :
    (detect c d f false).1.bg = d.bg := by
  funext y x
  rw [P15.detect_bg_dyn c d f hdyn]
  exact P15.updateBackground_unchanged c _ f _ h y x

/-! ## 5. the bounds -/

/-- **C15 (5).** `clampThresh` limits to `[threshMin, threshMax]`, a bound 0 being unset; inside the
range (and with both bounds unset) the value is returned unchanged.  The lower bound needs
`threshMin ≤ threshMax` when both are set: the upper bound is applied last (see the example below). -/
theorem c15_clamp_bounds (c : DCfg) (a : Nat) :
    (c.threshMin ≠ 0 → (c.threshMax = 0 ∨ c.threshMin ≤ c.threshMax) → c.threshMin ≤ clampThresh c a) ∧
    (c.threshMax ≠ 0 → clampThresh c a ≤ c.threshMax) ∧
    (c.threshMin = 0 → c.threshMax = 0 → clampThresh c a = a) ∧
    ((c.threshMin = 0 ∨ c.threshMin ≤ a) → (c.threshMax = 0 ∨ a ≤ c.threshMax) → clampThresh c a = a) :=
  ⟨P15.clampThresh_ge_min c a, P15.clampThresh_le_max c a,
   fun h1 h2 => P15.clampThresh_inside c a (Or.inl h1) (Or.inl h2),
   P15.clampThresh_inside c a⟩

/-- below / above the range the bound itself is returned -/
theorem c15_clamp_saturates (c : DCfg) (a : Nat) :
    (c.threshMin ≠ 0 → a ≤ c.threshMin → (c.threshMax = 0 ∨ c.threshMin ≤ c.threshMax) →
      clampThresh c a = c.threshMin) ∧
    (c.threshMax ≠ 0 → c.threshMax ≤ a → clampThresh c a = c.threshMax) :=
  ⟨P15.clampThresh_below c a, P15.clampThresh_above c a⟩

/-- **C15 (4)+(5).** A recomputed threshold lies within the configured bounds. -/
theorem c15_recomputed_within_bounds (c : DCfg) (d : Det F) (f : Frame) (hdyn : c.dynamic = true)
    (hch : (updateBackground c { d with affected := false } f d.affected).2.2 = true)
    (hpv : d.backgroundFrames + 1 > c.previewFrames) :
    (c.threshMin ≠ 0 → (c.threshMax = 0 ∨ c.threshMin ≤ c.threshMax) →
      c.threshMin ≤ (detect c d f false).1.tempThresh) ∧
    (c.threshMax ≠ 0 → (detect c d f false).1.tempThresh ≤ c.threshMax) := by
  rw [c15_threshold_recomputed c d f hdyn hch hpv]
  exact ⟨P15.clampThresh_ge_min c _, P15.clampThresh_le_max c _⟩

/-! ## 6. FFC-affected frames and fixed thresholding leave everything alone -/

/-- **C15 (6).** An FFC-affected frame updates neither the background nor the threshold (nor the
frame counter). -/
theorem c15_ffc_frame_leaves_background (c : DCfg) (d : Det F) (f : Frame) :
    (detect c d f true).1.bg = d.bg ∧ (detect c d f true).1.tempThresh = d.tempThresh ∧
      (detect c d f true).1.backgroundFrames = d.backgroundFrames := by
  have h : (c.dynamic && !true) = false := by simp
  exact ⟨P15.detect_bg_static c d f true h, P15.detect_tempThresh_static c d f true h,
    P15.detect_backgroundFrames_static c d f true h⟩

/-- **C15 (6), fixed threshold.** Without dynamic thresholding no frame changes them. -/
theorem c15_static_leaves_background (c : DCfg) (d : Det F) (f : Frame) (ffc : Bool)
    (hdyn : c.dynamic = false) :
    (detect c d f ffc).1.bg = d.bg ∧ (detect c d f ffc).1.tempThresh = d.tempThresh ∧
      (detect c d f ffc).1.backgroundFrames = d.backgroundFrames := by
  have h : (c.dynamic && !ffc) = false := by simp [hdyn]
  exact ⟨P15.detect_bg_static c d f ffc h, P15.detect_tempThresh_static c d f ffc h,
    P15.detect_backgroundFrames_static c d f ffc h⟩

/-! ## 7. whole runs -/

/-- **C15 (7).** In every run from start-up (frames with any FFC flags, resets, in any order): if
dynamic thresholding is on and the last event was a non-FFC frame `f`, the interior background is not
warmer than `f`. -/
theorem c15_run_bg_not_warmer (hl : LowerLaw F) (c : DCfg) (hdyn : c.dynamic = true)
    (evs pre : List DEv) (f : Frame) (he : evs = pre ++ [.frame f false]) :
    ∀ y x, c.inI y x = true → (after c (init F c) evs).bg y x ≤ f y x := by
  subst he
  rw [P15.after_snoc_frame]
  exact c15_bg_not_warmer hl c _ f hdyn

/-- the same for the stored frame with its replicated border -/
theorem c15_run_background_not_warmer (hl : LowerLaw F) (c : DCfg) (hdyn : c.dynamic = true)
    (hne : 2 * c.edge < c.resX ∧ 2 * c.edge < c.resY)
    (evs pre : List DEv) (f : Frame) (he : evs = pre ++ [.frame f false]) :
    ∀ y x, background c (after c (init F c) evs) y x ≤ f (c.clampY y) (c.clampX x) := by
  subst he
  rw [P15.after_snoc_frame]
  exact c15_background_not_warmer hl c _ f hdyn hne

/-- In every run: a non-FFC frame that directly follows an FFC-affected frame, or a reset, re-seeds
the interior background from that frame. -/
theorem c15_run_reseed (c : DCfg) (hdyn : c.dynamic = true) (pre : List DEv) (g f : Frame) :
    (∀ y x, c.inI y x = true →
      (after c (init F c) (pre ++ [.frame g true, .frame f false])).bg y x = f y x) ∧
    (∀ y x, c.inI y x = true →
      (after c (init F c) (pre ++ [.reset, .frame f false])).bg y x = f y x) := by
  constructor
  · have : pre ++ [DEv.frame g true, .frame f false] = (pre ++ [.frame g true]) ++ [.frame f false] := by
      simp
    rw [this, P15.after_snoc_frame, P15.after_snoc_frame]
    exact c15_reseed_after_ffc c _ f hdyn (Or.inl (P15.detect_affected c _ g true))
  · have : pre ++ [DEv.reset, .frame f false] = (pre ++ [.reset]) ++ [.frame f false] := by simp
    rw [this, P15.after_snoc_frame, P15.after_snoc_reset]
    exact c15_reseed_after_reset c _ f hdyn

/-- the very first non-FFC frame of a run seeds the background, whatever came before it were only
FFC frames / resets — special case: the first event -/
theorem c15_run_first_frame (c : DCfg) (hdyn : c.dynamic = true) (f : Frame) :
    ∀ y x, c.inI y x = true → (after c (init F c) [.frame f false]).bg y x = f y x :=
  c15_reseed_after_ffc c (init F c) f hdyn (Or.inr rfl)

/-- In every run the threshold is the configured start value or a bounded value `clampThresh c a`;
hence, if the configured start value respects the bounds, so does the threshold at all times. -/
theorem c15_run_threshold_shape (c : DCfg) (evs : List DEv) :
    (after c (init F c) evs).tempThresh = c.tempThresh ∨
      ∃ a, (after c (init F c) evs).tempThresh = clampThresh c a := by
  refine P15.after_invariant c
    (fun d => d.tempThresh = c.tempThresh ∨ ∃ a, d.tempThresh = clampThresh c a)
    ?_ ?_ (init F c) (Or.inl rfl) evs
  · intro d f ffc hd
    cases hb : (c.dynamic && !ffc)
    · show (detect c d f ffc).1.tempThresh = _ ∨ ∃ a, (detect c d f ffc).1.tempThresh = _
      rw [P15.detect_tempThresh_static c d f ffc hb]
      exact hd
    · simp only [Bool.and_eq_true, Bool.not_eq_true'] at hb
      obtain ⟨hdyn, rfl⟩ := hb
      show (detect c d f false).1.tempThresh = _ ∨ ∃ a, (detect c d f false).1.tempThresh = _
      rcases c15_threshold_is_bounded_mean c d f hdyn with h | h
      · rw [h]
        exact hd
      · exact Or.inr ⟨_, h⟩
  · intro d hd
    exact hd

theorem c15_run_threshold_within_bounds (c : DCfg) (evs : List DEv)
    (hmm : c.threshMin = 0 ∨ c.threshMax = 0 ∨ c.threshMin ≤ c.threshMax)
    (h0min : c.threshMin = 0 ∨ c.threshMin ≤ c.tempThresh)
    (h0max : c.threshMax = 0 ∨ c.tempThresh ≤ c.threshMax) :
    (c.threshMin = 0 ∨ c.threshMin ≤ (after c (init F c) evs).tempThresh) ∧
    (c.threshMax = 0 ∨ (after c (init F c) evs).tempThresh ≤ c.threshMax) := by
  rcases c15_run_threshold_shape (F := F) c evs with h | ⟨a, h⟩
  · rw [h]
    exact ⟨h0min, h0max⟩
  · rw [h]
    constructor
    · by_cases hm : c.threshMin = 0
      · exact Or.inl hm
      · refine Or.inr (P15.clampThresh_ge_min c a hm ?_)
        rcases hmm with h1 | h1 | h1
        · exact absurd h1 hm
        · exact Or.inl h1
        · exact Or.inr h1
    · by_cases hm : c.threshMax = 0
      · exact Or.inl hm
      · exact Or.inr (P15.clampThresh_le_max c a hm)

/-- With fixed thresholding nothing ever happens: in every run the threshold stays the configured
one and the background is never written. -/
theorem c15_run_static (c : DCfg) (hdyn : c.dynamic = false) (evs : List DEv) :
    (after c (init F c) evs).tempThresh = c.tempThresh ∧
      (after c (init F c) evs).bg = zeroFrame ∧ (after c (init F c) evs).bgSeeded = false := by
  refine P15.after_invariant c
    (fun d => d.tempThresh = c.tempThresh ∧ d.bg = zeroFrame ∧ d.bgSeeded = false)
    ?_ ?_ (init F c) ⟨rfl, rfl, rfl⟩ evs
  · intro d f ffc hd
    have h : (c.dynamic && !ffc) = false := by simp [hdyn]
    refine ⟨?_, ?_, ?_⟩
    · rw [P15.detect_tempThresh_static c d f ffc h]
      exact hd.1
    · rw [P15.detect_bg_static c d f ffc h]
      exact hd.2.1
    · unfold detect
      simp only [h, P15.pixelsChanged_bgSeeded]
      exact hd.2.2
  · intro d hd
    exact hd

/-! ## Non-vacuity

A tiny concrete instance, evaluated by `decide`: weights are naturals, `lower new w bg` is
`new < bg + w` (i.e. `new − w < bg`), `bump` adds 1, and — to stay inside `Nat` — the accumulator
SUMS the interior instead of averaging it (`add _ acc px = acc + px`); nothing above depends on
what `add`/`trunc` compute.  Frame 4 × 4, `edge = 1`: the interior is the 2 × 2 block
(1,1) (1,2) (2,1) (2,2). -/

def exF : FloatOps :=
  { ω := Nat, w0 := 0, lower := fun new w bg => decide (new < bg + w), bump := (· + 1),
    α := Nat, a0 := 0, add := fun _ acc px => acc + px, trunc := fun a => a }

def exC : DCfg :=
  { resX := 4, resY := 4, edge := 1, gap := 1, useOneDiff := false, deltaThresh := 5, countThresh := 1,
    tempThresh := 50, threshMin := 10, threshMax := 100, warmerOnly := true, dynamic := true,
    previewFrames := 1, ffcPeriod := 0 }

/-- interior 11 12 / 21 22 -/
def exA : Frame := fun y x => 10 * y + x
/-- colder than `exA` at (1,1), warmer elsewhere -/
def exB : Frame := fun y x => if y = 1 ∧ x = 1 then 5 else 30
def exFlat (v : Nat) : Frame := fun _ _ => v

/-- the law is satisfiable -/
example : LowerLaw exF := by
  have h : ∀ (new bg w : Nat), new < bg → decide (new < bg + w) = true := by
    intro new bg w h
    simp only [decide_eq_true_eq]
    omega
  exact h

/-- the side condition of (2) holds for the instance -/
example : 2 * exC.edge < exC.resX ∧ 2 * exC.edge < exC.resY := by decide

/-- frame 1 seeds the background; one frame is not more than `previewFrames`: threshold kept -/
example :
    let d := after exC (init exF exC) [.frame exA false]
    d.bg 1 1 = 11 ∧ d.bg 2 2 = 22 ∧ d.backgroundFrames = 1 ∧ d.tempThresh = 50 := by decide

/-- frame 2: (1,1) is colder and is lowered, the others are warmer and are kept (so `≤` in (1) is
strict there); `changed` and 2 > `previewFrames`: the threshold becomes the (here: sum)
5 + 12 + 21 + 22 = 60, which lies inside [10, 100] and is returned unclamped -/
example :
    let d := after exC (init exF exC) [.frame exA false, .frame exB false]
    d.bg 1 1 = 5 ∧ d.bg 1 2 = 12 ∧ d.bg 1 2 < exB 1 2 ∧ d.bg 2 1 = 21 ∧ d.bg 2 2 = 22 ∧
      d.tempThresh = 60 := by decide

/-- the hypotheses of `c15_threshold_recomputed` are satisfiable (state after frame 1, frame `exB`) -/
example :
    let d := after exC (init exF exC) [.frame exA false]
    (updateBackground exC { d with affected := false } exB d.affected).2.2 = true ∧
      d.backgroundFrames + 1 > exC.previewFrames := by decide

/-- the hypothesis of `c15_threshold_kept` / `c15_unchanged_bg` is satisfiable: a warmer frame
changes nothing -/
example :
    let d := after exC (init exF exC) [.frame exA false, .frame exB false]
    (updateBackground exC { d with affected := false } (exFlat 50) d.affected).2.2 = false ∧
      (detect exC d (exFlat 50) false).1.tempThresh = 60 ∧
      (detect exC d (exFlat 50) false).1.bg 1 1 = 5 := by decide

/-- the border replicates the nearest interior pixel: corners and an edge -/
example :
    let d := after exC (init exF exC) [.frame exA false, .frame exB false]
    background exC d 0 0 = 5 ∧ background exC d 0 3 = 12 ∧ background exC d 3 0 = 21 ∧
      background exC d 3 3 = 22 ∧ background exC d 2 3 = 22 ∧ background exC d 1 1 = 5 := by decide

/-- before the first update the stored background is all zero -/
example : background exC (init exF exC) 1 1 = 0 ∧ background exC (init exF exC) 0 0 = 0 := by decide

/-- an FFC-affected frame changes nothing; the next non-FFC frame re-seeds the background from the
(much warmer) frame and the threshold saturates at `threshMax` (sum 160 > 100) -/
example :
    let d := after exC (init exF exC) [.frame exA false, .frame exB false, .frame (exFlat 0) true]
    d.bg 1 1 = 5 ∧ d.bg 2 2 = 22 ∧ d.tempThresh = 60 ∧ d.affected = true := by decide

example :
    let d := after exC (init exF exC)
      [.frame exA false, .frame exB false, .frame (exFlat 0) true, .frame (exFlat 40) false]
    d.bg 1 1 = 40 ∧ d.bg 1 2 = 40 ∧ d.bg 2 1 = 40 ∧ d.bg 2 2 = 40 ∧ d.tempThresh = 100 := by decide

/-- a reset restarts the epoch: the next frame re-seeds (warmer than the old background), but one
frame is not more than `previewFrames`, so the threshold is kept -/
example :
    let d := after exC (init exF exC) [.frame exA false, .frame exB false, .reset, .frame (exFlat 40) false]
    d.bg 1 1 = 40 ∧ d.bg 2 2 = 40 ∧ d.backgroundFrames = 1 ∧ d.tempThresh = 60 := by decide

/-- a cold scene: the threshold saturates at `threshMin` (sum 4 < 10) -/
example :
    (after exC (init exF exC) [.frame exA false, .frame (exFlat 1) false]).tempThresh = 10 := by decide

/-- `clampThresh`: below, inside, above; unset bounds -/
example : clampThresh exC 3 = 10 ∧ clampThresh exC 60 = 60 ∧ clampThresh exC 500 = 100 := by decide
example : clampThresh { exC with threshMin := 0, threshMax := 0 } 500 = 500 ∧
    clampThresh { exC with threshMin := 0 } 3 = 3 ∧ clampThresh { exC with threshMax := 0 } 500 = 500 := by
  decide

/-- the side condition `threshMin ≤ threshMax` of the lower bound in (5) is needed: with the bounds
crossed the upper bound wins and the result is below `threshMin` -/
example : clampThresh { exC with threshMin := 10, threshMax := 5 } 7 = 5 := by decide

/-- the configured start threshold is NOT clamped: until the first recomputation the threshold may
lie outside the bounds (hypotheses `h0min`/`h0max` of `c15_run_threshold_within_bounds`) -/
example :
    (after { exC with tempThresh := 500 } (init exF { exC with tempThresh := 500 })
      [.frame exA false]).tempThresh = 500 := by decide

end TR.C15
