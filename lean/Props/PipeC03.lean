import Props.C01Spec
import Props.C02
import Props.C03Spec
import Props.PipeC04
import Proofs.PipeC03
/-!
# C02 + C03 end to end — length and extent of every motion file of the composed pipeline

`Props.C01Spec` / `Props.PipeC04` show that the motion files of the unthrottled pipeline (`TR.Pipeline`: socket
items → parser → detector → processor → abstract files) ARE the recordings of the processor trace it induces
(`C01Spec.recordings`: per recording, the list of ids written).  `Props.C03Spec` states the length rule on the
other view of a recording (`C03Spec.recordingsOf`: per recording, the motion bits of its frames from the
trigger frame on, and how it ended).  `Props.C02` gives the reach of the pre-trigger buffer at one start.
Here the views are linked and the result is read off the files.

Definitions (in `Proofs.PipeC03`):

* `Entry = (lo, t, ms, e)` — one recording in both views: first id written, accepted-frame number (= id) of
  the trigger frame, motion bits of the frames from the trigger frame on, end kind;
  `Entry.ids = [lo, …, t + ms.length − 1]`, `Entry.view = (ms, e)`, `Entry.pre = t − lo` (number of
  pre-trigger frames), `Entry.stop = t + ms.length` (one past the last id);
* `triggerFrames tr` — for every recording of `recordingsOf tr`, the accepted-frame number of the frame event
  that carried the successful `StartRecording` (`mem_triggerFrames`);
* `Tiled K 0 L` — `lo = max (t + 1 − K) nf` for every entry, `nf` being one past the last id of the previous
  entry (0 for the first).

"**Closed by the length rule**" means: the entry of `recordingsOf` at the same position has end kind
`EndKind.byStop` (a `StopRecording` on the motion sink while one of the recording's own frames was processed).
The other end kinds that occur are `byBadOrReset` (a rejected frame or a `clear` marker ended it) and
`stillOpen` (the last file, not finished yet).  Note that `RecFile.closed` is true for `byStop` AND
`byBadOrReset` files.

Results.  `K = c.proc.K` (ring capacity = preview-secs·fps + trigger-frames), `minF`, `maxF` in frames,
`L = lastMotion ms` (1-based index of the last motion frame counted from the trigger frame).

1. `model_two_views`, `model_views_indexwise` — the processor model, every configuration with `K ≥ 1`, every
   event list, every fault placement except failing motion-sink writes: the two lists have the same length;
   the `i`-th id list is `[t − pre, …, t + ms.length − 1]` with `pre ≤ K − 1`, so it has `pre + ms.length`
   elements and its element number `pre` is the trigger frame `t`.
2. `pipe_extent` (entry form), `pipe_c03` (index form), `pipe_file_length`, `pipe_c03_stopped` — the
   pipeline with changing window / disk gates (`runG` of `Props.PipeC04`), throttle off, `K ≥ 1`,
   `minF ≤ maxF`: every motion file is `pre ≤ K − 1` pre-trigger frames followed by `ms.length` frames from the
   trigger frame on;
   * closed by the length rule: `ms.length = max 1 (min maxF (L − 1 + minF))` EXACTLY; for `1 ≤ minF` this is
     `min maxF (L − 1 + minF)`, and `minF ≤ r.length ≤ (K − 1) + maxF`;
   * ended otherwise (bad frame, `clear`, still open): `ms.length < min maxF (L − 1 + minF)` — cut short;
   * however it ended: `1 ≤ r.length ≤ (K − 1) + max 1 maxF`;
   * fewer than `K − 1` pre-trigger frames only if the file begins with frame 0 (start-up) or with the frame
     right after the last frame of the previous motion file.
   The form "`r.length = pre + min maxF (L − 1 + minF)`" WITHOUT the `max 1` is false for `minF = 0`
   (counterexample below: the trigger frame is always written); with `1 ≤ minF` it is `pipe_c03_stopped`.
   `pipe_extent_fixed`: the same for the fixed-configuration pipeline of `Props.C01Spec`.
3. `pipe_file_frames_le` — in seconds: with `K = preview·fps + trig` and `maxF = max·fps ≥ 1` no motion file
   holds more than `(preview + max)·fps + trig − 1` frames.
4. Non-vacuity by `decide` on the tiny pipeline of `Props.Pipeline`.
-/
namespace TR.PipeC03
open TR TR.C01Spec TR.C03Spec TR.PipeC04

/-! ## what is proved about one recording / motion file -/

/-- length and extent of one recording `x = (lo, t, ms, e)` for processor configuration `c` -/
structure Extent (c : PCfg) (x : Entry) : Prop where
  /-- the ids written are `lo, …, t, …`: the trigger frame is among them -/
  lo_le : x.lo ≤ x.t
  /-- at most `K − 1` pre-trigger frames -/
  pre_le : x.pre ≤ c.K - 1
  /-- the file holds the pre-trigger frames and the frames from the trigger frame on -/
  len : x.ids.length = x.pre + x.ms.length
  /-- element number `pre` of the id list is the trigger frame -/
  trigger : x.ids[x.pre]? = some x.t
  /-- the trigger frame is a motion frame -/
  head : x.ms.head? = some true
  post_ge : 1 ≤ x.ms.length
  post_le : x.ms.length ≤ max 1 c.maxF
  kind : x.e = .byStop ∨ x.e = .byBadOrReset ∨ x.e = .stillOpen
  /-- closed by the length rule: exactly `min maxF (L − 1 + minF)` frames from the trigger frame on (at least
  the trigger frame itself) -/
  stop_len : x.e = .byStop → x.ms.length = max 1 (min c.maxF (lastMotion x.ms - 1 + c.minF))
  /-- ended by a bad frame / `clear`, or still open: fewer -/
  cut_len : x.e ≠ .byStop → x.ms.length < min c.maxF (lastMotion x.ms - 1 + c.minF)

theorem lastMotion_pos_of_head (ms : List Bool) (h : ms.head? = some true) : 1 ≤ lastMotion ms := by
  cases ms with
  | nil => simp at h
  | cons b bs =>
    simp only [List.head?_cons, Option.some.injEq] at h
    subst h
    simp only [lastMotion]
    split
    · omega
    · simp

/-- the three projections of one entry list, read at one position -/
theorem views_at {L : List Entry} {i : Nat} {ids : List Nat} {ms : List Bool} {e : EndKind} {t : Nat}
    (h1 : (L.map Entry.ids)[i]? = some ids) (h2 : (L.map Entry.view)[i]? = some (ms, e))
    (h3 : (L.map (·.t))[i]? = some t) :
    ∃ x, L[i]? = some x ∧ x.ids = ids ∧ x.ms = ms ∧ x.e = e ∧ x.t = t := by
  rw [List.getElem?_map] at h1 h2 h3
  cases hx : L[i]? with
  | none => rw [hx] at h1; cases h1
  | some x =>
    rw [hx] at h1 h2 h3
    simp only [Option.map_some, Option.some.injEq, Entry.view, Prod.mk.injEq] at h1 h2 h3
    exact ⟨x, rfl, h1, h2.1, h2.2, h3⟩

/-! ## (1) the two views of the model's recordings -/

/-- `triggerFrames` is what its name says: `t` is listed iff the trace splits at a frame event that carries
a successful `StartRecording` on the motion sink and has exactly `t` frame events before it -/
theorem mem_triggerFrames (tr : List Step) (t : Nat) :
    t ∈ triggerFrames tr ↔ ∃ pre st post, tr = pre ++ st :: post ∧ startsRec st = true ∧
      t = (pre.filter (·.ev.isFrame)).length := by
  have h := mem_triggersFrom tr 0 t
  simp only [Nat.zero_add] at h
  exact h

/-- one trigger frame per recording, on every trace -/
theorem triggerFrames_length (tr : List Step) : (triggerFrames tr).length = (recordingsOf tr).length :=
  triggersFrom_length tr 0

/-- **The two views of a recording, linked** (entry form).  For every configuration with `K ≥ 1`, every event
list and every fault placement except failing motion-sink writes, there is ONE list of entries `(lo, t, ms, e)`
whose projections are the id lists of `recordings`, the (motion bits, end kind) pairs of `recordingsOf` and
the trigger frames; every entry has `lo ≤ t < lo + K` and at least its trigger frame; the entries tile:
`lo = max (t + 1 − K) (one past the previous entry's last id)`. -/
theorem model_two_views (c : PCfg) (hK : 0 < c.K) (evs : List Ev) (hw : C01.NoWriteFaults evs) :
    let tr := PState.trace c (PState.init c) evs
    ∃ L : List Entry,
      recordings tr = L.map Entry.ids ∧ recordingsOf tr = L.map Entry.view ∧ triggerFrames tr = L.map (·.t) ∧
      (∀ x ∈ L, x.lo ≤ x.t ∧ x.t < x.lo + c.K ∧ 1 ≤ x.ms.length) ∧ Tiled c.K 0 L :=
  model_link c hK evs hw

/-- **The two views of a recording, linked** (index form).  The lists `recordings tr` and `recordingsOf tr`
(and `triggerFrames tr`) have the same length; the `i`-th id list is the run `[t − pre, …, t + ms.length − 1]`
where `t` is the accepted-frame number of the frame at which the recording started, `ms` the motion bits of
`(recordingsOf tr)[i]` and `pre ≤ K − 1` the number of pre-trigger frames: it has `pre + ms.length` elements,
element number `pre` is the trigger frame. -/
theorem model_views_indexwise (c : PCfg) (hK : 0 < c.K) (evs : List Ev) (hw : C01.NoWriteFaults evs) :
    let tr := PState.trace c (PState.init c) evs
    (recordings tr).length = (recordingsOf tr).length ∧
    (triggerFrames tr).length = (recordingsOf tr).length ∧
    ∀ (i : Nat) (ids : List Nat) (ms : List Bool) (e : EndKind) (t : Nat), (recordings tr)[i]? = some ids → (recordingsOf tr)[i]? = some (ms, e) →
      (triggerFrames tr)[i]? = some t →
      ∃ pre, pre ≤ c.K - 1 ∧ pre ≤ t ∧ ids.length = pre + ms.length ∧ ids[pre]? = some t ∧
        ids = List.range' (t - pre) (pre + ms.length) := by
  intro tr
  obtain ⟨L, h1, h2, h3, hwf, _⟩ := model_link c hK evs hw
  refine ⟨?_, triggerFrames_length tr, ?_⟩
  · show (recordings tr).length = (recordingsOf tr).length
    rw [h1, h2]; simp
  · intro i ids ms e t g1 g2 g3
    have g1' : (L.map Entry.ids)[i]? = some ids := by rw [← h1]; exact g1
    have g2' : (L.map Entry.view)[i]? = some (ms, e) := by rw [← h2]; exact g2
    have g3' : (L.map (·.t))[i]? = some t := by rw [← h3]; exact g3
    obtain ⟨x, hx, rfl, rfl, rfl, rfl⟩ := views_at g1' g2' g3'
    obtain ⟨w1, w2, w3⟩ := hwf x (List.mem_of_getElem? hx)
    refine ⟨x.pre, by unfold Entry.pre; omega, by unfold Entry.pre; omega, ids_length x, ids_trigger x w1 w3,
      ids_eq x w1⟩

/-! ## (2) the pipeline -/

/-- the model's recordings with the length rule applied: the core of the pipeline theorems -/
theorem model_extent (c : PCfg) (hK : 0 < c.K) (hmm : c.minF ≤ c.maxF) (evs : List Ev)
    (hw : C01.NoWriteFaults evs) :
    let tr := PState.trace c (PState.init c) evs
    ∃ L : List Entry,
      recordings tr = L.map Entry.ids ∧ recordingsOf tr = L.map Entry.view ∧ triggerFrames tr = L.map (·.t) ∧
      Tiled c.K 0 L ∧ (∀ x ∈ L, x.WF c.K) ∧ ∀ x ∈ L, Extent c x := by
  intro tr
  obtain ⟨L, h1, h2, h3, hwf, ht⟩ := model_link c hK evs hw
  obtain ⟨hrule, _, hwf2⟩ := c03_length_rule c hK hmm evs hw
  refine ⟨L, h1, h2, h3, ht, hwf, ?_⟩
  intro x hx
  have hmem : x.view ∈ recordingsOf tr := by
    show x.view ∈ recordingsOf (PState.trace c (PState.init c) evs)
    rw [h2]; exact List.mem_map_of_mem hx
  obtain ⟨b1, b2, b3, b4, b5, b6⟩ := entry_bounds c.K c.minF c.maxF x (hwf x hx) (hrule _ hmem)
  obtain ⟨k1, k2⟩ := hwf2 _ hmem
  have k2' : x.e ≠ .byRestart := k2
  exact
    { lo_le := (hwf x hx).1, pre_le := b2, len := b1, trigger := ids_trigger x (hwf x hx).1 b3, head := k1,
      post_ge := b3, post_le := b4,
      kind := by cases he : x.e <;> simp_all,
      stop_len := b5, cut_len := b6 }

section pipeline
variable {F : FloatOps}

/-- **Length and extent of every motion file** (entry form).  Throttle off, ring capacity `K ≥ 1`,
`minF ≤ maxF`, every `FloatOps`, every history of gate values / socket items / test requests: there is one list
of entries whose id lists are the motion files (oldest first), whose `(ms, e)` pairs are the recordings of the
induced processor trace in the sense of `Props.C03Spec`, whose `t` are the trigger frames; the entries tile
(`Tiled`) and each satisfies `Extent`. -/
theorem pipe_extent (c : PipeCfg) (hK : 0 < c.proc.K) (hmm : c.proc.minF ≤ c.proc.maxF)
    (hthr : c.throttle = false) (gs : List GOp) :
    let p := runG F c gs
    let tr := PState.trace c.proc (PState.init c.proc) (evsG F c gs)
    ∃ L : List Entry,
      motionFiles p = L.map Entry.ids ∧ recordingsOf tr = L.map Entry.view ∧ triggerFrames tr = L.map (·.t) ∧
      Tiled c.proc.K 0 L ∧ ∀ x ∈ L, Extent c.proc x := by
  intro p tr
  obtain ⟨hw, _, hR, _, _⟩ := pipe_gates_files_are_recordings (F := F) c hK hthr gs
  obtain ⟨L, h1, h2, h3, ht, _, hx⟩ := model_extent c.proc hK hmm (evsG F c gs) hw
  exact ⟨L, hR.trans h1, h2, h3, ht, hx⟩

/-- the same for the fixed-configuration pipeline of `Props.C01Spec` (the induced event list is the one of
`pipe_files_are_recordings`) -/
theorem pipe_extent_fixed (c : PipeCfg) (hK : 0 < c.proc.K) (hmm : c.proc.minF ≤ c.proc.maxF)
    (hthr : c.throttle = false) (ops : List PipeOp) :
    let p := ops.foldl (Pipe.op c) (Pipe.init F c)
    ∃ (evs : List Ev) (L : List Entry), C01.NoWriteFaults evs ∧
      p.proc = PState.after c.proc (PState.init c.proc) evs ∧
      motionFiles p = L.map Entry.ids ∧
      recordingsOf (PState.trace c.proc (PState.init c.proc) evs) = L.map Entry.view ∧
      triggerFrames (PState.trace c.proc (PState.init c.proc) evs) = L.map (·.t) ∧
      Tiled c.proc.K 0 L ∧ ∀ x ∈ L, Extent c.proc x := by
  intro p
  obtain ⟨evs, hw, hp, hR, _⟩ := pipe_files_are_recordings (F := F) c hK hthr ops
  obtain ⟨L, h1, h2, h3, ht, _, hx⟩ := model_extent c.proc hK hmm evs hw
  exact ⟨evs, L, hw, hp, hR.trans h1, h2, h3, ht, hx⟩

/-- **every motion file, however it ended** (closed by the length rule, by a bad frame or a `clear` marker, or
still open): at least one frame, at most `(K − 1) + max 1 maxF` -/
theorem pipe_file_length (c : PipeCfg) (hK : 0 < c.proc.K) (hmm : c.proc.minF ≤ c.proc.maxF)
    (hthr : c.throttle = false) (gs : List GOp) :
    ∀ r ∈ motionFiles (runG F c gs), 1 ≤ r.length ∧ r.length ≤ (c.proc.K - 1) + max 1 c.proc.maxF := by
  intro r hr
  obtain ⟨L, h1, _, _, _, hx⟩ := pipe_extent (F := F) c hK hmm hthr gs
  rw [h1] at hr
  obtain ⟨x, hxL, rfl⟩ := List.mem_map.mp hr
  have e := hx x hxL
  have := e.len; have := e.pre_le; have := e.post_ge; have := e.post_le
  omega

/-- **C02 + C03 end to end** (index form).  The motion files, the recordings of the induced trace and the
trigger frames correspond position by position.  For the `i`-th motion file `r`, with `(ms, e)` the `i`-th entry
of `recordingsOf` and `t` the `i`-th trigger frame, there is `pre ≤ K − 1` such that
* `r = [t − pre, …, t + ms.length − 1]`: `pre` pre-trigger frames, then `ms.length` frames from the trigger frame on;
* `pre < K − 1` only if the file begins with frame 0 or right after the last frame of the previous motion file;
* closed by the length rule (`e = byStop`): `r.length = pre + max 1 (min maxF (L − 1 + minF))`;
* ended otherwise: `r.length < pre + min maxF (L − 1 + minF)`;
* always `1 ≤ ms.length ≤ max 1 maxF`, and `e` is `byStop`, `byBadOrReset` or `stillOpen`. -/
theorem pipe_c03 (c : PipeCfg) (hK : 0 < c.proc.K) (hmm : c.proc.minF ≤ c.proc.maxF)
    (hthr : c.throttle = false) (gs : List GOp) :
    let p := runG F c gs
    let tr := PState.trace c.proc (PState.init c.proc) (evsG F c gs)
    (motionFiles p).length = (recordingsOf tr).length ∧
    (triggerFrames tr).length = (recordingsOf tr).length ∧
    ∀ (i : Nat) (r : List Nat) (ms : List Bool) (e : EndKind) (t : Nat), (motionFiles p)[i]? = some r → (recordingsOf tr)[i]? = some (ms, e) →
      (triggerFrames tr)[i]? = some t →
      ∃ pre, pre ≤ c.proc.K - 1 ∧ pre ≤ t ∧ r = List.range' (t - pre) (pre + ms.length) ∧
        (pre < c.proc.K - 1 → (i = 0 ∧ t - pre = 0) ∨
          ∃ r' l, 0 < i ∧ (motionFiles p)[i - 1]? = some r' ∧ r'.getLast? = some l ∧ t - pre = l + 1) ∧
        1 ≤ ms.length ∧ ms.length ≤ max 1 c.proc.maxF ∧ ms.head? = some true ∧
        (e = .byStop ∨ e = .byBadOrReset ∨ e = .stillOpen) ∧
        (e = .byStop → r.length = pre + max 1 (min c.proc.maxF (lastMotion ms - 1 + c.proc.minF))) ∧
        (e ≠ .byStop → r.length < pre + min c.proc.maxF (lastMotion ms - 1 + c.proc.minF)) := by
  intro p tr
  obtain ⟨hw, _, hR, _, _⟩ := pipe_gates_files_are_recordings (F := F) c hK hthr gs
  obtain ⟨L, h1, h2, h3, ht, hwf, hx⟩ := model_extent c.proc hK hmm (evsG F c gs) hw
  have hfiles : motionFiles p = L.map Entry.ids := hR.trans h1
  refine ⟨?_, triggerFrames_length tr, ?_⟩
  · show (motionFiles p).length = (recordingsOf tr).length
    rw [hfiles]
    show _ = (recordingsOf (PState.trace c.proc (PState.init c.proc) (evsG F c gs))).length
    rw [h2]; simp
  · intro i r ms e t g1 g2 g3
    have g1' : (L.map Entry.ids)[i]? = some r := by rw [← hfiles]; exact g1
    have g2' : (L.map Entry.view)[i]? = some (ms, e) := by rw [← h2]; exact g2
    have g3' : (L.map (·.t))[i]? = some t := by rw [← h3]; exact g3
    obtain ⟨x, hxi, rfl, rfl, rfl, rfl⟩ := views_at g1' g2' g3'
    obtain ⟨hi, hxe⟩ := List.getElem?_eq_some_iff.mp hxi
    have ex := hx x (List.mem_of_getElem? hxi)
    refine ⟨x.pre, ex.pre_le, by unfold Entry.pre; omega, ids_eq x ex.lo_le, ?_, ex.post_ge, ex.post_le, ex.head,
      ex.kind, ?_, ?_⟩
    · intro hshort
      have hlo : x.t - x.pre = x.lo := by have := ex.lo_le; unfold Entry.pre; omega
      rw [hlo]
      rcases tiled_short c.proc.K L ht hwf i hi (by rw [hxe]; exact hshort) with ⟨h0, hz⟩ | ⟨j, hj, hij, hz⟩
      · rw [hxe] at hz; exact Or.inl ⟨h0, hz⟩
      · rw [hxe] at hz
        have wj := hwf L[j] (List.getElem_mem hj)
        refine Or.inr ⟨L[j].ids, L[j].stop - 1, by omega, ?_, ids_getLast L[j] wj.1 wj.2.2, ?_⟩
        · rw [hfiles, hij, Nat.add_sub_cancel, List.getElem?_map, List.getElem?_eq_getElem hj]; rfl
        · rw [hz]
          have : 1 ≤ L[j].stop := by have := wj.2.2; unfold Entry.stop; omega
          omega
    · intro he
      rw [ex.len, ex.stop_len he]
    · intro he
      have := ex.cut_len he
      rw [ex.len]; omega

/-- **a motion file closed by the length rule, `1 ≤ minF ≤ maxF`**: it holds `pre ≤ K − 1` pre-trigger frames and
then EXACTLY `min maxF (L − 1 + minF)` frames from the trigger frame on, `L ≥ 1` being the index of its last
motion frame — so `minF ≤ r.length ≤ (K − 1) + maxF`. -/
theorem pipe_c03_stopped (c : PipeCfg) (hK : 0 < c.proc.K) (hmm : c.proc.minF ≤ c.proc.maxF)
    (h1 : 1 ≤ c.proc.minF) (hthr : c.throttle = false) (gs : List GOp) :
    let p := runG F c gs
    let tr := PState.trace c.proc (PState.init c.proc) (evsG F c gs)
    ∀ (i : Nat) (r : List Nat) (ms : List Bool), (motionFiles p)[i]? = some r → (recordingsOf tr)[i]? = some (ms, .byStop) →
      ∃ pre, pre ≤ c.proc.K - 1 ∧ 1 ≤ lastMotion ms ∧ lastMotion ms ≤ ms.length ∧
        r.length = pre + min c.proc.maxF (lastMotion ms - 1 + c.proc.minF) ∧
        ms.length = min c.proc.maxF (lastMotion ms - 1 + c.proc.minF) ∧
        c.proc.minF ≤ r.length ∧ r.length ≤ (c.proc.K - 1) + c.proc.maxF := by
  intro p tr i r ms g1 g2
  obtain ⟨hlen, hlen2, hall⟩ := pipe_c03 (F := F) c hK hmm hthr gs
  have hi : i < (triggerFrames tr).length := by
    rw [hlen2]; exact (List.getElem?_eq_some_iff.mp g2).1
  obtain ⟨pre, p1, _, p3, _, _, _, p7, _, p9, _⟩ :=
    hall i r ms .byStop (triggerFrames tr)[i] g1 g2 (List.getElem?_eq_getElem hi)
  have hL := lastMotion_pos_of_head ms p7
  have hle := lastMotion_le ms
  have hr := p9 rfl
  have hrl : r.length = pre + ms.length := by rw [p3]; simp
  refine ⟨pre, p1, hL, hle, ?_, ?_, ?_, ?_⟩ <;> omega

/-! ## (3) in seconds -/

/-- **for the documentation**: with ring capacity `K = preview·fps + trig` (preview seconds, trigger frames) and
`maxF = max·fps ≥ 1`, no motion file — finished or not — holds more than `(preview + max)·fps + trig − 1`
frames -/
theorem pipe_file_frames_le (c : PipeCfg) (preview maxS : Nat)
    (hKs : c.proc.K = preview * c.fps + c.proc.trig) (hmaxs : c.proc.maxF = maxS * c.fps)
    (hK : 0 < c.proc.K) (hmm : c.proc.minF ≤ c.proc.maxF) (hmax1 : 1 ≤ c.proc.maxF)
    (hthr : c.throttle = false) (gs : List GOp) :
    ∀ r ∈ motionFiles (runG F c gs), r.length ≤ (preview + maxS) * c.fps + c.proc.trig - 1 := by
  intro r hr
  obtain ⟨_, h⟩ := pipe_file_length (F := F) c hK hmm hthr gs r hr
  rw [Nat.add_mul]
  rw [hKs, hmaxs] at h
  rw [hKs] at hK
  rw [hmaxs] at hmax1
  omega

/-- … and a file closed by the length rule holds at least `min·fps` frames (`minF = min·fps ≥ 1`) -/
theorem pipe_file_frames_ge (c : PipeCfg) (minS : Nat) (hmins : c.proc.minF = minS * c.fps)
    (hK : 0 < c.proc.K) (hmm : c.proc.minF ≤ c.proc.maxF) (h1 : 1 ≤ c.proc.minF)
    (hthr : c.throttle = false) (gs : List GOp) :
    let p := runG F c gs
    let tr := PState.trace c.proc (PState.init c.proc) (evsG F c gs)
    ∀ (i : Nat) (r : List Nat) (ms : List Bool), (motionFiles p)[i]? = some r → (recordingsOf tr)[i]? = some (ms, .byStop) →
      minS * c.fps ≤ r.length := by
  intro p tr i r ms g1 g2
  obtain ⟨pre, _, _, _, _, _, h, _⟩ := pipe_c03_stopped (F := F) c hK hmm h1 hthr gs i r ms g1 g2
  rw [← hmins]; exact h

end pipeline

/-! ## (4) non-vacuity -/

section examples
open TR.PipeLemmas.Tiny

/-- a socket item with both gates open -/
private def it (i : Socket.Item) : GOp := ⟨true, true, .item i⟩

/-- per motion file: (ids, number of pre-trigger frames, number of frames from the trigger frame on, end kind) —
computed from the three lists the theorems speak about -/
def splitOf (F : FloatOps) (c : PipeCfg) (gs : List GOp) : List (List Nat × Nat × Nat × EndKind) :=
  let tr := PState.trace c.proc (PState.init c.proc) (evsG F c gs)
  ((motionFiles (runG F c gs)).zip ((triggerFrames tr).zip (recordingsOf tr))).map
    fun x => (x.1, x.2.1 - x.1.headD 0, x.2.2.1.length, x.2.2.2)

/-- the history of `Props.C01Spec` on the tiny pipeline (`K = 3`, `minF = 2`, `maxF = 10`, `trig = 1`; one-diff
detection: every change of scene is motion): cold, cold, hot, hot, hot, `clear`, a test request, cold, hot, hot,
a rejected frame, hot -/
private def hist : List GOp :=
  [it cold, it cold, it hot, it hot, it hot, it .clear, ⟨true, true, .testReq⟩, it cold, it hot, it hot, it badf,
   it hot]

set_option maxRecDepth 20000 in
/-- two motion files; the id lists, the trigger frames, the motion bits with the end kinds -/
example :
    let tr := PState.trace c0.proc (PState.init c0.proc) (evsG F0 c0 hist)
    motionFiles (runG F0 c0 hist) = [[0, 1, 2, 3], [4, 5, 6, 7]] ∧ triggerFrames tr = [2, 6] ∧
    recordingsOf tr = [([true, false], .byStop), ([true, false], .byStop)] := by decide

set_option maxRecDepth 20000 in
/-- the (pre, post) split: both files have the full reach `K − 1 = 2` before their trigger frames 2 and 6 and
`min maxF (L − 1 + minF) = min 10 (1 − 1 + 2) = 2` frames from the trigger frame on -/
example : splitOf F0 c0 hist = [([0, 1, 2, 3], 2, 2, .byStop), ([4, 5, 6, 7], 2, 2, .byStop)] := by decide

/-- cold, hot, cold, cold, hot, hot, cold, cold ×4, hot, a rejected frame -/
private def hist2 : List GOp :=
  [it cold, it hot, it cold, it cold, it hot, it hot, it cold, it cold, it cold, it cold, it cold, it hot, it badf]

set_option maxRecDepth 20000 in
/-- four files: trigger at frame 1 — only one pre-trigger frame exists (start-up), motion on frames 1 and 2,
`L = 2`, so `2 − 1 + 2 = 3` frames from the trigger on; triggers at 4 and 6 — no pre-trigger frame, each file
begins right after the previous one; trigger at 11 — full reach 9, 10, cut by the rejected frame after one
frame (`1 < min 10 (1 − 1 + 2)`) -/
example : splitOf F0 c0 hist2 =
    [([0, 1, 2, 3], 1, 3, .byStop), ([4, 5], 0, 2, .byStop), ([6, 7], 0, 2, .byStop),
     ([9, 10, 11], 2, 1, .byBadOrReset)] := by decide

set_option maxRecDepth 20000 in
/-- the same history without the rejected frame: the last file is still open -/
example : (splitOf F0 c0 hist2.dropLast).getLast? = some ([9, 10, 11], 2, 1, .stillOpen) := by decide

/-- the tiny configuration with `minF = 0` -/
private def cZ : PipeCfg := { c0 with proc := { c0.proc with minF := 0 } }

set_option maxRecDepth 20000 in
/-- **the form `r.length = pre + min maxF (L − 1 + minF)` is FALSE for `minF = 0`**: cold, hot — the file is
closed by the length rule at its trigger frame, which is written (`pre = 1`, one frame from the trigger on, `L = 1`),
while `min maxF (L − 1 + minF) = 0`.  `pipe_c03` has `max 1 (…)`; `pipe_c03_stopped` assumes `1 ≤ minF`. -/
example :
    cZ.throttle = false ∧ 0 < cZ.proc.K ∧ cZ.proc.minF ≤ cZ.proc.maxF ∧
    splitOf F0 cZ [it cold, it hot] = [([0, 1], 1, 1, .byStop)] ∧
    min cZ.proc.maxF (lastMotion [true] - 1 + cZ.proc.minF) = 0 := by decide

set_option maxRecDepth 20000 in
/-- … and the bound `r.length ≤ (K − 1) + maxF` is FALSE for `maxF = 0` (with `minF = 0 ≤ maxF`): cold, cold, hot —
three frames, `K − 1 + maxF = 2`.  `pipe_file_length` has `max 1 maxF`; `pipe_c03_stopped` assumes `1 ≤ minF ≤ maxF`. -/
example :
    let cM : PipeCfg := { c0 with proc := { c0.proc with minF := 0, maxF := 0 } }
    cM.throttle = false ∧ 0 < cM.proc.K ∧ cM.proc.minF ≤ cM.proc.maxF ∧
    splitOf F0 cM [it cold, it cold, it hot] = [([0, 1, 2], 2, 1, .byStop)] ∧
    cM.proc.K - 1 + cM.proc.maxF = 2 := by decide

end examples

end TR.PipeC03
