import Proofs.DetC08
/-!
# C08 — border pixels and sub-threshold pixels never influence the motion detector

Relational (two-run) statements about the detector model `TR.Det` (motion/motion.go).  The
vocabulary (`IntEq`, `SameInterior`, `FloorEq`, `SameFloored`) is defined in `Proofs/DetC08.lean`:

* `IntEq c f g` — the frames `f`, `g` agree on every interior pixel
  (`edge ≤ y < resY − edge`, `edge ≤ x < resX − edge`);
* `SameInterior c as bs` — the event lists have the same skeleton (same resets, same FFC flags)
  and corresponding frames are `IntEq`;
* `FloorEq c f g` — on the interior `max (f y x) T = max (g y x) T`, `T = c.tempThresh`;
* `SameFloored c as bs` — same skeleton, corresponding frames `FloorEq`.

Quantifier: every instance of the floating-point parameter, every configuration (any `edge ≥ 0`,
any resolution, fixed or dynamic threshold for (1); fixed threshold for (2)), every pair of event
lists (frames with arbitrary FFC flags, resets) related as above, both runs starting from the
initial detector.
-/
namespace TR.C08
open TR

/-- **C08 (1).** Border pixels never influence anything: fixed OR dynamic threshold, any edge ≥ 0.
Two runs whose frames agree on the interior give the same verdicts, end with the same temperature
threshold and with backgrounds that agree on the interior. -/
theorem c08_border (F : FloatOps) (c : DCfg) (as bs : List DEv) (h : SameInterior c as bs) :
    Det.outputs c (Det.init F c) as = Det.outputs c (Det.init F c) bs ∧
    (Det.after c (Det.init F c) as).tempThresh = (Det.after c (Det.init F c) bs).tempThresh ∧
    IntEq c (Det.after c (Det.init F c) as).bg (Det.after c (Det.init F c) bs).bg := by
  obtain ⟨ho, hr⟩ := Rel1.run h _ _ (Rel1.init F c)
  exact ⟨ho, hr.tempThresh, hr.bg⟩

/-- **C08 (1), the stored background frame.** With a non-empty interior the background frame as
stored by the Go code (interior plus replicated border) is the same everywhere in both runs, and it
has been seeded in one run iff in the other.  (`hne` is needed only here: replication reads the
nearest interior pixel, which exists iff the interior is non-empty.) -/
theorem c08_background (F : FloatOps) (c : DCfg)
    (hne : 2 * c.edge < c.resX ∧ 2 * c.edge < c.resY)
    (as bs : List DEv) (h : SameInterior c as bs) :
    Det.background c (Det.after c (Det.init F c) as) =
      Det.background c (Det.after c (Det.init F c) bs) ∧
    (Det.after c (Det.init F c) as).bgSeeded = (Det.after c (Det.init F c) bs).bgSeeded := by
  obtain ⟨_, hr⟩ := Rel1.run h _ _ (Rel1.init F c)
  refine ⟨?_, hr.bgSeeded⟩
  funext y x
  simp only [Det.background]
  rw [hr.bgSeeded, hr.bg _ _ (inI_clamp c hne y x)]

/-- **C08 (1), everything else the detector keeps.** The remaining scalar state agrees too, the
per-pixel weights agree on the interior, and both frame rings have the same shape with
interior-equal slots. -/
theorem c08_border_state (F : FloatOps) (c : DCfg) (as bs : List DEv) (h : SameInterior c as bs) :
    Rel1 c (Det.after c (Det.init F c) as) (Det.after c (Det.init F c) bs) :=
  (Rel1.run h _ _ (Rel1.init F c)).2

/-- **C08 (2).** With a fixed threshold, sub-threshold (cold) pixels never influence detection:
two runs whose frames agree on the interior once raised to the threshold give the same verdicts. -/
theorem c08_cold (F : FloatOps) (c : DCfg) (hdyn : c.dynamic = false) (as bs : List DEv)
    (h : SameFloored c as bs) :
    Det.outputs c (Det.init F c) as = Det.outputs c (Det.init F c) bs :=
  (Rel2.run hdyn h _ _ (Rel2.init F c)).1

/-- **C08 (1)+(2) combined.** With a fixed threshold the verdicts depend only on the interior pixels
raised to the threshold (`SameInterior` is the special case of equal interior pixels). -/
theorem c08_cold_of_interior (F : FloatOps) (c : DCfg) (hdyn : c.dynamic = false)
    (as bs : List DEv) (h : SameInterior c as bs) :
    Det.outputs c (Det.init F c) as = Det.outputs c (Det.init F c) bs :=
  c08_cold F c hdyn as bs h.toFloored

/-! ### Non-vacuity -/

/-- a small instance of the floating-point parameter (integer arithmetic) -/
def natOps : FloatOps :=
  { ω := Nat, w0 := 0, lower := fun n w b => decide (n < b + w), bump := fun w => w + 1,
    α := Nat, a0 := 0, add := fun _ acc p => acc + p, trunc := fun a => a / 4 }

/-- 4×4 sensor, one border pixel all round (2×2 interior), gap 1, dynamic threshold -/
def cfgB : DCfg :=
  { resX := 4, resY := 4, edge := 1, gap := 1, useOneDiff := false, deltaThresh := 3,
    countThresh := 2, tempThresh := 10, threshMin := 0, threshMax := 0, warmerOnly := false,
    dynamic := true, previewFrames := 0, ffcPeriod := 0 }

/-- the same with a fixed threshold of 10 -/
def cfgF : DCfg := { cfgB with dynamic := false }

def flat (v : Nat) : Frame := fun _ _ => v
/-- `v` on the interior rows, garbage in the top row -/
def hotBorder (v : Nat) : Frame := fun y _ => if y = 0 then 60000 else v

theorem intEq_hot (v : Nat) : IntEq cfgB (hotBorder v) (flat v) := by
  intro y x hi
  simp only [DCfg.inI, Bool.and_eq_true, decide_eq_true_eq] at hi
  simp only [DCfg.rowStop, DCfg.colStop, cfgB] at hi
  simp only [hotBorder, flat]
  rw [if_neg (by omega)]

/-- the hypothesis of `c08_border` holds for runs that differ (only) on the border … -/
example : SameInterior cfgB
    [.frame (hotBorder 20) false, .frame (flat 30) true, .reset, .frame (hotBorder 40) false]
    [.frame (flat 20) false, .frame (flat 30) true, .reset, .frame (flat 40) false] :=
  .frame (intEq_hot 20) (.frame (IntEq.refl _ _) (.reset (.frame (intEq_hot 40) .nil)))

/-- … and the frames really differ there -/
example : hotBorder 20 0 0 ≠ flat 20 0 0 := by decide

/-- the interior of `cfgB` is non-empty (hypothesis `hne` of `c08_background`) -/
example : 2 * cfgB.edge < cfgB.resX ∧ 2 * cfgB.edge < cfgB.resY := by decide

/-- the verdict lists compared by `c08_border` are not trivially all-`false`: with a dynamic
threshold the dirty-border run reports motion on its third frame -/
example :
    Det.outputs cfgB (Det.init natOps cfgB)
      [.frame (hotBorder 20) false, .frame (hotBorder 30) false, .frame (hotBorder 40) false] =
      [false, false, true] := by
  decide

/-- cold pixels: everything at or below the threshold 10 is the same frame to the detector -/
theorem floorEq_cold (a b : Nat) (ha : a ≤ 10) (hb : b ≤ 10) : FloorEq cfgF (flat a) (flat b) := by
  intro y x _
  show max a 10 = max b 10
  omega

/-- the hypotheses of `c08_cold` hold for runs that differ on every (cold) pixel … -/
example : cfgF.dynamic = false ∧ SameFloored cfgF
    [.frame (flat 3) false, .reset, .frame (flat 7) true, .frame (flat 30) false]
    [.frame (flat 9) false, .reset, .frame (flat 0) true, .frame (flat 30) false] :=
  ⟨rfl, .frame (floorEq_cold 3 9 (by decide) (by decide))
    (.reset (.frame (floorEq_cold 7 0 (by decide) (by decide)) (.frame (FloorEq.refl _ _) .nil)))⟩

/-- … and with a fixed threshold the detector does report motion (third frame), also when the
earlier frames are cold -/
example :
    Det.outputs cfgF (Det.init natOps cfgF)
      [.frame (flat 3) false, .frame (flat 30) false, .frame (flat 40) false] =
      [false, false, true] := by
  decide

/-- `c08_cold` needs the fixed threshold: with a dynamic threshold cold pixels DO matter (they
feed the background mean and so the threshold).  Two runs that are `SameFloored` for `cfgB`'s
initial threshold 10 but give different verdicts. -/
example :
    SameFloored cfgB
      [.frame (flat 0) false, .frame (flat 6) false, .frame (flat 11) false]
      [.frame (flat 10) false, .frame (flat 10) false, .frame (flat 11) false] ∧
    Det.outputs cfgB (Det.init natOps cfgB)
      [.frame (flat 0) false, .frame (flat 6) false, .frame (flat 11) false] ≠
    Det.outputs cfgB (Det.init natOps cfgB)
      [.frame (flat 10) false, .frame (flat 10) false, .frame (flat 11) false] := by
  refine ⟨.frame ?_ (.frame ?_ (.frame (FloorEq.refl _ _) .nil)), by decide⟩
  · intro y x _; show max 0 10 = max 10 10; decide
  · intro y x _; show max 6 10 = max 10 10; decide

end TR.C08
